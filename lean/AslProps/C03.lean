import AslModel.Str
import AslProofs.Str
import AslProofs.StrRep
import AslProofs.StrOps
import AslProofs.StrHist
import AslProofs.StrExtra
import AslProofs.StrQuery
import AslProofs.StrDic
import AslProofs.CsvNum
/-!
# C03 — `asl::String` agrees with a byte-string model and stays in bounds

Property theorems only (helper lemmas: `AslProofs/Str*.lean`).  They are about the functions the model
driver `Driver/C03.lean` runs (`AslModel.Str.Rep.*`, `AslModel.Str.*`), which the correspondence check ties to
`src/String.cpp` / `include/asl/String.h` on every run.

Reading guide.  `Models r s` ("`r` represents the byte string `s`") is the representation invariant:
the storage block has exactly `cap()` bytes, `_len = |s|`, the block starts with `s` followed by a NUL, and `s`
contains no NUL — hence `strlen(str()) = length()` and `length() < cap()` (`rep_inv`).  Every block access of the
model goes through `rd`/`wr`, which return `none` outside the block; a theorem of the form
`∃ r', op … = some r' ∧ Models r' (spec)` therefore says three things at once: the operation never leaves its
storage, the invariant is re-established, and the resulting text is the byte-string specification on the right.
The specifications are plain list expressions (`++`, `take`, `drop`, `dropWhile`, `replicate`) or the
character-level scanners `splitAbs` / `replaceAbs`; none of them mentions indices, capacities or the code's loops.
All lengths are unbounded naturals: the inline/heap switch at 16, the first heap sizes 20/24, doubling and the
malloc/realloc switch at 1 KiB are branches inside `resize`, covered by the same statements.
-/
namespace C03
open AslModel.Str AslModel.Str.Rep AslProofs.Str

/-! ## representation invariant -/

/-- `length()` is the offset of the terminating NUL, the text is what the API returns, and it fits the block -/
theorem rep_inv {r : Rep} {s : Bytes} (h : Models r s) :
    r.toList = s ∧ r.view = s ∧ (cstr r.buf).length = r.len ∧ r.len < r.cap ∧ r.buf.length = r.cap := by
  refine ⟨h.toList, h.view, ?_, ?_, h.1⟩
  · have := h.view; unfold Rep.view at this; rw [this, h.2.1]
  · rw [h.2.1]; exact h.lt_cap

/-- every non-formatting constructor: `String()`, `String(const char*, n)`, `String(const char*)`,
    `String(const Array<char>&)` / `String(const ByteArray&)`, copy construction, `String(char)`, `String(bool)`,
    `repeat(c, n)` for every `int n` (a negative count gives the empty string) — in bounds, invariant established, text as given.
    (Number and printf constructors: `itoa_atoi` … `printf_retry_total`, `float_ctor_spec`.) -/
theorem construct_spec :
    Models Rep.empty [] ∧
    (∀ b, NulFree b → ∃ r, ofBytes b = some r ∧ Models r b) ∧
    (∀ b, NulFree b → ∃ r, ofCStr b = some r ∧ Models r b) ∧
    (∀ b, NulFree b → ∃ r, ofArray b = some r ∧ Models r b) ∧
    (∀ r s, Models r s → ∃ r', copy r = some r' ∧ Models r' s) ∧
    (∀ c, c ≠ 0 → ∃ r, ofChar c = some r ∧ Models r [c]) ∧
    (∀ x, ∃ r, ofBool x = some r ∧ Models r (if x then [116, 114, 117, 101] else [102, 97, 108, 115, 101])) ∧
    (∀ c (n : Int), c ≠ 0 → ∃ r, repeatChar c n = some r ∧ Models r (List.replicate (if n < 0 then 0 else n.toNat) c)) :=
  ⟨empty_models, ofBytes_spec, ofCStr_spec, ofBytes_spec, fun _ _ h => copy_spec h, ofChar_spec, ofBool_spec,
   fun c n h => repeatChar_spec c h n⟩

/-- `resize(n)` for every `n` and every storage state (inline, heap below and above 1 KiB; growing or not):
    in bounds, `length() = n`, terminated at `n`, and the first `min(n, old length)` bytes are the old ones -/
theorem resize_spec {r : Rep} {s : Bytes} (h : Models r s) (n : Nat) :
    ∃ r', r.resize n = some r' ∧ r'.len = n ∧ r'.buf.length = r'.cap ∧ n < r'.cap ∧
      r'.buf.getD n 1 = 0 ∧ (r'.buf.take n).take s.length = s.take n := by
  obtain ⟨r', B, hr, hl, hc, ⟨Y, hY⟩, hB, hbuf⟩ := resize_keep h n
  have hlen : (B.take n).length = n := by simp only [List.length_take]; omega
  refine ⟨r', hr, hl, hc, ?_, ?_, ?_⟩
  · rw [← hc, hbuf]; simp only [List.length_append, List.length_cons, hlen]; omega
  · rw [hbuf, List.getD_eq_getElem?_getD, List.getElem?_append_right (by omega), hlen]; simp
  · rw [hbuf, List.take_left' hlen]; subst hY
    rw [List.take_take, List.take_append]
    by_cases hn : n ≤ s.length
    · have e1 : min s.length n - s.length = 0 := by omega
      have e2 : n - s.length = 0 := by omega
      have e3 : min s.length n = n := by omega
      simp [e2, e3]
    · have e3 : min s.length n = s.length := by omega
      simp [e3, List.take_of_length_le (show s.length ≤ n by omega)]

/-- truncation `resize(n)`, `n ≤ length()`, and `resize(n, true, false)` (capacity only) -/
theorem resize_shrink_reserve {r : Rep} {s : Bytes} (h : Models r s) (n : Nat) :
    (n ≤ s.length → ∃ r', r.resize n = some r' ∧ Models r' (s.take n)) ∧
    (∃ r', r.resize n true false = some r' ∧ Models r' s) :=
  ⟨shrink_spec h n, resize_reserve h n⟩

/-! ## append / assign, including a string appended or assigned to (a piece of) itself -/

theorem append_spec {r : Rep} {s b : Bytes} (h : Models r s) (hb : NulFree b) :
    ∃ r', r.append (.ext b) = some r' ∧ Models r' (s ++ b) := append_ext h hb

theorem append_char_spec {r : Rep} {s : Bytes} (h : Models r s) (c : UInt8) (hc : c ≠ 0) :
    ∃ r', r.appendChar c = some r' ∧ Models r' (s ++ [c]) := appendChar_spec h c hc

/-- `s.append(s.data() + off, n)` for every piece `[off, off+n)` of the string, whatever the growth it triggers -/
theorem self_append_spec {r : Rep} {s : Bytes} (h : Models r s) (off n : Nat) (hp : off + n ≤ s.length) :
    ∃ r', r.append (.self off n) = some r' ∧ Models r' (s ++ (s.drop off).take n) := by
  have := append_self h off n hp
  rwa [sub_add] at this

/-- `s += s` -/
theorem self_plus_spec {r : Rep} {s : Bytes} (h : Models r s) :
    ∃ r', r.append (.self 0 r.len) = some r' ∧ Models r' (s ++ s) := by
  have := self_append_spec h 0 s.length (by omega)
  simpa [h.2.1] using this

theorem assign_spec {r : Rep} {s b : Bytes} (h : Models r s) (hb : NulFree b) :
    ∃ r', r.assign (.ext b) = some r' ∧ Models r' b := assign_ext h hb

/-- `s.assign(*s + off, n)`, `s = *s + off`, `s = s` -/
theorem assign_piece_spec {r : Rep} {s : Bytes} (h : Models r s) (off n : Nat) (hp : off + n ≤ s.length) :
    ∃ r', r.assign (.self off n) = some r' ∧ Models r' ((s.drop off).take n) := by
  have := assign_self h off n hp
  rwa [sub_add] at this

/-! ## all histories of in-place mutations on one String -/

/- the table of `Mut.abs` (the byte-string meaning of each of the 17 mutations) is spelled out, line by line,
   in `AslProofs.Str.mutation_meaning` (`AslProofs/StrHist.lean`) -/

/-- every single mutation: in bounds, invariant kept, result = its byte-string meaning -/
theorem mutation_spec {r : Rep} {s : Bytes} (h : Models r s) (m : Mut) (hv : m.Valid) :
    ∃ r', r.mutate m = some r' ∧ Models r' (Mut.abs s m) := mutate_spec h m hv

/-- every finite history of mutations applied to one String, from any represented start:
    no step leaves the storage, the invariant holds at the end (and, being re-established by every step,
    after every prefix), and the text is the fold of the byte-string meanings -/
theorem history_inv (ms : List Mut) {r : Rep} {s : Bytes} (h : Models r s) (hv : ∀ m ∈ ms, m.Valid) :
    ∃ r', r.run ms = some r' ∧ Models r' (ms.foldl Mut.abs s) := run_spec ms h hv

/-! ## substring, substr, concat, trim -/

theorem substring_is_slice {r : Rep} {s : Bytes} (h : Models r s) (i j : Nat) (hij : i ≤ j) (hj : j ≤ s.length) :
    ∃ r', r.substring i j = some r' ∧ Models r' ((s.drop i).take (j - i)) := substring_spec h i j hij hj

/-- `substr(int i, int n)` on a string shorter than 2^31: negative `i` counts from the end, the result is at most `n`
    bytes from there — for EVERY count `0 ≤ n < 2^31` (e.g. `INT_MAX`) and every start `-len ≤ i < 2^31`; the model
    computes the indices with the code's own `int` additions (`wrap32`), none of which wraps (repaired in 98ce166;
    before, `AslProofs.Str.substr_unrepaired_counterexample`) -/
theorem substr_is_slice {r : Rep} {s : Bytes} (h : Models r s) (i n : Int) (hlen : (s.length : Int) < 2147483648)
    (hi : -(s.length : Int) ≤ i) (hi2 : i < 2147483648) (hn : 0 ≤ n) (hn2 : n < 2147483648) :
    ∃ r', r.substr i n = some r' ∧ Models r' ((s.drop (if i < 0 then i + s.length else i).toNat).take n.toNat) :=
  substr_spec h i n hlen hi hi2 hn hn2

theorem concat_is_append {r : Rep} {s b : Bytes} (h : Models r s) (hb : NulFree b) :
    ∃ r', r.concat b = some r' ∧ Models r' (s ++ b) := concat_spec h hb

/-- `const char* + String` (`String s(a); s += b;`): in bounds, well-formed, the text is `a ++ b` -/
theorem cstr_plus_string {r : Rep} {s a : Bytes} (h : Models r s) (ha : NulFree a) :
    ∃ r', Rep.rconcat a r = some r' ∧ Models r' (a ++ s) := by
  obtain ⟨r0, h0, hm0⟩ := ofCStr_spec a ha
  obtain ⟨r', h1, hm1⟩ := append_ext hm0 h.2.2.1
  exact ⟨r', by unfold Rep.rconcat; rw [h0, Option.bind_some, h.toList]; exact h1, hm1⟩

/-- `char + String` (`String s(c); s += b;`): in bounds, well-formed, the text is `c :: b` -/
theorem char_plus_string {r : Rep} {s : Bytes} (h : Models r s) (c : UInt8) (hc : c ≠ 0) :
    ∃ r', Rep.rconcatChar c r = some r' ∧ Models r' (c :: s) := by
  obtain ⟨r0, h0, hm0⟩ := ofChar_spec c hc
  obtain ⟨r', h1, hm1⟩ := append_ext hm0 h.2.2.1
  exact ⟨r', by unfold Rep.rconcatChar; rw [h0, Option.bind_some, h.toList]; exact h1, hm1⟩

/-- `trim()` (in place) and `trimmed()` remove exactly the leading and trailing blanks -/
theorem trim_removes_blanks {r : Rep} {s : Bytes} (h : Models r s) :
    (∃ r', r.trim = some r' ∧ Models r' ((s.dropWhile isSpace).reverse.dropWhile isSpace).reverse) ∧
    (∃ r', r.trimmed = some r' ∧ Models r' ((s.dropWhile isSpace).reverse.dropWhile isSpace).reverse) := by
  have h1 := trim_spec h
  have h2 := trimmed_spec h
  rw [trimmed_eq] at h1 h2
  exact ⟨h1, h2⟩

/-- `myisspace` is exactly space, tab, CR, LF (also for bytes ≥ 0x80, where `char` is negative) -/
theorem isSpace_iff (c : UInt8) : isSpace c = true ↔ c = 32 ∨ c = 9 ∨ c = 10 ∨ c = 13 := by
  have key : ∀ n, n < 256 → (isSpace (UInt8.ofNat n) = true ↔
      UInt8.ofNat n = 32 ∨ UInt8.ofNat n = 9 ∨ UInt8.ofNat n = 10 ∨ UInt8.ofNat n = 13) := by decide +kernel
  have := key c.toNat c.toNat_lt
  simpa using this

/-! ## search -/

/-- `indexOf(pat, i0)` returns the leftmost occurrence at or after `i0`, or −1 (`none`) when there is none -/
theorem indexOf_leftmost (s pat : Bytes) (i0 : Nat) (hi : i0 ≤ s.length) :
    (∀ k, indexOf s pat i0 = some k →
      i0 ≤ k ∧ pat <+: s.drop k ∧ k + pat.length ≤ s.length ∧ ∀ k', i0 ≤ k' → k' < k → ¬ pat <+: s.drop k') ∧
    (indexOf s pat i0 = none → ∀ k', i0 ≤ k' → ¬ pat <+: s.drop k') :=
  ⟨fun _ h => indexOf_some hi h, indexOf_none⟩

/-- `lastIndexOf(pat)`, `pat ≠ ""`: the rightmost occurrence, or −1 when there is none -/
theorem lastIndexOf_rightmost (s pat : Bytes) (hp : pat ≠ []) :
    (∀ k, lastIndexOf s pat = some k → pat <+: s.drop k ∧ ∀ k', k < k' → ¬ pat <+: s.drop k') ∧
    (lastIndexOf s pat = none → ∀ k', ¬ pat <+: s.drop k') := by
  unfold lastIndexOf
  rcases lastIndexOfLoop_spec s pat hp 0 none with ⟨hno, hr⟩ | ⟨k, _, hr, hocc, hmax⟩
  · rw [hr]
    exact ⟨fun k h => (by cases h), fun _ k' => hno k' (by omega)⟩
  · rw [hr]
    exact ⟨fun k0 h => (by cases h; exact ⟨hocc, hmax⟩), fun h => (by cases h)⟩

/-- libc `strcmp` (as modelled) orders byte strings lexicographically by unsigned bytes -/
theorem compare_lex (a b : Bytes) :
    (strcmp a b = -1 ∧ a < b) ∨ (strcmp a b = 0 ∧ a = b) ∨ (strcmp a b = 1 ∧ b < a) := strcmp_spec a b

/-- the comparison operators on two Strings: `==` (length test + `memcmp`) and `!=` decide equality of the texts,
    `<` / `compare` (strcmp) decide the lexicographic order, `==(const char*)` decides equality with a C string -/
theorem comparison_ops {r r' : Rep} {s t : Bytes} (h : Models r s) (h' : Models r' t) :
    (r.eq r' = true ↔ s = t) ∧ (r.ne r' = true ↔ s ≠ t) ∧ (r.lt r' = true ↔ s < t) ∧
    ((r.compare r' < 0 ↔ s < t) ∧ (r.compare r' = 0 ↔ s = t)) ∧ (∀ u, r.eqCStr u = true ↔ s = u) := by
  refine ⟨eq_iff h h', ?_, lt_iff h h', ⟨?_, ?_⟩, fun u => eqCStr_iff h u⟩
  · rw [ne_eq_not_eq, Bool.not_eq_true', ← Bool.not_eq_true, eq_iff h h']
  · unfold Rep.compare; rw [h.view, h'.view]; exact strcmp_lt_iff s t
  · unfold Rep.compare; rw [h.view, h'.view]; exact strcmp_eq_iff s t

/-! ## split / join / replace -/

/-- `split(sep)` on the representation: in bounds, every piece is a well-formed String, and the pieces are
    those of the standard left-to-right non-overlapping split -/
theorem split_spec {r : Rep} {s : Bytes} (h : Models r s) (sep : Bytes) (hs : sep ≠ []) :
    ∃ l, r.split sep = some l ∧ AllModels l (splitAbs sep [] s) := by
  obtain ⟨l, hl, hf⟩ := split_rep h sep
  rw [split_eq sep s hs] at hf
  exact ⟨l, hl, hf⟩

/-- splitting by a non-empty separator and joining with it is the identity -/
theorem split_join {r sepR : Rep} {s sep : Bytes} (h : Models r s) (hsep : Models sepR sep) (hs : sep ≠ []) :
    ∃ l r', r.split sep = some l ∧ Rep.join sepR l = some r' ∧ Models r' s := by
  obtain ⟨l, hl, hf⟩ := split_rep h sep
  obtain ⟨r', hj, hm⟩ := join_rep hsep hf
  refine ⟨l, r', hl, hj, ?_⟩
  have := join_splitLoop sep s hs 0 (by omega)
  rw [AslModel.Str.split, this] at hm
  simpa using hm

/-- `split(sep, out)` / `split(out)` into the caller's array, the array modelled as cells that `out.clear()` kills
    (`AslModel.Str.Rep.Cells`; reading a dead cell fails), the operands given by reference — a String elsewhere or element
    `k` of `out` itself (`out[k].split(sep, out)`, `s.split(out[k], out)`, `out[k].split(out)`).  With the repaired statement
    order (42a2190) every combination succeeds, in bounds, and `out` ends up holding exactly the pieces of the standard
    split of the old operands, whatever else the array held. -/
theorem split_into_own_array {out : Cells} {self sep : Ref} {s sp : Bytes} (hs : RefModels out self s) :
    (RefModels out sep sp → sp ≠ [] →
      ∃ l, splitInto out self sep = some (liveCells l) ∧ AllModels l (splitAbs sp [] s)) ∧
    (∃ l, splitWsInto out self = some (liveCells l) ∧ AllModels l (tokensAbs s)) :=
  ⟨fun hp hne => splitInto_spec hs hp hne, splitWsInto_spec hs⟩

/-- the statement order before the repair (`out.clear()` first), transcribed on the same cells: it fails whenever the
    string being split or the separator is an element of `out` (the operand is read through a dead cell — the
    use-after-free), and was correct when both operands live elsewhere.  So the model distinguishes the two orders
    exactly on the aliased calls.  (What this does NOT establish: that the C++ code performs its reads in the order
    transcribed — that tie is K under ASan with the ops `splitself` / `splitsepself` / `splitwsself`.) -/
theorem split_into_own_array_old_order (out : Cells) :
    (∀ k other, splitIntoOld out (.cell k) other = none ∧ splitIntoOld out other (.cell k) = none ∧
      splitWsIntoOld out (.cell k) = none) ∧
    (∀ r rp s sp, Models r s → Models rp sp → sp ≠ [] →
      (∃ l, splitIntoOld out (.ext r) (.ext rp) = some (liveCells l) ∧ AllModels l (splitAbs sp [] s)) ∧
      (∃ l, splitWsIntoOld out (.ext r) = some (liveCells l) ∧ AllModels l (tokensAbs s))) :=
  ⟨fun k other => splitIntoOld_fails out k other, fun _ _ _ _ hm hpm hne => splitIntoOld_ext out hm hpm hne⟩

/-- `join` is interleaving with the separator -/
theorem join_spec {sepR : Rep} {sep : Bytes} (hsep : Models sepR sep) {ps : List Rep} {parts : List Bytes}
    (hf : AllModels ps parts) : ∃ r', Rep.join sepR ps = some r' ∧
      Models r' (match parts with | [] => [] | p :: t => p ++ (t.map (sep ++ ·)).flatten) := by
  obtain ⟨r', hj, hm⟩ := join_rep hsep hf
  refine ⟨r', hj, ?_⟩
  cases parts with
  | nil => exact hm
  | cons p t => simpa [AslModel.Str.join, joinLoop_eq] using hm

/-- `replace(a, b)`, `a ≠ ""`: in bounds, and the result is the standard non-overlapping left-to-right replacement -/
theorem replace_spec {r : Rep} {s : Bytes} (h : Models r s) (a b : Bytes) (ha : a ≠ []) (hb : NulFree b) :
    ∃ r', r.replace a b = some r' ∧ Models r' (replaceAbs a b s) := by
  obtain ⟨r', hr, hm⟩ := replace_rep h a b hb
  rw [replace_eq s a b ha] at hm
  exact ⟨r', hr, hm⟩

/-! ## integers ↔ text -/

/-- `int` → String → `int` is the identity on all 32-bit values (and construction stays inside the inline storage) -/
theorem itoa_atoi (x : Int) (h1 : -2147483648 ≤ x) (h2 : x < 2147483648) :
    ∃ r, ofInt x = some r ∧ Models r (myitoa x) ∧ myatoi r.view = x := by
  obtain ⟨r, hr, hm⟩ := ofInt_spec x h1 h2
  exact ⟨r, hr, hm, by rw [hm.view]; exact myatoi_myitoa x h1 h2⟩

/-- `Long` → String → `Long` on all 64-bit values (incl. the most negative one) -/
theorem ltoa_atol (x : Int) (h1 : -9223372036854775808 ≤ x) (h2 : x < 9223372036854775808) :
    ∃ r, ofLong x = some r ∧ Models r (myltoa x) ∧ myatol r.view = x := by
  obtain ⟨r, hr, hm⟩ := ofLong_spec x h1 h2
  exact ⟨r, hr, hm, by rw [hm.view]; exact myatol_myltoa x h1 h2⟩

/-- `unsigned` → String → `(unsigned)` (through libc `atoi`, as the API does) on all 32-bit values -/
theorem utoa_atou (x : Nat) (h : x < 4294967296) :
    ∃ r, ofUInt x = some r ∧ Models r (utoa x) ∧ toU32 (cAtoi r.view) = x := by
  obtain ⟨r, hr, hm⟩ := ofUInt_spec x h
  exact ⟨r, hr, hm, by rw [hm.view]; exact toU32_cAtoi_utoa x h⟩

/-- `ULong` → String → `(ULong)(Long)` on all 64-bit values -/
theorem ultoa_atoul (x : Nat) (h : x < 18446744073709551616) :
    ∃ r, ofULong x = some r ∧ Models r (utoa x) ∧ toU64 (myatol r.view) = x := by
  obtain ⟨r, hr, hm⟩ := ofULong_spec x h
  exact ⟨r, hr, hm, by rw [hm.view]; exact toU64_myatol_utoa x h⟩

/-- `toInt()` / `toLong()` (`myatoi`/`myatol` on the text) of a String that reads: optional sign, the decimal digits of
    ANY natural number `n` (also beyond 64 bits), then a tail that does not start with a digit (or nothing): the result is
    `±n` reduced to the two's-complement range of `int` / `Long` — in particular `±n` itself whenever that is representable -/
theorem toint_any_text {r : Rep} {s : Bytes} (h : Models r s) (n : Nat) (t : Bytes)
    (ht : ∀ c, t.head? = some c → ¬ (48 ≤ c ∧ c ≤ 57)) :
    (s = utoa n ++ t → myatoi r.view = wrap32 n ∧ myatol r.view = wrap64 n) ∧
    (s = 45 :: (utoa n ++ t) → myatoi r.view = wrap32 (-n) ∧ myatol r.view = wrap64 (-n)) ∧
    (s = 43 :: (utoa n ++ t) → myatoi r.view = wrap32 n ∧ myatol r.view = wrap64 n) := by
  obtain ⟨a1, a2, a3, a4, a5, a6⟩ := atoi_tail n t ht
  rw [h.view]
  exact ⟨fun e => by rw [e]; exact ⟨a1, a4⟩, fun e => by rw [e]; exact ⟨a2, a5⟩, fun e => by rw [e]; exact ⟨a3, a6⟩⟩

/-- the text written for a non-negative number reads back, digit by digit, as that number
    (the decimal-notation content of `myitoa`/`myltoa`/`%u`) -/
theorem decimal_digits (n : Nat) :
    (∀ c ∈ utoa n, 48 ≤ c ∧ c ≤ 57) ∧ digitLoop (utoa n) 0 = n := by
  refine ⟨?_, (utoa_parse n).2⟩
  unfold utoa
  split
  · intro c hc; simp at hc; subst hc; decide
  · intro c hc; exact digitsRev_digits n c (by simpa using hc)

/-- the number texts are canonical decimal: `%u`/`%llu` text is Lean's `Nat.repr` (so: digits only, no leading zero
    unless the number is 0), and `myitoa` / `myltoa` write an optional `-` followed by that text of the magnitude,
    for every `int` / `Long` (`INT_MIN`, `LLONG_MIN` included) -/
theorem decimal_canonical :
    (∀ n, String.ofList ((utoa n).map ascii) = Nat.repr n) ∧
    (∀ n, n ≠ 0 → (utoa n).head? ≠ some 48) ∧ utoa 0 = [48] ∧
    (∀ x : Int, -2147483648 ≤ x → x < 2147483648 → myitoa x = if x < 0 then 45 :: utoa (-x).toNat else utoa x.toNat) ∧
    (∀ x : Int, -9223372036854775808 ≤ x → x < 9223372036854775808 →
      myltoa x = if x < 0 then 45 :: utoa (-x).toNat else utoa x.toNat) :=
  ⟨utoa_repr, utoa_no_leading_zero, rfl, myitoa_shape, myltoa_shape⟩

/-! ## floating point: what is algebraic

`String(float)` / `String(double)` store the text libc's `%.7g` / `%.15g` produced (a parameter of the model, like
`vsnprintf`'s output): in bounds whenever that text has the length libc guarantees.  `myatof` (operator float) is the
model shared with C18 (`AslModel.Csv.atofDec`): on a well-formed number text it extracts exactly sign, all mantissa
digits as one integer and the decimal exponent.  The three floating-point operations that follow
(`double(y1) * pow(10.0, exp) * m`), libc `atof`/`strtod` and the `%g` formatting itself have no theorem: K only. -/

theorem float_ctor_spec (text : Bytes) (hn : NulFree text) :
    (text.length < (alloc Gen.Str.floatAlloc).cap → ∃ r, ofFloat text = some r ∧ Models r text) ∧
    (text.length < Gen.Str.doubleStack → ∃ r, ofDouble text = some r ∧ Models r text) :=
  ⟨ofFloat_spec text hn, ofDouble_spec text hn⟩

/-- `myatof` on a number text `[-]digits[.digits][(e|E)[+|-]digits]` (`C18Spec.Num`): the sign, the integer made of all
    mantissa digits, and `exponent − number of fraction digits` (proved in `AslProofs/CsvNum.lean`, shared with C18) -/
theorem myatof_decomposition (n : C18Spec.Num) (h : n.WF) :
    AslModel.Csv.atofDec n.text = { neg := n.neg, mant := (C18Spec.natVal (n.ip ++ n.fracDigits) : Int),
                                    exp := n.expVal - (n.fracDigits.length : Int) } :=
  AslProofs.Csv.atofDec_text n h

/-! ## printf-style constructors -/

/-- `String(n, fmt, …)` and `String::f(fmt, …)`: for ANY complete output `text` of `vsnprintf` and any initial size
    hint, the retry loop stays in bounds and yields the complete text with `length() = |text|` -/
theorem printf_retry_total (text : Bytes) (hn : NulFree text) :
    (∀ n0, ∃ r, ofFormat n0 text = some r ∧ Models r text) ∧ (∃ r, ofF text = some r ∧ Models r text) :=
  ⟨fun n0 => ofFormat_spec n0 text hn, ofF_spec text hn⟩

/-- at most two `vsnprintf` attempts are ever needed by `String(n, fmt, …)`: the constructor computes the same as a
    loop with one retry -/
theorem printf_two_attempts (text : Bytes) (hn : NulFree text) (n0 : Nat) :
    ofFormat n0 text = fmtLoop text 1 (alloc (if n0 = 0 then Gen.Str.fmtDefault else n0)) :=
  ofFormat_two_attempts n0 text hn

/-- … and by `String::f`: a text shorter than its stack buffer costs one `vsnprintf` (then `assign`); a longer one the
    failed stack attempt, one `resize` and exactly one more `vsnprintf` (`fmtLoop … 0` is a single attempt, no retry) -/
theorem printf_f_two_attempts (text : Bytes) (hn : NulFree text) :
    (text.length < Gen.Str.fSpace → ofF text = (Rep.empty.assign (.ext text)).map fun s => { s with len := text.length }) ∧
    (text.length ≥ Gen.Str.fSpace → ofF text = (Rep.empty.resize text.length false).bind fun s => fmtLoop text 0 s) :=
  ofF_two_attempts text hn

/-! ## whitespace split, character search, prefix/suffix tests -/

/-- `split()` on the representation (`a << substring(i, j)` for each token): in bounds, every token a well-formed
    String, and the tokens are the maximal runs of non-blank bytes, in order -/
theorem split_whitespace {r : Rep} {s : Bytes} (h : Models r s) :
    ∃ l, r.splitWs = some l ∧ AllModels l (tokensAbs s) := splitWs_rep h

/-- `indexOf(char c, int i0)` = first position at or after `i0`, `lastIndexOf(char)` = last position holding the byte
    (−1 = `none` exactly when there is none) -/
theorem char_search (s : Bytes) (c : UInt8) (hc : c ≠ 0) :
    (∀ i0 k, indexOfChar s c i0 = some k →
      i0 ≤ k ∧ k < s.length ∧ s.getD k 0 = c ∧ ∀ k', i0 ≤ k' → k' < k → s.getD k' 0 ≠ c) ∧
    (∀ i0, indexOfChar s c i0 = none → ∀ k', i0 ≤ k' → k' < s.length → s.getD k' 0 ≠ c) ∧
    (∀ k, strchr c s = some k → k < s.length ∧ s.getD k 0 = c ∧ ∀ k', k' < k → s.getD k' 0 ≠ c) ∧
    (strchr c s = none → c ∉ s) ∧
    (∀ k, strrchr c s = some k → k < s.length ∧ s.getD k 0 = c ∧ ∀ k', k < k' → k' < s.length → s.getD k' 0 ≠ c) ∧
    (strrchr c s = none → c ∉ s) :=
  ⟨fun _ _ h => indexOfChar_some hc h, fun _ h => indexOfChar_none h, fun _ h => strchr_some hc h, strchr_none,
   fun _ h => strrchr_some hc h, strrchr_none⟩

/-- `startsWith` / `endsWith` decide "is a prefix" / "is a suffix" -/
theorem starts_ends {r : Rep} {s : Bytes} (h : Models r s) (p : Bytes) :
    (r.startsWith p = true ↔ p <+: s) ∧ (r.endsWith p = true ↔ p <:+ s) := by
  unfold Rep.startsWith Rep.endsWith
  rw [h.view, h.2.1]
  exact ⟨startsWith_iff s p, endsWith_iff s p⟩

/-! ## single-byte reads: `operator[]`, the `char` overloads, `ok`/`!`/`isTrue`, `contains` -/

/-- `operator[](i)` with `0 ≤ i ≤ length()` reads inside the storage block: the `i`-th byte of the text, and the
    terminator at `i = length()` -/
theorem index_read {r : Rep} {s : Bytes} (h : Models r s) :
    (∀ i (hi : i < s.length), r.charAt i = some s[i]) ∧ r.charAt s.length = some 0 :=
  ⟨charAt_lt h, charAt_len h⟩

/-- `startsWith(char)`, `endsWith(char)`, `operator==(char)` read inside the block (also on the empty string, where
    `str()[0]` is the terminator) and decide "first byte is `c`" (with the corner `"".startsWith('\0')`, which the
    code answers with true), "last byte is `c`", "the text is exactly `c`" -/
theorem char_tests {r : Rep} {s : Bytes} (h : Models r s) (c : UInt8) :
    (∃ b, r.startsWithChar c = some b ∧ (b = true ↔ (s.head? = some c ∨ (s = [] ∧ c = 0)))) ∧
    (∃ b, r.endsWithChar c = some b ∧ (b = true ↔ s.getLast? = some c)) ∧
    (∃ b, r.eqChar c = some b ∧ (b = true ↔ s = [c])) :=
  ⟨startsWithChar_spec h c, endsWithChar_spec h c, eqChar_spec h c⟩

/-- `ok()` / `operator bool` = "not empty", `operator!` = "empty", and `isTrue()` (one in-block read of `str()[0]`) =
    "not empty, not `"0"`, and not starting with one of `N n f F`" -/
theorem truth_flags {r : Rep} {s : Bytes} (h : Models r s) :
    (r.ok = true ↔ s ≠ []) ∧ (r.isEmpty = true ↔ s = []) ∧
    ∃ b, r.isTrue = some b ∧
      (b = true ↔ s ≠ [] ∧ s ≠ [48] ∧ s.head? ≠ some 78 ∧ s.head? ≠ some 110 ∧ s.head? ≠ some 102 ∧ s.head? ≠ some 70) :=
  ⟨(ok_iff h).1, (ok_iff h).2, isTrue_spec h⟩

/-- `contains(String / const char*)` decides "is a contiguous sub-list" (every pattern, the empty one included),
    `contains(char)` decides membership -/
theorem contains_spec {r : Rep} {s : Bytes} (h : Models r s) :
    (∀ p, r.contains p = true ↔ p <:+: s) ∧ (∀ c, c ≠ 0 → (r.containsChar c = true ↔ c ∈ s)) :=
  ⟨contains_iff h, containsChar_iff h⟩

/-! ## `split(sep1, sep2)` → `Dic` -/

/-- `split(sep1, sep2)` (the loop `dic[piece.substring(0, j)] = piece.substring(j + |sep2|)` over `split(sep1)` with
    `j = piece.indexOf(sep2) > 0`, on the text the String holds): the keys of the resulting dictionary are distinct, and
    `(k, v)` is an entry exactly when the LAST piece of the standard split by `sep1` that has key `k` reads
    `k ++ sep2 ++ v`, where "has key `k`" = `DicEntry`: `k` is non-empty and is followed by the first occurrence of
    `sep2` in the piece (pieces without `sep2`, or starting with it, contribute nothing; later pieces overwrite) -/
theorem split_dic {r : Rep} {s : Bytes} (h : Models r s) (sep1 sep2 : Bytes) (hs : sep1 ≠ []) :
    ((splitDic r.view sep1 sep2).map (·.1)).Nodup ∧
    ∀ k v, (k, v) ∈ splitDic r.view sep1 sep2 ↔
      ∃ pre p post, splitAbs sep1 [] s = pre ++ p :: post ∧ DicEntry sep2 p k v ∧
        ∀ q ∈ post, ∀ v', ¬ DicEntry sep2 q k v' := by
  rw [h.view]
  exact splitDic_spec s sep1 sep2 hs

/-! ## G obligations: the storage constants read from the current source are safe

`Gen/StrGen.lean` is regenerated from `include/asl/String.h` and `src/String.cpp` on every run; the model uses those
values for `ASL_STR_SPACE`, the first heap sizes, the doubling cap, the malloc/realloc switch, and the sizes the number
and printf constructors ask for.  The theorems above hold for ANY values of the growth-policy constants (they never
unfold them); what they do need is checked here against the values the source has now. -/

/-- the inline storage exists -/
theorem gen_inline_storage : 0 < SPACE := gen_space_pos

/-- the storage `String(int)`, `String(unsigned)`, `String(bool)` obtain holds the longest text they can write + NUL -/
theorem gen_number_storage : 11 < (alloc Gen.Str.intAlloc).cap ∧ 10 < (alloc Gen.Str.uintAlloc).cap ∧
    5 < (alloc Gen.Str.boolAlloc).cap := gen_number_allocs

/-- `String(Long)`, `String(ULong)`: values routed to the inline storage have at most `ASL_STR_SPACE-1` characters,
    (which the storage obtained for them holds), the others get room for 20 -/
theorem gen_long_storage : Gen.Str.longInlineBelow ≤ 1000000000000000 ∧ Gen.Str.longInlineAbove ≤ 100000000000000 ∧
    15 < (alloc (SPACE - 1)).cap ∧ 20 < (alloc Gen.Str.longHeapAlloc).cap ∧ Gen.Str.ulongInlineBelow ≤ 1000000000000000 ∧
    20 < (alloc Gen.Str.ulongHeapAlloc).cap := gen_long_allocs

/-- the printf loops allow at least one retry, and `String::f`'s first attempt fits its stack buffer -/
theorem gen_printf_loops : 2 ≤ Gen.Str.fmtTries ∧ 2 ≤ Gen.Str.fTries ∧ Gen.Str.fSpace ≤ Gen.Str.fStack ∧ 0 < Gen.Str.fSpace :=
  gen_printf

/-- `String(float)`: the storage obtained holds the longest `%.7g` text of a float (13 characters, e.g. `-1.401298e-45`);
    `String(double)`: the stack buffer holds the longest `%.15g` text (24 characters, e.g. `-2.22507385850720e-308`) -/
theorem gen_float_storage : 13 < (alloc Gen.Str.floatAlloc).cap ∧ 24 < Gen.Str.doubleStack := gen_float

/-- the `INT_MIN` literal of `myitoa` reads back as −2^31, has no NUL and the length the code returns -/
theorem gen_int_min_literal : myatoi Gen.Str.intMinText = -2147483648 ∧ (∀ c ∈ Gen.Str.intMinText, c ≠ 0) ∧
    Gen.Str.intMinText.length ≤ 11 ∧ Gen.Str.intMinLen = Gen.Str.intMinText.length := gen_intmin

/-- G: `isTrue()`'s literals (`*this != "0"`, first byte none of `N n f F`) as `src/String.cpp` has them now are the ones
    `Rep.isTrue` transcribes (`truth_flags`); the translator also refuses any change of the one-line bodies of `operator[]`,
    `operator bool`/`!`/`ok`, `==(char)`, `startsWith/endsWith(char)`, `contains` in `String.h` -/
theorem gen_istrue_literals : Gen.Str.isTrueNotText = [48] ∧ Gen.Str.isTrueNotFirst = [78, 110, 102, 70] := by decide

/-- G: the blanks of `trim`/`trimmed`/`split()` (`isSpace`, the model of `myisspace` on a signed `char`) are exactly the
    characters `myisspace` in `include/asl/defs.h` lists now -/
theorem gen_space_chars (c : UInt8) : isSpace c = true ↔ c ∈ Gen.Str.spaceChars := by
  rw [isSpace_iff]
  simp only [Gen.Str.spaceChars, List.mem_cons, List.not_mem_nil, or_false]
  constructor
  · rintro (h | h | h | h) <;> simp [h]
  · rintro (h | h | h | h) <;> simp [h]

/-! ## non-vacuity: the hypotheses are met by concrete non-trivial values -/

example : ∃ r, ofBytes [104, 105] = some r ∧ Models r [104, 105] :=
  ofBytes_spec _ (by intro c hc; simp at hc; rcases hc with rfl | rfl <;> decide)

/-- a 20-byte string appended to itself (the witness of the repaired use-after-free) ends as 40 bytes -/
example : (do let r ← ofBytes (List.replicate 20 97); let r' ← r.append (.self 0 r.len); pure (r'.toList, r'.len)) =
    some (List.replicate 40 97, 40) := by decide +kernel

example : (do let r ← ofBytes [48, 49, 50, 51, 52, 53, 54, 55, 56, 57]; let r' ← r.assign (.self 3 7); pure r'.toList) =
    some [51, 52, 53, 54, 55, 56, 57] := by decide +kernel

example : splitAbs [44] [] [97, 44, 44, 98] = [[97], [], [98]] := by decide +kernel
example : replaceAbs [97, 97] [98] [97, 97, 97, 97, 97] = [98, 98, 97] := by decide +kernel
example : substrIdx 11 1 2147483647 = some (1, 11) ∧ substrIdxUnrepaired 11 1 2147483647 = none :=
  ⟨substr_unrepaired_counterexample.2, substr_unrepaired_counterexample.1⟩
example : ∃ r, RefModels [none, some r] (.cell 1) [104, 105] := by
  obtain ⟨r, _, hm⟩ := ofBytes_spec [104, 105] (by intro c hc; simp at hc; rcases hc with rfl | rfl <;> decide)
  exact ⟨r, r, rfl, hm⟩
example : tokensAbs [32, 97, 98, 9, 9, 99, 10] = [[97, 98], [99]] := by decide +kernel
example : Mut.Valid (.append [97]) := by intro c hc; simp at hc; subst hc; decide
example : myltoa (-9223372036854775808) = [45, 57, 50, 50, 51, 51, 55, 50, 48, 51, 54, 56, 53, 52, 55, 55, 53, 56, 48, 56] := by
  decide +kernel
example : (ofBytes [78, 111]).bind (fun r => r.isTrue) = some false ∧ (ofBytes [78, 111]).bind (fun r => r.endsWithChar 111) = some true ∧
    (ofBytes [78, 111]).bind (fun r => r.charAt 2) = some 0 ∧
    (ofBytes [78, 111]).map (fun r => (r.contains [111], r.containsChar 78, r.ok)) = some (true, true, true) := by decide +kernel
/-- `"a=1,b=2,=x,c,a=3".split(",", "=")` = {b: 2, a: 3} -/
example : splitDic [97, 61, 49, 44, 98, 61, 50, 44, 61, 120, 44, 99, 44, 97, 61, 51] [44] [61] = [([98], [50]), ([97], [51])] := by
  decide +kernel
example : DicEntry [61] [97, 61, 51] [97] [51] :=
  ⟨by simp, rfl, fun i hi => by have : i = 0 := by simpa using hi
                                subst this; decide⟩
/-- `"-12x".toInt()` = −12; `"4294967297".toInt()` wraps to 1 -/
example : utoa 12 ++ [120] = [49, 50, 120] ∧ myatoi [45, 49, 50, 120] = -12 ∧
    myatoi [52, 50, 57, 52, 57, 54, 55, 50, 57, 55] = 1 ∧ wrap32 4294967297 = 1 := by decide +kernel

end C03
