import AslModel.Str
/-! # C03 — placeholder while the model is validated (theorems follow) -/
namespace C03
open AslModel.Str

theorem empty_len : Rep.empty.len = 0 := rfl

end C03
