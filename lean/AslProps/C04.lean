import AslModel.Var
import AslProofs.Var
/-!
# C04 — Var holds, copies, assigns and compares JSON-like values faithfully

Theorems about the executable model `AslModel.Var` that `lean/Driver/C04.lean` runs against the real library.
Specifications: `Tree`/`content` (the abstract value of a Var in a heap), `WF` (reference-count invariant).
-/
namespace C04
open AslModel AslModel.Var

/-! ## accessors_faithful: a Var built from a number, boolean or string reports that type and value -/

theorem accessors_int (i : Int) :
    typeOf (mkInt i) = tINT ∧ isT (mkInt i) tNUMBER = true ∧ isT (mkInt i) tINT = true ∧ isT (mkInt i) tSTRING = false ∧
    toInt (mkInt i) = some i ∧ numOf (mkInt i) = some (Dy.ofInt i) ∧ Var.toBool (mkInt i) = (i != 0) := by
  simp [mkInt, typeOf, isT, tagOf, toInt, numOf, Var.toBool, tINT, tNUMBER, tFLOAT, tSTRING, tSSTRING]

/-- `Var(unsigned)`: an INT below 2^31; from 2^31 on a NUMBER holding the same value (never a negative int) -/
theorem accessors_unsigned (u : Nat) :
    (u < 2147483648 → typeOf (mkUnsigned u) = tINT ∧ toInt (mkUnsigned u) = some (u : Int)) ∧
    (2147483648 ≤ u → typeOf (mkUnsigned u) = tNUMBER ∧ numOf (mkUnsigned u) = some (Dy.ofInt u)) ∧
    isT (mkUnsigned u) tNUMBER = true := by
  unfold mkUnsigned
  by_cases h : u < 2147483648
  · simp [h, typeOf, toInt, isT, tagOf, tINT, tNUMBER, tFLOAT, tSTRING, tSSTRING]
  · simp [h, typeOf, numOf, isT, tagOf, tINT, tNUMBER, tFLOAT, tSTRING, tSSTRING]

theorem accessors_double (d : Dy) :
    typeOf (mkDouble d) = tNUMBER ∧ isT (mkDouble d) tNUMBER = true ∧ numOf (mkDouble d) = some d ∧
    toDouble (mkDouble d) = some (.inl d) := by
  simp [mkDouble, typeOf, isT, tagOf, numOf, toDouble, tNUMBER]

theorem accessors_float (d : Dy) :
    typeOf (mkFloat d) = tFLOAT ∧ isT (mkFloat d) tNUMBER = true ∧ isT (mkFloat d) tFLOAT = true ∧ numOf (mkFloat d) = some d := by
  simp [mkFloat, typeOf, isT, tagOf, numOf, tNUMBER, tFLOAT, tINT, tSTRING, tSSTRING]

theorem accessors_long (x : Int) :
    typeOf (mkLong x) = tNUMBER ∧ numOf (mkLong x) = some (Dy.ofInt x) := by
  simp [mkLong, typeOf, numOf]

theorem accessors_bool (b : Bool) :
    typeOf (mkBool b) = tBOOL ∧ isT (mkBool b) tBOOL = true ∧ isT (mkBool b) tNUMBER = false ∧ Var.toBool (mkBool b) = b := by
  simp [mkBool, typeOf, isT, tagOf, Var.toBool, tBOOL, tNUMBER, tINT, tFLOAT, tSTRING, tSSTRING]

/-- strings on both sides of the 7/8-byte inline boundary: reported as STRING (and as SSTRING by `is`), the bytes and
the length come back unchanged; the inline representation is used exactly below 8 bytes -/
theorem accessors_string (s : Bytes) (h : Heap) :
    typeOf (mkString s) = tSTRING ∧ isT (mkString s) tSTRING = true ∧ isT (mkString s) tSSTRING = true ∧
    isT (mkString s) tNUMBER = false ∧
    strOf (mkString s) = some s ∧ lengthV h (mkString s) = .ok s.length ∧
    (tagOf (mkString s) = tSSTRING ↔ s.length < 8) ∧ Var.toBool (mkString s) = decide (s.length > 0) := by
  unfold mkString
  by_cases hl : s.length < 8 <;>
    simp [hl, typeOf, isT, tagOf, strOf, lengthV, Var.toBool, tSTRING, tSSTRING, tNUMBER, tINT, tFLOAT]

/-! ## eq_iff_content: `==` is equality of contents -/

/-- `v == w` is true exactly when both denote the same tree: numbers compare by value across INT/NUMBER/FLOAT,
strings by bytes across STRING/SSTRING, arrays and objects element-wise, NONE = NONE, NUL = NUL; nothing else is equal. -/
theorem eq_iff_content (f : Nat) (h : Heap) (v w : V) (tv tw : Tree)
    (hv : content f h v = some tv) (hw : content f h w = some tw) :
    ∃ b, eqV f h v w = .ok b ∧ (b = true ↔ tv = tw) :=
  eq_iff_content_aux f h v w tv tw hv hw

theorem eq_refl (f : Nat) (h : Heap) (v : V) (tv : Tree) (hv : content f h v = some tv) :
    eqV f h v v = .ok true := by
  obtain ⟨b, hb, hiff⟩ := eq_iff_content f h v v tv tv hv hv
  rw [hb, hiff.mpr rfl]

theorem eq_symm (f : Nat) (h : Heap) (v w : V) (tv tw : Tree)
    (hv : content f h v = some tv) (hw : content f h w = some tw) :
    eqV f h v w = eqV f h w v := by
  obtain ⟨b, hb, hiff⟩ := eq_iff_content f h v w tv tw hv hw
  obtain ⟨b', hb', hiff'⟩ := eq_iff_content f h w v tw tv hw hv
  rw [hb, hb']
  have : (b = true ↔ b' = true) := by rw [hiff, hiff']; exact eq_comm
  cases b <;> cases b' <;> simp_all

theorem eq_trans (f : Nat) (h : Heap) (u v w : V) (tu tv tw : Tree)
    (hu : content f h u = some tu) (hv : content f h v = some tv) (hw : content f h w = some tw)
    (h1 : eqV f h u v = .ok true) (h2 : eqV f h v w = .ok true) : eqV f h u w = .ok true := by
  obtain ⟨b, hb, hiff⟩ := eq_iff_content f h u v tu tv hu hv
  obtain ⟨b', hb', hiff'⟩ := eq_iff_content f h v w tv tw hv hw
  obtain ⟨b'', hb'', hiff''⟩ := eq_iff_content f h u w tu tw hu hw
  rw [hb] at h1; rw [hb'] at h2
  injection h1 with h1; injection h2 with h2
  rw [hb'', hiff''.mpr ((hiff.mp h1).trans (hiff'.mp h2))]


/-! ## history_safe: no sequence of operations touches freed memory or destroys a shared child twice -/

/-- The full statement: for EVERY history of guarded statements from the initial state (any number of root
variables), the reference-count invariant holds in every reached state (each handle points to a live block of its
kind, each live block's count is exactly the number of handles to it, objects stay sorted, no block contains itself)
and every statement is either executed or refused by a guard — it never reads or releases a released block,
never indexes outside an element array, never finds a zero count. -/
def history_safe_full : Prop :=
  ∀ (n : Nat) (ops : List Op),
    Inv (run true (initState n) ops) [] ∧ ∀ r ∈ results true (initState n) ops, Safe r

/-- **history_safe_partial** — the full statement for all histories in which `extend` is applied to root variables
only (every other statement — typed and Var assignment incl. own elements/properties, auto-creating `operator[]`
paths of any depth, append, resize, removeAt, remove, clear, clone, copy, drop, constructors — at any depth).
What is missing for `history_safe_full`: `p.extend(q)` with a nested target `p`, whose loop needs an acyclicity
invariant to show that the target Var outlives the releases the loop performs. -/
theorem history_safe_partial (n : Nat) (ops : List Op) (hops : ∀ op ∈ ops, RootExtend op) :
    Inv (run true (initState n) ops) [] ∧ ∀ r ∈ results true (initState n) ops, Safe r := by
  obtain ⟨inv, _, hall⟩ := (Inv.init n).run ops (initState n) rfl hops
  exact ⟨inv, hall⟩

/-- in particular: no statement of such a history is a use after free, a double release (count 0) or an
out-of-range element access -/
theorem history_never_touches_freed (n : Nat) (ops : List Op) (hops : ∀ op ∈ ops, RootExtend op) :
    ∀ r ∈ results true (initState n) ops, r ≠ .error .uaf ∧ r ≠ .error .oob ∧ r ≠ .error .rc := by
  intro r hr
  have hs := (history_safe_partial n ops hops).2 r hr
  cases r with
  | ok _ => refine ⟨?_, ?_, ?_⟩ <;> intro h <;> cases h
  | error e =>
    simp only [Safe, Refusal] at hs
    refine ⟨?_, ?_, ?_⟩ <;> intro h <;> cases h <;> simp at hs

/-- the hypotheses are satisfiable by a history that shares, auto-creates, self-assigns and releases -/
example : ∀ r ∈ results true (initState 3)
    [ .setLit ⟨0, [.idx 0, .idx 1]⟩ (.int 7), .copy 1 ⟨0, []⟩, .setV ⟨0, []⟩ ⟨0, [.idx 0]⟩,
      .appLit ⟨1, []⟩ (.str [97]), .extend ⟨2, []⟩ ⟨1, []⟩, .drop 1 ], Safe r :=
  (history_safe_partial 3 _ (by intro op hop; simp at hop; rcases hop with h | h | h | h | h | h <;> subst h <;> simp [RootExtend])).2

/-! ## the inherited known finding: growth of a shared container -/

/-- the same statement for histories whose statements are NOT guarded against growing a block with rc > 1 -/
def history_safe_unguarded_full : Prop :=
  ∀ (n : Nat) (ops : List Op), Inv (run false (initState n) ops) []

/-- `Var a; a << 1 << 2 << 3; Var c = a; a << 4;` — the append reallocates the block `c` shares: afterwards `c`
holds a handle to a released block (in the C++: heap-use-after-free in `c.length()` / `~Var`). -/
theorem var_shared_growth_counterexample : ¬ history_safe_unguarded_full := by
  intro h
  have inv := h 2 [ .appLit ⟨0, []⟩ (.int 1), .appLit ⟨0, []⟩ (.int 2), .appLit ⟨0, []⟩ (.int 3),
    .copy 1 ⟨0, []⟩, .appLit ⟨0, []⟩ (.int 4) ]
  obtain ⟨b, hb, _⟩ := inv.wf.live (V.arr 0) (Or.inl (by decide)) 0 rfl
  have hfreed : (run false (initState 2) [ .appLit ⟨0, []⟩ (.int 1), .appLit ⟨0, []⟩ (.int 2),
      .appLit ⟨0, []⟩ (.int 3), .copy 1 ⟨0, []⟩, .appLit ⟨0, []⟩ (.int 4) ]).heap[0]? = some none := by decide
  rw [getB_eq, hfreed] at hb
  cases hb

end C04
