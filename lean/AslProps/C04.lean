import AslModel.Var
/-! # C04 — property theorems (work in progress) -/
namespace C04
open AslModel.Var

theorem mkString_type (s : Bytes) : typeOf (mkString s) = tSTRING := by
  unfold mkString; split <;> rfl

end C04
