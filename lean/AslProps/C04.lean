import AslModel.Var
import AslProofs.Var
/-!
# C04 — Var holds, copies, assigns and compares JSON-like values faithfully

Theorems about the executable model `AslModel.Var` that `lean/Driver/C04.lean` runs against the real library.
Specifications: `Tree`/`content` (the abstract value of a Var in a heap), `WF` (reference-count invariant).
-/
namespace C04
open AslModel AslModel.Var

/-! ## accessors_faithful: a Var built from a number, boolean or string reports that type and value -/

theorem accessors_int (i : Int) (_hrange : -2147483648 ≤ i ∧ i < 2147483648) :
    typeOf (mkInt i) = tINT ∧ isT (mkInt i) tNUMBER = true ∧ isT (mkInt i) tINT = true ∧ isT (mkInt i) tSTRING = false ∧
    toInt (mkInt i) = some i ∧ numOf (mkInt i) = some (Dy.ofInt i) ∧ Var.toBool (mkInt i) = (i != 0) := by
  simp [mkInt, typeOf, isT, tagOf, toInt, numOf, Var.toBool, tINT, tNUMBER, tFLOAT, tSTRING, tSSTRING]

/-- `Var(unsigned)`: an INT below 2^31; from 2^31 on a NUMBER holding the same value (never a negative int) -/
theorem accessors_unsigned (u : Nat) :
    (u < 2147483648 → typeOf (mkUnsigned u) = tINT ∧ toInt (mkUnsigned u) = some (u : Int)) ∧
    (2147483648 ≤ u → typeOf (mkUnsigned u) = tNUMBER ∧ numOf (mkUnsigned u) = some (Dy.ofInt u)) ∧
    isT (mkUnsigned u) tNUMBER = true := by
  unfold mkUnsigned
  by_cases h : u < 2147483648
  · simp [h, typeOf, toInt, isT, tagOf, tINT, tNUMBER, tFLOAT, tSTRING, tSSTRING]
  · simp [h, typeOf, numOf, isT, tagOf, tINT, tNUMBER, tFLOAT, tSTRING, tSSTRING, Dy.norm_ofInt]

/-- the number a double Var reports is (the normal form of) the pair it was built from: the same value -/
theorem accessors_double (d : Dy) :
    typeOf (mkDouble d) = tNUMBER ∧ isT (mkDouble d) tNUMBER = true ∧
    (∃ d', numOf (mkDouble d) = some d' ∧ d'.ValEq d ∧ d'.Normal) ∧ toDouble (mkDouble d) = some (.inl d) := by
  refine ⟨rfl, by simp [mkDouble, isT, tagOf, typeOf, tNUMBER], ⟨_, rfl, Dy.norm_valEq d.m d.e, Dy.norm_normal _ _⟩, rfl⟩

theorem accessors_float (d : Dy) :
    typeOf (mkFloat d) = tFLOAT ∧ isT (mkFloat d) tNUMBER = true ∧ isT (mkFloat d) tFLOAT = true ∧
    (∃ d', numOf (mkFloat d) = some d' ∧ d'.ValEq d ∧ d'.Normal) := by
  refine ⟨rfl, by simp [mkFloat, isT, tagOf, typeOf, tNUMBER, tFLOAT, tINT], by simp [mkFloat, isT, tagOf, typeOf, tFLOAT],
    ⟨_, rfl, Dy.norm_valEq d.m d.e, Dy.norm_normal _ _⟩⟩

theorem accessors_long (x : Int) (hexact : -9007199254740992 < x ∧ x < 9007199254740992) :
    typeOf (mkLong x) = tNUMBER ∧ numOf (mkLong x) = some (Dy.ofInt x) := by
  simp [mkLong, Dy.ofInt64, hexact, typeOf, numOf, Dy.norm_ofInt]

/-- beyond 2^53 the model stores `(double)x` rounded to nearest-even (`Dy.ofIntD`); that rounding is validated only by K
(Long / long / unsigned long / ULong literals up to ±2^63 / 2^64) -/
theorem long_beyond_2_53_is_rounded (x : Int) (h : 9007199254740992 ≤ x ∨ x ≤ -9007199254740992) :
    mkLong x = .num (Dy.ofIntD x) := by
  have : ¬ (-9007199254740992 < x ∧ x < 9007199254740992) := by omega
  simp [mkLong, Dy.ofInt64, this]

/-- `Var(long)` / `Var(unsigned long)` and `v = (long)x` on LP64 (repaired by 6c0507b): an INT with the same value
inside the int range, a NUMBER with the same value outside it (exact for |x| < 2^53) — never a truncated int -/
theorem accessors_native_long (x : Int) (u : Nat) (hexact : -9007199254740992 < x ∧ x < 9007199254740992 ∧ u < 9007199254740992) :
    numOf (mkNativeLong x) = some (Dy.ofInt x) ∧ numOf (mkNativeULong u) = some (Dy.ofInt u) ∧
    (typeOf (mkNativeLong x) = tINT ↔ (-2147483648 ≤ x ∧ x < 2147483648)) ∧
    (typeOf (mkNativeULong u) = tINT ↔ u < 2147483648) ∧ isT (mkNativeLong x) tNUMBER = true := by
  have hx : -9007199254740992 < x ∧ x < 9007199254740992 := ⟨hexact.1, hexact.2.1⟩
  have hu : -9007199254740992 < (u : Int) ∧ (u : Int) < 9007199254740992 := by omega
  unfold mkNativeLong mkNativeULong
  by_cases h1 : -2147483648 ≤ x ∧ x < 2147483648 <;> by_cases h2 : u < 2147483648 <;>
    simp [h1, h2, hx, hu, Dy.ofInt64, numOf, typeOf, isT, tagOf, tINT, tNUMBER, tFLOAT, tSTRING, tSSTRING, Dy.ofInt, Dy.norm]

theorem accessors_bool (b : Bool) :
    typeOf (mkBool b) = tBOOL ∧ isT (mkBool b) tBOOL = true ∧ isT (mkBool b) tNUMBER = false ∧ Var.toBool (mkBool b) = b := by
  simp [mkBool, typeOf, isT, tagOf, Var.toBool, tBOOL, tNUMBER, tINT, tFLOAT, tSTRING, tSSTRING]

/-- strings on both sides of the 7/8-byte inline boundary: reported as STRING (and as SSTRING by `is`), the bytes and
the length come back unchanged; the inline representation is used exactly below 8 bytes -/
theorem accessors_string (s : Bytes) (h : Heap) :
    typeOf (mkString s) = tSTRING ∧ isT (mkString s) tSTRING = true ∧ isT (mkString s) tSSTRING = true ∧
    isT (mkString s) tNUMBER = false ∧
    strOf (mkString s) = some s ∧ lengthV h (mkString s) = .ok s.length ∧
    (tagOf (mkString s) = tSSTRING ↔ s.length < 8) ∧ Var.toBool (mkString s) = decide (s.length > 0) := by
  unfold mkString
  by_cases hl : s.length < 8 <;>
    simp [hl, typeOf, isT, tagOf, strOf, lengthV, Var.toBool, tSTRING, tSSTRING, tNUMBER, tINT, tFLOAT]

/-! ## eq_iff_content: `==` is equality of contents -/

/-- `v == w` is true exactly when both denote the same tree: numbers compare by value across INT/NUMBER/FLOAT,
strings by bytes across STRING/SSTRING, arrays and objects element-wise, NONE = NONE, NUL = NUL; nothing else is equal. -/
theorem eq_iff_content (f : Nat) (h : Heap) (v w : V) (tv tw : Tree)
    (hv : content f h v = some tv) (hw : content f h w = some tw) :
    ∃ b, eqV f h v w = .ok b ∧ (b = true ↔ tv = tw) :=
  eq_iff_content_aux f h v w tv tw hv hw

theorem eq_refl (f : Nat) (h : Heap) (v : V) (tv : Tree) (hv : content f h v = some tv) :
    eqV f h v v = .ok true := by
  obtain ⟨b, hb, hiff⟩ := eq_iff_content f h v v tv tv hv hv
  rw [hb, hiff.mpr rfl]

theorem eq_symm (f : Nat) (h : Heap) (v w : V) (tv tw : Tree)
    (hv : content f h v = some tv) (hw : content f h w = some tw) :
    eqV f h v w = eqV f h w v := by
  obtain ⟨b, hb, hiff⟩ := eq_iff_content f h v w tv tw hv hw
  obtain ⟨b', hb', hiff'⟩ := eq_iff_content f h w v tw tv hw hv
  rw [hb, hb']
  have : (b = true ↔ b' = true) := by rw [hiff, hiff']; exact eq_comm
  cases b <;> cases b' <;> simp_all

theorem eq_trans (f : Nat) (h : Heap) (u v w : V) (tu tv tw : Tree)
    (hu : content f h u = some tu) (hv : content f h v = some tv) (hw : content f h w = some tw)
    (h1 : eqV f h u v = .ok true) (h2 : eqV f h v w = .ok true) : eqV f h u w = .ok true := by
  obtain ⟨b, hb, hiff⟩ := eq_iff_content f h u v tu tv hu hv
  obtain ⟨b', hb', hiff'⟩ := eq_iff_content f h v w tv tw hv hw
  obtain ⟨b'', hb'', hiff''⟩ := eq_iff_content f h u w tu tw hu hw
  rw [hb] at h1; rw [hb'] at h2
  injection h1 with h1; injection h2 with h2
  rw [hb'', hiff''.mpr ((hiff.mp h1).trans (hiff'.mp h2))]


/-- "numbers numerically": whatever pairs `m / 2^e` two numeric Vars store, `==` compares their normal forms, and two
normal forms coincide exactly when the pairs denote the same number (`ValEq`: m1·2^e2 = m2·2^e1) — for every pair,
no normality hypothesis on what is stored.  So `eq_iff_content` speaks about numeric equality. -/
theorem numbers_compare_numerically :
    (∀ a b : Dy, Dy.norm a.m a.e = Dy.norm b.m b.e ↔ a.ValEq b) ∧
    (∀ m e, (Dy.norm m e).Normal ∧ (Dy.norm m e).ValEq ⟨m, e⟩) ∧ (∀ i, Dy.norm (Dy.ofInt i).m (Dy.ofInt i).e = Dy.ofInt i) ∧
    (∀ a b : Dy, a.Normal → b.Normal → (a = b ↔ a.ValEq b)) :=
  ⟨Dy.norm_eq_iff, fun m e => ⟨Dy.norm_normal m e, Dy.norm_valEq m e⟩, Dy.norm_ofInt,
   fun a b ha hb => ⟨fun h => by subst h; rfl, Dy.normal_unique ha hb⟩⟩

instance (a b : Dy) : Decidable (a.ValEq b) := by unfold Dy.ValEq; exact inferInstance

/-- FLOAT against INT (and NUMBER), in both operand orders, is an exact comparison of the two values: a FLOAT Var holds
the exact dyadic value of its C++ float, and an INT is never rounded to float — `Var(16777216.0f) == Var(16777217)`
is false both ways. -/
theorem eq_float_int_exact (f : Nat) (h : Heap) (d e : Dy) (i : Int) :
    eqV (f + 1) h (.flt d) (.int i) = .ok (decide ((Dy.ofInt i).ValEq d)) ∧
    eqV (f + 1) h (.int i) (.flt d) = .ok (decide (d.ValEq (Dy.ofInt i))) ∧
    eqV (f + 1) h (.flt d) (.num e) = .ok (decide (e.ValEq d)) ∧
    eqV (f + 1) h (.num e) (.flt d) = .ok (decide (d.ValEq e)) := by
  have key : ∀ a b : Dy, (some (Dy.norm a.m a.e) == some (Dy.norm b.m b.e)) = decide (a.ValEq b) := by
    intro a b
    by_cases hv : a.ValEq b
    · have := (Dy.norm_eq_iff a b).mpr hv
      simp [hv, this]
    · have : ¬ Dy.norm a.m a.e = Dy.norm b.m b.e := fun e' => hv ((Dy.norm_eq_iff a b).mp e')
      simp [hv, this]
  refine ⟨?_, ?_, ?_, ?_⟩
  · simpa [eqV, numOf, Dy.norm_ofInt] using key (Dy.ofInt i) d
  · simpa [eqV, numOf, Dy.norm_ofInt] using key d (Dy.ofInt i)
  · simpa [eqV, numOf] using key e d
  · simpa [eqV, numOf] using key d e

example : eqV 1 [] (.flt (Dy.norm 16777216 0)) (.int 16777217) = .ok false ∧
    eqV 1 [] (.int 16777217) (.flt (Dy.norm 16777216 0)) = .ok false ∧
    eqV 1 [] (.flt (Dy.norm 2147483648 0)) (.int 2147483647) = .ok false ∧
    eqV 1 [] (.flt (Dy.norm 16777216 0)) (.int 16777216) = .ok true := by
  refine ⟨?_, ?_, ?_, ?_⟩ <;> rfl

/-! ## assign_spec: assignment leaves the target equal to the assigned value, also for a source inside the target -/

/-- does the statement mention root variable `k`? -/
def mentions (k : Nat) : Op → Bool
  | .setLit p _ => p.root == k
  | .setType p _ => p.root == k
  | .setV p q => p.root == k || q.root == k
  | .app p q => p.root == k || q.root == k
  | .appLit p _ => p.root == k
  | .resize p _ => p.root == k
  | .removeAt p _ _ => p.root == k
  | .removeKey p _ => p.root == k
  | .clear p => p.root == k
  | .extend p q => p.root == k || q.root == k
  | .setSub p _ => p.root == k
  | .setCs p q _ => p.root == k || q.root == k
  | .setKey p q _ => p.root == k || q.root == k
  | .clone j q => j == k || q.root == k
  | .copy j q => j == k || q.root == k
  | .drop j => j == k
  | .ctorLit j _ => j == k
  | .ctorType j _ => j == k
  | .ctorKV j _ q => j == k || q.root == k
  | .ctorArr j _ => j == k
  | .ctorDic j _ => j == k
  | .ctorVars j qs => j == k || qs.any (fun q => q.root == k)

/-- The full statement: in every state reached by a guarded history, every executed `p = q` (any paths; `q` may
lie inside `p`; the source reference `sl` is evaluated first, then the target path, as the C++ does) leaves the Var at
`p` readable, holding the value read through the source reference, denoting the tree it denoted before. -/
def assign_spec_full : Prop :=
  ∀ (n : Nat) (ops : List Op) (p q : Path) (sl : Option Loc) (t : Loc) (σ1 σ' : State) (src : V) (f : Nat) (tr : Tree),
    p.root < n →
    cloc (run true (initState n) ops) q = .ok sl →
    resolveMut true sl (run true (initState n) ops) (.slot p.root) p.steps = (σ1, .ok t) →
    opSetV σ1 t sl = .ok σ' → srcVal σ1 sl = .ok src → content f σ1.heap src = some tr →
    readLoc σ' t = .ok src ∧ content f σ'.heap src = some tr

/-- **assign_spec, per state** — for EVERY state satisfying the invariant (hence every state reached by any history,
`history_safe`), every valid target location `t` and every source reference `sl` (it may designate an element or
property, at any depth, of the Var at `t`: `v = v[0]`, `v = v["a"]["b"]`), if the guarded assignment is executed then
* the Var at `t` is readable afterwards and is exactly the source value (the target survives the release of its own
  old content);
* the source value denotes afterwards the same tree as before the assignment (so the target equals, by
  `eq_iff_content`, every Var that denotes that tree);
* the invariant still holds (nothing was released twice, nothing that is still referenced was released). -/
theorem assign_spec_state (σ σ' : State) (t : Loc) (sl : Option Loc) (inv : Inv σ []) (hl : ValidLoc σ t)
    (h : opSetV σ t sl = .ok σ') :
    ∃ src, srcVal σ sl = .ok src ∧ readLoc σ' t = .ok src ∧
      (∀ f tr, content f σ.heap src = some tr → content f σ'.heap src = some tr) ∧ Inv σ' [] := by
  unfold opSetV at h
  rcases Inv.srcVal (σ := σ) (T := []) sl with h1 | ⟨src, h1, hsrc⟩
  · rw [h1] at h; cases h
  · rw [h1] at h
    simp only [] at h
    cases hg : cycleGuard σ.heap (parentOf t) src with
    | error e => rw [hg] at h; cases h
    | ok u =>
      rw [hg] at h
      simp only [] at h
      have hlive := Held.live inv hsrc
      have hwc := cycleGuard_ok hg
      have hreach : ∀ B, parentOf t = some B → ∃ f', reaches f' σ.heap B src = .ok false := by
        intro B hB
        rw [hB] at hwc
        exact ⟨_, hwc⟩
      have hacyc : ∀ id c, parentOf t = some id → handleOf src = some c → ¬ Reach σ.heap c id := by
        intro id c hid hc
        obtain ⟨f', hf'⟩ := hreach id hid
        exact reaches_false_not_reach f' src c hf' hc
      obtain ⟨σ2, ha, inv2, _⟩ := inv.assignV hl hlive hacyc
      rw [ha] at h; cases h
      obtain ⟨_, _, s3⟩ := inv.assignV_spec hl hlive hreach ha
      have hread := inv.assignV_target hl hlive hacyc ha
      exact ⟨src, h1, hread, fun f tr hc => s3 f tr hc hread, inv2⟩

/-- **assign_spec** — the full statement, over all histories -/
theorem assign_spec : assign_spec_full := by
  intro n ops p q sl t σ1 σ' src f tr hroot _ hres hset hq hc
  obtain ⟨inv, hlen, _⟩ := (Inv.init n).run ops (initState n) rfl
  have hslots : p.root < (run true (initState n) ops).slots.length := by
    rw [hlen]; simp [initState]; exact hroot
  obtain ⟨σ1', r, h1, inv1, _, hr⟩ := Inv.resolveMut (T := []) sl p.steps _ (.slot p.root) inv hslots
  rw [hres] at h1
  simp only [Prod.mk.injEq] at h1
  obtain ⟨rfl, rfl⟩ := h1
  rcases hr with ⟨e, he, _⟩ | ⟨t', ht', hl⟩
  · cases he
  · cases ht'
    obtain ⟨src', hq', hread, hcont, _⟩ := assign_spec_state σ1 σ' t sl inv1 hl hset
    rw [hq] at hq'; cases hq'
    exact ⟨hread, hcont f tr hc⟩

/-- "leaves the target equal to the assigned value": after an executed `p = q`, the Var at `p` compares equal (`==`)
to every Var that denotes the tree the source denoted before the assignment -/
theorem assign_then_equal (σ σ' : State) (t : Loc) (sl : Option Loc) (inv : Inv σ []) (hl : ValidLoc σ t)
    (h : opSetV σ t sl = .ok σ') (src w : V) (f : Nat) (tr : Tree)
    (hq : srcVal σ sl = .ok src) (hsrc : content f σ.heap src = some tr) (hw : content f σ'.heap w = some tr) :
    readLoc σ' t = .ok src ∧ eqV f σ'.heap src w = .ok true := by
  obtain ⟨src', h1, hread, hcont, _⟩ := assign_spec_state σ σ' t sl inv hl h
  rw [hq] at h1; cases h1
  obtain ⟨b, hb, hiff⟩ := eq_iff_content f σ'.heap src w tr tr (hcont f tr hsrc) hw
  exact ⟨hread, by rw [hb, hiff.mpr rfl]⟩

/-- **assign_lit_spec** — typed assignment `p = x` (int, unsigned, long, Long, double, float, bool, String, const char*):
in every state satisfying the invariant, after the executed statement the Var at the target is readable, reports the
literal's type and denotes the literal's content — whatever it held before (a shared container, a string, a scalar),
including the in-place string branches where a STRING keeps its heap storage for a short text and an SSTRING is
overwritten inline; the invariant still holds. -/
theorem assign_lit_spec (σ σ' : State) (t : Loc) (sl : Option Loc) (p : Path) (l : Lit) (inv : Inv σ []) (hl : ValidLoc σ t)
    (h : opBody true σ t sl (.setLit p l) = .ok σ') :
    ∃ v', readLoc σ' t = .ok v' ∧ typeOf v' = typeOf l.toV ∧ content 1 σ'.heap v' = content 1 [] l.toV ∧ Inv σ' [] := by
  have scalarCase : ∀ nv : V, handleOf nv = none → Var.storeV σ t nv = .ok σ' →
      ∃ v', readLoc σ' t = .ok v' ∧ typeOf v' = typeOf nv ∧ content 1 σ'.heap v' = content 1 [] nv ∧ Inv σ' [] := by
    intro nv hnv hs
    obtain ⟨σ2, h2, inv2, _⟩ := Inv.storeV ((Inv.scalar hnv).mpr inv) hl (fun _ _ _ hc => by rw [hnv] at hc; cases hc)
    rw [hs] at h2; cases h2
    exact ⟨nv, inv.storeV_target hl hnv hs, rfl, content_scalar_indep hnv 1 [] _, inv2⟩
  have inplace : ∀ nv : V, handleOf nv = none → (∀ old, readLoc σ t = .ok old → handleOf old = none) →
      Var.writeLoc σ t nv = .ok σ' →
      ∃ v', readLoc σ' t = .ok v' ∧ typeOf v' = typeOf nv ∧ content 1 σ'.heap v' = content 1 [] nv ∧ Inv σ' [] := by
    intro nv hnv hold hw
    obtain ⟨σ1, old, hr, hw1, inv1, _, hrd⟩ := ((Inv.scalar hnv).mpr inv).writeLoc hl (fun _ _ _ hc => by rw [hnv] at hc; cases hc)
    rw [hw] at hw1; cases hw1
    exact ⟨nv, hrd, rfl, content_scalar_indep hnv 1 [] _, (Inv.scalar (hold old hr)).mp inv1⟩
  cases l with
  | str s =>
    simp only [opBody, Var.assignString] at h
    obtain ⟨old, hr, _⟩ := readLoc_valid hl []
    rw [hr] at h
    have hms : ∀ v : V, (v = V.str s ∨ v = V.sstr s) → typeOf v = typeOf (mkString s) ∧ content 1 [] v = content 1 [] (mkString s) := by
      intro v hv
      unfold mkString
      rcases hv with rfl | rfl <;> split <;> exact ⟨rfl, rfl⟩
    have fin : ∀ nv : V, (nv = V.str s ∨ nv = V.sstr s) →
        (∃ v', readLoc σ' t = .ok v' ∧ typeOf v' = typeOf nv ∧ content 1 σ'.heap v' = content 1 [] nv ∧ Inv σ' []) →
        ∃ v', readLoc σ' t = .ok v' ∧ typeOf v' = typeOf (Lit.str s).toV ∧ content 1 σ'.heap v' = content 1 [] (Lit.str s).toV ∧ Inv σ' [] := by
      intro nv hnv ⟨v', h1, h2, h3, h4⟩
      obtain ⟨e1, e2⟩ := hms nv hnv
      exact ⟨v', h1, h2.trans e1, h3.trans e2, h4⟩
    cases old with
    | str x =>
      exact fin _ (Or.inl rfl) (inplace _ rfl (fun o ho => by rw [hr] at ho; cases ho; rfl) h)
    | sstr x =>
      simp only [] at h
      split at h
      · exact fin _ (Or.inr rfl) (inplace _ rfl (fun o ho => by rw [hr] at ho; cases ho; rfl) h)
      · exact fin _ (Or.inl rfl) (inplace _ rfl (fun o ho => by rw [hr] at ho; cases ho; rfl) h)
    | none => exact scalarCase _ (Lit.toV_scalar (.str s)) h
    | null => exact scalarCase _ (Lit.toV_scalar (.str s)) h
    | bool _ => exact scalarCase _ (Lit.toV_scalar (.str s)) h
    | int _ => exact scalarCase _ (Lit.toV_scalar (.str s)) h
    | num _ => exact scalarCase _ (Lit.toV_scalar (.str s)) h
    | flt _ => exact scalarCase _ (Lit.toV_scalar (.str s)) h
    | arr _ => exact scalarCase _ (Lit.toV_scalar (.str s)) h
    | obj _ => exact scalarCase _ (Lit.toV_scalar (.str s)) h
  | int i => exact scalarCase _ (Lit.toV_scalar (.int i)) h
  | uns u => exact scalarCase _ (Lit.toV_scalar (.uns u)) h
  | long i => exact scalarCase _ (Lit.toV_scalar (.long i)) h
  | dbl d => exact scalarCase _ (Lit.toV_scalar (.dbl d)) h
  | flt d => exact scalarCase _ (Lit.toV_scalar (.flt d)) h
  | bool b => exact scalarCase _ (Lit.toV_scalar (.bool b)) h
  | nlong i => exact scalarCase _ (Lit.toV_scalar (.nlong i)) h
  | nulong u => exact scalarCase _ (Lit.toV_scalar (.nulong u)) h
  | ulong u => exact scalarCase _ (Lit.toV_scalar (.ulong u)) h

/-- the hypotheses of `assign_spec_state` are met by `v = v[0]` on `v = [[1,2],5]`: the assignment is executed and
`v` then holds the handle of the former element -/
example : ((opSetV (run true (initState 1)
      [.setLit ⟨0, [.idx 0, .idx 0]⟩ (.int 1), .setLit ⟨0, [.idx 0, .idx 1]⟩ (.int 2), .setLit ⟨0, [.idx 1]⟩ (.int 5)])
    (.slot 0) (some (.item 0 0))).toOption.map (·.slots)) = some [V.arr 1] := by decide

/-- the second known finding in the model: `v << "…" << 2; v[5] = v[0]` — the auto-creating target path moves the
block the source reference points into; the guarded statement is refused, the unguarded one reads a released block
(in the C++: heap-use-after-free in `Var::operator=`) -/
theorem autocreate_invalidates_source_counterexample :
    (applyOp true (run true (initState 1) [.appLit ⟨0, []⟩ (.str [97, 32, 108, 111, 110, 103, 32, 115, 116, 114]), .appLit ⟨0, []⟩ (.int 2)])
      (.setV ⟨0, [.idx 5]⟩ ⟨0, [.idx 0]⟩)).2 = .error .srcMoved ∧
    readLoc (resolveMut false (some (.item 0 0))
      (run true (initState 1) [.appLit ⟨0, []⟩ (.str [97, 32, 108, 111, 110, 103, 32, 115, 116, 114]), .appLit ⟨0, []⟩ (.int 2)])
      (.slot 0) [.idx 5]).1 (.item 0 0) = .error .uaf := by
  constructor <;> rfl

/-! ## constructors from containers: `Var(Array<T>)`, `Var(std::initializer_list<T>)`, `Var(Dic<T>)`, `Var::array({..})` -/

/-- **ctor_array_spec** — `Var(const Array<T>&)` / `Var(std::initializer_list<T>)` (T = int, double, String, …): after the executed
construction the root holds an ARRAY with exactly `n` elements whose content is the list of the given values, in
order; whatever the root held before has been released; the invariant holds -/
theorem ctor_array_spec (σ σ' : State) (k : Nat) (lits : List Lit) (inv : Inv σ []) (h : rootOp σ (.ctorArr k lits) = .ok σ') :
    ∃ id b, σ'.slots[k]? = some (.arr id) ∧ getB σ'.heap id = .ok b ∧ b.items.length = lits.length ∧
      (∀ f, content (f + 2) σ'.heap (.arr id) = some (.arr (lits.map fun l => scalarTree l.toV))) ∧ Inv σ' [] := by
  simp only [rootOp, opCtorArr, allocB] at h
  have hsc : ∀ kv ∈ lits.map (fun l => (([] : Bytes), l.toV)), handleOf kv.2 = none := by
    intro kv hkv; obtain ⟨l, _, rfl⟩ := List.mem_map.mp hkv; exact Lit.toV_scalar l
  obtain ⟨hget, _, ⟨b', hb', e1, _⟩, inv', _⟩ := ctor_block_spec σ σ' k
    { isObj := false, items := lits.map (fun l => (([] : Bytes), l.toV)), cap := litCap lits.length, rc := 1 }
    (by
      have := Inv.scalars inv ((lits.map (fun l => (([] : Bytes), l.toV))).map (·.2)) (by
        intro v hv; obtain ⟨kv, hkv, rfl⟩ := List.mem_map.mp hv; exact hsc kv hkv)
      simpa [bvals] using this) rfl (by intro h0; cases h0) h
  refine ⟨σ.heap.length, b', hget, hb', by rw [e1]; simp, ?_, inv'⟩
  intro f
  rw [content_arr_of hb', e1, mapO_scalar_arr f σ'.heap _ hsc]
  simp [List.map_map, Function.comp_def]

/-- **ctor_dic_spec** — `Var(const Dic<T>&)`: after the executed construction the root holds an OBJECT whose properties
are the entries of the dictionary (keys ascending, each once, a later entry for the same key winning), each denoting the
given value; the invariant holds -/
theorem ctor_dic_spec (σ σ' : State) (k : Nat) (pairs : List (Bytes × Lit)) (inv : Inv σ []) (h : rootOp σ (.ctorDic k pairs) = .ok σ') :
    ∃ id b items, σ'.slots[k]? = some (.obj id) ∧ getB σ'.heap id = .ok b ∧ b.items = items ∧
      dicOfPairs [] (pairs.map fun kl => (kl.1, kl.2.toV)) = .ok items ∧ SortedItems items ∧
      (∀ f, content (f + 2) σ'.heap (.obj id) = some (.obj (items.map fun kv => (kv.1, scalarTree kv.2)))) ∧ Inv σ' [] := by
  simp only [rootOp, opCtorDic] at h
  obtain ⟨items, h1, hs, hv⟩ := dicOfPairs_spec (pairs.map fun kl => (kl.1, kl.2.toV)) [] (by simp [SortedItems, AslProofs.Map.Sorted])
  rw [h1] at h; simp only [allocB] at h
  have hsc : ∀ kv ∈ items, handleOf kv.2 = none := by
    intro kv hkv
    rcases hv kv.2 (List.mem_map_of_mem hkv) with h0 | h0
    · simp at h0
    · simp only [List.map_map, List.mem_map] at h0; obtain ⟨kl, _, e⟩ := h0; rw [← e]; exact Lit.toV_scalar _
  obtain ⟨hget, _, ⟨b', hb', e1, _⟩, inv', _⟩ := ctor_block_spec σ σ' k
    { isObj := true, items := items, cap := litCap items.length, rc := 1 }
    (by
      have := Inv.scalars inv (items.map (·.2)) (by intro v hv'; obtain ⟨kv, hkv, rfl⟩ := List.mem_map.mp hv'; exact hsc kv hkv)
      simpa [bvals] using this)
    rfl (fun _ => hs) h
  refine ⟨σ.heap.length, b', items, hget, hb', e1, h1, hs, ?_, inv'⟩
  intro f
  rw [content_obj_of hb', e1, mapO_scalar_obj f σ'.heap _ hsc]
  rfl

/-- **ctor_vars_spec** — `Var::array({a, b, ..})` / `Var(const Array<Var>&)`: after the executed construction the root holds a
new ARRAY whose elements are copies of the given Vars (containers shared, counted), denoting their trees in order; the
invariant holds -/
theorem ctor_vars_spec (σ σ' : State) (k : Nat) (qs : List Path) (inv : Inv σ []) (h : rootOp σ (.ctorVars k qs) = .ok σ') :
    ∃ id b vals, mapE qs (cget σ) = .ok vals ∧ σ'.slots[k]? = some (.arr id) ∧ getB σ'.heap id = .ok b ∧
      b.items = vals.map (fun v => (([] : Bytes), v)) ∧
      (∀ f trs, mapO vals (content f σ.heap) = some trs → content (f + 1) σ'.heap (.arr id) = some (.arr trs)) ∧ Inv σ' [] := by
  simp only [rootOp, opCtorVars] at h
  rcases mapE_held inv qs with ⟨e, h1, _⟩ | ⟨vals, h1, hheld⟩
  · rw [h1] at h; cases h
  · rw [h1] at h
    obtain ⟨h', h2, inv2, same⟩ := Inv.copyAll vals σ inv (fun v hv => Held.live inv (hheld v hv))
    simp only [h2, allocB] at h
    have hbv : bvals { isObj := false, items := vals.map (fun v => (([] : Bytes), v)), cap := max vals.length 3, rc := 1 } = vals := by
      simp [bvals, List.map_map, Function.comp_def]
    obtain ⟨hget, _, ⟨b', hb', e1, _⟩, inv', sub⟩ := ctor_block_spec { σ with heap := h' } σ' k
      { isObj := false, items := vals.map (fun v => (([] : Bytes), v)), cap := max vals.length 3, rc := 1 }
      (by rw [hbv]; simpa using inv2) rfl (by intro h0; cases h0) h
    refine ⟨h'.length, b', vals, h1, hget, hb', e1, ?_, inv'⟩
    intro f trs hm
    rw [content_arr_of hb', e1, mapO_map_snd]
    rw [mapO_congr_some hm]
    · rfl
    · intro v hv t ht
      have hin : v ∈ hvals σ'.heap := mem_hvals_of_getB hb' (by rw [bvals, e1]; simp [List.map_map, Function.comp_def, hv])
      exact content_sub sub inv'.wf f v t (Or.inr hin)
        (content_mono (getB_append_mono _) f v t (content_same same f v t ht))

/-! ## rarely used overloads and boundary arguments (defect hunt, round 4): ULong, Var(Type), string key on an array,
`removeAt` counts near INT_MAX, assignment of a piece of the Var's own string -/

/-- `Var(ULong)` / `v = (ULong)u` (exact below 2^53): a NUMBER of that value which `(ULong)v` and `(Long)v` give back -/
theorem accessors_ulong (u : Nat) (hu : u < 9007199254740992) :
    typeOf (mkULong u) = tNUMBER ∧ numOf (mkULong u) = some (Dy.ofInt u) ∧ toULong (mkULong u) = some u ∧
    toLong (mkULong u) = some (u : Int) := by
  have ht : (Dy.ofInt (u : Int)).trunc = (u : Int) := by simp [Dy.ofInt, Dy.trunc]
  refine ⟨rfl, by simp [mkULong, hu, numOf, Dy.norm_ofInt], ?_, ?_⟩
  · simp only [mkULong, hu, if_true, toULong, toLong, ht]
    have h1 : ¬ ((u : Int) ≥ 9223372036854775808) := by omega
    have h2 : (-9223372036854775808 ≤ (u : Int) ∧ (u : Int) < 9223372036854775808) := by omega
    simp only [h1, h2, if_false, if_true, and_self, Option.map_some]
    congr 1
    omega
  · simp only [mkULong, hu, if_true, toLong, ht]
    have h2 : (-9223372036854775808 ≤ (u : Int) ∧ (u : Int) < 9223372036854775808) := by omega
    simp only [h2, and_self, if_true]

/-- `(ULong)v` for a NUMBER from 2^63 up to 2^64 (commit c047585): the value itself, not a detour through `Long` -/
theorem ulong_above_long_range (m : Nat) (h1 : 9223372036854775808 ≤ m) (h2 : m < 18446744073709551616) :
    toULong (.num ⟨(m : Int), 0⟩) = some m ∧ toLong (.num ⟨(m : Int), 0⟩) = none := by
  have ht : (Dy.mk (m : Int) 0).trunc = (m : Int) := by simp [Dy.trunc]
  constructor
  · simp only [toULong, ht]
    have a : (m : Int) ≥ 9223372036854775808 := by omega
    have b : (m : Int) < 18446744073709551616 := by omega
    simp only [a, b, if_true, Int.toNat_natCast]
  · simp only [toLong, ht]
    have a : ¬ (-9223372036854775808 ≤ (m : Int) ∧ (m : Int) < 9223372036854775808) := by omega
    simp only [a, if_false]

/-- `Var(Var::INT)`, `Var(Var::NUMBER)`, `Var(Var::FLOAT)`, `Var(Var::BOOL)` (commit 11663a3): zero / false, no new block -/
theorem ctor_type_zero (h : Heap) :
    mkType h tINT = .ok (h, .int 0) ∧ mkType h tNUMBER = .ok (h, .num (Dy.ofInt 0)) ∧
    mkType h tFLOAT = .ok (h, .flt (Dy.ofInt 0)) ∧ mkType h tBOOL = .ok (h, .bool false) ∧
    toInt (.int 0) = some 0 ∧ numOf (.num (Dy.ofInt 0)) = some (Dy.ofInt 0) ∧ numOf (.flt (Dy.ofInt 0)) = some (Dy.ofInt 0) ∧
    Var.toBool (.bool false) = false := by
  refine ⟨rfl, rfl, rfl, rfl, rfl, ?_, ?_, rfl⟩ <;> simp [numOf, Dy.norm_ofInt]

/-- `v["7"]` on an ARRAY (commit 7407dbc): the non-const `operator[](const String&)` takes exactly the step
`operator[]((int)key)` — auto-creating like the int index, never beyond the block (`history_safe` covers it) -/
theorem string_key_on_array_is_index (g : Bool) (src : Option Loc) (σ : State) (l : Loc) (id : Nat) (k : Bytes) (rest : List Step)
    (h : readLoc σ l = .ok (.arr id)) (hk : 0 ≤ myatoi k) :
    resolveMut g src σ l (.key k :: rest) = resolveMut g src σ l (.idx (myatoi k).toNat :: rest) := by
  have hn : ¬ (myatoi k < 0) := by omega
  simp only [resolveMut, normStep, h, hn, if_false]

/-- `a["-1"]` on an ARRAY (commit 095ba92): a key that converts to a negative int takes no step at all — the call reports
an error and returns the Var itself; nothing before the block is touched -/
theorem string_key_negative_on_array_is_self (g : Bool) (src : Option Loc) (σ : State) (l : Loc) (id : Nat) (k : Bytes) (rest : List Step)
    (h : readLoc σ l = .ok (.arr id)) (hk : myatoi k < 0) :
    resolveMut g src σ l (.key k :: rest) = resolveMut g src σ l rest := by
  simp only [resolveMut, normStep, h, hk, if_true]

/-- `removeAt(i, n)` (commits 17b939b, 0854fc0): for EVERY `int` pair outside `0 <= i < len, 0 < n <= len - i` — `n = INT_MAX`
included; the model's test is in unbounded integers — the call changes nothing -/
theorem removeAt_out_of_range_noop (σ : State) (t : Loc) (sl : Option Loc) (p : Path) (i n : Int) (id : Nat) (b : Block)
    (hr : readLoc σ t = .ok (.arr id)) (hb : getB σ.heap id = .ok b)
    (h : i < 0 ∨ n ≤ 0 ∨ (b.items.length : Int) ≤ i ∨ (b.items.length : Int) - i < n) :
    opBody true σ t sl (.removeAt p i n) = .ok σ := by
  simp only [opBody]
  by_cases h0 : i < 0 ∨ n ≤ 0
  · simp only [h0, if_true]
  · simp only [h0, if_false, removeAtV, hr, hb, bind, Except.bind]
    have hc : ¬ (n.toNat > 0 ∧ i.toNat < b.items.length ∧ i.toNat + n.toNat ≤ b.items.length) := by omega
    simp only [hc, if_false, pure, Except.pure]

/-- **assign_suffix_spec** — `p = *p + off` (commit 0cc196d): an executed `const char*` assignment from inside the Var's own
string leaves the Var readable, denoting exactly the suffix; the invariant holds -/
theorem assign_suffix_spec (σ σ' : State) (t : Loc) (sl : Option Loc) (p : Path) (off : Nat) (inv : Inv σ []) (hl : ValidLoc σ t)
    (h : opBody true σ t sl (.setSub p off) = .ok σ') :
    ∃ s, (readLoc σ t = .ok (.str s) ∨ readLoc σ t = .ok (.sstr s)) ∧ off ≤ s.length ∧
      ∃ v', readLoc σ' t = .ok v' ∧ content 1 σ'.heap v' = some (.str (s.drop off)) ∧ Inv σ' [] := by
  have hms : ∀ x : Bytes, content 1 [] (mkString x) = some (.str x) := by
    intro x; unfold mkString; split <;> rfl
  simp only [opBody, assignSuffix] at h
  obtain ⟨old, hr, _⟩ := readLoc_valid hl []
  rw [hr] at h
  have fin : ∀ s : Bytes, (old = .str s ∨ old = .sstr s) → off ≤ s.length → assignString σ t (s.drop off) = .ok σ' →
      ∃ s, (readLoc σ t = .ok (.str s) ∨ readLoc σ t = .ok (.sstr s)) ∧ off ≤ s.length ∧
      ∃ v', readLoc σ' t = .ok v' ∧ content 1 σ'.heap v' = some (.str (s.drop off)) ∧ Inv σ' [] := by
    intro s hs hoff ha
    obtain ⟨v', h1, _, h3, h4⟩ := assign_lit_spec σ σ' t sl p (.str (s.drop off)) inv hl ha
    refine ⟨s, ?_, hoff, v', h1, by rw [h3]; exact hms _, h4⟩
    rcases hs with rfl | rfl
    · exact Or.inl hr
    · exact Or.inr hr
  cases old with
  | str s =>
    simp only [] at h
    split at h
    · rename_i hoff; exact fin s (Or.inl rfl) hoff h
    · cases h
  | sstr s =>
    simp only [] at h
    split at h
    · rename_i hoff; exact fin s (Or.inr rfl) hoff h
    · cases h
  | none => cases h
  | null => cases h
  | bool _ => cases h
  | int _ => cases h
  | num _ => cases h
  | flt _ => cases h
  | arr _ => cases h
  | obj _ => cases h

/-- **assign_cstr_spec** — `p = *q + off` (commit 7dd07aa), e.g. `v = *v[0]`, `v = *v["k"]`, `a[1] = *a[1][0]`: an executed
`const char*` assignment whose text lives in a string Var `q` — possibly an element or property of the array or object
that `p` holds and that the assignment releases — leaves `p` readable, denoting exactly that text; the invariant holds -/
theorem assign_cstr_spec (σ σ' : State) (t : Loc) (sl : Option Loc) (p q : Path) (off : Nat) (inv : Inv σ []) (hl : ValidLoc σ t)
    (h : opBody true σ t sl (.setCs p q off) = .ok σ') :
    ∃ s, (srcVal σ sl = .ok (.str s) ∨ srcVal σ sl = .ok (.sstr s)) ∧ off ≤ s.length ∧
      ∃ v', readLoc σ' t = .ok v' ∧ content 1 σ'.heap v' = some (.str (s.drop off)) ∧ Inv σ' [] := by
  have hms : ∀ x : Bytes, content 1 [] (mkString x) = some (.str x) := by
    intro x; unfold mkString; split <;> rfl
  simp only [opBody, assignCs] at h
  cases hsv : srcVal σ sl with
  | error e => rw [hsv] at h; cases h
  | ok src =>
    rw [hsv] at h
    have fin : ∀ s : Bytes, (src = .str s ∨ src = .sstr s) → off ≤ s.length → assignString σ t (s.drop off) = .ok σ' →
        ∃ s, ((Except.ok src : Except Err V) = Except.ok (V.str s) ∨ (Except.ok src : Except Err V) = Except.ok (V.sstr s)) ∧ off ≤ s.length ∧
        ∃ v', readLoc σ' t = .ok v' ∧ content 1 σ'.heap v' = some (.str (s.drop off)) ∧ Inv σ' [] := by
      intro s hs hoff ha
      obtain ⟨v', h1, _, h3, h4⟩ := assign_lit_spec σ σ' t sl p (.str (s.drop off)) inv hl ha
      refine ⟨s, ?_, hoff, v', h1, by rw [h3]; exact hms _, h4⟩
      rcases hs with rfl | rfl
      · exact Or.inl rfl
      · exact Or.inr rfl
    cases src with
    | str s =>
      simp only [] at h
      split at h
      · rename_i hoff; exact fin s (Or.inl rfl) hoff h
      · cases h
    | sstr s =>
      simp only [] at h
      split at h
      · rename_i hoff; exact fin s (Or.inr rfl) hoff h
      · cases h
    | none => cases h
    | null => cases h
    | bool _ => cases h
    | int _ => cases h
    | num _ => cases h
    | flt _ => cases h
    | arr _ => cases h
    | obj _ => cases h

/-- **assign_key_spec** — `p = k` with `const String& k = q.object().kv()[i].key` (commit 782f6e9), e.g. `v = (name of v's first
property)`: an executed `const String&` assignment whose text is a property NAME held by the object `q` — possibly the
object that `p` holds and that the assignment releases — leaves `p` readable, denoting exactly that name; the invariant holds -/
theorem assign_key_spec (σ σ' : State) (t : Loc) (sl : Option Loc) (p q : Path) (i : Nat) (inv : Inv σ []) (hl : ValidLoc σ t)
    (h : opBody true σ t sl (.setKey p q i) = .ok σ') :
    ∃ id b kv, srcVal σ sl = .ok (.obj id) ∧ getB σ.heap id = .ok b ∧ b.items[i]? = some kv ∧
      ∃ v', readLoc σ' t = .ok v' ∧ content 1 σ'.heap v' = some (.str kv.1) ∧ Inv σ' [] := by
  have hms : ∀ x : Bytes, content 1 [] (mkString x) = some (.str x) := by
    intro x; unfold mkString; split <;> rfl
  simp only [opBody, assignKey] at h
  cases hsv : srcVal σ sl with
  | error e => rw [hsv] at h; cases h
  | ok src =>
    rw [hsv] at h
    cases src with
    | obj id =>
      simp only [] at h
      cases hb : getB σ.heap id with
      | error e => rw [hb] at h; cases h
      | ok b =>
        rw [hb] at h
        simp only [] at h
        cases hi : b.items[i]? with
        | none => rw [hi] at h; cases h
        | some kv =>
          rw [hi] at h
          obtain ⟨v', h1, _, h3, h4⟩ := assign_lit_spec σ σ' t sl p (.str kv.1) inv hl h
          exact ⟨id, b, kv, rfl, hb, hi, v', h1, by rw [h3]; exact hms _, h4⟩
    | str _ => cases h
    | sstr _ => cases h
    | none => cases h
    | null => cases h
    | bool _ => cases h
    | int _ => cases h
    | num _ => cases h
    | flt _ => cases h
    | arr _ => cases h

/-- `c[i]` through the const `operator[](int)` with `i` outside `[0, length)` (commit 8dbc483): the static `none`, like every
other const lookup that misses — nothing beyond the elements is read -/
theorem const_index_beyond_length_is_none (h : Heap) (id i : Nat) (b : Block) (hb : getB h id = .ok b) (hi : b.items.length ≤ i) :
    stepConst h (.arr id) (.idx i) = .ok .none := by
  have : b.items[i]? = none := List.getElem?_eq_none hi
  simp only [stepConst, hb, this]

/-- the typed overload `v == 16777216.0f` for `v = 16777217` (commit cda9080): the driver evaluates every typed numeric
comparison as `numOf v == some d` (exact values), and these two differ -/
theorem int_vs_float_literal_exact : numOf (mkInt 16777217) ≠ numOf (mkFloat (Dy.ofInt 16777216)) := by decide


/-! ## clone_deep: clone() yields a deep copy that no later mutation of the original can change -/

/-- The full statement, over histories: after `root k = q.clone()`, no sequence of statements that do not mention
root `k` changes the tree root `k` denotes. -/
def clone_deep_full : Prop :=
  ∀ (n k : Nat) (ops1 ops2 : List Op) (q : Path) (f : Nat) (tr : Tree),
    (∀ op ∈ ops2, mentions k op = false) →
    content f (run true (initState n) (ops1 ++ [.clone k q])).heap (slotV (run true (initState n) (ops1 ++ [.clone k q])) k) = some tr →
    content f (run true (initState n) (ops1 ++ [.clone k q] ++ ops2)).heap
      (slotV (run true (initState n) (ops1 ++ [.clone k q] ++ ops2)) k) = some tr

/-- **clone_deep_partial** — for EVERY heap and value (no invariant needed): `clone()` only appends blocks; the
result denotes the same tree as the original; and it denotes that tree in EVERY heap `h''` that still has the
blocks the clone allocated (ids ≥ the old heap length) — whatever happened to all older blocks, i.e. to everything
the original can reach: modified, released, reallocated.  Missing for `clone_deep_full`: the footprint theorem that
statements not mentioning the clone's root never modify the clone's blocks (they are referenced only from that
root: rc = 1 by `history_safe`). -/
theorem clone_deep_partial (f : Nat) (h h' : Heap) (v c : V) (t : Tree)
    (hc : cloneV f h v = .ok (h', c)) (ht : content f h v = some t) :
    (∃ y, h' = h ++ y) ∧ content f h' c = some t ∧ ∀ h'', KeepsFrom h.length h' h'' → content f h'' c = some t := by
  obtain ⟨hy, hk⟩ := cloneSpec f h.length h h' v c t (Nat.le_refl _) hc ht
  exact ⟨hy, hk h' (fun id _ b hb => ⟨b, hb, rfl, rfl⟩), hk⟩

/-- a clone of `{"a": [1, "x"]}`: the copy still denotes that tree after every original block has been released -/
example : ∀ h' c,
    cloneV 5 [some ⟨true, [([97], V.arr 1)], 3, 1⟩, some ⟨false, [([], V.int 1), ([], V.sstr [120])], 3, 1⟩] (V.obj 0) = .ok (h', c) →
    content 5 ((h'.set 0 none).set 1 none) c = some (Tree.obj [([97], Tree.arr [Tree.num (Dy.ofInt 1), Tree.str [120]])]) := by
  intro h' c hc
  refine (clone_deep_partial 5 _ h' _ c _ hc (by rfl)).2.2 _ ?_
  intro id hid b hb
  have h0 : id ≠ 0 := by simp at hid; omega
  have h1 : id ≠ 1 := by simp at hid; omega
  exact ⟨b, by rw [getB_set_ne _ h1, getB_set_ne _ h0]; exact hb, rfl, rfl⟩

/-! ### clone_deep over histories: reduction to ownership + one-statement footprint (extension round) -/

/-- root `k` owns the set of blocks `S`: its handle lies in `S`, `S` is closed under the handles its blocks store, no
other root and no block outside `S` holds a handle into `S`, and `S` holds allocated ids only -/
def Iso (σ : State) (k : Nat) (S : Nat → Prop) : Prop :=
  (∀ id, handleOf (slotV σ k) = some id → S id) ∧
  (∀ id b, S id → getB σ.heap id = .ok b → ∀ v ∈ bvals b, ∀ c, handleOf v = some c → S c) ∧
  (∀ j, j ≠ k → ∀ id, handleOf (slotV σ j) = some id → ¬ S id) ∧
  (∀ id b, ¬ S id → getB σ.heap id = .ok b → ∀ v ∈ bvals b, ∀ c, handleOf v = some c → ¬ S c) ∧
  (∀ id, S id → id < σ.heap.length)

/-- the clone statement establishes ownership: in the state after an executed `root k = q.clone()` root `k` owns its blocks -/
def clone_isolated_full : Prop :=
  ∀ (n k : Nat) (ops1 : List Op) (q : Path),
    (applyOp true (run true (initState n) ops1) (.clone k q)).2 = .ok () →
    ∃ S, Iso (applyOp true (run true (initState n) ops1) (.clone k q)).1 k S

/-- the footprint of one statement: a statement that does not mention root `k` leaves root `k`, the cells of the blocks it
owns and the ownership itself unchanged -/
def StepFootprint (op : Op) : Prop :=
  ∀ (σ : State) (k : Nat) (S : Nat → Prop), Inv σ [] → Iso σ k S → mentions k op = false →
    Iso (applyOp true σ op).1 k S ∧ slotV (applyOp true σ op).1 k = slotV σ k ∧
    ∀ id, S id → (applyOp true σ op).1.heap[id]? = σ.heap[id]?

def step_footprint_full : Prop := ∀ op, StepFootprint op

/-- `clone_deep_full` for a clone statement that was executed (not refused) -/
def clone_deep_exec_full : Prop :=
  ∀ (n k : Nat) (ops1 ops2 : List Op) (q : Path) (f : Nat) (tr : Tree),
    (applyOp true (run true (initState n) ops1) (.clone k q)).2 = .ok () →
    (∀ op ∈ ops2, mentions k op = false) →
    content f (run true (initState n) (ops1 ++ [.clone k q])).heap (slotV (run true (initState n) (ops1 ++ [.clone k q])) k) = some tr →
    content f (run true (initState n) (ops1 ++ [.clone k q] ++ ops2)).heap
      (slotV (run true (initState n) (ops1 ++ [.clone k q] ++ ops2)) k) = some tr

/-- histories preserve an owned root: induction over the statements, each step by the one-statement footprint -/
theorem owned_root_stable (k : Nat) (S : Nat → Prop) (f : Nat) (tr : Tree) :
    ∀ (ops : List Op) (σ : State), Inv σ [] → Iso σ k S → (∀ op ∈ ops, mentions k op = false ∧ StepFootprint op) →
      content f σ.heap (slotV σ k) = some tr →
      content f (run true σ ops).heap (slotV (run true σ ops) k) = some tr
  | [], _, _, _, _, hc => hc
  | op :: rest, σ, inv, iso, hm, hc => by
    obtain ⟨iso1, hslot, hcells⟩ := (hm op (by simp)).2 σ k S inv iso (hm op (by simp)).1
    obtain ⟨inv1, _, _⟩ := inv.applyOp op
    simp only [run]
    refine owned_root_stable k S f tr rest _ inv1 iso1 (fun o ho => hm o (by simp [ho])) ?_
    rw [hslot]
    exact content_closed iso.2.1 hcells f _ tr iso.1 hc

/-- a block appended by a clone, seen through its id -/
theorem getB_appended {h y : Heap} {id : Nat} {b : Block} (hid : h.length ≤ id) (hb : getB (h ++ y) id = .ok b) :
    some b ∈ y := by
  rw [getB_eq, List.getElem?_append_right hid] at hb
  exact List.mem_of_getElem? hb

/-- **clone_isolated** — in the state after an executed `root k = q.clone()`, in any history, root `k` owns exactly the
blocks the clone allocated: its handle and every handle stored in those blocks point to those blocks, and no other root
and no other block holds a handle to any of them -/
theorem clone_isolated : clone_isolated_full := by
  intro n k ops1 q hex
  obtain ⟨inv, _, _⟩ := (Inv.init n).run ops1 (initState n) rfl
  generalize run true (initState n) ops1 = σ at hex inv ⊢
  simp only [applyOp, targetOf, rootOp] at hex ⊢
  cases hop : opClone σ k q with
  | error e => rw [hop] at hex; cases hex
  | ok σ' =>
    simp only []
    unfold opClone at hop
    rcases inv.cget q with ⟨e, h1, _⟩ | ⟨src, h1, hsrc⟩
    · rw [h1] at hop; cases hop
    · rw [h1] at hop
      simp only [] at hop
      rcases cloneOK (travFuel σ.heap) σ src [] inv (Held.live inv hsrc) with h2 | ⟨h', c, h2, inv2, _⟩
      · rw [h2] at hop; cases hop
      · rw [h2] at hop
        simp only [] at hop
        obtain ⟨hslots, hk, hsub⟩ := replaceSlot_spec inv2 hop
        obtain ⟨y, hy, hc, hfy⟩ := cloneFresh _ σ.heap.length σ.heap h' src c (Nat.le_refl _) h2
        simp only [] at hslots hk hsub
        refine ⟨fun id => σ.heap.length ≤ id ∧ id < h'.length, ?_, ?_, ?_, ?_, ?_⟩
        · intro id hid
          have : slotV σ' k = c := by simp [slotV, hslots, List.getD_eq_getElem?_getD, hk]
          rw [this] at hid
          exact hc id hid
        · intro id b' hS hb' v hv cc hcc
          obtain ⟨b, hb, hit, _⟩ := hsub.2 id b' hb'
          have hv' : v ∈ bvals b := by simpa [bvals, hit] using hv
          rw [hy] at hb
          exact hfy (some b) (getB_appended hS.1 hb) v hv' cc hcc
        · intro j hj id hid hS
          have hsl : slotV σ' j = slotV σ j := by simp [slotV, hslots, List.getD_eq_getElem?_getD, List.getElem?_set_ne (Ne.symm hj)]
          rw [hsl] at hid
          have hmem : slotV σ j ∈ σ.slots := by
            unfold slotV at hid ⊢
            rw [List.getD_eq_getElem?_getD] at hid ⊢
            cases hg : σ.slots[j]? with
            | none => rw [hg] at hid; cases hid
            | some w => exact List.mem_of_getElem? hg
          have := inv.wf.handle_lt (Or.inl (by simpa using hmem)) hid
          omega
        · intro id b' hnS hb' v hv cc hcc hS
          obtain ⟨b, hb, hit, _⟩ := hsub.2 id b' hb'
          have hv' : v ∈ bvals b := by simpa [bvals, hit] using hv
          have hlt : id < σ.heap.length := by
            have := getB_lt hb
            by_cases hh : σ.heap.length ≤ id
            · exact absurd ⟨hh, this⟩ hnS
            · omega
          rw [hy, getB_append_left _ hlt] at hb
          have := inv.wf.handle_lt (Or.inr (mem_hvals_of_getB hb hv')) hcc
          omega
        · intro id hS
          rw [hsub.1]; exact hS.2

/-! #### one-statement footprints proved so far: the statements that re-create a root from literals -/

/-- from a block outside an owned set only blocks outside it are reachable -/
theorem Iso.reach_outside {σ : State} {k : Nat} {S : Nat → Prop} (iso : Iso σ k S) {c id : Nat} (r : Reach σ.heap c id)
    (hc : ¬ S c) : ¬ S id := by
  induction r with
  | refl _ => exact hc
  | step e _ ih =>
    obtain ⟨b, hb, v, hv, hh⟩ := e
    exact ih (iso.2.2.2.1 _ b hc hb v hv _ hh)

/-- replacing another root by a value that holds no handle into the owned set: the old root is destroyed outside the set -/
theorem replaceSlot_footprint {σ σ' : State} {k j : Nat} {S : Nat → Prop} {v : V} {T : List V} (inv : Inv σ (v :: T))
    (iso : Iso σ k S) (hj : j ≠ k) (hv : ∀ c, handleOf v = some c → ¬ S c) (h : replaceSlot σ j v = .ok σ') :
    Iso σ' k S ∧ slotV σ' k = slotV σ k ∧ ∀ id, S id → σ'.heap[id]? = σ.heap[id]? := by
  obtain ⟨hslots, hjl, hsub⟩ := replaceSlot_spec inv h
  have hcells : ∀ id, S id → σ'.heap[id]? = σ.heap[id]? := by
    intro id hS
    unfold replaceSlot at h
    simp only [hjl, if_true] at h
    cases hd : Var.drop σ.heap [slotV σ j] with
    | error e => simp [hd] at h
    | ok h' =>
      simp only [hd, Except.ok.injEq] at h
      subst h
      simp only []
      refine release_frame _ _ _ _ id hd ?_
      intro w hw c hc r
      simp only [List.mem_singleton] at hw
      subst hw
      exact iso.reach_outside r (iso.2.2.1 j hj c hc) hS
  have hk : slotV σ' k = slotV σ k := by
    simp [slotV, hslots, List.getD_eq_getElem?_getD, List.getElem?_set_ne hj]
  refine ⟨⟨?_, ?_, ?_, ?_, ?_⟩, hk, hcells⟩
  · rw [hk]; exact iso.1
  · intro id b' hS hb' w hw c hc
    have : getB σ.heap id = .ok b' := by rw [getB_eq, ← hcells id hS, ← getB_eq]; exact hb'
    exact iso.2.1 id b' hS this w hw c hc
  · intro j' hj' id hid
    by_cases hjj : j' = j
    · subst hjj
      have : slotV σ' j' = v := by simp [slotV, hslots, List.getD_eq_getElem?_getD, hjl]
      rw [this] at hid
      exact hv id hid
    · have : slotV σ' j' = slotV σ j' := by
        simp [slotV, hslots, List.getD_eq_getElem?_getD, List.getElem?_set_ne (Ne.symm hjj)]
      rw [this] at hid
      exact iso.2.2.1 j' hj' id hid
  · intro id b' hnS hb' w hw c hc
    obtain ⟨b, hb, hit, _⟩ := hsub.2 id b' hb'
    have hw' : w ∈ bvals b := by simpa [bvals, hit] using hw
    exact iso.2.2.2.1 id b hnS hb w hw' c hc
  · intro id hS
    rw [hsub.1]; exact iso.2.2.2.2 id hS

theorem stepFootprint_refused {σ : State} {k : Nat} {S : Nat → Prop} (iso : Iso σ k S) :
    Iso σ k S ∧ slotV σ k = slotV σ k ∧ ∀ id, S id → σ.heap[id]? = σ.heap[id]? := ⟨iso, rfl, fun _ _ => rfl⟩

/-- `root j = Var()` destroys root `j` only -/
theorem stepFootprint_drop (j : Nat) : StepFootprint (.drop j) := by
  intro σ k S inv iso hm
  have hj : j ≠ k := by simpa [mentions] using hm
  simp only [applyOp, targetOf, rootOp]
  cases h : replaceSlot σ j V.none with
  | error e => exact stepFootprint_refused iso
  | ok σ' =>
    exact replaceSlot_footprint (T := []) ((Inv.scalar rfl).mpr inv) iso hj (fun c hc => by cases hc) h

/-- `root j = <number | bool | string literal>` destroys root `j` only -/
theorem stepFootprint_ctorLit (j : Nat) (l : Lit) : StepFootprint (.ctorLit j l) := by
  intro σ k S inv iso hm
  have hj : j ≠ k := by simpa [mentions] using hm
  simp only [applyOp, targetOf, rootOp]
  cases h : replaceSlot σ j l.toV with
  | error e => exact stepFootprint_refused iso
  | ok σ' =>
    exact replaceSlot_footprint (T := []) ((Inv.scalar (Lit.toV_scalar l)).mpr inv) iso hj
      (fun c hc => by rw [Lit.toV_scalar l] at hc; cases hc) h


/-- allocation: appending a block whose values hold no handle keeps every ownership and every owned cell -/
theorem iso_alloc {σ : State} {k : Nat} {S : Nat → Prop} (iso : Iso σ k S) (b : Block) (hb : ∀ w ∈ bvals b, handleOf w = none) :
    Iso { σ with heap := σ.heap ++ [some b] } k S ∧ ¬ S σ.heap.length ∧
    ∀ id, S id → (σ.heap ++ [some b])[id]? = σ.heap[id]? := by
  have hcells : ∀ id, S id → (σ.heap ++ [some b])[id]? = σ.heap[id]? :=
    fun id hS => List.getElem?_append_left (iso.2.2.2.2 id hS)
  have hnew : ¬ S σ.heap.length := fun hS => Nat.lt_irrefl _ (iso.2.2.2.2 _ hS)
  refine ⟨⟨iso.1, ?_, iso.2.2.1, ?_, ?_⟩, hnew, hcells⟩
  · intro id b' hS hb' w hw c hc
    have : getB σ.heap id = .ok b' := by rw [getB_eq, ← hcells id hS, ← getB_eq]; exact hb'
    exact iso.2.1 id b' hS this w hw c hc
  · intro id b' hnS hb' w hw c hc
    by_cases hlt : id < σ.heap.length
    · have : getB σ.heap id = .ok b' := by rw [← getB_append_left [some b] hlt]; exact hb'
      exact iso.2.2.2.1 id b' hnS this w hw c hc
    · have hmem := getB_appended (Nat.le_of_not_lt hlt) hb'
      simp only [List.mem_singleton, Option.some.injEq] at hmem
      subst hmem
      rw [hb w hw] at hc; cases hc
  · intro id hS
    simp only [List.length_append, List.length_singleton]
    exact Nat.lt_succ_of_lt (iso.2.2.2.2 id hS)

/-- a new block of scalar values becomes root `j` -/
theorem alloc_replace_footprint {σ σ' : State} {k j : Nat} {S : Nat → Prop} {b : Block} (inv : Inv σ []) (iso : Iso σ k S)
    (hj : j ≠ k) (hb : ∀ w ∈ bvals b, handleOf w = none) (hrc : b.rc = 1) (hs : b.isObj = true → SortedItems b.items)
    (h : replaceSlot { σ with heap := σ.heap ++ [some b] } j (mkHandle b.isObj σ.heap.length) = .ok σ') :
    Iso σ' k S ∧ slotV σ' k = slotV σ k ∧ ∀ id, S id → σ'.heap[id]? = σ.heap[id]? := by
  obtain ⟨iso1, hnew, hcells⟩ := iso_alloc iso b hb
  have inv1 := Inv.alloc (σ := σ) (T := []) (b := b) (by simpa using Inv.scalars inv (bvals b) hb) hrc hs
  obtain ⟨iso2, hslot, hc2⟩ := replaceSlot_footprint inv1 iso1 hj
    (fun c hc => by rw [handleOf_mkHandle] at hc; cases hc; exact hnew) h
  exact ⟨iso2, hslot, fun id hS => by rw [hc2 id hS]; exact hcells id hS⟩

/-- `root j = Var(Array<T>)` / `Var{...}` of literals -/
theorem stepFootprint_ctorArr (j : Nat) (lits : List Lit) : StepFootprint (.ctorArr j lits) := by
  intro σ k S inv iso hm
  have hj : j ≠ k := by simpa [mentions] using hm
  simp only [applyOp, targetOf, rootOp, opCtorArr, allocB]
  cases h : replaceSlot { σ with heap := σ.heap ++ [some { isObj := false, items := lits.map (fun l => (([] : Bytes), l.toV)), cap := litCap lits.length, rc := 1 }] } j (.arr σ.heap.length) with
  | error e => exact stepFootprint_refused iso
  | ok σ' =>
    exact alloc_replace_footprint (b := { isObj := false, items := lits.map (fun l => (([] : Bytes), l.toV)), cap := litCap lits.length, rc := 1 })
      inv iso hj (by
        intro w hw
        simp only [bvals, List.map_map, List.mem_map, Function.comp] at hw
        obtain ⟨l, _, rfl⟩ := hw
        exact Lit.toV_scalar l) rfl (by intro h; cases h) h

/-- `root j = Var(Dic<T>)` of literals -/
theorem stepFootprint_ctorDic (j : Nat) (pairs : List (Bytes × Lit)) : StepFootprint (.ctorDic j pairs) := by
  intro σ k S inv iso hm
  have hj : j ≠ k := by simpa [mentions] using hm
  simp only [applyOp, targetOf, rootOp, opCtorDic]
  obtain ⟨items, h1, hs, hv⟩ := dicOfPairs_spec (pairs.map fun kl => (kl.1, kl.2.toV)) [] (by simp [SortedItems, AslProofs.Map.Sorted])
  rw [h1]; simp only [allocB]
  cases h : replaceSlot { σ with heap := σ.heap ++ [some { isObj := true, items := items, cap := litCap items.length, rc := 1 }] } j (.obj σ.heap.length) with
  | error e => exact stepFootprint_refused iso
  | ok σ' =>
    exact alloc_replace_footprint (b := { isObj := true, items := items, cap := litCap items.length, rc := 1 })
      inv iso hj (by
        intro w hw
        rcases hv w hw with h0 | h0
        · simp at h0
        · simp only [List.map_map, List.mem_map] at h0; obtain ⟨kl, _, rfl⟩ := h0; exact Lit.toV_scalar _) rfl (fun _ => hs) h

theorem mkType_cases {h h' : Heap} {ty : Nat} {v : V} (hm : mkType h ty = .ok (h', v)) :
    (h' = h ∧ handleOf v = none) ∨ ∃ o, h' = h ++ [some (emptyBlock o)] ∧ v = mkHandle o h.length := by
  unfold mkType at hm
  simp only [allocB] at hm
  repeat' split at hm
  all_goals first
    | (simp only [Except.ok.injEq, Prod.mk.injEq] at hm; obtain ⟨rfl, rfl⟩ := hm; first
        | exact Or.inl ⟨rfl, rfl⟩
        | exact Or.inr ⟨false, rfl, rfl⟩
        | exact Or.inr ⟨true, rfl, rfl⟩)
    | cases hm

/-- `root j = Var(Var::Type)` -/
theorem stepFootprint_ctorType (j : Nat) (ty : Nat) : StepFootprint (.ctorType j ty) := by
  intro σ k S inv iso hm
  have hj : j ≠ k := by simpa [mentions] using hm
  simp only [applyOp, targetOf, rootOp, opCtorType]
  cases hmk : mkType σ.heap ty with
  | error e => exact stepFootprint_refused iso
  | ok r =>
    obtain ⟨h1, v⟩ := r
    simp only []
    cases h : replaceSlot { σ with heap := h1 } j v with
    | error e => exact stepFootprint_refused iso
    | ok σ' =>
      rcases mkType_cases hmk with ⟨rfl, hv⟩ | ⟨o, rfl, rfl⟩
      · exact replaceSlot_footprint (T := []) ((Inv.scalar hv).mpr inv) iso hj (fun c hc => by rw [hv] at hc; cases hc) h
      · exact alloc_replace_footprint (b := emptyBlock o) inv iso hj (by intro w hw; simp [bvals, emptyBlock] at hw) rfl
          (by intro _; simp [emptyBlock, SortedItems, AslProofs.Map.Sorted]) h

/-- a const step from a value that holds no handle into an owned set gives such a value -/
theorem stepConst_outside {σ : State} {k : Nat} {S : Nat → Prop} (iso : Iso σ k S) {v v1 : V} {s : Step}
    (hv : ∀ c, handleOf v = some c → ¬ S c) (h : stepConst σ.heap v s = .ok v1) : ∀ c, handleOf v1 = some c → ¬ S c := by
  intro c hc
  have hnone : v1 = .none → False := fun e => by rw [e] at hc; cases hc
  cases s with
  | idx i =>
    cases v with
    | arr id =>
      simp only [stepConst] at h
      cases hb : getB σ.heap id with
      | error e => simp [hb] at h
      | ok b =>
        simp only [hb] at h
        cases hi : b.items[i]? with
        | none => simp [hi] at h; exact (hnone h.symm).elim
        | some kv =>
          simp only [hi, Except.ok.injEq] at h
          subst h
          exact iso.2.2.2.1 id b (hv id rfl) hb kv.2 (List.mem_map.mpr ⟨kv, List.mem_of_getElem? hi, rfl⟩) c hc
    | _ => simp only [stepConst, Except.ok.injEq] at h; exact (hnone h.symm).elim
  | key key =>
    cases v with
    | obj id =>
      simp only [stepConst] at h
      cases hb : getB σ.heap id with
      | error e => simp [hb] at h
      | ok b =>
        simp only [hb] at h
        cases hf : Map.find Map.cmpBytes b.items key with
        | none => simp [hf] at h
        | some r =>
          simp only [hf, Except.ok.injEq] at h
          cases r with
          | none => exact (hnone h.symm).elim
          | some x =>
            simp only [Option.getD_some] at h
            subst h
            have hx : x ∈ bvals b := by
              unfold Map.find at hf
              cases hi : Map.indexOf Map.cmpBytes b.items key with
              | none => simp [hi] at hf
              | some r =>
                simp only [hi] at hf
                split at hf
                · simp only [Option.some.injEq] at hf
                  cases hg : b.items[r.toNat]? with
                  | none => simp [hg] at hf
                  | some kv =>
                    simp only [hg, Option.map_some, Option.some.injEq] at hf
                    subst hf
                    exact List.mem_map.mpr ⟨kv, List.mem_of_getElem? hg, rfl⟩
                · simp at hf
            exact iso.2.2.2.1 id b (hv id rfl) hb x hx c hc
    | _ => simp only [stepConst, Except.ok.injEq] at h; exact (hnone h.symm).elim

theorem resolveConst_outside {σ : State} {k : Nat} {S : Nat → Prop} (iso : Iso σ k S) : ∀ (steps : List Step) (v w : V),
    (∀ c, handleOf v = some c → ¬ S c) → resolveConst σ.heap v steps = .ok w → ∀ c, handleOf w = some c → ¬ S c
  | [], v, w, hv, h => by simp only [resolveConst, Except.ok.injEq] at h; subst h; exact hv
  | s :: rest, v, w, hv, h => by
    simp only [resolveConst] at h
    cases h1 : stepConst σ.heap v s with
    | error e => simp [h1] at h
    | ok v1 =>
      simp only [h1] at h
      exact resolveConst_outside iso rest v1 w (stepConst_outside iso hv h1) h

/-- a const path from another root never yields a handle into the owned set -/
theorem cget_outside {σ : State} {k : Nat} {S : Nat → Prop} (iso : Iso σ k S) {q : Path} (hq : q.root ≠ k) {w : V}
    (h : cget σ q = .ok w) : ∀ c, handleOf w = some c → ¬ S c :=
  resolveConst_outside iso q.steps _ w (fun c hc => iso.2.2.1 q.root hq c hc) h

/-- a change of a reference count outside the owned set -/
theorem iso_copyV {σ : State} {k : Nat} {S : Nat → Prop} (iso : Iso σ k S) {v : V} {h' : Heap}
    (hv : ∀ c, handleOf v = some c → ¬ S c) (h : copyV σ.heap v = .ok h') :
    Iso { σ with heap := h' } k S ∧ ∀ id, S id → h'[id]? = σ.heap[id]? := by
  unfold copyV at h
  cases hh : handleOf v with
  | none => simp only [hh, Except.ok.injEq] at h; subst h; exact ⟨iso, fun _ _ => rfl⟩
  | some c =>
    simp only [hh] at h
    cases hb : getB σ.heap c with
    | error e => simp [hb] at h
    | ok b =>
      simp only [hb, Except.ok.injEq] at h
      subst h
      have hc := hv c hh
      have hcells : ∀ id, S id → (setB σ.heap c { b with rc := b.rc + 1 })[id]? = σ.heap[id]? := by
        intro id hS
        have : c ≠ id := fun e => hc (e ▸ hS)
        simp [setB, List.getElem?_set_ne this]
      refine ⟨⟨iso.1, ?_, iso.2.2.1, ?_, ?_⟩, hcells⟩
      · intro id b' hS hb' w hw cc hcc
        have : getB σ.heap id = .ok b' := by rw [getB_eq, ← hcells id hS, ← getB_eq]; exact hb'
        exact iso.2.1 id b' hS this w hw cc hcc
      · intro id b' hnS hb' w hw cc hcc
        by_cases hid : id = c
        · subst hid
          rw [getB_setB_same _ (getB_lt hb)] at hb'
          simp only [Except.ok.injEq] at hb'
          subst hb'
          exact iso.2.2.2.1 id b hnS hb w (by simpa [bvals] using hw) cc hcc
        · have : getB σ.heap id = .ok b' := by rw [← getB_set_ne _ hid]; exact hb'
          exact iso.2.2.2.1 id b' hnS this w hw cc hcc
      · intro id hS
        simp only [setB, List.length_set]
        exact iso.2.2.2.2 id hS

/-- `root j = Var(q)` (copy construction: shares `q`'s container) with `q` under another root -/
theorem stepFootprint_copy (j : Nat) (q : Path) : StepFootprint (.copy j q) := by
  intro σ k S inv iso hm
  have hjq : j ≠ k ∧ q.root ≠ k := by simpa [mentions] using hm
  simp only [applyOp, targetOf, rootOp, opCopy]
  rcases inv.cget q with ⟨e, h1, _⟩ | ⟨src, h1, hsrc⟩
  · rw [h1]; exact stepFootprint_refused iso
  · rw [h1]
    obtain ⟨h', h2, inv2, _⟩ := inv.copyV hsrc
    simp only [h2]
    have hout := cget_outside iso hjq.2 h1
    obtain ⟨iso1, hcells⟩ := iso_copyV iso hout h2
    cases h : replaceSlot { σ with heap := h' } j src with
    | error e => exact stepFootprint_refused iso
    | ok σ' =>
      obtain ⟨iso2, hslot, hc2⟩ := replaceSlot_footprint inv2 iso1 hjq.1 hout h
      exact ⟨iso2, hslot, fun id hS => by rw [hc2 id hS]; exact hcells id hS⟩


/-- appending blocks whose values hold no handle into the owned set -/
theorem iso_append {σ : State} {k : Nat} {S : Nat → Prop} (iso : Iso σ k S) (y : Heap)
    (hy : ∀ ob ∈ y, ∀ w ∈ ovals ob, ∀ c, handleOf w = some c → ¬ S c) :
    Iso { σ with heap := σ.heap ++ y } k S ∧ ∀ id, S id → (σ.heap ++ y)[id]? = σ.heap[id]? := by
  have hcells : ∀ id, S id → (σ.heap ++ y)[id]? = σ.heap[id]? :=
    fun id hS => List.getElem?_append_left (iso.2.2.2.2 id hS)
  refine ⟨⟨iso.1, ?_, iso.2.2.1, ?_, ?_⟩, hcells⟩
  · intro id b' hS hb' w hw c hc
    have : getB σ.heap id = .ok b' := by rw [getB_eq, ← hcells id hS, ← getB_eq]; exact hb'
    exact iso.2.1 id b' hS this w hw c hc
  · intro id b' hnS hb' w hw c hc
    by_cases hlt : id < σ.heap.length
    · have : getB σ.heap id = .ok b' := by rw [← getB_append_left y hlt]; exact hb'
      exact iso.2.2.2.1 id b' hnS this w hw c hc
    · exact hy (some b') (getB_appended (Nat.le_of_not_lt hlt) hb') w hw c hc
  · intro id hS
    simp only [List.length_append]
    exact Nat.lt_of_lt_of_le (iso.2.2.2.2 id hS) (Nat.le_add_right _ _)

/-- `root j = q.clone()` for another root `j` and a source under another root -/
theorem stepFootprint_clone (j : Nat) (q : Path) : StepFootprint (.clone j q) := by
  intro σ k S inv iso hm
  have hjq : j ≠ k ∧ q.root ≠ k := by simpa [mentions] using hm
  simp only [applyOp, targetOf, rootOp, opClone]
  rcases inv.cget q with ⟨e, h1, _⟩ | ⟨src, h1, hsrc⟩
  · rw [h1]; exact stepFootprint_refused iso
  · rw [h1]
    rcases cloneOK (travFuel σ.heap) σ src [] inv (Held.live inv hsrc) with h2 | ⟨h', c, h2, inv2, _⟩
    · simp only [h2]; exact ⟨iso, trivial, fun _ _ => trivial⟩
    · simp only [h2]
      obtain ⟨y, hy, hc, hfy⟩ := cloneFresh _ σ.heap.length σ.heap h' src c (Nat.le_refl _) h2
      have hfresh : ∀ id, σ.heap.length ≤ id → ¬ S id := fun id hle hS => Nat.lt_irrefl _ (Nat.lt_of_lt_of_le (iso.2.2.2.2 id hS) hle)
      subst hy
      obtain ⟨iso1, hcells⟩ := iso_append iso y (fun ob hob w hw cc hcc => hfresh cc (hfy ob hob w hw cc hcc).1)
      cases h : replaceSlot { σ with heap := σ.heap ++ y } j c with
      | error e => exact stepFootprint_refused iso
      | ok σ' =>
        obtain ⟨iso2, hslot, hc2⟩ := replaceSlot_footprint inv2 iso1 hjq.1 (fun cc hcc => hfresh cc (hc cc hcc).1) h
        exact ⟨iso2, hslot, fun id hS => by rw [hc2 id hS]; exact hcells id hS⟩

/-- `root j = Var(key, q)` with `q` under another root -/
theorem stepFootprint_ctorKV (j : Nat) (key : Bytes) (q : Path) : StepFootprint (.ctorKV j key q) := by
  intro σ k S inv iso hm
  have hjq : j ≠ k ∧ q.root ≠ k := by simpa [mentions] using hm
  simp only [applyOp, targetOf, rootOp, opCtorKV]
  rcases inv.cget q with ⟨e, h1, _⟩ | ⟨src, h1, hsrc⟩
  · rw [h1]; exact stepFootprint_refused iso
  · rw [h1]
    obtain ⟨h', h2, inv2, _⟩ := inv.copyV hsrc
    simp only [h2, allocB]
    have hout := cget_outside iso hjq.2 h1
    obtain ⟨iso1, hcells⟩ := iso_copyV iso hout h2
    have inv3 := Inv.alloc (σ := { σ with heap := h' }) (T := [])
      (b := { emptyBlock true with items := [(key, src)] }) (by simpa [bvals] using inv2) rfl
      (by intro _; simp [SortedItems, AslProofs.Map.Sorted])
    obtain ⟨iso2, hcells2⟩ := iso_append iso1 [some { emptyBlock true with items := [(key, src)] }] (by
      intro ob hob w hw c hc
      simp only [List.mem_singleton] at hob
      subst hob
      simp only [ovals, bvals, List.map_cons, List.map_nil, List.mem_singleton] at hw
      subst hw
      exact hout c hc)
    have hnew : ¬ S h'.length := fun hS => Nat.lt_irrefl _ (iso1.2.2.2.2 _ hS)
    cases h : replaceSlot { σ with heap := h' ++ [some { emptyBlock true with items := [(key, src)] }] } j (.obj h'.length) with
    | error e => exact stepFootprint_refused iso
    | ok σ' =>
      obtain ⟨iso3, hslot, hc3⟩ := replaceSlot_footprint inv3 iso2 hjq.1 (fun c hc => by cases hc; exact hnew) h
      exact ⟨iso3, hslot, fun id hS => by rw [hc3 id hS]; exact (hcells2 id hS).trans (hcells id hS)⟩


theorem mapE_cget_outside {σ : State} {k : Nat} {S : Nat → Prop} (iso : Iso σ k S) : ∀ (qs : List Path) (vals : List V),
    (∀ q ∈ qs, q.root ≠ k) → mapE qs (cget σ) = .ok vals → ∀ v ∈ vals, ∀ c, handleOf v = some c → ¬ S c
  | [], vals, _, h => by simp only [mapE, Except.ok.injEq] at h; subst h; intro v hv; cases hv
  | q :: rest, vals, hq, h => by
    simp only [mapE] at h
    cases h1 : cget σ q with
    | error e => simp [h1] at h
    | ok w =>
      simp only [h1] at h
      cases h2 : mapE rest (cget σ) with
      | error e => simp [h2] at h
      | ok ws =>
        simp only [h2, Except.ok.injEq] at h
        subst h
        intro v hv
        rcases List.mem_cons.mp hv with rfl | hv
        · exact cget_outside iso (hq q (by simp)) h1
        · exact mapE_cget_outside iso rest ws (fun q' hq' => hq q' (by simp [hq'])) h2 v hv

theorem iso_copyAll {k : Nat} {S : Nat → Prop} : ∀ (vals : List V) (σ : State) (h' : Heap), Iso σ k S →
    (∀ v ∈ vals, ∀ c, handleOf v = some c → ¬ S c) → copyAll σ.heap vals = .ok h' →
    Iso { σ with heap := h' } k S ∧ ∀ id, S id → h'[id]? = σ.heap[id]?
  | [], σ, h', iso, _, h => by simp only [copyAll, Except.ok.injEq] at h; subst h; exact ⟨iso, fun _ _ => rfl⟩
  | v :: rest, σ, h', iso, hv, h => by
    simp only [copyAll] at h
    cases h1 : copyV σ.heap v with
    | error e => simp [h1] at h
    | ok ha =>
      simp only [h1] at h
      obtain ⟨iso1, hc1⟩ := iso_copyV iso (hv v (by simp)) h1
      obtain ⟨iso2, hc2⟩ := iso_copyAll rest { σ with heap := ha } h' iso1 (fun w hw => hv w (by simp [hw])) h
      exact ⟨iso2, fun id hS => (hc2 id hS).trans (hc1 id hS)⟩

/-- `root j = Var::array({q1, q2, ..})` with every `qi` under another root -/
theorem stepFootprint_ctorVars (j : Nat) (qs : List Path) : StepFootprint (.ctorVars j qs) := by
  intro σ k S inv iso hm
  have hjq : j ≠ k ∧ ∀ q ∈ qs, q.root ≠ k := by simpa [mentions] using hm
  simp only [applyOp, targetOf, rootOp, opCtorVars]
  rcases mapE_held inv qs with ⟨e, h1, _⟩ | ⟨vals, h1, hvals⟩
  · rw [h1]; exact stepFootprint_refused iso
  · rw [h1]
    have hout := mapE_cget_outside iso qs vals hjq.2 h1
    obtain ⟨h', h2, inv2, _⟩ := Inv.copyAll vals σ inv (fun v hv => Held.live inv (hvals v hv))
    simp only [h2, allocB]
    obtain ⟨iso1, hcells⟩ := iso_copyAll vals σ h' iso hout h2
    have hb : bvals { isObj := false, items := vals.map (fun v => (([] : Bytes), v)), cap := max vals.length 3, rc := 1 } = vals := by
      simp [bvals, List.map_map, Function.comp_def]
    have inv3 := Inv.alloc (σ := { σ with heap := h' }) (T := [])
      (b := { isObj := false, items := vals.map (fun v => (([] : Bytes), v)), cap := max vals.length 3, rc := 1 })
      (by rw [hb]; exact inv2) rfl (by intro h; cases h)
    obtain ⟨iso2, hcells2⟩ := iso_append iso1 [some { isObj := false, items := vals.map (fun v => (([] : Bytes), v)), cap := max vals.length 3, rc := 1 }] (by
      intro ob hob w hw c hc
      simp only [List.mem_singleton] at hob
      subst hob
      simp only [ovals, hb] at hw
      exact hout w hw c hc)
    have hnew : ¬ S h'.length := fun hS => Nat.lt_irrefl _ (iso1.2.2.2.2 _ hS)
    cases h : replaceSlot { σ with heap := h' ++ [some { isObj := false, items := vals.map (fun v => (([] : Bytes), v)), cap := max vals.length 3, rc := 1 }] } j (.arr h'.length) with
    | error e => exact stepFootprint_refused iso
    | ok σ' =>
      obtain ⟨iso3, hslot, hc3⟩ := replaceSlot_footprint inv3 iso2 hjq.1 (fun c hc => by cases hc; exact hnew) h
      exact ⟨iso3, hslot, fun id hS => by rw [hc3 id hS]; exact (hcells2 id hS).trans (hcells id hS)⟩

/-- every statement on a root variable (the 9 kinds that have no target path) has the footprint property -/
theorem stepFootprint_rootOps (op : Op) (h : targetOf op = none) : StepFootprint op := by
  cases op with
  | clone j q => exact stepFootprint_clone j q
  | copy j q => exact stepFootprint_copy j q
  | drop j => exact stepFootprint_drop j
  | ctorLit j l => exact stepFootprint_ctorLit j l
  | ctorType j ty => exact stepFootprint_ctorType j ty
  | ctorKV j key q => exact stepFootprint_ctorKV j key q
  | ctorArr j lits => exact stepFootprint_ctorArr j lits
  | ctorDic j pairs => exact stepFootprint_ctorDic j pairs
  | ctorVars j qs => exact stepFootprint_ctorVars j qs
  | _ => simp [targetOf] at h

/-- **clone_deep over histories** — after an executed `root k = q.clone()` (any history before it), NO history of
statements that do not mention root `k` and whose one-statement footprint is proved (`StepFootprint`) changes the tree
root `k` denotes — whatever those statements do to the original and to everything else. -/
theorem clone_deep_history (n k : Nat) (ops1 ops2 : List Op) (q : Path) (f : Nat) (tr : Tree)
    (hex : (applyOp true (run true (initState n) ops1) (.clone k q)).2 = .ok ())
    (hm : ∀ op ∈ ops2, mentions k op = false ∧ StepFootprint op)
    (hc : content f (run true (initState n) (ops1 ++ [.clone k q])).heap (slotV (run true (initState n) (ops1 ++ [.clone k q])) k) = some tr) :
    content f (run true (initState n) (ops1 ++ [.clone k q] ++ ops2)).heap
      (slotV (run true (initState n) (ops1 ++ [.clone k q] ++ ops2)) k) = some tr := by
  obtain ⟨S, iso⟩ := clone_isolated n k ops1 q hex
  obtain ⟨inv0, _, _⟩ := (Inv.init n).run ops1 (initState n) rfl
  obtain ⟨inv1, _, _⟩ := inv0.applyOp (.clone k q)
  have hrun : run true (initState n) (ops1 ++ [.clone k q]) = (applyOp true (run true (initState n) ops1) (.clone k q)).1 := by
    rw [run_append]; rfl
  rw [run_append, hrun]
  rw [hrun] at hc
  exact owned_root_stable k S f tr ops2 _ inv1 iso hm hc

/-- **clone_deep, reduced to the one-statement footprint** — if no statement touches what a root it does not mention owns
(`step_footprint_full`, the remaining gap), `clone_deep_exec_full` holds -/
theorem clone_deep_reduction (hstep : step_footprint_full) : clone_deep_exec_full :=
  fun n k ops1 ops2 q f tr hex hm hc =>
    clone_deep_history n k ops1 ops2 q f tr hex (fun op ho => ⟨hm op ho, hstep op⟩) hc

/-- the hypotheses of `clone_deep_history` are satisfiable: `b = a.clone()` of `a = [1]`, then `a` is destroyed, another
root is created and copied over `a` — `b` still denotes `[1]` -/
example : content 3 (run true (initState 3) ([.ctorArr 0 [.int 1]] ++ [.clone 1 ⟨0, []⟩] ++ [.drop 0, .ctorLit 2 (.int 5), .copy 0 ⟨2, []⟩])).heap
    (slotV (run true (initState 3) ([.ctorArr 0 [.int 1]] ++ [.clone 1 ⟨0, []⟩] ++ [.drop 0, .ctorLit 2 (.int 5), .copy 0 ⟨2, []⟩])) 1) =
    some (Tree.arr [Tree.num (Dy.ofInt 1)]) :=
  clone_deep_history 3 1 _ _ _ 3 _ (by rfl)
    (by
      intro op hop
      simp only [List.mem_cons, List.mem_nil_iff, or_false] at hop
      rcases hop with rfl | rfl | rfl
      · exact ⟨rfl, stepFootprint_drop 0⟩
      · exact ⟨rfl, stepFootprint_ctorLit 2 _⟩
      · exact ⟨rfl, stepFootprint_copy 0 _⟩)
    (by rfl)

/-- ownership is satisfiable: a root holding a scalar owns the empty set; a root holding the only handle to a leaf block owns it -/
example : Iso (initState 2) 0 (fun _ => False) := by
  refine ⟨?_, ?_, ?_, ?_, ?_⟩
  · intro id h; simp [initState, slotV, handleOf] at h
  · intro _ _ h; exact h.elim
  · intro _ _ _ _ h; exact h
  · intro _ _ _ _ _ _ _ _ h; exact h
  · intro _ h; exact h.elim

/-! ## history_safe: no sequence of operations touches freed memory, leaks, or destroys a shared child twice -/

/-- The full statement: for EVERY history of guarded statements from the initial state (any number of root
variables), the invariant holds in every reached state — each handle points to a live block of its kind, each live
block's count is exactly the number of handles to it and is positive, objects stay sorted, and the handle graph is
acyclic (a rank function decreases along every edge) — and every statement is either executed or refused by a
guard: it never reads or releases a released block, never indexes outside an element array, never finds a zero
count. -/
def history_safe_full : Prop :=
  ∀ (n : Nat) (ops : List Op),
    Inv (run true (initState n) ops) [] ∧ ∀ r ∈ results true (initState n) ops, Safe r

/-- **history_safe** — proved in full: typed and Var assignment incl. own elements/properties, auto-creating
`operator[]` paths, append, resize, removeAt, remove, clear, extend, clone, copy, drop, constructors, at any depth,
in any order, with any sharing.  (All of it under the guard of the known finding: a statement that would grow a
block whose rc > 1 is refused, as is one that would make a container contain itself.) -/
theorem history_safe : history_safe_full := by
  intro n ops
  obtain ⟨inv, _, hall⟩ := (Inv.init n).run ops (initState n) rfl
  exact ⟨inv, hall⟩

/-- in particular: no statement of any history is a use after free, a double release (count 0) or an
out-of-range element access — a statement is executed, or refused as `Excluded`, or it is `OutOfDomain` (not executed
by the model because the library has no check for it; see `history_in_domain`) -/
theorem history_never_touches_freed (n : Nat) (ops : List Op) :
    ∀ r ∈ results true (initState n) ops, r ≠ .error .uaf ∧ r ≠ .error .oob ∧ r ≠ .error .rc := by
  intro r hr
  have hs := (history_safe n ops).2 r hr
  cases r with
  | ok _ => refine ⟨?_, ?_, ?_⟩ <;> intro h <;> cases h
  | error e =>
    simp only [Safe, Refusal] at hs
    refine ⟨?_, ?_, ?_⟩ <;> intro h <;> cases h <;> simp at hs

/-- refusals of statements the property itself excludes (a container containing itself) or that are the two recorded
known findings (growth of a shared block; a target path that moves what the source reference designates) -/
-- NOTE (second audit): `srcMoved` also absorbs any failing read of the source reference after the target path (see
-- `srcVal` in the model); that this never happens under the `invalidates` guard is not proved here, only observed by K.
def Excluded (e : Err) : Prop := e = .sharedGrowth ∨ e = .cyclic ∨ e = .srcMoved

/-- statements the model does not execute because the harness cannot issue them or the library has no defined answer:
a root variable that does not exist, an unknown type tag, the operand of `p = *q + off` / `p = (name i of q)` not being a
string / an object or `off`, `i` beyond it (`badarg`); nesting deeper than the traversal bound (`fuel`).  `nopath` is no
longer produced (a const index beyond the length gives `none` since commit 8dbc483; string keys on arrays and scalars and
`Var(Type)` for every type are executed).  Negative int indices and sizes are not expressible (indices are naturals). -/
def OutOfDomain (e : Err) : Prop := e = .nopath ∨ e = .badarg ∨ e = .fuel

/-- a history all of whose statements are inside the domain of the API -/
def InDomain (n : Nat) (ops : List Op) : Prop :=
  ∀ r ∈ results true (initState n) ops, ∀ e, r = .error e → ¬ OutOfDomain e

/-- **history_in_domain** — for every history inside the domain of the API, every statement is executed, or it is one of
the excluded statements (self-containment, the two known findings); nothing else can happen — in particular no
access to released or out-of-range storage. -/
theorem history_in_domain (n : Nat) (ops : List Op) (hd : InDomain n ops) :
    ∀ r ∈ results true (initState n) ops, r = .ok () ∨ ∃ e, r = .error e ∧ Excluded e := by
  intro r hr
  have hs := (history_safe n ops).2 r hr
  cases r with
  | ok u => exact Or.inl rfl
  | error e =>
    right
    refine ⟨e, rfl, ?_⟩
    have hno := hd _ hr e rfl
    simp only [Safe, Refusal] at hs
    simp only [OutOfDomain, not_or] at hno
    rcases hs with h | h | h | h | h | h
    · exact Or.inl h
    · exact Or.inr (Or.inl h)
    · exact absurd h hno.1
    · exact absurd h hno.2.1
    · exact absurd h hno.2.2
    · exact Or.inr (Or.inr h)

/-- every root variable of every reached state denotes a finite tree (`content` is defined for a large enough
recursion bound), so the equality, assignment and clone theorems are never vacuous on reached states -/
theorem roots_denote_trees (n : Nat) (ops : List Op) (k : Nat) :
    ∃ f tr, content f (run true (initState n) ops).heap (slotV (run true (initState n) ops) k) = some tr :=
  let inv := (history_safe n ops).1
  inv.content_defined _ (Held.live inv (slotV_held [] k))

/-- **no leak**: in every state reached by any history, if no root variable holds an array or object any more
(all were dropped or overwritten by scalars), then no block is live — everything that was allocated has been
released, exactly once (`history_never_touches_freed`) -/
theorem no_leak (n : Nat) (ops : List Op)
    (hroots : ∀ v ∈ (run true (initState n) ops).slots, handleOf v = none) (id : Nat) (b : Block) :
    getB (run true (initState n) ops).heap id ≠ .ok b :=
  (history_safe n ops).1.no_leak hroots id b

/-- a live block is never orphaned: some root variable or some live block holds a handle to it -/
theorem no_orphan_block (n : Nat) (ops : List Op) (id : Nat) (b : Block)
    (hb : getB (run true (initState n) ops).heap id = .ok b) :
    ∃ v, handleOf v = some id ∧ (v ∈ (run true (initState n) ops).slots ∨ v ∈ hvals (run true (initState n) ops).heap) := by
  have inv := (history_safe n ops).1
  have hc := inv.wf.counted id b hb
  have hp := inv.wf.pos id b hb
  simp only [List.append_nil] at hc
  by_cases h1 : 0 < occ id (run true (initState n) ops).slots
  · obtain ⟨v, hv, hid⟩ := (occ_pos_iff _ _).mp h1
    exact ⟨v, hid, Or.inl hv⟩
  · have h2 : 0 < occ id (hvals (run true (initState n) ops).heap) := by omega
    obtain ⟨v, hv, hid⟩ := (occ_pos_iff _ _).mp h2
    exact ⟨v, hid, Or.inr hv⟩

/-- a history that shares, auto-creates, self-assigns, extends a nested object by its own property and drops every
root: all blocks are released at the end -/
example : ((run true (initState 3)
    [ .setLit ⟨0, [.idx 0, .key [97], .key [98]]⟩ (.int 7), .copy 1 ⟨0, []⟩, .setV ⟨0, []⟩ ⟨0, [.idx 0]⟩,
      .appLit ⟨1, []⟩ (.str [97]), .extend ⟨0, [.key [97]]⟩ ⟨0, [.key [97], .key [98]]⟩, .extend ⟨2, []⟩ ⟨0, []⟩,
      .drop 1, .drop 0, .drop 2 ]).heap.all (· == none)) = true := by decide

/-! ## the inherited known finding: growth of a shared container -/

/-- the same statement for histories whose statements are NOT guarded against growing a block with rc > 1 -/
def history_safe_unguarded_full : Prop :=
  ∀ (n : Nat) (ops : List Op), Inv (run false (initState n) ops) []

/-- `Var a; a << 1 << 2 << 3; Var c = a; a << 4;` — the append reallocates the block `c` shares: afterwards `c`
holds a handle to a released block (in the C++: heap-use-after-free in `c.length()` / `~Var`). -/
theorem var_shared_growth_counterexample : ¬ history_safe_unguarded_full := by
  intro h
  have inv := h 2 [ .appLit ⟨0, []⟩ (.int 1), .appLit ⟨0, []⟩ (.int 2), .appLit ⟨0, []⟩ (.int 3),
    .copy 1 ⟨0, []⟩, .appLit ⟨0, []⟩ (.int 4) ]
  obtain ⟨b, hb, _⟩ := inv.wf.live (V.arr 0) (Or.inl (by decide)) 0 rfl
  have hfreed : (run false (initState 2) [ .appLit ⟨0, []⟩ (.int 1), .appLit ⟨0, []⟩ (.int 2),
      .appLit ⟨0, []⟩ (.int 3), .copy 1 ⟨0, []⟩, .appLit ⟨0, []⟩ (.int 4) ]).heap[0]? = some none := by decide
  rw [getB_eq, hfreed] at hb
  cases hb

/-! ## accessors that convert: the table of conversions, `length()`, `has`, `contains`, const look-ups (extension round) -/

/-! ## conversion table -/

/-- the type tag of every value, and which `is(t)` queries it answers: the 10 tags × 10 queries table -/
theorem is_table (v : V) (t : Nat) :
    isT v t = true ↔
      (tagOf v = t ∨ (t = tNUMBER ∧ (tagOf v = tINT ∨ tagOf v = tFLOAT)) ∨
        (t = tSTRING ∧ tagOf v = tSSTRING) ∨ (t = tSSTRING ∧ tagOf v = tSTRING)) := by
  simp [isT, or_assoc]

/-- an INT reads back the same through `int`, `Long`, `double`, `==`-value, `bool` and `toString` (its decimal digits) -/
theorem conv_int (i : Int) (f : Nat) (h : Heap) :
    toInt (.int i) = some i ∧ toLong (.int i) = some i ∧ toDouble (.int i) = some (.inl (Dy.ofInt i)) ∧
    numOf (.int i) = some (Dy.ofInt i) ∧ Var.toBool (.int i) = (i != 0) ∧ toStr (f + 1) h (.int i) = .ok (intDigits i) ∧
    lengthV h (.int i) = .ok 0 ∧ hasV h (.int i) [] = .ok false := by
  refine ⟨rfl, rfl, rfl, rfl, rfl, rfl, rfl, rfl⟩

/-- a NUMBER (or FLOAT) that holds an integer of the int range reads back that integer through `int` and `Long`, the same
value through `double`, and compares equal (`==`) to the INT with that value, in both operand orders -/
theorem conv_number_integer (i : Int) (hr : -2147483648 ≤ i ∧ i < 2147483648) (f : Nat) (h : Heap) :
    toInt (mkDouble (Dy.ofInt i)) = some i ∧ toLong (mkDouble (Dy.ofInt i)) = some i ∧
    toDouble (mkDouble (Dy.ofInt i)) = toDouble (mkInt i) ∧
    toInt (mkFloat (Dy.ofInt i)) = some i ∧ toDouble (mkFloat (Dy.ofInt i)) = toDouble (mkInt i) ∧
    numOf (mkDouble (Dy.ofInt i)) = numOf (mkInt i) ∧
    eqV (f + 1) h (mkDouble (Dy.ofInt i)) (mkInt i) = .ok true ∧ eqV (f + 1) h (mkInt i) (mkDouble (Dy.ofInt i)) = .ok true ∧
    Var.toBool (mkDouble (Dy.ofInt i)) = Var.toBool (mkInt i) := by
  have h1 : -9223372036854775808 ≤ i ∧ i < 9223372036854775808 := by omega
  simp [mkDouble, mkFloat, mkInt, toInt, toLong, toDouble, numOf, eqV, Var.toBool, trunc_ofInt, hr, h1, Dy.ofInt, Dy.norm]

/-- `double → int` truncates toward zero: a NUMBER `m / 2^e` reads back `m tdiv 2^e` when that fits an int -/
theorem conv_number_trunc (d : Dy) (hr : -2147483648 ≤ d.trunc ∧ d.trunc < 2147483648) :
    toInt (.num d) = some (Int.tdiv d.m (2 ^ d.e)) ∧ toLong (.num d) = some (Int.tdiv d.m (2 ^ d.e)) := by
  have h1 : -9223372036854775808 ≤ d.trunc ∧ d.trunc < 9223372036854775808 := by omega
  simp [toInt, toLong, hr, h1]
  simp [Dy.trunc]

/-- BOOL, NUL, NONE: the fixed rows of the table -/
theorem conv_fixed (b : Bool) (f : Nat) (h : Heap) :
    toInt (.bool b) = some 0 ∧ toDouble (.bool b) = some (.inl (Dy.ofInt 0)) ∧ Var.toBool (.bool b) = b ∧
    toStr (f + 1) h (.bool b) = .ok (if b then [116, 114, 117, 101] else [102, 97, 108, 115, 101]) ∧
    toInt .null = some 0 ∧ toDouble .null = some (.inr ()) ∧ Var.toBool .null = false ∧ toStr (f + 1) h .null = .ok [110, 117, 108, 108] ∧
    toInt .none = some 0 ∧ Var.toBool .none = false ∧ toStr (f + 1) h .none = .ok [63] ∧
    lengthV h (.bool b) = .ok 0 ∧ lengthV h .null = .ok 0 ∧ lengthV h .none = .ok 0 := by
  refine ⟨rfl, rfl, rfl, rfl, rfl, rfl, rfl, rfl, rfl, rfl, rfl, rfl, rfl, rfl⟩

/-- a string Var (inline or heap stored): `String` conversion and `toString` give the bytes, `length()` their number,
`bool` is "non-empty", and `int`/`double` agree on the decimal value of a plain decimal text -/
theorem conv_string (s : Bytes) (f : Nat) (h : Heap) :
    strOf (mkString s) = some s ∧ toStr (f + 1) h (mkString s) = .ok s ∧ lengthV h (mkString s) = .ok s.length ∧
    Var.toBool (mkString s) = decide (s.length > 0) ∧ toInt (mkString s) = simpleDec s ∧ toLong (mkString s) = simpleDec s ∧
    toDouble (mkString s) = (simpleDec s).map (fun i => .inl (Dy.ofInt i)) ∧ hasV h (mkString s) [] = .ok false := by
  unfold mkString
  by_cases hl : s.length < 8 <;> simp [hl, strOf, toStr, lengthV, Var.toBool, toInt, toLong, toDouble, hasV]

/-- `length()` of an array / object is the number of elements / properties of the tree it denotes -/
theorem length_container (f : Nat) (h : Heap) (v : V) (id : Nat) (t : Tree) (hv : handleOf v = some id)
    (hc : content f h v = some t) :
    ∃ n, lengthV h v = .ok n ∧ (∀ l, t = .arr l → n = l.length) ∧ (∀ l, t = .obj l → n = l.length) := by
  cases f with
  | zero => simp [content] at hc
  | succ f =>
    cases v <;> simp [handleOf] at hv
    · rename_i j
      subst hv
      simp only [content] at hc
      cases hb : getB h j with
      | error e => simp [hb] at hc
      | ok b =>
        simp only [hb] at hc
        cases hm : mapO b.items (fun kv => content f h kv.2) with
        | none => simp [hm] at hc
        | some ys =>
          simp only [hm, Option.map_some, Option.some.injEq] at hc
          subst hc
          refine ⟨b.items.length, by simp [lengthV, hb, Except.map], ?_, ?_⟩
          · intro l hl; cases hl; exact (mapO_length _ _ _ hm).symm
          · intro l hl; cases hl
    · rename_i j
      subst hv
      simp only [content] at hc
      cases hb : getB h j with
      | error e => simp [hb] at hc
      | ok b =>
        simp only [hb] at hc
        cases hm : mapO b.items (fun kv => (content f h kv.2).map (fun t => (kv.1, t))) with
        | none => simp [hm] at hc
        | some ys =>
          simp only [hm, Option.map_some, Option.some.injEq] at hc
          subst hc
          refine ⟨b.items.length, by simp [lengthV, hb, Except.map], ?_, ?_⟩
          · intro l hl; cases hl
          · intro l hl; cases hl; exact (mapO_length _ _ _ hm).symm

/-- **has(k) ⇔ key present** — for an object whose `KeyVal` array is ascending (every object of every reachable state:
`history_safe`), the binary search of `has` answers exactly "some property has key `k`"; on every other type tag `has`
is false -/
theorem has_iff_key_present (h : Heap) (id : Nat) (b : Block) (k : Bytes) (hb : getB h id = .ok b) (hs : SortedItems b.items) :
    ∃ r, hasV h (.obj id) k = .ok r ∧ (r = true ↔ k ∈ b.items.map (·.1)) := by
  refine ⟨(AslProofs.Map.lookup k b.items).isSome, by simp only [hasV, hb, AslProofs.Map.has_spec cmpB_strict hs k], ?_⟩
  exact AslProofs.Map.lookup_isSome_iff

theorem has_false_on_non_object (h : Heap) (v : V) (k : Bytes) (hv : typeOf v ≠ tOBJ) : hasV h v k = .ok false := by
  cases v <;> first | rfl | (exfalso; exact hv rfl)

/-- **operator[](key) const / operator()(key) on a missing key** gives `none` (the static `Var::none`), a present key
gives the property stored under it, and any Var that is not an object gives `none` -/
theorem const_key_lookup (h : Heap) (id : Nat) (b : Block) (k : Bytes) (hb : getB h id = .ok b) (hs : SortedItems b.items) :
    stepConst h (.obj id) (.key k) = getKeyV h (.obj id) k ∧
    (k ∉ b.items.map (·.1) → getKeyV h (.obj id) k = .ok .none ∧ hasV h (.obj id) k = .ok false) ∧
    (∀ x, (k, x) ∈ b.items → getKeyV h (.obj id) k = .ok x ∧ hasV h (.obj id) k = .ok true ∧
      ∀ t, hasTypeV h (.obj id) k t = .ok (isT x t)) := by
  have hf := AslProofs.Map.find_spec cmpB_strict hs k
  have hh := AslProofs.Map.has_spec cmpB_strict hs k
  refine ⟨by simp only [stepConst, getKeyV, hb, hf], ?_, ?_⟩
  · intro hk
    have : AslProofs.Map.lookup k b.items = none := by
      cases hl : AslProofs.Map.lookup k b.items with
      | none => rfl
      | some x => exact absurd (AslProofs.Map.lookup_isSome_iff.mp (by rw [hl]; rfl)) hk
    simp [getKeyV, hasV, hb, hf, hh, this]
  · intro x hx
    have : AslProofs.Map.lookup k b.items = some x :=
      AslProofs.Map.lookup_of_mem (AslProofs.Map.Sorted.keysNodup cmpB_strict hs) hx
    simp [getKeyV, hasV, hasTypeV, hb, hf, hh, this]

theorem const_lookup_on_other_tags (h : Heap) (v : V) (k : Bytes) (i : Nat) (hv : isPod v = true ∨ ∃ s, v = .str s) :
    stepConst h v (.key k) = .ok .none ∧ stepConst h v (.idx i) = .ok .none ∧ getKeyV h v k = .ok .none ∧
    hasV h v k = .ok false ∧ (∀ f x, containsV f h v x = .ok false) ∧ ∀ t, hasTypeV h v k t = .ok false := by
  rcases hv with hv | ⟨s, rfl⟩
  · cases v <;> simp [isPod] at hv <;> exact ⟨rfl, rfl, rfl, rfl, fun _ _ => rfl, fun _ => rfl⟩
  · exact ⟨rfl, rfl, rfl, rfl, fun _ _ => rfl, fun _ => rfl⟩

/-- **contains(x) ⇔ some element equals x** — on an array denoting the elements `ts`, `contains(x)` is true exactly when
the tree `x` denotes is one of them (so: numbers by value across INT/NUMBER/FLOAT, strings by bytes, containers by
content); on every other type tag it is false -/
theorem contains_iff_content (f : Nat) (h : Heap) (id : Nat) (x : V) (ts : List Tree) (tx : Tree)
    (hv : content (f + 1) h (.arr id) = some (.arr ts)) (hx : content f h x = some tx) :
    ∃ r, containsV f h (.arr id) x = .ok r ∧ (r = true ↔ tx ∈ ts) := by
  simp only [content] at hv
  cases hb : getB h id with
  | error e => simp [hb] at hv
  | ok b =>
    simp only [hb] at hv
    cases hm : mapO b.items (fun kv => content f h kv.2) with
    | none => simp [hm] at hv
    | some ys =>
      simp only [hm, Option.map_some, Option.some.injEq, Tree.arr.injEq] at hv
      subst hv
      obtain ⟨h1, h2⟩ := mapO_mem hm
      have hall : ∀ kv ∈ b.items, ∃ r, eqV f h kv.2 x = .ok r := by
        intro kv hkv
        obtain ⟨y, _, hy⟩ := h1 kv hkv
        obtain ⟨r, hr, _⟩ := eq_iff_content_aux f h kv.2 x y tx hy hx
        exact ⟨r, hr⟩
      obtain ⟨r, hr, hiff⟩ := anyE_spec (p := fun kv => eqV f h kv.2 x) b.items hall
      refine ⟨r, by simp only [containsV, hb, containsL, hr], ?_⟩
      rw [hiff]
      constructor
      · rintro ⟨kv, hkv, he⟩
        obtain ⟨y, hy, hc⟩ := h1 kv hkv
        obtain ⟨r', hr', hi⟩ := eq_iff_content_aux f h kv.2 x y tx hc hx
        rw [he] at hr'; cases hr'
        rw [← hi.mp rfl]; exact hy
      · intro hmem
        obtain ⟨kv, hkv, hc⟩ := h2 tx hmem
        obtain ⟨r', hr', hi⟩ := eq_iff_content_aux f h kv.2 x tx tx hc hx
        exact ⟨kv, hkv, by rw [hr', hi.mpr rfl]⟩


/-- in every state reached by any history, `has` on any live object block answers exactly "key present" -/
theorem has_iff_key_present_history (n : Nat) (ops : List Op) (id : Nat) (b : Block) (k : Bytes)
    (hb : getB (run true (initState n) ops).heap id = .ok b) (ho : b.isObj = true) :
    ∃ r, hasV (run true (initState n) ops).heap (.obj id) k = .ok r ∧ (r = true ↔ k ∈ b.items.map (·.1)) :=
  has_iff_key_present _ id b k hb ((history_safe n ops).1.sorted id b hb ho)

/-! the hypotheses of the accessor theorems are satisfiable -/
example : ∃ b : Block, b.items ≠ [] ∧ ∃ r, hasV [some b] (.obj 0) [98] = .ok r ∧ (r = true ↔ [98] ∈ b.items.map (·.1)) :=
  ⟨⟨true, [([97], V.int 1), ([98], V.null)], 3, 1⟩, by simp,
    has_iff_key_present _ 0 _ [98] rfl (by simp only [SortedItems, AslProofs.Map.Sorted]; decide)⟩
example : ∃ r, containsV 1 [some ⟨false, [([], V.int 1), ([], V.sstr [120])], 3, 1⟩] (.arr 0) (.num ⟨2, 1⟩) = .ok r ∧
    (r = true ↔ Tree.num (Dy.ofInt 1) ∈ [Tree.num (Dy.ofInt 1), Tree.str [120]]) :=
  contains_iff_content 1 _ 0 _ _ _ (by rfl) (by rfl)
example : ∃ n, lengthV [some ⟨false, [([], V.int 1), ([], V.sstr [120])], 3, 1⟩] (.arr 0) = .ok n ∧
    (∀ l, Tree.arr [Tree.num (Dy.ofInt 1), Tree.str [120]] = .arr l → n = l.length) ∧ (∀ l, Tree.arr [Tree.num (Dy.ofInt 1), Tree.str [120]] = .obj l → n = l.length) :=
  length_container 2 _ (.arr 0) 0 _ rfl (by rfl)
example : -2147483648 ≤ (Dy.mk 7 1).trunc ∧ (Dy.mk 7 1).trunc < 2147483648 := by decide
example : -2147483648 ≤ (-5 : Int) ∧ (-5 : Int) < 2147483648 := by decide
example : isPod (V.int 3) = true ∨ ∃ s, V.int 3 = .str s := Or.inl rfl

/-! ## container assignment (`x = Array<T>` / `x = Dic<T>`) rebinds the target only (seeded change C04-r4) -/

/-- **container_assign_rebinds_only** — `x = Array<T>{..}` / `x = Dic<T>{..}` on a root variable `x` (as the driver runs it:
`assignFresh`, i.e. the history `tmp = Var(c); x = tmp; tmp = Var()`), in EVERY state satisfying the invariant — in particular
when the ARRAY/OBJ `x` held is shared with other roots, stored inside their containers, or reachable from them: every other
root `j` holds afterwards the value it held and denotes the tree it denoted before.  The assignment rebinds `x`; it never
rewrites the container `x` shared. -/
theorem container_assign_rebinds_only (σ : State) (inv : Inv σ []) (tmp x j : Nat) (ctor : Op)
    (hctor : (∃ lits, ctor = .ctorArr tmp lits) ∨ (∃ pairs, ctor = .ctorDic tmp pairs)) (hjx : j ≠ x) (hjt : j ≠ tmp) :
    slotV (assignFresh true σ tmp ⟨x, []⟩ ctor).1 j = slotV σ j ∧
    ∀ f tr, content f σ.heap (slotV σ j) = some tr →
      content f (assignFresh true σ tmp ⟨x, []⟩ ctor).1.heap (slotV (assignFresh true σ tmp ⟨x, []⟩ ctor).1 j) = some tr := by
  simp only [assignFresh]
  have k1 : KeepsRoot j σ (applyOp true σ ctor).1 := by
    rcases hctor with ⟨lits, rfl⟩ | ⟨pairs, rfl⟩
    · exact applyOp_ctorArr_keeps inv tmp j lits hjt
    · exact applyOp_ctorDic_keeps inv tmp j pairs hjt
  obtain ⟨inv1, _, _⟩ := inv.applyOp ctor
  obtain ⟨s1, c1⟩ := k1.content inv1
  have k2 := applyOp_setV_roots_keeps inv1 x tmp j hjx
  obtain ⟨inv2, _, _⟩ := inv1.applyOp (.setV ⟨x, []⟩ ⟨tmp, []⟩)
  obtain ⟨s2, c2⟩ := k2.content inv2
  have k3 := applyOp_drop_keeps inv2 tmp j hjt
  obtain ⟨inv3, _, _⟩ := inv2.applyOp (.drop tmp)
  obtain ⟨s3, c3⟩ := k3.content inv3
  refine ⟨by rw [s3, s2, s1], fun f tr hc => ?_⟩
  exact c3 f tr (c2 f tr (c1 f tr hc))

/-- over histories: in every reached state -/
theorem container_assign_rebinds_only_history (n : Nat) (ops : List Op) (tmp x j : Nat) (ctor : Op)
    (hctor : (∃ lits, ctor = .ctorArr tmp lits) ∨ (∃ pairs, ctor = .ctorDic tmp pairs)) (hjx : j ≠ x) (hjt : j ≠ tmp) (f : Nat) (tr : Tree)
    (hc : content f (run true (initState n) ops).heap (slotV (run true (initState n) ops) j) = some tr) :
    content f (assignFresh true (run true (initState n) ops) tmp ⟨x, []⟩ ctor).1.heap
      (slotV (assignFresh true (run true (initState n) ops) tmp ⟨x, []⟩ ctor).1 j) = some tr :=
  (container_assign_rebinds_only _ (history_safe n ops).1 tmp x j ctor hctor hjx hjt).2 f tr hc

/-- not vacuous: `a = [1,2,3]; keep = a` (shared block, rc 2); `a = Array<int>{7,8}`: `a` denotes `[7,8]`, `keep` still `[1,2,3]` -/
example :
    content 3 (assignFresh true (run true (initState 3) [.ctorArr 0 [.int 1, .int 2, .int 3], .copy 1 ⟨0, []⟩]) 2 ⟨0, []⟩ (.ctorArr 2 [.int 7, .int 8])).1.heap
      (slotV (assignFresh true (run true (initState 3) [.ctorArr 0 [.int 1, .int 2, .int 3], .copy 1 ⟨0, []⟩]) 2 ⟨0, []⟩ (.ctorArr 2 [.int 7, .int 8])).1 1) =
      some (Tree.arr [Tree.num (Dy.ofInt 1), Tree.num (Dy.ofInt 2), Tree.num (Dy.ofInt 3)]) ∧
    content 3 (assignFresh true (run true (initState 3) [.ctorArr 0 [.int 1, .int 2, .int 3], .copy 1 ⟨0, []⟩]) 2 ⟨0, []⟩ (.ctorArr 2 [.int 7, .int 8])).1.heap
      (slotV (assignFresh true (run true (initState 3) [.ctorArr 0 [.int 1, .int 2, .int 3], .copy 1 ⟨0, []⟩]) 2 ⟨0, []⟩ (.ctorArr 2 [.int 7, .int 8])).1 0) =
      some (Tree.arr [Tree.num (Dy.ofInt 7), Tree.num (Dy.ofInt 8)]) ∧
    slotV (run true (initState 3) [.ctorArr 0 [.int 1, .int 2, .int 3], .copy 1 ⟨0, []⟩]) 0 =
      slotV (run true (initState 3) [.ctorArr 0 [.int 1, .int 2, .int 3], .copy 1 ⟨0, []⟩]) 1 :=
  ⟨container_assign_rebinds_only_history 3 _ 2 0 1 _ (Or.inl ⟨_, rfl⟩) (by decide) (by decide) 3 _ (by rfl), by rfl, by rfl⟩

end C04
