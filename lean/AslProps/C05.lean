import AslModel.Xdl
import AslModel.Dtoa
import AslProofs.JsonSpec
import AslProofs.XdlEnc
import AslProofs.XdlX
import AslProofs.XdlXP
import AslProofs.XdlSame
import AslProofs.XdlSameX
import AslProofs.XdlUtf8Enc
import AslProofs.XdlNum
import AslProofs.NumValDefs
import AslProofs.NumVal
import AslProofs.FmtShape
import AslProofs.FmtValue
import Gen.XdlEncGen
import AslProofs.XdlIntPath
/-!
# C05 — JSON (and XDL) encoding round-trips every Var

Property theorems only.  All statements are about `AslModel.Xdl.enc / encode / encW / writeChunks /
readFile` (the transcription of `XdlEncoder`, `Xdl::write`, `Xdl::read` that the driver `asl_c05` runs
against the real library on every check) and `decode` of C06.  `g P bits` stands for
`snprintf("%.Pg", x)`.  The structural theorems hold for every `g` with **H1** (`g` prints RFC 8259 number
lexemes for finite doubles); the number clauses are stated against the VALUE: **H1v** (the lexeme's decimal value
is the double's value correctly rounded to P digits, over ℚ) and **H2d/H2f** (17 / 9 digits identify a double /
float through `atof`).  The driver instantiates `g := AslModel.Dtoa.fmtG`, `atof := AslModel.Strtod.atofBits`,
which the correspondence check compares with glibc on every generated number.  The oracle for "accepted by an independent strict JSON
parser and denotes the same value" is the RFC 8259 grammar `Rfc8259.SerV` (lean/AslProofs/JsonSpec.lean),
written from the RFC independently of encoder and decoder.
-/
namespace C05
open AslModel.Xdl AslProofs.XdlEnc Rfc8259

/-! ## the encoder output is RFC 8259 JSON denoting the tree -/

/-- for every well-formed tree (32-bit ints, NUL-free strings and keys — arbitrary other bytes: control
    characters, quotes, backslashes, `/`, 0x7f, high bytes), in compact and pretty JSON mode and at any
    indentation level, the text written by `_encode` is derivable in the RFC 8259 grammar and denotes
    `denote v` (= `v` with numbers as the lexemes printed, undefined → null, NaN → null, ±inf → ±1e400,
    undefined members dropped) -/
theorem encode_in_rfc (g : Nat → UInt64 → Bytes) (m : Mode) (hj : m.json = true) (hg : H1 g) (v : EV) (hw : WF v)
    (lvl : Nat) : SerV (denote g m v) (enc g m lvl v) :=
  enc_ser g m hj hg v lvl hw

/-- the complete text returned by `Json::encode` (with the final newline of pretty mode) is a JSON-text -/
theorem encode_is_json_text (g : Nat → UInt64 → Bytes) (m : Mode) (hj : m.json = true) (hg : H1 g) (v : EV) (hw : WF v) :
    SerDoc (denote g m v) (encode g m v) :=
  encode_serDoc g m hj hg v hw

/-- strings and keys: every NUL-free byte string is written as an RFC 8259 string denoting exactly itself -/
theorem string_escaping_exact (s : Bytes) (h0 : (0 : UInt8) ∉ s) : SerV (.str s) (encString s) :=
  encString_ser s h0

/-- ints: `myitoa` prints `[-]int` of RFC 8259 whose decimal value is the int, for all of INT_MIN..INT_MAX -/
theorem int_lexeme_exact (i : Int) (h1 : -2147483648 ≤ i) (h2 : i ≤ 2147483647) :
    Number (itoa i) ∧ decVal (itoa i) = i :=
  ⟨itoa_number i h1 h2, (itoa_spec i h1 h2).2⟩

/-! ## decode ∘ encode -/

/-- JSON round trip on the model, compact or pretty: decoding the encoder's text yields the normalised
    denotation of the tree (nesting ≤ 1000 = XDL_MAX_DEPTH) -/
theorem json_roundtrip (g : Nat → UInt64 → Bytes) (m : Mode) (hj : m.json = true) (hg : H1 g) (v : EV) (hw : WF v)
    (hd : depth (denote g m v) ≤ 1000) : decode (encode g m v) = some (some (norm (denote g m v))) :=
  decode_encode g m hj hg v hw hd

/-- ... where an int comes back as the same int when it has at most 9 characters and as `atof` of its
    exact decimal lexeme otherwise (INT_MIN, 1000000000 …) -/
theorem roundtrip_int (g : Nat → UInt64 → Bytes) (m : Mode) (i : Int) (h1 : -2147483648 ≤ i) (h2 : i ≤ 2147483647) :
    norm (denote g m (.int i)) = if (itoa i).length ≤ 9 then .int i else .num (itoa i) :=
  norm_denote_int g m i h1 h2

/-- ... and an object with pairwise distinct keys (what a `Dic` holds) comes back with exactly its
    members, in order, nothing merged -/
theorem roundtrip_object_members (ms : List (Bytes × JV)) (h : (ms.map (·.1)).Nodup) :
    normM ms [] = ms.map fun p => (p.1, norm p.2) := by
  have := normM_distinct ms [] h (by intro p hp; simp at hp)
  simpa using this

/-! ## files: the sink loses nothing, chunked reading changes nothing -/

/-- `sink_concat`: the concatenation of everything handed to the file sink (flushes above 16000 bytes
    after any node + the final write) is exactly the text `encode` returns — for every mode, JSON or XDL -/
theorem sink_concat (g : Nat → UInt64 → Bytes) (m : Mode) (v : EV) : (writeChunks g m v).flatten = encode g m v :=
  writeChunks_flatten g m v

/-- the writer refines the pure encoder from any sink state -/
theorem writer_refines (g : Nat → UInt64 → Bytes) (m : Mode) (lvl : Nat) (v : EV) (w : W) :
    (encW g m lvl v w).total = w.total ++ enc g m lvl v :=
  encW_total g m lvl v w

/-- `read_chunks`: `Xdl::read` of a non-empty NUL-free file of any size — BOM probe, 16382-byte chunks,
    flush — is `decode` of its content after an optional BOM (instance of C06 `chunk_indep`) -/
theorem read_chunks (content : Bytes) (hne : content ≠ []) (h0 : (0 : UInt8) ∉ content) :
    readFile content = decode (stripBom content) :=
  readFile_eq_decode content hne h0

/-- write ∘ read through a file of any size = decode ∘ encode (JSON modes) -/
theorem file_roundtrip (g : Nat → UInt64 → Bytes) (m : Mode) (hj : m.json = true) (hg : H1 g) (v : EV) (hw : WF v) :
    readFile (writeChunks g m v).flatten = decode (encode g m v) :=
  AslProofs.XdlEnc.file_roundtrip g m hj hg v hw

/-! ## the whole tree comes back: structure, keys, strings, booleans -/

/-- `Same N v r` (AslProofs/XdlSame.lean) says `r` has exactly the structure of `v`: same array lengths and
    order, the same keys in the same order with undefined members dropped, identical strings and booleans,
    null for null/undefined, and every number leaf related by `N`.  For every tree whose objects have distinct
    keys (what a `Dic` holds) the JSON round trip returns such an `r`: -/
theorem json_roundtrip_same (g : Nat → UInt64 → Bytes) (m : Mode) (hj : m.json = true) (hg : H1 g) (v : EV) (hw : WF v)
    (hk : KeysNodup v) (hd : depth (denote g m v) ≤ 1000) :
    ∃ r, decode (encode g m v) = some (some r) ∧ Same (NumJ g m) v r :=
  ⟨_, decode_encode g m hj hg v hw hd, same_json g m v hw hk⟩

/-- ... where a number leaf comes back as (`NumJ`): the same int, or — for ints of 10+ characters — the
    lexeme `itoa i` whose decimal value is `i`; a real as `norm` of the lexeme printed for it -/
theorem numJ_int (g : Nat → UInt64 → Bytes) (m : Mode) (i : Int) (r : JV) (h : NumJ g m (.int i) r) :
    r = .int i ∨ (r = .num (itoa i) ∧ Number (itoa i) ∧ decVal (itoa i) = i) := h

/-! ## numbers, against their value -/

/-- ints of 10+ characters go through `atof`: the double obtained is exactly the int (model `atof`) -/
theorem atof_int_exact (i : Int) (h1 : -2147483648 ≤ i) (h2 : i ≤ 2147483647) :
    NumVal.dval (AslModel.Strtod.atofBits (itoa i)) = (i : Rat) :=
  AslProofs.Num.atof_int_exact i h1 h2

/-- under H1v the number clause of `encode_in_rfc` has content: the lexeme written for a finite double is an
    RFC 8259 number whose decimal value is the double's value correctly rounded to the mode's precision -/
theorem encode_number_value (g : Nat → UInt64 → Bytes) (m : Mode) (hg : H1v g) (b : UInt64) (hb : dFinite b = true)
    (lvl : Nat) :
    enc g m lvl (.num b) = g (precD m) b ∧ Number (g (precD m) b) ∧
      NumVal.RoundedTo (if precD m = 0 then 1 else precD m) (NumVal.dval b) (NumVal.lexVal (g (precD m) b)) := by
  obtain ⟨h1, h2⟩ := hg (precD m) b hb
  refine ⟨?_, h1, h2⟩
  simp [enc, encReal, hb, fixComma_id _ (number_no_comma h1)]

/-- the headline clause, conditional on H2d: in the default mode a finite non-zero double is written as its
    17-digit lexeme, the decoder reads that lexeme back (`DecodedAs`: through `atof`, or as the int it spells when
    it is an integer of at most 9 characters), and `atof` of it is the double bit for bit -/
theorem double_roundtrip (g : Nat → UInt64 → Bytes) (atof : Bytes → UInt64) (hg : H1 g) (h2 : H2d g atof) (m : Mode)
    (hj : m.json = true) (hs : m.simple = false) (hf : m.shortf = false) (b : UInt64) (hb : dFinite b = true)
    (hnz : b.toNat % 2 ^ 63 ≠ 0) :
    ∃ r, decode (encode g m (.num b)) = some (some r) ∧ DecodedAs (g 17 b) r ∧ atof (g 17 b) = b := by
  have hp : precD m = 17 := by simp [precD, hs, hf]
  obtain ⟨r, hr, hd⟩ := real_roundtrip g m hj hg 17 b hb (.num b) (Or.inl ⟨rfl, hp.symm⟩)
  exact ⟨r, hr, hd, h2 b hb hnz⟩

/-- the same for floats, conditional on H2f: written with 9 digits, read back, narrowed to the same float -/
theorem float_roundtrip (g : Nat → UInt64 → Bytes) (atof : Bytes → UInt64) (narrow : UInt64 → UInt64) (hg : H1 g)
    (h2 : H2f g atof narrow) (m : Mode) (hj : m.json = true) (hs : m.simple = false) (b : UInt64)
    (hb : dFinite b = true) (hnz : b.toNat % 2 ^ 63 ≠ 0) (hfl : narrow b = b) :
    ∃ r, decode (encode g m (.flt b)) = some (some r) ∧ DecodedAs (g 9 b) r ∧ narrow (atof (g 9 b)) = b := by
  have hp : precF m = 9 := by simp [precF, hs]
  obtain ⟨r, hr, hd⟩ := real_roundtrip g m hj hg 9 b hb (.flt b) (Or.inr ⟨rfl, hp.symm⟩)
  exact ⟨r, hr, hd, h2 b hb hnz hfl⟩

/-- the number clause by VALUE for every finite double, including those that come back through the decoder's int path
    (integral doubles such as 5.0 or 1e8 are written `5`, `100000000`; −0.0 is written `-0`): in the default mode the
    decoder returns either the 17-digit lexeme through `atof`, or an int that IS the decimal value of that lexeme, and
    that value is the double's value correctly rounded to 17 digits (H1v; `fmtG_H1v` for the formatter the driver runs).
    A zero (either sign) that comes back as an int comes back as 0. -/
theorem double_roundtrip_value (g : Nat → UInt64 → Bytes) (hg : H1v g) (m : Mode) (hj : m.json = true)
    (hs : m.simple = false) (hf : m.shortf = false) (b : UInt64) (hb : dFinite b = true) :
    ∃ r, decode (encode g m (.num b)) = some (some r) ∧
      (r = .num (g 17 b) ∨ ∃ i : Int, r = .int i ∧ (i : Rat) = NumVal.lexVal (g 17 b)) ∧
      NumVal.RoundedTo 17 (NumVal.dval b) (NumVal.lexVal (g 17 b)) ∧
      (NumVal.dval b = 0 → ∀ i : Int, r = .int i → i = 0) := by
  have hp : precD m = 17 := by simp [precD, hs, hf]
  obtain ⟨r, hr, hd⟩ := real_roundtrip g m hj (H1_of_H1v hg) 17 b hb (.num b) (Or.inl ⟨rfl, hp.symm⟩)
  obtain ⟨hn, hv⟩ := hg 17 b hb
  have hv' : NumVal.RoundedTo 17 (NumVal.dval b) (NumVal.lexVal (g 17 b)) := by simpa using hv
  have hval := AslProofs.Num.decodedAs_value (g 17 b) r hn hd
  refine ⟨r, hr, hval, hv', ?_⟩
  intro hz i hi
  rcases hval with h | ⟨j, hj', hjv⟩
  · rw [h] at hi; cases hi
  · rw [hj'] at hi
    have : j = i := by injection hi
    subst this
    rw [hv'.1 hz] at hjv
    exact_mod_cast hjv

/-- non-vacuity: 5.0 is a finite double, the driver's formatter satisfies H1v, and writes it `5` -/
example : dFinite 0x4014000000000000 = true ∧ H1v AslModel.Dtoa.fmtG := ⟨by decide, AslProofs.Fmt.fmtG_H1v⟩

/-! ### statements about libc kept in full (exercised by K and the python oracle on every generated number) -/

/-- H2d for the models the driver runs (= for glibc, by the correspondence check): not proved -/
def double_roundtrip_full : Prop := H2d AslModel.Dtoa.fmtG AslModel.Strtod.atofBits

/-- **H1 holds for the formatter the driver runs**: `Dtoa.fmtG P b` is an RFC 8259 number lexeme for every
    precision and every bit pattern (three `%g` layouts, exactly `P` significant digits with a non-zero
    leading digit, stripped zeros, two-digit exponent).  Every theorem of this file that assumes `H1 g`
    therefore applies to the instance compared with glibc on every run. -/
theorem fmtG_H1 : H1 AslModel.Dtoa.fmtG := fun P b _ => AslProofs.Fmt.fmtG_number P b

/-- **H1v holds for the formatter the driver runs**: the text `Dtoa.fmtG P b` is an RFC 8259 number whose decimal
    VALUE (`NumVal.lexVal`, over ℚ) is the value of the double (`NumVal.dval`) correctly rounded, half-even, to `P`
    significant digits — all three `%g` layouts read back exactly.  So the number clause of `encode_in_rfc`
    ("denotes the same value") is not vacuous: with `g := fmtG`, `encode_number_value` pins the value written. -/
theorem fmtG_H1v : H1v AslModel.Dtoa.fmtG := AslProofs.Fmt.fmtG_H1v

/-- the rounding core of `fmtG`: the `P` significant digits `n` and decimal exponent `x` it lays out satisfy
    `10^(P-1) ≤ n < 10^P` and `|n·10^(x-P+1) − num/den| ≤ ½·10^(X-P+1)` where `10^X ≤ num/den < 10^(X+1)`
    (`num/den` = the magnitude of the double as `Dtoa.decompose` gives it) — round-half-even, exact over ℚ -/
theorem fmtG_digits_rounded (P num den : ℕ) (hP : 1 ≤ P) (hn : 0 < num) (hd : 0 < den) :
    10 ^ (P - 1) ≤ (AslModel.Dtoa.sigDigits P num den).1 ∧ (AslModel.Dtoa.sigDigits P num den).1 < 10 ^ P ∧
    ∃ X : ℤ, (10 : ℚ) ^ X ≤ (num : ℚ) / den ∧ (num : ℚ) / den < (10 : ℚ) ^ (X + 1) ∧
      |((AslModel.Dtoa.sigDigits P num den).1 : ℚ) * (10 : ℚ) ^ ((AslModel.Dtoa.sigDigits P num den).2 - P + 1) - (num : ℚ) / den|
        ≤ (10 : ℚ) ^ (X - P + 1) / 2 :=
  AslProofs.Fmt.sigDigits_spec P num den hP hn hd

/-! ## G: the encoder's constants and escape table as the source has them now

`Gen.XdlEnc` (lean/Gen/XdlEncGen.lean) is regenerated from `src/Xdl.cpp` by `tools/props/c05.py translate_enc` on every
check: the `%.Pg` formats chosen in `XdlEncoder::encode`, the `case` lines and the default branch of `new_string`, the
flush test, the sizes in `Xdl::read`, the `snprintf` bounds.  The theorems below say the model the driver runs
(`precF/precD`, `escByte`, `W.flushIfBig`, the literals of `readFile`) IS what was read from the source, so every
theorem of this file about `enc/encode/encString/writeChunks/readFile` is re-checked against the code as it is now
(a new escape such as `\v`, `%.16g`, another flush threshold: the proofs below stop checking). -/

/-- number formats: `%.9g/%.17g`, SIMPLE `%.7g/%.15g`, SHORTF `_fmtD = _fmtF` — as assigned in `XdlEncoder::encode` -/
theorem gen_number_formats (m : Mode) :
    precF m = Gen.XdlEnc.precF m.simple ∧ precD m = Gen.XdlEnc.precD m.simple m.shortf := by
  cases m with | mk p s j f => cases s <;> cases f <;> exact ⟨rfl, rfl⟩

/-- string escaping: for every byte the model's `escByte` is the `switch` of `new_string` as read from the source (the
    `case` table in source order, then `< ' '` printed with `\u%04x`, then the byte itself) -/
theorem gen_escape_table (c : UInt8) : escByte c = Gen.XdlEnc.escByte c := by
  have h : ∀ n : Fin 256, escByte (UInt8.ofNat n.val) = Gen.XdlEnc.escByte (UInt8.ofNat n.val) := by decide +kernel
  simpa using h ⟨c.toNat, c.toNat_lt⟩

/-- so the RFC 8259 theorem for strings is a theorem about the table in the source -/
theorem gen_string_escaping_exact (s : Bytes) (h0 : (0 : UInt8) ∉ s) :
    SerV (.str s) (34 :: (s.flatMap Gen.XdlEnc.escByte) ++ [34]) := by
  have h : s.flatMap Gen.XdlEnc.escByte = s.flatMap escByte := by
    congr 1; funext c; exact (gen_escape_table c).symm
  rw [h]; exact encString_ser s h0

/-- the `\u%04x` text (6 characters) and every other escape fit `char u[8]` with the NUL: `snprintf(u, sizeof(u), …)`
    never truncates an escape -/
theorem gen_u_escape_fits (c : UInt8) : (Gen.XdlEnc.escByte c).length < Gen.XdlEnc.uBuf := by
  have h : ∀ n : Fin 256, (Gen.XdlEnc.escByte (UInt8.ofNat n.val)).length < Gen.XdlEnc.uBuf := by decide +kernel
  simpa using h ⟨c.toNat, c.toNat_lt⟩

/-- the sink is flushed exactly when `_out` is longer than the threshold in the source -/
theorem gen_flush (w : W) :
    w.flushIfBig = if w.len > Gen.XdlEnc.flushAbove then { chunks := w.rout.reverse :: w.chunks, rout := [], len := 0 } else w := rfl

/-- `Xdl::read`: the literals of `readFile` (`min content.length 100000`, `min 16382 size`) are the ones in the source -/
theorem gen_read_sizes : Gen.XdlEnc.readClamp = 100000 ∧ Gen.XdlEnc.readChunk = 16382 := ⟨rfl, rfl⟩

/-- the `snprintf(&_out[n], N, _fmtD/_fmtF, x)` bounds: in full, no number text is truncated (the longest `%.17g` text is
    `-d.dddddddddddddddde-308`, 24 characters; `%.9g` of a double — SHORTF — `-d.dddddddde-308`, 16).  Not proved: it needs a
    bound on the decimal exponent of `Dtoa.sigDigits`; K compares every generated number byte for byte. -/
def number_buffer_fits_full : Prop :=
  ∀ b : UInt64, dFinite b = true → (AslModel.Dtoa.fmtG 17 b).length < Gen.XdlEnc.dblBuf ∧ (AslModel.Dtoa.fmtG 9 b).length < Gen.XdlEnc.fltBuf
/-- proved part: the bounds in the source leave room for those 24 / 16 characters and the NUL -/
theorem number_buffer_fits_partial : 24 < Gen.XdlEnc.dblBuf ∧ 16 < Gen.XdlEnc.fltBuf := by decide

/-- non-vacuity: 0x0b has no `case`, it is written `\u000b` by the table read from the source; `"` is written `\"` -/
example : Gen.XdlEnc.escByte 11 = [92, 117, 48, 48, 48, 98] ∧ Gen.XdlEnc.escByte 34 = [92, 34] ∧ Gen.XdlEnc.escByte 47 = [47] := by decide
example : Gen.XdlEnc.precD false false = 17 ∧ Gen.XdlEnc.precD true true = 7 := by decide

/-! ## well-formed UTF-8 in, well-formed UTF-8 out -/

/-- the grammar above lets any byte ≥ 0x80 through; this closes the gap: escaping keeps RFC 3629 well-formedness -/
theorem encString_utf8 (s : Bytes) (h : ValidUtf8 s) : ValidUtf8 (encString s) :=
  AslProofs.XdlEnc.encString_utf8 s h

/-- every mode: if all strings and keys of the tree are well-formed UTF-8, the whole encoder output is -/
theorem encode_utf8 (g : Nat → UInt64 → Bytes) (m : Mode) (hg : H1 g) (v : EV) (hw : WF v) (hu : UtfTree v) :
    ValidUtf8 (encode g m v) :=
  AslProofs.XdlEnc.encode_utf8 g m hg v hw hu

/-! ## XDL -/

/-- `Xdl::decode(Xdl::encode(v, mode))`, compact or PRETTY, for trees whose keys are identifiers (`WFX`: a
    letter, digit, `_` or `$`, then letters, digits, `_` — `$type` is one of them and may hold ANY value): the
    result is `xnorm v` — same structure, same keys, strings, booleans (written `Y`/`N`), numbers as the
    decoder classifies their lexemes, undefined members dropped (nesting ≤ 1000).  A `$type` that passes the
    encoder's `isClassName` test (`validCls`, by `xdl_class_name_test`) is written in class notation and comes
    back as the member `$type`; any other `$type` is written as an ordinary property.  PRETTY separates members and long arrays by newlines only,
    which the parser reads in its WAIT_COMMA_OR_* states. -/
theorem xdl_roundtrip (g : Nat → UInt64 → Bytes) (m : Mode) (hj : m.json = false)
    (hg : H1 g) (v : EV) (hw : AslProofs.XdlX.WFX v) (hd : AslProofs.XdlX.xdepth v ≤ 1000) :
    decode (encode g m v) = some (some (AslProofs.XdlX.xnorm g m v)) := by
  cases hp : m.pretty
  · exact AslProofs.XdlX.xdl_decode_encode g m hp hj hg v hw hd
  · exact AslProofs.XdlX.xdl_decode_encode_pretty g m hp hj hg v hw hd

/-- the XDL result has the structure of the tree (`SameX`: as `Same`, with the class name as first member `$type`) -/
theorem xdl_roundtrip_same (g : Nat → UInt64 → Bytes) (m : Mode) (hj : m.json = false) (hg : H1 g) (v : EV)
    (hw : AslProofs.XdlX.WFX v) (hk : KeysNodup v) (hd : AslProofs.XdlX.xdepth v ≤ 1000) :
    ∃ r, decode (encode g m v) = some (some r) ∧ AslProofs.XdlX.SameX (NumJ g m) v r :=
  ⟨_, xdl_roundtrip g m hj hg v hw hd, AslProofs.XdlX.same_xdl g m v hw hk⟩

/-- `Xdl::write` then `Xdl::read` through a file of any size = `Xdl::decode ∘ Xdl::encode` -/
theorem xdl_file_roundtrip (g : Nat → UInt64 → Bytes) (m : Mode) (hj : m.json = false) (hg : H1 g) (v : EV)
    (hw : AslProofs.XdlX.WFX v) : readFile (writeChunks g m v).flatten = decode (encode g m v) :=
  AslProofs.XdlX.xdl_file_roundtrip g m hj hg v hw

/-- the encoder's `isClassName` test, restated as the predicate `validCls` (a definitional restatement of the
    boolean test: first character a letter, `_` or `$`, then letters, digits, `_`, `.`, and not `Y`, `N`, `true`,
    `false`, `null`).  What is proved about `validCls` is SUFFICIENCY: every such name written in front of `{` is
    read back by the decoder as the member `$type` (`class_open`, used by `xdl_roundtrip`).  Necessity — that no
    other string would survive class notation — is not proved.
    Suggested by the audit, open: `¬ validCls c → c ≠ [] → decode (c ++ [123, 125]) ≠ some (some (.obj [(classKey, .str c)]))`. -/
theorem xdl_class_name_test (v : EV) (c : Bytes) :
    clsName v = some c ↔ v = .str c ∧ AslProofs.XdlX.validCls c :=
  AslProofs.XdlX.clsName_iff v c

/-- non-vacuity of the XDL hypotheses: `Point{on=Y,x=1}`, and objects whose `$type` is not a class name -/
example : AslProofs.XdlX.WFX (.obj [(classKey, .str [80, 111, 105, 110, 116]), ([111, 110], .bool true), ([120], .int 1)]) := by
  have idc : ∀ c : UInt8, isAlnum c = true → AslProofs.XdlX.isIdChar c := fun c h => Or.inl h
  have h2 : AslProofs.XdlX.validKey [111, 110] :=
    ⟨111, [110], rfl, Or.inl (by decide), by intro c hc; simp at hc; subst hc; exact idc _ (by decide)⟩
  have h3 : AslProofs.XdlX.validKey [120] :=
    ⟨120, [], rfl, Or.inl (by decide), by intro c hc; simp at hc⟩
  show AslProofs.XdlX.WFXM _
  exact ⟨⟨AslProofs.XdlX.classKey_valid, by simp [AslProofs.XdlX.WFX]⟩, ⟨h2, trivial⟩, ⟨h3, by decide, by decide⟩, trivial⟩
example : AslProofs.XdlX.WFX (.obj [(classKey, .int 5), ([120], .int 1)]) ∧
    AslProofs.XdlX.WFX (.obj [(classKey, .str [104, 105, 32, 121, 111, 117])]) := by
  have h3 : AslProofs.XdlX.validKey [120] :=
    ⟨120, [], rfl, Or.inl (by decide), by intro c hc; simp at hc⟩
  exact ⟨⟨⟨AslProofs.XdlX.classKey_valid, by decide, by decide⟩, ⟨h3, by decide, by decide⟩, trivial⟩,
    ⟨⟨AslProofs.XdlX.classKey_valid, by simp [AslProofs.XdlX.WFX]⟩, trivial⟩⟩
/-- `{"$type":5,"x":1}` ↦ `{$type=5,x=1}` and `{"$type":"hi you"}` ↦ `{$type="hi you"}` (before c4482e8: `?{x=1}`, `hi you{}`) -/
example : encode AslModel.Dtoa.fmtG ⟨false, false, false, false⟩ (.obj [(classKey, .int 5), ([120], .int 1)]) =
    [123, 36, 116, 121, 112, 101, 61, 53, 44, 120, 61, 49, 125] := by decide
example : encode AslModel.Dtoa.fmtG ⟨false, false, false, false⟩ (.obj [(classKey, .str [104, 105, 32, 121, 111, 117])]) =
    [123, 36, 116, 121, 112, 101, 61, 34, 104, 105, 32, 121, 111, 117, 34, 125] := by decide

/-! ## non-vacuity -/

/-- the statements are about texts that really occur, with the driver's own formatter (H1 by `fmtG_H1`) -/
example : encode AslModel.Dtoa.fmtG ⟨false, false, true, false⟩
    (.obj [([97], .arr [.int (-7), .num 0x3ff8000000000000, .str [34, 1]]), ([98], .none)]) =
    [123, 34, 97, 34, 58, 91, 45, 55, 44, 49, 46, 53, 44, 34, 92, 34, 92, 117, 48, 48, 48, 49, 34, 93, 125] := by decide
example : WF (.obj [([97], .arr [.int (-7), .num 0x3ff8000000000000, .str [34, 1]]), ([98], .none)]) := by
  simp [WF, WFM, WFL]
example : KeysNodup (.obj [([97], .arr [.int (-7), .num 0x3ff8000000000000, .str [34, 1]]), ([98], .none)]) := by
  simp [KeysNodup, KeysNodupM, KeysNodupL]

end C05
