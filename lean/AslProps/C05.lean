import AslModel.Xdl
import AslModel.Dtoa
import AslProofs.JsonSpec
import AslProofs.XdlEnc
import AslProofs.XdlX
import AslProofs.XdlXP
/-!
# C05 — JSON (and XDL) encoding round-trips every Var

Property theorems only.  All statements are about `AslModel.Xdl.enc / encode / encW / writeChunks /
readFile` (the transcription of `XdlEncoder`, `Xdl::write`, `Xdl::read` that the driver `asl_c05` runs
against the real library on every check) and `decode` of C06.  `g P bits` stands for
`snprintf("%.Pg", x)`; the theorems hold for every `g` with **H1** (`g` prints RFC 8259 number lexemes
for finite doubles); the driver instantiates `g := AslModel.Dtoa.fmtG`, which the correspondence check
compares with glibc on every generated number.  The oracle for "accepted by an independent strict JSON
parser and denotes the same value" is the RFC 8259 grammar `Rfc8259.SerV` (lean/AslProofs/JsonSpec.lean),
written from the RFC independently of encoder and decoder.
-/
namespace C05
open AslModel.Xdl AslProofs.XdlEnc Rfc8259

/-! ## the encoder output is RFC 8259 JSON denoting the tree -/

/-- for every well-formed tree (32-bit ints, NUL-free strings and keys — arbitrary other bytes: control
    characters, quotes, backslashes, `/`, 0x7f, high bytes), in compact and pretty JSON mode and at any
    indentation level, the text written by `_encode` is derivable in the RFC 8259 grammar and denotes
    `denote v` (= `v` with numbers as the lexemes printed, undefined → null, NaN → null, ±inf → ±1e400,
    undefined members dropped) -/
theorem encode_in_rfc (g : Nat → UInt64 → Bytes) (m : Mode) (hj : m.json = true) (hg : H1 g) (v : EV) (hw : WF v)
    (lvl : Nat) : SerV (denote g m v) (enc g m lvl v) :=
  enc_ser g m hj hg v lvl hw

/-- the complete text returned by `Json::encode` (with the final newline of pretty mode) is a JSON-text -/
theorem encode_is_json_text (g : Nat → UInt64 → Bytes) (m : Mode) (hj : m.json = true) (hg : H1 g) (v : EV) (hw : WF v) :
    SerDoc (denote g m v) (encode g m v) :=
  encode_serDoc g m hj hg v hw

/-- strings and keys: every NUL-free byte string is written as an RFC 8259 string denoting exactly itself -/
theorem string_escaping_exact (s : Bytes) (h0 : (0 : UInt8) ∉ s) : SerV (.str s) (encString s) :=
  encString_ser s h0

/-- ints: `myitoa` prints `[-]int` of RFC 8259 whose decimal value is the int, for all of INT_MIN..INT_MAX -/
theorem int_lexeme_exact (i : Int) (h1 : -2147483648 ≤ i) (h2 : i ≤ 2147483647) :
    Number (itoa i) ∧ decVal (itoa i) = i :=
  ⟨itoa_number i h1 h2, (itoa_spec i h1 h2).2⟩

/-! ## decode ∘ encode -/

/-- JSON round trip on the model, compact or pretty: decoding the encoder's text yields the normalised
    denotation of the tree (nesting ≤ 1000 = XDL_MAX_DEPTH) -/
theorem json_roundtrip (g : Nat → UInt64 → Bytes) (m : Mode) (hj : m.json = true) (hg : H1 g) (v : EV) (hw : WF v)
    (hd : depth (denote g m v) ≤ 1000) : decode (encode g m v) = some (some (norm (denote g m v))) :=
  decode_encode g m hj hg v hw hd

/-- ... where an int comes back as the same int when it has at most 9 characters and as `atof` of its
    exact decimal lexeme otherwise (INT_MIN, 1000000000 …) -/
theorem roundtrip_int (g : Nat → UInt64 → Bytes) (m : Mode) (i : Int) (h1 : -2147483648 ≤ i) (h2 : i ≤ 2147483647) :
    norm (denote g m (.int i)) = if (itoa i).length ≤ 9 then .int i else .num (itoa i) :=
  norm_denote_int g m i h1 h2

/-- ... strings, booleans and null come back identical -/
theorem roundtrip_scalars (g : Nat → UInt64 → Bytes) (m : Mode) (s : Bytes) (b : Bool) :
    norm (denote g m (.str s)) = .str s ∧ norm (denote g m (.bool b)) = .bool b ∧ norm (denote g m .null) = .null := by
  simp [denote, norm]

/-- ... and an object with pairwise distinct keys (what a `Dic` holds) comes back with exactly its
    members, in order, nothing merged -/
theorem roundtrip_object_members (ms : List (Bytes × JV)) (h : (ms.map (·.1)).Nodup) :
    normM ms [] = ms.map fun p => (p.1, norm p.2) := by
  have := normM_distinct ms [] h (by intro p hp; simp at hp)
  simpa using this

/-! ## files: the sink loses nothing, chunked reading changes nothing -/

/-- `sink_concat`: the concatenation of everything handed to the file sink (flushes above 16000 bytes
    after any node + the final write) is exactly the text `encode` returns — for every mode, JSON or XDL -/
theorem sink_concat (g : Nat → UInt64 → Bytes) (m : Mode) (v : EV) : (writeChunks g m v).flatten = encode g m v :=
  writeChunks_flatten g m v

/-- the writer refines the pure encoder from any sink state -/
theorem writer_refines (g : Nat → UInt64 → Bytes) (m : Mode) (lvl : Nat) (v : EV) (w : W) :
    (encW g m lvl v w).total = w.total ++ enc g m lvl v :=
  encW_total g m lvl v w

/-- `read_chunks`: `Xdl::read` of a non-empty NUL-free file of any size — BOM probe, 16382-byte chunks,
    flush — is `decode` of its content after an optional BOM (instance of C06 `chunk_indep`) -/
theorem read_chunks (content : Bytes) (hne : content ≠ []) (h0 : (0 : UInt8) ∉ content) :
    readFile content = decode (stripBom content) :=
  readFile_eq_decode content hne h0

/-- write ∘ read through a file of any size = decode ∘ encode (JSON modes) -/
theorem file_roundtrip (g : Nat → UInt64 → Bytes) (m : Mode) (hj : m.json = true) (hg : H1 g) (v : EV) (hw : WF v) :
    readFile (writeChunks g m v).flatten = decode (encode g m v) :=
  AslProofs.XdlEnc.file_roundtrip g m hj hg v hw

/-! ## statements kept in full, validated by the correspondence check only -/

/-- H2 (glibc): `atof` of the 17-digit lexeme gives the double back bit for bit — a hypothesis about
    libc, exercised by K and the python oracle on every generated double, not proved -/
def double_roundtrip_full (g : Nat → UInt64 → Bytes) (atof : Bytes → UInt64) : Prop :=
  ∀ b : UInt64, dFinite b = true → b.toNat % 2 ^ 63 ≠ 0 → atof (g 17 b) = b

/-! ## XDL -/

/-- `Xdl::decode(Xdl::encode(v, mode))`, compact or PRETTY, for trees whose keys are identifiers and whose
    `$type` is a class name: the result is `xnorm v` — same structure, same keys, strings, booleans
    (written `Y`/`N`), numbers as the decoder classifies their lexemes, the class name back as `$type`,
    undefined members dropped (nesting ≤ 1000).  PRETTY separates members and long arrays by newlines only,
    which the parser reads in its WAIT_COMMA_OR_* states. -/
theorem xdl_roundtrip (g : Nat → UInt64 → Bytes) (m : Mode) (hj : m.json = false)
    (hg : H1 g) (v : EV) (hw : AslProofs.XdlX.WFX v) (hd : AslProofs.XdlX.xdepth v ≤ 1000) :
    decode (encode g m v) = some (some (AslProofs.XdlX.xnorm g m v)) := by
  cases hp : m.pretty
  · exact AslProofs.XdlX.xdl_decode_encode g m hp hj hg v hw hd
  · exact AslProofs.XdlX.xdl_decode_encode_pretty g m hp hj hg v hw hd

/-- what comes back for scalars in XDL: the same boolean, string, and int (when it has at most 9 characters) -/
theorem xdl_roundtrip_scalars (g : Nat → UInt64 → Bytes) (m : Mode) (s : Bytes) (b : Bool) :
    AslProofs.XdlX.xnorm g m (.str s) = .str s ∧ AslProofs.XdlX.xnorm g m (.bool b) = .bool b ∧
    AslProofs.XdlX.xnorm g m .null = .null := by
  simp [AslProofs.XdlX.xnorm]

/-- non-vacuity of the XDL hypotheses: `Point{on=Y,x=1}` -/
example : AslProofs.XdlX.WFX (.obj [(classKey, .str [80, 111, 105, 110, 116]), ([111, 110], .bool true), ([120], .int 1)]) := by
  have idc : ∀ c : UInt8, isAlnum c = true → AslProofs.XdlX.isIdChar c := fun c h => Or.inl h
  have h1 : AslProofs.XdlX.validCls [80, 111, 105, 110, 116] := by
    refine ⟨80, [111, 105, 110, 116], rfl, Or.inl ⟨by decide, by decide⟩, ?_, ?_⟩
    · intro c hc
      simp at hc
      rcases hc with rfl | rfl | rfl | rfl <;> exact idc _ (by decide)
    · unfold AslProofs.XdlX.reserved; decide
  have h2 : AslProofs.XdlX.validKey [111, 110] :=
    ⟨111, [110], rfl, Or.inl (by decide), by intro c hc; simp at hc; subst hc; exact idc _ (by decide), by decide⟩
  have h3 : AslProofs.XdlX.validKey [120] :=
    ⟨120, [], rfl, Or.inl (by decide), by intro c hc; simp at hc, by decide⟩
  show AslProofs.XdlX.WFXM _
  exact ⟨Or.inl ⟨rfl, _, rfl, h1⟩, Or.inr ⟨h2, trivial⟩, Or.inr ⟨h3, by decide, by decide⟩, trivial⟩

/-! ## non-vacuity -/

/-- the hypothesis H1 is satisfiable and the statements are about texts that really occur -/
example : encode (fun _ _ => [49, 46, 53]) ⟨false, false, true, false⟩
    (.obj [([97], .arr [.int (-7), .num 0x3ff8000000000000, .str [34, 1]]), ([98], .none)]) =
    [123, 34, 97, 34, 58, 91, 45, 55, 44, 49, 46, 53, 44, 34, 92, 34, 92, 117, 48, 48, 48, 49, 34, 93, 125] := by rfl
example : H1 (fun _ _ => [49, 46, 53]) := by
  intro P b _
  exact Number.mk [] [49] [46, 53] [] (Or.inl rfl) (.nz 49 [] (by decide) (by decide) (by intro x hx; simp at hx))
    (.some 53 [] (by unfold isDig; decide) (by intro x hx; simp at hx)) .none
example : WF (.obj [([97], .arr [.int (-7), .num 0x3ff8000000000000, .str [34, 1]]), ([98], .none)]) := by
  simp [WF, WFM, WFL]

end C05
