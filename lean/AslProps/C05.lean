import AslModel.Xdl
/-! # C05 — placeholder while the theorems are being written -/
namespace C05
open AslModel.Xdl

theorem itoa_zero : itoa 0 = [48] := by decide

end C05
