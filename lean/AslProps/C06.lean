import AslModel.Xdl
import Gen.XdlGen
import AslProofs.XdlUtf
import AslProofs.Xdl
import AslProofs.XdlChunks
import AslProofs.JsonSpec
import AslProofs.XdlRfcMain
import AslProofs.XdlPrefix
import AslProofs.XdlPrefixStr
import AslProofs.NumValDefs
import AslProofs.IntLit
import AslProofs.XdlComment
import AslProofs.XdlAtoiz
import AslProofs.XdlNumLit
/-!
# C06 — JSON/XDL decoding is total, memory-safe, chunk-independent and RFC 8259 conformant

Property theorems only.  All statements are about `AslModel.Xdl` (the transcription of `XdlParser` that
the driver `asl_c06` runs against the real library on every check).  In the model `none` means "the code
would call `top()`/`pop()` on an empty `Stack`, index a `String` past its terminator, or re-read the
same byte for ever"; a chunk is a C string (it ends at its first NUL).
-/
namespace C06
open AslModel.Xdl AslProofs.Xdl

/-! ## totality and memory safety on every byte string, fed in any chunks -/

/-- the parser never underflows a stack / over-indexes a buffer / loops, whatever bytes arrive in
    whatever chunks; and the invariant that guarantees it holds afterwards -/
theorem parse_safe (chunks : List Bytes) : ∃ q, parseChunks init chunks = some q ∧ Inv q :=
  parseChunks_ok chunks init inv_init

/-- in every state reachable by feeding any chunks, consuming one more byte is safe and dispatches it
    at most twice (one push-back); a `return` only happens in state ERR -/
theorem step_safe (chunks : List Bytes) (q : PState) (h : parseChunks init chunks = some q) (c : UInt8) :
    ∃ b q', stepByte q c = some (b, q') ∧ (b = true → q'.state = .ERR) := by
  obtain ⟨q0, h0, hi⟩ := parse_safe chunks
  rw [h] at h0
  cases h0
  obtain ⟨b, q', hs, _, he⟩ := stepByte_ok q c hi
  exact ⟨b, q', hs, he⟩

/-- `Json::decode` / `Xdl::decode` terminate on every byte string with either an invalid Var or a value -/
theorem decode_total (text : Bytes) : ∃ r : Option JV, decode text = some r := by
  obtain ⟨p1, h1, i1⟩ := parse_ok init text inv_init
  obtain ⟨p2, h2, _⟩ := parse_ok p1 [32] i1
  exact ⟨value p2, by simp [decode, decodeFrom, h1, h2]⟩

/-- the stacks `value()` reads are never empty: `_lists[0]` is the root array, `_context.top()` exists -/
theorem value_reads_in_bounds (chunks : List Bytes) (q : PState) (h : parseChunks init chunks = some q) :
    q.ctx ≠ [] ∧ (q.state ≠ .ERR → ∃ rev, q.lists.getLast? = some (.arr rev)) := by
  obtain ⟨q0, h0, hi⟩ := parse_safe chunks
  rw [h] at h0
  cases h0
  obtain ⟨base, hc, hb, hg⟩ := hi
  constructor
  · rcases hc with ⟨_, hc⟩ | ⟨_, hc | hc | hc | hc⟩ <;> simp [hc]
    intro hbase
    simp [hbase, BaseOK] at hb
  · intro hne
    exact shape_last _ _ (hg hne).shape

/-- the stack buffers of state UNICODECHAR (`char ch[8]`, `char ch[9]`, `char unicode[5]`, member
    `_unicode[4]`; sizes regenerated from src/Xdl.cpp and Xdl.h on every run into `Gen.Xdl`) are large enough
    for what `utf16toUtf8`, `memcpy` and the indexed store write — terminator included — for EVERY value of
    the code units (any `wchar_t`, not only what four hex digits spell).  The model returns the converted
    bytes as a list, so this is the obligation that keeps `parse_safe` honest about those writes. -/
theorem unicode_buffers_fit :
    (∀ w : Int, (utf16toUtf8 [w] 1).length + 1 ≤ Gen.Xdl.chSingle) ∧
    (∀ a b : Int, (utf16toUtf8 [a, b] 2).length + 1 ≤ Gen.Xdl.chPair) ∧
    Gen.Xdl.unicodeCopy ≤ Gen.Xdl.unicodeMember ∧ Gen.Xdl.unicodeCopy ≤ Gen.Xdl.unicodeTerm ∧
    Gen.Xdl.unicodeTerm + 1 ≤ Gen.Xdl.unicodeBuf ∧
    (∀ n : Nat, n % Gen.Xdl.unicodeMod < Gen.Xdl.unicodeMember) ∧
    Gen.Xdl.unicodeMod = 4 ∧ Gen.Xdl.unicodeCopy = 4 := by
  refine ⟨fun w => ?_, fun a b => ?_, by decide, by decide, by decide, fun n => ?_, rfl, rfl⟩
  · have := AslProofs.XdlRfc.utf16_len1 w
    simp only [Gen.Xdl.chSingle]; omega
  · have := AslProofs.XdlRfc.utf16_len2 a b
    simp only [Gen.Xdl.chPair]; omega
  · simp only [Gen.Xdl.unicodeMod, Gen.Xdl.unicodeMember]; omega

/-! ## chunk independence, for every partition of a NUL-free text -/

/-- feeding the chunks one by one and then flushing gives exactly `decode` of the whole text -/
theorem chunk_indep (chunks : List Bytes) (hn : ∀ c ∈ chunks, (0 : UInt8) ∉ c) :
    ((parseChunks init chunks).bind fun p => (parse p [32]).map value) = decode chunks.flatten := by
  obtain ⟨x, y, hx, hy, hix, hiy, hr⟩ := chunks_R chunks hn init init (R.refl _) inv_init inv_init
  obtain ⟨x', y', hx', hy', _, _, hr'⟩ := parse_R [32] hr hix hiy
  simp [decode, decodeFrom, hx, hy, hx', hy', value_R hr']

/-- also the observable after any number of chunks without the flush (`value()` polled between chunks) -/
theorem chunk_indep_poll (chunks : List Bytes) (hn : ∀ c ∈ chunks, (0 : UInt8) ∉ c) :
    (parseChunks init chunks).map value = (parse init chunks.flatten).map value := by
  obtain ⟨x, y, hx, hy, _, _, hr⟩ := chunks_R chunks hn init init (R.refl _) inv_init inv_init
  simp [hx, hy, value_R hr]

/-- a text with NUL bytes is read as a C string: only the part before the first NUL is decoded -/
theorem decode_stops_at_nul (a b : Bytes) (ha : (0 : UInt8) ∉ a) : decode (a ++ 0 :: b) = decode a := by
  have h1 : cstr (a ++ 0 :: b) = a := by
    unfold cstr
    induction a with
    | nil => simp
    | cons x t ih =>
      have hx : x ≠ 0 := fun h0 => ha (by simp [h0])
      have ht : (0 : UInt8) ∉ t := fun h0 => ha (by simp [h0])
      simp [hx]
      simpa using ih ht
  simp [decode, decodeFrom, parse, h1, cstr_of_nonul a ha]

/-! ## RFC 8259 conformance

`Rfc8259.SerDoc v w` (lean/AslProofs/JsonSpec.lean) is the JSON grammar written from the RFC as an
inductive relation, independent of the parser: `w` is a JSON-text denoting the tree `v` (numbers denote
their lexeme, strings the UTF-8 bytes of their code points, objects their member lists).
`Rfc8259.norm v` is the `Var` the decoder must build for `v`: integers of at most 9 characters become
`int`, all other numbers are `atof` of the lexeme, duplicate keys resolve to the last value. -/

/-- every RFC 8259 text (any white space, every number spelling, every escape incl. `\/` and surrogate
    pairs; no `\u0000`, no lone surrogates; nesting ≤ 1000 = XDL_MAX_DEPTH) is accepted and yields the
    value it denotes -/
theorem rfc_accept (v : JV) (w : Bytes) (h : Rfc8259.SerDoc v w) (hd : Rfc8259.depth v ≤ 1000) :
    decode w = some (some (Rfc8259.norm v)) :=
  AslProofs.XdlRfc.decode_doc v w h hd

/-- ... also when the text arrives in arbitrary chunks (corollary of `chunk_indep`) -/
theorem rfc_accept_chunked (v : JV) (chunks : List Bytes) (h : Rfc8259.SerDoc v chunks.flatten)
    (hd : Rfc8259.depth v ≤ 1000) :
    ((parseChunks init chunks).bind fun p => (parse p [32]).map value) = some (some (Rfc8259.norm v)) := by
  have hn : ∀ c ∈ chunks, (0 : UInt8) ∉ c := by
    intro c hc h0
    exact AslProofs.XdlRfc.serDoc_nonul h (List.mem_flatten.mpr ⟨c, hc, h0⟩)
  rw [chunk_indep chunks hn]
  exact rfc_accept v _ h hd

/-- **integer literals of every length** (state INT; `Gen.Xdl.intSplit` is the character count read from the
    `if (_buffer.length() > N) new_number(ASL_ATOF(_buffer)); else new_number(myatoiz(_buffer));` of
    src/Xdl.cpp by the translator, which refuses any other shape of that statement).  For the literal
    `[-]digits` spelling the integer `±n`:
    * at most `intSplit` = 9 characters: the decoder builds the `int` with exactly that decimal value;
    * longer: it builds the double `atof` returns on the lexeme (`Strtod.atofBits`, the bits the
      correspondence check compares with the library on every run), and that double is
      - exactly `±n` when `n < 2^53`,
      - `±k` with `k` the multiple of the binary64 spacing at `n` nearest to `n`, ties to the even significand
        (`NumVal.Nearest53`), when `2^53 ≤ n < 2^1024` — or ±infinity if that `k` is `2^1024`,
      - ±infinity when `n ≥ 2^1024`.
    In particular the sign of the result is the sign of the literal and 9223372036854775808 ↦ 2^63. -/
theorem int_literal_value (minus ip : Bytes) (hm : minus = [] ∨ minus = [45]) (hip : Rfc8259.IntPart ip) :
    Gen.Xdl.intSplit = 9 ∧
    Rfc8259.norm (.num (minus ++ ip)) =
      (if (minus ++ ip).length ≤ Gen.Xdl.intSplit then .int (Rfc8259.decVal (minus ++ ip)) else .num (minus ++ ip)) ∧
    ∃ n : Nat, Rfc8259.decVal (minus ++ ip) = (if minus = [45] then -(n : Int) else (n : Int)) ∧
      (n < 2 ^ 53 → NumVal.dval (AslModel.Strtod.atofBits (minus ++ ip)) = ((Rfc8259.decVal (minus ++ ip) : Int) : Rat)) ∧
      (2 ^ 53 ≤ n → n < 2 ^ 1024 → ∃ k, NumVal.Nearest53 n k ∧
          (k < 2 ^ 1024 → NumVal.dval (AslModel.Strtod.atofBits (minus ++ ip)) = (if minus = [45] then -(k : Rat) else (k : Rat))) ∧
          (2 ^ 1024 ≤ k → AslModel.Strtod.atofBits (minus ++ ip) = NumVal.infBits (decide (minus = [45])))) ∧
      (2 ^ 1024 ≤ n → AslModel.Strtod.atofBits (minus ++ ip) = NumVal.infBits (decide (minus = [45]))) := by
  refine ⟨rfl, ?_, AslProofs.Num.int_literal_atof minus ip hm hip⟩
  have h := AslProofs.XdlRfc.isIntLex_int minus ip hm hip
  rw [show Gen.Xdl.intSplit = 9 from rfl]
  show (if Rfc8259.isIntLex (minus ++ ip) = true ∧ (minus ++ ip).length ≤ 9 then _ else _) = _
  by_cases hl : List.length (minus ++ ip) ≤ 9
  · rw [if_pos ⟨h, hl⟩, if_pos hl]
  · rw [if_neg (fun hh => hl hh.2), if_neg hl]

example : NumVal.Nearest53 9223372036854775808 (2 ^ 63) :=
  ⟨2 ^ 52, by decide, by decide, by decide, by decide, by decide, by decide⟩

/-- the integer the decoder returns for a short integer lexeme is its decimal value, e.g. "-120" ↦ -120 -/
example : Rfc8259.norm (.num [45, 49, 50, 48]) = .int (-120) := by rfl
example : Rfc8259.norm (.num [49, 50, 51, 52, 53, 54, 55, 56, 57, 48]) = .num [49, 50, 51, 52, 53, 54, 55, 56, 57, 48] := by
  rfl

/-- duplicate keys: the value found under `k` is the last one given for `k` -/
theorem norm_object_lookup (ms acc : List (Bytes × JV)) (k : Bytes) :
    (Rfc8259.normM ms acc).lookup k =
      ms.foldl (fun r m => if m.1 = k then some (Rfc8259.norm m.2) else r) (acc.lookup k) := by
  have hset : ∀ (l : List (Bytes × JV)) (k' : Bytes) (x : JV),
      (objSet l k' x).lookup k = if k' = k then some x else l.lookup k := by
    intro l k' x
    induction l with
    | nil =>
      by_cases h : k' = k
      · simp [objSet, List.lookup, h]
      · have : (k == k') = false := by simp [Ne.symm h]
        simp [objSet, List.lookup, h, this]
    | cons a t ih =>
      obtain ⟨ka, va⟩ := a
      by_cases h1 : ka = k'
      · subst h1
        by_cases h : ka = k
        · simp [objSet, List.lookup, h]
        · have : (k == ka) = false := by simp [Ne.symm h]
          simp [objSet, List.lookup, h, this]
      · by_cases h2 : k = ka
        · subst h2
          have : ¬ k' = k := fun h => h1 h.symm
          simp [objSet, h1, List.lookup, this]
        · have : (k == ka) = false := by simp [h2]
          simp [objSet, h1, List.lookup, this, ih]
  induction ms generalizing acc with
  | nil => simp [Rfc8259.normM]
  | cons m t ih =>
    obtain ⟨k', v⟩ := m
    simp only [Rfc8259.normM, List.foldl_cons]
    rw [ih, hset]

/-- non-vacuity: `{"a":[1,2.5e0,"\u00e9\n"]}` is in the grammar (object, array, int, float, escapes) -/
example : Rfc8259.SerDoc
    (.obj [([97], .arr [.num [49], .num [50, 46, 53, 101, 48], .str [0xC3, 0xA9, 10]])])
    [123, 34, 97, 34, 58, 91, 49, 44, 50, 46, 53, 101, 48, 44, 34, 92, 117, 48, 48, 101, 57, 92, 110, 34, 93, 125] := by
  have hws : Rfc8259.Ws [] := by intro c h; simp at h
  refine ⟨[], [123, 34, 97, 34, 58, 91, 49, 44, 50, 46, 53, 101, 48, 44, 34, 92, 117, 48, 48, 101, 57, 92, 110, 34, 93, 125],
    [], hws, ?_, hws, rfl⟩
  have n1 : Rfc8259.Number [49] :=
    Rfc8259.Number.mk [] [49] [] [] (Or.inl rfl) (.nz 49 [] (by decide) (by decide) (by intro c h; simp at h)) .none .none
  have n2 : Rfc8259.Number [50, 46, 53, 101, 48] :=
    Rfc8259.Number.mk [] [50] [46, 53] [101, 48] (Or.inl rfl)
      (.nz 50 [] (by decide) (by decide) (by intro c h; simp at h))
      (.some 53 [] (by unfold Rfc8259.isDig; decide) (by intro c h; simp at h))
      (.some 101 [] 48 [] (Or.inl rfl) (Or.inl rfl) (by unfold Rfc8259.isDig; decide) (by intro c h; simp at h))
  have c1 : Rfc8259.Chars [0xC3, 0xA9, 10] [92, 117, 48, 48, 101, 57, 92, 110] :=
    Rfc8259.Chars.uni 48 48 101 57 0xE9 [10] [92, 110] (by decide) (by decide) (by decide)
      (Rfc8259.Chars.esc 110 10 [] [] (by decide) .nil)
  have e : Rfc8259.SerElems [.num [49], .num [50, 46, 53, 101, 48], .str [0xC3, 0xA9, 10]]
      [49, 44, 50, 46, 53, 101, 48, 44, 34, 92, 117, 48, 48, 101, 57, 92, 110, 34] :=
    Rfc8259.SerElems.cons _ _ [] [49] [] _ hws (.num _ n1) hws
      (Rfc8259.SerElems.cons _ _ [] [50, 46, 53, 101, 48] [] _ hws (.num _ n2) hws
        (Rfc8259.SerElems.one _ [] _ [] hws (.str _ _ c1) hws))
  exact Rfc8259.SerV.obj _ _
    (Rfc8259.SerMembers.one [97] _ [] [97] [] [] _ [] hws (.plain 97 [] [] (by unfold Rfc8259.unescaped; decide) .nil) hws hws
      (Rfc8259.SerV.arr _ _ e) hws)

/-! ## fraction / exponent literals: the decimal `atof` reads, and the exact cases

These lexemes are handed to `atof` whatever their length.  `parse_number_lexeme`: for EVERY RFC 8259 number the model
of `atof` reads sign, mantissa digits (int ++ frac), number of fraction digits and exponent exactly as the grammar
assigns them, so `NumVal.lexVal lex` is the decimal value the literal denotes.  `scaled_literal_value`: when the net
exponent `k` = exponent − number of fraction digits is ≥ 0 and `mant·10^k < 2^53` (`2.5e3`, `1E5`, `-1.50e2`,
`9007199254740.991e3`) the double is exactly that value.  General correct rounding of fractions stays K + python. -/

open AslProofs.Num in
theorem parse_number_lexeme (minus ip fr ex : Bytes) (hm : minus = [] ∨ minus = [45]) (hip : Rfc8259.IntPart ip)
    (hf : Rfc8259.Frac fr) (hx : Rfc8259.Exp ex) :
    Rfc8259.Number (minus ++ ip ++ fr ++ ex) ∧
    AslModel.Strtod.parseDec (minus ++ ip ++ fr ++ ex) =
      { neg := decide (minus = [45]), mant := AslModel.Strtod.digitsVal (ip ++ fracDigits fr),
        fracLen := (fracDigits fr).length, expNeg := expNegOf ex, exp := AslModel.Strtod.digitsVal (expDigits ex) } :=
  ⟨.mk minus ip fr ex hm hip hf hx, parseDec_number minus ip fr ex hm hip hf hx⟩

open AslProofs.Num in
theorem scaled_literal_value (minus ip fr ex : Bytes) (hm : minus = [] ∨ minus = [45]) (hip : Rfc8259.IntPart ip)
    (hf : Rfc8259.Frac fr) (hx : Rfc8259.Exp ex) (k : Nat)
    (hk : (if expNegOf ex then -((AslModel.Strtod.digitsVal (expDigits ex) : Nat) : Int)
           else ((AslModel.Strtod.digitsVal (expDigits ex) : Nat) : Int)) - ((fracDigits fr).length : Int) = (k : Int))
    (h0 : AslModel.Strtod.digitsVal (ip ++ fracDigits fr) ≠ 0)
    (hN : AslModel.Strtod.digitsVal (ip ++ fracDigits fr) * 10 ^ k < 2 ^ 53) :
    NumVal.dval (AslModel.Strtod.atofBits (minus ++ ip ++ fr ++ ex)) = NumVal.lexVal (minus ++ ip ++ fr ++ ex) ∧
    NumVal.lexVal (minus ++ ip ++ fr ++ ex) =
      (if minus = [45] then -((AslModel.Strtod.digitsVal (ip ++ fracDigits fr) * 10 ^ k : Nat) : Rat)
       else ((AslModel.Strtod.digitsVal (ip ++ fracDigits fr) * 10 ^ k : Nat) : Rat)) :=
  scaled_literal_exact minus ip fr ex hm hip hf hx k hk h0 hN

open AslProofs.Num in
/-- the decoder end of it: a document that is such a literal (any white space around it) decodes to the double `atof`
    gives for the lexeme, whatever its length - so with `scaled_literal_value` `Json::decode(" 2.5e3 ")` is the double 2500 -/
theorem frac_exp_literal_decoded (minus ip fr ex w : Bytes) (hf : Rfc8259.Frac fr) (hx : Rfc8259.Exp ex)
    (h : fr ≠ [] ∨ ex ≠ []) (hw : Rfc8259.SerDoc (.num (minus ++ ip ++ fr ++ ex)) w) :
    decode w = some (some (.num (minus ++ ip ++ fr ++ ex))) := by
  have hn : Rfc8259.norm (.num (minus ++ ip ++ fr ++ ex)) = .num (minus ++ ip ++ fr ++ ex) := by
    have := isIntLex_false (minus ++ ip) fr ex hf hx h
    show (if Rfc8259.isIntLex (minus ++ ip ++ fr ++ ex) = true ∧ (minus ++ ip ++ fr ++ ex).length ≤ 9 then _ else _) = _
    rw [this]
    simp
  have := rfc_accept _ w hw (by simp [Rfc8259.depth])
  rwa [hn] at this

example : decode [32, 50, 46, 53, 101, 51, 32] = some (some (.num [50, 46, 53, 101, 51])) := by rfl   -- " 2.5e3 "

/-- non-vacuity: `2.5e3` (mantissa 25, one fraction digit, exponent 3: k = 2, value 2500) -/
example : Rfc8259.Frac [46, 53] ∧ Rfc8259.Exp ([101] ++ [] ++ [51]) ∧ Rfc8259.IntPart [50] ∧
    AslModel.Strtod.digitsVal ([50] ++ AslProofs.Num.fracDigits [46, 53]) * 10 ^ 2 = 2500 ∧
    (if AslProofs.Num.expNegOf [101, 51] then -((AslModel.Strtod.digitsVal (AslProofs.Num.expDigits [101, 51]) : Nat) : Int)
     else ((AslModel.Strtod.digitsVal (AslProofs.Num.expDigits [101, 51]) : Nat) : Int))
      - ((AslProofs.Num.fracDigits [46, 53]).length : Int) = ((2 : Nat) : Int) :=
  ⟨.some 53 [] (by unfold Rfc8259.isDig; decide) (by intro c h; simp at h),
   .some 101 [] 51 [] (Or.inl rfl) (Or.inl rfl) (by unfold Rfc8259.isDig; decide) (by intro c h; simp at h),
   .nz 50 [] (by decide) (by decide) (by intro c h; simp at h), by decide, by decide⟩

/-! ## `myatoiz` (state INT, literals of at most `intSplit` characters) tied to src/String.cpp

`Gen.Xdl.myatoiz` / `Gen.Xdl.atoizStep` are regenerated on every run from the text of `myatoiz` in src/String.cpp (sign characters, the
multiplier and the `'0'` of `y = 10 * y + (c - '0')`; any other shape of the function is refused by the translator). -/

/-- the hand-written `AslModel.Xdl.myatoiz` the parser model calls IS the regenerated function (so `rfc_accept` / `int_literal_value`
    stop building when the source's conversion changes) -/
theorem myatoiz_from_source (s : Bytes) : myatoiz s = Gen.Xdl.myatoiz s := by
  unfold myatoiz Gen.Xdl.myatoiz
  split
  · rfl
  · rfl
  · split
    · simp_all
    · simp_all
    · rfl

/-- no signed overflow in `myatoiz` on what state INT hands to it: for `[-]digits` of at most `intSplit` characters every
    intermediate `y` of the loop (the fold over every prefix of the digits) is in `[0, 2^31)`, so `y*sgn` is an `int` too -/
theorem myatoiz_no_overflow (minus ds : Bytes) (hd : ∀ c ∈ ds, isDigit c = true)
    (hl : (minus ++ ds).length ≤ Gen.Xdl.intSplit) (p : Bytes) (hp : p <+: ds) :
    0 ≤ p.foldl Gen.Xdl.atoizStep 0 ∧ p.foldl Gen.Xdl.atoizStep 0 < 2 ^ 31 := by
  obtain ⟨r, rfl⟩ := hp
  have h := AslProofs.XdlAtoiz.atoiz_bound p (fun c hc => hd c (by simp [hc])) 0 0 (by omega) (by decide)
  have hlen : p.length ≤ 9 := by
    have : Gen.Xdl.intSplit = 9 := rfl
    simp only [List.length_append] at hl; omega
  have h9 : (10 : Int) ^ (0 + p.length) ≤ 10 ^ 9 := by
    rw [Nat.zero_add]
    exact_mod_cast Nat.pow_le_pow_right (by decide : 0 < 10) hlen
  refine ⟨h.1, ?_⟩
  have : (10 : Int) ^ 9 < 2 ^ 31 := by decide
  omega

example : Gen.Xdl.myatoiz [45, 49, 50, 48] = -120 := by decide
example : ∀ c ∈ ([57, 57, 57, 57, 57, 57, 57, 57, 57] : Bytes), isDigit c = true := by decide
example : ([] ++ [57, 57, 57, 57, 57, 57, 57, 57, 57] : Bytes).length ≤ Gen.Xdl.intSplit := by decide

/-! ## XDL comments: the grammar the filter accepts, and its transparency

`XdlCmt.BlockBody b` (lean/AslProofs/XdlComment.lean) is the set of texts that may stand between `/*` and the
closing `*/`, written as a grammar: a byte other than `*`, or a `*` TOGETHER WITH the byte after it provided
that byte is not `/` (the filter pops ENDCOMMENT without looking at that byte again, so in `/***/` the third
`*` is swallowed and the comment stays open).  `XdlCmt.LineBody` = no LF / CR.  "Outside" = after any prefix
`a` that leaves the parser not in a comment and not in the states STRING / QPROPERTY / ESCAPE (so also in the
middle of a number, an identifier or an unquoted name, where the code accepts comments too). -/

open AslProofs.XdlCmt in
/-- a block comment of that grammar at any such position is invisible: the document decodes to what it decodes
    to with the comment removed (value, rejection and memory safety alike) -/
theorem block_comment_transparent (a b rest : Bytes) (q : PState) (ha : loop init a = some (false, q))
    (hc : q.inComment = false) (h1 : q.state ≠ .STRING) (h2 : q.state ≠ .QPROPERTY) (h3 : q.state ≠ .ESCAPE)
    (hb : BlockBody b) (na : (0 : UInt8) ∉ a) (nb : (0 : UInt8) ∉ b) (nr : (0 : UInt8) ∉ rest) :
    decode (a ++ 47 :: 42 :: (b ++ 42 :: 47 :: rest)) = decode (a ++ rest) := by
  obtain ⟨f, q', hl, hi, _⟩ := loop_ok a init inv_init
  rw [ha] at hl; cases hl
  have ho := outside_of_inv q hi hc h1 h2 h3
  have n1 : (0 : UInt8) ∉ a ++ 47 :: 42 :: (b ++ 42 :: 47 :: rest) := by simp [na, nb, nr]
  have n2 : (0 : UInt8) ∉ a ++ rest := by simp [na, nr]
  have e : parse init (a ++ 47 :: 42 :: (b ++ 42 :: 47 :: rest)) = parse init (a ++ rest) := by
    simp only [parse, show init.state ≠ .ERR by decide, if_false, cstr_of_nonul _ n1, cstr_of_nonul _ n2,
      loop_append, ha, block_skip q ho b hb rest]
  simp only [decode, decodeFrom, e]

open AslProofs.XdlCmt in
/-- a line comment `//…` up to LF or CR at any such position is read as that LF / CR alone -/
theorem line_comment_transparent (a b rest : Bytes) (nl : UInt8) (q : PState) (ha : loop init a = some (false, q))
    (hc : q.inComment = false) (h1 : q.state ≠ .STRING) (h2 : q.state ≠ .QPROPERTY) (h3 : q.state ≠ .ESCAPE)
    (hb : LineBody b) (hnl : nl = 10 ∨ nl = 13) (na : (0 : UInt8) ∉ a) (nb : (0 : UInt8) ∉ b) (nr : (0 : UInt8) ∉ rest) :
    decode (a ++ 47 :: 47 :: (b ++ nl :: rest)) = decode (a ++ nl :: rest) := by
  obtain ⟨f, q', hl, hi, _⟩ := loop_ok a init inv_init
  rw [ha] at hl; cases hl
  have ho := outside_of_inv q hi hc h1 h2 h3
  have hn0 : (0 : UInt8) ≠ nl := by rcases hnl with h | h <;> subst h <;> decide
  have n1 : (0 : UInt8) ∉ a ++ 47 :: 47 :: (b ++ nl :: rest) := by simp [na, nb, nr, hn0]
  have n2 : (0 : UInt8) ∉ a ++ nl :: rest := by simp [na, nr, hn0]
  have e : parse init (a ++ 47 :: 47 :: (b ++ nl :: rest)) = parse init (a ++ nl :: rest) := by
    simp only [parse, show init.state ≠ .ERR by decide, if_false, cstr_of_nonul _ n1, cstr_of_nonul _ n2,
      loop_append, ha, line_skip q ho b hb nl hnl rest]
  simp only [decode, decodeFrom, e]

open AslProofs.XdlCmt in
/-- every RFC 8259 document is still accepted, with the same value, behind a leading block comment -/
theorem rfc_accept_after_comment (v : JV) (w b : Bytes) (h : Rfc8259.SerDoc v w) (hd : Rfc8259.depth v ≤ 1000)
    (hb : BlockBody b) (nb : (0 : UInt8) ∉ b) :
    decode (47 :: 42 :: (b ++ 42 :: 47 :: w)) = some (some (Rfc8259.norm v)) := by
  have := block_comment_transparent [] b w init rfl rfl (by decide) (by decide) (by decide) hb (by simp) nb
    (AslProofs.XdlRfc.serDoc_nonul h)
  simpa [rfc_accept v w h hd] using this

open AslProofs.XdlCmt in
/-- a text that ends inside a block comment (opened at any such position, body of the grammar, the closing `*/` not
    reached - e.g. `[1]/***/`) is rejected: the analogue of `prefix_reject` for comments -/
theorem unclosed_block_comment_rejected (a b : Bytes) (q : PState) (ha : loop init a = some (false, q))
    (hc : q.inComment = false) (h1 : q.state ≠ .STRING) (h2 : q.state ≠ .QPROPERTY) (h3 : q.state ≠ .ESCAPE)
    (hb : BlockBody b) (na : (0 : UInt8) ∉ a) (nb : (0 : UInt8) ∉ b) :
    decode (a ++ 47 :: 42 :: b) = some none := by
  obtain ⟨f, q', hl, hi, _⟩ := loop_ok a init inv_init
  rw [ha] at hl; cases hl
  have ho := outside_of_inv q hi hc h1 h2 h3
  have n1 : (0 : UInt8) ∉ a ++ 47 :: 42 :: b := by simp [na, nb]
  have e : parse init (a ++ 47 :: 42 :: b) = some (inC q (.COMMENT :: q.ctx)) := by
    simp only [parse, show init.state ≠ .ERR by decide, if_false, cstr_of_nonul _ n1, loop_append, ha, block_open q ho b hb]
    rfl
  have := flush_in_comment q q.ctx
  simp only [decode, decodeFrom, e]
  cases hp : parse (inC q (.COMMENT :: q.ctx)) [32] with
  | none => simp [hp] at this
  | some p2 => simpa [hp] using this

open AslProofs.XdlCmt in
/-- a `/` at any such position that is followed by a byte other than `/` and `*` makes the whole text invalid,
    whatever comes after it (`[1]/x`, `[1/2]`, `{a/b=1}`) -/
theorem lone_slash_rejected (a rest : Bytes) (c : UInt8) (q : PState) (ha : loop init a = some (false, q))
    (hc : q.inComment = false) (h1 : q.state ≠ .STRING) (h2 : q.state ≠ .QPROPERTY) (h3 : q.state ≠ .ESCAPE)
    (c1 : c ≠ 47) (c2 : c ≠ 42) (c0 : c ≠ 0) (na : (0 : UInt8) ∉ a) (nr : (0 : UInt8) ∉ rest) :
    decode (a ++ 47 :: c :: rest) = some none := by
  obtain ⟨f, q', hl, hi, _⟩ := loop_ok a init inv_init
  rw [ha] at hl; cases hl
  have ho := outside_of_inv q hi hc h1 h2 h3
  obtain ⟨e, he, hle⟩ := slash_other q ho c c1 c2 rest
  have n1 : (0 : UInt8) ∉ a ++ 47 :: c :: rest := by simp [na, nr, Ne.symm c0]
  obtain ⟨f2, qf, hlf, hif, _⟩ := loop_ok (a ++ 47 :: c :: rest) init inv_init
  have hlf' := hlf
  simp only [loop_append, ha, hle] at hlf'
  have hfe : qf.state = .ERR := loop_err rest e f2 qf he hlf'
  have e1 : parse init (a ++ 47 :: c :: rest) = some qf := by
    simp only [parse, show init.state ≠ .ERR by decide, if_false, cstr_of_nonul _ n1, hlf]
    rfl
  have e2 : parse qf [32] = some qf := by simp [parse, hfe]
  have e3 : value qf = none := by simp [value, hfe]
  simp [decode, decodeFrom, e1, e2, e3]

example : decode [91, 49, 47, 50, 93] = some none := by rfl                                         -- [1/2]

/-- texts related by removing comments one at a time (each one of the grammar, at a position outside strings,
    in any order - the prefix before the removed comment may itself still hold comments) -/
inductive StripsTo : Bytes → Bytes → Prop
  | refl (t : Bytes) : StripsTo t t
  | block (a b rest t : Bytes) (q : PState) : loop init a = some (false, q) → q.inComment = false →
      q.state ≠ .STRING → q.state ≠ .QPROPERTY → q.state ≠ .ESCAPE → AslProofs.XdlCmt.BlockBody b →
      (0 : UInt8) ∉ a → (0 : UInt8) ∉ b → (0 : UInt8) ∉ rest →
      StripsTo (a ++ rest) t → StripsTo (a ++ 47 :: 42 :: (b ++ 42 :: 47 :: rest)) t
  | line (a b rest t : Bytes) (nl : UInt8) (q : PState) : loop init a = some (false, q) → q.inComment = false →
      q.state ≠ .STRING → q.state ≠ .QPROPERTY → q.state ≠ .ESCAPE → AslProofs.XdlCmt.LineBody b → (nl = 10 ∨ nl = 13) →
      (0 : UInt8) ∉ a → (0 : UInt8) ∉ b → (0 : UInt8) ∉ rest →
      StripsTo (a ++ nl :: rest) t → StripsTo (a ++ 47 :: 47 :: (b ++ nl :: rest)) t

/-- any number of comments: the commented text decodes like the stripped one; with `rfc_accept`, a JSON document
    with comments of the grammar between its tokens yields the value of the document -/
theorem comments_transparent (w t : Bytes) (h : StripsTo w t) : decode w = decode t := by
  induction h with
  | refl => rfl
  | block a b rest t q ha hc h1 h2 h3 hb na nb nr _ ih =>
    rw [block_comment_transparent a b rest q ha hc h1 h2 h3 hb na nb nr, ih]
  | line a b rest t nl q ha hc h1 h2 h3 hb hnl na nb nr _ ih =>
    rw [line_comment_transparent a b rest nl q ha hc h1 h2 h3 hb hnl na nb nr, ih]

/-- non-vacuity: `[1/*x*/,//y` LF `2]` strips to `[1,` LF `2]` (two steps) -/
example : StripsTo [91, 49, 47, 42, 120, 42, 47, 44, 47, 47, 121, 10, 50, 93] [91, 49, 44, 10, 50, 93] :=
  .block [91, 49] [120] [44, 47, 47, 121, 10, 50, 93] _ _ rfl rfl (by decide) (by decide) (by decide)
    (.other 120 _ (by decide) .nil) (by decide) (by decide) (by decide)
    (.line [91, 49, 44] [121] [50, 93] _ 10 _ rfl rfl (by decide) (by decide) (by decide)
      (by intro c h; simp at h; subst h; decide) (Or.inl rfl) (by decide) (by decide) (by decide) (.refl _))
example : decode [91, 49, 93, 47, 42, 42] = some none := by rfl                                     -- [1]/**

/-- non-vacuity: ` * x ** ` is a comment body (a `*` followed by a blank, and `**`), `x` is a line body; the
    hypotheses of the two theorems hold after `[1` (state INT) -/
example : AslProofs.XdlCmt.BlockBody [32, 42, 32, 120, 32, 42, 42, 32] :=
  .other 32 _ (by decide) (.star 32 _ (by decide) (.other 120 _ (by decide) (.other 32 _ (by decide)
    (.star 42 _ (by decide) (.other 32 _ (by decide) .nil)))))
example : ∃ q, loop init [91, 49] = some (false, q) ∧ q.inComment = false ∧ q.state = .INT := ⟨_, rfl, rfl, rfl⟩
example : AslProofs.XdlCmt.LineBody [120] := by intro c h; simp at h; subst h; decide
/-- the decoder really reads comments, and `/***/` is an unterminated comment for it while `/**/` is closed -/
example : decode [91, 49, 47, 42, 120, 42, 47, 93] = some (some (.arr [.int 1])) := by rfl        -- [1/*x*/]
example : decode [91, 49, 93, 47, 42, 42, 47] = some (some (.arr [.int 1])) := by rfl             -- [1]/**/
example : decode [91, 49, 93, 47, 42, 42, 42, 47] = some none := by rfl                           -- [1]/***/
example : decode [91, 49, 47, 47, 120, 10, 93] = some (some (.arr [.int 1])) := by rfl            -- [1//x\n]

/-! ## prefix rejection -/

/-- a text that stops anywhere before the final closing byte of a top-level array, object or string
    (nesting ≤ 1000 = XDL_MAX_DEPTH), after any leading white space, is rejected — whatever state the cut
    leaves the machine in (inside a number, a string, a `\\u` escape, a nested container, between tokens …) -/
theorem prefix_reject (v : JV) (a x p s : Bytes) (ha : Rfc8259.Ws a) (hx : Rfc8259.SerV v x)
    (hv : (∃ l, v = .arr l) ∨ (∃ ms, v = .obj ms) ∨ (∃ t, v = .str t)) (hd : Rfc8259.depth v ≤ 1000)
    (heq : a ++ x = p ++ s) (hs : s ≠ []) : decode p = some none := by
  rcases hv with ⟨l, rfl⟩ | ⟨ms, rfl⟩ | ⟨t, rfl⟩
  · exact AslProofs.XdlPrefix.prefix_array l a x p s ha hx hd heq hs
  · exact AslProofs.XdlPrefix.prefix_object ms a x p s ha hx hd heq hs
  · exact AslProofs.XdlPrefix.prefix_string t a x p s ha hx heq hs

/-- the frame property behind it: adding contexts below the stack does not change a run that does not fault -/
theorem frame (E : List Ctx) (cs : Bytes) (p : PState) (b : Bool) (q : PState) (h : loop p cs = some (b, q)) :
    loop { p with ctx := p.ctx ++ E } cs = some (b, { q with ctx := q.ctx ++ E }) :=
  AslProofs.XdlFrame.loop_ext E cs p b q h

/-! ## non-vacuity: the model decodes, rejects, and depends on its input -/

example : decode [91, 49, 44, 34, 97, 34, 93] = some (some (.arr [.int 1, .str [97]])) := by rfl  -- [1,"a"]
example : decode [91, 49, 44] = some none := by rfl                                              -- [1,
example : ∃ q, parseChunks init [[91, 49], [44, 50, 93]] = some q ∧ value q = some (.arr [.int 1, .int 2]) :=
  ⟨_, rfl, by rfl⟩

end C06
