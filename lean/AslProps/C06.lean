import AslModel.Xdl
import AslProofs.Xdl
import AslProofs.XdlChunks
/-!
# C06 — JSON/XDL decoding is total, memory-safe and chunk-independent (JSON conformance: see below)

Property theorems only.  All statements are about `AslModel.Xdl` (the transcription of `XdlParser` that
the driver `asl_c06` runs against the real library on every check).  In the model `none` means "the code
would call `top()`/`pop()` on an empty `Stack`, index a `String` past its terminator, or re-read the
same byte for ever"; a chunk is a C string (it ends at its first NUL).
-/
namespace C06
open AslModel.Xdl AslProofs.Xdl

/-! ## totality and memory safety on every byte string, fed in any chunks -/

/-- the parser never underflows a stack / over-indexes a buffer / loops, whatever bytes arrive in
    whatever chunks; and the invariant that guarantees it holds afterwards -/
theorem parse_safe (chunks : List Bytes) : ∃ q, parseChunks init chunks = some q ∧ Inv q :=
  parseChunks_ok chunks init inv_init

/-- in every state reachable by feeding any chunks, consuming one more byte is safe and dispatches it
    at most twice (one push-back); a `return` only happens in state ERR -/
theorem step_safe (chunks : List Bytes) (q : PState) (h : parseChunks init chunks = some q) (c : UInt8) :
    ∃ b q', stepByte q c = some (b, q') ∧ (b = true → q'.state = .ERR) := by
  obtain ⟨q0, h0, hi⟩ := parse_safe chunks
  rw [h] at h0
  cases h0
  obtain ⟨b, q', hs, _, he⟩ := stepByte_ok q c hi
  exact ⟨b, q', hs, he⟩

/-- `Json::decode` / `Xdl::decode` terminate on every byte string with either an invalid Var or a value -/
theorem decode_total (text : Bytes) : ∃ r : Option JV, decode text = some r := by
  obtain ⟨p1, h1, i1⟩ := parse_ok init text inv_init
  obtain ⟨p2, h2, _⟩ := parse_ok p1 [32] i1
  exact ⟨value p2, by simp [decode, decodeFrom, h1, h2]⟩

/-- the stacks `value()` reads are never empty: `_lists[0]` is the root array, `_context.top()` exists -/
theorem value_reads_in_bounds (chunks : List Bytes) (q : PState) (h : parseChunks init chunks = some q) :
    q.ctx ≠ [] ∧ (q.state ≠ .ERR → ∃ rev, q.lists.getLast? = some (.arr rev)) := by
  obtain ⟨q0, h0, hi⟩ := parse_safe chunks
  rw [h] at h0
  cases h0
  obtain ⟨base, hc, hb, hg⟩ := hi
  constructor
  · rcases hc with ⟨_, hc⟩ | ⟨_, hc | hc | hc | hc⟩ <;> simp [hc]
    intro hbase
    simp [hbase, BaseOK] at hb
  · intro hne
    exact shape_last _ _ (hg hne).shape

/-! ## chunk independence, for every partition of a NUL-free text -/

/-- feeding the chunks one by one and then flushing gives exactly `decode` of the whole text -/
theorem chunk_indep (chunks : List Bytes) (hn : ∀ c ∈ chunks, (0 : UInt8) ∉ c) :
    ((parseChunks init chunks).bind fun p => (parse p [32]).map value) = decode chunks.flatten := by
  obtain ⟨x, y, hx, hy, hix, hiy, hr⟩ := chunks_R chunks hn init init (R.refl _) inv_init inv_init
  obtain ⟨x', y', hx', hy', _, _, hr'⟩ := parse_R [32] hr hix hiy
  simp [decode, decodeFrom, hx, hy, hx', hy', value_R hr']

/-- also the observable after any number of chunks without the flush (`value()` polled between chunks) -/
theorem chunk_indep_poll (chunks : List Bytes) (hn : ∀ c ∈ chunks, (0 : UInt8) ∉ c) :
    (parseChunks init chunks).map value = (parse init chunks.flatten).map value := by
  obtain ⟨x, y, hx, hy, _, _, hr⟩ := chunks_R chunks hn init init (R.refl _) inv_init inv_init
  simp [hx, hy, value_R hr]

/-- a text with NUL bytes is read as a C string: only the part before the first NUL is decoded -/
theorem decode_stops_at_nul (a b : Bytes) (ha : (0 : UInt8) ∉ a) : decode (a ++ 0 :: b) = decode a := by
  have h1 : cstr (a ++ 0 :: b) = a := by
    unfold cstr
    induction a with
    | nil => simp
    | cons x t ih =>
      have hx : x ≠ 0 := fun h0 => ha (by simp [h0])
      have ht : (0 : UInt8) ∉ t := fun h0 => ha (by simp [h0])
      simp [hx]
      simpa using ih ht
  simp [decode, decodeFrom, parse, h1, cstr_of_nonul a ha]

/-! ## non-vacuity: the model decodes, rejects, and depends on its input -/

example : decode [91, 49, 44, 34, 97, 34, 93] = some (some (.arr [.int 1, .str [97]])) := by rfl  -- [1,"a"]
example : decode [91, 49, 44] = some none := by rfl                                              -- [1,
example : ∃ q, parseChunks init [[91, 49], [44, 50, 93]] = some q ∧ value q = some (.arr [.int 1, .int 2]) :=
  ⟨_, rfl, by rfl⟩

end C06
