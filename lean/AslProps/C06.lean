import AslModel.Xdl
/-! # C06 — placeholder while the theorems are being written -/
namespace C06
open AslModel.Xdl

theorem init_value : value init = none := by decide

end C06
