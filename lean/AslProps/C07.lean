import AslModel.Xml
import AslProofs.Xml
import AslProofs.XmlRt
import AslProofs.XmlIds
import AslProofs.XmlNorm
import AslProofs.XmlOwn
import AslProps.C07Spec
/-!
# C07 — XML decoding is total and safe; encode then decode preserves the tree

Property theorems only (specification vocabulary: `AslProps/C07Spec.lean`; helper lemmas:
`AslProofs/Xml*.lean`).  `AslModel.Xml.decode` is the
transcription of `Xml::decode` that the model driver runs against the real library on every check;
stack accesses are `Option`-valued there and a `none` surfaces as `Result.fault`.
Termination: `run` is structural recursion over the input bytes (one `step` per byte, as the C++
`while (char c = *p++)`).
-/
namespace C07
open AslModel.Xml AslProofs.Xml

/-! ## decoding is safe on every byte string -/

/-- no input makes the decoder pop the seeded root or read `top()` of an empty stack -/
theorem xml_decode_safe (x : Bytes) : decode x ≠ .fault := decode_no_fault x

/-- every byte string yields a null element or a node (totality of the outcome) -/
theorem xml_decode_total (x : Bytes) : (∃ n, decode x = .node n) ∨ decode x = .null := by
  cases h : decode x with
  | node n => exact Or.inl ⟨n, rfl⟩
  | null => exact Or.inr rfl
  | fault => exact absurd h (xml_decode_safe x)

/-- the end-tag guard of commit 836cb23 is what makes `xml_decode_safe` true: the code before the
    repair (`guard = false`) faults on `</>` (witness replayed from `corpus/C07/fixed.ops`) -/
theorem xml_close_underflow_counterexample : ¬ (∀ x, isFault (decodeG false x) = false) := by
  intro h
  have := h [60, 47, 62]
  rw [unguarded_faults] at this
  exact absurd this (by decide)

/-- `utf32toUtf8(wch, bytes, 1)` stores at most 4 bytes + terminator into `char bytes[5]`, for every `int` -/
theorem ref_buffer_fits (code : Int) : (utf8Bytes code).length + 1 ≤ 5 := by
  unfold utf8Bytes
  split
  · simp
  · split
    · simp
    · simp only
      split
      · simp
      · split <;> simp

/-! ## parent links -/

/-- in every tree returned by `decode`, each child's parent pointer is the identity of the
    element that contains it (for every element at any depth) -/
theorem xml_parent_links (x : Bytes) (n : Node) (h : decode x = .node n) :
    ∀ e, Within e n → ∀ c ∈ children e, c.parent = some e.id := by
  intro e he c hc
  have := within_links he (decode_links true x n h)
  cases e with
  | text => simp [children] at hc
  | elem id p t a cs =>
    simp only [children] at hc
    simp only [linksOK] at this
    exact (kidsOK_mem id cs this c hc).1

/-- the returned element itself has no parent: `parent()` of the result is a null object, as `Xml.h`
    documents for a root (before commit 5247de7 it pointed at the destroyed anonymous root) -/
theorem xml_root_parent_null (x : Bytes) (n : Node) (h : decode x = .node n) : n.parent = none :=
  decode_root_parent true x n h

/-- DEFINITIONAL first conjunct: `survivor c` is *defined* as `c.clearParent` — that `~_Xml` performs this
    clearing (commit c581d77) is a postulate of the model, observed by the K ops `sub` / `desc` under ASan only
    (the model has no heap, reference count or destructor). CONTENT: the second conjunct (links below `c` hold).
    A node `c` of a returned tree to which a handle is kept while the tree itself is released (`survivor`:
    `~_Xml` of its container clears the raw parent pointer, commit c581d77 — before it `c.parent()` read
    freed memory) has a null parent, and every parent link below it still holds -/
theorem xml_survivor_links (x : Bytes) (n c : Node) (h : decode x = .node n) (hc : c ∈ preorder n) :
    (survivor c).parent = none ∧
      ∀ e, Within e (survivor c) → ∀ d ∈ children e, d.parent = some e.id := by
  refine ⟨parent_clearParent c, links_of_linksOK ?_⟩
  rw [linksOK_survivor]
  exact within_links (mem_preorder_within n c hc) (decode_links true x n h)

/-- walking down the first-child chain of a returned tree by assigning to the only handle
    (`e = e.child(0)`, safe since `NodeBase::operator=` acquires before it releases, commit e5e901a) ends on a
    node of that tree; what the handle then shows has a null parent and intact links below it -/
theorem xml_descend_links (x : Bytes) (n : Node) (h : decode x = .node n) :
    descend n ∈ preorder n ∧ (survivor (descend n)).parent = none ∧
      ∀ e, Within e (survivor (descend n)) → ∀ d ∈ children e, d.parent = some e.id :=
  ⟨descend_mem_preorder n, xml_survivor_links x n (descend n) h (descend_mem_preorder n)⟩

/-- a child `c` of any element `e` of a returned tree that is taken out of `e` by a mutator that orphans
    (`remove(int)`, `remove(const Xml&)`, `clear()`, `put(value)`; commit dcdfbd7).
    DEFINITIONAL PART (no content beyond the model's postulate `Mutator.orphans`, tied to the code by the K op
    `mut` only): the first two conjuncts, null parent at once and after everything else is released.
    CONTENT: the third conjunct, every parent link below the detached child still holds (from `decode_links`).
    Audit suggestion kept: model handles with reference counts and `~_Xml`'s release loop (cf. `AslModel/RcNest.lean`)
    and prove "after any sequence of handle drops and mutators every live node's parent is null or a live node". -/
theorem xml_detached_child_links (m : Mutator) (hm : m.orphans = true) (x : Bytes) (n e c : Node)
    (h : decode x = .node n) (he : e ∈ preorder n) (hc : c ∈ children e) :
    (detachedBy m c).parent = none ∧ parentAfterRelease m c = .null ∧
      ∀ e', Within e' (detachedBy m c) → ∀ d ∈ children e', d.parent = some e'.id := by
  have hd : detachedBy m c = c.clearParent := by simp [detachedBy, hm]
  refine ⟨by rw [hd]; exact parent_clearParent c, by simp [parentAfterRelease, hd, parent_clearParent], ?_⟩
  rw [hd]
  refine links_of_linksOK ?_
  have hw : Within c n := Within.child (mem_preorder_within n e he) hc
  rw [linksOK_clearParent]
  exact within_links hw (decode_links true x n h)

/-- KNOWN FINDING `raw-children-array`, stated on the model: a child of an element `e` of a returned tree that
    leaves `e` through the array handed out by the non-const `children()` (`children().remove(i)`, `.clear()`,
    `.resize(0)`, `children()[i] = x`: no code of `Xml` runs) keeps `e`'s address; once `e` is destroyed the
    pointer dangles and `parent()` reads freed memory (replayed by the KNOWN probe of the plugin).
    Uses `xml_parent_links` (the child did point at `e`); that the raw operations orphan nothing is the model's
    postulate `Mutator.orphans`, observed by the probe. -/
theorem xml_raw_children_array_dangles (m : Mutator) (hm : m.orphans = false) (x : Bytes) (n e c : Node)
    (h : decode x = .node n) (he : e ∈ preorder n) (hc : c ∈ children e) :
    parentAfterRelease m c = .dangling e.id := by
  have hp : c.parent = some e.id := xml_parent_links x n h e (mem_preorder_within n e he) c hc
  simp [parentAfterRelease, detachedBy, hm, hp]

/-- the identities of the nodes of a returned tree (`ids`: the node, then its descendants in document
    order) are pairwise distinct — so "parent = identity of the container" in `xml_parent_links` names
    exactly one node of the tree -/
theorem xml_node_ids_unique (x : Bytes) (n : Node) (h : decode x = .node n) : (ids n).Nodup :=
  decode_ids true x n h

/-- the hypotheses are satisfiable: `<a><b/>t</a>` decodes to an element with two children -/
example : ∃ n, decode [60, 97, 62, 60, 98, 47, 62, 116, 60, 47, 97, 62] = .node n ∧ (children n).length = 2 := by
  refine ⟨_, rfl, ?_⟩
  decide

/-! ## ownership: handles, reference counts, `~_Xml` (model `AslModel/XmlOwn.lean`, K op `own`)

Nodes with a stored count, an owning child array and a raw parent pointer; histories of the public mutators
(`Xml(tag)`, `<<`, `remove(int)`, `clear()`, `child(i)`, `parent()`, handle assignment and destruction) over four
handle variables.  `~_Xml` and `orphan()` are transcribed (not postulated as in `survivor` / `detachedBy` above). -/

/-- after ANY history of mutators and handle drops, a non-null raw `parent` pointer of any node designates a node that
    is allocated, NOT destroyed, and has the pointing node in its child array: `parent()` never reads freed memory
    and "every child's parent() is the element that contains it" survives mutation, sharing of a child between two
    elements and release of containers in any order -/
theorem xml_parent_never_dangles (ops : List AslModel.XmlOwn.Op) (c p : Nat)
    (h : ((AslModel.XmlOwn.run .init ops).node c).parent = some p) :
    ((AslModel.XmlOwn.run .init ops).node p).live = true ∧ c ∈ ((AslModel.XmlOwn.run .init ops).node p).kids ∧
      p < (AslModel.XmlOwn.run .init ops).next :=
  AslProofs.XmlOwn.parentsOK_run ops _ AslProofs.XmlOwn.parentsOK_init c p h

/-- the same read through a handle variable: `w.parent()` of a held node is a null object or a live element `p`
    with `w` among `p`'s children -/
theorem xml_handle_parent_live (ops : List AslModel.XmlOwn.Op) (v n p : Nat)
    (_hv : (AslModel.XmlOwn.run .init ops).var v = some n)
    (h : ((AslModel.XmlOwn.run .init ops).node n).parent = some p) :
    ((AslModel.XmlOwn.run .init ops).node p).live = true ∧ n ∈ ((AslModel.XmlOwn.run .init ops).node p).kids :=
  let r := xml_parent_never_dangles ops n p h
  ⟨r.1, r.2.1⟩

/-- NOT PROVED (computed by the driver after every op of every `own` history and compared with what ASan/LSan see on
    the code): no history uses a dead node or lowers a zero count, and every live node's stored count is the number of
    handle variables holding it plus the number of slots of live child arrays holding it -/
def ownership_counts_full : Prop :=
  ∀ ops : List AslModel.XmlOwn.Op, (AslModel.XmlOwn.run .init ops).fault = false ∧
    AslModel.XmlOwn.countsOK (AslModel.XmlOwn.run .init ops) = true

/-- PROVED PART of `ownership_counts_full`: after any history a node is destroyed only with its count at zero, never
    gets a count again (no resurrection through `<<`, `child`, `parent()` or a handle copy), and owns nothing (its child
    array was released by `~_Xml`): the "freed while still counted" and "freed node still owning" halves of the counting
    argument; that the count EQUALS the number of owners is the part that stays in `ownership_counts_full` -/
theorem ownership_counts_partial (ops : List AslModel.XmlOwn.Op) (n : Nat)
    (h : ((AslModel.XmlOwn.run .init ops).node n).live = false) :
    ((AslModel.XmlOwn.run .init ops).node n).rc = 0 ∧ ((AslModel.XmlOwn.run .init ops).node n).kids = [] :=
  AslProofs.XmlOwn.deadOK_run ops _ AslProofs.XmlOwn.deadOK_init n h

/-- non-vacuity: an allocated node that was destroyed (`a` with child `b`, last handle of `a` dropped) -/
example : ((AslModel.XmlOwn.run .init [.new 0, .new 1, .append 0 1, .drop 0]).node 0).live = false ∧
    0 < (AslModel.XmlOwn.run .init [.new 0, .new 1, .append 0 1, .drop 0]).next := by decide

/-- non-vacuity: `a << b` gives `b` a non-null parent (hypothesis satisfiable) ... -/
example : ((AslModel.XmlOwn.run .init [.new 0, .new 1, .append 0 1]).node 1).parent = some 0 ∧
    (AslModel.XmlOwn.run .init [.new 0, .new 1, .append 0 1]).var 1 = some 1 := by decide

/-- ... and destroying the only handle of `a` runs `~_Xml`: `a` is dead, `b` survives with a null parent, no fault -/
example : let h := AslModel.XmlOwn.run .init [.new 0, .new 1, .append 0 1, .drop 0]
    (h.node 0).live = false ∧ (h.node 1).live = true ∧ (h.node 1).parent = none ∧ (h.node 1).rc = 1 ∧ h.fault = false := by
  decide

/-! ## encode then decode

`NameOK` (well-formed tag / attribute name) is the decoder's own test: non-empty, first byte not in its
`TAG_START` error class, the others not in its `TAG` error class.  `ValidTree`: names `NameOK`,
attribute lists as a `Map` holds them (strictly increasing keys), values and text without NUL. -/

/-- "well-formed tag and attribute names": every XML 1.0 `Name` (as UTF-8 bytes) passes the decoder's own
    name tests, so the round-trip theorems below cover all trees with well-formed names -/
theorem xml_names_accepted (n : Bytes) (h : XmlName n) : NameOK n := nameOK_of_xmlName n h

/-- non-vacuity: `x:é-1` (UTF-8) is an XML name -/
example : XmlName [120, 58, 195, 169, 45, 49] := by
  simp [XmlName, xmlNameStartByte, xmlNameByte]

/-- reference expansion inverts `escape`: reading `escape v` in text or inside a double-quoted
    attribute value appends exactly `v` to the buffer and changes nothing else, for every NUL-free `v`
    (including `& < > ' "` and bytes ≥ 0x80) -/
theorem escape_unescape (v : Bytes) (hv : NulFree v) (c : Cfg) (hc : TextLike c) :
    ∃ c', feed true c (escape v) = .cont c' ∧ c'.b = c.b ++ v ∧ c'.st = c.st ∧ c'.last = c.last ∧
      c'.stack = c.stack ∧ c'.next = c.next := by
  obtain ⟨c', h, u⟩ := feed_escape true v c hc hv
  exact ⟨c', h, u.b, u.st, u.last, u.stack, u.next⟩

/-- decoding the compact output of `Xml::encode` yields a tree with the same tags, attributes, child
    order and text, up to the merging of adjacent text nodes and the dropping of whitespace-only text:
    for every valid element tree (any depth, any fan-out) -/
theorem xml_roundtrip_compact (tag : Bytes) (attrs : List (Bytes × Bytes)) (cs : List Tree)
    (h : ValidTree (.elem tag attrs cs)) :
    ∃ n, decode (encode false (.elem tag attrs cs)) = .node n ∧ n.erase = normalize (.elem tag attrs cs) := by
  obtain ⟨n, h1, h2⟩ := decode_encode_compact tag attrs cs h
  exact ⟨n, h1, by rw [h2, normOp_eq_normalize]⟩

/-- the same for the indented output whenever text occurs only as the sole child of its element -/
theorem xml_roundtrip_indented (tag : Bytes) (attrs : List (Bytes × Bytes)) (cs : List Tree)
    (h : ValidTree (.elem tag attrs cs)) (hs : SoleText (.elem tag attrs cs)) :
    ∃ n, decode (encode true (.elem tag attrs cs)) = .node n ∧ n.erase = normalize (.elem tag attrs cs) := by
  obtain ⟨n, h1, h2⟩ := decode_encode_indented tag attrs cs h hs
  exact ⟨n, h1, by rw [h2, normOp_eq_normalize]⟩

/-- `text()` of a decoded result is a function of the tree without identities, so the two round-trip
    theorems also fix it: `text()` of `decode(encode(t))` is the text at the end of the first-child chain of
    `normalize t` (the model's `textOf` is the iterative walk of `_Xml::text()` after commit f16a8e9; the
    walk's call-stack use on deep chains is observed by K: `deep 300000 3`) -/
theorem xml_text_roundtrip (fmt : Bool) (tag : Bytes) (attrs : List (Bytes × Bytes)) (cs : List Tree)
    (h : ValidTree (.elem tag attrs cs)) (hs : fmt = true → SoleText (.elem tag attrs cs)) :
    ∃ n, decode (encode fmt (.elem tag attrs cs)) = .node n ∧ n.textOf = (normalize (.elem tag attrs cs)).textOf := by
  cases fmt with
  | false =>
    obtain ⟨n, h1, h2⟩ := xml_roundtrip_compact tag attrs cs h
    exact ⟨n, h1, by rw [textOf_erase, h2]⟩
  | true =>
    obtain ⟨n, h1, h2⟩ := xml_roundtrip_indented tag attrs cs h (hs rfl)
    exact ⟨n, h1, by rw [textOf_erase, h2]⟩

/-- non-vacuity: `<a b="&lt;&amp;"> h<c/></a>`-like tree with adjacent and blank text is valid -/
example : ValidTree (.elem [97] [([98], [60, 38]), ([99, 58], [])] [.text [32], .text [104, 38], .text [], .elem [99] [] [], .text [10]]) := by
  simp [ValidTree, ValidList, NameOK, AttrsOK, NulFree, nameStartBad, nameCharBad, bytesLt]

/-- non-vacuity of the indented hypothesis: nested elements, a sole text child, an empty element -/
example : SoleText (.elem [97] [] [.elem [98] [] [.text [104]], .elem [99] [] []]) := by
  simp [SoleText, SoleTextL, soleKids, Tree.isText]

end C07
