import AslModel.Xml
import AslProofs.Xml
import AslProofs.XmlRt
import AslProofs.XmlIds
/-!
# C07 — XML decoding is total and safe; encode then decode preserves the tree

Property theorems only (helper lemmas: `AslProofs/Xml.lean`).  `AslModel.Xml.decode` is the
transcription of `Xml::decode` that the model driver runs against the real library on every check;
stack accesses are `Option`-valued there and a `none` surfaces as `Result.fault`.
Termination: `run` is structural recursion over the input bytes (one `step` per byte, as the C++
`while (char c = *p++)`).
-/
namespace C07
open AslModel.Xml AslProofs.Xml

/-! ## decoding is safe on every byte string -/

/-- no input makes the decoder pop the seeded root or read `top()` of an empty stack -/
theorem xml_decode_safe (x : Bytes) : decode x ≠ .fault := decode_no_fault x

/-- every byte string yields a null element or a node (totality of the outcome) -/
theorem xml_decode_total (x : Bytes) : (∃ n, decode x = .node n) ∨ decode x = .null := by
  cases h : decode x with
  | node n => exact Or.inl ⟨n, rfl⟩
  | null => exact Or.inr rfl
  | fault => exact absurd h (xml_decode_safe x)

/-- the end-tag guard of commit 836cb23 is what makes `xml_decode_safe` true: the code before the
    repair (`guard = false`) faults on `</>` (witness replayed from `corpus/C07/fixed.ops`) -/
theorem xml_close_underflow_counterexample : ¬ (∀ x, isFault (decodeG false x) = false) := by
  intro h
  have := h [60, 47, 62]
  rw [unguarded_faults] at this
  exact absurd this (by decide)

/-- `utf32toUtf8(wch, bytes, 1)` stores at most 4 bytes + terminator into `char bytes[5]`, for every `int` -/
theorem ref_buffer_fits (code : Int) : (utf8Bytes code).length + 1 ≤ 5 := by
  unfold utf8Bytes
  split
  · simp
  · split
    · simp
    · simp only
      split
      · simp
      · split <;> simp

/-! ## parent links -/

/-- children of a node as the public API shows them -/
def children : Node → List Node
  | .elem _ _ _ _ cs => cs
  | .text .. => []

/-- `Within e n`: `e` is `n` or a descendant of `n` -/
inductive Within : Node → Node → Prop
  | self (n : Node) : Within n n
  | child {e c n : Node} : Within e n → c ∈ children e → Within c n

theorem within_links {e n : Node} (he : Within e n) (hn : linksOK n = true) : linksOK e = true := by
  induction he with
  | self => exact hn
  | @child e' c' n' _ hc ih =>
    have h1 := ih hn
    cases e' with
    | text => simp [children] at hc
    | elem id p t a cs =>
      simp only [children] at hc
      simp only [linksOK] at h1
      exact (kidsOK_mem id cs h1 _ hc).2

/-- in every tree returned by `decode`, each child's parent pointer is the identity of the
    element that contains it (for every element at any depth) -/
theorem xml_parent_links (x : Bytes) (n : Node) (h : decode x = .node n) :
    ∀ e, Within e n → ∀ c ∈ children e, c.parent = some e.id := by
  intro e he c hc
  have := within_links he (decode_links true x n h)
  cases e with
  | text => simp [children] at hc
  | elem id p t a cs =>
    simp only [children] at hc
    simp only [linksOK] at this
    exact (kidsOK_mem id cs this c hc).1

/-- the identities of the nodes of a returned tree (`ids`: the node, then its descendants in document
    order) are pairwise distinct — so "parent = identity of the container" in `xml_parent_links` names
    exactly one node of the tree -/
theorem xml_node_ids_unique (x : Bytes) (n : Node) (h : decode x = .node n) : (ids n).Nodup :=
  decode_ids true x n h

/-- the hypotheses are satisfiable: `<a><b/>t</a>` decodes to an element with two children -/
example : ∃ n, decode [60, 97, 62, 60, 98, 47, 62, 116, 60, 47, 97, 62] = .node n ∧ (children n).length = 2 := by
  refine ⟨_, rfl, ?_⟩
  decide

/-! ## specification of the promised normalisation -/

/-- "whitespace-only" (space, tab, CR, LF), also true of the empty text -/
def isBlank (s : Bytes) : Bool := s.all fun c => c == 32 || c == 9 || c == 13 || c == 10

/-- merge adjacent text nodes -/
def mergeText : List Tree → List Tree
  | [] => []
  | .text a :: r =>
    match mergeText r with
    | .text b :: r' => .text (a ++ b) :: r'
    | r' => .text a :: r'
  | .elem tag attrs cs :: r => .elem tag attrs cs :: mergeText r

def keep : Tree → Bool
  | .text s => !isBlank s
  | .elem .. => true

mutual
/-- same tags, attributes, child order and text, up to merging adjacent text nodes and dropping blank text -/
def normalize : Tree → Tree
  | .text s => .text s
  | .elem tag attrs cs => .elem tag attrs ((mergeText (normalizeList cs)).filter keep)
def normalizeList : List Tree → List Tree
  | [] => []
  | t :: r => normalize t :: normalizeList r
end

theorem mergeText_text_text (a b : Bytes) (l : List Tree) :
    mergeText (.text a :: .text b :: l) = mergeText (.text (a ++ b) :: l) := by
  simp only [mergeText]
  cases h : mergeText l with
  | nil => simp
  | cons x r' => cases x <;> simp

theorem filter_mergeText_nil (l : List Tree) :
    (mergeText (.text [] :: l)).filter keep = (mergeText l).filter keep := by
  simp only [mergeText]
  cases h : mergeText l with
  | nil => simp [keep, isBlank]
  | cons x r' => cases x <;> simp [keep, isBlank]

theorem any_not_ws (w : Bytes) : (w.any fun x => !isWs x) = !isBlank w := by
  induction w with
  | nil => rfl
  | cons a t ih => simp [isBlank, isWs] at ih ⊢; rw [ih]

theorem flushK_spec (ks : List Tree) (w : Bytes) : flushK ks w = ks ++ [Tree.text w].filter keep := by
  unfold flushK
  rw [any_not_ws]
  cases h : isBlank w <;> simp [keep, h]

mutual
theorem normOp_eq_normalize : ∀ t : Tree, normOp t = normalize t
  | .text s => by simp [normOp, normalize]
  | .elem tag attrs cs => by
    have := absorb_spec cs [] []
    simp only [normOp, normalize, this, List.nil_append, filter_mergeText_nil]
theorem absorb_spec : ∀ (cs : List Tree) (w : Bytes) (ks : List Tree),
    flushK (absorbL cs w ks).2 (absorbL cs w ks).1 = ks ++ (mergeText (.text w :: normalizeList cs)).filter keep
  | [], w, ks => by simp [absorbL, normalizeList, mergeText, flushK_spec]
  | .text s :: r, w, ks => by
    have := absorb_spec r (w ++ s) ks
    simp only [absorbL, normalizeList, normalize, mergeText_text_text, this]
  | .elem tag attrs cs :: r, w, ks => by
    have h1 := absorb_spec r [] (flushK ks w ++ [normOp (.elem tag attrs cs)])
    have h2 := normOp_eq_normalize (.elem tag attrs cs)
    simp only [absorbL]
    rw [h1, filter_mergeText_nil, h2, flushK_spec]
    simp only [normalizeList, normalize, mergeText]
    cases hk : keep (.text w) <;> simp [List.filter_cons, hk] <;> simp [keep]
end


/-! ## encode then decode

`NameOK` (well-formed tag / attribute name) is the decoder's own test: non-empty, first byte not in its
`TAG_START` error class, the others not in its `TAG` error class.  `ValidTree`: names `NameOK`,
attribute lists as a `Map` holds them (strictly increasing keys), values and text without NUL. -/

/-- reference expansion inverts `escape`: reading `escape v` in text or inside a double-quoted
    attribute value appends exactly `v` to the buffer and changes nothing else, for every NUL-free `v`
    (including `& < > ' "` and bytes ≥ 0x80) -/
theorem escape_unescape (v : Bytes) (hv : NulFree v) (c : Cfg) (hc : TextLike c) :
    ∃ c', feed true c (escape v) = .cont c' ∧ c'.b = c.b ++ v ∧ c'.st = c.st ∧ c'.last = c.last ∧
      c'.stack = c.stack ∧ c'.next = c.next := by
  obtain ⟨c', h, u⟩ := feed_escape true v c hc hv
  exact ⟨c', h, u.b, u.st, u.last, u.stack, u.next⟩

/-- decoding the compact output of `Xml::encode` yields a tree with the same tags, attributes, child
    order and text, up to the merging of adjacent text nodes and the dropping of whitespace-only text:
    for every valid element tree (any depth, any fan-out) -/
theorem xml_roundtrip_compact (tag : Bytes) (attrs : List (Bytes × Bytes)) (cs : List Tree)
    (h : ValidTree (.elem tag attrs cs)) :
    ∃ n, decode (encode false (.elem tag attrs cs)) = .node n ∧ n.erase = normalize (.elem tag attrs cs) := by
  obtain ⟨n, h1, h2⟩ := decode_encode_compact tag attrs cs h
  exact ⟨n, h1, by rw [h2, normOp_eq_normalize]⟩

/-- the same for the indented output whenever text occurs only as the sole child of its element -/
theorem xml_roundtrip_indented (tag : Bytes) (attrs : List (Bytes × Bytes)) (cs : List Tree)
    (h : ValidTree (.elem tag attrs cs)) (hs : SoleText (.elem tag attrs cs)) :
    ∃ n, decode (encode true (.elem tag attrs cs)) = .node n ∧ n.erase = normalize (.elem tag attrs cs) := by
  obtain ⟨n, h1, h2⟩ := decode_encode_indented tag attrs cs h hs
  exact ⟨n, h1, by rw [h2, normOp_eq_normalize]⟩

/-- non-vacuity: `<a b="&lt;&amp;"> h<c/></a>`-like tree with adjacent and blank text is valid -/
example : ValidTree (.elem [97] [([98], [60, 38]), ([99, 58], [])] [.text [32], .text [104, 38], .text [], .elem [99] [] [], .text [10]]) := by
  simp [ValidTree, ValidList, NameOK, AttrsOK, NulFree, nameStartBad, nameCharBad, bytesLt]

/-- non-vacuity of the indented hypothesis: nested elements, a sole text child, an empty element -/
example : SoleText (.elem [97] [] [.elem [98] [] [.text [104]], .elem [99] [] []]) := by
  simp [SoleText, SoleTextL, soleKids, Tree.isText]

end C07
