import AslModel.Xml
namespace C07
open AslModel.Xml

theorem placeholder_init_stack : init.stack.length = 1 := rfl

end C07
