import AslModel.Xml
import AslProofs.Xml
/-!
# C07 — XML decoding is total and safe; encode then decode preserves the tree

Property theorems only (helper lemmas: `AslProofs/Xml.lean`).  `AslModel.Xml.decode` is the
transcription of `Xml::decode` that the model driver runs against the real library on every check;
stack accesses are `Option`-valued there and a `none` surfaces as `Result.fault`.
Termination: `run` is structural recursion over the input bytes (one `step` per byte, as the C++
`while (char c = *p++)`).
-/
namespace C07
open AslModel.Xml AslProofs.Xml

/-! ## decoding is safe on every byte string -/

/-- no input makes the decoder pop the seeded root or read `top()` of an empty stack -/
theorem xml_decode_safe (x : Bytes) : decode x ≠ .fault := decode_no_fault x

/-- every byte string yields a null element or a node (totality of the outcome) -/
theorem xml_decode_total (x : Bytes) : (∃ n, decode x = .node n) ∨ decode x = .null := by
  cases h : decode x with
  | node n => exact Or.inl ⟨n, rfl⟩
  | null => exact Or.inr rfl
  | fault => exact absurd h (xml_decode_safe x)

/-- the end-tag guard of commit 836cb23 is what makes `xml_decode_safe` true: the code before the
    repair (`guard = false`) faults on `</>` (witness replayed from `corpus/C07/fixed.ops`) -/
theorem xml_close_underflow_counterexample : ¬ (∀ x, isFault (decodeG false x) = false) := by
  intro h
  have := h [60, 47, 62]
  rw [unguarded_faults] at this
  exact absurd this (by decide)

/-- `utf32toUtf8(wch, bytes, 1)` stores at most 4 bytes + terminator into `char bytes[5]`, for every `int` -/
theorem ref_buffer_fits (code : Int) : (utf8Bytes code).length + 1 ≤ 5 := by
  unfold utf8Bytes
  split
  · simp
  · split
    · simp
    · simp only
      split
      · simp
      · split <;> simp

/-! ## parent links -/

/-- children of a node as the public API shows them -/
def children : Node → List Node
  | .elem _ _ _ _ cs => cs
  | .text .. => []

/-- `Within e n`: `e` is `n` or a descendant of `n` -/
inductive Within : Node → Node → Prop
  | self (n : Node) : Within n n
  | child {e c n : Node} : Within e n → c ∈ children e → Within c n

theorem within_links {e n : Node} (he : Within e n) (hn : linksOK n = true) : linksOK e = true := by
  induction he with
  | self => exact hn
  | @child e' c' n' _ hc ih =>
    have h1 := ih hn
    cases e' with
    | text => simp [children] at hc
    | elem id p t a cs =>
      simp only [children] at hc
      simp only [linksOK] at h1
      exact (kidsOK_mem id cs h1 _ hc).2

/-- in every tree returned by `decode`, each child's parent pointer is the identity of the
    element that contains it (for every element at any depth) -/
theorem xml_parent_links (x : Bytes) (n : Node) (h : decode x = .node n) :
    ∀ e, Within e n → ∀ c ∈ children e, c.parent = some e.id := by
  intro e he c hc
  have := within_links he (decode_links true x n h)
  cases e with
  | text => simp [children] at hc
  | elem id p t a cs =>
    simp only [children] at hc
    simp only [linksOK] at this
    exact (kidsOK_mem id cs this c hc).1

/-- the hypotheses are satisfiable: `<a><b/>t</a>` decodes to an element with two children -/
example : ∃ n, decode [60, 97, 62, 60, 98, 47, 62, 116, 60, 47, 97, 62] = .node n ∧ (children n).length = 2 := by
  refine ⟨_, rfl, ?_⟩
  decide

end C07
