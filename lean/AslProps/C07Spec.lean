import AslModel.Xml
/-!
# C07 — specification vocabulary (definitions only, written from the property text and XML 1.0)

No theorems here.  `AslProofs/XmlNorm.lean` relates these definitions to what the decoder model rebuilds;
`AslProps/C07.lean` states the property clauses with them.
-/
namespace C07
open AslModel.Xml

/-! ## parent links -/

/-- children of a node as the public API shows them -/
def children : Node → List Node
  | .elem _ _ _ _ cs => cs
  | .text .. => []

/-- `Within e n`: `e` is `n` or a descendant of `n` -/
inductive Within : Node → Node → Prop
  | self (n : Node) : Within n n
  | child {e c n : Node} : Within e n → c ∈ children e → Within c n


/-! ## specification of the promised normalisation -/

/-- "whitespace-only" (space, tab, CR, LF), also true of the empty text -/
def isBlank (s : Bytes) : Bool := s.all fun c => c == 32 || c == 9 || c == 13 || c == 10

/-- merge adjacent text nodes -/
def mergeText : List Tree → List Tree
  | [] => []
  | .text a :: r =>
    match mergeText r with
    | .text b :: r' => .text (a ++ b) :: r'
    | r' => .text a :: r'
  | .elem tag attrs cs :: r => .elem tag attrs cs :: mergeText r

def keep : Tree → Bool
  | .text s => !isBlank s
  | .elem .. => true

mutual
/-- same tags, attributes, child order and text, up to merging adjacent text nodes and dropping blank text -/
def normalize : Tree → Tree
  | .text s => .text s
  | .elem tag attrs cs => .elem tag attrs ((mergeText (normalizeList cs)).filter keep)
def normalizeList : List Tree → List Tree
  | [] => []
  | t :: r => normalize t :: normalizeList r
end


/-! ## well-formed names (XML 1.0 §2.3, productions [4], [4a], [5]) seen as UTF-8 bytes

ASCII name-start characters are `:`, `A`–`Z`, `_`, `a`–`z`; ASCII name characters add `-`, `.`, `0`–`9`;
every other allowed character is ≥ U+00B7 and therefore consists of bytes ≥ 0x80 in UTF-8.  `XmlName` accepts
at least every UTF-8 encoded XML 1.0 `Name`. -/

def xmlNameStartByte (c : UInt8) : Bool :=
  c == 58 || (65 ≤ c.toNat && c.toNat ≤ 90) || c == 95 || (97 ≤ c.toNat && c.toNat ≤ 122) || 128 ≤ c.toNat

def xmlNameByte (c : UInt8) : Bool :=
  xmlNameStartByte c || c == 45 || c == 46 || (48 ≤ c.toNat && c.toNat ≤ 57)

def XmlName : Bytes → Prop
  | [] => False
  | c :: r => xmlNameStartByte c = true ∧ ∀ x ∈ r, xmlNameByte x = true

end C07
