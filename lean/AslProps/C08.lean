import AslModel.Utf
import AslProofs.Utf
/-!
# C08 — UTF-8/16/32 conversions are lossless on valid text and safe on any bytes

Property theorems only (helper lemmas: `AslProofs/Utf.lean`; models: `AslModel/Utf.lean`, which the
driver `Driver/C08.lean` runs against the real library on every check).

Specifications are independent of the code: a Unicode scalar value is Lean's `Char`, its UTF-8 form is
Lean core's own encoder `String.utf8EncodeChar` (so `Std.utf8 cs` is the byte content of
`String.ofList cs`), UTF-16 is written from the standard (D91: one unit below 0x10000, otherwise the
surrogate pair of `v - 0x10000`), the C-locale case mapping is the literal `a–z ↔ A–Z` shift.
A reader returning `none` is a read outside the allocation; a result list is what was stored, in order.
-/
namespace C08
open AslModel.Utf AslProofs.Utf Gen.Unicode

/-! ## specifications -/
namespace Std
/-- UTF-8 of a sequence of scalar values (Lean core's encoder) -/
def utf8 (cs : List Char) : List UInt8 := cs.flatMap String.utf8EncodeChar
/-- UTF-16 of one scalar value (Unicode standard §3.9 D91) -/
def utf16Char (v : Nat) : List Nat :=
  if v < 0x10000 then [v] else [(v - 0x10000) / 0x400 + 0xD800, (v - 0x10000) % 0x400 + 0xDC00]
def utf16 (cs : List Char) : List Nat := cs.flatMap fun c => utf16Char c.toNat
/-- the code points -/
def codes (cs : List Char) : List Nat := cs.map Char.toNat
/-- C-locale `toupper`/`tolower` on a byte -/
def toupperC (b : UInt8) : UInt8 := if 97 ≤ b ∧ b ≤ 122 then b - 32 else b
def tolowerC (b : UInt8) : UInt8 := if 65 ≤ b ∧ b ≤ 90 then b + 32 else b
end Std

/-- NUL terminates every C string of the library, so text is a sequence of non-NUL scalar values -/
def NoNul (cs : List Char) : Prop := ∀ c ∈ cs, c.toNat ≠ 0

theorem utf8_is_core_toUTF8 (cs : List Char) : Std.utf8 cs = (String.ofList cs).toUTF8.data.toList := by
  simp [Std.utf8, String.toUTF8, String.toByteArray_ofList, List.utf8Encode]

/-! ## valid text: standard encodings and round trips, for every sequence of scalar values -/

/-- `utf32toUtf8` on the code points of `cs` (terminator, then anything) with a budget that does not
    bind writes exactly the standard UTF-8 -/
theorem utf32toUtf8_std (cs : List Char) (h : NoNul cs) (junk : List Int) (n : Int) (hn : n ≤ 0 ∨ (cs.length : Int) < n) :
    utf32toUtf8 ((Std.codes cs).map Int.ofNat ++ 0 :: junk) n = some (Std.utf8 cs) := by
  induction cs generalizing n with
  | nil => simp [Std.codes, Std.utf8, utf32toUtf8]
  | cons ch t ih =>
    have h0 : ch.toNat ≠ 0 := h ch (by simp)
    have ht : NoNul t := fun c hc => h c (by simp [hc])
    simp only [Std.codes, List.map_cons, List.cons_append, Std.utf8, List.flatMap_cons] at *
    rw [show Int.ofNat ch.toNat = (ch.toNat : Int) from rfl, e32_char ch h0]
    have hne : ¬ (n - 1 = 0) := by simp only [List.length_cons] at hn; omega
    rw [ih ht (n - 1) (by simp only [List.length_cons] at hn; omega)]
    simp [contB, hne]

/-- `String::fromCodes` produces the standard UTF-8 of every sequence of scalar values -/
theorem utf8_std (cs : List Char) (h : NoNul cs) :
    fromCodes ((Std.codes cs).map Int.ofNat) = some (Std.utf8 cs) := by
  unfold fromCodes
  apply utf32toUtf8_std cs h []
  right; simp only [Std.codes, List.length_map]; omega

/-- `String::fromCode` on one scalar value -/
theorem utf8_std_single (c : Char) (h : c.toNat ≠ 0) : fromCode (c.toNat : Int) = some (String.utf8EncodeChar c) := by
  unfold fromCode
  rw [e32_char c h]
  simp [contB]

theorem utf8_length_ge (cs : List Char) (h : NoNul cs) : cs.length ≤ (Std.utf8 cs).length := by
  induction cs with
  | nil => simp [Std.utf8]
  | cons ch t ih =>
    have ht : NoNul t := fun c hc => h c (by simp [hc])
    have := (enc_char ch (h ch (by simp))).length_eq
    simp only [Std.utf8, List.flatMap_cons, List.length_append, List.length_cons] at *
    have := ih ht
    split at * <;> (try split at *) <;> (try split at *) <;> omega

/-- `utf8toUtf32` on standard UTF-8 (terminator, then anything) returns the code points -/
theorem utf8toUtf32_std (cs : List Char) (h : NoNul cs) (junk : List UInt8) (n : Int)
    (hn : n ≤ 0 ∨ (cs.length : Int) ≤ n) :
    utf8toUtf32 (Std.utf8 cs ++ 0 :: junk) n = some (Std.codes cs) := by
  induction cs generalizing n with
  | nil => rw [utf8toUtf32.eq_def]; simp [Std.codes, Std.utf8]
  | cons ch t ih =>
    have h0 : ch.toNat ≠ 0 := h ch (by simp)
    have ht : NoNul t := fun c hc => h c (by simp [hc])
    simp only [Std.codes, List.map_cons, Std.utf8, List.flatMap_cons, List.append_assoc] at *
    rw [d32_enc _ _ (enc_char ch h0)]
    simp only [List.length_cons] at hn
    by_cases hz : n - 1 = 0
    · have : t = [] := by
        cases t with
        | nil => rfl
        | cons a b => simp only [List.length_cons] at hn; omega
      subst this
      simp [contN, hz]
    · rw [ih ht (n - 1) (by omega)]
      simp [contN, hz]

/-- UTF-32 → UTF-8 → UTF-32 is the identity on every sequence of (non-NUL) scalar values:
    `fromCodes(cs).chars() == cs` -/
theorem utf32_utf8_roundtrip (cs : List Char) (h : NoNul cs) :
    (fromCodes ((Std.codes cs).map Int.ofNat)).bind chars = some (Std.codes cs) := by
  rw [utf8_std cs h]
  simp only [Option.bind_some, chars, mem]
  apply utf8toUtf32_std cs h []
  have := utf8_length_ge cs h
  omega

theorem utf16Char_ne_zero (ch : Char) (h0 : ch.toNat ≠ 0) : ∀ u ∈ Std.utf16Char ch.toNat, u ≠ 0 := by
  unfold Std.utf16Char
  split <;> simp <;> omega

/-- `utf8toUtf16` on standard UTF-8 returns the standard UTF-16 (surrogate pairs from 0x10000) -/
theorem utf8toUtf16_std (cs : List Char) (h : NoNul cs) (junk : List UInt8) (n : Int)
    (hn : n ≤ 0 ∨ (cs.length : Int) ≤ n) :
    utf8toUtf16 (Std.utf8 cs ++ 0 :: junk) n = some (Std.utf16 cs) := by
  induction cs generalizing n with
  | nil => rw [utf8toUtf16.eq_def]; simp [Std.utf16, Std.utf8]
  | cons ch t ih =>
    have h0 : ch.toNat ≠ 0 := h ch (by simp)
    have ht : NoNul t := fun c hc => h c (by simp [hc])
    simp only [Std.utf16, Std.utf8, List.flatMap_cons, List.append_assoc] at *
    rw [d16_enc _ _ (enc_char ch h0)]
    have hu : (if ch.toNat < 65536 then [ch.toNat] else surrogates ch.toNat) = Std.utf16Char ch.toNat := by
      unfold Std.utf16Char
      split
      · rfl
      · rw [surrogates_std _ (by omega) (by have := char_lt ch; omega)]
    rw [hu]
    simp only [List.length_cons] at hn
    by_cases hz : n - 1 = 0
    · have : t = [] := by
        cases t with
        | nil => rfl
        | cons a b => simp only [List.length_cons] at hn; omega
      subst this
      simp [contN, hz]
    · rw [ih ht (n - 1) (by omega)]
      simp [contN, hz]

/-- `utf16toUtf8` on standard UTF-16 returns the standard UTF-8 -/
theorem utf16toUtf8_std (cs : List Char) (h : NoNul cs) (junk : List Int) (n : Int)
    (hn : n ≤ 0 ∨ (cs.length : Int) < n) :
    utf16toUtf8 ((Std.utf16 cs).map Int.ofNat ++ 0 :: junk) n = some (Std.utf8 cs) := by
  induction cs generalizing n with
  | nil => rw [utf16toUtf8.eq_def]; simp [Std.utf16, Std.utf8]
  | cons ch t ih =>
    have h0 : ch.toNat ≠ 0 := h ch (by simp)
    have ht : NoNul t := fun c hc => h c (by simp [hc])
    simp only [Std.utf16, Std.utf8, List.flatMap_cons, List.map_append, List.append_assoc] at *
    have hne : ¬ (n - 1 = 0) := by simp only [List.length_cons] at hn; omega
    have hrec := ih ht (n - 1) (by simp only [List.length_cons] at hn; omega)
    by_cases hb : ch.toNat < 65536
    · have hu : Std.utf16Char ch.toNat = [ch.toNat] := by simp [Std.utf16Char, hb]
      rw [hu]
      simp only [List.map_cons, List.map_nil, List.cons_append, List.nil_append]
      rw [show Int.ofNat ch.toNat = (ch.toNat : Int) from rfl, e16_bmp ch h0 hb, hrec]
      simp [contB, hne]
    · have hu : Std.utf16Char ch.toNat = [(ch.toNat - 0x10000) / 0x400 + 0xD800, (ch.toNat - 0x10000) % 0x400 + 0xDC00] := by
        simp [Std.utf16Char, hb]
      rw [hu]
      simp only [List.map_cons, List.map_nil, List.cons_append, List.nil_append]
      have := e16_pair ch (by omega) (List.map Int.ofNat (List.flatMap (fun c => Std.utf16Char c.toNat) t) ++ 0 :: junk) n
      simp only [Int.ofNat_eq_natCast] at *
      rw [this, hrec]
      simp [contB, hne]

theorem utf16_ne_zero (cs : List Char) (h : NoNul cs) : ∀ u ∈ Std.utf16 cs, u ≠ 0 := by
  intro u hu
  simp only [Std.utf16, List.mem_flatMap] at hu
  obtain ⟨c, hc, hu⟩ := hu
  exact utf16Char_ne_zero c (h c hc) u hu

theorem utf16_length_ge (cs : List Char) : cs.length ≤ (Std.utf16 cs).length := by
  induction cs with
  | nil => simp [Std.utf16]
  | cons ch t ih =>
    simp only [Std.utf16, List.flatMap_cons, List.length_append, List.length_cons] at *
    have : 1 ≤ (Std.utf16Char ch.toNat).length := by unfold Std.utf16Char; split <;> simp
    omega

theorem takeWhile_ne_zero_nat (l : List Nat) (h : ∀ u ∈ l, u ≠ 0) : l.takeWhile (· != 0) = l := by
  induction l with
  | nil => rfl
  | cons a t ih =>
    have ha : a ≠ 0 := h a (by simp)
    simp only [List.takeWhile_cons, bne_iff_ne, ne_eq, ha, not_false_eq_true, if_true]
    rw [ih (fun u hu => h u (by simp [hu]))]

theorem takeWhile_int_units (l : List Nat) (h : ∀ u ∈ l, u ≠ 0) :
    (l.map Int.ofNat ++ [0]).takeWhile (· != 0) = l.map Int.ofNat := by
  induction l with
  | nil => simp
  | cons a t ih =>
    have ha : ¬ (Int.ofNat a = 0) := by have := h a (by simp); simp only [Int.ofNat_eq_natCast]; omega
    simp only [List.map_cons, List.cons_append, List.takeWhile_cons, bne_iff_ne, ne_eq, ha,
      not_false_eq_true, if_true]
    rw [ih (fun u hu => h u (by simp [hu]))]

/-- `String::dataw()` (`operator const wchar_t*`) of standard UTF-8 is the standard UTF-16 -/
theorem utf8_utf16_std (cs : List Char) (h : NoNul cs) : dataw (Std.utf8 cs) = some (Std.utf16 cs) := by
  unfold dataw mem
  apply utf8toUtf16_std cs h []
  have := utf8_length_ge cs h
  omega

/-- `String(const wchar_t*)` on standard UTF-16 is the standard UTF-8 -/
theorem utf16_utf8_std (cs : List Char) (h : NoNul cs) :
    fromWide ((Std.utf16 cs).map Int.ofNat ++ [0]) = some (Std.utf8 cs) := by
  unfold fromWide
  rw [takeWhile_int_units _ (utf16_ne_zero cs h)]
  apply utf16toUtf8_std cs h []
  right
  have := utf16_length_ge cs
  simp only [List.length_map, capAfterInit]
  split <;> omega

/-- UTF-8 → UTF-16 → UTF-8 returns the original on every sequence of scalar values
    (`String(s.dataw()) == s`, what the harness prints as `back`) -/
theorem utf8_utf16_roundtrip (cs : List Char) (h : NoNul cs) :
    (dataw (Std.utf8 cs)).bind (fun w => fromWide ((wcs w).map Int.ofNat ++ [0])) = some (Std.utf8 cs) := by
  rw [utf8_utf16_std cs h]
  simp only [Option.bind_some, wcs]
  rw [takeWhile_ne_zero_nat _ (utf16_ne_zero cs h)]
  exact utf16_utf8_std cs h

/-- `count()`, `chars()` and code-point iteration agree on number and values of the characters of valid text;
    the iteration advances by the UTF-8 size of each character -/
theorem count_chars_iter_agree (cs : List Char) (h : NoNul cs) :
    count (Std.utf8 cs) = some cs.length ∧
    chars (Std.utf8 cs) = some (Std.codes cs) ∧
    iter (Std.utf8 cs) = some (cs.map fun c => (c.toNat, c.utf8Size)) := by
  refine ⟨?_, ?_, ?_⟩
  · unfold count mem
    induction cs with
    | nil => simp [Std.utf8, countFrom]
    | cons ch t ih =>
      have ht : NoNul t := fun c hc => h c (by simp [hc])
      simp only [Std.utf8, List.flatMap_cons, List.append_assoc] at *
      rw [count_enc _ (enc_char ch (h ch (by simp))), ih ht]
      simp
  · unfold chars mem
    apply utf8toUtf32_std cs h []
    have := utf8_length_ge cs h
    omega
  · unfold iter mem
    induction cs with
    | nil => simp [Std.utf8, enumAll]
    | cons ch t ih =>
      have ht : NoNul t := fun c hc => h c (by simp [hc])
      have he := enc_char ch (h ch (by simp))
      simp only [Std.utf8, List.flatMap_cons, List.append_assoc] at *
      rw [enum_enc _ he, ih ht]
      simp [String.length_utf8EncodeChar]

end C08
