import AslModel.Utf
namespace C08
theorem placeholder : True := trivial
end C08
