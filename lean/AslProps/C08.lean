import AslModel.Utf
import AslProofs.Utf
import AslProofs.UtfCase
/-!
# C08 — UTF-8/16/32 conversions are lossless on valid text and safe on any bytes

Property theorems only (helper lemmas: `AslProofs/Utf.lean`; models: `AslModel/Utf.lean`, which the
driver `Driver/C08.lean` runs against the real library on every check).

Specifications are independent of the code: a Unicode scalar value is Lean's `Char`, its UTF-8 form is
Lean core's own encoder `String.utf8EncodeChar` (so `Std.utf8 cs` is the byte content of
`String.ofList cs`), UTF-16 is written from the standard (D91: one unit below 0x10000, otherwise the
surrogate pair of `v - 0x10000`), the C-locale case mapping is the literal `a–z ↔ A–Z` shift.
A reader returning `none` is a read outside the allocation; a result list is what was stored, in order.
-/
namespace C08
open AslModel.Utf AslProofs.Utf Gen.Unicode

/-! ## specifications -/
namespace Std
/-- UTF-8 of a sequence of scalar values (Lean core's encoder) -/
def utf8 (cs : List Char) : List UInt8 := cs.flatMap String.utf8EncodeChar
/-- UTF-16 of one scalar value (Unicode standard §3.9 D91) -/
def utf16Char (v : Nat) : List Nat :=
  if v < 0x10000 then [v] else [(v - 0x10000) / 0x400 + 0xD800, (v - 0x10000) % 0x400 + 0xDC00]
def utf16 (cs : List Char) : List Nat := cs.flatMap fun c => utf16Char c.toNat
/-- the code points -/
def codes (cs : List Char) : List Nat := cs.map Char.toNat
/-- C-locale `toupper`/`tolower` on a byte -/
def toupperC (b : UInt8) : UInt8 := if 97 ≤ b ∧ b ≤ 122 then b - 32 else b
def tolowerC (b : UInt8) : UInt8 := if 65 ≤ b ∧ b ≤ 90 then b + 32 else b
end Std

/-- NUL terminates every C string of the library, so text is a sequence of non-NUL scalar values -/
def NoNul (cs : List Char) : Prop := ∀ c ∈ cs, c.toNat ≠ 0

theorem utf8_is_core_toUTF8 (cs : List Char) : Std.utf8 cs = (String.ofList cs).toUTF8.data.toList := by
  simp [Std.utf8, String.toUTF8, String.toByteArray_ofList, List.utf8Encode]

/-! ## valid text: standard encodings and round trips, for every sequence of scalar values -/

/-- `utf32toUtf8` on the code points of `cs` (terminator, then anything) with a budget that does not
    bind writes exactly the standard UTF-8 -/
theorem utf32toUtf8_std (cs : List Char) (h : NoNul cs) (junk : List Int) (n : Int) (hn : n ≤ 0 ∨ (cs.length : Int) < n) :
    utf32toUtf8 ((Std.codes cs).map Int.ofNat ++ 0 :: junk) n = some (Std.utf8 cs) := by
  induction cs generalizing n with
  | nil => simp [Std.codes, Std.utf8, utf32toUtf8]
  | cons ch t ih =>
    have h0 : ch.toNat ≠ 0 := h ch (by simp)
    have ht : NoNul t := fun c hc => h c (by simp [hc])
    simp only [Std.codes, List.map_cons, List.cons_append, Std.utf8, List.flatMap_cons] at *
    rw [show Int.ofNat ch.toNat = (ch.toNat : Int) from rfl, e32_char ch h0]
    have hne : ¬ (n - 1 = 0) := by simp only [List.length_cons] at hn; omega
    rw [ih ht (n - 1) (by simp only [List.length_cons] at hn; omega)]
    simp [contB, hne]

/-- `String::fromCodes` produces the standard UTF-8 of every sequence of scalar values -/
theorem utf8_std (cs : List Char) (h : NoNul cs) :
    fromCodes ((Std.codes cs).map Int.ofNat) = some (Std.utf8 cs) := by
  unfold fromCodes
  apply utf32toUtf8_std cs h []
  right; simp only [Std.codes, List.length_map]; omega

/-- `String::fromCode` on one scalar value -/
theorem utf8_std_single (c : Char) (h : c.toNat ≠ 0) : fromCode (c.toNat : Int) = some (String.utf8EncodeChar c) := by
  unfold fromCode
  rw [e32_char c h]
  simp [contB]

theorem utf8_length_ge (cs : List Char) (h : NoNul cs) : cs.length ≤ (Std.utf8 cs).length := by
  induction cs with
  | nil => simp [Std.utf8]
  | cons ch t ih =>
    have ht : NoNul t := fun c hc => h c (by simp [hc])
    have := (enc_char ch (h ch (by simp))).length_eq
    simp only [Std.utf8, List.flatMap_cons, List.length_append, List.length_cons] at *
    have := ih ht
    split at * <;> (try split at *) <;> (try split at *) <;> omega

/-- `utf8toUtf32` on standard UTF-8 (terminator, then anything) returns the code points -/
theorem utf8toUtf32_std (cs : List Char) (h : NoNul cs) (junk : List UInt8) (n : Int)
    (hn : n ≤ 0 ∨ (cs.length : Int) ≤ n) :
    utf8toUtf32 (Std.utf8 cs ++ 0 :: junk) n = some (Std.codes cs) := by
  induction cs generalizing n with
  | nil => rw [utf8toUtf32.eq_def]; simp [Std.codes, Std.utf8]
  | cons ch t ih =>
    have h0 : ch.toNat ≠ 0 := h ch (by simp)
    have ht : NoNul t := fun c hc => h c (by simp [hc])
    simp only [Std.codes, List.map_cons, Std.utf8, List.flatMap_cons, List.append_assoc] at *
    rw [d32_enc _ _ (enc_char ch h0)]
    simp only [List.length_cons] at hn
    by_cases hz : n - 1 = 0
    · have : t = [] := by
        cases t with
        | nil => rfl
        | cons a b => simp only [List.length_cons] at hn; omega
      subst this
      simp [contN, hz]
    · rw [ih ht (n - 1) (by omega)]
      simp [contN, hz]

/-- UTF-32 → UTF-8 → UTF-32 is the identity on every sequence of (non-NUL) scalar values:
    `fromCodes(cs).chars() == cs` -/
theorem utf32_utf8_roundtrip (cs : List Char) (h : NoNul cs) :
    (fromCodes ((Std.codes cs).map Int.ofNat)).bind chars = some (Std.codes cs) := by
  rw [utf8_std cs h]
  simp only [Option.bind_some, chars, mem]
  apply utf8toUtf32_std cs h []
  have := utf8_length_ge cs h
  omega

theorem utf16Char_ne_zero (ch : Char) (h0 : ch.toNat ≠ 0) : ∀ u ∈ Std.utf16Char ch.toNat, u ≠ 0 := by
  unfold Std.utf16Char
  split <;> simp <;> omega

/-- `utf8toUtf16` on standard UTF-8 returns the standard UTF-16 (surrogate pairs from 0x10000) -/
theorem utf8toUtf16_std (cs : List Char) (h : NoNul cs) (junk : List UInt8) (n : Int)
    (hn : n ≤ 0 ∨ (cs.length : Int) ≤ n) :
    utf8toUtf16 (Std.utf8 cs ++ 0 :: junk) n = some (Std.utf16 cs) := by
  induction cs generalizing n with
  | nil => rw [utf8toUtf16.eq_def]; simp [Std.utf16, Std.utf8]
  | cons ch t ih =>
    have h0 : ch.toNat ≠ 0 := h ch (by simp)
    have ht : NoNul t := fun c hc => h c (by simp [hc])
    simp only [Std.utf16, Std.utf8, List.flatMap_cons, List.append_assoc] at *
    rw [d16_enc _ _ (enc_char ch h0)]
    have hu : (if ch.toNat < 65536 then [ch.toNat] else surrogates ch.toNat) = Std.utf16Char ch.toNat := by
      unfold Std.utf16Char
      split
      · rfl
      · rw [surrogates_std _ (by omega) (by have := char_lt ch; omega)]
    rw [hu]
    simp only [List.length_cons] at hn
    by_cases hz : n - 1 = 0
    · have : t = [] := by
        cases t with
        | nil => rfl
        | cons a b => simp only [List.length_cons] at hn; omega
      subst this
      simp [contN, hz]
    · rw [ih ht (n - 1) (by omega)]
      simp [contN, hz]

/-- `utf16toUtf8` on standard UTF-16 returns the standard UTF-8 -/
theorem utf16toUtf8_std (cs : List Char) (h : NoNul cs) (junk : List Int) (n : Int)
    (hn : n ≤ 0 ∨ (cs.length : Int) < n) :
    utf16toUtf8 ((Std.utf16 cs).map Int.ofNat ++ 0 :: junk) n = some (Std.utf8 cs) := by
  induction cs generalizing n with
  | nil => rw [utf16toUtf8.eq_def]; simp [Std.utf16, Std.utf8]
  | cons ch t ih =>
    have h0 : ch.toNat ≠ 0 := h ch (by simp)
    have ht : NoNul t := fun c hc => h c (by simp [hc])
    simp only [Std.utf16, Std.utf8, List.flatMap_cons, List.map_append, List.append_assoc] at *
    have hne : ¬ (n - 1 = 0) := by simp only [List.length_cons] at hn; omega
    have hrec := ih ht (n - 1) (by simp only [List.length_cons] at hn; omega)
    by_cases hb : ch.toNat < 65536
    · have hu : Std.utf16Char ch.toNat = [ch.toNat] := by simp [Std.utf16Char, hb]
      rw [hu]
      simp only [List.map_cons, List.map_nil, List.cons_append, List.nil_append]
      rw [show Int.ofNat ch.toNat = (ch.toNat : Int) from rfl, e16_bmp ch h0 hb, hrec]
      simp [contB, hne]
    · have hu : Std.utf16Char ch.toNat = [(ch.toNat - 0x10000) / 0x400 + 0xD800, (ch.toNat - 0x10000) % 0x400 + 0xDC00] := by
        simp [Std.utf16Char, hb]
      rw [hu]
      simp only [List.map_cons, List.map_nil, List.cons_append, List.nil_append]
      have := e16_pair ch (by omega) (List.map Int.ofNat (List.flatMap (fun c => Std.utf16Char c.toNat) t) ++ 0 :: junk) n
      simp only [Int.ofNat_eq_natCast] at *
      rw [this, hrec]
      simp [contB, hne]

theorem utf16_ne_zero (cs : List Char) (h : NoNul cs) : ∀ u ∈ Std.utf16 cs, u ≠ 0 := by
  intro u hu
  simp only [Std.utf16, List.mem_flatMap] at hu
  obtain ⟨c, hc, hu⟩ := hu
  exact utf16Char_ne_zero c (h c hc) u hu

theorem utf16_length_ge (cs : List Char) : cs.length ≤ (Std.utf16 cs).length := by
  induction cs with
  | nil => simp [Std.utf16]
  | cons ch t ih =>
    simp only [Std.utf16, List.flatMap_cons, List.length_append, List.length_cons] at *
    have : 1 ≤ (Std.utf16Char ch.toNat).length := by unfold Std.utf16Char; split <;> simp
    omega

theorem takeWhile_ne_zero_nat (l : List Nat) (h : ∀ u ∈ l, u ≠ 0) : l.takeWhile (· != 0) = l := by
  induction l with
  | nil => rfl
  | cons a t ih =>
    have ha : a ≠ 0 := h a (by simp)
    simp only [List.takeWhile_cons, bne_iff_ne, ne_eq, ha, not_false_eq_true, if_true]
    rw [ih (fun u hu => h u (by simp [hu]))]

theorem takeWhile_int_units (l : List Nat) (h : ∀ u ∈ l, u ≠ 0) :
    (l.map Int.ofNat ++ [0]).takeWhile (· != 0) = l.map Int.ofNat := by
  induction l with
  | nil => simp
  | cons a t ih =>
    have ha : ¬ (Int.ofNat a = 0) := by have := h a (by simp); simp only [Int.ofNat_eq_natCast]; omega
    simp only [List.map_cons, List.cons_append, List.takeWhile_cons, bne_iff_ne, ne_eq, ha,
      not_false_eq_true, if_true]
    rw [ih (fun u hu => h u (by simp [hu]))]

/-- `String::dataw()` (`operator const wchar_t*`) of standard UTF-8 is the standard UTF-16 -/
theorem utf8_utf16_std (cs : List Char) (h : NoNul cs) : dataw (Std.utf8 cs) = some (Std.utf16 cs) := by
  unfold dataw mem
  apply utf8toUtf16_std cs h []
  have := utf8_length_ge cs h
  omega

/-- `String(const wchar_t*)` on standard UTF-16 is the standard UTF-8 -/
theorem utf16_utf8_std (cs : List Char) (h : NoNul cs) :
    fromWide ((Std.utf16 cs).map Int.ofNat ++ [0]) = some (Std.utf8 cs) := by
  unfold fromWide
  rw [takeWhile_int_units _ (utf16_ne_zero cs h)]
  apply utf16toUtf8_std cs h []
  right
  have := utf16_length_ge cs
  simp only [List.length_map, capAfterInit]
  split <;> omega

/-- UTF-8 → UTF-16 → UTF-8 returns the original on every sequence of scalar values
    (`String(s.dataw()) == s`, what the harness prints as `back`) -/
theorem utf8_utf16_roundtrip (cs : List Char) (h : NoNul cs) :
    (dataw (Std.utf8 cs)).bind (fun w => fromWide ((wcs w).map Int.ofNat ++ [0])) = some (Std.utf8 cs) := by
  rw [utf8_utf16_std cs h]
  simp only [Option.bind_some, wcs]
  rw [takeWhile_ne_zero_nat _ (utf16_ne_zero cs h)]
  exact utf16_utf8_std cs h

/-- `count()`, `chars()` and code-point iteration agree on number and values of the characters of valid text;
    the iteration advances by the UTF-8 size of each character -/
theorem count_chars_iter_agree (cs : List Char) (h : NoNul cs) :
    count (Std.utf8 cs) = some cs.length ∧
    chars (Std.utf8 cs) = some (Std.codes cs) ∧
    iter (Std.utf8 cs) = some (cs.map fun c => (c.toNat, c.utf8Size)) := by
  refine ⟨?_, ?_, ?_⟩
  · unfold count mem
    induction cs with
    | nil => simp [Std.utf8, countFrom]
    | cons ch t ih =>
      have ht : NoNul t := fun c hc => h c (by simp [hc])
      simp only [Std.utf8, List.flatMap_cons, List.append_assoc] at *
      rw [count_enc _ (enc_char ch (h ch (by simp))), ih ht]
      simp
  · unfold chars mem
    apply utf8toUtf32_std cs h []
    have := utf8_length_ge cs h
    omega
  · unfold iter mem
    induction cs with
    | nil => simp [Std.utf8, enumAll]
    | cons ch t ih =>
      have ht : NoNul t := fun c hc => h c (by simp [hc])
      have he := enc_char ch (h ch (by simp))
      simp only [Std.utf8, List.flatMap_cons, List.append_assoc] at *
      rw [enum_enc _ he, ih ht]
      simp [String.length_utf8EncodeChar]

/-! ## arbitrary bytes: termination inside the buffers (`utf_safe`)

Every model function is total (structural recursion), so termination is by construction; what is proved is
that no reader ever leaves the allocation (`some`), whatever the bytes — ill-formed, truncated, overlong —
as long as a terminator is present, and that what is written fits the buffer the callers allocate. -/

/-- readers on any allocation that contains a NUL: never out of bounds, and the number of elements written
    (before the terminator the converters add) is at most `strlen` -/
theorem utf_safe_readers (m : List UInt8) (n : Int) (h : hasNul m = true) :
    (∃ out, utf8toUtf32 m n = some out ∧ out.length ≤ strlen m) ∧
    (∃ out, utf8toUtf16 m n = some out ∧ out.length ≤ strlen m) ∧
    (∃ k, countFrom m = some k ∧ k ≤ strlen m) ∧
    (∃ l, enumAll m = some l ∧ (l.map (·.2)).sum = strlen m ∧ ∀ p ∈ l, okPair p) := by
  refine ⟨?_, ?_, ?_, ?_⟩
  · have h1 := d32_some m n h
    have h2 := d32_le m n
    cases hr : utf8toUtf32 m n with
    | none => simp [hr] at h1
    | some out => exact ⟨out, rfl, by simpa [hr] using h2⟩
  · have h1 := d16_some m n h
    have h2 := d16_le m n
    cases hr : utf8toUtf16 m n with
    | none => simp [hr] at h1
    | some out => exact ⟨out, rfl, by simpa [hr] using h2⟩
  · have h1 := count_some m h
    cases hr : countFrom m with
    | none => simp [hr] at h1
    | some k => exact ⟨k, rfl, count_le m k hr⟩
  · have h1 := enum_some m h
    cases hr : enumAll m with
    | none => simp [hr] at h1
    | some l => exact ⟨l, rfl, enum_sum m l hr, enum_ok m l hr⟩

/-- the encoders on any 32-bit values followed by a zero: never out of bounds; at most 4 bytes per code
    (`fromCodes` allocates `4·n`), at most 3 bytes per UTF-16 unit (`String(const wchar_t*)` allocates `4·wcslen`) -/
theorem utf_safe_encoders (p : List Int) (n : Int) (h : hasZero p = true) :
    (∃ out, utf32toUtf8 p n = some out ∧ out.length ≤ 4 * ilen p) ∧
    (∃ out, utf16toUtf8 p n = some out ∧ out.length ≤ 3 * ilen p) := by
  refine ⟨?_, ?_⟩
  · have h1 := e32_some p n h
    have h2 := e32_le p n
    cases hr : utf32toUtf8 p n with
    | none => simp [hr] at h1
    | some out => exact ⟨out, rfl, by simpa [hr] using h2⟩
  · have h1 := e16_some p n h
    have h2 := e16_le p n
    cases hr : utf16toUtf8 p n with
    | none => simp [hr] at h1
    | some out => exact ⟨out, rfl, by simpa [hr] using h2⟩

theorem wideRoom_ge (len : Nat) : len + 1 ≤ wideRoom len := by
  unfold wideRoom wideOffset
  rw [and3, and3]
  omega

theorem ilen_le (p : List Int) : ilen p ≤ p.length := by
  unfold ilen
  induction p with
  | nil => simp
  | cons a t ih => simp only [List.takeWhile_cons]; split <;> simp <;> omega

theorem ilen_append_zero (codes : List Int) : ilen (codes ++ [0]) ≤ codes.length := by
  unfold ilen
  induction codes with
  | nil => simp
  | cons a t ih => simp only [List.cons_append, List.takeWhile_cons]; split <;> simp <;> omega

/-- the String methods on every byte string `s` (any bytes, NULs included), with the buffer each one uses:
    `count()`; `chars()` writes at most `length()+1` ints into `Array<int>(length()+1)`; iteration consumes
    exactly the C string; `dataw()` writes units and terminator inside the scratch area of the resized buffer -/
theorem utf_safe_string (s : List UInt8) :
    (∃ k, count s = some k ∧ k ≤ s.length) ∧
    (∃ out, chars s = some out ∧ out.length + 1 ≤ s.length + 1) ∧
    (∃ l, iter s = some l ∧ (l.map (·.2)).sum ≤ s.length ∧ ∀ p ∈ l, okPair p) ∧
    (∃ w, dataw s = some w ∧ w.length + 1 ≤ wideRoom s.length) := by
  have hm := hasNul_mem s
  have hl := strlen_mem s
  obtain ⟨⟨o1, h1, l1⟩, _, _, _⟩ := utf_safe_readers (mem s) s.length hm
  obtain ⟨_, ⟨o2, h2, l2⟩, ⟨k, h3, l3⟩, ⟨l, h4, l4, l5⟩⟩ := utf_safe_readers (mem s) s.length hm
  refine ⟨⟨k, h3, by omega⟩, ⟨o1, h1, by omega⟩, ⟨l, h4, by omega, l5⟩, ⟨o2, h2, ?_⟩⟩
  have := wideRoom_ge s.length
  omega

/-- `fromCodes`, `fromCode`, `String(const wchar_t*)` on arbitrary 32-bit values: inside the allocated
    `4·n + 1`, `4 + 1` and `cap()` bytes (terminator included) -/
theorem utf_safe_constructors (codes : List Int) (c : Int) (w : List Int) (hw : hasZero w = true) :
    (∃ out, fromCodes codes = some out ∧ out.length + 1 ≤ 4 * codes.length + 1) ∧
    (∃ out, fromCode c = some out ∧ out.length + 1 ≤ 4 + 1) ∧
    (∃ out, fromWide w = some out ∧ out.length + 1 ≤ capAfterInit (4 * ilen w)) := by
  refine ⟨?_, ?_, ?_⟩
  · obtain ⟨⟨o, h1, l1⟩, _⟩ := utf_safe_encoders (codes ++ [0]) (codes.length + 1) (by simp [hasZero])
    refine ⟨o, h1, ?_⟩
    have := ilen_append_zero codes
    omega
  · obtain ⟨⟨o, h1, l1⟩, _⟩ := utf_safe_encoders [c, 0] 1 (by simp [hasZero])
    refine ⟨o, h1, ?_⟩
    have : ilen [c, 0] ≤ 1 := by
      unfold ilen
      simp only [List.takeWhile_cons]; split <;> simp
    omega
  · obtain ⟨_, ⟨o, h1, l1⟩⟩ := utf_safe_encoders w (capAfterInit (4 * ilen w)) hw
    refine ⟨o, ?_, ?_⟩
    · unfold fromWide; exact h1
    · unfold capAfterInit
      split <;> omega

/-! ## G obligations: facts about the case tables regenerated from `src/unicodedata.cpp`
(one linear pass each, evaluated by the kernel; a changed entry that breaks a fact breaks the build) -/

/-- both tables hold 1443 two-byte entries plus the literal's terminator -/
theorem tables_size : toUppercaseU8.size = 2887 ∧ toLowercaseU8.size = 2887 := by decide +kernel

/-- every table read of `toUpperCase`, `toLowerCase` (`code < cut`) and `equalsNocase` (`code ≤ cut`) is inside the table -/
theorem table_reads_in_bounds :
    upperCut * 2 ≤ toUppercaseU8.size ∧ lowerCut * 2 ≤ toLowercaseU8.size ∧
    nocaseCut1 * 2 + 1 < toLowercaseU8.size ∧ nocaseCut2 * 2 + 1 < toLowercaseU8.size := by decide +kernel

/-- the cut-over constants of the three functions, as read from `src/String.cpp` -/
theorem cutovers : upperCut = 1415 ∧ lowerCut = 1415 ∧ nocaseCut1 = 1415 ∧ nocaseCut2 = 1415 := by decide

theorem upper_shape : allPairs shapeOK 0 toUppercaseU8.toList = true := by decide +kernel
theorem lower_shape : allPairs shapeOK 0 toLowercaseU8.toList = true := by decide +kernel

/-- a one-byte entry of a non-zero code point is not NUL; a two-byte entry is a 2-byte lead C2–DF followed by a
    continuation byte 80–BF, i.e. well-formed UTF-8 (no entry is the cut-off beginning of a longer sequence:
    repaired in b3f3f80) -/
theorem upper_shape2 : allPairs shape2OK 0 toUppercaseU8.toList = true := by decide +kernel
theorem lower_shape2 : allPairs shape2OK 0 toLowercaseU8.toList = true := by decide +kernel

/-- on ASCII the tables are the C-locale `toupper`/`tolower` -/
theorem upper_ascii : allPairs (fun i a b => decide (128 ≤ i) || (a == Std.toupperC (UInt8.ofNat i) && b == 0)) 0
    toUppercaseU8.toList = true := by decide +kernel
theorem lower_ascii : allPairs (fun i a b => decide (128 ≤ i) || (a == Std.tolowerC (UInt8.ofNat i) && b == 0)) 0
    toLowercaseU8.toList = true := by decide +kernel

/-- needed by `nocase_iff_lower_eq`: no lower-case entry collides with a re-encoded code point above the cut-over,
    and the entry of the cut-over code point 1415 is its own UTF-8 (`D6 87`) -/
theorem lower_order : allPairs lowOrdOK 0 toLowercaseU8.toList = true := by decide +kernel
theorem lower_cut_entry : toLowercaseU8.getD (1415 * 2) 0 = 0xD6 ∧ toLowercaseU8.getD (1415 * 2 + 1) 0 = 0x87 := by
  decide +kernel

/-! ## case mapping on arbitrary bytes -/

/-- case mapping never produces more bytes than its input (and never reads outside its input):
    the result buffer `String s(_len, _len)` always suffices -/
theorem case_len_le (s : List UInt8) :
    (∃ u, toUpperCase s = some u ∧ u.length ≤ s.length) ∧ (∃ l, toLowerCase s = some l ∧ l.length ≤ s.length) := by
  constructor
  · exact caseMap_len _ _ upper_shape (by decide) table_reads_in_bounds.1 s
  · exact caseMap_len _ _ lower_shape (by decide) table_reads_in_bounds.2.1 s

/-- on ASCII text the case mappings are those of the C locale -/
theorem ascii_case_c_locale (s : List UInt8) (h : ∀ b ∈ s, b ≠ 0 ∧ b.toNat < 128) :
    toUpperCase s = some (s.map Std.toupperC) ∧ toLowerCase s = some (s.map Std.tolowerC) := by
  have nz : ∀ b : UInt8, b ≠ 0 → b.toNat ≠ 0 := fun b hb e => hb (UInt8.toNat_inj.mp (by simpa using e))
  have hu : ∀ b : UInt8, b ≠ 0 → b.toNat < 128 → mapGroup toUppercaseU8 upperCut (b.toNat, [b]) = [Std.toupperC b] := by
    intro b hb0 hb
    have h1 := table_fact _ _ upper_ascii b.toNat (by have := tables_size.1; omega)
    have hd : decide (128 ≤ b.toNat) = false := decide_eq_false (by omega)
    simp only [hd, Bool.false_or, Bool.and_eq_true, beq_iff_eq, UInt8.ofNat_toNat] at h1
    have hc : b.toNat < upperCut := by have := cutovers.1; omega
    simp [mapGroup, nz b hb0, mapCode, hc, tableBytes, h1.1, h1.2]
  have hl : ∀ b : UInt8, b ≠ 0 → b.toNat < 128 → mapGroup toLowercaseU8 lowerCut (b.toNat, [b]) = [Std.tolowerC b] := by
    intro b hb0 hb
    have h1 := table_fact _ _ lower_ascii b.toNat (by have := tables_size.2; omega)
    have hd : decide (128 ≤ b.toNat) = false := decide_eq_false (by omega)
    simp only [hd, Bool.false_or, Bool.and_eq_true, beq_iff_eq, UInt8.ofNat_toNat] at h1
    have hc : b.toNat < lowerCut := by have := cutovers.2.1; omega
    simp [mapGroup, nz b hb0, mapCode, hc, tableBytes, h1.1, h1.2]
  have key : ∀ (f : Nat × List UInt8 → List UInt8) (g : UInt8 → UInt8),
      (∀ b : UInt8, b ≠ 0 → b.toNat < 128 → f (b.toNat, [b]) = [g b]) →
      ∀ t : List UInt8, (∀ b ∈ t, b ≠ 0 ∧ b.toNat < 128) →
      (t.map fun b => (b.toNat, [b])).flatMap f = t.map g := by
    intro f g hf t
    induction t with
    | nil => simp
    | cons b t ih =>
      intro ht
      simp only [List.map_cons, List.flatMap_cons]
      rw [hf b (ht b (by simp)).1 (ht b (by simp)).2, ih (fun c hc => ht c (by simp [hc]))]
      rfl
  constructor
  · simp only [toUpperCase, caseMap, raw_ascii s h, Option.map_some]
    rw [key _ _ hu s h]
  · simp only [toLowerCase, caseMap, raw_ascii s h, Option.map_some]
    rw [key _ _ hl s h]

/-- the case functions never emit a NUL byte (undecodable bytes are copied through, repaired in 8124a21):
    `length()` of the result is the offset of its terminator -/
theorem case_no_nul (s out : List UInt8) :
    (toUpperCase s = some out → ∀ b ∈ out, b ≠ 0) ∧ (toLowerCase s = some out → ∀ b ∈ out, b ≠ 0) := by
  constructor
  · exact caseMap_no_nul _ _ upper_shape2 (by decide) table_reads_in_bounds.1 s out
  · exact caseMap_no_nul _ _ lower_shape2 (by decide) table_reads_in_bounds.2.1 s out

/-- case-insensitive equality coincides with equality of the lower-cased forms, for every pair of byte strings
    (well-formed or not; both functions stay inside their inputs) -/
theorem nocase_iff_lower_eq (s t : List UInt8) :
    ∃ e la lb, equalsNocase s t = some e ∧ toLowerCase s = some la ∧ toLowerCase t = some lb ∧
      (e = true ↔ la = lb) := by
  have h1 := raw_some (mem s) (hasNul_mem s)
  have h2 := raw_some (mem t) (hasNul_mem t)
  cases ha : enumRaw (mem s) with
  | none => simp [ha] at h1
  | some A =>
    cases hb : enumRaw (mem t) with
    | none => simp [hb] at h2
    | some B =>
      have bound : ∀ (m : List UInt8) (L : List (Nat × List UInt8)), enumRaw m = some L → ∀ g ∈ L, g.1 < 2097152 := by
        intro m L hL g hg
        have := raw_ok m L hL g hg
        unfold okPair at this; simp only at this; omega
      refine ⟨nocaseLoop A B, A.flatMap wordL, B.flatMap wordL, ?_, ?_, ?_, ?_⟩
      · simp [equalsNocase, ha, hb]
      · simp only [toLowerCase, caseMap, ha, Option.map_some]; rfl
      · simp only [toLowerCase, caseMap, hb, Option.map_some]; rfl
      · exact nocaseLoop_iff lower_shape lower_shape2 lower_order lower_cut_entry tables_size.2 A B
          (raw_groups (mem s) A ha) (raw_groups (mem t) B hb) (bound _ A ha) (bound _ B hb)

/-! ## the wide-string scratch area: `fixW()` converts in place, `String(const Array<wchar_t>&)` -/

/-- for every offset, buffer size, budget and scratch content that contains a terminator and lies inside the
    buffer, the in-place conversion of `fixW()` never stores outside the buffer, never stores at or beyond its
    own read cursor (no unit is destroyed before it is read), never reads outside the buffer, and returns
    exactly what the out-of-place `utf16toUtf8` returns on those units -/
theorem fixW_in_place_safe (off size : Nat) (units : List Int) (n : Int)
    (h0 : hasZero units = true) (hfit : off + 4 * units.length ≤ size) :
    ∃ out, utf16toUtf8 units n = some out ∧ fixWLoop off size units 0 0 n = .ok out ∧ out.length ≤ 3 * ilen units := by
  obtain ⟨_, ⟨out, h1, h2⟩⟩ := utf_safe_encoders units n h0
  refine ⟨out, h1, ?_, h2⟩
  rw [fixWLoop_eq off size units n 0 0 (by omega) (by omega), h1]
  rfl

theorem takeWhile_len_le (o : List UInt8) : (o.takeWhile (· != 0)).length ≤ o.length := by
  induction o with
  | nil => simp
  | cons b u ih => simp only [List.takeWhile_cons]; split <;> simp <;> omega

/-- `dataw()` … the caller fills the scratch area with anything … `fixW()` (also through `SafeString`), from any
    previous capacity and length: no fault, and the new content has at most 3 bytes per stored unit -/
theorem fixW_string_safe (size0 len : Nat) (units : List Int) :
    ∃ out, fixWString size0 len units = .ok out ∧ out.length ≤ 3 * units.length := by
  obtain ⟨o, _, h2, h3⟩ := fixW_in_place_safe (wideOffset len) (capOf (sizeResize size0 (datawNeed len)))
    (scratch (wideOffset len) (capOf (sizeResize size0 (datawNeed len))) units)
    (capOf (sizeResize size0 (datawNeed len))) (scratch_hasZero _ _ _) (scratch_fits size0 len units)
  refine ⟨o.takeWhile (· != 0), ?_, ?_⟩
  · simp only [fixWString, h2]; rfl
  · have a : (o.takeWhile (· != 0)).length ≤ o.length := takeWhile_len_le o
    have b : ilen (scratch (wideOffset len) (capOf (sizeResize size0 (datawNeed len))) units) ≤ units.length := by
      unfold scratch
      have := ilen_append_zero (units.take ((capOf (sizeResize size0 (datawNeed len)) - wideOffset len) / 4 - 1))
      simp only [List.length_take] at this
      omega
    omega

/-- the two ways the driver reaches `fixW()` never fault -/
theorem fixW_ops_safe (len n : Nat) (units : List Int) :
    (∃ out, fixwOp len units = .ok out) ∧ (∃ out, safeOp n units = .ok out) := by
  obtain ⟨o1, h1, _⟩ := fixW_string_safe (sizeInit len) len units
  obtain ⟨o2, h2, _⟩ := fixW_string_safe (sizeResize 0 (3 * n)) (3 * n) units
  exact ⟨⟨o1, h1⟩, ⟨o2, h2⟩⟩

/-- `String(const Array<wchar_t>&)` on any units: inside the `cap()` bytes of `init(4·length)` -/
theorem utf_safe_wide_array (w : List Int) :
    ∃ out, fromWideArr w = some out ∧ out.length + 1 ≤ capAfterInit (4 * w.length) := by
  obtain ⟨_, ⟨o, h1, l1⟩⟩ := utf_safe_encoders (w ++ [0]) (capAfterInit (4 * w.length)) (by simp [hasZero])
  refine ⟨o, h1, ?_⟩
  have := ilen_append_zero w
  unfold capAfterInit
  split <;> omega

/-- … and on standard UTF-16 it yields the standard UTF-8 -/
theorem wide_array_std (cs : List Char) (h : NoNul cs) :
    fromWideArr ((Std.utf16 cs).map Int.ofNat) = some (Std.utf8 cs) := by
  unfold fromWideArr
  apply utf16toUtf8_std cs h []
  right
  have := utf16_length_ge cs
  simp only [List.length_map, capAfterInit]
  split <;> omega

/-- in-place conversion of standard UTF-16 stored in the scratch area gives the standard UTF-8 -/
theorem fixW_std (cs : List Char) (h : NoNul cs) (off size : Nat) (junk : List Int) (n : Int)
    (hn : n ≤ 0 ∨ (cs.length : Int) < n)
    (hfit : off + 4 * ((Std.utf16 cs).map Int.ofNat ++ 0 :: junk).length ≤ size) :
    fixWLoop off size ((Std.utf16 cs).map Int.ofNat ++ 0 :: junk) 0 0 n = .ok (Std.utf8 cs) := by
  rw [fixWLoop_eq off size _ n 0 0 (by omega) (by omega), utf16toUtf8_std cs h junk n hn]
  rfl

/-- the read-only wide view through a `const SafeString` followed by its destructor's `fixW()`: for every byte
    string the view is produced inside the buffer and the in-place conversion back never faults -/
theorem safe_const_safe (s : List UInt8) : ∃ w out, safeConstOp s = some (w, .ok out) := by
  obtain ⟨_, _, _, ⟨units, hd, hl⟩⟩ := utf_safe_string s
  have hfit : wideOffset s.length + 4 * (units.map Int.ofNat ++ [0]).length
      ≤ capOf (sizeResize (sizeInit s.length) (datawNeed s.length)) := by
    have h1 := capOf_resize_ge (sizeInit s.length) (datawNeed s.length)
    have h2 := wideOffset_le s.length
    have h3 := wideRoom_ge s.length
    have hu : units.length ≤ s.length := by
      obtain ⟨_, ⟨o, ho, hol⟩, _, _⟩ := utf_safe_readers (mem s) s.length (hasNul_mem s)
      have : o = units := by unfold dataw at hd; rw [ho] at hd; exact Option.some.inj hd
      subst this
      have := strlen_mem s
      omega
    unfold datawNeed at h1 ⊢
    simp only [List.length_append, List.length_map, List.length_cons, List.length_nil]
    omega
  obtain ⟨o, _, h2, _⟩ := fixW_in_place_safe (wideOffset s.length) _ (units.map Int.ofNat ++ [0])
    (capOf (sizeResize (sizeInit s.length) (datawNeed s.length))) (by simp [hasZero]) hfit
  exact ⟨wcs units, o.takeWhile (· != 0), by simp only [safeConstOp, hd, Option.map_some, h2]; rfl⟩

theorem utf8_no_zero (cs : List Char) (h : NoNul cs) : ∀ b ∈ Std.utf8 cs, b ≠ 0 := by
  intro b hb
  simp only [Std.utf8, List.mem_flatMap] at hb
  obtain ⟨c, hc, hb⟩ := hb
  have he := enc_char c (h c hc)
  generalize c.toNat = v at he
  generalize String.utf8EncodeChar c = bs at he hb
  cases he with
  | one v h0 hv =>
    simp only [List.mem_cons, List.not_mem_nil, or_false] at hb; subst hb
    exact ofNat_ne_zero (by omega) h0
  | two a r ha hr hv =>
    simp only [List.mem_cons, List.not_mem_nil, or_false] at hb
    rcases hb with rfl | rfl <;> exact ofNat_ne_zero (by omega) (by omega)
  | three a b' r ha hb' hr hv =>
    simp only [List.mem_cons, List.not_mem_nil, or_false] at hb
    rcases hb with rfl | rfl | rfl <;> exact ofNat_ne_zero (by omega) (by omega)
  | four a b' c' r ha hb' hc' hr hv =>
    simp only [List.mem_cons, List.not_mem_nil, or_false] at hb
    rcases hb with rfl | rfl | rfl | rfl <;> exact ofNat_ne_zero (by omega) (by omega)

theorem takeWhile_ne_zero_u8 (l : List UInt8) (h : ∀ b ∈ l, b ≠ 0) : l.takeWhile (· != 0) = l := by
  induction l with
  | nil => rfl
  | cons a t ih =>
    have ha : a ≠ 0 := h a (by simp)
    simp only [List.takeWhile_cons, bne_iff_ne, ne_eq, ha, not_false_eq_true, if_true]
    rw [ih (fun u hu => h u (by simp [hu]))]

/-- on valid text the view is the standard UTF-16 and the String is unchanged afterwards -/
theorem safe_const_std (cs : List Char) (h : NoNul cs) :
    safeConstOp (Std.utf8 cs) = some (Std.utf16 cs, .ok (Std.utf8 cs)) := by
  have hlen := utf8_length_ge cs h
  have h1 := capOf_resize_ge (sizeInit (Std.utf8 cs).length) (datawNeed (Std.utf8 cs).length)
  have h2 := wideOffset_le (Std.utf8 cs).length
  have hu : (Std.utf16 cs).length ≤ (Std.utf8 cs).length := by
    obtain ⟨_, ⟨o, ho, hol⟩, _, _⟩ := utf_safe_readers (mem (Std.utf8 cs)) (Std.utf8 cs).length (hasNul_mem _)
    have hd := utf8_utf16_std cs h
    unfold dataw at hd; rw [ho] at hd
    have : o = Std.utf16 cs := Option.some.inj hd
    subst this
    have := strlen_mem (Std.utf8 cs)
    omega
  simp only [datawNeed] at h1 ⊢
  simp only [safeConstOp, datawNeed, utf8_utf16_std cs h, Option.map_some, wcs]
  rw [takeWhile_ne_zero_nat _ (utf16_ne_zero cs h)]
  rw [fixW_std cs h _ _ [] _ (by right; omega)
    (by simp only [List.length_append, List.length_map, List.length_cons, List.length_nil]; omega)]
  simp only [Except.map, takeWhile_ne_zero_u8 _ (utf8_no_zero cs h)]

/-! ## the unit budget `n` of the free converters: exactly the first `n` characters -/

theorem budget_utf8toUtf32 (cs : List Char) (h : NoNul cs) (junk : List UInt8) (n : Int) (hn : 0 < n) :
    utf8toUtf32 (Std.utf8 cs ++ 0 :: junk) n = some (Std.codes (cs.take n.toNat)) := by
  induction cs generalizing n with
  | nil => rw [utf8toUtf32.eq_def]; simp [Std.codes, Std.utf8]
  | cons ch t ih =>
    have h0 : ch.toNat ≠ 0 := h ch (by simp)
    have ht : NoNul t := fun c hc => h c (by simp [hc])
    simp only [Std.utf8, List.flatMap_cons, List.append_assoc] at *
    rw [d32_enc _ _ (enc_char ch h0)]
    obtain ⟨k, hk⟩ : ∃ k : Nat, n.toNat = k + 1 := ⟨n.toNat - 1, by omega⟩
    rw [hk, List.take_succ_cons]
    by_cases hz : n - 1 = 0
    · have : k = 0 := by omega
      subst this
      simp [contN, hz, Std.codes]
    · rw [ih ht (n - 1) (by omega)]
      have : (n - 1).toNat = k := by omega
      simp [contN, hz, Std.codes, this]

theorem budget_utf32toUtf8 (cs : List Char) (h : NoNul cs) (junk : List Int) (n : Int) (hn : 0 < n) :
    utf32toUtf8 ((Std.codes cs).map Int.ofNat ++ 0 :: junk) n = some (Std.utf8 (cs.take n.toNat)) := by
  induction cs generalizing n with
  | nil => simp [Std.codes, Std.utf8, utf32toUtf8]
  | cons ch t ih =>
    have h0 : ch.toNat ≠ 0 := h ch (by simp)
    have ht : NoNul t := fun c hc => h c (by simp [hc])
    simp only [Std.codes, List.map_cons, List.cons_append] at *
    rw [show Int.ofNat ch.toNat = (ch.toNat : Int) from rfl, e32_char ch h0]
    obtain ⟨k, hk⟩ : ∃ k : Nat, n.toNat = k + 1 := ⟨n.toNat - 1, by omega⟩
    rw [hk, List.take_succ_cons]
    by_cases hz : n - 1 = 0
    · have : k = 0 := by omega
      subst this
      simp [contB, hz, Std.utf8]
    · rw [ih ht (n - 1) (by omega)]
      have : (n - 1).toNat = k := by omega
      simp [contB, hz, Std.utf8, this]

/-- the budget of `utf8toUtf16` counts CHARACTERS (a surrogate pair costs one): a positive `n` yields the
    UTF-16 of exactly the first `n` characters -/
theorem budget_utf8toUtf16 (cs : List Char) (h : NoNul cs) (junk : List UInt8) (n : Int) (hn : 0 < n) :
    utf8toUtf16 (Std.utf8 cs ++ 0 :: junk) n = some (Std.utf16 (cs.take n.toNat)) := by
  induction cs generalizing n with
  | nil => rw [utf8toUtf16.eq_def]; simp [Std.utf16, Std.utf8]
  | cons ch t ih =>
    have h0 : ch.toNat ≠ 0 := h ch (by simp)
    have ht : NoNul t := fun c hc => h c (by simp [hc])
    simp only [Std.utf8, List.flatMap_cons, List.append_assoc] at *
    rw [d16_enc _ _ (enc_char ch h0)]
    have hu : (if ch.toNat < 65536 then [ch.toNat] else surrogates ch.toNat) = Std.utf16Char ch.toNat := by
      unfold Std.utf16Char
      split
      · rfl
      · rw [surrogates_std _ (by omega) (by have := char_lt ch; omega)]
    rw [hu]
    obtain ⟨k, hk⟩ : ∃ k : Nat, n.toNat = k + 1 := ⟨n.toNat - 1, by omega⟩
    rw [hk, List.take_succ_cons]
    by_cases hz : n - 1 = 0
    · have : k = 0 := by omega
      subst this
      simp [contN, hz, Std.utf16]
    · rw [ih ht (n - 1) (by omega)]
      have : (n - 1).toNat = k := by omega
      simp [contN, hz, Std.utf16, this]

/-- likewise `utf16toUtf8`: a positive budget `n` yields the UTF-8 of the first `n` characters (pairs count once) -/
theorem budget_utf16toUtf8 (cs : List Char) (h : NoNul cs) (junk : List Int) (n : Int) (hn : 0 < n) :
    utf16toUtf8 ((Std.utf16 cs).map Int.ofNat ++ 0 :: junk) n = some (Std.utf8 (cs.take n.toNat)) := by
  induction cs generalizing n with
  | nil => rw [utf16toUtf8.eq_def]; simp [Std.utf16, Std.utf8]
  | cons ch t ih =>
    have h0 : ch.toNat ≠ 0 := h ch (by simp)
    have ht : NoNul t := fun c hc => h c (by simp [hc])
    simp only [Std.utf16, List.flatMap_cons, List.map_append, List.append_assoc] at *
    obtain ⟨k, hk⟩ : ∃ k : Nat, n.toNat = k + 1 := ⟨n.toNat - 1, by omega⟩
    rw [hk, List.take_succ_cons]
    have hrest : ∀ (pre : List UInt8),
        contB pre n (utf16toUtf8 (List.map Int.ofNat (List.flatMap (fun c => Std.utf16Char c.toNat) t) ++ 0 :: junk) (n - 1))
          = some (pre ++ Std.utf8 (t.take k)) := by
      intro pre
      by_cases hz : n - 1 = 0
      · have : k = 0 := by omega
        subst this
        simp [contB, hz, Std.utf8]
      · rw [ih ht (n - 1) (by omega)]
        have : (n - 1).toNat = k := by omega
        simp [contB, hz, this]
    by_cases hb : ch.toNat < 65536
    · have hu : Std.utf16Char ch.toNat = [ch.toNat] := by simp [Std.utf16Char, hb]
      rw [hu]
      simp only [List.map_cons, List.map_nil, List.cons_append, List.nil_append]
      rw [show Int.ofNat ch.toNat = (ch.toNat : Int) from rfl, e16_bmp ch h0 hb, hrest]
      simp [Std.utf8]
    · have hu : Std.utf16Char ch.toNat = [(ch.toNat - 0x10000) / 0x400 + 0xD800, (ch.toNat - 0x10000) % 0x400 + 0xDC00] := by
        simp [Std.utf16Char, hb]
      rw [hu]
      simp only [List.map_cons, List.map_nil, List.cons_append, List.nil_append]
      have := e16_pair ch (by omega) (List.map Int.ofNat (List.flatMap (fun c => Std.utf16Char c.toNat) t) ++ 0 :: junk) n
      simp only [Int.ofNat_eq_natCast] at *
      rw [this, hrest]
      simp [Std.utf8]

example : utf8toUtf16 ([0xF0, 0x9F, 0x98, 0x80, 0x41, 0x42] ++ [0]) 2 = some [0xD83D, 0xDE00, 0x41] := by decide +kernel
example : utf16toUtf8 [0xD83D, 0xDE00, 0x41, 0x42, 0] 2 = some [0xF0, 0x9F, 0x98, 0x80, 0x41] := by decide +kernel

/-! ## G obligations: buffer sizes, unit budgets and the scratch offset regenerated from `src/String.cpp` -/

/-- the expressions the String methods hand to the converters, as regenerated from the source on every run,
    are the ones the model (and so every `utf_safe_*` / `fixW_*` theorem) uses -/
theorem alloc_exprs_from_source (len n : Nat) :
    datawResizeArg len = datawNeed len ∧ datawOffset len = wideOffset len ∧ fixWOffset len = wideOffset len ∧
    fromWideInit n = 4 * n ∧ fromWideArrInit n = 4 * n ∧ fromCodesSize n = 4 * n ∧ fromCodesBudget n = n + 1 ∧
    fromCodeSize = 4 ∧ fromCodeBudget = 1 ∧ charsRoom len = len + 1 ∧ charsBudget len = len := by
  refine ⟨rfl, rfl, rfl, rfl, rfl, ?_, rfl, rfl, rfl, rfl, rfl⟩
  unfold fromCodesSize; omega

/-- the safety statements restated directly over the regenerated expressions: with the sizes and budgets the
    source has NOW, for every byte string `s`, every 32-bit `codes`/`c`/`w`: `chars()` stays inside `Array<int>(…)`,
    `fromCodes`/`fromCode` inside `String(…, 0)` (+1 terminator), `String(wchar_t*)`/`String(Array<wchar_t>)` inside
    `cap()` after `init(…)`, and `dataw()` stores units and terminator between `offset` and the end of the
    `resize(…)`d buffer (`resize(m)` provides `m + 1` bytes) -/
theorem utf_safe_source_sizes (s : List UInt8) (codes : List Int) (c : Int) (w : List Int) :
    (∃ out, utf8toUtf32 (mem s) (charsBudget s.length) = some out ∧ out.length + 1 ≤ charsRoom s.length) ∧
    (∃ out, utf32toUtf8 (codes ++ [0]) (fromCodesBudget codes.length) = some out ∧
        out.length + 1 ≤ fromCodesSize codes.length + 1) ∧
    (∃ out, utf32toUtf8 [c, 0] fromCodeBudget = some out ∧ out.length + 1 ≤ fromCodeSize + 1) ∧
    (∃ out, utf16toUtf8 (w ++ [0]) (capAfterInit (fromWideArrInit w.length)) = some out ∧
        out.length + 1 ≤ capAfterInit (fromWideArrInit w.length)) ∧
    (∃ u, utf8toUtf16 (mem s) s.length = some u ∧
        datawOffset s.length + 4 * (u.length + 1) ≤ datawResizeArg s.length + 1) := by
  obtain ⟨_, ⟨o1, h1, l1⟩, _, ⟨u, h4, l4⟩⟩ := utf_safe_string s
  obtain ⟨⟨o2, h2, l2⟩, ⟨o3, h3, l3⟩, _⟩ := utf_safe_constructors codes c [0] (by simp [hasZero])
  refine ⟨⟨o1, h1, l1⟩, ⟨o2, ?_, ?_⟩, ⟨o3, h3, l3⟩, ?_, ⟨u, h4, ?_⟩⟩
  · unfold fromCodes at h2; unfold fromCodesBudget; exact_mod_cast h2
  · unfold fromCodesSize; omega
  · obtain ⟨_, ⟨o, h1, l1⟩⟩ := utf_safe_encoders (w ++ [0]) (capAfterInit (fromWideArrInit w.length)) (by simp [hasZero])
    refine ⟨o, h1, ?_⟩
    have := ilen_append_zero w
    unfold fromWideArrInit capAfterInit
    split <;> omega
  · unfold wideRoom wideOffset at l4
    unfold datawOffset datawResizeArg
    rw [and3, and3] at *
    omega

example : datawOffset 5 = 8 ∧ datawResizeArg 5 = 34 ∧ fromCodesBudget 3 = 4 := by decide

/-! ## case mapping of valid text is valid text with as many characters -/

theorem raw_enc {v : Nat} {bs rest : List UInt8} (h : Enc v bs) :
    enumRaw (bs ++ rest) = (enumRaw rest).map ((v, bs) :: ·) := by
  cases h with
  | one v h0 h =>
    have t1 := ofNat_toNat_lt (x := v) (by omega)
    have z1 := ofNat_ne_zero (x := v) (by omega) h0
    conv => lhs; rw [List.cons_append, List.nil_append, enumRaw.eq_def]
    simp only [z1, if_false, t1, is1_true h, if_true]
  | two a r ha hr hv =>
    have t1 := ofNat_toNat_lt (x := 192 + a) (by omega)
    have t2 := ofNat_toNat_lt (x := 128 + r) (by omega)
    have z1 := ofNat_ne_zero (x := 192 + a) (by omega) (by omega)
    have z2 := ofNat_ne_zero (x := 128 + r) (by omega) (by omega)
    conv => lhs; rw [List.cons_append, List.cons_append, List.nil_append, enumRaw.eq_def]
    simp only [z1, z2, if_false, t1, t2, is1_false (x := 192 + a) (by omega) (by omega),
      is2_true (x := 192 + a) (by omega) (by omega), if_true, code2_eq a r ha hr, Bool.false_eq_true]
  | three a b r ha hb hr hv =>
    have t1 := ofNat_toNat_lt (x := 224 + a) (by omega)
    have t2 := ofNat_toNat_lt (x := 128 + b) (by omega)
    have t3 := ofNat_toNat_lt (x := 128 + r) (by omega)
    have z1 := ofNat_ne_zero (x := 224 + a) (by omega) (by omega)
    have z2 := ofNat_ne_zero (x := 128 + b) (by omega) (by omega)
    have z3 := ofNat_ne_zero (x := 128 + r) (by omega) (by omega)
    conv => lhs; rw [List.cons_append, List.cons_append, List.cons_append, List.nil_append, enumRaw.eq_def]
    simp only [z1, z2, z3, if_false, t1, t2, t3, is1_false (x := 224 + a) (by omega) (by omega),
      is2_false (x := 224 + a) (by omega) (by omega), is3_true (x := 224 + a) (by omega) (by omega), if_true,
      code3_eq a b r ha hb hr, Bool.false_eq_true]
  | four a b c r ha hb hc hr hv =>
    have t1 := ofNat_toNat_lt (x := 240 + a) (by omega)
    have t2 := ofNat_toNat_lt (x := 128 + b) (by omega)
    have t3 := ofNat_toNat_lt (x := 128 + c) (by omega)
    have t4 := ofNat_toNat_lt (x := 128 + r) (by omega)
    have z1 := ofNat_ne_zero (x := 240 + a) (by omega) (by omega)
    have z2 := ofNat_ne_zero (x := 128 + b) (by omega) (by omega)
    have z3 := ofNat_ne_zero (x := 128 + c) (by omega) (by omega)
    have z4 := ofNat_ne_zero (x := 128 + r) (by omega) (by omega)
    conv => lhs; rw [List.cons_append, List.cons_append, List.cons_append, List.cons_append, List.nil_append,
      enumRaw.eq_def]
    simp only [z1, z2, z3, z4, if_false, t1, t2, t3, t4, is1_false (x := 240 + a) (by omega) (by omega),
      is2_false (x := 240 + a) (by omega) (by omega), is3_false (x := 240 + a) (by omega) (by omega),
      code4_eq a b c r ha hb hc hr, Bool.false_eq_true]

theorem raw_std (cs : List Char) (h : NoNul cs) :
    enumRaw (mem (Std.utf8 cs)) = some (cs.map fun c => (c.toNat, String.utf8EncodeChar c)) := by
  unfold mem
  induction cs with
  | nil => rw [show Std.utf8 [] = [] from rfl, List.nil_append]; unfold enumRaw; simp
  | cons ch t ih =>
    have ht : NoNul t := fun c hc => h c (by simp [hc])
    simp only [Std.utf8, List.flatMap_cons, List.append_assoc] at *
    rw [raw_enc (enc_char ch (h ch (by simp))), ih ht]
    simp

theorem enc_unique {v v' : Nat} {bs bs' : List UInt8} (h1 : Enc v bs) (h2 : Enc v' bs') (e : v = v') : bs = bs' := by
  cases h1 <;> cases h2 <;> first
    | (exfalso; omega)
    | (subst e; rfl)
    | (rename_i a r _ _ _ a' r' _ _ _
       have : a = a' ∧ r = r' := by omega
       obtain ⟨x, y⟩ := this; subst x; subst y; rfl)
    | (rename_i a b r _ _ _ _ a' b' r' _ _ _ _
       have : a = a' ∧ b = b' ∧ r = r' := by omega
       obtain ⟨x, y, z⟩ := this; subst x; subst y; subst z; rfl)
    | (rename_i a b c r _ _ _ _ _ a' b' c' r' _ _ _ _ _
       have : a = a' ∧ b = b' ∧ c = c' ∧ r = r' := by omega
       obtain ⟨x, y, z, w⟩ := this; subst x; subst y; subst z; subst w; rfl)

/-- a 1- or 2-byte encoding is the standard UTF-8 of a non-NUL `Char` -/
theorem enc_is_char {v : Nat} {bs : List UInt8} (h : Enc v bs) (hv : v < 0xD800) (h0 : v ≠ 0) :
    ∃ ch : Char, ch.toNat ≠ 0 ∧ String.utf8EncodeChar ch = bs := by
  have ht : (Char.ofNat v).toNat = v := by
    simp [Char.ofNat, Nat.isValidChar, hv, Char.ofNatAux, Char.toNat]
  refine ⟨Char.ofNat v, by omega, ?_⟩
  exact enc_unique (enc_char (Char.ofNat v) (by omega)) h ht

theorem mapCode_char (t : Array UInt8) (cut : Nat) (h1 : allPairs shapeOK 0 t.toList = true)
    (h2 : allPairs shape2OK 0 t.toList = true) (hsz : cut * 2 ≤ t.size) (c : Char) (h0 : c.toNat ≠ 0) :
    ∃ ch : Char, ch.toNat ≠ 0 ∧ mapCode t cut c.toNat = String.utf8EncodeChar ch := by
  unfold mapCode
  split
  · rename_i hlt
    have f1 := table_fact shapeOK t h1 c.toNat (by omega)
    have f2 := table_fact shape2OK t h2 c.toNat (by omega)
    unfold tableBytes
    simp only
    generalize t.getD (c.toNat * 2) 0 = a at *
    generalize t.getD (c.toNat * 2 + 1) 0 = b at *
    unfold shapeOK at f1; unfold shape2OK at f2
    by_cases hb : b = 0
    · subst hb
      simp only [beq_self_eq_true, Bool.or_true, Bool.true_and, if_true, decide_eq_true_eq, Bool.or_eq_true,
        beq_iff_eq, bne_iff_ne, ne_eq] at f1 f2
      have ha0 : a ≠ 0 := by
        rcases f2 with f2 | f2
        · exact absurd f2 h0
        · exact f2
      have hlt := UInt8.lt_iff_toNat_lt.mp f1
      have n0 : (128 : UInt8).toNat = 128 := rfl
      rw [n0] at hlt
      have hne : a.toNat ≠ 0 := fun e => ha0 (by rw [← UInt8.ofNat_toNat (x := a), e]; rfl)
      obtain ⟨ch, hc0, he⟩ := enc_is_char (Enc.one a.toNat hne hlt) (by omega) hne
      refine ⟨ch, hc0, ?_⟩
      rw [he, UInt8.ofNat_toNat]; simp
    · have hb' : (b == 0) = false := by simpa using hb
      simp only [hb', Bool.or_false, Bool.false_eq_true, if_false, Bool.and_eq_true, decide_eq_true_eq] at f1 f2
      obtain ⟨g1, g2, g3, g4⟩ := f2
      have e1 := UInt8.le_iff_toNat_le.mp g1
      have e2 := UInt8.lt_iff_toNat_lt.mp g2
      have e3 := UInt8.le_iff_toNat_le.mp g3
      have e4 := UInt8.lt_iff_toNat_lt.mp g4
      have n1 : (0xC2 : UInt8).toNat = 194 := rfl
      have n2 : (0xE0 : UInt8).toNat = 224 := rfl
      have n3 : (0x80 : UInt8).toNat = 128 := rfl
      have n4 : (0xC0 : UInt8).toNat = 192 := rfl
      rw [n1] at e1; rw [n2] at e2; rw [n3] at e3; rw [n4] at e4
      have E := Enc.two (a.toNat - 192) (b.toNat - 128) (by omega) (by omega) (by omega)
      rw [show 192 + (a.toNat - 192) = a.toNat by omega, show 128 + (b.toNat - 128) = b.toNat by omega,
        UInt8.ofNat_toNat, UInt8.ofNat_toNat] at E
      obtain ⟨ch, hc0, he⟩ := enc_is_char E (by omega) (by omega)
      refine ⟨ch, hc0, ?_⟩
      rw [he]; simp [hb]
  · exact ⟨c, h0, by rw [reencode_eq _ h0, enc32_char]⟩

theorem caseMap_valid (t : Array UInt8) (cut : Nat) (h1 : allPairs shapeOK 0 t.toList = true)
    (h2 : allPairs shape2OK 0 t.toList = true) (hsz : cut * 2 ≤ t.size) (cs : List Char) (h : NoNul cs) :
    ∃ out : List Char, NoNul out ∧ out.length = cs.length ∧ caseMap t cut (Std.utf8 cs) = some (Std.utf8 out) := by
  unfold caseMap
  rw [raw_std cs h]
  simp only [Option.map_some, Option.some.injEq]
  induction cs with
  | nil => exact ⟨[], by intro c hc; simp at hc, rfl, rfl⟩
  | cons ch tl ih =>
    have ht : NoNul tl := fun c hc => h c (by simp [hc])
    obtain ⟨out, ho, hl, he⟩ := ih ht
    obtain ⟨c', hc0, hm⟩ := mapCode_char t cut h1 h2 hsz ch (h ch (by simp))
    refine ⟨c' :: out, ?_, by simp [hl], ?_⟩
    · intro c hc
      rcases List.mem_cons.mp hc with e | e
      · subst e; exact hc0
      · exact ho c e
    · simp only [List.map_cons, List.flatMap_cons, Std.utf8]
      rw [he]
      simp only [mapGroup, h ch (by simp), if_false, hm, Std.utf8]

/-- on valid text the case functions return valid text (standard UTF-8 of non-NUL scalar values) with the
    same number of characters — for every sequence of scalar values -/
theorem case_valid_text (cs : List Char) (h : NoNul cs) :
    (∃ up : List Char, NoNul up ∧ up.length = cs.length ∧ toUpperCase (Std.utf8 cs) = some (Std.utf8 up)) ∧
    (∃ lo : List Char, NoNul lo ∧ lo.length = cs.length ∧ toLowerCase (Std.utf8 cs) = some (Std.utf8 lo)) :=
  ⟨caseMap_valid _ _ upper_shape upper_shape2 table_reads_in_bounds.1 cs h,
   caseMap_valid _ _ lower_shape lower_shape2 table_reads_in_bounds.2.1 cs h⟩

example : toUpperCase (Std.utf8 ['a', 'é']) = some (Std.utf8 ['A', 'É']) := by decide +kernel

/-- corollary: on valid text `count()`, `chars().length()` and the number of iteration steps are the same before and
    after `toUpperCase()` / `toLowerCase()` -/
theorem case_preserves_count (cs : List Char) (h : NoNul cs) :
    ∃ up lo, toUpperCase (Std.utf8 cs) = some up ∧ toLowerCase (Std.utf8 cs) = some lo ∧
      count up = some cs.length ∧ count lo = some cs.length ∧
      (chars up).map List.length = some cs.length ∧ (chars lo).map List.length = some cs.length ∧
      (iter up).map List.length = some cs.length ∧ (iter lo).map List.length = some cs.length := by
  obtain ⟨⟨u, hu, lu, eu⟩, ⟨l, hl, ll, el⟩⟩ := case_valid_text cs h
  obtain ⟨a1, a2, a3⟩ := count_chars_iter_agree u hu
  obtain ⟨b1, b2, b3⟩ := count_chars_iter_agree l hl
  refine ⟨_, _, eu, el, by rw [a1, lu], by rw [b1, ll], ?_, ?_, ?_, ?_⟩
  · rw [a2]; simp [Std.codes, lu]
  · rw [b2]; simp [Std.codes, ll]
  · rw [a3]; simp [lu]
  · rw [b3]; simp [ll]

example : (toLowerCase (Std.utf8 ['A', 'É', '€'])).bind count = some 3 := by decide +kernel

/-! ## extension round: U+0000, `wlength()`, `equalsNocase` as an equivalence -/

theorem countFrom_std_junk (cs : List Char) (h : NoNul cs) (junk : List UInt8) :
    countFrom (Std.utf8 cs ++ 0 :: junk) = some cs.length := by
  induction cs with
  | nil => rw [show Std.utf8 [] = [] from rfl, List.nil_append]; unfold countFrom; simp
  | cons ch t ih =>
    have ht : NoNul t := fun c hc => h c (by simp [hc])
    simp only [Std.utf8, List.flatMap_cons, List.append_assoc] at *
    rw [count_enc _ (enc_char ch (h ch (by simp))), ih ht]
    simp

theorem enumAll_std_junk (cs : List Char) (h : NoNul cs) (junk : List UInt8) :
    enumAll (Std.utf8 cs ++ 0 :: junk) = some (cs.map fun c => (c.toNat, c.utf8Size)) := by
  induction cs with
  | nil => rw [show Std.utf8 [] = [] from rfl, List.nil_append]; unfold enumAll; simp
  | cons ch t ih =>
    have ht : NoNul t := fun c hc => h c (by simp [hc])
    have he := enc_char ch (h ch (by simp))
    simp only [Std.utf8, List.flatMap_cons, List.append_assoc] at *
    rw [enum_enc _ he, ih ht]
    simp [String.length_utf8EncodeChar]

/-- U+0000, the one scalar value `NoNul` excludes: every converter treats it as the terminator. -/
theorem nul_truncates (cs : List Char) (h : NoNul cs) (rest : List Int) (tail : List UInt8) :
    fromCodes ((Std.codes cs).map Int.ofNat ++ 0 :: rest) = some (Std.utf8 cs) ∧
    count (Std.utf8 cs ++ 0 :: tail) = some cs.length ∧
    chars (Std.utf8 cs ++ 0 :: tail) = some (Std.codes cs) ∧
    iter (Std.utf8 cs ++ 0 :: tail) = some (cs.map fun c => (c.toNat, c.utf8Size)) ∧
    dataw (Std.utf8 cs ++ 0 :: tail) = some (Std.utf16 cs) := by
  have hl := utf8_length_ge cs h
  refine ⟨?_, ?_, ?_, ?_, ?_⟩
  · unfold fromCodes
    rw [List.append_assoc]
    apply utf32toUtf8_std cs h
    right; simp only [Std.codes, List.length_append, List.length_map, List.length_cons]; omega
  · unfold count mem
    rw [List.append_assoc]
    exact countFrom_std_junk cs h _
  · unfold chars mem
    rw [List.append_assoc]
    apply utf8toUtf32_std cs h
    right; simp only [List.length_append, List.length_cons]; omega
  · unfold iter mem
    rw [List.append_assoc]
    exact enumAll_std_junk cs h _
  · unfold dataw mem
    rw [List.append_assoc]
    apply utf8toUtf16_std cs h
    simp only [List.length_append, List.length_cons]; omega

example : fromCodes [0x41, 0, 0x42] = some [0x41] := by decide +kernel
example : chars [0xC3, 0xA9, 0, 0x42] = some [233] := by decide +kernel

theorem wcs_len_le (o : List Nat) : (wcs o).length ≤ o.length := by
  unfold wcs
  induction o with
  | nil => simp
  | cons a t ih => simp only [List.takeWhile_cons]; split <;> simp <;> omega

/-- `wlength()` on valid text is the number of UTF-16 code units -/
theorem wlength_std (cs : List Char) (h : NoNul cs) :
    wlength (Std.utf8 cs) = some (Std.utf16 cs).length := by
  unfold wlength
  rw [utf8_utf16_std cs h]
  simp only [Option.map_some, wcs]
  rw [takeWhile_ne_zero_nat _ (utf16_ne_zero cs h)]

/-- `wlength()` on every byte string: inside the buffers, and never more units than bytes -/
theorem wlength_safe (s : List UInt8) : ∃ n, wlength s = some n ∧ n ≤ s.length := by
  obtain ⟨_, _, _, ⟨w, hw, _⟩⟩ := utf_safe_string s
  have hm := hasNul_mem s
  obtain ⟨_, ⟨o2, h2, l2⟩, _, _⟩ := utf_safe_readers (mem s) s.length hm
  have hl := strlen_mem s
  refine ⟨(wcs o2).length, ?_, ?_⟩
  · unfold wlength dataw; rw [h2]; rfl
  · have : (wcs o2).length ≤ o2.length := by
      exact wcs_len_le o2
    omega

example : wlength [0xF0, 0x9F, 0x98, 0x80, 0x41] = some 3 := by decide +kernel

/-- `equalsNocase` is an equivalence relation on ALL byte strings (well-formed or not) -/
theorem nocase_equivalence (s t u : List UInt8) :
    equalsNocase s s = some true ∧
    equalsNocase s t = equalsNocase t s ∧
    (equalsNocase s t = some true → equalsNocase t u = some true → equalsNocase s u = some true) := by
  obtain ⟨e1, a1, b1, he1, ha1, hb1, i1⟩ := nocase_iff_lower_eq s s
  obtain ⟨e2, a2, b2, he2, ha2, hb2, i2⟩ := nocase_iff_lower_eq s t
  obtain ⟨e3, a3, b3, he3, ha3, hb3, i3⟩ := nocase_iff_lower_eq t s
  obtain ⟨e4, a4, b4, he4, ha4, hb4, i4⟩ := nocase_iff_lower_eq t u
  obtain ⟨e5, a5, b5, he5, ha5, hb5, i5⟩ := nocase_iff_lower_eq s u
  have x1 : a1 = b1 := by rw [ha1] at hb1; exact Option.some.inj hb1
  have x2 : a2 = b3 := by rw [ha2] at hb3; exact Option.some.inj hb3
  have x3 : b2 = a3 := by rw [hb2] at ha3; exact Option.some.inj ha3
  have x4 : a4 = b2 := by rw [ha4] at hb2; exact Option.some.inj hb2
  have x5 : a5 = a2 := by rw [ha5] at ha2; exact Option.some.inj ha2
  have x6 : b5 = b4 := by rw [hb5] at hb4; exact Option.some.inj hb4
  refine ⟨?_, ?_, ?_⟩
  · rw [he1]; congr 1; exact i1.mpr x1
  · rw [he2, he3]; congr 1
    cases e2 <;> cases e3 <;> simp_all
  · intro p q
    rw [he2] at p; rw [he4] at q; rw [he5]
    have p' : e2 = true := Option.some.inj p
    have q' : e4 = true := Option.some.inj q
    congr 1
    apply i5.mpr
    rw [x5, x6, i2.mp p', ← x4, i4.mp q']

example : equalsNocase [0xC3, 0x89] [0xC3, 0xA9] = some true ∧ equalsNocase [0xC3, 0xA9] [0xC3, 0x89] = some true := by
  decide +kernel

/-! ## the repaired defect, kept as a witness

Before commit 4ac590f `count()` skipped the byte after a 2-byte lead without reading it: on a string that
ends in such a lead the next read is outside the allocation.  `countFromOld` transcribes that code. -/

theorem count_trunc2_counterexample : countFromOld (mem [0xC2]) = none := by decide
theorem count_trunc2_repaired : count [0xC2] = some 1 := by decide

/-! ## non-vacuity / sanity instances (tests, labelled as such) -/

example : NoNul ['a', 'é', '€', '😀'] := by unfold NoNul; decide
example : fromCodes [97, 233, 8364, 128512] = some [0x61, 0xC3, 0xA9, 0xE2, 0x82, 0xAC, 0xF0, 0x9F, 0x98, 0x80] := by
  decide +kernel
example : chars [0x61, 0xC3, 0xA9, 0xE2, 0x82, 0xAC, 0xF0, 0x9F, 0x98, 0x80] = some [97, 233, 8364, 128512] := by
  decide +kernel
example : dataw [0xF0, 0x9F, 0x98, 0x80] = some [0xD83D, 0xDE00] := by decide +kernel
example : fromWide [0xD83D, 0xDE00, 0] = some [0xF0, 0x9F, 0x98, 0x80] := by decide +kernel
-- ill-formed input: a stray continuation byte is the catch-all 4-byte case of the enumerator, skipped by `chars()`
example : iter [0x80, 0x41, 0x42, 0x43, 0x44] = some [(0x1083, 4), (0x44, 1)] := by decide +kernel
example : chars [0x80, 0x41, 0x42, 0x43, 0x44] = some [0x41, 0x42, 0x43, 0x44] := by decide +kernel
-- truncated at the very end of the buffer: every reader stops at the terminator
example : iter [0x41, 0xE2, 0x82] = some [(0x41, 1), (0, 2)] := by decide +kernel
example : hasNul (mem [0x41, 0xE2, 0x82]) = true := by decide
-- "ÉCOLE" / "école"
example : equalsNocase [0xC3, 0x89, 0x43] [0xC3, 0xA9, 0x63] = some true := by decide +kernel
example : toLowerCase [0xC3, 0x89, 0x43] = some [0xC3, 0xA9, 0x63] := by decide +kernel
-- the scratch area filled to the last unit with 3-byte characters: the write cursor stays below the read cursor
example : (match fixwOp 1 [8364, 8364, 8364] with | .ok o => o == [0xE2, 0x82, 0xAC, 0xE2, 0x82, 0xAC] | .error _ => false) = true := by
  decide +kernel
-- the faults are representable: a write cursor that starts ahead of the read cursor destroys the next unit;
-- a scratch area without terminator is read past the buffer
example : (match fixWLoop 0 64 [0x20AC, 0x20AC, 0] 0 5 64 with | .error f => f == Fault.overtake | .ok _ => false) = true := by
  decide +kernel
example : (match fixWLoop 4 12 [0x41, 0x42] 0 0 12 with | .error f => f == Fault.oobRead | .ok _ => false) = true := by
  decide +kernel
-- Linux `wchar_t` has 32 bits but the library treats every unit as a UTF-16 code unit: a native wide literal above
-- U+FFFF (`L"\\U0001F600"`, one unit 0x1F600) takes the 3-byte branch with a truncated lead byte — in bounds, ill-formed
-- output, outside the property (recorded in outside_findings.txt); the model says what the code does on this platform
example : fromWide [0x1F600, 0] = some [0xFF, 0x98, 0x80] := by decide +kernel
-- the two-byte table cannot hold 3-byte images (U+023F ȿ ↦ U+2C7E): such code points map to themselves (repaired in b3f3f80;
-- the entries used to be the cut-off first two bytes E2 B1)
example : toUpperCase [0xC8, 0xBF] = some [0xC8, 0xBF] := by decide +kernel
-- undecodable bytes are copied through and compared as they are (repaired in 8124a21; they used to become a NUL byte)
example : toUpperCase [0x61, 0x62, 0xC3] = some [0x41, 0x42, 0xC3] := by decide +kernel
example : toLowerCase [0x41, 0xC0, 0x80, 0x42] = some [0x61, 0xC0, 0x80, 0x62] := by decide +kernel
example : equalsNocase [0x61, 0x62, 0xC3] [0x41, 0x42, 0xC3] = some true := by decide +kernel
example : equalsNocase [0x61, 0x62, 0xC3] [0x41, 0x42, 0xE2] = some false := by decide +kernel

end C08
