import AslModel.HttpParse
/-!
# C09 — HTTP request parsing is total and safe and never yields a path containing `..`
(work in progress: theorems are added below)
-/
namespace C09
open AslModel.HttpParse

theorem placeholder_true : hasDD [] = false := rfl

end C09
