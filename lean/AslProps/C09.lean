import AslModel.HttpParse
import AslProofs.HttpParse
import AslProofs.HttpDispatch
import AslProofs.HttpQuery
import AslProofs.HttpRange
import AslProofs.HttpExpect
/-!
# C09 — HTTP request parsing is total and safe and never yields a path containing `..`

Property theorems only (helper lemmas: `AslProofs/HttpParse.lean`).  All statements are about the functions
the model driver runs (`read`, `serve`, `parseUrl`, `urlDecode`, `parseTarget`, …, `AslModel/HttpParse.lean`),
for *every* byte list — the stream the peer sends before it closes, at any offset.

How to read the model's result type `M α = Except Fault α`:
* `Fault.oob`  — the code would index outside a string's storage (`s[i]`, `substring(i, j)`, `strchr(p + i0, …)`);
* `Fault.spin` — a loop would still be running after `length + c` passes, i.e. it made a pass without consuming
  a byte and without leaving.
"Total and in bounds" is therefore `∃ r, f x = .ok r`.
-/
namespace C09
open AslModel.HttpParse AslProofs.HttpParse AslProofs.HttpDispatch

/-! ## specifications (written from the property text, not from the code) -/

/-- no two consecutive `.` anywhere in the `length()` bytes of the string -/
def NoDotDot (p : Bytes) : Prop := ∀ i, i + 1 < p.length → ¬ (p.getD i 0 = 46 ∧ p.getD (i + 1) 0 = 46)

/-- bytes are consumed from the front only, each at most once: what is left unread is a suffix of what was unread -/
def ConsumesPrefix (before after : Sock) : Prop := ∃ w, before.inp = w ++ after.inp

/-! ## the decoded path never contains `..` -/

/-- leftmost non-overlapping removal (`String::replace("..", "")`) leaves no `..`, for every string -/
theorem replace_removes_all (s : Bytes) : NoDotDot (rmDD s) :=
  (hasDD_false_iff _).mp (rmDD_noDD s)

/-- for every raw path (any bytes, any percent-encoding, any repetition): decode, cut at NUL, sanitise ⇒ no `..`,
    and no index fault on the way -/
theorem no_dotdot_target (res : Bytes) : ∃ t, parseTarget res = .ok t ∧ NoDotDot t.path := by
  obtain ⟨t, ht, hdd, _⟩ := parseTarget_ok res
  exact ⟨t, ht, (hasDD_false_iff _).mp hdd⟩

/-- whatever stream arrives on the connection, the request that `HttpRequest(Socket&)` builds has no `..` in `path()` -/
theorem no_dotdot (s : Sock) : ∃ r, AslModel.HttpParse.read s = .ok r ∧ NoDotDot r.1.path := by
  obtain ⟨r, hr, _, _, hdd, _⟩ := read_ok s
  exact ⟨r, hr, (hasDD_false_iff _).mp hdd⟩

/-- every request the server loop hands to the application, on any connection, has no `..` in `path()`;
    so `_webroot + path` (`serveFile`) has no `..` component either -/
theorem no_dotdot_served (s : Sock) : ∃ r, serve s = .ok r ∧ ∀ q ∈ r.2, NoDotDot q.path := by
  obtain ⟨r, hr, _, hdd⟩ := serve_ok s
  exact ⟨r, hr, fun q hq => (hasDD_false_iff _).mp (hdd q hq)⟩

/-- the path is also NUL-free, so its `length()` bytes and its C string coincide (what `File` opens is what was checked) -/
theorem path_has_no_nul (s : Sock) : ∃ r, AslModel.HttpParse.read s = .ok r ∧ ∀ c ∈ r.1.path, c ≠ 0 := by
  obtain ⟨r, hr, _, _, _, hn⟩ := read_ok s
  exact ⟨r, hr, hn⟩

/-! ## totality: no spin, no out-of-bounds index, for every stream cut anywhere -/

/-- `HttpRequest::read` returns for every stream (EOF at any offset, any socket state), consuming input only from
    the front; on a live connection it consumes at least one byte -/
theorem read_total (s : Sock) :
    ∃ r, AslModel.HttpParse.read s = .ok r ∧ ConsumesPrefix s r.2 ∧ (Live s → r.2.inp.length < s.inp.length) := by
  obtain ⟨r, hr, _, hlt, _, _⟩ := read_ok s
  exact ⟨r, hr, read_suffix s r hr, hlt⟩

/-- the header reader ends within `|stream| + 2` passes on every stream -/
theorem readHeaders_total (s : Sock) : ∃ r, readHeaders s = .ok r ∧ ConsumesPrefix s r.1 := by
  obtain ⟨r, hr, _⟩ := readHeaders_ok s
  refine ⟨r, hr, ?_⟩
  unfold readHeaders at hr
  exact iterate_headers_suffix _ _ r hr

/-- the body reader (Content-Length countdown and chunked framing, any header values) ends within `|stream| + 2`
    passes on every stream: each pass consumes a byte or leaves.  (False for the code before fix c3aed7a.) -/
theorem readBody_total (s : Sock) (h : Dic) : ∃ r, readBody s h = .ok r ∧ ConsumesPrefix s r.1 := by
  obtain ⟨r, hr, _⟩ := readBody_ok s h
  exact ⟨r, hr, readBody_suffix s h r hr⟩

/-- the whole keep-alive loop of `HttpServer::serve(Socket)` (`serveLoop`) ends within `|stream| + 1` requests on every
    stream and leaves a suffix of the stream unread; `serve` is that loop followed by `closeBehind` (7f6f841) and returns
    with the connection closed on every exit of the loop (peer closed, Connection: close, HTTP/1.0, a refused request).
    The suffix clause is stated on the loop: after `closeBehind` has dropped the peer's remaining bytes it would be
    trivially true on every exit but the refused-request ones. -/
theorem serve_total (s : Sock) :
    ∃ r0, serveLoop s = .ok r0 ∧ ConsumesPrefix s r0.1 ∧
      serve s = .ok (closeBehind r0.1, r0.2) ∧ (closeBehind r0.1).closed = true := by
  obtain ⟨r0, hr, _, _⟩ := serveLoop_ok s
  exact ⟨r0, hr, serveLoop_suffix s r0 hr, serve_of_loop s r0 hr, closeBehind_closed r0.1⟩

/-- `Url::Url(s)` never indexes outside `s`, for every byte string.  (False before fix f8af29f: `"[/]:8"`.) -/
theorem url_total (u : Bytes) : ∃ r, parseUrl u = .ok r := parseUrl_ok u

/-- `Url::decode(s)` never reads outside `s` (the two bytes after a `%` exist or are the terminator), and computes
    percent-decoding as specified by `urlDecodeSpec`, for every byte string -/
theorem urldecode_total (q : Bytes) : urlDecode q = .ok (urlDecodeSpec q) := urlDecode_eq_spec q

/-- the request-line split and the target split never index out of bounds
    (False before fix a72691d: target `/a#b?c`.) -/
theorem requestline_total (cmd : Bytes) : ∃ r, parseRequestLine cmd = .ok r := parseRequestLine_ok cmd

theorem target_total (res : Bytes) : ∃ t, splitTarget res = .ok t := splitTarget_ok res

/-! ## headers are looked up case-insensitively -/

/-- the canonical capitalisation does not depend on the case the name was sent or asked in, and is idempotent -/
theorem capitalized_case_invariant (n : Bytes) :
    capitalized (n.map toLower) = capitalized n ∧ capitalized (n.map toUpper) = capitalized n ∧
    capitalized (capitalized n) = capitalized n :=
  ⟨capAux_lower true n, capAux_upper true n, capAux_idem true n⟩

theorem header_lookup_case_insensitive (h : Dic) (n : Bytes) :
    header h (n.map toLower) = header h n ∧ header h (n.map toUpper) = header h n ∧
    hasHeader h (n.map toLower) = hasHeader h n := by
  unfold header hasHeader
  rw [(capitalized_case_invariant n).1, (capitalized_case_invariant n).2.1]
  exact ⟨rfl, rfl, rfl⟩

/-- lookup ignores case altogether: two names that differ only in letter case (any mixture) find the same value -/
theorem header_lookup_any_case (h : Dic) (n n' : Bytes) (hn : n.map toLower = n'.map toLower) :
    header h n = header h n' ∧ hasHeader h n = hasHeader h n' := by
  have hc : capitalized n = capitalized n' := by
    rw [← (capitalized_case_invariant n).1, ← (capitalized_case_invariant n').1, hn]
  unfold header hasHeader
  rw [hc]
  exact ⟨rfl, rfl⟩

/-- a header that was received with a non-empty value is found under any spelling of its name -/
theorem header_set_get (h : Dic) (n v : Bytes) (hv : v ≠ []) :
    header (setHeader h n v) (n.map toLower) = v ∧ header (setHeader h n v) (n.map toUpper) = v ∧
    header (setHeader h n v) n = v := by
  have hlen : (v.length == 0) = false := by
    cases v with
    | nil => exact absurd rfl hv
    | cons a t => rfl
  have key : header (setHeader h n v) n = v := by
    unfold header setHeader
    simp only [hlen, Bool.false_eq_true, if_false]
    rw [dicFind_dicSet_same]
    rfl
  obtain ⟨h1, h2, _⟩ := header_lookup_case_insensitive (setHeader h n v) n
  exact ⟨h1.trans key, h2.trans key, key⟩

/-! ## dispatch implies a complete framed request ("either drop the connection or hand over the request sent")

`HeaderBlockD tail wire st h`: `tail` starts with LF-terminated lines up to and including the empty line, `wire` follows,
and folding the lines (`foldHeaderLine`: `name ":" value` stores the trimmed value under the name, a line starting with
white space continues the current field) from the state `st` gives exactly the dictionary `h`.
`BodyFramed h wire body rest`: `wire` starts with the complete body that the headers `h` announce — the chunk sequence
with its terminating chunk when `Transfer-Encoding: chunked` (whatever Content-Length says), else exactly the decimal
number of bytes written in Content-Length (a number below 2^31: no sign, no wrap-around), else nothing — `rest` follows.
`FramedIn stream q`: a segment of `stream` is such a request and `q` carries its method, target, protocol, headers, body. -/

/-- if `HttpRequest::read` returns a request that `HttpServer::serve` would dispatch (method present, connection
    healthy before and after), the unread stream began with a complete framed request — request line with its LF that
    splits into the method/target/protocol handed over, header block up to the empty line, the complete announced body
    which is the body handed over — and reading stopped right after it -/
theorem read_dispatch_complete (s : Sock) (r : Req) (s' : Sock) (hs : Healthy s)
    (h : AslModel.HttpParse.read s = .ok (r, s')) (hd : Healthy s') (hm : r.method ≠ []) :
    ∃ line tail wire, s.inp = line ++ 10 :: tail ∧ (∀ c ∈ line, c ≠ 10) ∧
      parseRequestLine line = .ok (some ⟨r.method, r.res, r.proto⟩) ∧
      HeaderBlockD tail wire ([], [], []) r.headers ∧ BodyFramed r.headers wire r.body s'.inp :=
  read_complete s r s' hs h hd hm

/-- **dispatch_implies_complete**: for every stream, every request the server loop hands to the application is a
    complete framed request occupying a segment of that stream, with exactly the fields of that segment.  So a stream
    the peer ends inside the request line, inside the header block, or before the last announced body byte is never
    dispatched. -/
theorem dispatch_implies_complete (stream : Bytes) (res : Sock × List Req) (h : serve { inp := stream } = .ok res) :
    ∀ q ∈ res.2, ∃ pre line tail wire post, stream = pre ++ (line ++ 10 :: tail) ∧ (∀ c ∈ line, c ≠ 10) ∧
      parseRequestLine line = .ok (some ⟨q.method, q.res, q.proto⟩) ∧
      HeaderBlockD tail wire ([], [], []) q.headers ∧ BodyFramed q.headers wire q.body post := serve_framed stream res h

/-- a request is dispatched only if its Content-Length, when present, is a plain decimal number below 2^31
    (`4294967301`, `-5`, `+5`, `5x` close the connection instead) -/
theorem dispatch_requires_valid_content_length (s : Sock) (h : Dic) (r : Sock × Bytes) (hr : readBody s h = .ok r)
    (hh : Healthy r.1) (hcl : hasHeader h sContentLength = true) :
    ∃ n, decimalValue (header h sContentLength) = some n ∧ n < 2 ^ 31 := by
  obtain ⟨n, h1, h2, _⟩ := validLength_spec _ ((readBody_inv s h r hr hh).2.2 hcl)
  exact ⟨n, h1, h2⟩

/-- the field names a dispatched header block can hold (`foldHeaderLine` accepts a `name: value` line only when
    `isFieldName name`): non-empty, every byte visible ASCII (0x21-0x7e) or >= 0x80 — so no blank, tab, other control
    character or DEL before the colon — and no `:`.  `isFieldName` is stated in the spec file independently of the
    model; the model's `validName` (transcribed from `readHeaders`) is proved equal to it.
    Note on the framing specification (`HeaderBlockD` / `foldHeaderLine` / `ChunkedWire` in AslProofs/HttpDispatch.lean):
    it describes the header-line grammar the library accepts and was revised with each reader repair (4dff910, 9bf376e,
    c2e6d14); for values it uses the model's `trimmed`, `cstr` and `storeHeader`. -/
theorem field_name_spec (n : Bytes) :
    (validName n = isFieldName n) ∧
    (isFieldName n = true ↔ n ≠ [] ∧ ∀ c ∈ n, (33 ≤ c ∧ c ≤ 126) ∨ 128 ≤ c) ∧
    (∀ (l : Bytes) (i : Nat), findByte 58 (cstr l) = some i → ∀ c ∈ l.take i, c ≠ 58) :=
  ⟨validName_eq_isFieldName n, isFieldName_iff n, fieldName_no_colon⟩

/-- a request is dispatched only if it has no Transfer-Encoding or its last transfer coding is chunked
    (`gzip`, `chunked, gzip`, `xchunked`: no determinable length, the connection is closed — fix 4dff910) -/
theorem dispatch_requires_framed_transfer_encoding (s : Sock) (r : Req) (s' : Sock)
    (h : AslModel.HttpParse.read s = .ok (r, s')) (hd : Healthy s') (hm : r.method ≠ []) :
    hasHeader r.headers sTransferEncoding = false ∨ isChunked (header r.headers sTransferEncoding) = true :=
  read_transfer_encoding s r s' h hd hm

/-! ## the decoded path is the path that was sent, and the file opened lies under the root -/

/-- `%xy` with hexadecimal digits in either letter case is the byte `16·x + y` -/
theorem percent_escape_value (a b : UInt8) (x y : Nat) (ha : hexVal a = some x) (hb : hexVal b = some y) :
    hexByte a b = UInt8.ofNat (16 * x + y) := hexByte_spec a b x y ha hb

/-- for a target without `?`/`#`: the path handed over is the percent-decoded target (cut at a decoded NUL), unchanged
    whenever that has no `..`; with `urldecode_total`, `percent_escape_value` and `urlDecodeSpec_plain` this says what
    the path *is*, not only what it does not contain -/
theorem decoded_path_is_path_sent (raw : Bytes) (hq : ∀ c ∈ raw, c ≠ 35 ∧ c ≠ 63)
    (hdd : hasDD (cstr (urlDecodeSpec raw)) = false) :
    ∃ t, parseTarget raw = .ok t ∧ t.path = cstr (urlDecodeSpec raw) ∧ t.query = [] ∧ t.fragment = [] :=
  parseTarget_plain raw hq hdd

/-- a target without `%` decodes to itself -/
theorem plain_target_unchanged (s : Bytes) (h : ∀ c ∈ s, c ≠ 37) : urlDecodeSpec s = s := urlDecodeSpec_plain s h

/-- **cannot be steered outside the root**: for every request the server loop dispatches, the name `serveFile`
    appends to the root (`localRel path`, the model of `_webroot + path` after fix 1bf672e) is `/` followed by a
    string without `..` and without NUL — so the file opened is `root/…` with no `..` component, and the C string the
    OS sees is the whole checked string.  (Before the fix `localRel` did not start with `/`: `root` + `x/s.txt`.) -/
theorem served_file_under_root (s : Sock) :
    ∃ r, serve s = .ok r ∧ ∀ q ∈ r.2, ∃ rel, localRel q.path = 47 :: rel ∧ NoDotDot (47 :: rel) ∧ ∀ c ∈ rel, c ≠ 0 := by
  obtain ⟨r, hr, _, _⟩ := serve_ok s
  refine ⟨r, hr, fun q hq => ?_⟩
  obtain ⟨hdd, hnul⟩ := serve_paths s r hr q hq
  obtain ⟨rel, h1, h2, h3⟩ := localRel_spec q.path hdd hnul
  exact ⟨rel, h1, (hasDD_false_iff _).mp h2, h3⟩

/-- a stream that ends before the first line terminator (cut inside method, target or protocol) dispatches nothing -/
theorem cut_in_request_line_not_dispatched (stream : Bytes) (res : Sock × List Req) (hn : ∀ c ∈ stream, c ≠ 10)
    (h : serve { inp := stream } = .ok res) : res.2 = [] := by
  cases hr : res.2 with
  | nil => rfl
  | cons q t =>
    obtain ⟨pre, line, tail, _, _, e, _⟩ := dispatch_implies_complete stream res h q (by rw [hr]; simp)
    exact absurd rfl (hn 10 (by rw [e]; simp))

/-! ## a well-formed request is handed over exactly as sent -/

/-- a line `ℓ LF` (no LF inside, at most 16001 bytes) at the head of a healthy connection is returned as `ℓ`, and
    exactly `ℓ LF` is consumed -/
theorem readLine_faithful (s : Sock) (line rest : Bytes) (he : s.err = 0) (hc : s.closed = false)
    (hi : s.inp = line ++ 10 :: rest) (h10 : ∀ c ∈ line, c ≠ 10) (hlen : line.length ≤ 16001) :
    s.readLine = (line, { s with inp := rest }) := readLine_line s line rest he hc hi h10 hlen

/-- `method SP target SP protocol` (method and target without space/NUL) splits into exactly these three;
    the protocol is anything up to the end of the line, trimmed -/
theorem requestline_faithful (m t p : Bytes) (hm : ∀ c ∈ m, c ≠ 32 ∧ c ≠ 0) (ht : ∀ c ∈ t, c ≠ 32 ∧ c ≠ 0) :
    parseRequestLine (m ++ 32 :: (t ++ 32 :: p)) = .ok (some ⟨m, t, trimmed p⟩) :=
  parseRequestLine_faithful m t p hm ht

/-- a block of well-formed header lines `name: value CRLF … CRLF` is consumed exactly and stored field by field under
    the canonical names (`hdrDic`); the bytes after the empty line stay unread -/
theorem headers_faithful (hs : List (Bytes × Bytes)) (rest : Bytes) (hok : HeadersOk hs) :
    readHeaders { inp := hdrBlock hs ++ 13 :: 10 :: rest } = .ok ({ inp := rest }, hdrDic hs) := by
  unfold readHeaders
  exact iterate_headers hs rest hok _ _ [] [] [] rfl rfl rfl
    (by have := hdrBlock_length hs; simp only [List.length_append, List.length_cons]; omega)

/-- `Content-Length: n` with the `n` bytes pending: the body is exactly those `n` bytes (any `n`, through the
    16000-byte blocks), and a pipelined next request stays unread.  (False before fix b6e8f47.) -/
theorem body_content_length_exact (s : Sock) (h : Dic) (body rest : Bytes) (he : s.err = 0) (hc : s.closed = false)
    (hi : s.inp = body ++ rest) (hpos : 0 < body.length) (hcl : hasHeader h sContentLength = true)
    (hvalid : validLength (header h sContentLength) = true)
    (hval : myatoi 32 (cstr (header h sContentLength)) = (body.length : Int))
    (hte : isChunked (header h sTransferEncoding) = false) :
    readBody s h = .ok ({ s with inp := rest }, body) :=
  readBody_content_length s h body rest he hc hi hpos hcl hvalid hval hte

/-- **read ∘ serialize = id** for every well-formed request without body or with a Content-Length body, followed by
    arbitrary further bytes `rest` (a pipelined request, or nothing): the application sees exactly the method, target,
    protocol, header fields and body that were sent, and `rest` is left on the connection.  The path/query/fragment
    are those of `parseTarget` (whose path is `..`-free by `no_dotdot_target`). -/
theorem read_faithful (q : WfReq) (rest : Bytes) (hw : WellFormed q) :
    ∃ t, parseTarget q.target = .ok t ∧
      AslModel.HttpParse.read { inp := serialize q ++ rest } =
        .ok ({ method := q.method, res := q.target, proto := q.proto, path := t.path, query := t.query,
               fragment := t.fragment, parts := t.parts, headers := hdrDic q.headers, body := q.body },
             { inp := rest }) := read_faithful_aux q rest hw

/-- the keep-alive loop of `HttpServer::serve` hands **every** pipelined well-formed request to the application, in the
    order sent, exactly once, and the loop itself has read the whole stream (`s0.inp = []` is stated on `serveLoop`,
    before `closeBehind` would make it trivially true) — for any number of requests of any sizes -/
theorem serve_faithful (qs : List WfReq) (hq : ∀ q ∈ qs, WellFormed q ∧ Dispatched q) :
    ∃ s0, serveLoop { inp := qs.flatMap serialize } = .ok (s0, qs.map reqOf) ∧ s0.inp = [] ∧ s0.err = 0 ∧
      serve { inp := qs.flatMap serialize } = .ok (closeBehind s0, qs.map reqOf) := by
  obtain ⟨s', h1, h2, h3⟩ := iterate_serve_pipelined qs hq ((qs.flatMap serialize).length + 1)
    { inp := qs.flatMap serialize } [] rfl rfl rfl (by have := flatMap_serialize_length qs; omega)
  have hloop : serveLoop { inp := qs.flatMap serialize } = .ok (s', qs.map reqOf) := by
    unfold serveLoop
    simpa using h1
  exact ⟨s', hloop, h2, h3, serve_of_loop _ _ hloop⟩

/-- **read ∘ serialize = id for chunked framing**: a well-formed head with `Transfer-Encoding: chunked` (and no
    Content-Length), any list of non-empty chunks of fewer than 2^31 bytes each in the canonical encoding
    (`"%x" CRLF data CRLF`, then `0 CRLF CRLF`), followed by arbitrary further bytes: the body handed over is the
    concatenation of the chunks and `rest` stays unread -/
theorem read_faithful_chunked (m t p : Bytes) (hs : List (Bytes × Bytes)) (chunks : List Bytes) (rest : Bytes)
    (hw : HeadOk m t p hs) (hch : ∀ d ∈ chunks, 0 < d.length ∧ d.length < 2 ^ 31)
    (hcl : hasHeader (hdrDic hs) sContentLength = false)
    (hte : isChunked (header (hdrDic hs) sTransferEncoding) = true) :
    ∃ tg, parseTarget t = .ok tg ∧
      AslModel.HttpParse.read
          { inp := m ++ 32 :: (t ++ 32 :: (p ++ 13 :: 10 :: (hdrBlock hs ++ 13 :: 10 :: (chunkedBody chunks ++ rest)))) } =
        .ok (mkReq m t p tg (hdrDic hs) chunks.flatten, { inp := rest }) :=
  read_faithful_chunked_canon m t p hs chunks rest hw hch hcl hte

/-- a chunk-size line in any other spelling the reader accepts (`chunkLineOk`: upper case, leading zeros up to 8 digits,
    blanks, `;extension`) works the same; its value is the data length (`ChunkOk.size`) -/
theorem read_faithful_chunked_any_spelling (s : Sock) (m t p : Bytes) (hs : List (Bytes × Bytes)) (cs : List Chunk)
    (sizeLine rest : Bytes) (hw : HeadOk m t p hs) (hcs : ∀ c ∈ cs, ChunkOk c)
    (hlf : ∀ b ∈ sizeLine, b ≠ 10) (hshort : sizeLine.length ≤ 16000) (hok : chunkLineOk (sizeLine ++ [13]) = true)
    (hz : hexToInt (sizeLine ++ [13]) = 0)
    (hcl : hasHeader (hdrDic hs) sContentLength = false)
    (hte : isChunked (header (hdrDic hs) sTransferEncoding) = true)
    (he : s.err = 0) (hc : s.closed = false)
    (hi : s.inp = m ++ 32 :: (t ++ 32 :: (p ++ 13 :: 10 :: (hdrBlock hs ++ 13 :: 10 ::
            (cs.flatMap Chunk.bytes ++ (sizeLine ++ 13 :: 10 :: 13 :: 10 :: rest)))))) :
    ∃ tg, parseTarget t = .ok tg ∧
      AslModel.HttpParse.read s = .ok (mkReq m t p tg (hdrDic hs) (cs.map Chunk.data).flatten, { s with inp := rest }) :=
  read_faithful_chunked_aux s m t p hs cs sizeLine rest hw hcs hlf hshort hok hz hcl hte he hc hi

/-- the dictionary `query()` hands to the application is the one C15's model of `Url::parseQuery` computes (C15 ties
    that model to the library and proves its round trip), for every NUL-free query string — request targets are -/
theorem query_is_c15_parseQuery (qs : Bytes) (h0 : ∀ c ∈ qs, c ≠ 0) :
    parseQuery qs = .ok (AslModel.Query.parseQuery qs) := AslProofs.HttpQuery.parseQuery_eq_c15 qs h0

/-- **query parameters are the ones sent**: for every sorted dictionary `d` with non-empty keys — any bytes in keys
    and values, including `&`, `=`, `+`, `%` — the query string `Url::params(d)` is parsed back to exactly `d`
    (escaped separators inside keys/values are not separators) -/
theorem query_roundtrip (d : AslModel.Query.Dict) (hs : AslProofs.Query.Sorted d) (hk : ∀ kv ∈ d, kv.1 ≠ []) :
    parseQuery (AslModel.Query.params d) = .ok d := AslProofs.HttpQuery.parseQuery_params d hs hk

/-- query strings never fault: `Url::parseQuery` is total on every byte string -/
theorem query_total (qs : Bytes) : ∃ d, parseQuery qs = .ok d := parseQuery_ok qs

/-- a field received with any value — also an empty one — is stored and found under any spelling of its name
    (`readHeaders` stores `_headers[capitalized(name)] = value`) -/
theorem received_header_found (h : Dic) (n v : Bytes) :
    header (storeHeader h n v) (n.map toLower) = v ∧ header (storeHeader h n v) (n.map toUpper) = v ∧
    header (storeHeader h n v) n = v ∧ hasHeader (storeHeader h n v) n = true := by
  have key : dicFind (storeHeader h n v) (capitalized n) = some v := by
    unfold storeHeader; exact dicFind_dicSet_same _ _ _
  have k1 : header (storeHeader h n v) n = v := by unfold header; rw [key]; rfl
  obtain ⟨h1, h2, _⟩ := header_lookup_case_insensitive (storeHeader h n v) n
  exact ⟨h1.trans k1, h2.trans k1, k1, by unfold hasHeader; rw [key]; rfl⟩

/-! ## non-vacuity and concrete witnesses (the fixed defects, replayed on the real library from corpus/C09) -/

-- "GET /%00/../x HTTP/1.1\r\n\r\n": the encoded NUL no longer hides the `..` (d45e346)
example : (AslModel.HttpParse.read { inp := [71, 69, 84, 32, 47, 37, 48, 48, 47, 46, 46, 47, 120, 32, 72, 84, 84, 80, 47, 49, 46, 49, 13, 10, 13, 10] }).toOption.map (·.1.path)
    = some [47] := by decide
-- target "/a/%2e%2e/b": sanitised to "/a//b"
example : (parseTarget [47, 97, 47, 37, 50, 101, 37, 50, 101, 47, 98]).toOption.map (·.path) = some [47, 97, 47, 47, 98] := by decide
-- target "/a#b?c": the '?' belongs to the fragment (a72691d)
example : (splitTarget [47, 97, 35, 98, 63, 99]).toOption = some ([47, 97], [], [98, 63, 99]) := by decide
-- Url("[/]:8") is rejected as a whole (f8af29f)
example : (parseUrl [91, 47, 93, 58, 56]).toOption.map (·.port) = some 0 := by decide
-- "Content-Length: 100" + 3 body bytes + EOF: the reader returns with the 3 bytes and an error state (c3aed7a)
example : (readBody { inp := [97, 98, 99] } [(sContentLength, [49, 48, 48])]).toOption.map (fun r => (r.2, r.1.err)) = some ([97, 98, 99], 5) := by decide
-- a live socket exists (the hypothesis of `read_total`'s progress clause)
example : Live { inp := [71] } := ⟨rfl, rfl, by simp⟩
-- `rmDD` really removes: "..../x" ↦ "/x", "..." ↦ "."
example : rmDD [46, 46, 46, 46, 47, 120] = [47, 120] ∧ rmDD [46, 46, 46] = [46] := by decide

-- a concrete well-formed request: "POST /a HTTP/1.1\r\nContent-Length: 2\r\n\r\nhi" (hypotheses of `read_faithful`)
example : WellFormed ⟨[80, 79, 83, 84], [47, 97], [72, 84, 84, 80, 47, 49, 46, 49], [(sContentLength, [50])], [104, 105]⟩ where
  method_ne := by decide
  method_ok := by decide
  target_ok := by decide
  proto_ok := by unfold ValueOk; decide
  line_len := by decide
  headers_ok := by unfold HeadersOk NameOk ValueOk; decide
  no_expect := by decide
  no_te := by decide
  framing := Or.inr (by decide)

-- the same request is dispatched and keeps the connection (hypothesis of `serve_faithful`)
example : Dispatched ⟨[80, 79, 83, 84], [47, 97], [72, 84, 84, 80, 47, 49, 46, 49], [(sContentLength, [50])], [104, 105]⟩ where
  not_options := by decide
  path_ne := by decide
  keeps := by decide

-- a chunked head and two chunks ("ab", 17 bytes): hypotheses of `read_faithful_chunked`; "%x" of 17 is "11"
example : HeadOk [80, 79, 83, 84] [47] [72, 84, 84, 80, 47, 49, 46, 49] [(sTransferEncoding, sChunked)] where
  method_ne := by decide
  method_ok := by decide
  target_ok := by decide
  proto_ok := by unfold ValueOk; decide
  line_len := by decide
  headers_ok := by unfold HeadersOk NameOk ValueOk; decide
  no_expect := by decide
example : hexDigitsOf 17 = [49, 49] := by
  rw [hexDigitsOf]; simp only [show ¬ (17 < 16) by decide, dite_false]
  rw [hexDigitsOf]; decide
example : hexDigitsOf 0 = [48] := by rw [hexDigitsOf]; decide

-- "POST /u HTTP/1.1\r\nContent-Length: 20\r\n\r\n0123456789" then peer close: 10 of 20 body bytes, nothing dispatched
example : (serve { inp := [80, 79, 83, 84, 32, 47, 117, 32, 72, 84, 84, 80, 47, 49, 46, 49, 13, 10, 67, 111, 110, 116, 101, 110, 116, 45, 76,
    101, 110, 103, 116, 104, 58, 32, 50, 48, 13, 10, 13, 10, 48, 49, 50, 51, 52, 53, 54, 55, 56, 57] }).toOption.map (·.2.length) = some 0 := by decide
-- the same with all 20 body bytes is read completely on a connection left healthy (the condition for dispatch)
example : (AslModel.HttpParse.read { inp := [80, 79, 83, 84, 32, 47, 117, 32, 72, 84, 84, 80, 47, 49, 46, 49, 13, 10, 67, 111, 110, 116, 101, 110, 116, 45, 76,
    101, 110, 103, 116, 104, 58, 32, 50, 48, 13, 10, 13, 10, 48, 49, 50, 51, 52, 53, 54, 55, 56, 57, 48, 49, 50, 51, 52, 53, 54, 55, 56, 57] }).toOption.map (fun r => (r.1.body.length, r.2.err, r.2.closed)) = some (20, 0, false) := by decide
-- "GET /b HTTP/1.1\r\nfoo\r\n" then peer close: a line that is neither a field nor the empty line — dropped (5314fb5)
example : (serve { inp := [71, 69, 84, 32, 47, 98, 32, 72, 84, 84, 80, 47, 49, 46, 49, 13, 10, 102, 111, 111, 13, 10] }).toOption.map (·.2.length) = some 0 := by decide

-- escapes: upper and lower case letters, and what malformed escapes give (strtoul semantics)
example : hexByte 53 98 = 91 ∧ hexByte 53 66 = 91 ∧ hexByte 52 97 = 74 ∧ hexByte 48 100 = 13 := by decide   -- %5b %5B %4a %0d
example : hexByte 122 122 = 0 ∧ hexByte 45 49 = 255 ∧ hexByte 32 55 = 7 ∧ hexByte 48 120 = 0 := by decide  -- %zz %-1 "% 7" %0x
-- "tag=R%26D" is one parameter whose value contains '&'
example : (parseQuery [116, 97, 103, 61, 82, 37, 50, 54, 68]).toOption = some [([116, 97, 103], [82, 38, 68])] := by decide
-- Content-Length 3 together with chunked: the chunks frame the body (0d0b7c2); 4294967301 / -5 close the connection (47680a9)
example : (readBody { inp := [51, 13, 10, 97, 98, 99, 13, 10, 48, 13, 10, 13, 10, 88] } [(sContentLength, [51]), (sTransferEncoding, sChunked)]).toOption.map
    (fun r => (r.2, r.1.inp)) = some ([97, 98, 99], [88]) := by decide
example : (readBody { inp := [104, 105] } [(sContentLength, [52, 50, 57, 52, 57, 54, 55, 51, 48, 49])]).toOption.map (fun r => (r.2, r.1.closed)) = some ([], true) := by decide
example : (readBody { inp := [104, 105] } [(sContentLength, [45, 53])]).toOption.map (fun r => (r.2, r.1.closed)) = some ([], true) := by decide
-- the file name for the targets that escaped the root before 1bf672e
example : localRel [120, 47, 115, 46, 116, 120, 116] = [47, 120, 47, 115, 46, 116, 120, 116] ∧ localRel [47] = 47 :: sIndexHtml := by decide

-- obs-fold: "X: a\r\n b\r\n c\r\n\r\n" gives X = "a b c" (350c8ee); an empty value is kept (988a64d)
example : (readHeaders { inp := [88, 58, 32, 97, 13, 10, 32, 98, 13, 10, 32, 99, 13, 10, 13, 10] }).toOption.map (·.2) = some [([88], [97, 32, 98, 32, 99])] := by decide
example : (readHeaders { inp := [88, 58, 32, 13, 10, 13, 10] }).toOption.map (·.2) = some [([88], [])] := by decide
-- Content-Length: 00 is no body, the next request stays unread (d626376)
example : (readBody { inp := [71, 69, 84] } [(sContentLength, [48, 48])]).toOption.map (fun r => (r.2, r.1.inp, r.1.err)) = some ([], [71, 69, 84], 0) := by decide
-- Transfer-Encoding: "Chunked", "gzip, chunked" are chunked; "chunked, gzip" and "x-chunked" are not (7dcf721)
example : isChunked [67, 104, 117, 110, 107, 101, 100] = true ∧ isChunked [103, 122, 105, 112, 44, 32, 99, 104, 117, 110, 107, 101, 100] = true ∧
    isChunked [99, 104, 117, 110, 107, 101, 100, 44, 32, 103, 122, 105, 112] = false ∧ isChunked [120, 45, 99, 104, 117, 110, 107, 101, 100] = false := by decide

-- chunk framing (4dbedbe, d0ace7d): which size lines are chunk-size lines, and what a bad one does
example : chunkLineOk [53, 13] = true ∧ chunkLineOk [53, 59, 101, 13] = true ∧ chunkLineOk [48, 48, 70, 32, 13] = true ∧
    chunkLineOk [49, 48, 48, 48, 48, 48, 48, 48, 53, 13] = false ∧ chunkLineOk [56, 48, 48, 48, 48, 48, 48, 53, 13] = false ∧
    chunkLineOk [45, 49, 13] = false ∧ chunkLineOk [48, 120, 53, 13] = false ∧ chunkLineOk [13] = false ∧ chunkLineOk [122, 122, 13] = false ∧
    chunkLineOk [32, 53, 13] = false ∧ chunkLineOk [53] = false := by decide
-- "100000005\r\nhello..." (0x100000005) and "5\r\nhello" + "zz" close the connection instead of guessing
example : (readBody { inp := [49, 48, 48, 48, 48, 48, 48, 48, 53, 13, 10, 104, 101, 108, 108, 111, 13, 10] } [(sTransferEncoding, sChunked)]).toOption.map
    (fun r => (r.2, r.1.closed)) = some ([], true) := by decide
example : (readBody { inp := [53, 13, 10, 104, 101, 108, 108, 111, 122, 122, 48, 13, 10, 13, 10] } [(sTransferEncoding, sChunked)]).toOption.map
    (fun r => (r.2, r.1.closed)) = some ([104, 101, 108, 108, 111], true) := by decide

-- "Transfer-Encoding: gzip" + a smuggled request as body: nothing is dispatched (4dff910)
example : (serve { inp := [80, 79, 83, 84, 32, 47, 120, 32, 72, 84, 84, 80, 47, 49, 46, 49, 13, 10, 84, 114, 97, 110, 115, 102, 101, 114, 45, 69, 110,
    99, 111, 100, 105, 110, 103, 58, 32, 103, 122, 105, 112, 13, 10, 13, 10, 71, 69, 84, 32, 47, 115, 32, 72, 84, 84, 80, 47, 49, 46, 49, 13, 10, 13, 10] }).toOption.map
    (fun r => (r.2.length, r.1.closed)) = some (0, true) := by decide

-- "Content-Length : 5" (blank or tab before the colon) is not a header line: the block ends there, the connection is
-- closed and neither the POST nor the bytes of its body are dispatched (9bf376e)
example : foldHeaderLine ([], [], []) [67, 111, 110, 116, 101, 110, 116, 45, 76, 101, 110, 103, 116, 104, 32, 58, 32, 53, 13] = none := by decide
example : foldHeaderLine ([], [], []) [67, 111, 110, 116, 101, 110, 116, 45, 76, 101, 110, 103, 116, 104, 9, 58, 32, 53, 13] = none := by decide
example : (serve { inp := [80, 79, 83, 84, 32, 47, 97, 32, 72, 84, 84, 80, 47, 49, 46, 49, 13, 10, 67, 111, 110, 116, 101, 110, 116, 45, 76, 101, 110, 103, 116, 104, 32, 58, 32, 53, 13, 10, 13, 10, 104, 101, 108, 108, 111, 71, 69, 84, 32, 47, 115, 32, 72, 84, 84, 80, 47, 49, 46, 49, 13, 10, 13, 10] }).toOption.map
    (fun r => (r.2.length, r.1.closed)) = some (0, true) := by decide

-- a first header line that starts with a blank continues nothing: the block ends there, the connection is closed,
-- neither the request nor the bytes of its body are dispatched (c2e6d14); after a field the same line is its continuation
example : foldHeaderLine ([], [], []) [32, 67, 111, 110, 116, 101, 110, 116, 45, 76, 101, 110, 103, 116, 104, 58, 32, 53, 13] = none := by decide
example : (foldHeaderLine ([], [88], [97]) [32, 67, 111, 110, 116, 101, 110, 116, 45, 76, 101, 110, 103, 116, 104, 58, 32, 53, 13]).map (fun st => st.2.1) = some [88] := by decide
example : (serve { inp := [71, 69, 84, 32, 47, 104, 100, 114, 32, 72, 84, 84, 80, 47, 49, 46, 49, 13, 10, 32, 67, 111, 110, 116, 101, 110, 116, 45, 76, 101, 110, 103, 116, 104, 58, 32, 53, 13, 10, 72, 111, 115, 116, 58, 32, 120, 13, 10, 13, 10, 104, 101, 108, 108, 111, 71, 69, 84, 32, 47, 115, 32, 72, 84, 84, 80, 47, 49, 46, 49, 13, 10, 13, 10] }).toOption.map
    (fun r => (r.2.length, r.1.closed)) = some (0, true) := by decide

/-! ## extension: the `Range` parser, the `Upgrade: websocket` hand-off, one percent-decoding -/

/-- **Range parser total, in bounds, in range**: for every header dictionary (so for every `Range` value, any bytes) and every
    file size `n`, the parser of `HttpServer::serve` ends, never indexes outside the array `split('-')` returned (`partAt?`
    would raise `oob`), and the answer is the whole file, "unsatisfiable", or `begin ≤ end < n` (through C10's `rangeOf`) -/
theorem range_parser_safe (n : Nat) (h : Dic) :
    ∃ a, rangeAnswer n h = .ok a ∧ (a = .whole ∨ a = .unsat ∨ ∃ b e, a = .part b e ∧ b ≤ e ∧ e < n) :=
  AslProofs.HttpRange.rangeAnswer_spec n h

/-- the same from the stream: whatever the peer sent, the request reader returns and the Range parser applied to the
    headers it collected is total and in range -/
theorem range_of_any_stream (s : Sock) (n : Nat) :
    ∃ r a, AslModel.HttpParse.read s = .ok r ∧ rangeAnswer n r.1.headers = .ok a ∧
      (a = .whole ∨ a = .unsat ∨ ∃ b e, a = .part b e ∧ b ≤ e ∧ e < n) := by
  obtain ⟨r, hr, _⟩ := read_total s
  obtain ⟨a, ha, hs⟩ := range_parser_safe n r.1.headers
  exact ⟨r, a, hr, ha, hs⟩

/-- **the parser is right on the canonical forms**: `Range: bytes=first-last` and `bytes=first-` (decimal digits, up to 9 of
    them, `x` writing `first`, `y` writing `last` or empty) on a file of `n` bytes answer `first..min(last, n-1)` when that is
    a non-empty range inside the file and "unsatisfiable" otherwise (`canonicalAnswer`; a last position `0` means "to the
    end" in `putFile`: known finding `range-end-zero` of C10) -/
theorem range_canonical_forms (n : Nat) (h : Dic) (x y : Bytes) (hh : hasHeader h sRange = true)
    (hv : header h sRange = sBytesEq ++ (x ++ 45 :: y))
    (hx : AslProofs.HttpRange.IsDigits x) (hx1 : x ≠ []) (hxl : x.length ≤ 9)
    (hy : AslProofs.HttpRange.IsDigits y) (hyl : y.length ≤ 9) :
    rangeAnswer n h = .ok (AslProofs.HttpRange.canonicalAnswer n (decFold x 0) (decFold y 0)) :=
  AslProofs.HttpRange.rangeAnswer_canonical n h x y hh hv hx hx1 hxl hy hyl

/-- the text after `bytes=` alone: both `parts[0]` and `parts[1]` exist whenever they are read -/
theorem range_args_in_bounds (n : Nat) (spec : Bytes) : ∃ be, rangeArgs9 n spec = .ok be :=
  AslProofs.HttpRange.rangeArgs9_ok n spec

/-- **Upgrade hand-off consumes exactly the request head**: a well-formed request carrying `Upgrade: websocket`
    (with its Content-Length body, if it announces one),
    followed on the connection by any bytes `frame` (the first WebSocket frame, whole or in part, or nothing): the socket
    the WebSocket server receives still holds exactly `frame` — nothing of it was read, nothing of the head is left -/
theorem upgrade_handoff_exact (q : WfReq) (frame : Bytes) (hw : WellFormed q)
    (hp : (reqOf q).path.length ≠ 0) (hu : cstr (header (hdrDic q.headers) sUpgrade) = sWebsocket) :
    upgradeHandOff { inp := serialize q ++ frame } = .ok (some (hdrDic q.headers, { inp := frame })) := by
  obtain ⟨t, ht, hr⟩ := read_faithful q frame hw
  have hreq : (reqOf q).path = t.path := by simp [reqOf, ht]
  rw [hreq] at hp
  have hm : q.method.length ≠ 0 := by
    have := hw.method_ne
    intro h0; exact this (List.length_eq_zero_iff.mp h0)
  have hpr : q.proto.length ≠ 0 := by
    have := hw.proto_ok.1
    intro h0; exact this (List.length_eq_zero_iff.mp h0)
  unfold upgradeHandOff
  simp only [hr, bind, Except.bind]
  simp [hm, hpr, hp, hu, pure, Except.pure]

/-- the same **for every fragmentation**: however the bytes of request and frame are cut into segments (`segs`, any number, any
    sizes, empty ones included), the hand-off leaves exactly `frame`.  The reader takes its bytes through blocking `read` calls on
    a stream socket, which deliver the concatenation of the segments (assumption "POSIX read() on a stream socket"); the op `upgf`
    sends the stream in two segments cut at every kind of offset and the answer of the real server must be the one of `upg`. -/
theorem upgrade_handoff_any_fragmentation (q : WfReq) (frame : Bytes) (segs : List Bytes) (hw : WellFormed q)
    (hp : (reqOf q).path.length ≠ 0) (hu : cstr (header (hdrDic q.headers) sUpgrade) = sWebsocket)
    (hs : segs.flatten = serialize q ++ frame) :
    upgradeHandOff { inp := segs.flatten } = .ok (some (hdrDic q.headers, { inp := frame })) := by
  rw [hs]; exact upgrade_handoff_exact q frame hw hp hu

/-- for every stream: when a hand-off happens, what the WebSocket server gets is a suffix of what was there — the HTTP side
    never puts bytes back or skips ahead -/
theorem upgrade_handoff_consumes_prefix (s : Sock) (h : Dic) (s' : Sock) (hh : upgradeHandOff s = .ok (some (h, s'))) :
    ConsumesPrefix s s' := by
  obtain ⟨r, hr, hc, _⟩ := read_total s
  unfold upgradeHandOff at hh
  simp only [hr, bind, Except.bind] at hh
  split at hh
  · simp [pure, Except.pure] at hh
  · split at hh
    · simp only [pure, Except.pure, Except.ok.injEq, Option.some.injEq, Prod.mk.injEq] at hh
      rw [← hh.2]; exact hc
    · simp [pure, Except.pure] at hh

/-- **decoded exactly once**: for every path text `p` (no NUL, no `?`/`#`, no `..`) sent with its `%` escaped as `%25`,
    the path handed over is `p` itself — `%252e%252e` arrives as the six bytes `%2e%2e`, never as `..` -/
theorem path_decoded_once (p : Bytes) (hq : ∀ c ∈ p, c ≠ 35 ∧ c ≠ 63) (h0 : ∀ c ∈ p, c ≠ 0) (hdd : hasDD p = false) :
    ∃ t, parseTarget (escPct p) = .ok t ∧ t.path = p := by
  have hdec := AslProofs.HttpRange.urlDecodeSpec_escPct p
  have hc : cstr (urlDecodeSpec (escPct p)) = p := by rw [hdec]; exact cstr_of_no_nul p h0
  have hq' : ∀ c ∈ escPct p, c ≠ 35 ∧ c ≠ 63 := by
    intro c hc
    rcases AslProofs.HttpRange.mem_escPct p c hc with h | h | h
    · exact hq c h
    · subst h; decide
    · subst h; decide
  obtain ⟨t, ht, hpth, _, _⟩ := decoded_path_is_path_sent (escPct p) hq' (by rw [hc]; exact hdd)
  exact ⟨t, ht, by rw [hpth, hc]⟩

/-- the same **for every path text** (no NUL, no `?`/`#`; `..` allowed): what arrives is the text itself with *its own* `..`
    removed — the sanitiser sees the once-decoded text, an escaped `%2e%2e` inside it is three-byte escapes and stays -/
theorem path_decoded_once_any (p : Bytes) (hq : ∀ c ∈ p, c ≠ 35 ∧ c ≠ 63) (h0 : ∀ c ∈ p, c ≠ 0) :
    ∃ t, parseTarget (escPct p) = .ok t ∧ t.path = (if hasDD p then rmDD p else p) := by
  have hdec := AslProofs.HttpRange.urlDecodeSpec_escPct p
  have hc : cstr (urlDecodeSpec (escPct p)) = p := by rw [hdec]; exact cstr_of_no_nul p h0
  have hq' : ∀ c ∈ escPct p, c ≠ 35 ∧ c ≠ 63 := by
    intro c hc
    rcases AslProofs.HttpRange.mem_escPct p c hc with h | h | h
    · exact hq c h
    · subst h; decide
    · subst h; decide
  obtain ⟨t, ht, hpth, _, _⟩ := AslProofs.HttpRange.parseTarget_plain_any (escPct p) hq'
  exact ⟨t, ht, by rw [hpth, hc]⟩

/-- every raw target without `?`/`#` (any escapes, valid or not): the path is the ONE-pass decoding of the target, cut at a
    decoded NUL, minus the `..` of that text; `urlDecodeSpec` never looks at a byte it produced -/
theorem path_is_one_pass_decoding (raw : Bytes) (hq : ∀ c ∈ raw, c ≠ 35 ∧ c ≠ 63) :
    ∃ t, parseTarget raw = .ok t ∧
      t.path = (if hasDD (cstr (urlDecodeSpec raw)) then rmDD (cstr (urlDecodeSpec raw)) else cstr (urlDecodeSpec raw)) := by
  obtain ⟨t, ht, hp, _, _⟩ := AslProofs.HttpRange.parseTarget_plain_any raw hq
  exact ⟨t, ht, hp⟩

/-- one decoding is the inverse of one escaping, for every byte string -/
theorem decode_inverts_one_escape (p : Bytes) : urlDecode (escPct p) = .ok p := by
  rw [urldecode_total, AslProofs.HttpRange.urlDecodeSpec_escPct]

-- `GET /c HTTP/1.1` + `Upgrade: websocket` followed by two frame bytes: the hand-off happens and leaves the two bytes
example : (upgradeHandOff { inp := [71, 69, 84, 32, 47, 99, 32, 72, 84, 84, 80, 47, 49, 46, 49, 13, 10, 85, 112, 103, 114, 97, 100, 101, 58, 32,
    119, 101, 98, 115, 111, 99, 107, 101, 116, 13, 10, 13, 10, 129, 0] }).toOption.map (fun r => r.map (fun x => x.2.inp)) = some (some [129, 0]) := by decide
-- hypotheses of `range_canonical_forms` met by `Range: bytes=5-9`; its answer on 36 bytes
example : hasHeader [(sRange, [98, 121, 116, 101, 115, 61, 53, 45, 57])] sRange = true ∧
    header [(sRange, [98, 121, 116, 101, 115, 61, 53, 45, 57])] sRange = sBytesEq ++ ([53] ++ 45 :: [57]) ∧
    AslProofs.HttpRange.IsDigits [53] ∧ AslProofs.HttpRange.IsDigits [57] ∧
    AslProofs.HttpRange.canonicalAnswer 36 (decFold [53] 0) (decFold [57] 0) = .part 5 9 ∧
    AslProofs.HttpRange.canonicalAnswer 36 5 99 = .part 5 35 ∧ AslProofs.HttpRange.canonicalAnswer 36 40 50 = .unsat := by
  unfold AslProofs.HttpRange.IsDigits; decide
-- Range: bytes=5-9 on 36 bytes, bytes=5 (one part), bytes=-4, bytes=40-50, other unit
example : (rangeAnswer 36 [(sRange, [98, 121, 116, 101, 115, 61, 53, 45, 57])]).toOption = some (.part 5 9) := by decide
example : (rangeAnswer 36 [(sRange, [98, 121, 116, 101, 115, 61, 53])]).toOption = some (.part 5 35) := by decide
example : (rangeAnswer 36 [(sRange, [98, 121, 116, 101, 115, 61, 45, 52])]).toOption = some (.part 32 35) := by decide
example : (rangeAnswer 36 [(sRange, [98, 121, 116, 101, 115, 61, 52, 48, 45, 53, 48])]).toOption = some .unsat := by decide
example : (rangeAnswer 36 [(sRange, [105, 116, 101, 109, 115, 61, 49])]).toOption = some .whole := by decide
-- `/a/../%2e%2e` escaped: the literal `..` goes, the escaped one stays as text
example : (parseTarget (escPct [47, 97, 47, 46, 46, 47, 37, 50, 101, 37, 50, 101])).toOption.map (·.path) =
    some [47, 97, 47, 47, 37, 50, 101, 37, 50, 101] := by decide
-- `/%252e%252e/x` is the escaping of `/%2e%2e/x`, which is what arrives
example : escPct [47, 37, 50, 101, 37, 50, 101, 47, 120] = [47, 37, 50, 53, 50, 101, 37, 50, 53, 50, 101, 47, 120] ∧
    hasDD [47, 37, 50, 101, 37, 50, 101, 47, 120] = false := by decide
example : (parseTarget [47, 37, 50, 53, 50, 101, 37, 50, 53, 50, 101, 47, 120]).toOption.map (·.path) =
    some [47, 37, 50, 101, 37, 50, 101, 47, 120] := by decide

/-! ## Expect: 100-continue (second extension round)

`WellFormed` (the hypothesis of `read_faithful`) excludes `Expect: 100-continue`; `WellFormedX` is the same structure
without that clause, `interim h` the bytes `HttpRequest::read` writes to the peer between the header block and the body. -/

open AslProofs.HttpExpect in
/-- **read ∘ serialize = id also under `Expect`**: every well-formed request (no body or a Content-Length body), whatever
    its `Expect` field says, followed by arbitrary bytes `rest`, is handed over with exactly the method, target, protocol,
    header fields and body sent; `rest` stays unread; and the only bytes written to the peer are the interim answer -/
theorem read_faithful_expect (q : WfReq) (rest : Bytes) (hw : WellFormedX q) :
    ∃ t, parseTarget q.target = .ok t ∧
      AslModel.HttpParse.read { inp := serialize q ++ rest } =
        .ok ({ method := q.method, res := q.target, proto := q.proto, path := t.path, query := t.query,
               fragment := t.fragment, parts := t.parts, headers := hdrDic q.headers, body := q.body },
             { inp := rest, out := interim (hdrDic q.headers) }) := by
  obtain ⟨t, ht, h⟩ := read_faithful_expect_sock { inp := serialize q ++ rest } q rest hw rfl rfl rfl
  exact ⟨t, ht, by simpa using h⟩

open AslProofs.HttpExpect in
/-- which interim answer: with `Expect: 100-continue` (the value compared as a C string, case-sensitively) it is
    `HTTP/1.1 100 Continue` when the body sent is shorter than 128000000 bytes and `HTTP/1.1 417 Too big` otherwise
    (the body is read all the same, `read_faithful_expect`); with any other `Expect` value or none, nothing is written -/
theorem expect_interim_answer (q : WfReq) (hw : WellFormedX q) :
    interim (hdrDic q.headers) =
      if cstr (header (hdrDic q.headers) sExpect) = s100continue then
        (if q.body.length < 128000000 then sContinue else sTooBig)
      else [] := by
  unfold interim
  by_cases hx : cstr (header (hdrDic q.headers) sExpect) = s100continue
  · have hb : (cstr (header (hdrDic q.headers) sExpect) == s100continue) = true := by simp [hx]
    simp only [hx, if_true]
    rcases hw.framing with ⟨hb0, hcl⟩ | ⟨hpos, hcl, hvalid, hval⟩
    · rw [header_of_not_has _ _ hcl, hb0]
      decide
    · rw [validLength_long _ hvalid, hval]
      by_cases hl : q.body.length < 128000000
      · have : ((q.body.length : Nat) : Int) < 128000000 := by omega
        simp [hl, this]
      · have : ¬ ((q.body.length : Nat) : Int) < 128000000 := by omega
        simp [hl, this]
  · have hb : (cstr (header (hdrDic q.headers) sExpect) == s100continue) = false := by simp [hx]
    simp only [hb, hx, if_false, Bool.false_eq_true]

open AslProofs.HttpExpect in
/-- `WellFormed` is the special case of `WellFormedX` in which nothing is written (so `read_faithful` follows from
    `read_faithful_expect`) -/
theorem wellformed_is_expect_free (q : WfReq) (hw : WellFormed q) : WellFormedX q ∧ interim (hdrDic q.headers) = [] :=
  ⟨⟨hw.method_ne, hw.method_ok, hw.target_ok, hw.proto_ok, hw.line_len, hw.headers_ok, hw.no_te, hw.framing⟩,
   by unfold interim; simp only [hw.no_expect, Bool.false_eq_true, if_false]⟩

-- "POST /a HTTP/1.1\r\nContent-Length: 2\r\nExpect: 100-continue\r\n\r\nhi": hypotheses of `read_faithful_expect`,
-- the `Expect` branch of `expect_interim_answer` is taken and the answer is `100 Continue`
example : AslProofs.HttpExpect.WellFormedX ⟨[80, 79, 83, 84], [47, 97], [72, 84, 84, 80, 47, 49, 46, 49],
    [(sContentLength, [50]), (sExpect, s100continue)], [104, 105]⟩ where
  method_ne := by decide
  method_ok := by decide
  target_ok := by decide
  proto_ok := by unfold ValueOk; decide
  line_len := by decide
  headers_ok := by unfold HeadersOk NameOk ValueOk; decide
  no_te := by decide
  framing := Or.inr (by decide)
example : AslProofs.HttpExpect.interim (hdrDic [(sContentLength, [50]), (sExpect, s100continue)]) = sContinue := by decide
example : AslProofs.HttpExpect.interim (hdrDic [(sContentLength, [49, 50, 56, 48, 48, 48, 48, 48, 48]), (sExpect, s100continue)]) = sTooBig := by decide
example : AslProofs.HttpExpect.interim (hdrDic [(sContentLength, [50]), (sExpect, [49, 48, 48, 45, 67, 111, 110, 116, 105, 110, 117, 101])]) = [] := by decide

open AslProofs.HttpExpect in
/-- the same for **chunked framing** (head with `Transfer-Encoding: chunked`, no Content-Length, any `Expect` field, chunks
    and terminating size line in any spelling the reader accepts): the body handed over is the concatenation of the chunk
    data, `rest` stays unread, and exactly the interim answer has been written — `100 Continue` iff the value is
    `100-continue` (without a Content-Length the 417 branch cannot be taken) -/
theorem read_faithful_chunked_expect (s : Sock) (m t p : Bytes) (hs : List (Bytes × Bytes)) (cs : List Chunk)
    (sizeLine rest : Bytes) (hw : HeadOkX m t p hs) (hcs : ∀ c ∈ cs, ChunkOk c)
    (hlf : ∀ b ∈ sizeLine, b ≠ 10) (hshort : sizeLine.length ≤ 16000) (hok : chunkLineOk (sizeLine ++ [13]) = true)
    (hz : hexToInt (sizeLine ++ [13]) = 0)
    (hcl : hasHeader (hdrDic hs) sContentLength = false)
    (hte : isChunked (header (hdrDic hs) sTransferEncoding) = true)
    (he : s.err = 0) (hc : s.closed = false)
    (hi : s.inp = m ++ 32 :: (t ++ 32 :: (p ++ 13 :: 10 :: (hdrBlock hs ++ 13 :: 10 ::
            (cs.flatMap Chunk.bytes ++ (sizeLine ++ 13 :: 10 :: 13 :: 10 :: rest)))))) :
    ∃ tg, parseTarget t = .ok tg ∧
      AslModel.HttpParse.read s = .ok (mkReq m t p tg (hdrDic hs) (cs.map Chunk.data).flatten,
        { s with inp := rest,
                 out := s.out ++ (if cstr (header (hdrDic hs) sExpect) = s100continue then sContinue else []) }) := by
  have h := read_faithful_chunked_x s m t p hs cs sizeLine rest hw hcs hlf hshort hok hz hcl hte he hc hi
  rw [interim_no_length _ hcl] at h
  exact h

-- hypotheses of `read_faithful_chunked_expect`, and the reader on
-- "POST / HTTP/1.1\r\nTransfer-Encoding: chunked\r\nExpect: 100-continue\r\n\r\n2\r\nhi\r\n0\r\n\r\nX"
example : AslProofs.HttpExpect.HeadOkX [80, 79, 83, 84] [47] [72, 84, 84, 80, 47, 49, 46, 49]
    [(sTransferEncoding, sChunked), (sExpect, s100continue)] where
  method_ne := by decide
  method_ok := by decide
  target_ok := by decide
  proto_ok := by unfold ValueOk; decide
  line_len := by decide
  headers_ok := by unfold HeadersOk NameOk ValueOk; decide
example : (AslModel.HttpParse.read { inp := [80, 79, 83, 84, 32, 47, 32, 72, 84, 84, 80, 47, 49, 46, 49, 13, 10, 84, 114, 97, 110, 115, 102, 101, 114, 45, 69, 110, 99, 111, 100, 105, 110, 103, 58, 32, 99, 104, 117, 110, 107, 101, 100, 13, 10, 69, 120, 112, 101, 99, 116, 58, 32, 49, 48, 48, 45, 99, 111, 110, 116, 105, 110, 117, 101, 13, 10, 13, 10, 50, 13, 10, 104, 105, 13, 10, 48, 13, 10, 13, 10, 88] }).toOption.map
    (fun r => (r.1.body, r.2.out == sContinue, r.2.inp)) = some ([104, 105], true, [88]) := by decide

open AslProofs.HttpExpect in
/-- `serve_faithful` with `Expect` fields allowed: the keep-alive loop hands every pipelined well-formed request over,
    in order, exactly once, whatever interim answers it wrote in between, and has read the whole stream -/
theorem serve_faithful_expect (qs : List WfReq) (hq : ∀ q ∈ qs, WellFormedX q ∧ Dispatched q) :
    ∃ s0, serveLoop { inp := qs.flatMap serialize } = .ok (s0, qs.map reqOf) ∧ s0.inp = [] ∧ s0.err = 0 ∧
      serve { inp := qs.flatMap serialize } = .ok (closeBehind s0, qs.map reqOf) := by
  obtain ⟨s', h1, h2, h3⟩ := iterate_serve_pipelined_x qs hq ((qs.flatMap serialize).length + 1)
    { inp := qs.flatMap serialize } [] rfl rfl rfl (by have := flatMap_serialize_length qs; omega)
  have hloop : serveLoop { inp := qs.flatMap serialize } = .ok (s', qs.map reqOf) := by
    unfold serveLoop
    simpa using h1
  exact ⟨s', hloop, h2, h3, serve_of_loop _ _ hloop⟩

-- the request of the `WellFormedX` example is dispatched and keeps the connection (hypothesis of `serve_faithful_expect`);
example : Dispatched ⟨[80, 79, 83, 84], [47, 97], [72, 84, 84, 80, 47, 49, 46, 49],
    [(sContentLength, [50]), (sExpect, s100continue)], [104, 105]⟩ where
  not_options := by decide
  path_ne := by decide
  keeps := by decide

end C09
