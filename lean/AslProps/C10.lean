import AslProofs.HttpFrame
/-!
# C10 — HTTP client and server exchange exact methods, headers, status and bodies

Theorems about `AslModel.HttpFrame` (the functions `lean/Driver/C10.lean` runs against the real library).  The reader is
quantified over every connection state `Inp.ofBytes wire cuts`: `cuts` is an arbitrary list of positions where the
peer's sends were cut, i.e. every fragmentation of the byte stream; `rest` is whatever follows the message on the same
connection (the next pipelined request, or nothing).
-/
namespace C10
open AslModel.HttpFrame AslProofs.HttpFrame

/-! ## the sender adds nothing to and takes nothing from a length-framed body, for every block size -/

/-- `write(buffer, n)` with a Content-Length: the blocks concatenate to the body (block boundaries are invisible) -/
theorem length_framing_transparent (blk : Nat) (hb : 0 < blk) (body : Bytes) : writeBody false blk body = body :=
  writeBody_plain blk hb body

theorem writeFileLoop_plain (blk rblk : Nat) (hb : 0 < blk) (hr : 0 < rblk) :
    ∀ (f : Nat) (b : Bytes), b.length ≤ f → writeFileLoop false blk rblk f b = b := by
  intro f
  induction f with
  | zero => intro b h; have : b = [] := List.eq_nil_of_length_eq_zero (by omega); subst this; rfl
  | succ f ih =>
    intro b h
    unfold writeFileLoop
    by_cases he : b.isEmpty = true
    · simp only [he, if_true]; exact (List.isEmpty_iff.mp he).symm
    · have hf : b.isEmpty = false := by simpa using he
      have hne : b ≠ [] := by intro h0; subst h0; simp at he
      have hl : 0 < b.length := List.length_pos_iff.mpr hne
      simp only [hf, Bool.false_eq_true, if_false]
      rw [writeBody_plain blk hb, ih _ (by rw [List.length_drop]; omega), List.take_append_drop]

/-- `writeFile`: a file sent in `rblk`-byte reads, each through `write(buf, n)`, arrives as the file's bytes -/
theorem file_blocks_transparent (blk rblk : Nat) (hb : 0 < blk) (hr : 0 < rblk) (content : Bytes) :
    writeFile false blk rblk content = content :=
  writeFileLoop_plain blk rblk hb hr content.length content (Nat.le_refl _)

/-- the block sizes of the current source (regenerated from src/Http.cpp) are usable -/
theorem block_sizes_ok : 0 < sendBlock ∧ sendBlock < 4294967296 ∧ 0 < recvBlock := by decide


/-! ## requests: what `Http::request` sends is what `HttpRequest::read` hands to the handler -/

/-- the request as the handler must see it (written from the HTTP semantics, not from the code): same method, same
target, HTTP/1.1, the same body bytes, and every header that was sent retrievable under its name -/
structure SeesRequest (q : Request) (method target : Bytes) (sent : List (Bytes × Bytes)) (body : Bytes) : Prop where
  method : q.method = method
  target : q.resource = target
  proto : q.proto = sHttp11
  body : q.body = body
  headers : ∀ nv ∈ sent, (∀ other ∈ sent, capitalized other.1 = capitalized nv.1 → other = nv) → header q.headers nv.1 = nv.2

theorem norm_lookup : ∀ (hs : List (Bytes × Bytes)) (d : Dic) (nv : Bytes × Bytes), (∀ x ∈ hs, x.2 ≠ []) → nv ∈ hs →
    (∀ other ∈ hs, capitalized other.1 = capitalized nv.1 → other = nv) →
    dicGet (hs.foldl (fun d x => setHeader d x.1 x.2) d) (capitalized nv.1) = some nv.2 := by
  intro hs
  induction hs with
  | nil => intro d nv _ h; exact absurd h (by simp)
  | cons x t ih =>
    intro d nv hne hmem huniq
    simp only [List.foldl_cons]
    by_cases hin : nv ∈ t
    · exact ih _ nv (fun y hy => hne y (List.mem_cons_of_mem _ hy)) hin (fun o ho => huniq o (List.mem_cons_of_mem _ ho))
    · have hx : nv = x := by
        rcases List.mem_cons.mp hmem with h | h
        · exact h
        · exact absurd h hin
      subst hx
      rw [foldl_setHeader_preserve (capitalized nv.1) t _ (fun y hy => ⟨hne y (List.mem_cons_of_mem _ hy), fun hc => by
        have := huniq y (List.mem_cons_of_mem _ hy) hc
        subst this; exact hin hy⟩)]
      rw [setHeader_of_value (hne nv List.mem_cons_self)]
      exact dicGet_dicSet_same _ _ _

theorem capitalized_idem_lookup (H : Dic) (n : Bytes) : header H n = (dicGet H (capitalized n)).getD [] := rfl

/-- **frame_roundtrip (requests).**  For every method, target, header set and body (of any length), every
fragmentation `cuts` of the byte stream and whatever follows on the connection (`rest`): the server-side reader returns
exactly what the client serialized and leaves the connection positioned at `rest`. -/
theorem request_roundtrip (method target host : Bytes) (port : Nat) (hs : Dic) (body rest : Bytes) (cuts : List Nat)
    (hm : WFWord method) (ht : WFWord target) (hfit : method.length + target.length + 11 ≤ 16001)
    (hhp : WFValue (host ++ [58] ++ utoa port)) (hhpfit : FitsLine sHostName (host ++ [58] ++ utoa port))
    (hwf : WFHeaders hs) (hres : NoFraming hs) (hbody : body.length < 2147483648) :
    ∃ (q : Request) (i' : Inp),
      readRequest (Inp.ofBytes (serialize (clientMsg method target host port true hs body) ++ rest) cuts) = (q, i') ∧
      i'.data = rest ∧ Live i' ∧
      SeesRequest q method target ((sHostName, host ++ [58] ++ utoa port) :: (clientMsg method target host port true hs body).headers) body := by
  obtain ⟨hfr, hmem⟩ := client_framed sendBlock (host ++ [58] ++ utoa port) hs body sendBlock_pos hwf hres hhp.1
  -- the header list on the wire and its well-formedness
  have hwf' : WFHeaders ((sHostName, host ++ [58] ++ utoa port) ::
      (if body.length ≠ 0 then setHeader hs sContentLength (utoa body.length) else hs)) := by
    intro x hx
    rcases List.mem_cons.mp hx with h | h
    · subst h; exact ⟨wf_name_host, hhp, hhpfit⟩
    · rcases hmem x h with h | h
      · subst h
        refine ⟨wf_name_cl, wf_digits_value _, ?_⟩
        have := utoa_length body.length hbody
        unfold FitsLine; simp [sContentLength]; omega
      · exact hwf x h
  have hwire : (Inp.ofBytes (serialize (clientMsg method target host port true hs body) ++ rest) cuts).data =
      method ++ [32] ++ target ++ [32] ++ sHttp11 ++ crlf ++
        headerLines ((sHostName, host ++ [58] ++ utoa port) :: (if body.length ≠ 0 then setHeader hs sContentLength (utoa body.length) else hs))
        ++ crlf ++ writeBody (isChunked (if body.length ≠ 0 then setHeader hs sContentLength (utoa body.length) else hs)) sendBlock body ++ rest := by
    simp [Inp.ofBytes, serialize, serializeWith, clientMsg, headerBlock, headerLines, sHostName, List.append_assoc]
  obtain ⟨i', hread, hdat, hlive⟩ := readRequest_wire sendBlock sendBlock_pos sendBlock_lt method target _ _ body rest hm ht hfit hwf' hfr
    (Inp.ofBytes (serialize (clientMsg method target host port true hs body) ++ rest) cuts) ⟨rfl, rfl⟩ hwire
  refine ⟨_, i', hread, hdat, hlive, ⟨rfl, rfl, rfl, rfl, ?_⟩⟩
  intro nv hnv huniq
  have hval : ∀ x ∈ (sHostName, host ++ [58] ++ utoa port) :: (clientMsg method target host port true hs body).headers, x.2 ≠ [] := by
    intro x hx; exact (hwf' x (by simpa [clientMsg] using hx)).2.1.1
  have := norm_lookup _ [] nv hval hnv huniq
  show header (norm _) nv.1 = nv.2
  unfold header norm
  simp only [clientMsg] at this ⊢
  rw [this]; rfl


/-! ## responses: what the handler produced is what `Http::request` returns -/

/-- the response as the client must see it: same status code, same protocol, same body bytes, every header the
handler set retrievable under its name, and no socket error -/
structure SeesResponse (r : Response) (code : Nat) (proto : Bytes) (sent : List (Bytes × Bytes)) (body : Bytes) : Prop where
  code : r.code = code
  proto : r.proto = proto
  body : r.body = body
  noError : r.sockError = []
  headers : ∀ nv ∈ sent, (∀ other ∈ sent, capitalized other.1 = capitalized nv.1 → other = nv) → header r.headers nv.1 = nv.2

theorem codeMsg_ok (code : Nat) : (∀ c ∈ codeMsg code, c ≠ 10) ∧ (codeMsg code).length ≤ 15 := by
  unfold codeMsg
  repeat' split
  all_goals exact ⟨by decide, by decide⟩

theorem statusLine_eq (proto : Bytes) (code : Nat) : statusLine proto code = proto ++ [32] ++ utoa code ++ [32] ++ codeMsg code := rfl

/-- the two protocol texts a response can start with -/
def IsProto (p : Bytes) : Prop := p = sHttp11 ∨ p = sHttp10

theorem proto_ok {p : Bytes} (h : IsProto p) : p ≠ [] ∧ (∀ c ∈ p, isSpace c = false) ∧ p.length = 8 := by
  rcases h with h | h <;> subst h <;> exact ⟨by decide, by decide, by decide⟩

/-- the message the server writes for a handler that `put()` a body: status line, the handler's headers plus the
Content-Length that `put` sets -/
def putResponse (proto : Bytes) (code : Nat) (hs : Dic) (body : Bytes) : Msg :=
  ⟨statusLine proto code, setHeader hs sContentLength (utoa body.length), body⟩

/-- **frame_roundtrip (responses with a length).**  A response whose body was `put()` — any status code, any header
set, a body of any length — is returned by the client's reader exactly, for every fragmentation of the stream. -/
theorem response_roundtrip (proto : Bytes) (code : Nat) (hs : Dic) (body rest : Bytes) (cuts : List Nat)
    (hp : IsProto proto) (hcode : code < 2147483648) (hwf : WFHeaders hs) (hres : NoFraming hs) (hbody : body.length < 2147483648) :
    ∃ (r : Response) (i' : Inp),
      readResponse (Inp.ofBytes (serialize (putResponse proto code hs body) ++ rest) cuts) = (r, i') ∧
      i'.data = rest ∧ Live i' ∧
      SeesResponse r code proto (setHeader hs sContentLength (utoa body.length)) body := by
  obtain ⟨hfr, hmem⟩ := put_framed sendBlock hs body sendBlock_pos hwf hres
  have hwf' : WFHeaders (setHeader hs sContentLength (utoa body.length)) := by
    intro x hx
    rcases hmem x hx with h | h
    · subst h
      refine ⟨wf_name_cl, wf_digits_value _, ?_⟩
      have := utoa_length body.length hbody
      unfold FitsLine; simp [sContentLength]; omega
    · exact hwf x h
  obtain ⟨hp0, hpsp, hplen⟩ := proto_ok hp
  have hcm := codeMsg_ok code
  have hwire : (Inp.ofBytes (serialize (putResponse proto code hs body) ++ rest) cuts).data =
      proto ++ [32] ++ utoa code ++ [32] ++ codeMsg code ++ crlf ++ headerLines (setHeader hs sContentLength (utoa body.length)) ++ crlf ++
        writeBody (isChunked (setHeader hs sContentLength (utoa body.length))) sendBlock body ++ rest := by
    simp [Inp.ofBytes, serialize, serializeWith, putResponse, headerBlock, statusLine_eq, List.append_assoc]
  obtain ⟨i', hread, hdat, hlive⟩ := readResponse_wire sendBlock sendBlock_pos sendBlock_lt proto (codeMsg code) code _ _ body rest
    hp0 hpsp hcm.1 (by have := utoa_length code hcode; omega) hwf' hfr _ ⟨rfl, rfl⟩ hwire
  refine ⟨_, i', hread, hdat, hlive, ⟨rfl, rfl, rfl, rfl, ?_⟩⟩
  intro nv hnv huniq
  have := norm_lookup _ [] nv (fun x hx => (hwf' x hx).2.1.1) hnv huniq
  show header (norm _) nv.1 = nv.2
  unfold header norm
  rw [this]; rfl

/-- **frame_roundtrip (streamed, chunked responses).**  A handler that sets `Transfer-Encoding: chunked`, streams any
list of parts through `write(part)` (each cut into blocks, each block a chunk) and ends with the last chunk: the client
returns the concatenation of the parts, for every block size in force and every fragmentation. -/
theorem stream_roundtrip (proto : Bytes) (code : Nat) (hs : Dic) (parts : List Bytes) (rest : Bytes) (cuts : List Nat)
    (hp : IsProto proto) (hcode : code < 2147483648) (hwf : WFHeaders hs) (hres : NoFraming hs) :
    ∃ (r : Response) (i' : Inp),
      readResponse (Inp.ofBytes (serializeStream sendBlock (statusLine proto code) (setHeader hs sTransferEncoding sChunked) parts true ++ rest) cuts)
        = (r, i') ∧
      i'.data = rest ∧ Live i' ∧
      SeesResponse r code proto (setHeader hs sTransferEncoding sChunked) parts.flatten := by
  obtain ⟨hfr, hmem⟩ := stream_framed sendBlock hs parts hwf hres
  have hwf' : WFHeaders (setHeader hs sTransferEncoding sChunked) := by
    intro x hx
    rcases hmem x hx with h | h
    · subst h
      exact ⟨wf_name_te, wf_value_chunked, by unfold FitsLine; decide⟩
    · exact hwf x h
  obtain ⟨hp0, hpsp, hplen⟩ := proto_ok hp
  have hcm := codeMsg_ok code
  have hwire : (Inp.ofBytes (serializeStream sendBlock (statusLine proto code) (setHeader hs sTransferEncoding sChunked) parts true ++ rest) cuts).data =
      proto ++ [32] ++ utoa code ++ [32] ++ codeMsg code ++ crlf ++ headerLines (setHeader hs sTransferEncoding sChunked) ++ crlf ++
        ((parts.map (writeBody (isChunked (setHeader hs sTransferEncoding sChunked)) sendBlock)).flatten ++ lastChunk) ++ rest := by
    simp [Inp.ofBytes, serializeStream, headerBlock, statusLine_eq, List.append_assoc]
  obtain ⟨i', hread, hdat, hlive⟩ := readResponse_wire sendBlock sendBlock_pos sendBlock_lt proto (codeMsg code) code _ _ _ rest
    hp0 hpsp hcm.1 (by have := utoa_length code hcode; omega) hwf' hfr _ ⟨rfl, rfl⟩ hwire
  refine ⟨_, i', hread, hdat, hlive, ⟨rfl, rfl, rfl, rfl, ?_⟩⟩
  intro nv hnv huniq
  have := norm_lookup _ [] nv (fun x hx => (hwf' x hx).2.1.1) hnv huniq
  show header (norm _) nv.1 = nv.2
  unfold header norm
  rw [this]; rfl

end C10
