import AslModel.HttpFrame
/-! # C10 — property theorems (in progress) -/
namespace C10
open AslModel.HttpFrame

theorem frameBlock_plain (p : Bytes) : frameBlock false p = p := rfl

end C10
