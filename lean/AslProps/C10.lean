import AslProofs.HttpFrame
import AslProofs.HttpTarget
import AslProofs.HttpQueryFrame
import AslProps.C10Spec
/-!
# C10 — HTTP client and server exchange exact methods, headers, status and bodies

Theorems about `AslModel.HttpFrame` (the functions `lean/Driver/C10.lean` runs against the real library).  The reader is
quantified over every connection state `Inp.ofBytes wire cuts`: `cuts` is an arbitrary list of positions where the
peer's sends were cut, i.e. every fragmentation of the byte stream; `rest` is whatever follows the message on the same
connection (the next pipelined request, or nothing).
-/
namespace C10
open AslModel.HttpFrame AslProofs.HttpFrame C10Spec

/-! ## the sender adds nothing to and takes nothing from a length-framed body, for every block size -/

/-- `write(buffer, n)` with a Content-Length: the blocks concatenate to the body (block boundaries are invisible) -/
theorem length_framing_transparent (blk : Nat) (hb : 0 < blk) (body : Bytes) : writeBody false blk body = body :=
  writeBody_plain blk hb body

/-- `writeFile`: a file sent in `rblk`-byte reads, each through `write(buf, n)`, arrives as the file's bytes -/
theorem file_blocks_transparent (blk rblk : Nat) (hb : 0 < blk) (hr : 0 < rblk) (content : Bytes) :
    writeFile false blk rblk content = content :=
  writeFileLoop_plain blk rblk hb hr content.length content (Nat.le_refl _)

/-- the block sizes of the current source (regenerated from src/Http.cpp) are usable -/
theorem block_sizes_ok : 0 < sendBlock ∧ sendBlock < 2147483648 ∧ 0 < recvBlock := by decide


/-! ## requests: what was put on the wire is what `HttpRequest::read` hands to the handler -/

/-- any request as bytes on the wire: first line, header lines, the framed body `w` that carries `body` -/
structure Wire where
  method : Bytes
  target : Bytes
  proto : Bytes
  hs : List (Bytes × Bytes)
  w : Bytes
  body : Bytes

def Wire.bytes (x : Wire) : Bytes :=
  x.method ++ [32] ++ x.target ++ [32] ++ x.proto ++ crlf ++ headerLines x.hs ++ crlf ++ x.w

/-- the request object the handler must get: the method, target and protocol of the first line, the headers as stored
(`norm`: each line under its capitalized name, a later line replacing an earlier one of the same name), the body -/
def Wire.expected (x : Wire) : Request :=
  { method := x.method, resource := x.target, proto := x.proto, headers := norm x.hs, body := x.body,
    path := (splitTarget x.target).1, querystring := (splitTarget x.target).2.1, fragment := (splitTarget x.target).2.2 }

/-- well-formed: words without blanks on the first line, HTTP/1.0 or 1.1, header lines without CR/LF or outer blanks that
fit `readLine`, and a body framing that `readBody` takes off the connection (`BodyReads`: by Content-Length, by the
sender's chunks, by ANY RFC 7230 chunked body — see `reads_of_framed`, `reads_of_rfc_chunked` — or no body) -/
structure Wire.WF (x : Wire) : Prop where
  wfMethod : WFWord x.method
  wfTarget : WFWord x.target
  isProto : IsProto x.proto
  fit : x.method.length + x.target.length + 11 ≤ 16001
  wfHeaders : WFHeaders x.hs
  coding : CodingOk (norm x.hs)      -- a transfer coding, if named, ends in chunked (anything else is refused: 4dff910)
  reads : BodyReads (norm x.hs) x.w x.body

theorem reads_of_framed {H : Dic} {w body : Bytes} (h : Framed sendBlock H w body) : BodyReads H w body :=
  framed_reads sendBlock sendBlock_pos sendBlock_lt h

/-- **request_exact (any sender).**  On any live connection whose pending bytes start with a well-formed request — in any
fragmentation, followed by anything — the reader returns exactly that request and stops exactly behind it. -/
theorem wire_request_exact (x : Wire) (h : x.WF) (rest : Bytes) (i : Inp) (hi : Live i) (hd : i.data = x.bytes ++ rest) :
    ∃ i' : Inp, readRequest i = (x.expected, i') ∧ i'.data = rest ∧ Live i' :=
  readRequest_wire x.method x.target x.proto x.hs x.w x.body rest h.wfMethod h.wfTarget h.isProto h.fit h.wfHeaders h.coding h.reads i hi
    (by rw [hd]; simp [Wire.bytes, List.append_assoc])

/-- the request as the handler must see it (written from the HTTP semantics, not from the code): same method, same
target, HTTP/1.1, the same body bytes, and every header that was sent retrievable under its name -/
structure SeesRequest (q : Request) (method target : Bytes) (sent : List (Bytes × Bytes)) (body : Bytes) : Prop where
  method : q.method = method
  target : q.resource = target
  proto : q.proto = sHttp11
  body : q.body = body
  headers : ∀ nv ∈ sent, (∀ other ∈ sent, capitalized other.1 = capitalized nv.1 → other = nv) → header q.headers nv.1 = nv.2

/-- the header lines of a client request as they travel: `Host`, then the message's own headers -/
def wireHeaders (method target host : Bytes) (port : Nat) (hs : Dic) (body : Bytes) : List (Bytes × Bytes) :=
  (sHostName, host ++ [58] ++ utoa port) :: (clientMsg method target host port true hs body).headers

/-- what `Http::request` sends, as a `Wire` -/
def clientWire (method target host : Bytes) (port : Nat) (hs : Dic) (body : Bytes) : Wire :=
  { method := method, target := target, proto := sHttp11, hs := wireHeaders method target host port hs body,
    w := writeBody (isChunked (clientMsg method target host port true hs body).headers) sendBlock body, body := body }

/-- the request object the reader builds from a well-formed client request -/
def expectedRequest (method target host : Bytes) (port : Nat) (hs : Dic) (body : Bytes) : Request :=
  (clientWire method target host port hs body).expected

/-- what is required of a client request for the round trip: words without blanks on the first line, a `Host` value and
header lines without CR/LF or outer blanks that fit `readLine`, no hand-made framing headers, a body that fits an `int` -/
structure WFRequest (method target host : Bytes) (port : Nat) (hs : Dic) (body : Bytes) : Prop where
  wfMethod : WFWord method
  wfTarget : WFWord target
  fit : method.length + target.length + 11 ≤ 16001
  wfHost : WFValue (host ++ [58] ++ utoa port)
  hostFit : FitsLine sHostName (host ++ [58] ++ utoa port)
  wfHeaders : WFHeaders hs
  noFraming : NoFraming hs
  bodyFits : body.length < 2147483648

theorem clientWire_bytes (method target host : Bytes) (port : Nat) (hs : Dic) (body : Bytes) (hnf : NoFraming hs) :
    serialize (clientMsg method target host port true hs body) = (clientWire method target host port hs body).bytes := by
  have hte : teChunked (header (clientMsg method target host port true hs body).headers sTransferEncoding) = false := by
    apply teChunked_of_no_te
    unfold clientMsg
    simp only
    split
    · rw [dicGet_setHeader_other _ _ _ _ (utoa_ne_nil _) (by rw [cap_cl]; decide)]; exact dicGet_te_of_noFraming hnf
    · exact dicGet_te_of_noFraming hnf
  unfold serialize
  rw [serializeWith_plain _ _ hte]
  simp [clientMsg, clientWire, wireHeaders, Wire.bytes, headerBlock, headerLines, sHostName, List.append_assoc]

theorem clientWire_wf (method target host : Bytes) (port : Nat) (hs : Dic) (body : Bytes)
    (h : WFRequest method target host port hs body) : (clientWire method target host port hs body).WF := by
  obtain ⟨hm, ht, hfit, hhp, hhpfit, hwf, hres, hbody⟩ := h
  obtain ⟨hfr, hmem⟩ := client_framed sendBlock (host ++ [58] ++ utoa port) hs body sendBlock_pos hwf hres hhp.1 hbody
  refine ⟨hm, ht, Or.inl rfl, hfit, ?_, ?_, ?_⟩
  · intro x hx
    rcases List.mem_cons.mp hx with h | h
    · subst h; exact ⟨wf_name_host, hhp, hhpfit⟩
    · rcases hmem x (by simpa [clientMsg] using h) with h | h
      · subst h
        refine ⟨wf_name_cl, wf_digits_value _, ?_⟩
        have := utoa_length body.length hbody
        unfold FitsLine; simp [sContentLength]; omega
      · exact hwf x h
  · apply codingOk_of_absent
    intro x hx
    rcases List.mem_cons.mp hx with h | h
    · subst h; exact ⟨hhp.1, cap_host_ne.2⟩
    · rcases hmem x (by simpa [clientMsg] using h) with h | h
      · subst h; exact ⟨utoa_ne_nil _, cap_cl_ne_te⟩
      · exact ⟨(hwf x h).2.1.1, (hres x h).2⟩
  · have := reads_of_framed hfr
    simpa [clientWire, wireHeaders, clientMsg] using this

/-- exact form for the library's client, on any live connection `i` whose pending bytes start with the serialized request -/
theorem request_exact (method target host : Bytes) (port : Nat) (hs : Dic) (body rest : Bytes)
    (h : WFRequest method target host port hs body) (i : Inp) (hi : Live i)
    (hd : i.data = serialize (clientMsg method target host port true hs body) ++ rest) :
    ∃ i' : Inp, readRequest i = (expectedRequest method target host port hs body, i') ∧ i'.data = rest ∧ Live i' ∧
      WFHeaders (wireHeaders method target host port hs body) := by
  have hwf := clientWire_wf method target host port hs body h
  obtain ⟨i', h1, h2, h3⟩ := wire_request_exact _ hwf rest i hi (by rw [hd, clientWire_bytes _ _ _ _ _ _ h.noFraming])
  exact ⟨i', h1, h2, h3, hwf.wfHeaders⟩

/-- **frame_roundtrip (requests).**  For every method, target, header set and body (of any length), every
fragmentation `cuts` of the byte stream and whatever follows on the connection (`rest`): the server-side reader returns
exactly what the client serialized and leaves the connection positioned at `rest`. -/
theorem request_roundtrip (method target host : Bytes) (port : Nat) (hs : Dic) (body rest : Bytes) (cuts : List Nat)
    (h : WFRequest method target host port hs body) :
    ∃ (q : Request) (i' : Inp),
      readRequest (Inp.ofBytes (serialize (clientMsg method target host port true hs body) ++ rest) cuts) = (q, i') ∧
      i'.data = rest ∧ Live i' ∧
      SeesRequest q method target (wireHeaders method target host port hs body) body := by
  obtain ⟨i', hread, hdat, hlive, hwf'⟩ := request_exact method target host port hs body rest h
    (Inp.ofBytes (serialize (clientMsg method target host port true hs body) ++ rest) cuts) ⟨rfl, rfl⟩ rfl
  refine ⟨_, i', hread, hdat, hlive, ⟨rfl, rfl, rfl, rfl, ?_⟩⟩
  intro nv hnv huniq
  have := norm_lookup (wireHeaders method target host port hs body) [] nv (fun x hx => (hwf' x hx).2.1.1) hnv huniq
  show header (norm (wireHeaders method target host port hs body)) nv.1 = nv.2
  unfold header norm
  rw [this]; rfl

/-- **chunked_request_roundtrip** (after the repair a376a88).  A client asked to send its body chunked (`Transfer-Encoding:
chunked` set on its header dictionary): it sends no Content-Length, the body in chunks of the send block and the last
chunk; the server-side reader returns exactly the method, target, headers and body, for every fragmentation, and stops
exactly behind the last chunk. -/
theorem chunked_request_roundtrip (method target host : Bytes) (port : Nat) (hs0 : Dic) (body rest : Bytes) (cuts : List Nat)
    (hm : WFWord method) (ht : WFWord target) (hfit : method.length + target.length + 11 ≤ 16001)
    (hhp : WFValue (host ++ [58] ++ utoa port)) (hhpfit : FitsLine sHostName (host ++ [58] ++ utoa port))
    (hh : Canon hs0) (hnf : NoFraming hs0) :
    ∃ (q : Request) (i' : Inp),
      readRequest (Inp.ofBytes ((clientSend method target host port (setHeader hs0 sTransferEncoding sChunked) body).2 ++ rest) cuts) = (q, i') ∧
      i'.data = rest ∧ Live i' ∧ q.method = method ∧ q.resource = target ∧ q.body = body ∧
      q.headers = norm ((sHostName, host ++ [58] ++ utoa port) :: setHeader hs0 sTransferEncoding sChunked) ∧
      hasHeader q.headers sContentLength = false := by
  obtain ⟨h1, h2, h3, hD, hfr, hco⟩ := client_chunked_framed hs0 hh hnf (host ++ [58] ++ utoa port) body hhp.1
  let x : Wire := Wire.mk method target sHttp11 ((sHostName, host ++ [58] ++ utoa port) :: setHeader hs0 sTransferEncoding sChunked)
    (writeBody true sendBlock body ++ lastChunk) body
  have hwf : x.WF := by
    refine ⟨hm, ht, Or.inl rfl, hfit, ?_, hco, reads_of_framed hfr⟩
    intro y hy
    rcases List.mem_cons.mp hy with h | h
    · subst h; exact ⟨wf_name_host, hhp, hhpfit⟩
    · exact hD.wf y h
  have hbytes : (clientSend method target host port (setHeader hs0 sTransferEncoding sChunked) body).2 = x.bytes := by
    have hcl0 : dicGet (setHeader hs0 sTransferEncoding sChunked) sContentLength = none := by
      cases hg : dicGet (setHeader hs0 sTransferEncoding sChunked) sContentLength with
      | none => rfl
      | some v =>
        exfalso
        have hv : header (setHeader hs0 sTransferEncoding sChunked) sContentLength = v := by unfold header; rw [cap_cl, hg]; rfl
        have hne : v ≠ [] := (hD.wf _ (dicGet_mem hg)).2.1.1
        unfold isChunked at h3; rw [hv] at h3
        cases v with
        | nil => exact hne rfl
        | cons a t => simp at h3
    unfold clientSend
    simp only [h1, if_true, h2]
    have hser := serializeWith_chunked sendBlock
      (Msg.mk (clientCommand method target host port) (setHeader hs0 sTransferEncoding sChunked) body) hcl0 h1
    rw [hser]
    simp [x, Wire.bytes, headerBlock, headerLines, clientCommand, sHostName, List.append_assoc]
  obtain ⟨i', hread, hdat, hlive⟩ := wire_request_exact x hwf rest
    (Inp.ofBytes ((clientSend method target host port (setHeader hs0 sTransferEncoding sChunked) body).2 ++ rest) cuts) ⟨rfl, rfl⟩
    (by simp [Inp.ofBytes, hbytes])
  refine ⟨_, i', hread, hdat, hlive, rfl, rfl, rfl, rfl, ?_⟩
  refine (header_norm_absent sContentLength cap_cl _ (fun y hy => ?_)).1
  rcases List.mem_cons.mp hy with h | h
  · subst h; exact ⟨hhp.1, cap_host_ne.1⟩
  · refine ⟨(hD.wf y h).2.1.1, ?_⟩
    rw [setHeader_of_value (by decide), cap_te] at h
    rcases mem_dicSet h with h | h
    · subst h; decide
    · exact (hnf y h).1

/-! ## several exchanges on one connection -/

/-- a request after which the server reads the connection again: well formed, a target with a path, and the connection
is kept — HTTP/1.1 without `Connection: close`, or any version with `Connection: keep-alive` (`keepOf`).  Any method
(an OPTIONS request answered by the library itself included), any body framing. -/
structure Wire.Keeps (x : Wire) : Prop where
  wf : x.WF
  hasPath : (splitTarget x.target).1 ≠ []
  stays : keepOf x.expected = true

/-- one turn of the server loop on a connection whose pending bytes start with a request: the handler gets exactly
that request (or none, for an OPTIONS request the library answers itself), the bytes written back are the interim answer
to `Expect: 100-continue` (if asked) and the response for that request alone, the connection is kept and positioned
after the request -/
theorem serveStep_exact (opt : Bool) (base : Bytes) (p : Plan) (x : Wire) (hx : x.Keeps) (hns : closesAfter x.expected p = false)
    (rest : Bytes) (i : Inp) (hi : Live i) (hd : i.data = x.bytes ++ rest) :
    ∃ i' : Inp, serveStep opt base p i =
        (if (serve1 opt x.expected p [] base).called then some x.expected else none,
         interimOf x.expected.headers ++ (serve1 opt x.expected p [] base).wire, true, i') ∧
      i'.data = rest ∧ Live i' := by
  obtain ⟨i', hread, hdat, hlive⟩ := wire_request_exact x hx.wf rest i hi hd
  have hne : i.data.isEmpty = false := by
    rw [hd]
    obtain ⟨a, t, hm⟩ := List.exists_cons_of_ne_nil hx.wf.wfMethod.1
    simp [Wire.bytes, hm]
  have hvalid : x.expected.valid = true := by
    have h1 : x.method.isEmpty = false := by
      obtain ⟨a, t, hm⟩ := List.exists_cons_of_ne_nil hx.wf.wfMethod.1; rw [hm]; rfl
    have h2 : (splitTarget x.target).1.isEmpty = false := by
      obtain ⟨a, t, hm⟩ := List.exists_cons_of_ne_nil hx.hasPath; rw [hm]; rfl
    have h3 : x.proto.isEmpty = false := by
      obtain ⟨a, t, hm⟩ := List.exists_cons_of_ne_nil (proto_ok hx.wf.isProto).1; rw [hm]; rfl
    simp [Request.valid, Wire.expected, h1, h2, h3]
  have hkeep : (serve1 opt x.expected p [] base).keep = true := by
    unfold serve1
    by_cases ho : x.expected.method = sOPTIONS ∧ opt = true
    · obtain ⟨hm, hopt⟩ := ho
      subst hopt
      rw [serveOne_keep_options _ _ _ _ _ _ hm]; exact hx.stays
    · rw [serveOne_keep _ _ _ _ _ _ _ ho, hns]; simpa using hx.stays
  refine ⟨i', ?_, hdat, hlive⟩
  unfold serveStep
  simp only [hne, live_dead hi, Bool.false_eq_true, or_self, if_false]
  rw [hread]
  simp only [hvalid, hlive.2, hlive.1, not_true_eq_false, Bool.false_eq_true, or_self, if_false, hkeep]

/-- **keepalive_seq.**  Requests sent one after the other on the same connection — by any sender, pipelined or not, in
any fragmentation (`i` is any live connection state), with bodies framed by length or by chunks, kept alive by HTTP/1.1
or by `Connection: keep-alive` — are served exactly as if each had arrived alone on a fresh connection: the reader
consumes exactly one message per turn. -/
theorem keepalive_seq (opt : Bool) (base : Bytes) : ∀ (l : List (Wire × Plan)) (i : Inp), Live i →
    (∀ xp ∈ l, xp.1.Keeps) → (∀ xp ∈ l, closesAfter xp.1.expected xp.2 = false) → i.data = (l.map (fun xp => xp.1.bytes)).flatten →
    serveConn opt base (l.map (·.2)) i =
      l.map (fun xp => ((serveStep opt base xp.2 (Inp.ofBytes xp.1.bytes)).1, (serveStep opt base xp.2 (Inp.ofBytes xp.1.bytes)).2.1)) := by
  intro l
  induction l with
  | nil => intro i _ _ _ _; rfl
  | cons xp t ih =>
    intro i hi hk hn hd
    obtain ⟨x, p⟩ := xp
    have hks := hk (x, p) List.mem_cons_self
    have hns := hn (x, p) List.mem_cons_self
    obtain ⟨i', hstep, hdat, hlive⟩ := serveStep_exact opt base p x hks hns ((t.map (fun xp => xp.1.bytes)).flatten) i hi
      (by simpa using hd)
    obtain ⟨i0, hstep0, _, _⟩ := serveStep_exact opt base p x hks hns [] (Inp.ofBytes x.bytes) ⟨rfl, rfl⟩ (by simp [Inp.ofBytes])
    simp only [List.map_cons, serveConn]
    rw [hstep, hstep0]
    simp only [if_true]
    rw [ih i' hlive (fun xp h => hk xp (List.mem_cons_of_mem _ h)) (fun xp h => hn xp (List.mem_cons_of_mem _ h)) hdat]

/-! ## many clients in flight: each receives the response to its own request -/

/-- **interleaving_local.**  Whatever the schedule of the per-connection handler threads, the state of connection `k`
(what it has read, what it has answered) is the result of its own turns only: no turn of another connection shows. -/
theorem interleaving_local (opt : Bool) (base : Bytes) (sched : List Nat) (s : Server) (k : Nat) :
    runSched opt base sched s k = iterStep opt base (sched.count k) (s k) :=
  runSched_conn opt base sched s k

/-- **interleaving_independent.**  For every interleaving in which connection `k` gets its turns, the answers written
on connection `k` are exactly those of serving that connection alone (`serveConn` on its own bytes): with any number of
clients in flight, each receives the responses to its own requests. -/
theorem interleaving_independent (opt : Bool) (base : Bytes) (sched : List Nat) (s : Server) (k : Nat)
    (hout : (s k).out = []) (halive : (s k).alive = true) (hturns : sched.count k = (s k).plans.length) :
    (runSched opt base sched s k).out = serveConn opt base (s k).plans (s k).inp := by
  rw [runSched_conn, hturns, iterStep_serveConn opt base (s k).plans (s k) rfl, hout, halive]
  simp

/-- header names are looked up without regard to case (RFC 7230 §3.2): the handler finds a header under any spelling -/
theorem header_lookup_case_insensitive (H : Dic) (n n' : Bytes) (h : lowerAscii n = lowerAscii n') : header H n = header H n' := by
  unfold header
  rw [← capitalized_lower n, ← capitalized_lower n', h]

/-- **empty_header_kept** (after the repair of `readHeaders`).  A header that travels with an empty value (`X-Empty: `
CRLF) is part of what the reader stores: it is present (`hasHeader`) with the empty value, on either side. -/
theorem empty_header_kept (n rest : Bytes) (h : Dic) (hn : WFName n) (hfit : n.length + 3 ≤ 16001) (i : Inp) (hi : Live i)
    (hd : i.data = n ++ [58, 32] ++ crlf ++ crlf ++ rest) :
    ∃ i' : Inp, readHeaders i h = (storeHeader h n [], i') ∧ i'.data = rest ∧
      hasHeader (storeHeader h n []) n = true ∧ header (storeHeader h n []) n = [] := by
  have hlen : i.data.length = n.length + 6 + rest.length := by rw [hd]; simp [crlf]; omega
  obtain ⟨h1, h2⟩ := readHeaders_step_empty i.data.length i h [] [] n (crlf ++ rest) hi hn hfit (by rw [hd]; simp [List.append_assoc])
  obtain ⟨f0, hf0⟩ : ∃ f0, i.data.length = f0 + 1 := ⟨i.data.length - 1, by omega⟩
  have hi' : Live (i.advance (n.length + 4)) := hi
  obtain ⟨h3, h4⟩ := readHeaders_end f0 (i.advance (n.length + 4)) (storeHeader h n []) n [] rest hi' h2
  refine ⟨_, ?_, h4, ?_, ?_⟩
  · unfold readHeaders; rw [h1, hf0, h3]
  · unfold hasHeader storeHeader; rw [dicGet_dicSet_same]; rfl
  · unfold header storeHeader; rw [dicGet_dicSet_same]; rfl

/-! ## responses: what the handler produced is what `Http::request` returns -/

/-- the responses `Http::request` returns as it read them: not the interim 100 (skipped), and not a redirection that the
client follows by default — a 301, 302, 307 or 308 that names a target (`followsRedirect`; without `Location` the
redirection itself is the result, 9644a87).  `hs` is the header dictionary the client reads. -/
def ReturnedAsIs (code : Nat) (hs : Dic) : Prop := code ≠ 100 ∧ followsRedirect true code hs = false

/-- the response as the client must see it: same status code, same protocol, same body bytes, no socket error, and the
headers EXACTLY the dictionary that was sent (`r.headers = sent`, hence also every header retrievable under its name) -/
structure SeesResponse (r : Response) (code : Nat) (proto : Bytes) (sent : Dic) (body : Bytes) : Prop where
  code : r.code = code
  proto : r.proto = proto
  body : r.body = body
  noError : r.sockError = []
  headers : r.headers = sent

/-- the message the server writes for a handler that `put()` a body: status line, the handler's headers plus the
Content-Length that `put` sets -/
def putResponse (proto : Bytes) (code : Nat) (hs : Dic) (body : Bytes) : Msg :=
  ⟨statusLine proto code, setHeader hs sContentLength (utoa body.length), body⟩

/-- the handler's dictionary: built by `setHeader` (sorted, capitalized names, well-formed lines), no framing header of
its own -/
structure HandlerHeaders (hs : Dic) : Prop where
  canon : Canon hs
  noFraming : NoFraming hs

theorem put_dict {hs : Dic} (h : HandlerHeaders hs) (body : Bytes) (hb : body.length < 2147483648) :
    Canon (setHeader hs sContentLength (utoa body.length)) ∧
    dicGet (setHeader hs sContentLength (utoa body.length)) sContentLength = some (utoa body.length) ∧
    dicGet (setHeader hs sContentLength (utoa body.length)) sTransferEncoding = none := by
  refine ⟨canon_setHeader h.canon wf_name_cl (wf_digits_value _) ?_, ?_, ?_⟩
  · have := utoa_length body.length hb
    unfold FitsLine; simp [sContentLength]; omega
  · have := dicGet_setHeader_same hs sContentLength (utoa body.length) (utoa_ne_nil _)
    rwa [cap_cl] at this
  · rw [dicGet_setHeader_other hs sContentLength _ sTransferEncoding (utoa_ne_nil _) (by rw [cap_cl]; decide)]
    exact dicGet_none_of_keys (canon_key_ne h.canon (fun x hx => (h.noFraming x hx).2))

/-- **frame_roundtrip (responses with a length).**  A response whose body was `put()` — any status code that the client
returns as is, any header dictionary, a body of any length — is returned by the client's reader exactly (status,
protocol, the very same header dictionary, body), for every fragmentation of the stream. -/
theorem response_roundtrip (proto : Bytes) (code : Nat) (hs : Dic) (body rest : Bytes) (cuts : List Nat)
    (hp : IsProto proto) (hcode : code < 2147483648) (hh : HandlerHeaders hs)
    (hret : ReturnedAsIs code (setHeader hs sContentLength (utoa body.length))) (hbody : body.length < 2147483648) :
    ∃ (r : Response) (i' : Inp),
      readResponse (Inp.ofBytes (serialize (putResponse proto code hs body) ++ rest) cuts) = (r, i') ∧
      i'.data = rest ∧ Live i' ∧
      SeesResponse r code proto (setHeader hs sContentLength (utoa body.length)) body := by
  obtain ⟨hD, hcl, hte⟩ := put_dict hh body hbody
  obtain ⟨_, hnc⟩ := framed_len_canon sendBlock hD body hcl hte hbody
  obtain ⟨i', hread, hdat, hlive⟩ := readResponse_dict proto code _ body body rest hp hcode hret.1 hD hcl hte hbody rfl
    (Inp.ofBytes (serialize (putResponse proto code hs body) ++ rest) cuts) ⟨rfl, rfl⟩
    (by
      have hte' : teChunked (header (putResponse proto code hs body).headers sTransferEncoding) = false := teChunked_of_no_te hte
      unfold serialize
      rw [serializeWith_plain _ _ hte']
      simp [Inp.ofBytes, putResponse, hnc, writeBody_plain sendBlock sendBlock_pos])
  exact ⟨_, i', hread, hdat, hlive, ⟨rfl, rfl, rfl, rfl, rfl⟩⟩

/-- **frame_roundtrip (streamed, chunked responses).**  A handler that sets `Transfer-Encoding: chunked`, streams any
list of parts through `write(part)` (each cut into blocks, each block a chunk) and ends with the last chunk: the client
returns the concatenation of the parts and the very same header dictionary, for every fragmentation. -/
theorem stream_roundtrip (proto : Bytes) (code : Nat) (hs : Dic) (parts : List Bytes) (rest : Bytes) (cuts : List Nat)
    (hp : IsProto proto) (hcode : code < 2147483648) (hh : HandlerHeaders hs)
    (hret : ReturnedAsIs code (setHeader hs sTransferEncoding sChunked)) :
    ∃ (r : Response) (i' : Inp),
      readResponse (Inp.ofBytes (serializeStream sendBlock proto code (setHeader hs sTransferEncoding sChunked) parts true ++ rest) cuts)
        = (r, i') ∧
      i'.data = rest ∧ Live i' ∧
      SeesResponse r code proto (setHeader hs sTransferEncoding sChunked) parts.flatten := by
  have hD : Canon (setHeader hs sTransferEncoding sChunked) :=
    canon_setHeader hh.canon wf_name_te wf_value_chunked (by unfold FitsLine; decide)
  have hte : dicGet (setHeader hs sTransferEncoding sChunked) sTransferEncoding = some sChunked := by
    have := dicGet_setHeader_same hs sTransferEncoding sChunked (by decide)
    rwa [cap_te] at this
  have hcl : dicGet (setHeader hs sTransferEncoding sChunked) sContentLength = none := by
    rw [dicGet_setHeader_other hs sTransferEncoding _ sContentLength (by decide) (by rw [cap_te]; decide)]
    exact dicGet_none_of_keys (canon_key_ne hh.canon (fun x hx => (hh.noFraming x hx).1))
  have hchunk : isChunked (setHeader hs sTransferEncoding sChunked) = true := by
    unfold isChunked; rw [(header_of_dicGet_none cap_cl hcl).1]; rfl
  obtain ⟨i', hread, hdat, hlive⟩ := readResponse_dict_chunked proto code _ parts rest hp hcode hret.1 hD hcl hte
    (Inp.ofBytes (serializeStream sendBlock proto code (setHeader hs sTransferEncoding sChunked) parts true ++ rest) cuts)
    ⟨rfl, rfl⟩ (by simp [Inp.ofBytes, serializeStream, (streamHeaders_named proto code hte hcl).1, (streamHeaders_named proto code hte hcl).2.1,
      (streamHeaders_named proto code hte hcl).2.2, hchunk, List.append_assoc])
  exact ⟨_, i', hread, hdat, hlive, ⟨rfl, rfl, rfl, rfl, rfl⟩⟩

/-- **refused_headers_no_response** (after the repair 9f1c7c1; conditional: it starts from a head whose reading closed the
connection — that the refused kinds of blocks do close it is shown on concrete responses by `refused_examples` below, at both
refusal points; the general statement "for every well-formed header list followed by any refused line, in every fragmentation"
is not proved).  When the reader refuses the header block of a response (a
field name that is no token, a line without colon, a block that breaks off: it closes the socket), the client does not
report a response: code 0, socket error SOCKET_BAD_DATA, no body. -/
theorem refused_headers_no_response (i : Inp) (c : Nat) (p : Bytes) (h : Dic) (i2 : Inp)
    (hh : readResponseHead i = some (c, p, h, i2)) (hcl : i2.closed = true) :
    (readResponse i).1.code = 0 ∧ (readResponse i).1.sockError = sBadData ∧ (readResponse i).1.body = [] := by
  unfold readResponse; rw [hh]; simp [hcl]

/-- the hypotheses of `refused_headers_no_response` are met by every kind of header block the reader refuses, at both
refusal points of `Http::request` (after the status line, and inside the loop that skips `100 Continue`): concrete responses,
evaluated by the kernel -/
def refusedExamples : List (Bytes × List Nat) :=
  [([72, 84, 84, 80, 47, 49, 46, 49, 32, 50, 48, 48, 32, 79, 75, 13, 10, 88, 45, 65, 58, 32, 49, 13, 10, 66, 97, 100, 32, 78, 97, 109, 101, 58, 32, 118, 13, 10, 67, 111, 110, 116, 101, 110, 116, 45, 76, 101, 110, 103, 116, 104, 58, 32, 53, 13, 10, 13, 10, 104, 101, 108, 108, 111], [7, 30]),
   ([72, 84, 84, 80, 47, 49, 46, 49, 32, 50, 48, 48, 32, 79, 75, 13, 10, 88, 45, 65, 58, 32, 49, 13, 10, 110, 111, 99, 111, 108, 111, 110, 13, 10, 67, 111, 110, 116, 101, 110, 116, 45, 76, 101, 110, 103, 116, 104, 58, 32, 53, 13, 10, 13, 10, 104, 101, 108, 108, 111], []),
   ([72, 84, 84, 80, 47, 49, 46, 49, 32, 50, 48, 48, 32, 79, 75, 13, 10, 67, 111, 110, 116, 101, 110, 116, 45, 76, 101, 110, 103, 116, 104, 32, 58, 32, 53, 13, 10, 13, 10, 104, 101, 108, 108, 111], [20]),
   ([72, 84, 84, 80, 47, 49, 46, 49, 32, 50, 48, 48, 32, 79, 75, 13, 10, 58, 32, 118, 13, 10, 67, 111, 110, 116, 101, 110, 116, 45, 76, 101, 110, 103, 116, 104, 58, 32, 53, 13, 10, 13, 10, 104, 101, 108, 108, 111], []),
   ([72, 84, 84, 80, 47, 49, 46, 49, 32, 50, 48, 48, 32, 79, 75, 13, 10, 32, 88, 45, 70, 105, 114, 115, 116, 58, 32, 118, 13, 10, 67, 111, 110, 116, 101, 110, 116, 45, 76, 101, 110, 103, 116, 104, 58, 32, 53, 13, 10, 13, 10, 104, 101, 108, 108, 111], [1, 2, 3]),
   ([72, 84, 84, 80, 47, 49, 46, 49, 32, 50, 48, 48, 32, 79, 75, 13, 10, 88, 45, 65, 58, 32, 49, 13, 10, 67, 111, 110, 116, 101, 110, 116, 45, 76, 101], []),
   ([72, 84, 84, 80, 47, 49, 46, 49, 32, 49, 48, 48, 32, 67, 111, 110, 116, 105, 110, 117, 101, 13, 10, 13, 10, 72, 84, 84, 80, 47, 49, 46, 49, 32, 50, 48, 48, 32, 79, 75, 13, 10, 88, 45, 65, 58, 32, 49, 13, 10, 66, 97, 100, 32, 78, 97, 109, 101, 58, 32, 118, 13, 10, 67, 111, 110, 116, 101, 110, 116, 45, 76, 101, 110, 103, 116, 104, 58, 32, 53, 13, 10, 13, 10, 104, 101, 108, 108, 111], [25, 40]),
   ([72, 84, 84, 80, 47, 49, 46, 49, 32, 49, 48, 48, 32, 67, 111, 110, 116, 105, 110, 117, 101, 13, 10, 13, 10, 72, 84, 84, 80, 47, 49, 46, 49, 32, 50, 48, 49, 32, 79, 75, 13, 10, 110, 111, 99, 111, 108, 111, 110, 13, 10, 13, 10], [])]
  -- a field name with a blank; a line without colon; a blank before the colon of Content-Length; an empty field name; a first line that continues nothing; a block that breaks off; the same behind an interim 100 Continue (the refusal point inside skipContinue); a line without colon behind the interim response

theorem refused_examples :
    ∀ x ∈ refusedExamples, (readResponse (Inp.ofBytes x.1 x.2)).1.code = 0 ∧ (readResponse (Inp.ofBytes x.1 x.2)).1.sockError = sBadData ∧
      (readResponse (Inp.ofBytes x.1 x.2)).1.body = [] := by
  decide +kernel

/-- and a well-formed response behind the interim one is still read (the refusal is not vacuous the other way) -/
example : (readResponse (Inp.ofBytes [72, 84, 84, 80, 47, 49, 46, 49, 32, 49, 48, 48, 32, 67, 111, 110, 116, 105, 110, 117, 101, 13, 10, 13, 10, 72, 84, 84, 80, 47, 49, 46, 49, 32, 50, 48, 48, 32, 79, 75, 13, 10, 88, 45, 65, 58, 32, 49, 13, 10, 67, 111, 110, 116, 101, 110, 116, 45, 76, 101, 110, 103, 116, 104, 58, 32, 53, 13, 10, 13, 10, 104, 101, 108, 108, 111] [25])).1.code = 200 := by decide +kernel

/-- **auto_stream_roundtrip** (after the repairs 75c75d0, 3e98c13).  A handler that answers an HTTP/1.1 request in pieces
with `write(part)` and names neither a length nor a coding, with a status that can have a body: the library sends the pieces
as chunks, announces `Transfer-Encoding: chunked` itself and ends the stream with the last chunk; the client returns the
concatenation of the parts and the handler's dictionary with the coding added, for every fragmentation. -/
theorem auto_stream_roundtrip (code : Nat) (hs : Dic) (parts : List Bytes) (rest : Bytes) (cuts : List Nat)
    (hcode : code < 2147483648) (hbody : bodyless code = false) (hh : HandlerHeaders hs)
    (hret : ReturnedAsIs code (setHeader hs sTransferEncoding sChunked)) :
    ∃ (r : Response) (i' : Inp),
      readResponse (Inp.ofBytes (serializeStream sendBlock sHttp11 code hs parts false ++ rest) cuts) = (r, i') ∧
      i'.data = rest ∧ Live i' ∧
      SeesResponse r code sHttp11 (setHeader hs sTransferEncoding sChunked) parts.flatten := by
  have hcl : dicGet hs sContentLength = none :=
    dicGet_none_of_keys (canon_key_ne hh.canon (fun x hx => (hh.noFraming x hx).1))
  have hte : dicGet hs sTransferEncoding = none :=
    dicGet_none_of_keys (canon_key_ne hh.canon (fun x hx => (hh.noFraming x hx).2))
  rw [serializeStream_own _ _ _ _ hbody hcl hte]
  exact stream_roundtrip sHttp11 code hs parts rest cuts (Or.inl rfl) hcode hh hret

/-- **bodyless_stream_plain** (after the repair 3e98c13; a model lemma: a one-step unfolding of `serializeStream`, not a
property clause).  A 1xx, 204 or 304 whose handler sends the headers itself and
writes nothing goes out as its header block alone: no coding announced, no chunk after it. -/
theorem bodyless_stream_plain (blk : Nat) (proto : Bytes) (code : Nat) (hs : Dic) (hb : bodyless code = true)
    (hte : dicGet hs sTransferEncoding = none) :
    serializeStream blk proto code hs [] false = headerBlock (statusLine proto code) hs := by
  have ho : ownChunks proto code hs = false := by unfold ownChunks; rw [hb]; simp
  have he : endByClose proto code hs = false := by unfold endByClose; rw [hb]; simp
  unfold serializeStream streamHeaders
  simp [ho, he, sentHeaders_plain (teChunked_of_no_te hte)]

/-- **http10_stream_raw** (after the repair 687f097).  An unframed stream to an HTTP/1.0 request goes out as its pieces, as
they are, under `Connection: close` — no chunk framing anywhere. -/
theorem http10_stream_raw (code : Nat) (hs : Dic) (parts : List Bytes) (hb : bodyless code = false)
    (hcl : dicGet hs sContentLength = none) (hte : dicGet hs sTransferEncoding = none) :
    serializeStream sendBlock sHttp10 code hs parts false =
      headerBlock (statusLine sHttp10 code) (setHeader hs sConnection sClose) ++ parts.flatten := by
  have hu : unframed hs = true := by unfold unframed hasHeader; rw [cap_te, cap_cl, hte, hcl]; rfl
  have ho : ownChunks sHttp10 code hs = false := by
    unfold ownChunks; have : (sHttp10 != sHttp10) = false := by decide
    rw [this]; simp
  have he : endByClose sHttp10 code hs = true := by
    unfold endByClose; have : (sHttp10 == sHttp10) = true := by decide
    rw [hu, hb, this]; rfl
  unfold serializeStream streamHeaders
  simp only [ho, he, Bool.false_eq_true, if_false, if_true, Bool.not_true, Bool.and_false, Bool.or_false]
  have hp : ∀ p : Bytes, writeBody false sendBlock p = p := writeBody_plain sendBlock sendBlock_pos
  have : (parts.map (writeBody false sendBlock)) = parts := by
    induction parts with
    | nil => rfl
    | cons a t ih => simp [hp a, ih]
  rw [this]; simp

/-- **serveStep_http10_stream** (after the repair 687f097; what `serveStep_exact` excludes).  An HTTP/1.0 request answered in
pieces by a handler that names no framing, with a status that can have a body: the handler gets the request, the bytes
written back are the header block under `Connection: close` and the pieces as they are, and the connection is NOT kept —
whatever the request asked for. -/
theorem serveStep_http10_stream (opt : Bool) (base : Bytes) (p : Plan) (parts : List Bytes) (x : Wire) (hx : x.Keeps)
    (h10 : x.proto = sHttp10) (hk : p.kind = .streamAuto parts) (hopt : ¬ (x.method = sOPTIONS ∧ opt = true))
    (hec : endByClose sHttp10 p.code (handlerHeaders x.expected p) = true)
    (rest : Bytes) (i : Inp) (hi : Live i) (hd : i.data = x.bytes ++ rest) :
    ∃ i' : Inp, serveStep opt base p i =
        (some x.expected,
         interimOf x.expected.headers ++ (headerBlock (statusLine sHttp10 p.code) (setHeader (handlerHeaders x.expected p) sConnection sClose) ++ parts.flatten),
         false, i') ∧
      i'.data = rest ∧ Live i' := by
  obtain ⟨i', hread, hdat, hlive⟩ := wire_request_exact x hx.wf rest i hi hd
  have hne : i.data.isEmpty = false := by
    rw [hd]
    obtain ⟨a, t, hm⟩ := List.exists_cons_of_ne_nil hx.wf.wfMethod.1
    simp [Wire.bytes, hm]
  have hvalid : x.expected.valid = true := by
    have h1 : x.method.isEmpty = false := by
      obtain ⟨a, t, hm⟩ := List.exists_cons_of_ne_nil hx.wf.wfMethod.1; rw [hm]; rfl
    have h2 : (splitTarget x.target).1.isEmpty = false := by
      obtain ⟨a, t, hm⟩ := List.exists_cons_of_ne_nil hx.hasPath; rw [hm]; rfl
    have h3 : x.proto.isEmpty = false := by
      obtain ⟨a, t, hm⟩ := List.exists_cons_of_ne_nil (proto_ok hx.wf.isProto).1; rw [hm]; rfl
    simp [Request.valid, Wire.expected, h1, h2, h3]
  have hopt' : ¬ (x.expected.method = sOPTIONS ∧ opt = true) := hopt
  have hproto : respProto x.expected = sHttp10 := by
    unfold respProto; simp [Wire.expected, h10]
  have hca : closesAfter x.expected p = true := by
    unfold closesAfter; rw [hk]; simp only []; rw [hproto]; exact hec
  have hkeep : (serve1 opt x.expected p [] base).keep = false := by
    unfold serve1; rw [serveOne_keep _ _ _ _ _ _ _ hopt', hca]; simp
  have hcalled : (serve1 opt x.expected p [] base).called = true := by
    unfold serve1; rw [serveOne_called]
    cases opt with
    | false => simp
    | true =>
      have : ¬ x.expected.method = sOPTIONS := fun h => hopt ⟨h, rfl⟩
      simp [this]
  -- the bytes: the unframed stream of `http10_stream_raw`
  have hu : unframed (handlerHeaders x.expected p) = true ∧ bodyless p.code = false := by
    unfold endByClose at hec
    cases hu : unframed (handlerHeaders x.expected p) <;> cases hb : bodyless p.code <;> simp_all
  have hcl : dicGet (handlerHeaders x.expected p) sContentLength = none := by
    have := hu.1; unfold unframed hasHeader at this; rw [cap_cl, cap_te] at this
    cases hg : dicGet (handlerHeaders x.expected p) sContentLength <;> simp_all
  have hte : dicGet (handlerHeaders x.expected p) sTransferEncoding = none := by
    have := hu.1; unfold unframed hasHeader at this; rw [cap_cl, cap_te] at this
    cases hg : dicGet (handlerHeaders x.expected p) sTransferEncoding <;> simp_all
  have hwire : (serve1 opt x.expected p [] base).wire =
      headerBlock (statusLine sHttp10 p.code) (setHeader (handlerHeaders x.expected p) sConnection sClose) ++ parts.flatten := by
    rw [← http10_stream_raw p.code (handlerHeaders x.expected p) parts hu.2 hcl hte]
    unfold serve1
    rw [serveOne_streamAuto _ _ _ _ _ _ _ parts hopt' hk, hproto]
  refine ⟨i', ?_, hdat, hlive⟩
  unfold serveStep
  simp only [hne, live_dead hi, Bool.false_eq_true, or_self, if_false]
  rw [hread]
  simp only [hvalid, hlive.2, hlive.1, not_true_eq_false, Bool.false_eq_true, or_self, if_false, hkeep, hcalled, if_true, hwire]

/-- **chunked_put_roundtrip** (after the repairs 07183e2, c720b96).  A handler that asks for the chunked coding
(`setHeader("Transfer-Encoding", "chunked")`) and then gives its body with `put()`: the Content-Length that `put` sets does
not go out, the body goes out in chunks of the send block, and the library ends the message with the last chunk; the
client's reader returns exactly the code, the handler's dictionary (with the coding, without a length) and the body, for
every fragmentation, and stops exactly behind the last chunk. -/
theorem chunked_put_roundtrip (proto : Bytes) (code : Nat) (hs : Dic) (body rest : Bytes) (cuts : List Nat)
    (hp : IsProto proto) (hcode : code < 2147483648) (hh : HandlerHeaders hs)
    (hret : ReturnedAsIs code (setHeader hs sTransferEncoding sChunked)) :
    ∃ (r : Response) (i' : Inp),
      readResponse (Inp.ofBytes (serialize (Msg.mk (statusLine proto code)
          (setHeader (setHeader hs sTransferEncoding sChunked) sContentLength (utoa body.length)) body) ++ rest) cuts) = (r, i') ∧
      i'.data = rest ∧ Live i' ∧
      SeesResponse r code proto (setHeader hs sTransferEncoding sChunked) body ∧
      hasHeader r.headers sContentLength = false := by
  have hD : Canon (setHeader hs sTransferEncoding sChunked) :=
    canon_setHeader hh.canon wf_name_te wf_value_chunked (by unfold FitsLine; decide)
  have hte : dicGet (setHeader hs sTransferEncoding sChunked) sTransferEncoding = some sChunked := by
    have := dicGet_setHeader_same hs sTransferEncoding sChunked (by decide)
    rwa [cap_te] at this
  have hcl : dicGet (setHeader hs sTransferEncoding sChunked) sContentLength = none := by
    rw [dicGet_setHeader_other hs sTransferEncoding _ sContentLength (by decide) (by rw [cap_te]; decide)]
    exact dicGet_none_of_keys (canon_key_ne hh.canon (fun x hx => (hh.noFraming x hx).1))
  have hchunk : isChunked (setHeader hs sTransferEncoding sChunked) = true := by
    unfold isChunked; rw [(header_of_dicGet_none cap_cl hcl).1]; rfl
  obtain ⟨hsent, hend⟩ := sentHeaders_put_chunked (utoa body.length) (utoa_ne_nil _) hcl hte
  obtain ⟨i', hread, hdat, hlive⟩ := readResponse_dict_chunked proto code _ [body] rest hp hcode hret.1 hD hcl hte
    (Inp.ofBytes (serialize (Msg.mk (statusLine proto code)
      (setHeader (setHeader hs sTransferEncoding sChunked) sContentLength (utoa body.length)) body) ++ rest) cuts)
    ⟨rfl, rfl⟩ (by
      unfold serialize serializeWith
      simp only [hsent, hend, hchunk]
      simp [Inp.ofBytes, List.append_assoc])
  refine ⟨_, i', hread, hdat, hlive, ⟨rfl, rfl, by simp, rfl, rfl⟩, ?_⟩
  exact (header_of_dicGet_none cap_cl hcl).2

/-- what the server writes for a file response to `Range: bytes=b-e` that `putFile` accepts as bytes `b'..e'` -/
def fileRangeHeaders (hs : Dic) (b' e' n : Nat) : Dic :=
  setHeader (setHeader hs sContentLength (utoa (e' - b' + 1))) sContentRange (contentRangeText b' e' n)

/-- **file_response_roundtrip.**  A file body with a byte range: when `putFile` accepts `Range: bytes=b-e` on a file of
`n` bytes as `b'..e'` (`rangeOf`, see `range_spec`), the response it writes — status 206, `Content-Length`, `Content-Range`,
the file read in 16000-byte blocks — is read back by the client as exactly: code 206, the announced length `e'-b'+1`, the
announced range `bytes b'-e'/n`, the very same header dictionary, and as body exactly bytes `b'..e'` of the file. -/
theorem file_response_roundtrip (proto : Bytes) (hs : Dic) (content rest : Bytes) (b e : Int) (b' e' : Nat) (cuts : List Nat)
    (hp : IsProto proto) (hh : HandlerHeaders hs) (hnr : ∀ x ∈ hs, capitalized x.1 ≠ sContentRange)
    (hn : content.length < 2147483648) (hr : rangeOf content.length b e = some (b', e')) :
    ∃ (r : Response) (i' : Inp),
      readResponse (Inp.ofBytes (headerBlock (statusLine proto 206) (fileRangeHeaders hs b' e' content.length) ++
          writeFile (isChunked (fileRangeHeaders hs b' e' content.length)) sendBlock recvBlock (fileSlice content b' e') ++ rest) cuts) = (r, i') ∧
      i'.data = rest ∧ Live i' ∧
      SeesResponse r 206 proto (fileRangeHeaders hs b' e' content.length) ((content.drop b').take (e' - b' + 1)) ∧
      header r.headers sContentLength = utoa (e' - b' + 1) ∧
      header r.headers sContentRange = contentRangeText b' e' content.length := by
  obtain ⟨hr1, hr2, hr3⟩ := rangeOf_some hr
  have hrange : b' ≤ e' ∧ e' < content.length := ⟨hr1, hr2⟩
  have hslice : fileSlice content b' e' = (content.drop b').take (e' - b' + 1) := by
    unfold fileSlice
    by_cases hc : b' ≠ e' ∨ b' > 0
    · rw [if_pos hc]
    · rw [if_neg hc]
      have hb0 : b' = 0 := by omega
      have he0 : e' = 0 := by omega
      subst hb0; subst he0
      have : content.length = 1 := hr3 rfl
      simp only [List.drop_zero, Nat.sub_self, Nat.zero_add]
      rw [← this, List.take_length]
  have hlen : ((content.drop b').take (e' - b' + 1)).length = e' - b' + 1 := by
    rw [List.length_take, List.length_drop]; omega
  have hfit : ∀ k, k ≤ content.length → (utoa k).length ≤ 10 := fun k hk => utoa_length k (by omega)
  -- the dictionary
  have hD1 : Canon (setHeader hs sContentLength (utoa (e' - b' + 1))) :=
    canon_setHeader hh.canon wf_name_cl (wf_digits_value _) (by
      have := hfit (e' - b' + 1) (by omega); unfold FitsLine; simp [sContentLength]; omega)
  have hcrwf := contentRange_wf b' e' content.length
  have hD : Canon (fileRangeHeaders hs b' e' content.length) :=
    canon_setHeader hD1 (by refine ⟨by decide, ?_⟩; decide) hcrwf.1 (by
      have h1 := hfit b' (by omega); have h2 := hfit e' (by omega); have h3 := hfit content.length (Nat.le_refl _)
      have := hcrwf.2; unfold FitsLine; simp [sContentRange]; omega)
  have hcrne := hcrwf.1.1
  have hcapcr : capitalized sContentRange = sContentRange := by decide
  have hcl : dicGet (fileRangeHeaders hs b' e' content.length) sContentLength = some (utoa ((content.drop b').take (e' - b' + 1)).length) := by
    rw [hlen]
    unfold fileRangeHeaders
    rw [dicGet_setHeader_other _ sContentRange _ sContentLength hcrne (by rw [hcapcr]; decide)]
    have := dicGet_setHeader_same hs sContentLength (utoa (e' - b' + 1)) (utoa_ne_nil _)
    rwa [cap_cl] at this
  have hte : dicGet (fileRangeHeaders hs b' e' content.length) sTransferEncoding = none := by
    unfold fileRangeHeaders
    rw [dicGet_setHeader_other _ sContentRange _ sTransferEncoding hcrne (by rw [hcapcr]; decide),
      dicGet_setHeader_other hs sContentLength _ sTransferEncoding (utoa_ne_nil _) (by rw [cap_cl]; decide)]
    exact dicGet_none_of_keys (canon_key_ne hh.canon (fun x hx => (hh.noFraming x hx).2))
  have hcr : dicGet (fileRangeHeaders hs b' e' content.length) sContentRange = some (contentRangeText b' e' content.length) := by
    have := dicGet_setHeader_same (setHeader hs sContentLength (utoa (e' - b' + 1))) sContentRange (contentRangeText b' e' content.length) hcrne
    rwa [hcapcr] at this
  have hbfit : ((content.drop b').take (e' - b' + 1)).length < 2147483648 := by rw [hlen]; omega
  obtain ⟨_, hnc⟩ := framed_len_canon sendBlock hD _ hcl hte hbfit
  obtain ⟨i', hread, hdat, hlive⟩ := readResponse_dict proto 206 _ ((content.drop b').take (e' - b' + 1)) _ rest hp (by decide) (by decide)
    hD hcl hte hbfit rfl
    (Inp.ofBytes (headerBlock (statusLine proto 206) (fileRangeHeaders hs b' e' content.length) ++
          writeFile (isChunked (fileRangeHeaders hs b' e' content.length)) sendBlock recvBlock (fileSlice content b' e') ++ rest) cuts) ⟨rfl, rfl⟩
    (by simp [Inp.ofBytes, hnc, hslice, writeFile_plain sendBlock recvBlock sendBlock_pos recvBlock_pos])
  refine ⟨_, i', hread, hdat, hlive, ⟨rfl, rfl, rfl, rfl, rfl⟩, ?_, ?_⟩
  · have := (header_of_dicGet cap_cl hcl).1
    rw [hlen] at this; exact this
  · exact (header_of_dicGet hcapcr hcr).1

/-- **continue_skipped.**  `Expect: 100-continue`: the server answers the request headers with the interim
`HTTP/1.1 100 Continue` (`interimOf`, part of what `serveStep` writes); the client (after the repair 0d3eb94) skips it: a
final response that follows the interim one is read exactly as if it stood alone. -/
theorem continue_skipped (i : Inp) (hi : Live i) (rest : Bytes) (hd : i.data = sInterim100 ++ rest)
    (c : Nat) (p : Bytes) (h : Dic) (i2 : Inp) (hhead : readResponseHead (i.advance 25) = some (c, p, h, i2)) (hc : c ≠ 100) :
    readResponse i = readResponse (i.advance 25) ∧ (i.advance 25).data = rest :=
  ⟨readResponse_after_continue i hi rest hd c p h i2 hhead hc, by simp [hd, sInterim100]⟩

/-! ## the whole exchange: library client → library server → library client -/

/-- a client request as data -/
structure Sent where
  method : Bytes
  target : Bytes
  host : Bytes
  port : Nat
  hs : Dic
  body : Bytes

def Sent.wire (s : Sent) : Bytes := serialize (clientMsg s.method s.target s.host s.port true s.hs s.body)
def Sent.toWire (s : Sent) : Wire := clientWire s.method s.target s.host s.port s.hs s.body
def Sent.expected (s : Sent) : Request := expectedRequest s.method s.target s.host s.port s.hs s.body

/-- the header dictionary the server sends for a handler that set `p.headers` and `put()` a body of `n` bytes: the echo of
`Connection: keep-alive` if the request had it, the handler's headers in the order set, `Content-Length`, and `Allow` for
status 405 -/
def servedHeaders (q : Request) (p : Plan) (n : Nat) : Dic :=
  withAllow p.code (setHeader (handlerHeaders q p) sContentLength (utoa n))

theorem handlerHeaders_ok (q : Request) (p : Plan) (hw : WFHeaders p.headers) (hn : NoFraming p.headers) :
    HandlerHeaders (handlerHeaders q p) := by
  have hb : Canon (baseHeaders q) ∧ NoFraming (baseHeaders q) := by
    unfold baseHeaders
    split
    · refine ⟨canon_setHeader canon_nil ?_ ?_ ?_, noframing_setHeader (by decide) (by intro x hx; simp at hx) (by decide)⟩
      · refine ⟨by decide, ?_⟩; decide
      · unfold WFValue; decide
      · unfold FitsLine; decide
    · exact ⟨canon_nil, by intro x hx; simp at hx⟩
  exact ⟨canon_foldl p.headers _ hb.1 hw, noframing_foldl p.headers _ hb.2 hn (fun x hx => (hw x hx).2.1.1)⟩

/-- **exchange_roundtrip.**  The composition the driver runs, as a theorem: the library's client serializes a request
(any method, target with a path, header set without `Expect`, body of any length below 2^31), the server-side reader
parses it (any fragmentation `cuts1`), the handler — which gets EXACTLY that request — sets any headers, any status code
that the client returns as is, and `put()`s any body below 2^31 bytes, the server writes the response, the client's reader
parses it (any fragmentation `cuts2`): the client gets exactly the handler's status code, exactly the body bytes, and as
headers exactly the dictionary the server sent (the handler's headers with `Content-Length`, plus the `Connection` echo
and `Allow` for 405), so every header the handler set is found under its name. -/
theorem exchange_roundtrip (opt : Bool) (base : Bytes) (s : Sent) (p : Plan) (b : Bytes) (cuts1 cuts2 : List Nat)
    (hs : WFRequest s.method s.target s.host s.port s.hs s.body) (hpath : (splitTarget s.target).1 ≠ [])
    (hnoexp : ∀ nv ∈ s.hs, capitalized nv.1 ≠ sExpect) (hopt : ¬ (s.method = sOPTIONS ∧ opt = true))
    (hk : p.kind = .bytes b) (hph : WFHeaders p.headers) (hpn : NoFraming p.headers)
    (hb : b.length < 2147483648) (hcode : p.code < 2147483648) (hret : ReturnedAsIs p.code (servedHeaders s.expected p b.length)) :
    ∃ (i1 : Inp) (r : Response) (i2 : Inp),
      readRequest (Inp.ofBytes s.wire cuts1) = (s.expected, i1) ∧ i1.data = [] ∧
      (serve1 opt s.expected p [] base).called = true ∧
      readResponse (Inp.ofBytes (interimOf s.expected.headers ++ (serve1 opt s.expected p [] base).wire) cuts2) = (r, i2) ∧
      i2.data = [] ∧
      SeesResponse r p.code sHttp11 (servedHeaders s.expected p b.length) b ∧
      (∀ nv ∈ p.headers, (∀ other ∈ p.headers, capitalized other.1 = capitalized nv.1 → other = nv) →
        capitalized nv.1 ≠ sAllow → header r.headers nv.1 = nv.2) := by
  -- the request
  obtain ⟨i1, hread, hdat1, _, hwfw⟩ := request_exact s.method s.target s.host s.port s.hs s.body [] hs
    (Inp.ofBytes s.wire cuts1) ⟨rfl, rfl⟩ (by simp [Inp.ofBytes, Sent.wire])
  -- no interim answer
  have hexp : interimOf s.expected.headers = [] := by
    apply interimOf_none
    have : header s.expected.headers sExpect = [] := by
      refine (header_norm_absent sExpect (by decide) _ ?_).2
      intro x hx
      refine ⟨(hwfw x hx).2.1.1, ?_⟩
      rcases List.mem_cons.mp hx with h | h
      · subst h; show capitalized sHostName ≠ sExpect; decide
      · by_cases hb0 : s.body.length = 0
        · have : x ∈ s.hs := by simpa [clientMsg, hb0] using h
          exact hnoexp x this
        · have hx' : x ∈ dicSet s.hs sContentLength (utoa s.body.length) := by
            have := h
            simp only [clientMsg, hb0, ne_eq, not_false_eq_true, if_true] at this
            rw [setHeader_of_value (utoa_ne_nil _), cap_cl] at this
            exact this
          rcases mem_dicSet hx' with h | h
          · subst h; show capitalized sContentLength ≠ sExpect; decide
          · exact hnoexp x h
    rw [this]; decide
  -- the response dictionary
  have hH := handlerHeaders_ok s.expected p hph hpn
  obtain ⟨hD0, hcl0, hte0⟩ := put_dict hH b hb
  have hD : Canon (servedHeaders s.expected p b.length) ∧
      dicGet (servedHeaders s.expected p b.length) sContentLength = some (utoa b.length) ∧
      dicGet (servedHeaders s.expected p b.length) sTransferEncoding = none ∧
      (∀ K, K ≠ sAllow → dicGet (servedHeaders s.expected p b.length) K =
        dicGet (setHeader (handlerHeaders s.expected p) sContentLength (utoa b.length)) K) := by
    unfold servedHeaders withAllow
    split
    · have hcapA : capitalized sAllow = sAllow := by decide
      refine ⟨canon_setHeader hD0 (by refine ⟨by decide, ?_⟩; decide) (by unfold WFValue; decide) (by unfold FitsLine; decide), ?_, ?_, ?_⟩
      · rw [dicGet_setHeader_other _ sAllow _ sContentLength (by decide) (by rw [hcapA]; decide)]; exact hcl0
      · rw [dicGet_setHeader_other _ sAllow _ sTransferEncoding (by decide) (by rw [hcapA]; decide)]; exact hte0
      · intro K hK; exact dicGet_setHeader_other _ sAllow _ K (by decide) (by rw [hcapA]; exact hK)
    · exact ⟨hD0, hcl0, hte0, fun _ _ => rfl⟩
  have hproto : respProto s.expected = sHttp11 := by
    unfold respProto; simp [Sent.expected, expectedRequest, Wire.expected, clientWire, sHttp11, sHttp10]
  have hopt' : ¬ (s.expected.method = sOPTIONS ∧ opt = true) := hopt
  have hwire : (serve1 opt s.expected p [] base).wire =
      serializeWith sendBlock ⟨statusLine sHttp11 p.code, servedHeaders s.expected p b.length, b⟩ := by
    unfold serve1; rw [serveOne_bytes sendBlock recvBlock opt s.expected p [] base b hopt' hk, hproto]; rfl
  have hcalled : (serve1 opt s.expected p [] base).called = true := by
    unfold serve1; rw [serveOne_called]
    cases opt with
    | false => simp
    | true =>
      have : ¬ s.expected.method = sOPTIONS := fun h => hopt ⟨h, rfl⟩
      simp [this]
  obtain ⟨_, hnc⟩ := framed_len_canon sendBlock hD.1 b hD.2.1 hD.2.2.1 hb
  obtain ⟨i2, hresp, hdat2, _⟩ := readResponse_dict sHttp11 p.code _ b b [] (Or.inl rfl) hcode hret.1 hD.1 hD.2.1 hD.2.2.1 hb rfl
    (Inp.ofBytes (interimOf s.expected.headers ++ (serve1 opt s.expected p [] base).wire) cuts2) ⟨rfl, rfl⟩
    (by
      rw [hexp, hwire, serializeWith_plain _ _ (teChunked_of_no_te hD.2.2.1)]
      simp [Inp.ofBytes, hnc, writeBody_plain sendBlock sendBlock_pos])
  refine ⟨i1, _, i2, hread, hdat1, hcalled, hresp, hdat2, ⟨rfl, rfl, rfl, rfl, rfl⟩, ?_⟩
  intro nv hnv huniq hna
  show header (servedHeaders s.expected p b.length) nv.1 = nv.2
  unfold header
  have hne : capitalized nv.1 ≠ capitalized sContentLength := by rw [cap_cl]; exact (hpn nv hnv).1
  rw [hD.2.2.2 _ hna, dicGet_setHeader_other _ sContentLength _ _ (utoa_ne_nil _) hne]
  have := norm_lookup p.headers (baseHeaders s.expected) nv (fun x hx => (hph x hx).2.1.1) hnv huniq
  unfold handlerHeaders
  rw [this]; rfl

/-! ## the sender's chunk framing is RFC 7230 chunked transfer coding -/

/-- **sender conformance.**  What `write(part)` puts on the wire for any list of parts and any block size, followed
by the last chunk, is a chunked body in the sense of RFC 7230 whose payload is the concatenation of the parts. -/
theorem sender_chunked_conforms (blk : Nat) (hb : 0 < blk) (hb2 : blk < 2147483648) : ∀ parts : List Bytes,
    Spec.ChunkedBody ((parts.map (writeBody true blk)).flatten ++ lastChunk) parts.flatten := by
  intro parts
  induction parts with
  | nil => exact Spec.ChunkedBody.last
  | cons p t ih =>
    have := writeLoop_chunked_spec blk hb hb2 p.length p _ _ (Nat.le_refl _) ih
    simpa [writeBody, List.append_assoc] using this

/-- **reader conformance.**  After headers that announce `Transfer-Encoding: chunked` (and no Content-Length), `readBody`
returns the payload of EVERY chunked body of the RFC 7230 grammar (size lines in upper or lower case, with leading
zeros — whoever the sender is), on any live connection, i.e. for every fragmentation, and stops exactly behind it. -/
theorem reader_accepts_rfc_chunked (H : Dic) (w b rest : Bytes) (hcb : Spec.ChunkedBody w b) (hb : b.length < 2147483648)
    (hcl : hasHeader H sContentLength = false) (hte : teChunked (header H sTransferEncoding) = true)
    (i : Inp) (hi : Live i) (hd : i.data = w ++ rest) :
    ∃ i' : Inp, readBody H i = (b, i') ∧ i'.data = rest ∧ Live i' := by
  obtain ⟨bl, hbl, heq, hrest⟩ := readChunked_rfc recvBlock recvBlock_pos w b hcb (i.data.length + 1) i [] rest hi
    (by rw [hd]; simp only [List.length_append]; omega) hb hd
  refine ⟨i.advance w.length, ?_, hrest, hi⟩
  unfold readBody readBodyWith
  have hcl' : header H sContentLength = [] := header_absent hcl
  simp only [hcl, hcl', hte, Bool.false_eq_true, false_and, if_false, beq_self_eq_true, not_true_eq_false, and_false,
    if_true, atoi, digitLoop]
  rw [heq]
  simp [hbl]

/-- the same as a `BodyReads` fact: a request or response whose body is any RFC 7230 chunked body is inside
`wire_request_exact`, `serveStep_exact` and `keepalive_seq` -/
theorem reads_of_rfc_chunked (H : Dic) (w b : Bytes) (hcb : Spec.ChunkedBody w b) (hb : b.length < 2147483648)
    (hcl : hasHeader H sContentLength = false) (hte : teChunked (header H sTransferEncoding) = true) : BodyReads H w b :=
  fun i rest hi hd => reader_accepts_rfc_chunked H w b rest hcb hb hcl hte i hi hd

/-- **suffix_range_spec** (after the repair 4d5fd22).  `Range: bytes=-k` on a file of `n` bytes: the last `k` bytes (RFC 7233
suffix-byte-range-spec) — bytes `n-k .. n-1`, all of the file when it is shorter than `k`; unsatisfiable for `k = 0` or an
empty file. -/
theorem suffix_range_spec (n k : Nat) :
    rangeOf n (suffixRange n k).1 (suffixRange n k).2 = if k = 0 ∨ n = 0 then none else some (n - min k n, n - 1) :=
  suffix_range n k

/-! ## the blocking socket loops complete partial transfers -/

/-- **partial_io_complete (write).**  Whatever non-empty prefix each `send` accepts (`sched` is arbitrary), the loop
of `Socket_::write` hands every byte to the OS once, in order, and returns the full size. -/
theorem partial_io_complete (sched : List Nat) (data : Bytes) : sockWrite sched data = (data, data.length) := by
  unfold sockWrite
  by_cases he : data.isEmpty = true
  · simp [he, List.isEmpty_iff.mp he]
  · have hne : data ≠ [] := by intro h0; subst h0; simp at he
    have he' : data.isEmpty = false := by simpa using he
    simp only [he', Bool.false_eq_true, if_false]
    rw [sockWriteLoop_all data.length sched data [] 0 (Nat.le_refl _) hne]
    simp

/-- **partial_io_complete (read).**  Whatever non-empty piece each `read` returns, the loop of `Socket_::read` stores
exactly the next `size` bytes of the stream, in order, without error, when they arrive. -/
theorem partial_read_complete (sched : List Nat) (inc : Bytes) (size : Nat) (hs : 0 < size) (h : size ≤ inc.length) :
    sockRead sched inc size = (inc.take size, false) := by
  unfold sockRead
  have : ¬ size = 0 := by omega
  simp only [this, if_false]
  rw [sockReadLoop_all size sched inc [] size (Nat.le_refl _) hs h]
  simp

/-! ## file ranges -/

/-- **range_spec.**  `putFile(path, b, e)` on a file of `n` bytes (after the repairs 0c0d05b, 6809b13, 37f2453): with `e'`
the last position asked for cut to the file — `e` itself when `0 < e < n`, else `n-1` (the open end `e = 0`, and a last
position at or past the end, RFC 7233 2.1) — the range is accepted exactly when `0 ≤ b ≤ e'` (so `b < n`); then the
announced range is `b-e'`, the announced length `e'-b+1`, and the bytes written are exactly bytes `b..e'` of the file
(RFC 7233 byte-range-spec).  Otherwise (`b` past the end, `e < b`, an empty file) the range is answered as unsatisfiable
(`bytes */n`). -/
theorem range_spec (content : Bytes) (b e e' : Int)
    (he' : e' = if e = 0 ∨ e ≥ (content.length : Int) then (content.length : Int) - 1 else e) :
    (0 ≤ b ∧ b ≤ e' →
        e' < content.length ∧
        rangeOf content.length b e = some (b.toNat, e'.toNat) ∧
        fileSlice content b.toNat e'.toNat = (content.drop b.toNat).take (e'.toNat - b.toNat + 1) ∧
        (fileSlice content b.toNat e'.toNat).length = e'.toNat - b.toNat + 1 ∧
        (∀ k, k < e'.toNat - b.toNat + 1 → (fileSlice content b.toNat e'.toNat)[k]? = content[b.toNat + k]?)) ∧
    (¬ (0 ≤ b ∧ b ≤ e') → rangeOf content.length b e = none) := by
  have hlt : 0 ≤ e' → e' < content.length := by
    intro h0
    by_cases hc : e = 0 ∨ e ≥ (content.length : Int)
    · simp only [hc, if_true] at he'; omega
    · simp only [hc, if_false] at he'; omega
  constructor
  · intro ⟨h0, h1⟩
    have h2 : e' < content.length := hlt (by omega)
    have hr : rangeOf content.length b e = some (b.toNat, e'.toNat) := by
      unfold rangeOf
      simp only [← he']
      have : ¬ (e' < b ∨ b < 0) := by omega
      simp only [this, if_false]
    have hslice : fileSlice content b.toNat e'.toNat = (content.drop b.toNat).take (e'.toNat - b.toNat + 1) := by
      unfold fileSlice
      by_cases hc : b.toNat ≠ e'.toNat ∨ b.toNat > 0
      · rw [if_pos hc]
      · rw [if_neg hc]
        have hb0 : b.toNat = 0 := by omega
        have he0 : e'.toNat = 0 := by omega
        rw [hb0, he0]
        -- (0, 0) reads the whole file: it has one byte
        have hn1 : content.length = 1 := by
          have h00 : e' = 0 := by omega
          rw [h00] at he'
          by_cases hez : e = 0 ∨ e ≥ (content.length : Int)
          · simp only [hez, if_true] at he'; omega
          · simp only [hez, if_false] at he'
            exact absurd (Or.inl he'.symm) hez
        simp only [List.drop_zero, Nat.sub_self, Nat.zero_add]
        rw [← hn1, List.take_length]
    refine ⟨h2, hr, hslice, ?_, ?_⟩
    · rw [hslice, List.length_take, List.length_drop]; omega
    · intro k hk
      rw [hslice, List.getElem?_take_of_lt hk, List.getElem?_drop]
  · intro h
    unfold rangeOf
    simp only [← he']
    have : (e' < b ∨ b < 0) := by omega
    simp only [this, if_true]

/-- a last position past the end of the file is served to the end: `Range: bytes=10-99` on 20 bytes is bytes 10-19 -/
example : rangeOf 20 10 99 = some (10, 19) ∧ rangeOf 20 0 20 = some (0, 19) ∧ rangeOf 20 20 99 = none ∧
    rangeOf 20 5 2147483647 = some (5, 19) ∧ rangeOf 0 0 5 = none := by decide


/-! ## redirections: the target the client goes to

`Http::request` follows a 301/302/307/308 that names a target; `Location` may be a relative reference (RFC 7231 7.1.2),
resolved against the URL of the request (RFC 3986 5.2).  `resolveLocation` is the transcription of the repaired code
(7920316, 7f2fd90). -/

/-- the base URL of the examples of RFC 3986 5.4: `http://a/b/c/d;p?q` -/
def rfc3986Base : Bytes := [104, 116, 116, 112, 58, 47, 47, 97, 47, 98, 47, 99, 47, 100, 59, 112, 63, 113]

/-- (reference, target) for every example of RFC 3986 5.4.1 (normal) and 5.4.2 (abnormal), as byte strings -/
def rfc3986Examples : List (Bytes × Bytes) :=
   [([103, 58, 104], [103, 58, 104]),  -- g:h -> g:h,
    ([103], [104, 116, 116, 112, 58, 47, 47, 97, 47, 98, 47, 99, 47, 103]),  -- g -> http://a/b/c/g,
    ([46, 47, 103], [104, 116, 116, 112, 58, 47, 47, 97, 47, 98, 47, 99, 47, 103]),  -- ./g -> http://a/b/c/g,
    ([103, 47], [104, 116, 116, 112, 58, 47, 47, 97, 47, 98, 47, 99, 47, 103, 47]),  -- g/ -> http://a/b/c/g/,
    ([47, 103], [104, 116, 116, 112, 58, 47, 47, 97, 47, 103]),  -- /g -> http://a/g,
    ([47, 47, 103], [104, 116, 116, 112, 58, 47, 47, 103]),  -- //g -> http://g,
    ([63, 121], [104, 116, 116, 112, 58, 47, 47, 97, 47, 98, 47, 99, 47, 100, 59, 112, 63, 121]),  -- ?y -> http://a/b/c/d;p?y,
    ([103, 63, 121], [104, 116, 116, 112, 58, 47, 47, 97, 47, 98, 47, 99, 47, 103, 63, 121]),  -- g?y -> http://a/b/c/g?y,
    ([35, 115], [104, 116, 116, 112, 58, 47, 47, 97, 47, 98, 47, 99, 47, 100, 59, 112, 63, 113, 35, 115]),  -- #s -> http://a/b/c/d;p?q#s,
    ([103, 35, 115], [104, 116, 116, 112, 58, 47, 47, 97, 47, 98, 47, 99, 47, 103, 35, 115]),  -- g#s -> http://a/b/c/g#s,
    ([103, 63, 121, 35, 115], [104, 116, 116, 112, 58, 47, 47, 97, 47, 98, 47, 99, 47, 103, 63, 121, 35, 115]),  -- g?y#s -> http://a/b/c/g?y#s,
    ([59, 120], [104, 116, 116, 112, 58, 47, 47, 97, 47, 98, 47, 99, 47, 59, 120]),  -- ;x -> http://a/b/c/;x,
    ([103, 59, 120], [104, 116, 116, 112, 58, 47, 47, 97, 47, 98, 47, 99, 47, 103, 59, 120]),  -- g;x -> http://a/b/c/g;x,
    ([103, 59, 120, 63, 121, 35, 115], [104, 116, 116, 112, 58, 47, 47, 97, 47, 98, 47, 99, 47, 103, 59, 120, 63, 121, 35, 115]),  -- g;x?y#s -> http://a/b/c/g;x?y#s,
    ([], [104, 116, 116, 112, 58, 47, 47, 97, 47, 98, 47, 99, 47, 100, 59, 112, 63, 113]),  -- "" -> http://a/b/c/d;p?q,
    ([46], [104, 116, 116, 112, 58, 47, 47, 97, 47, 98, 47, 99, 47]),  -- . -> http://a/b/c/,
    ([46, 47], [104, 116, 116, 112, 58, 47, 47, 97, 47, 98, 47, 99, 47]),  -- ./ -> http://a/b/c/,
    ([46, 46], [104, 116, 116, 112, 58, 47, 47, 97, 47, 98, 47]),  -- .. -> http://a/b/,
    ([46, 46, 47], [104, 116, 116, 112, 58, 47, 47, 97, 47, 98, 47]),  -- ../ -> http://a/b/,
    ([46, 46, 47, 103], [104, 116, 116, 112, 58, 47, 47, 97, 47, 98, 47, 103]),  -- ../g -> http://a/b/g,
    ([46, 46, 47, 46, 46], [104, 116, 116, 112, 58, 47, 47, 97, 47]),  -- ../.. -> http://a/,
    ([46, 46, 47, 46, 46, 47], [104, 116, 116, 112, 58, 47, 47, 97, 47]),  -- ../../ -> http://a/,
    ([46, 46, 47, 46, 46, 47, 103], [104, 116, 116, 112, 58, 47, 47, 97, 47, 103]),  -- ../../g -> http://a/g,
    ([46, 46, 47, 46, 46, 47, 46, 46, 47, 103], [104, 116, 116, 112, 58, 47, 47, 97, 47, 103]),  -- ../../../g -> http://a/g,
    ([46, 46, 47, 46, 46, 47, 46, 46, 47, 46, 46, 47, 103], [104, 116, 116, 112, 58, 47, 47, 97, 47, 103]),  -- ../../../../g -> http://a/g,
    ([47, 46, 47, 103], [104, 116, 116, 112, 58, 47, 47, 97, 47, 103]),  -- /./g -> http://a/g,
    ([47, 46, 46, 47, 103], [104, 116, 116, 112, 58, 47, 47, 97, 47, 103]),  -- /../g -> http://a/g,
    ([103, 46], [104, 116, 116, 112, 58, 47, 47, 97, 47, 98, 47, 99, 47, 103, 46]),  -- g. -> http://a/b/c/g.,
    ([46, 103], [104, 116, 116, 112, 58, 47, 47, 97, 47, 98, 47, 99, 47, 46, 103]),  -- .g -> http://a/b/c/.g,
    ([103, 46, 46], [104, 116, 116, 112, 58, 47, 47, 97, 47, 98, 47, 99, 47, 103, 46, 46]),  -- g.. -> http://a/b/c/g..,
    ([46, 46, 103], [104, 116, 116, 112, 58, 47, 47, 97, 47, 98, 47, 99, 47, 46, 46, 103]),  -- ..g -> http://a/b/c/..g,
    ([46, 47, 46, 46, 47, 103], [104, 116, 116, 112, 58, 47, 47, 97, 47, 98, 47, 103]),  -- ./../g -> http://a/b/g,
    ([46, 47, 103, 47, 46], [104, 116, 116, 112, 58, 47, 47, 97, 47, 98, 47, 99, 47, 103, 47]),  -- ./g/. -> http://a/b/c/g/,
    ([103, 47, 46, 47, 104], [104, 116, 116, 112, 58, 47, 47, 97, 47, 98, 47, 99, 47, 103, 47, 104]),  -- g/./h -> http://a/b/c/g/h,
    ([103, 47, 46, 46, 47, 104], [104, 116, 116, 112, 58, 47, 47, 97, 47, 98, 47, 99, 47, 104]),  -- g/../h -> http://a/b/c/h,
    ([103, 59, 120, 61, 49, 47, 46, 47, 121], [104, 116, 116, 112, 58, 47, 47, 97, 47, 98, 47, 99, 47, 103, 59, 120, 61, 49, 47, 121]),  -- g;x=1/./y -> http://a/b/c/g;x=1/y,
    ([103, 59, 120, 61, 49, 47, 46, 46, 47, 121], [104, 116, 116, 112, 58, 47, 47, 97, 47, 98, 47, 99, 47, 121]),  -- g;x=1/../y -> http://a/b/c/y,
    ([103, 63, 121, 47, 46, 47, 120], [104, 116, 116, 112, 58, 47, 47, 97, 47, 98, 47, 99, 47, 103, 63, 121, 47, 46, 47, 120]),  -- g?y/./x -> http://a/b/c/g?y/./x,
    ([103, 63, 121, 47, 46, 46, 47, 120], [104, 116, 116, 112, 58, 47, 47, 97, 47, 98, 47, 99, 47, 103, 63, 121, 47, 46, 46, 47, 120]),  -- g?y/../x -> http://a/b/c/g?y/../x,
    ([103, 35, 115, 47, 46, 47, 120], [104, 116, 116, 112, 58, 47, 47, 97, 47, 98, 47, 99, 47, 103, 35, 115, 47, 46, 47, 120]),  -- g#s/./x -> http://a/b/c/g#s/./x,
    ([103, 35, 115, 47, 46, 46, 47, 120], [104, 116, 116, 112, 58, 47, 47, 97, 47, 98, 47, 99, 47, 103, 35, 115, 47, 46, 46, 47, 120]),  -- g#s/../x -> http://a/b/c/g#s/../x,
    ([104, 116, 116, 112, 58, 103], [104, 116, 116, 112, 58, 103])  -- http:g -> http:g
   ]

/-- **redirect_target_rfc3986.**  The target computed for a redirection agrees with RFC 3986 on every reference resolution
example of its section 5.4 (all 23 normal and all 19 abnormal ones: relative paths, `.` and `..` segments also beyond the
root, absolute paths, network-path references, query-only and fragment-only references, the empty reference, references
with a scheme). -/
theorem redirect_target_rfc3986 :
    rfc3986Examples.length = 42 ∧ ∀ x ∈ rfc3986Examples, resolveLocation rfc3986Base x.1 = x.2 := by
  decide +kernel

/-- **redirect_target_absolute.**  A `Location` that has a scheme (an absolute URL) is the target as it stands. -/
theorem redirect_target_absolute (base scheme rest : Bytes) (hne : scheme ≠ []) (hs : ∀ c ∈ scheme, isSchemeChar c = true) :
    resolveLocation base (scheme ++ 58 :: rest) = scheme ++ 58 :: rest := by
  have htw : (scheme ++ 58 :: rest).takeWhile isSchemeChar = scheme := by
    induction scheme with
    | nil => rfl
    | cons a t ih =>
      have ha : isSchemeChar a = true := hs a List.mem_cons_self
      by_cases ht : t = []
      · subst ht; simp [List.takeWhile, ha]; rfl
      · simp only [List.cons_append, List.takeWhile_cons, ha, if_true]
        rw [ih ht (fun c hc => hs c (List.mem_cons_of_mem _ hc))]
  have hpos : scheme.length > 0 := List.length_pos_iff.mpr hne
  unfold resolveLocation
  simp only [htw]
  have hk : (scheme ++ 58 :: rest)[scheme.length]? = some 58 := by simp
  simp [hpos]

/-- **redirect_without_target_returned** (a model lemma: a one-step unfolding of `followsRedirect`, not a property clause).  A redirection that names no target is not followed (9644a87): whatever the
status code, with no `Location` (or an empty one) the response is the result of the request, like any other. -/
theorem redirect_without_target_returned (follow : Bool) (code : Nat) (h : Dic) (hl : header h sLocation = []) :
    followsRedirect follow code h = false := by
  unfold followsRedirect; rw [hl]; simp

/-! ## a request object that is sent again (seed C10-r4)

Between two sends the caller's `HttpRequest` keeps its header dictionary: the `Content-Length` an earlier `put()` set (stale
when the body changed since), or none when an earlier chunked send removed it (`sendHeaders`).  `Http::request` derives the
framing headers again before every send (`clientMsg`: the block the seed removed), so a send does not depend on them. -/

/-- **reused_request_message.**  Whatever `Content-Length` text `v` the object carries from earlier sends, the message
`Http::request` builds for a non-empty body is the message of a fresh object with the same headers and body -/
theorem reused_request_message (method target host : Bytes) (port : Nat) (hs : Dic) (v body : Bytes) (hv : v ≠ []) (hb : body ≠ []) :
    clientMsg method target host port true (setHeader hs sContentLength v) body = clientMsg method target host port true hs body := by
  have hl : body.length ≠ 0 := fun h => hb (List.eq_nil_of_length_eq_zero h)
  unfold clientMsg
  simp only [hl, ne_eq, not_false_eq_true, if_true]
  rw [setHeader_of_value hv, setHeader_of_value (utoa_ne_nil _), setHeader_of_value (utoa_ne_nil _), dicSet_dicSet_same]

/-- **reused_request_length_rederived.**  For ANY dictionary `d` the object is left with (a length removed by a chunked
send, a stale one, other headers in any state): a non-empty body goes out with `Content-Length` = its length -/
theorem reused_request_length_rederived (method target host : Bytes) (port : Nat) (d : Dic) (body : Bytes) (hb : body ≠ []) :
    header (clientMsg method target host port true d body).headers sContentLength = utoa body.length := by
  have hl : body.length ≠ 0 := fun h => hb (List.eq_nil_of_length_eq_zero h)
  unfold clientMsg header
  simp only [hl, ne_eq, not_false_eq_true, if_true]
  rw [dicGet_setHeader_same _ _ _ (utoa_ne_nil _)]; rfl

/-- **reused_request_roundtrip.**  `request_roundtrip` for an object sent again with a length: the handler's reader returns
exactly the method, target, headers and body of THIS send, for every fragmentation, whatever length an earlier send left -/
theorem reused_request_roundtrip (method target host : Bytes) (port : Nat) (hs : Dic) (v body rest : Bytes) (cuts : List Nat)
    (h : WFRequest method target host port hs body) (hv : v ≠ []) (hb : body ≠ []) :
    ∃ (q : Request) (i' : Inp),
      readRequest (Inp.ofBytes (serialize (clientMsg method target host port true (setHeader hs sContentLength v) body) ++ rest) cuts) = (q, i') ∧
      i'.data = rest ∧ Live i' ∧
      SeesRequest q method target (wireHeaders method target host port hs body) body := by
  rw [reused_request_message _ _ _ _ _ _ _ hv hb]
  exact request_roundtrip method target host port hs body rest cuts h

/-! ## the hypotheses are satisfiable (no vacuous theorem) -/

/-- `GET /a?x=1` to 127.0.0.1:8080 with header `X-A: v 1` and the 3-byte body NUL CR LF -/
def exampleSent : Sent :=
  { method := [71, 69, 84], target := [47, 97, 63, 120, 61, 49], host := [49, 50, 55, 46, 48, 46, 48, 46, 49], port := 8080,
    hs := [([88, 45, 65], [118, 32, 49])], body := [0, 13, 10] }

def exampleSent_wf : WFRequest exampleSent.method exampleSent.target exampleSent.host exampleSent.port exampleSent.hs exampleSent.body := by
  refine ⟨?_, ?_, ?_, ?_, ?_, ?_, ?_, ?_⟩
  · unfold WFWord; decide
  · unfold WFWord; decide
  · decide
  · unfold WFValue; decide
  · unfold FitsLine; decide
  · unfold WFHeaders WFName WFValue FitsLine; decide
  · unfold NoFraming; decide
  · decide

example : exampleSent.toWire.Keeps :=
  ⟨clientWire_wf _ _ _ _ _ _ exampleSent_wf, by decide, keepOf_http11 _ rfl (by decide)⟩

/-- the model run on the example: the handler's view of the request carries the 3 body bytes and the header -/
example : (readRequest (Inp.ofBytes exampleSent.wire [1, 5, 40])).1.body = [0, 13, 10] ∧
    header (readRequest (Inp.ofBytes exampleSent.wire [1, 5, 40])).1.headers [120, 45, 97] = [118, 32, 49] := by decide

/-- `0A CRLF <10 bytes> CRLF 0 CRLF CRLF` (upper case, leading zero) is a chunked body of the grammar -/
def exampleChunked : Spec.ChunkedBody ([48, 65] ++ [13, 10] ++ [1, 2, 3, 4, 5, 6, 7, 8, 9, 10] ++ [13, 10] ++ [48, 13, 10, 13, 10])
    ([1, 2, 3, 4, 5, 6, 7, 8, 9, 10] ++ []) :=
  Spec.ChunkedBody.chunk [48, 65] [1, 2, 3, 4, 5, 6, 7, 8, 9, 10] _ _ (by decide) (by decide) (by decide) Spec.ChunkedBody.last

/-- a raw HTTP/1.0 request `PUT /u HTTP/1.0`, `Connection: Keep-Alive`, `Transfer-Encoding: chunked`, with that chunked
body: kept alive, chunk-framed, not from the library's client — inside `keepalive_seq` -/
def exampleRaw : Wire :=
  { method := [80, 85, 84], target := [47, 117], proto := sHttp10,
    hs := [([67, 111, 110, 110, 101, 99, 116, 105, 111, 110], [75, 101, 101, 112, 45, 65, 108, 105, 118, 101]),
           ([116, 114, 97, 110, 115, 102, 101, 114, 45, 101, 110, 99, 111, 100, 105, 110, 103], sChunked)],
    w := [48, 65] ++ [13, 10] ++ [1, 2, 3, 4, 5, 6, 7, 8, 9, 10] ++ [13, 10] ++ [48, 13, 10, 13, 10],
    body := [1, 2, 3, 4, 5, 6, 7, 8, 9, 10] ++ [] }

example : exampleRaw.Keeps := by
  refine ⟨⟨?_, ?_, Or.inr rfl, by decide, ?_, codingOk_of_chunked (by decide), ?_⟩, by decide, keepOf_keepalive _ (by decide)⟩
  · unfold WFWord; decide
  · unfold WFWord; decide
  · unfold WFHeaders WFName WFValue FitsLine; decide
  · exact reads_of_rfc_chunked _ _ _ exampleChunked (by decide) (by decide) (by decide)

example : IsProto sHttp11 := Or.inl rfl

/-- a handler dictionary `X-A: v 1` -/
example : HandlerHeaders [([88, 45, 65], [118, 32, 49])] := by
  refine ⟨⟨?_, ?_, ?_⟩, ?_⟩
  · exact List.pairwise_singleton _ _
  · decide
  · unfold WFHeaders WFName WFValue FitsLine; decide
  · unfold NoFraming; decide

example : ReturnedAsIs 404 [] ∧ ReturnedAsIs 302 [] ∧ ¬ ReturnedAsIs 302 [(sLocation, [47, 98])] := by unfold ReturnedAsIs; decide

example : rangeOf 20 5 9 = some (5, 9) := by decide

/-- a request object sent again: the example request with a stale `Content-Length: 99` left in the object goes out with `3` -/
example : ([57, 57] : Bytes) ≠ [] ∧ exampleSent.body ≠ [] := by decide
example : header (clientMsg exampleSent.method exampleSent.target exampleSent.host exampleSent.port true
    (setHeader exampleSent.hs sContentLength [57, 57]) exampleSent.body).headers sContentLength = [51] := by decide

/-! ## the request target: decoded path, query string and fragment as the handler sees them (`HttpRequest::read`) -/

/-- the text of a request target: an encoded path `t`, then `?query` and `#fragment` if present -/
def targetText (t : Bytes) (q f : Option Bytes) : Bytes :=
  t ++ ((match q with | some q => 63 :: q | none => []) ++ (match f with | some f => 35 :: f | none => []))

/-- **target_parts_exact.**  For every non-empty encoded path `t` without `?` and `#`, every query string without `#`
(it may contain `?`) and every fragment (any bytes, `?` included), each present or not: `HttpRequest::read` splits the
target into exactly the decoded path (`Url::decode`, cut at a NUL, `..` removed), that query string and that fragment. -/
theorem target_parts_exact (t : Bytes) (q f : Option Bytes) (ht : t ≠ []) (h35 : 35 ∉ t) (h63 : 63 ∉ t)
    (hq : ∀ q', q = some q' → 35 ∉ q') :
    splitTarget (targetText t q f) = (rmDotDot (fixNul (AslModel.Codec.urlDecode t)), q.getD [], f.getD []) := by
  unfold targetText
  cases q with
  | none =>
    cases f with
    | none => simpa [AslProofs.HttpTarget.pathOf] using AslProofs.HttpTarget.split_path_only t h35 h63
    | some f => simpa [AslProofs.HttpTarget.pathOf] using AslProofs.HttpTarget.split_path_fragment t f ht h35 h63
  | some q =>
    cases f with
    | none => simpa [AslProofs.HttpTarget.pathOf] using AslProofs.HttpTarget.split_path_query t q ht h35 h63 (hq q rfl)
    | some f =>
      simpa [AslProofs.HttpTarget.pathOf] using AslProofs.HttpTarget.split_path_query_fragment t q f ht h35 h63 (hq q rfl)

/-- **encoded_path_observed.**  A path `p` (not empty, no NUL, no `..`) sent as `Url::encode(p, component)` — in the
full-URL mode, which leaves `?` and `#` literal, `p` itself must not contain them — followed by any query string and
fragment: the handler's `path()` is exactly `p`, its `querystring()` and `fragment()` exactly what was sent. -/
theorem encoded_path_observed (p : Bytes) (comp : Bool) (q f : Option Bytes) (hp : p ≠ []) (h0 : 0 ∉ p)
    (hdd : rmDotDot p = p) (hc : comp = false → 35 ∉ p ∧ 63 ∉ p) (hq : ∀ q', q = some q' → 35 ∉ q') :
    splitTarget (targetText (AslModel.Codec.urlEncode p comp) q f) = (p, q.getD [], f.getD []) := by
  have n35 : 35 ∉ AslModel.Codec.urlEncode p comp := fun m =>
    have ⟨a, b⟩ := AslProofs.HttpTarget.encode_delims comp p 35 m (Or.inl rfl); (hc a).1 b
  have n63 : 63 ∉ AslModel.Codec.urlEncode p comp := fun m =>
    have ⟨a, b⟩ := AslProofs.HttpTarget.encode_delims comp p 63 m (Or.inr (Or.inl rfl)); (hc a).2 b
  rw [target_parts_exact _ q f (AslProofs.HttpTarget.encode_ne_nil comp p hp) n35 n63 hq,
    AslProofs.Codec.url_roundtrip, AslProofs.HttpTarget.fixNul_id p h0, hdd]

/-- **handler_sees_sent_target.**  The same on the connection: any well-formed request (any sender, framing,
fragmentation, whatever follows) whose target is the encoding of `p` with a query string and a fragment reaches the
handler with `path() = p`, `querystring() = q`, `fragment() = f`. -/
theorem handler_sees_sent_target (x : Wire) (h : x.WF) (rest : Bytes) (i : Inp) (hi : Live i) (hd : i.data = x.bytes ++ rest)
    (p : Bytes) (comp : Bool) (q f : Option Bytes) (hp : p ≠ []) (h0 : 0 ∉ p)
    (hdd : rmDotDot p = p) (hc : comp = false → 35 ∉ p ∧ 63 ∉ p) (hq : ∀ q', q = some q' → 35 ∉ q')
    (ht : x.target = targetText (AslModel.Codec.urlEncode p comp) q f) :
    (readRequest i).1.path = p ∧ (readRequest i).1.querystring = q.getD [] ∧ (readRequest i).1.fragment = f.getD [] := by
  obtain ⟨i', h1, _⟩ := wire_request_exact x h rest i hi hd
  rw [h1]
  simp only [Wire.expected, ht, encoded_path_observed p comp q f hp h0 hdd hc hq, and_self]

/-- `/a b#?` sent in the full-URL mode cannot carry `#`/`?`; in component mode `a#?/ b` can: `a%23%3F%2F%20b?k=v#x?y` -/
example : splitTarget (targetText (AslModel.Codec.urlEncode [97, 35, 63, 47, 32, 98] true) (some [107, 61, 118]) (some [120, 63, 121]))
    = ([97, 35, 63, 47, 32, 98], [107, 61, 118], [120, 63, 121]) := by decide
example : ([97, 35, 63, 47, 32, 98] : Bytes) ≠ [] ∧ (0 : UInt8) ∉ ([97, 35, 63, 47, 32, 98] : Bytes) ∧
    rmDotDot [97, 35, 63, 47, 32, 98] = [97, 35, 63, 47, 32, 98] ∧ (35 : UInt8) ∉ ([107, 61, 118] : Bytes) := by decide
/-- a well-formed wire request with such a target: the raw example with target `/u?k=v#x?y` -/
example : ({ exampleRaw with target := targetText (AslModel.Codec.urlEncode [47, 117] false) (some [107, 61, 118]) (some [120, 63, 121]) } : Wire).WF := by
  refine ⟨?_, ?_, Or.inr rfl, by decide, ?_, codingOk_of_chunked (by decide), ?_⟩
  · unfold WFWord; decide
  · unfold WFWord; decide
  · unfold WFHeaders WFName WFValue FitsLine; decide
  · exact reads_of_rfc_chunked _ _ _ exampleChunked (by decide) (by decide) (by decide)

/-! ## query values: the dictionary `Url::parseQuery` makes of the query string (printed on every `H` line) -/

/-- **query_values_are_c15.**  On every query string without NUL whose decoded keys hold no NUL the C10 transcription
of `Url::parseQuery` yields the dictionary of C15's (whose `query_roundtrip` is proved for all dictionaries). -/
theorem query_values_are_c15 (qs : Bytes) (h0 : (0 : UInt8) ∉ qs)
    (hkeys : ∀ kv ∈ AslModel.Query.splitDic 38 61 (qs.map fun c => if c = 43 then 32 else c),
      (0 : UInt8) ∉ AslModel.Codec.urlDecode kv.1) :
    parseQuery qs = AslModel.Query.parseQuery qs := AslProofs.HttpQueryFrame.parseQuery_eq_c15 qs h0 hkeys

/-- **query_values_observed.**  For every dictionary `d` (sorted as a `Dic`, keys not empty and without NUL, values any
bytes: `&`, `=`, `+`, `%`, `#`, blanks, NUL) the query string `Url::params(d)` is parsed back to exactly `d`. -/
theorem query_values_observed (d : AslModel.Query.Dict) (hs : AslProofs.Query.Sorted d) (hk : ∀ kv ∈ d, kv.1 ≠ [])
    (hz : ∀ kv ∈ d, (0 : UInt8) ∉ kv.1) : parseQuery (AslModel.Query.params d) = d :=
  AslProofs.HttpQueryFrame.parseQuery_params d hs hk hz

/-- **handler_sees_sent_query.**  On the connection: a well-formed request (any sender, framing, fragmentation) whose
target is `Url::encode(p)`, `?`, `Url::params(d)` and an optional fragment reaches the handler with `path() = p` and a
query string that parses to exactly `d`. -/
theorem handler_sees_sent_query (x : Wire) (h : x.WF) (rest : Bytes) (i : Inp) (hi : Live i) (hd : i.data = x.bytes ++ rest)
    (p : Bytes) (comp : Bool) (f : Option Bytes) (hp : p ≠ []) (h0 : 0 ∉ p)
    (hdd : rmDotDot p = p) (hc : comp = false → 35 ∉ p ∧ 63 ∉ p)
    (d : AslModel.Query.Dict) (hs : AslProofs.Query.Sorted d) (hk : ∀ kv ∈ d, kv.1 ≠ []) (hz : ∀ kv ∈ d, (0 : UInt8) ∉ kv.1)
    (ht : x.target = targetText (AslModel.Codec.urlEncode p comp) (some (AslModel.Query.params d)) f) :
    (readRequest i).1.path = p ∧ parseQuery (readRequest i).1.querystring = d := by
  obtain ⟨h1, h2, _⟩ := handler_sees_sent_target x h rest i hi hd p comp (some (AslModel.Query.params d)) f hp h0 hdd hc
    (fun q' e => by cases e; exact AslProofs.HttpQueryFrame.params_no_hash d hs hk) ht
  exact ⟨h1, by rw [h2]; exact query_values_observed d hs hk hz⟩

/-- `{"a b": "1&2=#"}`: sorted, key not empty, no NUL -/
example : AslProofs.Query.Sorted [([97, 32, 98], [49, 38, 50, 61, 35])] ∧
    (∀ kv ∈ ([([97, 32, 98], [49, 38, 50, 61, 35])] : AslModel.Query.Dict), kv.1 ≠ [] ∧ (0 : UInt8) ∉ kv.1) :=
  ⟨List.pairwise_singleton _ _, by decide⟩
example : parseQuery [97, 37, 50, 48, 98, 61, 49, 37, 50, 54, 50, 38, 120, 61, 43] =
    [([97, 32, 98], [49, 38, 50]), ([120], [32])] := by decide

/-! ## requests the server's reader refuses: no handler call, nothing written, connection given up -/

/-- **refused_request_no_handler.**  Whenever `HttpRequest::read` gives a request up (invalid first line, a header line
that is none, a framing it cannot take, or the peer gone), for every handler plan, OPTIONS setting and file base:
`serve(Socket)` does not call the handler, does not keep the connection, and has written nothing but the interim
`100 Continue` that an `Expect` header had already triggered. -/
theorem refused_request_no_handler (opt : Bool) (base : Bytes) (p : Plan) (i : Inp) (hl : ¬ (i.data.isEmpty ∨ i.dead))
    (hr : ¬ (readRequest i).1.valid ∨ (readRequest i).2.err ∨ (readRequest i).2.closed) :
    (serveStep opt base p i).1 = none ∧ (serveStep opt base p i).2.2.1 = false ∧
      (serveStep opt base p i).2.1 = (if headClosed i then [] else interimOf (readRequest i).1.headers) := by
  unfold serveStep
  simp only [hl, if_false]
  simp only [hr, if_true]
  exact ⟨trivial, trivial, trivial⟩

/-- every kind of request the reader refuses (each also a line of corpus/C10/refused_requests.ops, run on the real server):
a field name with a blank; a line without colon; a first header line that continues nothing; an empty field name; a
transfer coding that does not end in chunked; a 9-digit chunk size; a Content-Length that is no number; a chunk not
followed by CRLF — with the cuts of the peer's sends -/
def refusedRequests : List (Bytes × List Nat) :=
  [([71, 69, 84, 32, 47, 32, 72, 84, 84, 80, 47, 49, 46, 49, 13, 10, 88, 45, 65, 58, 32, 49, 13, 10, 66, 97, 100, 32, 78, 97, 109, 101, 58, 32, 118, 13, 10, 13, 10], [3, 20]),
   ([71, 69, 84, 32, 47, 97, 32, 72, 84, 84, 80, 47, 49, 46, 49, 13, 10, 110, 111, 99, 111, 108, 111, 110, 13, 10, 13, 10], []),
   ([71, 69, 84, 32, 47, 32, 72, 84, 84, 80, 47, 49, 46, 49, 13, 10, 32, 88, 45, 70, 105, 114, 115, 116, 58, 32, 118, 13, 10, 13, 10], [1, 2, 3]),
   ([71, 69, 84, 32, 47, 32, 72, 84, 84, 80, 47, 49, 46, 49, 13, 10, 58, 32, 118, 13, 10, 13, 10], []),
   ([80, 79, 83, 84, 32, 47, 32, 72, 84, 84, 80, 47, 49, 46, 49, 13, 10, 84, 114, 97, 110, 115, 102, 101, 114, 45, 69, 110, 99, 111, 100, 105, 110, 103, 58, 32, 103, 122, 105, 112, 13, 10, 13, 10, 97, 98, 99], [30]),
   ([80, 79, 83, 84, 32, 47, 32, 72, 84, 84, 80, 47, 49, 46, 49, 13, 10, 84, 114, 97, 110, 115, 102, 101, 114, 45, 69, 110, 99, 111, 100, 105, 110, 103, 58, 32, 99, 104, 117, 110, 107, 101, 100, 13, 10, 13, 10, 49, 50, 51, 52, 53, 54, 55, 56, 57, 13, 10], []),
   ([80, 79, 83, 84, 32, 47, 32, 72, 84, 84, 80, 47, 49, 46, 49, 13, 10, 67, 111, 110, 116, 101, 110, 116, 45, 76, 101, 110, 103, 116, 104, 58, 32, 120, 13, 10, 13, 10], [17]),
   ([80, 79, 83, 84, 32, 47, 32, 72, 84, 84, 80, 47, 49, 46, 49, 13, 10, 84, 114, 97, 110, 115, 102, 101, 114, 45, 69, 110, 99, 111, 100, 105, 110, 103, 58, 32, 99, 104, 117, 110, 107, 101, 100, 13, 10, 13, 10, 51, 13, 10, 97, 98, 99, 88, 89, 48, 13, 10, 13, 10], [50])]

theorem refused_requests_hyps : ∀ x ∈ refusedRequests,
    ¬ ((Inp.ofBytes x.1 x.2).data.isEmpty ∨ (Inp.ofBytes x.1 x.2).dead) ∧
    (¬ (readRequest (Inp.ofBytes x.1 x.2)).1.valid ∨ (readRequest (Inp.ofBytes x.1 x.2)).2.err ∨ (readRequest (Inp.ofBytes x.1 x.2)).2.closed) ∧
    (headClosed (Inp.ofBytes x.1 x.2) = true ∨ interimOf (readRequest (Inp.ofBytes x.1 x.2)).1.headers = []) := by
  decide +kernel

/-- **refused_requests_examples.**  The hypotheses of `refused_request_no_handler` hold for each of them (kernel
evaluation of the reader), hence for every plan, OPTIONS setting and base: no handler, nothing written, not kept. -/
theorem refused_requests_examples : ∀ x ∈ refusedRequests, ∀ (opt : Bool) (base : Bytes) (p : Plan),
    (serveStep opt base p (Inp.ofBytes x.1 x.2)).1 = none ∧ (serveStep opt base p (Inp.ofBytes x.1 x.2)).2.2.1 = false ∧
      (serveStep opt base p (Inp.ofBytes x.1 x.2)).2.1 = [] := by
  intro x hx opt base p
  obtain ⟨a, b, c⟩ := refused_requests_hyps x hx
  obtain ⟨h1, h2, h3⟩ := refused_request_no_handler opt base p _ a b
  refine ⟨h1, h2, ?_⟩
  rw [h3]
  rcases c with c | c <;> simp [c]

/-- the refusal is not vacuous the other way: `GET / HTTP/1.1`, `X-A: 1` cut after 5 bytes reaches the handler and is kept -/
example : (serveStep true [] { code := 200, headers := [], kind := .bytes [104, 105] }
    (Inp.ofBytes [71, 69, 84, 32, 47, 32, 72, 84, 84, 80, 47, 49, 46, 49, 13, 10, 88, 45, 65, 58, 32, 49, 13, 10, 13, 10] [5])).1.isSome = true ∧
    (serveStep true [] { code := 200, headers := [], kind := .bytes [104, 105] }
    (Inp.ofBytes [71, 69, 84, 32, 47, 32, 72, 84, 84, 80, 47, 49, 46, 49, 13, 10, 88, 45, 65, 58, 32, 49, 13, 10, 13, 10] [5])).2.2.1 = true := by
  decide +kernel

end C10
