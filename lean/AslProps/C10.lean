import AslProofs.HttpFrame
import AslProps.C10Spec
/-!
# C10 — HTTP client and server exchange exact methods, headers, status and bodies

Theorems about `AslModel.HttpFrame` (the functions `lean/Driver/C10.lean` runs against the real library).  The reader is
quantified over every connection state `Inp.ofBytes wire cuts`: `cuts` is an arbitrary list of positions where the
peer's sends were cut, i.e. every fragmentation of the byte stream; `rest` is whatever follows the message on the same
connection (the next pipelined request, or nothing).
-/
namespace C10
open AslModel.HttpFrame AslProofs.HttpFrame C10Spec

/-! ## the sender adds nothing to and takes nothing from a length-framed body, for every block size -/

/-- `write(buffer, n)` with a Content-Length: the blocks concatenate to the body (block boundaries are invisible) -/
theorem length_framing_transparent (blk : Nat) (hb : 0 < blk) (body : Bytes) : writeBody false blk body = body :=
  writeBody_plain blk hb body

/-- `writeFile`: a file sent in `rblk`-byte reads, each through `write(buf, n)`, arrives as the file's bytes -/
theorem file_blocks_transparent (blk rblk : Nat) (hb : 0 < blk) (hr : 0 < rblk) (content : Bytes) :
    writeFile false blk rblk content = content :=
  writeFileLoop_plain blk rblk hb hr content.length content (Nat.le_refl _)

/-- the block sizes of the current source (regenerated from src/Http.cpp) are usable -/
theorem block_sizes_ok : 0 < sendBlock ∧ sendBlock < 4294967296 ∧ 0 < recvBlock := by decide


/-! ## requests: what `Http::request` sends is what `HttpRequest::read` hands to the handler -/

/-- the request as the handler must see it (written from the HTTP semantics, not from the code): same method, same
target, HTTP/1.1, the same body bytes, and every header that was sent retrievable under its name -/
structure SeesRequest (q : Request) (method target : Bytes) (sent : List (Bytes × Bytes)) (body : Bytes) : Prop where
  method : q.method = method
  target : q.resource = target
  proto : q.proto = sHttp11
  body : q.body = body
  headers : ∀ nv ∈ sent, (∀ other ∈ sent, capitalized other.1 = capitalized nv.1 → other = nv) → header q.headers nv.1 = nv.2

/-- the header lines of a client request as they travel: `Host`, then the message's own headers -/
def wireHeaders (method target host : Bytes) (port : Nat) (hs : Dic) (body : Bytes) : List (Bytes × Bytes) :=
  (sHostName, host ++ [58] ++ utoa port) :: (clientMsg method target host port true hs body).headers

/-- the request object the reader builds from a well-formed client request -/
def expectedRequest (method target host : Bytes) (port : Nat) (hs : Dic) (body : Bytes) : Request :=
  { method := method, resource := target, proto := sHttp11, headers := norm (wireHeaders method target host port hs body), body := body,
    path := (splitTarget target).1, querystring := (splitTarget target).2.1, fragment := (splitTarget target).2.2 }

/-- what is required of a request for the round trip: words without blanks on the first line, a `Host` value and
header lines without CR/LF or outer blanks that fit `readLine`, no hand-made framing headers, a body that fits an `int` -/
structure WFRequest (method target host : Bytes) (port : Nat) (hs : Dic) (body : Bytes) : Prop where
  wfMethod : WFWord method
  wfTarget : WFWord target
  fit : method.length + target.length + 11 ≤ 16001
  wfHost : WFValue (host ++ [58] ++ utoa port)
  hostFit : FitsLine sHostName (host ++ [58] ++ utoa port)
  wfHeaders : WFHeaders hs
  noFraming : NoFraming hs
  bodyFits : body.length < 2147483648

/-- exact form, on any live connection `i` whose pending bytes start with the serialized request -/
theorem request_exact (method target host : Bytes) (port : Nat) (hs : Dic) (body rest : Bytes)
    (h : WFRequest method target host port hs body) (i : Inp) (hi : Live i)
    (hd : i.data = serialize (clientMsg method target host port true hs body) ++ rest) :
    ∃ i' : Inp, readRequest i = (expectedRequest method target host port hs body, i') ∧ i'.data = rest ∧ Live i' ∧
      WFHeaders (wireHeaders method target host port hs body) := by
  obtain ⟨hm, ht, hfit, hhp, hhpfit, hwf, hres, hbody⟩ := h
  obtain ⟨hfr, hmem⟩ := client_framed sendBlock (host ++ [58] ++ utoa port) hs body sendBlock_pos hwf hres hhp.1
  have hwf' : WFHeaders ((sHostName, host ++ [58] ++ utoa port) ::
      (if body.length ≠ 0 then setHeader hs sContentLength (utoa body.length) else hs)) := by
    intro x hx
    rcases List.mem_cons.mp hx with h | h
    · subst h; exact ⟨wf_name_host, hhp, hhpfit⟩
    · rcases hmem x h with h | h
      · subst h
        refine ⟨wf_name_cl, wf_digits_value _, ?_⟩
        have := utoa_length body.length hbody
        unfold FitsLine; simp [sContentLength]; omega
      · exact hwf x h
  have hwire : i.data =
      method ++ [32] ++ target ++ [32] ++ sHttp11 ++ crlf ++
        headerLines ((sHostName, host ++ [58] ++ utoa port) :: (if body.length ≠ 0 then setHeader hs sContentLength (utoa body.length) else hs))
        ++ crlf ++ writeBody (isChunked (if body.length ≠ 0 then setHeader hs sContentLength (utoa body.length) else hs)) sendBlock body ++ rest := by
    rw [hd]
    simp [serialize, serializeWith, clientMsg, headerBlock, headerLines, sHostName, List.append_assoc]
  obtain ⟨i', hread, hdat, hlive⟩ := readRequest_wire sendBlock sendBlock_pos sendBlock_lt method target _ _ body rest hm ht hfit hwf' hfr
    i hi hwire
  exact ⟨i', hread, hdat, hlive, hwf'⟩

/-- **frame_roundtrip (requests).**  For every method, target, header set and body (of any length), every
fragmentation `cuts` of the byte stream and whatever follows on the connection (`rest`): the server-side reader returns
exactly what the client serialized and leaves the connection positioned at `rest`. -/
theorem request_roundtrip (method target host : Bytes) (port : Nat) (hs : Dic) (body rest : Bytes) (cuts : List Nat)
    (h : WFRequest method target host port hs body) :
    ∃ (q : Request) (i' : Inp),
      readRequest (Inp.ofBytes (serialize (clientMsg method target host port true hs body) ++ rest) cuts) = (q, i') ∧
      i'.data = rest ∧ Live i' ∧
      SeesRequest q method target (wireHeaders method target host port hs body) body := by
  obtain ⟨i', hread, hdat, hlive, hwf'⟩ := request_exact method target host port hs body rest h
    (Inp.ofBytes (serialize (clientMsg method target host port true hs body) ++ rest) cuts) ⟨rfl, rfl⟩ rfl
  refine ⟨_, i', hread, hdat, hlive, ⟨rfl, rfl, rfl, rfl, ?_⟩⟩
  intro nv hnv huniq
  have := norm_lookup _ [] nv (fun x hx => (hwf' x hx).2.1.1) hnv huniq
  show header (norm _) nv.1 = nv.2
  unfold header norm
  rw [this]; rfl

/-! ## many clients in flight: each receives the response to its own request -/

/-- **interleaving_local.**  Whatever the schedule of the per-connection handler threads, the state of connection `k`
(what it has read, what it has answered) is the result of its own turns only: no turn of another connection shows. -/
theorem interleaving_local (opt : Bool) (base : Bytes) (sched : List Nat) (s : Server) (k : Nat) :
    runSched opt base sched s k = iterStep opt base (sched.count k) (s k) :=
  runSched_conn opt base sched s k

/-- **interleaving_independent.**  For every interleaving in which connection `k` gets its turns, the answers written
on connection `k` are exactly those of serving that connection alone (`serveConn` on its own bytes): with any number of
clients in flight, each receives the responses to its own requests. -/
theorem interleaving_independent (opt : Bool) (base : Bytes) (sched : List Nat) (s : Server) (k : Nat)
    (hout : (s k).out = []) (halive : (s k).alive = true) (hturns : sched.count k = (s k).plans.length) :
    (runSched opt base sched s k).out = serveConn opt base (s k).plans (s k).inp := by
  rw [runSched_conn, hturns, iterStep_serveConn opt base (s k).plans (s k) rfl, hout, halive]
  simp

/-- header names are looked up without regard to case (RFC 7230 §3.2): the handler finds a header under any spelling -/
theorem header_lookup_case_insensitive (H : Dic) (n n' : Bytes) (h : lowerAscii n = lowerAscii n') : header H n = header H n' := by
  unfold header
  rw [← capitalized_lower n, ← capitalized_lower n', h]

/-! ## responses: what the handler produced is what `Http::request` returns -/

/-- the response as the client must see it: same status code, same protocol, same body bytes, every header the
handler set retrievable under its name, and no socket error -/
structure SeesResponse (r : Response) (code : Nat) (proto : Bytes) (sent : List (Bytes × Bytes)) (body : Bytes) : Prop where
  code : r.code = code
  proto : r.proto = proto
  body : r.body = body
  noError : r.sockError = []
  headers : ∀ nv ∈ sent, (∀ other ∈ sent, capitalized other.1 = capitalized nv.1 → other = nv) → header r.headers nv.1 = nv.2

/-- the message the server writes for a handler that `put()` a body: status line, the handler's headers plus the
Content-Length that `put` sets -/
def putResponse (proto : Bytes) (code : Nat) (hs : Dic) (body : Bytes) : Msg :=
  ⟨statusLine proto code, setHeader hs sContentLength (utoa body.length), body⟩

/-- **frame_roundtrip (responses with a length).**  A response whose body was `put()` — any status code, any header
set, a body of any length — is returned by the client's reader exactly, for every fragmentation of the stream. -/
theorem response_roundtrip (proto : Bytes) (code : Nat) (hs : Dic) (body rest : Bytes) (cuts : List Nat)
    (hp : IsProto proto) (hcode : code < 2147483648) (hwf : WFHeaders hs) (hres : NoFraming hs) (hbody : body.length < 2147483648) :
    ∃ (r : Response) (i' : Inp),
      readResponse (Inp.ofBytes (serialize (putResponse proto code hs body) ++ rest) cuts) = (r, i') ∧
      i'.data = rest ∧ Live i' ∧
      SeesResponse r code proto (setHeader hs sContentLength (utoa body.length)) body := by
  obtain ⟨hfr, hmem⟩ := put_framed sendBlock hs body sendBlock_pos hwf hres
  have hwf' : WFHeaders (setHeader hs sContentLength (utoa body.length)) := by
    intro x hx
    rcases hmem x hx with h | h
    · subst h
      refine ⟨wf_name_cl, wf_digits_value _, ?_⟩
      have := utoa_length body.length hbody
      unfold FitsLine; simp [sContentLength]; omega
    · exact hwf x h
  obtain ⟨hp0, hpsp, hplen⟩ := proto_ok hp
  have hcm := codeMsg_ok code
  have hwire : (Inp.ofBytes (serialize (putResponse proto code hs body) ++ rest) cuts).data =
      proto ++ [32] ++ utoa code ++ [32] ++ codeMsg code ++ crlf ++ headerLines (setHeader hs sContentLength (utoa body.length)) ++ crlf ++
        writeBody (isChunked (setHeader hs sContentLength (utoa body.length))) sendBlock body ++ rest := by
    simp [Inp.ofBytes, serialize, serializeWith, putResponse, headerBlock, statusLine_eq, List.append_assoc]
  obtain ⟨i', hread, hdat, hlive⟩ := readResponse_wire sendBlock sendBlock_pos sendBlock_lt proto (codeMsg code) code _ _ body rest
    hp0 hpsp hcm.1 (by have := utoa_length code hcode; omega) hwf' hfr _ ⟨rfl, rfl⟩ hwire
  refine ⟨_, i', hread, hdat, hlive, ⟨rfl, rfl, rfl, rfl, ?_⟩⟩
  intro nv hnv huniq
  have := norm_lookup _ [] nv (fun x hx => (hwf' x hx).2.1.1) hnv huniq
  show header (norm _) nv.1 = nv.2
  unfold header norm
  rw [this]; rfl

/-- **frame_roundtrip (streamed, chunked responses).**  A handler that sets `Transfer-Encoding: chunked`, streams any
list of parts through `write(part)` (each cut into blocks, each block a chunk) and ends with the last chunk: the client
returns the concatenation of the parts, for every block size in force and every fragmentation. -/
theorem stream_roundtrip (proto : Bytes) (code : Nat) (hs : Dic) (parts : List Bytes) (rest : Bytes) (cuts : List Nat)
    (hp : IsProto proto) (hcode : code < 2147483648) (hwf : WFHeaders hs) (hres : NoFraming hs) :
    ∃ (r : Response) (i' : Inp),
      readResponse (Inp.ofBytes (serializeStream sendBlock (statusLine proto code) (setHeader hs sTransferEncoding sChunked) parts true ++ rest) cuts)
        = (r, i') ∧
      i'.data = rest ∧ Live i' ∧
      SeesResponse r code proto (setHeader hs sTransferEncoding sChunked) parts.flatten := by
  obtain ⟨hfr, hmem⟩ := stream_framed sendBlock hs parts hwf hres
  have hwf' : WFHeaders (setHeader hs sTransferEncoding sChunked) := by
    intro x hx
    rcases hmem x hx with h | h
    · subst h
      exact ⟨wf_name_te, wf_value_chunked, by unfold FitsLine; decide⟩
    · exact hwf x h
  obtain ⟨hp0, hpsp, hplen⟩ := proto_ok hp
  have hcm := codeMsg_ok code
  have hwire : (Inp.ofBytes (serializeStream sendBlock (statusLine proto code) (setHeader hs sTransferEncoding sChunked) parts true ++ rest) cuts).data =
      proto ++ [32] ++ utoa code ++ [32] ++ codeMsg code ++ crlf ++ headerLines (setHeader hs sTransferEncoding sChunked) ++ crlf ++
        ((parts.map (writeBody (isChunked (setHeader hs sTransferEncoding sChunked)) sendBlock)).flatten ++ lastChunk) ++ rest := by
    simp [Inp.ofBytes, serializeStream, headerBlock, statusLine_eq, List.append_assoc]
  obtain ⟨i', hread, hdat, hlive⟩ := readResponse_wire sendBlock sendBlock_pos sendBlock_lt proto (codeMsg code) code _ _ _ rest
    hp0 hpsp hcm.1 (by have := utoa_length code hcode; omega) hwf' hfr _ ⟨rfl, rfl⟩ hwire
  refine ⟨_, i', hread, hdat, hlive, ⟨rfl, rfl, rfl, rfl, ?_⟩⟩
  intro nv hnv huniq
  have := norm_lookup _ [] nv (fun x hx => (hwf' x hx).2.1.1) hnv huniq
  show header (norm _) nv.1 = nv.2
  unfold header norm
  rw [this]; rfl


/-! ## several exchanges on one connection -/

/-- a client request as data -/
structure Sent where
  method : Bytes
  target : Bytes
  host : Bytes
  port : Nat
  hs : Dic
  body : Bytes

def Sent.wire (s : Sent) : Bytes := serialize (clientMsg s.method s.target s.host s.port true s.hs s.body)

def Sent.expected (s : Sent) : Request := expectedRequest s.method s.target s.host s.port s.hs s.body

/-- a request after which the server reads the connection again: well formed, a target with a path, no `Connection`
header (HTTP/1.1 keeps the connection), and not an OPTIONS request that the library answers itself -/
structure Sent.Keeps (opt : Bool) (s : Sent) : Prop where
  wf : WFRequest s.method s.target s.host s.port s.hs s.body
  hasPath : (splitTarget s.target).1 ≠ []
  noConnection : ∀ nv ∈ s.hs, capitalized nv.1 ≠ sConnection
  handled : ¬ (s.method = sOPTIONS ∧ opt = true)

/-- one turn of the server loop on a connection whose pending bytes start with a request: the handler gets exactly
that request, the response is the one for that request alone, the connection is kept and positioned after it -/
theorem serveStep_exact (opt : Bool) (base : Bytes) (p : Plan) (s : Sent) (hs : s.Keeps opt) (rest : Bytes) (i : Inp) (hi : Live i)
    (hd : i.data = s.wire ++ rest) :
    ∃ i' : Inp, serveStep opt base p i = (some s.expected, (serve1 opt s.expected p [] base).wire, true, i') ∧
      i'.data = rest ∧ Live i' := by
  obtain ⟨i', hread, hdat, hlive, hwf'⟩ := request_exact s.method s.target s.host s.port s.hs s.body rest hs.wf i hi hd
  have hne : i.data.isEmpty = false := by
    rw [hd]
    obtain ⟨a, t, hm⟩ := List.exists_cons_of_ne_nil hs.wf.wfMethod.1
    simp [Sent.wire, serialize, serializeWith, clientMsg, headerBlock, hm]
  have hvalid : s.expected.valid = true := by
    have h1 : s.method.isEmpty = false := by
      obtain ⟨a, t, hm⟩ := List.exists_cons_of_ne_nil hs.wf.wfMethod.1; rw [hm]; rfl
    have h2 : (splitTarget s.target).1.isEmpty = false := by
      obtain ⟨a, t, hm⟩ := List.exists_cons_of_ne_nil hs.hasPath; rw [hm]; rfl
    simp [Request.valid, Sent.expected, expectedRequest, h1, h2, sHttp11]
  have hconn : header s.expected.headers sConnection = [] := by
    refine (header_norm_absent sConnection (by decide) _ ?_).2
    intro x hx
    refine ⟨(hwf' x hx).2.1.1, ?_⟩
    rcases List.mem_cons.mp hx with h | h
    · subst h; show capitalized sHostName ≠ sConnection; decide
    · by_cases hb0 : s.body.length = 0
      · have : x ∈ s.hs := by simpa [clientMsg, hb0] using h
        exact hs.noConnection x this
      · have hx' : x ∈ dicSet s.hs sContentLength (utoa s.body.length) := by
          have := h
          simp only [clientMsg, hb0, ne_eq, not_false_eq_true, if_true] at this
          rw [setHeader_of_value (utoa_ne_nil _), cap_cl] at this
          exact this
        rcases mem_dicSet hx' with h | h
        · subst h; show capitalized sContentLength ≠ sConnection; decide
        · exact hs.noConnection x h
  obtain ⟨hcalled, hkeep⟩ := serveOne_flags sendBlock recvBlock opt s.expected p [] base rfl hconn hs.handled
  refine ⟨i', ?_, hdat, hlive⟩
  unfold serveStep
  simp only [hne, live_dead hi, Bool.false_eq_true, or_self, if_false]
  rw [hread]
  simp only [Sent.expected] at hvalid
  simp only [hvalid, hlive.2, hlive.1, not_true_eq_false, Bool.false_eq_true, or_self, if_false]
  unfold serve1
  simp only [Sent.expected] at hcalled hkeep
  simp [hcalled, hkeep, Sent.expected]

/-- **keepalive_seq.**  Requests sent one after the other on the same connection — pipelined or not, in any
fragmentation (`i` is any live connection state) — are served exactly as if each had arrived alone on a fresh
connection: the reader consumes exactly one message per turn. -/
theorem keepalive_seq (opt : Bool) (base : Bytes) : ∀ (l : List (Sent × Plan)) (i : Inp), Live i →
    (∀ sp ∈ l, sp.1.Keeps opt) → i.data = (l.map (fun sp => sp.1.wire)).flatten →
    serveConn opt base (l.map (·.2)) i =
      l.map (fun sp => ((serveStep opt base sp.2 (Inp.ofBytes sp.1.wire)).1, (serveStep opt base sp.2 (Inp.ofBytes sp.1.wire)).2.1)) := by
  intro l
  induction l with
  | nil => intro i _ _ _; rfl
  | cons sp t ih =>
    intro i hi hk hd
    obtain ⟨s, p⟩ := sp
    have hks := hk (s, p) List.mem_cons_self
    obtain ⟨i', hstep, hdat, hlive⟩ := serveStep_exact opt base p s hks ((t.map (fun sp => sp.1.wire)).flatten) i hi
      (by simpa using hd)
    obtain ⟨i0, hstep0, _, _⟩ := serveStep_exact opt base p s hks [] (Inp.ofBytes s.wire) ⟨rfl, rfl⟩ (by simp [Inp.ofBytes])
    simp only [List.map_cons, serveConn]
    rw [hstep, hstep0]
    simp only [if_true]
    rw [ih i' hlive (fun sp h => hk sp (List.mem_cons_of_mem _ h)) hdat]


/-! ## the sender's chunk framing is RFC 7230 chunked transfer coding -/

/-- **sender conformance.**  What `write(part)` puts on the wire for any list of parts and any block size, followed
by the last chunk, is a chunked body in the sense of RFC 7230 whose payload is the concatenation of the parts. -/
theorem sender_chunked_conforms (blk : Nat) (hb : 0 < blk) (hb2 : blk < 4294967296) : ∀ parts : List Bytes,
    Spec.ChunkedBody ((parts.map (writeBody true blk)).flatten ++ lastChunk) parts.flatten := by
  intro parts
  induction parts with
  | nil => exact Spec.ChunkedBody.last
  | cons p t ih =>
    have := writeLoop_chunked_spec blk hb hb2 p.length p _ _ (Nat.le_refl _) ih
    simpa [writeBody, List.append_assoc] using this

/-- **reader conformance.**  After headers that announce `Transfer-Encoding: chunked` (and no Content-Length), `readBody`
returns the payload of EVERY chunked body of the RFC 7230 grammar (size lines in upper or lower case, with leading
zeros — whoever the sender is), on any live connection, i.e. for every fragmentation, and stops exactly behind it. -/
theorem reader_accepts_rfc_chunked (H : Dic) (w b rest : Bytes) (hcb : Spec.ChunkedBody w b) (hb : b.length < 4294967296)
    (hcl : hasHeader H sContentLength = false) (hte : header H sTransferEncoding = sChunked)
    (i : Inp) (hi : Live i) (hd : i.data = w ++ rest) :
    ∃ i' : Inp, readBody H i = (b, i') ∧ i'.data = rest ∧ Live i' := by
  obtain ⟨bl, hbl, heq, hrest⟩ := readChunked_rfc recvBlock recvBlock_pos w b hcb (i.data.length + 1) i [] rest hi
    (by rw [hd]; simp only [List.length_append]; omega) hb hd
  refine ⟨i.advance w.length, ?_, hrest, hi⟩
  unfold readBody readBodyWith
  have hcl' : header H sContentLength = [] := header_absent hcl
  simp only [hcl, hcl', hte, Bool.false_eq_true, false_and, if_false, beq_self_eq_true, not_true_eq_false, and_false,
    if_true, atoi, digitLoop]
  rw [heq]
  simp [hbl]

/-! ## the blocking socket loops complete partial transfers -/

/-- **partial_io_complete (write).**  Whatever non-empty prefix each `send` accepts (`sched` is arbitrary), the loop
of `Socket_::write` hands every byte to the OS once, in order, and returns the full size. -/
theorem partial_io_complete (sched : List Nat) (data : Bytes) : sockWrite sched data = (data, data.length) := by
  unfold sockWrite
  by_cases he : data.isEmpty = true
  · simp [he, List.isEmpty_iff.mp he]
  · have hne : data ≠ [] := by intro h0; subst h0; simp at he
    have he' : data.isEmpty = false := by simpa using he
    simp only [he', Bool.false_eq_true, if_false]
    rw [sockWriteLoop_all data.length sched data [] 0 (Nat.le_refl _) hne]
    simp

/-- **partial_io_complete (read).**  Whatever non-empty piece each `read` returns, the loop of `Socket_::read` stores
exactly the next `size` bytes of the stream, in order, without error, when they arrive. -/
theorem partial_read_complete (sched : List Nat) (inc : Bytes) (size : Nat) (hs : 0 < size) (h : size ≤ inc.length) :
    sockRead sched inc size = (inc.take size, false) := by
  unfold sockRead
  have : ¬ size = 0 := by omega
  simp only [this, if_false]
  rw [sockReadLoop_all size sched inc [] size (Nat.le_refl _) hs h]
  simp

/-! ## file ranges -/

/-- **range_spec.**  `putFile(path, b, e)` on a file of `n` bytes (after the repairs 0c0d05b, 6809b13): the range is
accepted exactly when `0 ≤ b ≤ e' < n` where `e'` is `e`, or `n-1` for the open end `e = 0`; then the announced range is
`b-e'`, the announced length `e'-b+1`, and the bytes written are exactly bytes `b..e'` of the file (RFC 7233
byte-range-spec).  Otherwise the range is answered as unsatisfiable (`bytes */n`). -/
theorem range_spec (content : Bytes) (b e e' : Int) (he' : e' = if e = 0 then (content.length : Int) - 1 else e) :
    (0 ≤ b ∧ b ≤ e' ∧ e' < content.length →
        rangeOf content.length b e = some (b.toNat, e'.toNat) ∧
        fileSlice content b.toNat e'.toNat = (content.drop b.toNat).take (e'.toNat - b.toNat + 1) ∧
        (fileSlice content b.toNat e'.toNat).length = e'.toNat - b.toNat + 1 ∧
        (∀ k, k < e'.toNat - b.toNat + 1 → (fileSlice content b.toNat e'.toNat)[k]? = content[b.toNat + k]?)) ∧
    (¬ (0 ≤ b ∧ b ≤ e' ∧ e' < content.length) → rangeOf content.length b e = none) := by
  constructor
  · intro ⟨h0, h1, h2⟩
    have hr : rangeOf content.length b e = some (b.toNat, e'.toNat) := by
      unfold rangeOf
      simp only [← he']
      have : ¬ (e' < b ∨ b < 0 ∨ e' ≥ (content.length : Int)) := by omega
      simp only [this, if_false]
    have hslice : fileSlice content b.toNat e'.toNat = (content.drop b.toNat).take (e'.toNat - b.toNat + 1) := by
      unfold fileSlice
      by_cases hc : b.toNat ≠ e'.toNat ∨ b.toNat > 0
      · rw [if_pos hc]
      · rw [if_neg hc]
        have hb0 : b.toNat = 0 := by omega
        have he0 : e'.toNat = 0 := by omega
        rw [hb0, he0]
        -- (0, 0) reads the whole file: it has one byte
        have hn1 : content.length = 1 := by
          have h00 : e' = 0 := by omega
          rw [h00] at he'
          by_cases hez : e = 0
          · simp only [hez, if_true] at he'; omega
          · simp only [hez, if_false] at he'; exact absurd he'.symm hez
        simp only [List.drop_zero, Nat.sub_self, Nat.zero_add]
        rw [← hn1, List.take_length]
    refine ⟨hr, hslice, ?_, ?_⟩
    · rw [hslice, List.length_take, List.length_drop]; omega
    · intro k hk
      rw [hslice, List.getElem?_take_of_lt hk, List.getElem?_drop]
  · intro h
    unfold rangeOf
    simp only [← he']
    have : (e' < b ∨ b < 0 ∨ e' ≥ (content.length : Int)) := by omega
    simp only [this, if_true]


/-! ## the hypotheses are satisfiable (no vacuous theorem) -/

/-- `GET /a?x=1` to 127.0.0.1:8080 with header `X-A: v 1` and the 3-byte body NUL CR LF -/
def exampleSent : Sent :=
  { method := [71, 69, 84], target := [47, 97, 63, 120, 61, 49], host := [49, 50, 55, 46, 48, 46, 48, 46, 49], port := 8080,
    hs := [([88, 45, 65], [118, 32, 49])], body := [0, 13, 10] }

example : WFRequest exampleSent.method exampleSent.target exampleSent.host exampleSent.port exampleSent.hs exampleSent.body := by
  refine ⟨?_, ?_, ?_, ?_, ?_, ?_, ?_, ?_⟩
  · unfold WFWord; decide
  · unfold WFWord; decide
  · decide
  · unfold WFValue; decide
  · unfold FitsLine; decide
  · unfold WFHeaders WFName WFValue FitsLine; decide
  · unfold NoFraming; decide
  · decide

example : exampleSent.Keeps true := by
  refine ⟨?_, ?_, ?_, ?_⟩
  · refine ⟨?_, ?_, ?_, ?_, ?_, ?_, ?_, ?_⟩
    · unfold WFWord; decide
    · unfold WFWord; decide
    · decide
    · unfold WFValue; decide
    · unfold FitsLine; decide
    · unfold WFHeaders WFName WFValue FitsLine; decide
    · unfold NoFraming; decide
    · decide
  · decide
  · decide
  · intro h; exact absurd h.1 (by decide)

/-- the model run on the example: the handler's view of the request carries the 3 body bytes and the header -/
example : (readRequest (Inp.ofBytes exampleSent.wire [1, 5, 40])).1.body = [0, 13, 10] ∧
    header (readRequest (Inp.ofBytes exampleSent.wire [1, 5, 40])).1.headers [120, 45, 97] = [118, 32, 49] := by decide

/-- `0A CRLF <10 bytes> CRLF 0 CRLF CRLF` (upper case, leading zero) is a chunked body of the grammar -/
example : Spec.ChunkedBody ([48, 65] ++ [13, 10] ++ [1, 2, 3, 4, 5, 6, 7, 8, 9, 10] ++ [13, 10] ++ [48, 13, 10, 13, 10])
    ([1, 2, 3, 4, 5, 6, 7, 8, 9, 10] ++ []) :=
  Spec.ChunkedBody.chunk [48, 65] [1, 2, 3, 4, 5, 6, 7, 8, 9, 10] _ _ (by decide) (by decide) (by decide) Spec.ChunkedBody.last

example : IsProto sHttp11 := Or.inl rfl
example : WFHeaders [([88, 45, 65], [118, 32, 49])] ∧ NoFraming [([88, 45, 65], [118, 32, 49])] := by
  constructor
  · unfold WFHeaders WFName WFValue FitsLine; decide
  · unfold NoFraming; decide

end C10
