import AslProofs.HttpFrame
/-! Independent specification of RFC 7230 chunked transfer coding used by `AslProps.C10` (`sender_chunked_conforms`), and
the lemmas relating it to the model's `%x` printer. -/
namespace C10Spec
open AslModel.HttpFrame AslProofs.HttpFrame

namespace Spec

/-- value of one hexadecimal digit (RFC 5234 HEXDIG, either case) -/
def hexDigitValue (c : UInt8) : Option Nat :=
  if 48 ≤ c ∧ c ≤ 57 then some (c.toNat - 48)
  else if 97 ≤ c ∧ c ≤ 102 then some (c.toNat - 87)
  else if 65 ≤ c ∧ c ≤ 70 then some (c.toNat - 55)
  else none

def hexStep (acc : Option Nat) (c : UInt8) : Option Nat :=
  match acc, hexDigitValue c with
  | some a, some d => some (16 * a + d)
  | _, _ => none

/-- chunk-size = 1*HEXDIG -/
def hexValue (s : Bytes) : Option Nat := if s.isEmpty then none else s.foldl hexStep (some 0)

/-- RFC 7230 §4.1 (no extensions, no trailers): `chunked-body = *chunk last-chunk CRLF`,
`chunk = chunk-size CRLF chunk-data CRLF` with `chunk-size > 0`; second index = the decoded payload.
The size line has at most 8 digits (what the library's reader accepts since its chunk-size check: leading zeros
beyond that are refused). -/
inductive ChunkedBody : Bytes → Bytes → Prop
  | last : ChunkedBody [48, 13, 10, 13, 10] []
  | chunk (sz d w b : Bytes) : hexValue sz = some d.length → sz.length ≤ 8 → d ≠ [] → ChunkedBody w b →
      ChunkedBody (sz ++ [13, 10] ++ d ++ [13, 10] ++ w) (d ++ b)

end Spec

theorem spec_hex_digit : ∀ d, d < 16 → Spec.hexDigitValue (hexDigit d) = some d := by decide

theorem spec_fold_hex (xs : Bytes) (hx : ∀ c ∈ xs, IsHexD c) : ∀ y, xs.foldl Spec.hexStep (some y) = some (hexLoop xs y) := by
  induction xs with
  | nil => intro y; rfl
  | cons c t ih =>
    intro y
    obtain ⟨d, hd, hc⟩ := hx c List.mem_cons_self
    subst hc
    simp only [List.foldl_cons, Spec.hexStep, spec_hex_digit d hd, hexLoop, (hex_digit d hd).1]
    exact ih (fun c h => hx c (List.mem_cons_of_mem _ h)) _

theorem spec_hexValue_hexLower (n : Nat) : Spec.hexValue (hexLower n) = some n := by
  unfold Spec.hexValue
  have hne : (hexLower n).isEmpty = false := by
    have := hexLower_ne_nil n
    cases h : hexLower n with
    | nil => exact absurd h this
    | cons a t => rfl
  simp only [hne, Bool.false_eq_true, if_false]
  rw [spec_fold_hex _ (hexLower_mem n)]
  have := hexLoop_hexRev (n + 1) n (by omega)
  unfold hexLower
  rw [this]

theorem writeLoop_chunked_spec (blk : Nat) (hb : 0 < blk) (hb2 : blk < 2147483648) : ∀ (wf : Nat) (b w p : Bytes), b.length ≤ wf → Spec.ChunkedBody w p →
    Spec.ChunkedBody (writeLoop true blk wf b ++ w) (b ++ p) := by
  intro wf
  induction wf with
  | zero =>
    intro b w p h hw
    have : b = [] := List.eq_nil_of_length_eq_zero (by omega)
    subst this; simpa [writeLoop] using hw
  | succ wf ih =>
    intro b w p h hw
    by_cases he : b.isEmpty = true
    · have := List.isEmpty_iff.mp he; subst this; simpa [writeLoop] using hw
    · have hf0 : b.isEmpty = false := by simpa using he
      have hne : b ≠ [] := by intro h0; subst h0; simp at he
      have hl : 0 < b.length := List.length_pos_iff.mpr hne
      rw [writeLoop]
      simp only [hf0, Bool.false_eq_true, if_false, frameBlock, if_true]
      have hrec := ih (b.drop (min b.length blk)) w p (by rw [List.length_drop]; omega) hw
      have htk : b.take (min b.length blk) ≠ [] := by
        intro h0
        have : (b.take (min b.length blk)).length = 0 := by rw [h0]; rfl
        rw [List.length_take] at this; omega
      have hlt : (b.take (min b.length blk)).length < 4294967296 := by rw [List.length_take]; omega
      have := Spec.ChunkedBody.chunk (hexLower (b.take (min b.length blk)).length) (b.take (min b.length blk)) _ _
        (spec_hexValue_hexLower _) (by have := hexLower_length _ hlt; omega) htk hrec
      rw [← List.append_assoc (b.take _), List.take_append_drop] at this
      simpa [crlf, List.append_assoc] using this




/-- one chunk with an arbitrary size line `sz` that `hexToInt` reads as the data length -/
theorem readChunked_step_gen (rblk : Nat) (hr : 0 < rblk) (f : Nat) (i : Inp) (acc : List Bytes) (sz p tail : Bytes)
    (hi : Live i) (hp0 : 0 < p.length) (hp31 : p.length < 2147483648) (hnolf : ∀ c ∈ sz ++ [13], c ≠ 10)
    (hlen : (sz ++ [13]).length ≤ 16001) (hval : hexToInt (sz ++ [13]) = p.length) (hvalid : chunkLineValid (sz ++ [13]) = true)
    (hd : i.data = sz ++ crlf ++ p ++ crlf ++ tail) :
    ∃ bl : List Bytes, bl.reverse.flatten = p ∧
      readChunkedLoop rblk (f + 1) i 0 acc =
        readChunkedLoop rblk f (i.advance (sz.length + 2 + p.length + 2)) 0 (bl ++ acc) := by
  have hd' : i.data = (sz ++ [13]) ++ 10 :: (p ++ crlf ++ tail) := by
    rw [hd]; simp [crlf, List.append_assoc]
  obtain ⟨hrl, hrest⟩ := readLine_line hi (sz ++ [13]) (p ++ crlf ++ tail) hnolf hlen hd'
  have hi1 : Live (i.advance ((sz ++ [13]).length + 1)) := hi
  obtain ⟨bl, hbl, heq⟩ := readInner_chunk rblk hr (p.length + 1) _ p.length acc hi1 (by omega)
    (by rw [hrest]; simp only [List.length_append]; omega)
  refine ⟨bl, ?_, ?_⟩
  · rw [hbl, hrest]; simp [List.append_assoc]
  · rw [readChunkedLoop]
    simp only [live_dead hi, Bool.false_eq_true, if_false]
    rw [hrl]
    simp only [hvalid, Bool.not_true, Bool.false_eq_true, if_false]
    rw [hval]
    rw [heq]
    simp only []
    rw [advance_advance]
    have hdat : ((i.advance ((sz ++ [13]).length + 1 + p.length)).data) = crlf ++ tail := by
      rw [← advance_advance, advance_data, hrest]; simp [List.append_assoc]
    have htwo : List.take 2 (crlf ++ tail) = crlf := by simp [crlf]
    rw [hdat, htwo]
    have hi2 : Live (i.advance ((sz ++ [13]).length + 1 + p.length)) := hi
    have hne : ¬ p.length = 0 := by omega
    have herr : (i.advance ((sz ++ [13]).length + 1 + p.length)).err = false := hi2.2
    simp only [crlf, List.length_cons, List.length_nil, Nat.lt_irrefl, decide_false, Bool.or_false, if_false, hne, herr]
    rw [advance_advance]
    have hN : (sz ++ [13]).length + 1 + p.length + (0 + 1 + 1) = sz.length + 2 + p.length + 2 := by
      simp only [List.length_append, List.length_cons, List.length_nil]
    rw [hN]
    congr 1
    simp [Inp.advance, hi.2]

theorem hexDigitValue_eq : Spec.hexDigitValue = hexVal := rfl

/-- a chunk-size line of the grammar: only hex digits (either case) -/
theorem spec_hex_chars : ∀ (sz : Bytes) (y : Nat) (v : Nat), sz.foldl Spec.hexStep (some y) = some v →
    (∀ c ∈ sz, (hexVal c).isSome) ∧ hexLoop sz y = v := by
  intro sz
  induction sz with
  | nil => intro y v h; simp at h; exact ⟨by simp, by simpa [hexLoop] using h⟩
  | cons c t ih =>
    intro y v h
    simp only [List.foldl_cons, Spec.hexStep, hexDigitValue_eq] at h
    cases hc : hexVal c with
    | none =>
      rw [hc] at h
      have : ∀ l : Bytes, l.foldl Spec.hexStep none = none := by
        intro l; induction l with
        | nil => rfl
        | cons a l ih => simp [List.foldl_cons, Spec.hexStep, ih]
      rw [this] at h; exact absurd h (by simp)
    | some d =>
      rw [hc] at h
      obtain ⟨h1, h2⟩ := ih _ _ h
      refine ⟨?_, ?_⟩
      · intro x hx
        rcases List.mem_cons.mp hx with hx | hx
        · subst hx; simp [hc]
        · exact h1 x hx
      · simp only [hexLoop, hc]; exact h2


theorem hexVal_ranges (c : UInt8) (h : (hexVal c).isSome) :
    (48 ≤ c.toNat ∧ c.toNat ≤ 57) ∨ (97 ≤ c.toNat ∧ c.toNat ≤ 102) ∨ (65 ≤ c.toNat ∧ c.toNat ≤ 70) := by
  unfold hexVal at h
  split at h
  · rename_i h1
    have a := UInt8.le_iff_toNat_le.mp h1.1
    have b := UInt8.le_iff_toNat_le.mp h1.2
    simp at a b; omega
  · split at h
    · rename_i h1
      have a := UInt8.le_iff_toNat_le.mp h1.1
      have b := UInt8.le_iff_toNat_le.mp h1.2
      simp at a b; omega
    · split at h
      · rename_i h1
        have a := UInt8.le_iff_toNat_le.mp h1.1
        have b := UInt8.le_iff_toNat_le.mp h1.2
        simp at a b; omega
      · simp at h

theorem hexchar_ne (c : UInt8) (h : (hexVal c).isSome) (k : UInt8)
    (hk : ¬ ((48 ≤ k.toNat ∧ k.toNat ≤ 57) ∨ (97 ≤ k.toNat ∧ k.toNat ≤ 102) ∨ (65 ≤ k.toNat ∧ k.toNat ≤ 70))) : c ≠ k := by
  intro hck; subst hck; exact hk (hexVal_ranges c h)

theorem hexchar_not_blank (c : UInt8) (h : (hexVal c).isSome) : isBlank c = false := by
  have hr := hexVal_ranges c h
  unfold isBlank
  have h32 : (c == 32) = false := by
    have := hexchar_ne c h 32 (by decide); simpa using this
  have h13 : ¬ c ≤ 13 := by
    intro hle
    have b := UInt8.le_iff_toNat_le.mp hle
    simp at b; omega
  simp [h32, h13]

/-- `hexToInt` reads any RFC chunk-size line (1*HEXDIG, either case, value below 2^32), followed by its CR -/
theorem hexToInt_spec (sz : Bytes) (n : Nat) (hv : Spec.hexValue sz = some n) (hn : n < 4294967296) :
    hexToInt (sz ++ [13]) = n ∧ (∀ c ∈ sz ++ [13], c ≠ 10) ∧ (∀ c ∈ sz, (hexVal c).isSome = true) := by
  unfold Spec.hexValue at hv
  cases sz with
  | nil => simp at hv
  | cons c t =>
    simp only [List.isEmpty_cons, Bool.false_eq_true, if_false] at hv
    obtain ⟨hch, hloop⟩ := spec_hex_chars (c :: t) 0 n hv
    have hc := hch c List.mem_cons_self
    constructor
    · unfold hexToInt
      have h1 : List.dropWhile isBlank (c :: t ++ [13]) = c :: t ++ [13] := by
        simp only [List.cons_append]
        rw [List.dropWhile_cons_of_neg (by simp [hexchar_not_blank c hc])]
      rw [h1]
      have h2 : skipPlus (c :: t ++ [13]) = c :: t ++ [13] := by
        simp only [List.cons_append]
        unfold skipPlus
        split
        · rename_i heq; simp only [List.cons.injEq] at heq
          exact absurd heq.1 (hexchar_ne c hc 43 (by decide))
        · rfl
      rw [h2]
      have h3 : skip0x (c :: t ++ [13]) = c :: t ++ [13] := by
        unfold skip0x
        split
        · rename_i x h t' heq
          have hx : x ∈ c :: t ++ [13] := by rw [heq]; simp
          have hx2 : x ≠ 120 ∧ x ≠ 88 := by
            simp only [List.cons_append, List.mem_cons, List.mem_append, List.not_mem_nil, or_false] at hx
            rcases hx with hx | hx | hx
            · subst hx; exact ⟨hexchar_ne x hc 120 (by decide), hexchar_ne x hc 88 (by decide)⟩
            · have := hch x (List.mem_cons_of_mem _ hx)
              exact ⟨hexchar_ne x this 120 (by decide), hexchar_ne x this 88 (by decide)⟩
            · subst hx; decide
          have : (x == 120 || x == 88) = false := by simp [hx2.1, hx2.2]
          simp [this, heq]
        · rfl
      rw [h3]
      have hl : hexLoop (c :: t ++ [13]) 0 = n := by
        have : ∀ (xs : Bytes) (y : Nat), (∀ c ∈ xs, (hexVal c).isSome) → hexLoop (xs ++ [13]) y = hexLoop xs y := by
          intro xs
          induction xs with
          | nil => intro y _; simp [hexLoop, hexVal_cr]
          | cons a xs ih =>
            intro y hx
            have ha := hx a List.mem_cons_self
            cases hva : hexVal a with
            | none => rw [hva] at ha; simp at ha
            | some d =>
              simp only [List.cons_append, hexLoop, hva]
              exact ih _ (fun c hc => hx c (List.mem_cons_of_mem _ hc))
        rw [this (c :: t) 0 hch, hloop]
      rw [hl]; exact Nat.mod_eq_of_lt hn
    · refine ⟨?_, fun x hx => by simpa using hch x hx⟩
      intro x hx
      rcases List.mem_append.mp hx with h | h
      · exact hexchar_ne x (hch x h) 10 (by decide)
      · simp only [List.mem_singleton] at h; subst h; decide

/-- **reader conformance.**  The chunked loop of `readBody` decodes every RFC 7230 chunked body (size lines in either
case, with leading zeros, payload below 2^32 bytes) into its payload -/
theorem readChunked_rfc (rblk : Nat) (hr : 0 < rblk) : ∀ (w b : Bytes), Spec.ChunkedBody w b →
    (∀ (f : Nat) (i : Inp) (acc : List Bytes) (rest : Bytes), Live i → w.length < f → b.length < 2147483648 →
      i.data = w ++ rest →
      ∃ bl : List Bytes, bl.reverse.flatten = b ∧
        readChunkedLoop rblk f i 0 acc = (bl ++ acc, i.advance w.length) ∧ (i.advance w.length).data = rest) := by
  intro w b hcb
  induction hcb with
  | last =>
    intro f i acc rest hi hf _ hd
    obtain ⟨f0, rfl⟩ : ∃ f0, f = f0 + 1 := ⟨f - 1, by omega⟩
    obtain ⟨h1, h2⟩ := readChunked_end rblk f0 i acc rest hi (by simpa [lastChunk] using hd)
    exact ⟨[], by simp, by simpa using h1, by simpa using h2⟩
  | chunk sz d w' b' hv hsz hd0 _ ih =>
    intro f i acc rest hi hf hb hd
    obtain ⟨f0, rfl⟩ : ∃ f0, f = f0 + 1 := ⟨f - 1, by omega⟩
    have hdl : 0 < d.length := List.length_pos_iff.mpr hd0
    have hwl : (sz ++ [13, 10] ++ d ++ [13, 10] ++ w').length = sz.length + 2 + d.length + 2 + w'.length := by
      simp; omega
    obtain ⟨hval, hnolf, hhex⟩ := hexToInt_spec sz d.length hv (by simp only [List.length_append] at hb; omega)
    obtain ⟨bl1, hbl1, heq1⟩ := readChunked_step_gen rblk hr f0 i acc sz d (w' ++ rest) hi hdl (by simp only [List.length_append] at hb; omega) hnolf
      (by simp only [List.length_append, List.length_cons, List.length_nil]; omega) hval
      (chunkLineValid_hex sz hhex (by
          cases sz with
          | nil => simp [Spec.hexValue] at hv
          | cons a t => simp) hsz (by rw [hval]; simp only [List.length_append] at hb; omega))
      (by rw [hd]; simp [crlf, List.append_assoc])
    have hi' : Live (i.advance (sz.length + 2 + d.length + 2)) := hi
    have hd2 : (i.advance (sz.length + 2 + d.length + 2)).data = w' ++ rest := by
      rw [advance_data, hd]
      have : sz.length + 2 + d.length + 2 = (sz ++ [13, 10] ++ d ++ [13, 10]).length := by simp; omega
      rw [this, List.append_assoc _ w' rest, List.drop_left]
    obtain ⟨bl2, hbl2, heq2, hrest2⟩ := ih f0 _ (bl1 ++ acc) rest hi' (by omega)
      (by simp only [List.length_append] at hb; omega) hd2
    refine ⟨bl2 ++ bl1, ?_, ?_, ?_⟩
    · simp only [List.reverse_append, List.flatten_append]; rw [hbl1, hbl2]
    · rw [heq1, heq2, advance_advance, hwl]; simp [List.append_assoc]
    · rw [hwl, ← advance_advance]; exact hrest2


end C10Spec
