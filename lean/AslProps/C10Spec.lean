import AslProofs.HttpFrame
/-! Independent specification of RFC 7230 chunked transfer coding used by `AslProps.C10` (`sender_chunked_conforms`), and
the lemmas relating it to the model's `%x` printer. -/
namespace C10Spec
open AslModel.HttpFrame AslProofs.HttpFrame

namespace Spec

/-- value of one hexadecimal digit (RFC 5234 HEXDIG, either case) -/
def hexDigitValue (c : UInt8) : Option Nat :=
  if 48 ≤ c ∧ c ≤ 57 then some (c.toNat - 48)
  else if 97 ≤ c ∧ c ≤ 102 then some (c.toNat - 87)
  else if 65 ≤ c ∧ c ≤ 70 then some (c.toNat - 55)
  else none

def hexStep (acc : Option Nat) (c : UInt8) : Option Nat :=
  match acc, hexDigitValue c with
  | some a, some d => some (16 * a + d)
  | _, _ => none

/-- chunk-size = 1*HEXDIG -/
def hexValue (s : Bytes) : Option Nat := if s.isEmpty then none else s.foldl hexStep (some 0)

/-- RFC 7230 §4.1 (no extensions, no trailers): `chunked-body = *chunk last-chunk CRLF`,
`chunk = chunk-size CRLF chunk-data CRLF` with `chunk-size > 0`; second index = the decoded payload -/
inductive ChunkedBody : Bytes → Bytes → Prop
  | last : ChunkedBody [48, 13, 10, 13, 10] []
  | chunk (sz d w b : Bytes) : hexValue sz = some d.length → d ≠ [] → ChunkedBody w b →
      ChunkedBody (sz ++ [13, 10] ++ d ++ [13, 10] ++ w) (d ++ b)

end Spec

theorem spec_hex_digit : ∀ d, d < 16 → Spec.hexDigitValue (hexDigit d) = some d := by decide

theorem spec_fold_hex (xs : Bytes) (hx : ∀ c ∈ xs, IsHexD c) : ∀ y, xs.foldl Spec.hexStep (some y) = some (hexLoop xs y) := by
  induction xs with
  | nil => intro y; rfl
  | cons c t ih =>
    intro y
    obtain ⟨d, hd, hc⟩ := hx c List.mem_cons_self
    subst hc
    simp only [List.foldl_cons, Spec.hexStep, spec_hex_digit d hd, hexLoop, (hex_digit d hd).1]
    exact ih (fun c h => hx c (List.mem_cons_of_mem _ h)) _

theorem spec_hexValue_hexLower (n : Nat) : Spec.hexValue (hexLower n) = some n := by
  unfold Spec.hexValue
  have hne : (hexLower n).isEmpty = false := by
    have := hexLower_ne_nil n
    cases h : hexLower n with
    | nil => exact absurd h this
    | cons a t => rfl
  simp only [hne, Bool.false_eq_true, if_false]
  rw [spec_fold_hex _ (hexLower_mem n)]
  have := hexLoop_hexRev (n + 1) n (by omega)
  unfold hexLower
  rw [this]

theorem writeLoop_chunked_spec (blk : Nat) (hb : 0 < blk) : ∀ (wf : Nat) (b w p : Bytes), b.length ≤ wf → Spec.ChunkedBody w p →
    Spec.ChunkedBody (writeLoop true blk wf b ++ w) (b ++ p) := by
  intro wf
  induction wf with
  | zero =>
    intro b w p h hw
    have : b = [] := List.eq_nil_of_length_eq_zero (by omega)
    subst this; simpa [writeLoop] using hw
  | succ wf ih =>
    intro b w p h hw
    by_cases he : b.isEmpty = true
    · have := List.isEmpty_iff.mp he; subst this; simpa [writeLoop] using hw
    · have hf0 : b.isEmpty = false := by simpa using he
      have hne : b ≠ [] := by intro h0; subst h0; simp at he
      have hl : 0 < b.length := List.length_pos_iff.mpr hne
      rw [writeLoop]
      simp only [hf0, Bool.false_eq_true, if_false, frameBlock, if_true]
      have hrec := ih (b.drop (min b.length blk)) w p (by rw [List.length_drop]; omega) hw
      have htk : b.take (min b.length blk) ≠ [] := by
        intro h0
        have : (b.take (min b.length blk)).length = 0 := by rw [h0]; rfl
        rw [List.length_take] at this; omega
      have := Spec.ChunkedBody.chunk (hexLower (b.take (min b.length blk)).length) (b.take (min b.length blk)) _ _
        (spec_hexValue_hexLower _) htk hrec
      rw [← List.append_assoc (b.take _), List.take_append_drop] at this
      simpa [crlf, List.append_assoc] using this


end C10Spec
