import AslModel.WebSocket
namespace C11
open AslModel.WebSocket Gen.Ws

theorem guid_is_rfc : guid = [50, 53, 56, 69, 65, 70, 65, 53, 45, 69, 57, 49, 52, 45, 52, 55, 68, 65,
  45, 57, 53, 67, 65, 45, 67, 53, 65, 66, 48, 68, 67, 56, 53, 66, 49, 49] := by decide

end C11
