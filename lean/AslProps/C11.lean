import AslModel.WebSocket
import AslProofs.WebSocket
import AslProofs.WebSocketClient
import AslProofs.WebSocketCut
import AslProofs.WebSocketPrefix
import AslProofs.WebSocketServerHs
import AslProofs.Sha1
import AslProps.C15
/-!
# C11 — WebSocket messages arrive intact and in order; hostile frames can only close the connection

Property theorems only (helper lemmas: `AslProofs/WebSocket.lean`).  The specification side is
`AslProofs/WebSocketSpec.lean` (`namespace Rfc6455`), written from RFC 6455: `Rfc6455.frame` (§5.2: FIN,
opcode, MASK bit, the *minimal* 7 / 7+16 / 7+64-bit length in network byte order, masking key, payload),
`Rfc6455.mask` (§5.3: octet `i` XOR key octet `i mod 4`), `Rfc6455.Msg`/`wire` (§5.4: first frame carries
the opcode, continuations opcode 0, FIN on the last, ping/pong frames anywhere between frames).

The model (`AslModel/WebSocket.lean`) is what the driver runs and what the correspondence check compares
with the real library; its numeric constants, the opcode chain, the GUID and the response texts are
regenerated from `src/WebSocket.cpp` on every run (`Gen/WsGen.lean`), so the first block of theorems
breaks when one of them changes.
-/
namespace C11
open AslModel.WebSocket AslProofs.WebSocket Gen.Ws

/-! ## G obligations: the constants in the source are the ones RFC 6455 prescribes -/

/-- FIN = 0x80, opcode = low nibble, MASK = 0x80, 7-bit length; 126 ⇒ 16-bit, 127 ⇒ 64-bit; the sender
    switches form exactly at 126 and 65536; 64-bit lengths above 2^31 − 16 are refused; the masking loop
    covers `len/4 + 1` words of a buffer grown by 4 bytes -/
theorem constants_are_rfc :
    finBit = 128 ∧ maskBit = 128 ∧ recvFinBit = 128 ∧ recvMaskBit = 128 ∧ opMask = 15 ∧ lenMask = 127 ∧
    sendSmall = 126 ∧ sendMedium = 65536 ∧ sendCode16 = 126 ∧ sendCode64 = 127 ∧ recvCode16 = 126 ∧ recvCode64 = 127 ∧
    recvMaxLen = 2 ^ 31 - 16 ∧ maskDiv = 4 ∧ maskExtra = 1 ∧ maskPad = 4 := by decide

/-- text ↦ 1, binary ↦ 2, ping ↦ 9, pong ↦ 10, close ↦ 8 (`FrameType` values as in WebSocket.h) -/
theorem opcodes_are_rfc :
    opcodeOf 1 = Rfc6455.opText ∧ opcodeOf 2 = Rfc6455.opBinary ∧ opcodeOf 9 = Rfc6455.opPing ∧
    opcodeOf 10 = Rfc6455.opPong ∧ opcodeOf 8 = Rfc6455.opClose := by decide

theorem guid_is_rfc : guid = Rfc6455.guid := by decide

/-- the library's own limits: data frames are opcodes 0..2, the reassembled message has the same limit as
    a frame (2^31 − 16, so `length + 4` and `length + 1` fit an `int`), the payload buffer starts at 64 KiB and at most doubles -/
theorem limits_are_consistent :
    recvDataOps = 3 ∧ recvMaxMsg = recvMaxLen ∧ recvMaxMsg + 4 < 2 ^ 31 ∧ recvChunk = 65536 := by decide

/-! ## masking -/

/-- The code's masking block — key read big-endian, `swapBytes`, XOR of `len/4 + 1` 32-bit words over a
    buffer with 4 bytes of slack (arbitrary contents) — never leaves the buffer (`some`) and equals
    byte-wise RFC masking, for every key (zero bytes included) and every payload length. -/
theorem mask_wordwise_eq_bytewise (k : Rfc6455.Key) (data slack : List UInt8) (hs : 4 ≤ slack.length) :
    maskBuffer k.value data slack = some (Rfc6455.mask k data) := maskBuffer_eq k data slack hs

/-- for *any* 32-bit pattern read as a mask the loop stays inside `len + 4` bytes -/
theorem mask_in_bounds (m : Nat) (data slack : List UInt8) (hs : 4 ≤ slack.length) :
    (maskBuffer m data slack).isSome = true := maskBuffer_isSome m data slack hs

/-- unmasking undoes masking -/
theorem mask_involutive (k : Rfc6455.Key) (d : List UInt8) : Rfc6455.mask k (Rfc6455.mask k d) = d := mask_invol k d

/-! ## sending -/

/-- a server-role `send` of a non-empty payload writes exactly the unmasked RFC frame (FIN set) -/
theorem encode_is_rfc_server (rng : Rng) (type : Nat) (p : List UInt8) (hp : p ≠ []) :
    sendFrame false rng type p = some (Rfc6455.frame true (opcodeOf type) none p, rng) :=
  sendFrame_server rng type p hp

/-- a client-role `send` writes exactly the RFC frame masked with the key it drew from its generator —
    also when that key is 0 or has zero bytes (the `mask != 0` shortcut is the identity) -/
theorem encode_is_rfc_client (rng : Rng) (type : Nat) (p : List UInt8) (hp : p ≠ []) :
    sendFrame true rng type p
      = some (Rfc6455.frame true (opcodeOf type) (some (Rfc6455.Key.ofValue rng.get.1)) p, rng.get.2) :=
  sendFrame_client rng type p hp

/-- `send` with nothing to send writes nothing -/
theorem send_empty_is_noop (isClient : Bool) (rng : Rng) (type : Nat) : sendFrame isClient rng type [] = some ([], rng) := by
  simp [sendFrame]

/-! ## header round trip -/

/-- Every header `send` can write is read back exactly: all opcodes, both roles, every length
    `0 ≤ len ≤ 2^31 − 16` — the 125/126 and 65535/65536 boundaries are branches of both functions —
    and the length arrives as a non-negative `int` equal to `len`. -/
theorem header_roundtrip (isClient : Bool) (opcode len : Nat) (hop : opcode < 16) (hlen : len ≤ 2147483632)
    (k : Rfc6455.Key) (tail : List UInt8) :
    ∃ b0 b1 ext, sendHeader isClient opcode len = b0 :: b1 :: ext ∧
      parseExt b0 b1 (ext ++ (if isClient then k.bytes else []) ++ tail)
        = .ok true opcode isClient (len : Int) (if isClient then k.value else 0) tail := by
  obtain ⟨b1, ext, hl⟩ := lengthField_cons isClient len
  refine ⟨_, b1, ext, by rw [sendHeader_eq isClient opcode len hop, hl], ?_⟩
  cases isClient with
  | false =>
    have := parseExt_frame true opcode hop none len hlen tail b1 ext (by simpa using hl)
    simpa [keyBytes, keyValue] using this
  | true =>
    have := parseExt_frame true opcode hop (some k) len hlen tail b1 ext (by simpa using hl)
    simpa [keyBytes, keyValue] using this

/-! ## receiving what a conforming peer sends -/

/-- **Messages arrive intact, once, in order.**  For every list of messages, each split into any number
    of frames (empty fragments allowed), every frame masked with any key or unmasked, ping and pong
    frames with any payload injected before any frame and after the last message, for both roles and any
    generator state: an application that calls `receive()` until `closed()` obtains — apart from the empty
    results control frames produce — exactly the messages' payloads, in sending order, each once; the
    connection ends closed and no masking loop left its buffer.
    Size guards (`MsgFits`): the library holds a frame and the reassembled message in `int`-indexed arrays,
    so each frame payload *and the sum of the fragments of one message* is at most 2^31 − 16 bytes; a
    message beyond that is refused (`oversized_message_refused`), never delivered wrapped. -/
theorem messages_intact (isClient : Bool) (rng : Rng) (ms : List Rfc6455.Msg) (trailing : List Rfc6455.Ctl)
    (hfit : ∀ m ∈ ms, MsgFits m) (hctl : CtlsFit trailing) (hne : ∀ m ∈ ms, m.payload ≠ []) :
    let r := run { isClient := isClient, rng := rng, inp := Rfc6455.wire ms trailing }
    r.1.filter (· ≠ []) = ms.map (·.payload) ∧ r.2.closed = true ∧ r.2.fault = false := by
  intro r
  obtain ⟨extra, c', h1, h2, h3, h4⟩ := receiveAll_wire ms trailing ((Rfc6455.wire ms trailing).length + 1)
    { isClient := isClient, rng := rng, inp := Rfc6455.wire ms trailing } [] ⟨rfl, fun h => by simp at h⟩ hfit hctl rfl (by simp)
  have hr : r = ([] ++ extra, c') := h1
  have hall : (ms.map (·.payload)).filter (· ≠ []) = ms.map (·.payload) := by
    apply List.filter_eq_self.mpr
    intro p hp
    obtain ⟨m, hm, rfl⟩ := List.mem_map.mp hp
    simpa using hne m hm
  rw [hr]
  refine ⟨?_, h3, h4⟩
  rw [← hall, ← h2]; simp

/-- **Library to library.**  What a sender of either role writes for a sequence of `send` calls (text or
    binary, any payloads; empty ones are not sent) is received by the other role as exactly the non-empty
    payloads, in order, each once. -/
theorem library_roundtrip (senderIsClient : Bool) (srng rrng : Rng) (msgs : List (Nat × List UInt8))
    (hty : ∀ e ∈ msgs, e.1 = 1 ∨ e.1 = 2) (hfit : ∀ e ∈ msgs, Fits e.2) :
    ∃ wire, sendAll senderIsClient srng msgs [] = some wire ∧
      let r := run { isClient := !senderIsClient, rng := rrng, inp := wire }
      r.1.filter (· ≠ []) = (msgs.map (·.2)).filter (· ≠ []) ∧ r.2.closed = true ∧ r.2.fault = false := by
  refine ⟨_, by rw [sendAll_eq senderIsClient msgs srng [] hty, List.nil_append], ?_⟩
  have hne : ∀ m ∈ singleMsgs senderIsClient srng msgs, m.payload ≠ [] := by
    intro m hm
    have : m.payload ∈ (singleMsgs senderIsClient srng msgs).map (·.payload) := List.mem_map_of_mem hm
    rw [singleMsgs_payload] at this
    simpa using (List.mem_filter.mp this).2
  have := messages_intact (!senderIsClient) rrng (singleMsgs senderIsClient srng msgs) []
    (singleMsgs_fit senderIsClient msgs srng hfit) (fun x hx => by simp at hx) hne
  simpa [singleMsgs_payload] using this

/-! ## receiving anything at all -/

/-- **Hostile input can only close the connection.**  For *every* byte stream (malformed, truncated at
    any offset, reserved opcodes, any length field, any fragment sizes), either role, any generator state:
    reading until `closed()` ends with the connection closed; no masking loop (incoming frames, outgoing
    pongs) ever touched a byte outside its buffer; every result fits an `int`-indexed array (no negative or
    wrapped message length, also for fragments adding up beyond 2^31). -/
theorem hostile_safe (isClient : Bool) (rng : Rng) (inp : List UInt8) :
    let r := run { isClient := isClient, rng := rng, inp := inp }
    r.2.closed = true ∧ r.2.fault = false ∧ ∀ m ∈ r.1, m.length ≤ 2147483632 := by
  intro r
  have h := receiveAll_closes (inp.length + 1) { isClient := isClient, rng := rng, inp := inp } [] rfl (Or.inl (by simp))
  exact ⟨h.1, h.2, receiveAll_bounded _ _ [] (fun m hm => by simp at hm)⟩

/-- **Termination is real, not an artefact of the fuel**: the two loops of the model are started with
    `input length + 1` units of fuel; giving them any larger amount changes nothing, i.e. the fuel is
    never exhausted (each frame consumes at least two bytes, each `receive()` at least one or closes). -/
theorem fuel_irrelevant (c : Conn) (hf : c.fault = false) (extra : Nat) :
    recvLoop (c.inp.length + 1 + extra) c [] false = receive c ∧
    receiveAll (c.inp.length + 1 + extra) c [] = run c := by
  induction extra with
  | zero => exact ⟨rfl, rfl⟩
  | succ n ih =>
    constructor
    · rw [← ih.1, ← Nat.add_assoc, ← recvLoop_fuel _ c [] false (by omega)]
    · rw [← ih.2, ← Nat.add_assoc, ← receiveAll_fuel _ c [] hf (Or.inl (by omega))]

/-- the masking loop of `send()` never leaves its buffer: `sendFrame` always returns the bytes -/
theorem send_in_bounds (isClient : Bool) (rng : Rng) (type : Nat) (p : List UInt8) :
    (sendFrame isClient rng type p).isSome = true := sendFrame_isSome isClient rng type p

/-- no frame reader step and no `receive()` loop ever reports a masking loop outside its buffer -/
theorem receive_in_bounds (msgLen : Nat) (inp : List UInt8) (isClient : Bool) (rng : Rng) :
    readFrame msgLen inp ≠ .fault ∧ (run { isClient := isClient, rng := rng, inp := inp }).2.fault = false :=
  ⟨readFrame_no_fault msgLen inp, (hostile_safe isClient rng inp).2.1⟩

/-- **Memory asked for is bounded by what has arrived** (the defect repaired in d2a7e85): while reading a
    frame that announces `len` payload bytes with `avail` bytes left in the stream, every length passed to
    `buffer.resize` is at most `2 * avail + 65536` (and at most `len`), and the payload is accepted exactly when
    `len ≤ avail`.  A 10-byte header announcing 2 GiB makes the library ask for 64 KiB, not 2 GiB.
    (With `Array`'s doubling growth the capacity is at most twice the requested length; the masking step
    asks for `len + 4` only after all `len` bytes have arrived.) -/
theorem allocation_bounded_by_received (len avail : Nat) :
    (readPayload (len + 1) len 0 avail 0).1 = decide (len ≤ avail) ∧
    (readPayload (len + 1) len 0 avail 0).2 ≤ 2 * avail + 65536 ∧ (readPayload (len + 1) len 0 avail 0).2 ≤ len := by
  obtain ⟨h1, h2, _⟩ := readPayload_spec (len + 1) len 0 avail 0 (by omega) (by omega) (by omega)
  have hc : recvChunk = 65536 := rfl
  rw [hc] at h2
  exact ⟨h1, by omega, by omega⟩

/-- **A message whose fragments add up beyond 2^31 − 16 bytes is refused** (the defect repaired in
    d352fb1; the sum used to wrap to a negative `int`): with `msgLen` bytes accumulated, a data frame
    (opcode 0, 1, 2) announcing more than `2^31 − 16 − msgLen` bytes (itself within the frame limit) closes the connection before a single
    payload byte is read; control frames are not affected. -/
theorem oversized_message_refused (fin : Bool) (op : Nat) (hop : op < 3) (key : Option Rfc6455.Key) (p rest : List UInt8)
    (hp : Fits p) (msgLen : Nat) (hmsg : msgLen ≤ 2147483632) (hsum : msgLen + p.length > 2147483632) :
    readFrame msgLen (Rfc6455.frame fin op key p ++ rest) = .close := by
  cases h : readFrame msgLen (Rfc6455.frame fin op key p ++ rest) with
  | close => rfl
  | fault => exact absurd h (readFrame_no_fault _ _)
  | ok f o b r =>
    exfalso
    obtain ⟨_, _, hs⟩ := readFrame_ok_props _ _ _ _ _ _ h
    -- the frame that was read is this frame: compare with the reader that has nothing accumulated
    rcases readFrame_mono msgLen (Rfc6455.frame fin op key p ++ rest) with h0 | h0
    · rw [h0] at h; exact absurd h (by simp)
    · rw [h] at h0
      have hfull := readFrame_frame fin op (by omega) key p hp rest 0 (fun _ => by have : p.length ≤ 2147483632 := hp; omega)
      rw [hfull] at h0
      simp only [Frame.ok.injEq] at h0
      obtain ⟨_, ho, hbb, _⟩ := h0
      rw [ho] at hs
      have := hs hop
      rw [hbb] at this
      omega

/-- **No negative or wrapped length.**  Whatever the header bytes are, a length that reaches
    `buffer.resize(len)` is the declared one (7-bit, 16-bit or 64-bit big-endian field), lies in
    `[0, 2^31 − 16]` — so `len + 4` cannot overflow an `int` — and the bytes left are a suffix of the input.
    64-bit fields with bit 63 set, with a non-zero high word or with bit 31 of the low word set never get
    here (they close the connection). -/
theorem length_never_negative (b0 mlen : UInt8) (inp : List UInt8) (fin : Bool) (op : Nat) (masked : Bool)
    (len : Int) (mask : Nat) (rest : List UInt8) (h : parseExt b0 mlen inp = .ok fin op masked len mask rest) :
    0 ≤ len ∧ len + 4 < 2 ^ 31 ∧ rest.length ≤ inp.length ∧
      len = (let l7 := mlen.toNat % 128
             if l7 = 126 then (beVal (inp.take 2) : Int) else if l7 = 127 then (beVal (inp.take 8) : Int) else (l7 : Int)) := by
  obtain ⟨h0, h1, h2, h3⟩ := parseExt_ok b0 mlen inp fin op masked len mask rest h
  refine ⟨h0, by omega, h2, ?_⟩
  simpa [lenMask, recvCode16, recvCode64, and127] using h3

/-- a 64-bit length with the sign bit of its low word set, e.g. `82 7F 00000000 80000000` (the frame that
    used to produce a negative array length), is refused -/
theorem len64_low_sign_bit_refused (b0 : UInt8) (hi lo : Nat) (hhi : hi < 2 ^ 32) (hlo : 2 ^ 31 ≤ lo) (hlo' : lo < 2 ^ 32)
    (tail : List UInt8) :
    parseExt b0 127 (Rfc6455.net64 (hi * 2 ^ 32 + lo) ++ tail) = .close := by
  have hbig : hi * 2 ^ 32 + lo > 2147483632 := by omega
  have hlt : hi * 2 ^ 32 + lo < 2 ^ 64 := by
    have : hi * 2 ^ 32 ≤ (2 ^ 32 - 1) * 2 ^ 32 := Nat.mul_le_mul_right _ (by omega)
    omega
  generalize hi * 2 ^ 32 + lo = v at hbig hlt
  have hv : beVal (Rfc6455.net64 v) = v := beVal_net64 v hlt
  have htake : (Rfc6455.net64 v ++ tail).take 8 = Rfc6455.net64 v := List.take_left' rfl
  have h127 : ((127 : UInt8).toNat &&& lenMask) = 127 := by
    simp only [lenMask, and127]; rfl
  cases h : parseExt b0 127 (Rfc6455.net64 v ++ tail) with
  | close => rfl
  | ok fin op masked len mask rest =>
    obtain ⟨_, h1, _, h3⟩ := parseExt_ok b0 127 _ fin op masked len mask rest h
    simp only [h127, recvCode16, recvCode64, htake, hv] at h3
    rw [if_pos trivial] at h3
    omega

/-! ## truncation -/

/-- frames are self-delimiting: what the frame reader returns for a frame does not depend on the bytes
    that follow it -/
theorem frames_self_delimiting (msgLen : Nat) (inp more : List UInt8) (fin : Bool) (op : Nat) (buf rest : List UInt8)
    (h : readFrame msgLen inp = .ok fin op buf rest) : readFrame msgLen (inp ++ more) = .ok fin op buf (rest ++ more) :=
  readFrame_append msgLen inp more fin op buf rest h

/-- **A frame cut short is never delivered** (the defect repaired in 7971835): for every RFC frame — any
    opcode, masked or not, any payload up to 2^31 − 16 bytes — and every cut offset inside it, the frame
    reader answers "close": no buffer, no uninitialised bytes, nothing echoed in a pong. -/
theorem truncated_frame_not_delivered (fin : Bool) (op : Nat) (hop : op < 16) (key : Option Rfc6455.Key) (p : List UInt8)
    (hl : Fits p) (k : Nat) (hk : k < (Rfc6455.frame fin op key p).length) (msgLen : Nat) :
    readFrame msgLen ((Rfc6455.frame fin op key p).take k) = .close :=
  truncated_frame_close fin op hop key p hl k hk msgLen

/-- **Cut inside the first frame of a message (or inside a control frame between messages), at any offset**:
    the complete messages before the cut are delivered intact, once, in order; the cut frame yields
    nothing; the connection ends closed. -/
theorem truncation_partial (isClient : Bool) (rng : Rng) (ms : List Rfc6455.Msg) (cs : List Rfc6455.Ctl)
    (fin : Bool) (op : Nat) (hop : op < 16) (key : Option Rfc6455.Key) (p : List UInt8) (k : Nat)
    (hfit : ∀ m ∈ ms, MsgFits m) (hcs : CtlsFit cs) (hp : Fits p) (hne : ∀ m ∈ ms, m.payload ≠ [])
    (hk0 : 0 < k) (hk : k < (Rfc6455.frame fin op key p).length) :
    let r := run { isClient := isClient, rng := rng,
                   inp := ms.flatMap Rfc6455.Msg.bytes ++ (Rfc6455.ctlBytes cs ++ (Rfc6455.frame fin op key p).take k) }
    r.1.filter (· ≠ []) = ms.map (·.payload) ∧ r.2.closed = true ∧ r.2.fault = false := by
  intro r
  obtain ⟨extra, c', h1, h2, h3, h4⟩ := receiveAll_cut ms cs fin op hop key p k
    { isClient := isClient, rng := rng, inp := ms.flatMap Rfc6455.Msg.bytes ++ (Rfc6455.ctlBytes cs ++ (Rfc6455.frame fin op key p).take k) }
    ⟨rfl, rfl⟩ hfit hcs hp hk0 hk rfl
  have hr : r = (extra, c') := h1
  have hall : (ms.map (·.payload)).filter (· ≠ []) = ms.map (·.payload) := by
    apply List.filter_eq_self.mpr
    intro q hq
    obtain ⟨m, hm, rfl⟩ := List.mem_map.mp hq
    simpa using hne m hm
  rw [hr]
  exact ⟨by rw [← hall, ← h2], h3, h4⟩

/-- **Cut inside a message after its first frame** — inside a continuation frame, or inside a control
    frame injected between fragments, at any offset: the complete messages before it are delivered intact,
    once, in order; nothing of the interrupted message is delivered — neither the frame that was cut nor the
    fragments `m.first`, `t1` that had arrived whole (repaired in 81c34a7: they used to be returned as a
    message); the connection ends closed. -/
theorem truncation_inside_message (isClient : Bool) (rng : Rng) (ms : List Rfc6455.Msg) (m : Rfc6455.Msg)
    (t1 : List Rfc6455.Frag) (cs : List Rfc6455.Ctl) (fin : Bool) (op : Nat) (hop : op < 16) (key : Option Rfc6455.Key)
    (p : List UInt8) (k : Nat)
    (hfit : ∀ x ∈ ms, MsgFits x) (hne : ∀ x ∈ ms, x.payload ≠ []) (hfirst : FragFits m.first) (ht1 : ∀ f ∈ t1, FragFits f)
    (htot : m.first.payload.length + (t1.flatMap (·.payload)).length ≤ 2147483632)
    (hcs : CtlsFit cs) (hp : Fits p) (hk0 : 0 < k) (hk : k < (Rfc6455.frame fin op key p).length) :
    let r := run { isClient := isClient, rng := rng,
                   inp := ms.flatMap Rfc6455.Msg.bytes ++ (Rfc6455.ctlBytes m.first.before ++
                     (Rfc6455.frame false (msgOp m) m.first.key m.first.payload ++ (Rfc6455.openBytes t1 ++
                       (Rfc6455.ctlBytes cs ++ (Rfc6455.frame fin op key p).take k)))) }
    r.1.filter (· ≠ []) = ms.map (·.payload) ∧ r.2.closed = true ∧ r.2.fault = false := by
  intro r
  obtain ⟨extra, c', h1, h2, h3, h4⟩ := receiveAll_cut_inside ms m t1 cs fin op hop key p k
    { isClient := isClient, rng := rng,
      inp := ms.flatMap Rfc6455.Msg.bytes ++ (Rfc6455.ctlBytes m.first.before ++
        (Rfc6455.frame false (msgOp m) m.first.key m.first.payload ++ (Rfc6455.openBytes t1 ++
          (Rfc6455.ctlBytes cs ++ (Rfc6455.frame fin op key p).take k)))) }
    ⟨rfl, rfl⟩ hfit hfirst ht1 htot hcs hp hk0 hk rfl
  have hr : r = (extra, c') := h1
  have hall : (ms.map (·.payload)).filter (· ≠ []) = ms.map (·.payload) := by
    apply List.filter_eq_self.mpr
    intro q hq
    obtain ⟨x, hx, rfl⟩ := List.mem_map.mp hq
    simpa using hne x hx
  rw [hr]
  exact ⟨by rw [h2, hall], h3, h4⟩

/-- **A frame at which the connection is given up, anywhere in a conversation.**  `Terminal tail` (AslProofs): on
    `tail` the reader returns an empty message and closes, whatever it had accumulated.  Then, both when `tail`
    comes between messages (after any control frames) and when it comes inside a message `m` after its first
    frame, any open continuation frames `t1` and any control frames: exactly the complete messages before it
    are delivered, intact, once, in order; nothing of the interrupted message; closed; no fault. -/
theorem terminal_anywhere (isClient : Bool) (rng : Rng) (ms : List Rfc6455.Msg) (cs : List Rfc6455.Ctl)
    (tail : List UInt8) (ht : Terminal tail)
    (hfit : ∀ x ∈ ms, MsgFits x) (hne : ∀ x ∈ ms, x.payload ≠ []) (hcs : CtlsFit cs) :
    (let r := run { isClient := isClient, rng := rng, inp := ms.flatMap Rfc6455.Msg.bytes ++ (Rfc6455.ctlBytes cs ++ tail) }
     r.1.filter (· ≠ []) = ms.map (·.payload) ∧ r.2.closed = true ∧ r.2.fault = false) ∧
    (∀ (m : Rfc6455.Msg) (t1 : List Rfc6455.Frag), FragFits m.first → (∀ f ∈ t1, FragFits f) →
      m.first.payload.length + (t1.flatMap (·.payload)).length ≤ 2147483632 →
      let r := run { isClient := isClient, rng := rng,
                     inp := ms.flatMap Rfc6455.Msg.bytes ++ (Rfc6455.ctlBytes m.first.before ++
                       (Rfc6455.frame false (msgOp m) m.first.key m.first.payload ++ (Rfc6455.openBytes t1 ++
                         (Rfc6455.ctlBytes cs ++ tail)))) }
      r.1.filter (· ≠ []) = ms.map (·.payload) ∧ r.2.closed = true ∧ r.2.fault = false) := by
  have hall : (ms.map (·.payload)).filter (· ≠ []) = ms.map (·.payload) := by
    apply List.filter_eq_self.mpr
    intro q hq
    obtain ⟨x, hx, rfl⟩ := List.mem_map.mp hq
    simpa using hne x hx
  constructor
  · intro r
    obtain ⟨extra, c', h1, h2, h3, h4⟩ := receiveAll_terminal ms cs tail ht
      { isClient := isClient, rng := rng, inp := ms.flatMap Rfc6455.Msg.bytes ++ (Rfc6455.ctlBytes cs ++ tail) } ⟨rfl, rfl⟩ hfit hcs rfl
    have hr : r = (extra, c') := h1
    rw [hr]; exact ⟨by rw [h2, hall], h3, h4⟩
  · intro m t1 hfirst ht1 htot r
    obtain ⟨extra, c', h1, h2, h3, h4⟩ := receiveAll_terminal_inside ms m t1 cs tail ht
      { isClient := isClient, rng := rng,
        inp := ms.flatMap Rfc6455.Msg.bytes ++ (Rfc6455.ctlBytes m.first.before ++
          (Rfc6455.frame false (msgOp m) m.first.key m.first.payload ++ (Rfc6455.openBytes t1 ++ (Rfc6455.ctlBytes cs ++ tail)))) }
      ⟨rfl, rfl⟩ hfit hfirst ht1 htot hcs rfl
    have hr : r = (extra, c') := h1
    rw [hr]; exact ⟨by rw [h2, hall], h3, h4⟩

/-- **A reserved opcode fails the connection and never ends or splits a message** (repaired in 3e00d94): a frame
    with opcode 3..7 or 11..15 — any FIN, masked or not, any payload that fits, followed by anything — is
    `Terminal`; with `terminal_anywhere`: between messages or between the fragments of a message, exactly the
    complete messages before it are delivered (`01 03 abc`, `83 00`, `80 03 def` delivers nothing, not "abc" and "def"). -/
theorem reserved_opcode_fails_connection (fin : Bool) (op : Nat) (hop : op < 16)
    (hres : op ≠ 0 ∧ op ≠ 1 ∧ op ≠ 2 ∧ op ≠ 8 ∧ op ≠ 9 ∧ op ≠ 10) (key : Option Rfc6455.Key) (p : List UInt8) (hp : Fits p)
    (rest : List UInt8) : Terminal (Rfc6455.frame fin op key p ++ rest) :=
  terminal_reserved fin op hop hres key p hp rest

/-- **A Close frame with fewer than two payload bytes delivers nothing** (repaired in 10948e4), also when it arrives
    between the fragments of a message: it is `Terminal` (`01 03 abc`, `88 00` delivers nothing, not "abc"). -/
theorem short_close_delivers_nothing (fin : Bool) (key : Option Rfc6455.Key) (p : List UInt8) (hp : p.length < 2)
    (rest : List UInt8) : Terminal (Rfc6455.frame fin 8 key p ++ rest) :=
  terminal_short_close fin key p hp rest

/-- a frame cut short is `Terminal` too (this is how `truncation_partial` / `truncation_inside_message` follow) -/
theorem cut_frame_is_terminal (fin : Bool) (op : Nat) (hop : op < 16) (key : Option Rfc6455.Key) (p : List UInt8) (hp : Fits p)
    (k : Nat) (hk0 : 0 < k) (hk : k < (Rfc6455.frame fin op key p).length) : Terminal ((Rfc6455.frame fin op key p).take k) :=
  terminal_cut fin op hop key p hp k hk0 hk

/-- the single statement for a cut at *any* byte offset `k` of a conversation: the non-empty results are
    exactly the payloads of the first `n` messages, for some `n`.  Proved below (`truncation_full_holds`) from prefix
    monotonicity of the reader (`delivered_prefix_monotone`), `messages_intact` and `hostile_safe`; the theorems above say
    *which* `n` for each class of cut position (inside a frame, at a frame boundary inside a message). -/
def truncation_full : Prop :=
  ∀ (isClient : Bool) (rng : Rng) (ms : List Rfc6455.Msg) (trailing : List Rfc6455.Ctl) (k : Nat),
    (∀ m ∈ ms, MsgFits m) → CtlsFit trailing → (∀ m ∈ ms, m.payload ≠ []) →
    let r := run { isClient := isClient, rng := rng, inp := (Rfc6455.wire ms trailing).take k }
    ∃ (n : Nat), n ≤ ms.length ∧ r.1.filter (· ≠ []) = (ms.take n).map (·.payload) ∧
      r.2.closed = true ∧ r.2.fault = false

/-- **Cutting a stream never changes what was delivered before the cut** — for *every* byte stream `s` (well-formed or hostile)
    and every continuation `t`, either role: the non-empty results of reading `s` until `closed()` are a prefix of the non-empty
    results of reading `s ++ t`.  (A `receive()` on `s` either gives up with an empty result, or does exactly what it does on
    `s ++ t`: `AslProofs.WebSocket.recvLoop_ext`, from `frames_self_delimiting`.) -/
theorem delivered_prefix_monotone (isClient : Bool) (rng : Rng) (s t : List UInt8) :
    ∃ more, (run { isClient := isClient, rng := rng, inp := s ++ t }).1.filter (· ≠ []) =
      (run { isClient := isClient, rng := rng, inp := s }).1.filter (· ≠ []) ++ more := by
  have h1 := (fuel_irrelevant { isClient := isClient, rng := rng, inp := s } rfl t.length).2
  have h2 : run { isClient := isClient, rng := rng, inp := s ++ t } =
      receiveAll (s.length + 1 + t.length) (ext { isClient := isClient, rng := rng, inp := s } t) [] := by
    unfold run ext
    have : (s ++ t).length + 1 = s.length + 1 + t.length := by simp; omega
    simp only [this]
  rw [h2, ← h1]
  exact receiveAll_ext _ _ [] t rfl

/-- **`truncation_full` holds**: a connection cut at ANY byte offset `k` of any conversation (any messages, any fragmentation,
    control frames anywhere, any keys, both roles) delivers exactly the first `n` messages for some `n`, intact, once, in order —
    never a partial or altered message — and ends closed without a masking loop having left its buffer. -/
theorem truncation_full_holds : truncation_full := by
  intro isClient rng ms trailing k hfit hctl hne r
  have hr : r = run { isClient := isClient, rng := rng, inp := (Rfc6455.wire ms trailing).take k } := rfl
  clear_value r
  subst hr
  obtain ⟨more, hmore⟩ := delivered_prefix_monotone isClient rng ((Rfc6455.wire ms trailing).take k) ((Rfc6455.wire ms trailing).drop k)
  rw [List.take_append_drop] at hmore
  have hmi := (messages_intact isClient rng ms trailing hfit hctl hne).1
  have hs := hostile_safe isClient rng ((Rfc6455.wire ms trailing).take k)
  rw [hmi] at hmore
  refine ⟨((run { isClient := isClient, rng := rng, inp := (Rfc6455.wire ms trailing).take k }).1.filter (· ≠ [])).length, ?_, ?_, hs.1, hs.2.1⟩
  · have := congrArg List.length hmore
    simp only [List.length_map, List.length_append] at this
    omega
  · rw [List.map_take, hmore, List.take_left']
    rfl

-- the hypotheses are those of `messages_intact` (satisfiable: the `MsgFits` example at the end of the file); a cut conversation:
example : (run { isClient := false, rng := ⟨1, 2, 3, 4⟩, inp := ([0x81, 1, 0x61, 0x01, 3, 0x61, 0x62, 0x63, 0x80, 1, 0x64] : List UInt8).take 9 }).1.filter (· ≠ []) = [[0x61]] := by decide

/-! ## handshake -/

/-- **The accept key is the one RFC 6455 prescribes**: the value the server puts into
    `Sec-WebSocket-Accept` is base64(SHA-1(key ‖ GUID)) with the RFC 4648 alphabet (C15 `base64_rfc`), the
    RFC 6455 GUID (regenerated from the source) and SHA-1 as specified in FIPS 180-4
    (`AslProofs.Sha1.hash_eq_fips`: the library's streaming SHA-1 = the FIPS function, for every message) -/
theorem accept_key_rfc (key : List UInt8) :
    acceptKey key = C15.Rfc.base64 (AslModel.Sha1.Fips.sha1 (key ++ Rfc6455.guid)) := by
  unfold acceptKey
  rw [C15.base64_rfc, guid_is_rfc, AslProofs.Sha1.hash_eq_fips]

/-- the example of RFC 6455 §1.3: key `dGhlIHNhbXBsZSBub25jZQ==` gives `s3pPLMBiTxaQ9kYGzzhZRbK+xOo=`
    (evaluated by the kernel through the model the driver runs) -/
theorem accept_key_rfc_sample :
    acceptKey [100, 71, 104, 108, 73, 72, 78, 104, 98, 88, 66, 115, 90, 83, 66, 117, 98, 50, 53, 106, 90, 81, 61, 61]
      = [115, 51, 112, 80, 76, 77, 66, 105, 84, 120, 97, 81, 57, 107, 89, 71, 122, 122, 104, 90, 82, 98, 75, 43, 120, 79, 111, 61] := by
  decide +kernel

/-- **The key the server hashes is the header's field value** (RFC 7230 §3.2: `field-name ":" OWS field-value
    OWS`): for any header name and any non-empty value without blanks at its ends, with any number of
    spaces/tabs — none included — after the colon and at the end of the line, the header line yields exactly
    that value under the capitalised name.  (Repaired in c7d7110: the value used to be taken from two bytes
    after the colon, so `Sec-WebSocket-Key:<key>` lost its first byte and the accept key was wrong.) -/
theorem header_value_is_field_value (name ows1 v ows2 : List UInt8)
    (hn : ∀ x ∈ name, x ≠ 58 ∧ isSp x = false)
    (h1 : ∀ x ∈ ows1, isSp x = true) (h2 : ∀ x ∈ ows2, isSp x = true) (hv : v ≠ [])
    (hv1 : ∀ x, v.head? = some x → isSp x = false) (hv2 : ∀ x, v.getLast? = some x → isSp x = false) :
    headerField (name ++ [58] ++ ows1 ++ v ++ ows2) = some (capName true name, v) :=
  headerField_ows name ows1 v ows2 hn h1 h2 hv hv1 hv2

/-- the request of RFC 6455 §1.2 with **no** space after the colons (and one with three) is answered with
    the RFC's accept key: the whole server handshake of the model, evaluated by the kernel.
    These are two instances; the general statement is `server_handshake_general` below (second extension round): for every
    request line with two blanks and every well-formed header list containing `Upgrade: websocket`, a `Connection`
    list including `Upgrade` and `Sec-WebSocket-Key: k` (any name case, any optional whitespace),
    `serverHandshake req = serverResponse k hasProtocol` — by induction over `readHeaders`/`setHeader` from
    `header_value_is_field_value`.  Requests that are not well-formed rest on the correspondence check (`hs` op, 160
    generated requests per quick run, python oracle for the well-formed ones). -/
theorem handshake_without_space_sample :
    serverHandshake ("GET /chat HTTP/1.1\r\nHost:server.example.com\r\nUpgrade:websocket\r\nConnection:Upgrade\r\nSec-WebSocket-Key:dGhlIHNhbXBsZSBub25jZQ==\r\nSec-WebSocket-Version:13\r\n\r\n".toList.map (fun c => UInt8.ofNat c.toNat))
      = serverResponse [100, 71, 104, 108, 73, 72, 78, 104, 98, 88, 66, 115, 90, 83, 66, 117, 98, 50, 53, 106, 90, 81, 61, 61] false ∧
    serverHandshake ("GET /chat HTTP/1.1\r\nUpgrade:   websocket  \r\nConnection: keep-alive, Upgrade\r\nsec-websocket-key:   dGhlIHNhbXBsZSBub25jZQ==\t\r\n\r\n".toList.map (fun c => UInt8.ofNat c.toNat))
      = serverResponse [100, 71, 104, 108, 73, 72, 78, 104, 98, 88, 66, 115, 90, 83, 66, 117, 98, 50, 53, 106, 90, 81, 61, 61] false := by
  constructor <;> decide +kernel

/-- the response is the status line and headers RFC 6455 §4.2.2 asks for
    (`HTTP/1.1 101 Switching Protocols`, `Upgrade: websocket`, `Connection: Upgrade`, `Sec-WebSocket-Accept: `),
    then the accept value, CRLF, optionally a protocol line, and the empty line -/
theorem server_response_shape (key : List UInt8) (proto : Bool) :
    ∃ post, serverResponse key proto = [
      72, 84, 84, 80, 47, 49, 46, 49, 32, 49, 48, 49, 32, 83, 119, 105, 116, 99, 104, 105, 110, 103, 32, 80,
      114, 111, 116, 111, 99, 111, 108, 115, 13, 10, 85, 112, 103, 114, 97, 100, 101, 58, 32, 119, 101, 98, 115, 111,
      99, 107, 101, 116, 13, 10, 67, 111, 110, 110, 101, 99, 116, 105, 111, 110, 58, 32, 85, 112, 103, 114, 97, 100,
      101, 13, 10, 83, 101, 99, 45, 87, 101, 98, 83, 111, 99, 107, 101, 116, 45, 65, 99, 99, 101, 112, 116, 58,
      32] ++ acceptKey key ++ [13, 10] ++ post ∧
      post.drop (post.length - 2) = [13, 10] := by
  refine ⟨(if proto then responseProtocol else []) ++ [13, 10], ?_, ?_⟩
  · have : responseHead = [
      72, 84, 84, 80, 47, 49, 46, 49, 32, 49, 48, 49, 32, 83, 119, 105, 116, 99, 104, 105, 110, 103, 32, 80,
      114, 111, 116, 111, 99, 111, 108, 115, 13, 10, 85, 112, 103, 114, 97, 100, 101, 58, 32, 119, 101, 98, 115, 111,
      99, 107, 101, 116, 13, 10, 67, 111, 110, 110, 101, 99, 116, 105, 111, 110, 58, 32, 85, 112, 103, 114, 97, 100,
      101, 13, 10, 83, 101, 99, 45, 87, 101, 98, 83, 111, 99, 107, 101, 116, 45, 65, 99, 99, 101, 112, 116, 58,
      32] := by decide
    simp [serverResponse, this]
  · cases proto <;> decide

/-! ## non-vacuity / sanity instances (tests, labelled as such) -/

-- the RFC 6455 §5.7 examples: unmasked "Hello", masked "Hello" with key 37 fa 21 3d
example : Rfc6455.frame true 1 none [72, 101, 108, 108, 111] = [0x81, 0x05, 0x48, 0x65, 0x6c, 0x6c, 0x6f] := by decide
example : Rfc6455.frame true 1 (some ⟨0x37, 0xfa, 0x21, 0x3d⟩) [72, 101, 108, 108, 111]
    = [0x81, 0x85, 0x37, 0xfa, 0x21, 0x3d, 0x7f, 0x9f, 0x4d, 0x51, 0x58] := by decide
-- a fragmented "Hello" ("Hel" + ping + "lo") is received as one message, the ping is answered
example : let r := run { isClient := false, rng := ⟨1, 2, 3, 4⟩,
                         inp := [0x01, 0x03, 0x48, 0x65, 0x6c, 0x89, 0x01, 0x70, 0x80, 0x02, 0x6c, 0x6f] }
    r.1 = [[72, 101, 108, 108, 111]] ∧ r.2.out = [0x8a, 0x01, 0x70] ∧ r.2.closed = true := by decide
-- the hypotheses of `messages_intact` are satisfiable with a 3-fragment masked message and control frames
example : MsgFits ⟨true, ⟨[⟨false, [1], none⟩], [1, 2], some ⟨0, 9, 0, 7⟩⟩, [⟨[⟨true, [], none⟩], [], none⟩, ⟨[], [3], none⟩]⟩ := by
  simp [MsgFits, FragFits, CtlsFit, Fits, Rfc6455.Msg.payload]
-- the frame that used to give a negative length closes the connection
example : (run { isClient := false, rng := ⟨1, 2, 3, 4⟩, inp := [0x82, 0x7f, 0, 0, 0, 0, 0x80, 0, 0, 0] }).1 = [[]] := by decide
-- a stream that ends between the fragments of a message delivers nothing of it (81c34a7) …
example : (run { isClient := false, rng := ⟨1, 2, 3, 4⟩, inp := [0x01, 0x03, 0x61, 0x62, 0x63] }).1 = [[]] := by decide
-- … but a final frame with an empty payload at the very end of the stream completes its message
example : (run { isClient := false, rng := ⟨1, 2, 3, 4⟩, inp := [0x01, 0x03, 0x61, 0x62, 0x63, 0x80, 0x00] }).1 = [[0x61, 0x62, 0x63]] := by decide
-- reserved opcode between fragments / short Close inside a message: nothing is delivered (3e00d94, 10948e4)
example : (run { isClient := false, rng := ⟨1, 2, 3, 4⟩, inp := [0x01, 3, 0x61, 0x62, 0x63, 0x83, 0, 0x80, 3, 0x64, 0x65, 0x66] }).1 = [[]] := by decide
example : (run { isClient := false, rng := ⟨1, 2, 3, 4⟩, inp := [0x01, 3, 0x61, 0x62, 0x63, 0x88, 0] }).1 = [[]] := by decide
-- a frame cut inside its payload is not delivered
example : (run { isClient := false, rng := ⟨1, 2, 3, 4⟩, inp := [0x81, 0x14, 0x61, 0x62, 0x63] }).1 = [[]] := by decide

/-! ## a cut exactly at a frame boundary inside a fragmented message -/

/-- a complete open data frame (FIN clear: first or continuation frame) followed by the end of the stream is `TerminalP`
    (AslProofs/WebSocketCut.lean): the frame is consumed — or refused when it takes the message past the limit — and a reader
    gives up with an empty result, closed, when `closed()` then sees the end of the stream -/
theorem open_frame_then_eof (op : Nat) (hop : op ≤ 2) (key : Option Rfc6455.Key) (p : List UInt8) (hp : Fits p) :
    TerminalP (Rfc6455.frame false op key p) := terminalP_open_frame op hop key p hp

/-- the same for a complete ping or pong frame followed by the end of the stream, for a reader that is inside a message -/
theorem control_frame_then_eof (x : Rfc6455.Ctl) (hx : Fits x.payload) : TerminalP x.bytes := terminalP_ctl x hx

/-- **Cut exactly at a frame boundary inside a message, after the first frame**: the stream ends right after a whole open
    continuation frame or a whole control frame (`tail`, by the two theorems above) that follows the first frame of `m`, open
    continuation frames `t1` and control frames `cs`: exactly the complete messages before `m` are delivered, intact, once, in
    order; nothing of `m` (repaired in 81c34a7); closed; no fault. -/
theorem truncation_at_boundary_inside_message (isClient : Bool) (rng : Rng) (ms : List Rfc6455.Msg) (m : Rfc6455.Msg)
    (t1 : List Rfc6455.Frag) (cs : List Rfc6455.Ctl) (tail : List UInt8) (ht : TerminalP tail)
    (hfit : ∀ x ∈ ms, MsgFits x) (hne : ∀ x ∈ ms, x.payload ≠ []) (hfirst : FragFits m.first) (ht1 : ∀ f ∈ t1, FragFits f)
    (htot : m.first.payload.length + (t1.flatMap (·.payload)).length ≤ 2147483632) (hcs : CtlsFit cs) :
    let r := run { isClient := isClient, rng := rng,
                   inp := ms.flatMap Rfc6455.Msg.bytes ++ (Rfc6455.ctlBytes m.first.before ++
                     (Rfc6455.frame false (msgOp m) m.first.key m.first.payload ++ (Rfc6455.openBytes t1 ++
                       (Rfc6455.ctlBytes cs ++ tail)))) }
    r.1.filter (· ≠ []) = ms.map (·.payload) ∧ r.2.closed = true ∧ r.2.fault = false := by
  intro r
  have hall : (ms.map (·.payload)).filter (· ≠ []) = ms.map (·.payload) := by
    apply List.filter_eq_self.mpr
    intro q hq
    obtain ⟨x, hx, rfl⟩ := List.mem_map.mp hq
    simpa using hne x hx
  obtain ⟨extra, c', h1, h2, h3, h4⟩ := receiveAll_terminalP_inside ms m t1 cs tail ht
    { isClient := isClient, rng := rng,
      inp := ms.flatMap Rfc6455.Msg.bytes ++ (Rfc6455.ctlBytes m.first.before ++
        (Rfc6455.frame false (msgOp m) m.first.key m.first.payload ++ (Rfc6455.openBytes t1 ++ (Rfc6455.ctlBytes cs ++ tail)))) }
    ⟨rfl, rfl⟩ hfit hfirst ht1 htot hcs rfl
  have hr : r = (extra, c') := h1
  rw [hr]; exact ⟨by rw [h2, hall], h3, h4⟩

/-- **Cut exactly after the first frame of a fragmented message** (FIN clear, any control frames before it): the complete
    messages before it are delivered, nothing of the message that was begun; closed; no fault. -/
theorem truncation_after_first_frame (isClient : Bool) (rng : Rng) (ms : List Rfc6455.Msg) (cs : List Rfc6455.Ctl)
    (op : Nat) (hop : op ≤ 2) (key : Option Rfc6455.Key) (p : List UInt8) (hp : Fits p)
    (hfit : ∀ x ∈ ms, MsgFits x) (hne : ∀ x ∈ ms, x.payload ≠ []) (hcs : CtlsFit cs) :
    let r := run { isClient := isClient, rng := rng,
                   inp := ms.flatMap Rfc6455.Msg.bytes ++ (Rfc6455.ctlBytes cs ++ Rfc6455.frame false op key p) }
    r.1.filter (· ≠ []) = ms.map (·.payload) ∧ r.2.closed = true ∧ r.2.fault = false := by
  intro r
  have hall : (ms.map (·.payload)).filter (· ≠ []) = ms.map (·.payload) := by
    apply List.filter_eq_self.mpr
    intro q hq
    obtain ⟨x, hx, rfl⟩ := List.mem_map.mp hq
    simpa using hne x hx
  obtain ⟨extra, c', h1, h2, h3, h4⟩ := receiveAll_first_frame_eof ms cs op hop key p hp
    { isClient := isClient, rng := rng, inp := ms.flatMap Rfc6455.Msg.bytes ++ (Rfc6455.ctlBytes cs ++ Rfc6455.frame false op key p) }
    ⟨rfl, rfl⟩ hfit hcs rfl
  have hr : r = (extra, c') := h1
  rw [hr]; exact ⟨by rw [h2, hall], h3, h4⟩

-- `01 03 abc` `00 01 d` <end of stream>, and `01 03 abc` `89 01 p` <end of stream>: nothing is delivered
example : TerminalP (Rfc6455.frame false 0 none [100]) := open_frame_then_eof 0 (by decide) none [100] (by simp [Fits])
example : (run { isClient := false, rng := ⟨1, 2, 3, 4⟩, inp := [0x01, 3, 0x61, 0x62, 0x63, 0x00, 1, 0x64] }).1 = [[]] := by decide
example : (run { isClient := false, rng := ⟨1, 2, 3, 4⟩, inp := [0x01, 3, 0x61, 0x62, 0x63, 0x89, 1, 0x70] }).1 = [[]] := by decide

/-! ## replies to control frames -/

/-- **The pong carries the ping's payload**: for a ping frame with any non-empty payload (RFC 6455 §5.5 allows at most 125 bytes;
    proved for every length the library can hold, masked or not, both roles) `receive()` returns an empty result, leaves the
    connection open, and writes exactly one RFC frame: FIN, opcode 10, masked with the next key of its generator in the client
    role and unmasked in the server role, whose payload — as the frame reader decodes it — is the ping's payload.
    (An empty ping gets no pong: `send` returns for length 0 — outside_findings C11-3.) -/
theorem pong_echoes_ping (c : Conn) (hopen : c.closed = false) (hsound : c.fault = false)
    (key : Option Rfc6455.Key) (p rest : List UInt8) (hp : p ≠ []) (hl : Fits p)
    (hi : c.inp = Rfc6455.frame true 9 key p ++ rest) :
    (receive c).1 = [] ∧ (receive c).2.closed = false ∧ (receive c).2.inp = rest ∧
    (receive c).2.out = c.out ++ Rfc6455.frame true 10 (if c.isClient then some (Rfc6455.Key.ofValue c.rng.get.1) else none) p ∧
    readFrame 0 (Rfc6455.frame true 10 (if c.isClient then some (Rfc6455.Key.ofValue c.rng.get.1) else none) p) = .ok true 10 p [] := by
  have hc : Live c := ⟨hopen, hsound⟩
  have h := recv_ctl c.inp.length c hc [] false ⟨false, p, key⟩ rest hl (by simpa [Rfc6455.Ctl.bytes, Rfc6455.opPing] using hi)
  have hr : receive c = ([], afterCtl c false p rest) := by unfold receive; simpa using h
  have hrf := readFrame_frame true 10 (by decide) (if c.isClient then some (Rfc6455.Key.ofValue c.rng.get.1) else none) p hl [] 0 (fun h => absurd h (by decide))
  rw [List.append_nil] at hrf
  rw [hr]
  unfold afterCtl
  have hop : opcodeOf 10 = 10 := by decide
  cases hic : c.isClient <;> simp only [hic] at hrf
  · rw [sendFrame_server c.rng 10 p hp]
    simp [hopen, hop]; simpa using hrf
  · rw [sendFrame_client c.rng 10 p hp]
    simp [hopen, hop]; simpa using hrf

/-- **Close frame: status code and reason.**  A Close frame whose body is a 2-byte status code and any reason text, arriving at any
    moment (FIN or not, masked or not): `receive()` returns the reason, `code()` is the status code in network byte order, the
    connection is closed and nothing is written back (the library closes the socket without echoing a Close frame). -/
theorem close_code_and_reason (c : Conn) (hopen : c.closed = false) (hsound : c.fault = false)
    (fin : Bool) (key : Option Rfc6455.Key) (hi lo : UInt8) (reason rest : List UInt8) (hl : Fits (hi :: lo :: reason))
    (hinp : c.inp = Rfc6455.frame fin 8 key (hi :: lo :: reason) ++ rest) :
    (receive c).1 = reason ∧ (receive c).2.closed = true ∧ (receive c).2.code = hi.toNat * 256 + lo.toNat ∧
    (receive c).2.out = c.out ∧ (receive c).2.fault = false := by
  have hc : Live c := ⟨hopen, hsound⟩
  have hcode : hi.toNat <<< 8 ||| lo.toNat = hi.toNat * 256 + lo.toNat := by
    have := AslProofs.Bits.shl_or hi.toNat lo.toNat 8 (by have := lo.toNat_lt; omega)
    simpa using this
  unfold receive
  rw [recvLoop, isClosed_frame c hc _ rest (frame_ne_nil fin 8 key _) hinp, hinp,
    readFrame_frame fin 8 (by decide) key _ hl rest _ (fun h => absurd h (by decide))]
  simp [hcode, hsound]

/-! ## client handshake -/

/-- RFC 6455 §4.1 item 7: the `Sec-WebSocket-Key` that `connect` sends is the RFC 4648 base64 text of a 16-byte nonce -/
theorem client_key_is_base64_of_16_bytes (rng : Rng) :
    ∃ nonce : List UInt8, nonce.length = 16 ∧ (clientKey rng).1 = C15.Rfc.base64 nonce := by
  refine ⟨(clientNonce nonceLen rng).1, ?_, ?_⟩
  · rw [clientNonce_length]; rfl
  · unfold clientKey; simp only; rw [C15.base64_rfc]


/-- the request `connect` writes is the text of the source (regenerated) around path, host, port and that key; it ends with
    the empty line -/
theorem client_request_shape (rng : Rng) (path host port : List UInt8) (resp : List UInt8) :
    (clientConnect rng path host port resp).1 =
      reqGet ++ path ++ reqHost ++ host ++ reqColon ++ port ++ reqKey ++ (clientKey rng).1 ++ reqTail ∧
    reqTail.drop (reqTail.length - 4) = [13, 10, 13, 10] := ⟨rfl, by decide⟩

/-- **The client accepts the library server's answer for every key** (with or without the protocol line): both handshakes compose. -/
theorem client_accepts_library_server (key : List UInt8) (proto : Bool) : clientAccepts (serverResponse key proto) = true :=
  client_accepts_any_accept_value (acceptKey key) proto (encodeBase64_no_lf _)

/-- RFC 6455 §4.1: the client must fail the connection unless `Sec-WebSocket-Accept` is the accept key of the key it sent.
    As a statement about `connect`: among the answers of the server's shape, exactly those carrying the accept key are accepted. -/
def client_checks_accept_full : Prop :=
  ∀ (key acc : List UInt8) (proto : Bool), (∀ b ∈ acc, b ≠ 10) → (clientAccepts (answerWith acc proto) = true ↔ acc = acceptKey key)

/-- `connect` never looks at `Sec-WebSocket-Accept`: a 101 answer with `Upgrade: websocket` and `Connection: Upgrade` is accepted
    whatever stands in the accept line.  (Recorded as outside_findings C11-r3-2b, not repaired: the property requires the key the
    library *produces* to be the RFC's — `accept_key_rfc` — and no message is lost or altered by the missing test; replayed on the
    real library by the `chs` op with wrong and missing keys.) -/
theorem client_ignores_accept_value (acc : List UInt8) (proto : Bool) (hacc : ∀ b ∈ acc, b ≠ 10) :
    clientAccepts (answerWith acc proto) = true := client_accepts_any_accept_value acc proto hacc

theorem client_checks_accept_counterexample : ¬ client_checks_accept_full := by
  intro h
  have h1 := (h [] [120] false (by decide)).mp (client_accepts_any_accept_value [120] false (by decide))
  have h2 := (h [] [121] false (by decide)).mp (client_accepts_any_accept_value [121] false (by decide))
  rw [← h2] at h1
  exact absurd h1 (by decide)

-- hypotheses are satisfiable: a ping of 3 bytes to a server-role connection, a close frame with code 1001 and a reason
example : (receive { isClient := false, rng := ⟨1, 2, 3, 4⟩, inp := Rfc6455.frame true 9 none [1, 2, 3] }).2.out = [0x8a, 3, 1, 2, 3] := by decide
example : (receive { isClient := false, rng := ⟨1, 2, 3, 4⟩, inp := Rfc6455.frame true 8 none [3, 233, 98, 121] }).2.code = 1001 := by decide
example : ∀ b ∈ ([120] : List UInt8), b ≠ 10 := by decide

/-- **`connect` requires the status 101**: an answer whose status line is `version SP status SP text` with any other status
    (whatever follows) is refused. -/
theorem client_requires_status_101 (version status text rest : List UInt8)
    (hv : ∀ b ∈ version, b ≠ 32 ∧ b ≠ 10) (hs : ∀ b ∈ status, b ≠ 32 ∧ b ≠ 10) (ht : ∀ b ∈ text, b ≠ 10)
    (h101 : status ≠ str101) :
    clientAccepts ((version ++ 32 :: (status ++ 32 :: text)) ++ 10 :: rest) = false := by
  have hline : ∀ b ∈ version ++ 32 :: (status ++ 32 :: text), b ≠ 10 := by
    intro b hb
    simp only [List.mem_append, List.mem_cons] at hb
    rcases hb with hb | hb | hb | hb | hb
    · exact (hv b hb).2
    · rw [hb]; decide
    · exact (hs b hb).2
    · rw [hb]; decide
    · exact ht b hb
  have hv' : ∀ x ∈ version, (x != 32) = true := fun x hx => by simpa using (hv x hx).1
  have hs' : ∀ x ∈ status, (x != 32) = true := fun x hx => by simpa using (hs x hx).1
  unfold clientAccepts
  rw [readLine_line _ rest hline]
  simp only
  have e1 : (version ++ 32 :: (status ++ 32 :: text)).takeWhile (· != 32) = version := by
    rw [takeWhile_all_append _ _ _ hv']; simp
  have e2 : ((version ++ 32 :: (status ++ 32 :: text)).dropWhile (· != 32)).drop 1 = status ++ 32 :: text := by
    rw [dropWhile_all_append _ _ _ hv']; simp
  have e3 : (status ++ 32 :: text).takeWhile (· != 32) = status := by
    rw [takeWhile_all_append _ _ _ hs']; simp
  rw [e1, e2, e3]
  have hne : (status != str101) = true := by simpa using h101
  simp [hne]

/-- **… and the upgrade headers**: a 101 answer without header lines is refused. -/
theorem client_requires_upgrade_headers (rest : List UInt8) : clientAccepts (L0 ++ 10 :: ([13] ++ 10 :: rest)) = false := by
  unfold clientAccepts
  rw [readLine_line L0 _ (by decide)]
  simp only
  rw [if_neg (by decide), if_neg (by decide), if_neg (by decide)]
  have : (L0 ++ 10 :: ([13] ++ 10 :: rest)).length + 2 = rest.length + 37 + 1 := by simp [L0]
  rw [this, readHeadersRaw_end]
  decide

example : clientAccepts ([72, 84, 84, 80, 47, 49, 46, 49, 32, 50, 48, 48, 32, 79, 75, 13, 10, 13, 10]) = false := by decide
example : (∀ b ∈ ([50, 48, 48] : List UInt8), b ≠ 32 ∧ b ≠ 10) ∧ ([50, 48, 48] : List UInt8) ≠ str101 := by decide

/-- both handshakes end to end on a sample (evaluated by the kernel through the functions the driver runs): the request `connect`
    writes for `ws://h/chat` with the generator in state (1, 2, 3, 4) is answered by `WebSocketServer::serve` with the 101 response
    carrying the accept key of exactly the key the client drew, with the protocol line, and `connect` accepts that answer -/
theorem handshake_end_to_end_sample :
    let key := (clientKey ⟨1, 2, 3, 4⟩).1
    let req := clientRequest [47, 99, 104, 97, 116] [104] [56, 48] key
    key.length = 24 ∧ serverHandshake req = serverResponse key true ∧ clientAccepts (serverHandshake req) = true := by
  decide +kernel

/-! ## the server handshake on EVERY well-formed upgrade request (second extension round)

`handshake_without_space_sample` above are two instances; this is the general statement recorded there.  A request is
described by its parts (`AslProofs.WebSocketServerHs`): request line `method SP target SP version` (no blank inside method and
target, no LF), any list of header lines `name ":" OWS value OWS CR LF` (`ReqLine.WF`: RFC 7230 §3.2 — name without colon or
blank, value non-empty without LF and without a blank at either end, OWS = spaces and tabs, none included), the empty line, then
any bytes (the first frames).  `lastField ls k` is the value of the LAST line whose name capitalises to `k` (so names match in
any case, and a repeated header is decided by its last occurrence — `headers[name] = value`). -/

open AslProofs.WebSocketServerHs in
/-- **every well-formed upgrade request is answered with the RFC 6455 accept key of its `Sec-WebSocket-Key`**: if the last
    `Upgrade` line says `websocket`, the last `Connection` line lists `Upgrade` (split at `", "`) and the last key line carries
    `key`, the server writes exactly the 101 response for `key` — whose accept value is base64(SHA-1(key ‖ GUID)) as RFC 6455
    §4.2.2 defines it (RFC 4648 / FIPS 180-4 specifications) — with the protocol line iff a `Sec-WebSocket-Protocol` line is
    present, whatever other header lines there are, in any order, name case and optional whitespace, and whatever follows -/
theorem server_handshake_general (method target version : List UInt8) (ls : List ReqLine) (tail key conn : List UInt8)
    (hm : ∀ x ∈ method, x ≠ 32 ∧ x ≠ 10) (ht : ∀ x ∈ target, x ≠ 32 ∧ x ≠ 10) (hv : ∀ x ∈ version, x ≠ 10)
    (hwf : ∀ l ∈ ls, l.WF)
    (hup : lastField ls strUpgrade = some strWebsocket)
    (hconn : lastField ls strConnection = some conn) (hc : (splitCommaSp [] conn).contains strUpgrade = true)
    (hkey : lastField ls strKey = some key) :
    serverHandshake (upgradeRequest method target version ls tail) = serverResponse key (lastField ls strProtocol).isSome ∧
    serverResponse key (lastField ls strProtocol).isSome =
      responseHead ++ C15.Rfc.base64 (AslModel.Sha1.Fips.sha1 (key ++ Rfc6455.guid)) ++ [13, 10] ++
        (if (lastField ls strProtocol).isSome then responseProtocol else []) ++ [13, 10] := by
  constructor
  · rw [serverHandshake_wellformed method target version ls tail hm ht hv hwf]
    have hc' : strUpgrade ∈ splitCommaSp [] conn := by simpa using hc
    simp [hup, hconn, hc', hkey]
  · unfold serverResponse
    rw [accept_key_rfc]

open AslProofs.WebSocketServerHs in
/-- **anything else is refused with 400 and no accept key**: a well-formed request whose last `Upgrade` line is missing or
    is not exactly `websocket`, or whose last `Connection` line does not list `Upgrade`, gets `response400` (the
    `400 Bad Request` text regenerated from the source) -/
theorem server_handshake_refuses_non_upgrade (method target version : List UInt8) (ls : List ReqLine) (tail : List UInt8)
    (hm : ∀ x ∈ method, x ≠ 32 ∧ x ≠ 10) (ht : ∀ x ∈ target, x ≠ 32 ∧ x ≠ 10) (hv : ∀ x ∈ version, x ≠ 10)
    (hwf : ∀ l ∈ ls, l.WF)
    (hno : lastField ls strUpgrade ≠ some strWebsocket ∨
      (splitCommaSp [] ((lastField ls strConnection).getD [])).contains strUpgrade = false) :
    serverHandshake (upgradeRequest method target version ls tail) = response400 := by
  rw [serverHandshake_wellformed method target version ls tail hm ht hv hwf]
  rcases hno with h | h
  · cases hl : lastField ls strUpgrade with
    | none => simp
    | some v =>
      have : v ≠ strWebsocket := fun e => h (by rw [hl, e])
      simp [this]
  · have h' : strUpgrade ∉ splitCommaSp [] ((lastField ls strConnection).getD []) := by
      intro hm'
      have : (splitCommaSp [] ((lastField ls strConnection).getD [])).contains strUpgrade = true := by simpa using hm'
      rw [h] at this; exact Bool.noConfusion this
    simp [h']

open AslProofs.WebSocketServerHs in
/-- **a repeated header is decided by its last line, names compare in any case**: the table the header loop builds answers a
    lookup with the value of the last line whose capitalised name is the key -/
theorem server_header_last_line_wins (ls : List ReqLine) (k : List UInt8) :
    getHeader (table ls []) k = (lastField ls k).getD [] ∧ hasHeader (table ls []) k = (lastField ls k).isSome :=
  ⟨getHeader_table ls k, hasHeader_table ls k⟩

open AslProofs.WebSocketServerHs in
/-- **both handshakes compose for every key, path, host and port** (the general form of `handshake_end_to_end_sample`): the
    request `connect` writes (`clientRequest`, format regenerated from the source) is a well-formed upgrade request
    (`clientRequest_eq`: request line `GET path HTTP/1.1`, the seven header lines of the source), so `WebSocketServer::serve` answers
    it with the 101 response carrying the accept key of exactly that key, with the protocol line, and `connect` accepts that answer.
    Hypotheses: the path has no blank or LF; `host:port` and the key are non-empty, without LF and without a blank at either end
    (`ValueOk`; a base64 key from `clientKey` is such a value) -/
theorem handshake_end_to_end (path host port key : List UInt8)
    (hp : ∀ x ∈ path, x ≠ 32 ∧ x ≠ 10) (hh : ValueOk (host ++ [58] ++ port)) (hk : ValueOk key) :
    serverHandshake (clientRequest path host port key) = serverResponse key true ∧
    clientAccepts (serverHandshake (clientRequest path host port key)) = true := by
  have h1 : serverHandshake (clientRequest path host port key) = serverResponse key true := by
    rw [clientRequest_eq]
    obtain ⟨a, b, c, d⟩ := clientLines_last host port key
    have := (server_handshake_general [71, 69, 84] path [72, 84, 84, 80, 47, 49, 46, 49, 13] (clientLines host port key) [] key strUpgrade
      (by decide) hp (by decide) (clientLines_wf host port key hh hk) a b (by decide) c).1
    rw [this, d]
  exact ⟨h1, by rw [h1]; exact client_accepts_library_server key true⟩

example : AslProofs.WebSocketServerHs.ValueOk ([104] ++ [58] ++ [56, 48]) ∧ AslProofs.WebSocketServerHs.ValueOk [65, 61] :=
  ⟨AslProofs.WebSocketServerHs.valueOk_const _ (by decide), AslProofs.WebSocketServerHs.valueOk_const _ (by decide)⟩

section
open AslProofs.WebSocketServerHs
/-- non-vacuity: `upgrade:websocket`, `CONNECTION: keep-alive, Upgrade`, two key lines (the last one counts) -/
private def sampleLines : List ReqLine :=
  [⟨[117, 112, 103, 114, 97, 100, 101], [], strWebsocket, []⟩,
   ⟨strKey, [32], [65], []⟩,
   ⟨[67, 79, 78, 78, 69, 67, 84, 73, 79, 78], [32, 9], [107, 101, 101, 112, 45, 97, 108, 105, 118, 101, 44, 32, 85, 112, 103, 114, 97, 100, 101], [9]⟩,
   ⟨[115, 101, 99, 45, 119, 101, 98, 115, 111, 99, 107, 101, 116, 45, 107, 101, 121], [], [66, 67], [32, 32]⟩]
example : ∀ l ∈ sampleLines, l.WF := by
  intro l hl
  simp only [sampleLines, List.mem_cons, List.not_mem_nil, or_false] at hl
  rcases hl with rfl | rfl | rfl | rfl <;>
    (refine ⟨by decide, by decide, by decide, by decide, by decide, ?_, ?_⟩ <;> (intro x hx; simp [strWebsocket] at hx; subst hx; decide))
example : lastField sampleLines strUpgrade = some strWebsocket ∧ lastField sampleLines strKey = some [66, 67] ∧
    lastField sampleLines strProtocol = none ∧
    (splitCommaSp [] ((lastField sampleLines strConnection).getD [])).contains strUpgrade = true := by decide
example : serverHandshake (upgradeRequest [71] [47] [72, 13] sampleLines [0x81, 1, 0x61]) = serverResponse [66, 67] false :=
  (server_handshake_general [71] [47] [72, 13] sampleLines [0x81, 1, 0x61] [66, 67]
    [107, 101, 101, 112, 45, 97, 108, 105, 118, 101, 44, 32, 85, 112, 103, 114, 97, 100, 101] (by decide) (by decide) (by decide)
    (by intro l hl
        simp only [sampleLines, List.mem_cons, List.not_mem_nil, or_false] at hl
        rcases hl with rfl | rfl | rfl | rfl <;>
          (refine ⟨by decide, by decide, by decide, by decide, by decide, ?_, ?_⟩ <;> (intro x hx; simp [strWebsocket] at hx; subst hx; decide)))
    (by decide) (by decide) (by decide) (by decide)).1
example : lastField [(⟨strUpgrade, [], [120], []⟩ : ReqLine)] strUpgrade ≠ some strWebsocket := by decide
end

end C11
