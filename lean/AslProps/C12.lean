import AslModel.Rc
import AslProofs.Rc
import AslProofs.RcMutex
import Gen.ShapesGen
import AslProofs.RcCompile3
import AslProofs.RcNest
import AslModel.RcOrders
import AslProofs.RcOrders
/-!
# C12 — Shared handles and atomic counters are correct under every thread interleaving

Property theorems only (lemmas: `AslProofs/Rc.lean`).  The model (`AslModel/Rc.lean`) is an
interleaving semantics over the library's hook points; its thread programs are compiled from the
operation shapes *recorded from the instrumented library on every run* (`Gen/ShapesGen.lean`).
The theorems quantify over **any number of threads, any finite programs and every schedule**.
-/
namespace C12
open AslModel.Rc AslProofs.Rc Gen.Shapes AslModel.RcCompile AslProofs.RcCompile

/-! ## G obligations: what the current source does at its atomic points -/

/-- `atomicInc`/`atomicDec` are single atomic read-modify-write instructions -/
theorem atomic_primitive_is_rmw : incSem = Sem.atomicRMW ∧ decSem = Sem.atomicRMW := by decide

def evObj (k : Kind) : Ev → Option Nat
  | Ev.inc r c => some (r * k.counters + c)
  | Ev.dec r c => some (r * k.counters + c)
  | Ev.free r c => some (r * k.counters + c)
  | Ev.unknown => none

def toSteps (k : Kind) (evs : List Ev) : List Step :=
  evs.filterMap fun e => match e with
    | Ev.inc r c => some (Step.inc (r * k.counters + c))
    | Ev.dec r c => some (Step.dec (r * k.counters + c))
    | _ => none

def handleOf (k : Kind) (role : Nat) : List Nat := (List.range k.counters).map (role * k.counters + ·)

/-- insert, after every decrement on role `r`, the release of the same counter -/
def withFrees (r : Nat) : List Ev → List Ev
  | [] => []
  | Ev.dec r' c :: rest => if r' = r then Ev.dec r' c :: Ev.free r' c :: withFrees r rest else Ev.dec r' c :: withFrees r rest
  | e :: rest => e :: withFrees r rest

def sameCounts (k : Kind) (h : List Nat) (c0 c1 : Nat) : Bool :=
  (handleOf k 0).all (fun o => h.count o == c0) && (handleOf k 1).all (fun o => h.count o == c1) && h.length == (c0 + c1) * k.counters

/-- what a recorded operation shape must satisfy:
    * every event is an increment/decrement/release of a counter of the operation's own objects;
    * run by a thread that owns exactly the handles the operation starts with, every increment and
      decrement happens while that thread holds a handle to the object (`wfProg`);
    * the net effect on the thread's handles is that of the operation (copy: one more; drop: one less;
      assign: destination's old object one less, source one more);
    * the storage is released exactly when the decrement was the last one: the shape recorded with a
      single handle is the shape recorded with another handle alive plus a release after each decrement. -/
def checkKind (k : Kind) : Bool :=
  let all := [k.copy, k.dropNotLast, k.dropLast, k.assignDiff, k.assignSameObj, k.assignSelf, k.assignDiffLast]
  all.all (fun s => s.all fun e => (evObj k e).isSome) &&
  -- copy: holds one handle to object 0, ends with two
  wfProg (handleOf k 0) (toSteps k k.copy) && sameCounts k (simHeld (handleOf k 0) (toSteps k k.copy)) 2 0 &&
  -- drop (another handle exists, held by this thread in the recording): two handles, ends with one
  wfProg (handleOf k 0 ++ handleOf k 0) (toSteps k k.dropNotLast) &&
    sameCounts k (simHeld (handleOf k 0 ++ handleOf k 0) (toSteps k k.dropNotLast)) 1 0 &&
  -- the drop of a single handle is valid on its own
  wfProg (handleOf k 0) (toSteps k k.dropNotLast) && sameCounts k (simHeld (handleOf k 0) (toSteps k k.dropNotLast)) 0 0 &&
  -- assign, different objects
  wfProg (handleOf k 0 ++ handleOf k 1) (toSteps k k.assignDiff) &&
    sameCounts k (simHeld (handleOf k 0 ++ handleOf k 1) (toSteps k k.assignDiff)) 0 2 &&
  -- assign between two handles to the same object (role 1)
  wfProg (handleOf k 1 ++ handleOf k 1) (toSteps k k.assignSameObj) &&
    sameCounts k (simHeld (handleOf k 1 ++ handleOf k 1) (toSteps k k.assignSameObj)) 0 2 &&
  -- self assignment of the only handle
  wfProg (handleOf k 1) (toSteps k k.assignSelf) && sameCounts k (simHeld (handleOf k 1) (toSteps k k.assignSelf)) 0 1 &&
  -- releases happen exactly after a last decrement
  k.dropLast == withFrees 0 k.dropNotLast && k.assignDiffLast == withFrees 0 k.assignDiff

/-- every handle type's recorded copy / assign / drop shapes respect the ownership discipline the safety theorem needs -/
theorem shapes_wf : ∀ k ∈ kinds, checkKind k = true := by decide

theorem all_handle_types_recorded :
    kinds.map (·.name) = ["array", "map", "hashmap", "shared", "smart"] := by decide

/-! ## the protocol is safe for every number of threads, every program and every schedule -/

/-- **rc_protocol_safe.**  Start from any set of threads whose handle sets define the reference counts,
    each running a program that is well formed thread-locally.  Then after *every* schedule `s`:
    the invariant holds (count = number of live handles; storage alive iff a handle or a pending release
    exists; at most one thread is about to release), and no increment or decrement ever touched released
    storage, nothing was released twice, no thread used an object it held no handle to. -/
theorem rc_protocol_safe (nobj : Nat) (thrs : List Thr) (ctr : List Int) (nmtx : Nat) (vars : List Int)
    (hp : ∀ th ∈ thrs, th.pending = none)
    (hin : ∀ th ∈ thrs, ∀ o ∈ th.held, o < nobj)
    (hpos : ∀ o, o < nobj → 0 < heldCount thrs o)
    (hwf : ∀ th ∈ thrs, wfThr th = true)
    (s : List Nat) :
    RcInv (run (mkCfg nobj thrs ctr nmtx vars) s) ∧ (run (mkCfg nobj thrs ctr nmtx vars) s).bad = none := by
  have hI := mkCfg_inv nobj thrs ctr nmtx vars hp hin hpos
  have hw : AllWf (mkCfg nobj thrs ctr nmtx vars) := by
    intro t th h
    exact hwf th (List.mem_of_getElem? h)
  obtain ⟨a, _, b⟩ := run_safe s _ hI hw rfl
  exact ⟨a, b⟩

/-- **destroyed exactly once.**  When all threads have finished (after any schedule), every object whose
    handles were all dropped has been released exactly once and is not alive; every object still held
    is alive and was never released. -/
theorem destroyed_exactly_once (nobj : Nat) (thrs : List Thr) (ctr : List Int) (nmtx : Nat) (vars : List Int)
    (hp : ∀ th ∈ thrs, th.pending = none)
    (hin : ∀ th ∈ thrs, ∀ o ∈ th.held, o < nobj)
    (hpos : ∀ o, o < nobj → 0 < heldCount thrs o)
    (hwf : ∀ th ∈ thrs, wfThr th = true)
    (s : List Nat) (hd : done (run (mkCfg nobj thrs ctr nmtx vars) s) = true) (o : Nat) (ho : o < nobj) :
    let c := run (mkCfg nobj thrs ctr nmtx vars) s
    (heldCount c.thrs o = 0 → c.alive.getD o false = false ∧ c.frees.getD o 0 = 1) ∧
    (0 < heldCount c.thrs o → c.alive.getD o false = true ∧ c.frees.getD o 0 = 0) := by
  intro c
  obtain ⟨hI, _⟩ := rc_protocol_safe nobj thrs ctr nmtx vars hp hin hpos hwf s
  have hlen : c.rc.length = nobj := by
    have h1 := hI.len1
    have := run_alive_length
    have h2 := this s (mkCfg nobj thrs ctr nmtx vars)
    simp only [mkCfg, List.length_replicate] at h2
    show (run (mkCfg nobj thrs ctr nmtx vars) s).rc.length = nobj
    rw [← h1]; exact h2
  exact final_state c hI hd o (by rw [hlen]; exact ho)

/-! ## every scenario the driver runs meets the hypotheses (no run-time side condition left) -/

/-- the recorded shapes, instantiated on the logical objects 0 and 1 in every way the compiler uses them -/
theorem shapes_compile_ok : ∀ k ∈ kinds, checkShapes k = true := by decide


/-- **compiled_programs_wf.**  For every recorded handle type and EVERY list of handle operations (copy / drop /
    assign in any order and number), the program `compileOps` builds from the recorded shapes is well formed
    for a thread that starts with one handle to each object: the hypothesis `wfThr` of `rc_protocol_safe`. -/
theorem compiled_programs_wf (k : Kind) (hk : k ∈ kinds) (ops : List String) : wfThr (scenThr k ops) = true := by
  unfold wfThr scenThr
  exact compile_wf k (shapes_compile_ok k hk) ops [0, 1] (heldOf k [0, 1]) (by intro o ho; simp at ho; omega) (List.Perm.refl _)

/-- **scenario_safe.**  Hence for every handle type recorded from the library, any number (≥ 1) of threads, any
    operation lists and every schedule: the invariant holds and nothing touches released storage. -/
theorem scenario_safe (k : Kind) (hk : k ∈ kinds) (hc : 0 < k.counters) (progs : List (List String)) (hne : progs ≠ [])
    (s : List Nat) :
    let c := run (scenCfg k progs) s
    RcInv c ∧ c.bad = none := by
  intro c
  show RcInv (run (mkCfg (2 * k.counters) (progs.map (scenThr k)) [0] 1 [0]) s) ∧ (run (mkCfg (2 * k.counters) (progs.map (scenThr k)) [0] 1 [0]) s).bad = none
  have hmem : ∀ th ∈ progs.map (scenThr k), ∃ ops, th = scenThr k ops := by
    intro th h; obtain ⟨ops, _, rfl⟩ := List.mem_map.mp h; exact ⟨ops, rfl⟩
  have hheld : ∀ o, o < 2 * k.counters → 0 < (heldOf k [0, 1]).count o := by
    intro o ho
    unfold heldOf objHandles oid
    simp only [List.flatMap_cons, List.flatMap_nil, List.append_nil, List.count_append, Nat.zero_mul, Nat.zero_add, Nat.one_mul]
    by_cases h : o < k.counters
    · have : 0 < List.count o (List.map (fun x => x) (List.range k.counters)) := by
        simp [List.count_pos_iff, h]
      omega
    · have : 0 < List.count o (List.map (fun x => k.counters + x) (List.range k.counters)) := by
        rw [List.count_pos_iff]
        exact List.mem_map.mpr ⟨o - k.counters, by simp; omega, by omega⟩
      omega
  refine rc_protocol_safe (2 * k.counters) (progs.map (scenThr k)) [0] 1 [0] ?_ ?_ ?_ ?_ s
  · intro th h; obtain ⟨ops, rfl⟩ := hmem th h; rfl
  · intro th h o ho
    obtain ⟨ops, rfl⟩ := hmem th h
    simp only [scenThr, heldOf, objHandles, oid, List.flatMap_cons, List.flatMap_nil, List.append_nil,
      List.mem_append, List.mem_map, List.mem_range] at ho
    rcases ho with ⟨x, hx, rfl⟩ | ⟨x, hx, rfl⟩ <;> omega
  · intro o ho
    cases progs with
    | nil => exact absurd rfl hne
    | cons p ps =>
      simp only [List.map_cons, heldCount, List.sum_cons]
      have := hheld o ho
      simp only [scenThr]
      omega
  · intro th h; obtain ⟨ops, rfl⟩ := hmem th h; exact compiled_programs_wf k hk ops

/-! ## atomic counters never lose an update -/

/-- **atomiccount_sum.**  For any threads, any programs, any schedule that runs them to completion, the
    counter ends at its initial value plus the sum of all increments and decrements in all programs. -/
theorem atomiccount_sum (c : Cfg) (k : Nat) (hk : k < c.ctr.length) (s : List Nat)
    (hd : done (run c s) = true) :
    (run c s).ctr.getD k 0 = c.ctr.getD k 0 + remaining c.thrs k := by
  have h := ctr_run s c k hk
  rw [remaining_zero_of_done _ hd] at h
  omega

/-- **atomic_ops_locked.**  Every operator of `Atomic<T>` (assignment from a value, read, conversions, comparisons, unary
    minus, pre/post increment and decrement, `+= -= *= /=`), run once on the instrumented library, takes the variable's
    own mutex exactly once around its access and computes the value C++ gives; copy assignment from another `Atomic`
    reads the source under the SOURCE's mutex, releases it, and only then writes under its own (never both held: no lock
    order, no deadlock with a concurrent `b = a` / `a = b`); copy construction reads the source under the source's mutex
    and the new object's own mutex is usable at once (not a byte copy of a possibly locked one: 735352c).  The list of
    operators is complete (an operator dropped from the recording, or one that lost its `Lock`, breaks this obligation). -/
theorem atomic_ops_locked :
    atomicOps.map (·.name) = ["assign", "read", "conv", "not", "bool", "eq", "ne", "lt", "le", "gt", "ge", "neg",
      "preinc", "postinc", "predec", "postdec", "add", "sub", "mul", "div", "copyassign", "copyctor"] ∧
    (∀ op ∈ atomicOps, op.name ≠ "copyassign" → op.name ≠ "copyctor" → op.evs = [MEv.lock, MEv.unlock]) ∧
    (∀ op ∈ atomicOps, op.name = "copyassign" → op.evs = [MEv.lockSrc, MEv.unlockSrc, MEv.lock, MEv.unlock]) ∧
    (∀ op ∈ atomicOps, op.name = "copyctor" → op.evs = [MEv.lockSrc, MEv.unlockSrc, MEv.ownMutex]) ∧
    ∀ op ∈ atomicOps, op.value = op.expected := by decide

/-- the hypothesis is not vacuous: with a read-then-write increment (what `atomicInc` is under
    `ASL_THREAD_UNSAFE`) two threads each adding 1 can end with 1 -/
theorem nonatomic_loses :
    done (run racyIncr [0, 1, 0, 1]) = true ∧ (run racyIncr [0, 1, 0, 1]).vars = [1] := by decide

/-- **atomic_T_sum.**  `Atomic<T>` operators are `lock; tmp := x; x := tmp + d; unlock` on the variable's
    own mutex, with the load and the store as *separate* steps that other threads may interleave with.
    For any number of threads, any lists of operands and every schedule that runs them to completion,
    the variable ends at its initial value plus the sum of all operands: mutual exclusion alone makes the
    read-modify-write atomic (compare `nonatomic_loses`, the same steps without the lock). -/
theorem atomic_T_sum (progs : List (List Int)) (x0 : Int) (s : List Nat)
    (hd : done (run (atomicCfg progs x0) s) = true) :
    (run (atomicCfg progs x0) s).vars.getD 0 0 = x0 + (progs.map List.sum).sum ∧
    (run (atomicCfg progs x0) s).bad = none :=
  AslProofs.Rc.atomic_T_sum progs x0 s hd

example : done (run (atomicCfg [[1, 2], [3]] 10) [0, 1, 0, 0, 0, 1, 1, 1, 1, 0, 0, 0, 0]) = true := by decide

/-! ## non-vacuity: concrete scenarios meeting the hypotheses (tests, labelled as such) -/

example : ∀ th ∈ [({ prog := [Step.inc 0, Step.dec 0, Step.dec 0], held := [0], pending := none, tmp := 0 } : Thr),
                   { prog := [Step.dec 0], held := [0], pending := none, tmp := 0 }], wfThr th = true := by decide

example : (run (mkCfg 1 [{ prog := [Step.inc 0, Step.dec 0, Step.dec 0], held := [0], pending := none, tmp := 0 },
                         { prog := [Step.dec 0], held := [0], pending := none, tmp := 0 }] [] 0 [])
            [0, 1, 0, 0, 0, 0]).frees = [1] := by decide

/-- a shape that releases before acquiring on self-assignment (SmartObject before its repair) is rejected -/
example : wfProg [5] [Step.dec 5, Step.inc 5] = false := by decide


/-! ## handles stored inside shared objects (`AslModel/RcNest.lean`): the assignment takes its source first -/

section Nested
open AslModel.RcNest

/-- events of a recorded shape as increments (`true`) and decrements / releases (`false`) -/
def evKinds (evs : List Ev) : List Bool := evs.filterMap fun e => match e with
  | Ev.inc _ _ => some true
  | Ev.dec _ _ => some false
  | Ev.free _ _ => some false
  | Ev.unknown => none

/-- **G obligation.** Assigning a handle to a different object over the *last* handle of an object — recorded
    from the current library for Array, Map, HashMap, Shared and SmartObject — increments every counter of
    the source before it decrements or releases anything of the destination. -/
theorem assignment_acquires_first : ∀ k ∈ kinds, incsFirst (evKinds k.assignDiffLast) = true ∧
    incsFirst (evKinds k.assignDiff) = true := by decide

/-- **nested_assign_safe.**  In any heap of reference-counted objects that contain handles (counts equal to
    the number of handles, nothing pointing at released storage), `*dst = *src` in the acquire-first order
    touches no released storage and re-establishes the invariant — for any two handle places in live
    storage, in particular when the source is stored inside the object the destination releases
    (`a = a[0].kids`, `p = p->next`, `m = m[k].children`). -/
theorem nested_assign_safe (h : Heap) (dst src : Loc) (hI : Inv h []) (hb : h.bad = false)
    (hd : locLive h dst = true) (hs : locLive h src = true) :
    (assign true h dst src).bad = false ∧ Inv (assign true h dst src) [] :=
  AslProofs.RcNest.assign_acquire_first_safe h dst src hI hb hd hs

/-- …and the program variable assigned to then holds the source's object, which is alive. -/
theorem nested_assign_result (h : Heap) (i : Nat) (src : Loc) (s : Nat) (hI : Inv h []) (hb : h.bad = false)
    (hd : locLive h (Loc.root i) = true) (hs : readLoc h src = some s) (hne : Loc.root i ≠ src) :
    (assign true h (Loc.root i) src).roots = h.roots.set i s ∧ aliveAt (assign true h (Loc.root i) src) s = true :=
  AslProofs.RcNest.assign_acquire_first_result h i src s hI hb hd hs hne

/-- **nested_programs_safe.**  Every heap the harness can build (any DAG or graph of blocks whose handles point
    at described blocks) satisfies the invariant, and every sequence of assignments between places reached
    by paths, and of variables going out of scope, keeps it and never touches released storage. -/
theorem nested_programs_safe (descr : List (List Nat)) (roots : List Nat) (hw : wfDescr descr roots = true)
    (ops : List Op) :
    (runOps true (build descr roots) ops).bad = false ∧ Inv (runOps true (build descr roots) ops) [] := by
  obtain ⟨a, b, _⟩ := AslProofs.RcNest.build_inv descr roots hw
  exact AslProofs.RcNest.runOps_safe ops _ a b

/-- the invariant read at one object: it is alive exactly while some handle — in a program variable or stored
    in a live object — points at it, and then its count is the number of those handles -/
theorem nested_alive_iff_handle (h : Heap) (hI : Inv h []) (o : Nat) :
    (aliveAt h o = true → rcAt h o = handles h [] o) ∧ (aliveAt h o = false → handles h [] o = 0) := by
  have := hI o
  constructor
  · intro ha; rw [ha] at this; simpa using this.symm
  · intro ha; rw [ha] at this; simpa using this

/-- **nested_destroyed_exactly_when_unreferenced.**  On every heap the harness can build and after every program: an object's
    storage is allocated **iff** at least one handle — in a program variable or stored in a live object — points at it.
    (`Inv` alone would allow a leaked object with count 0 and no handle; the positive-count invariant `Pos` excludes it:
    the object is released by the very decrement that drops its last handle, not later and not never.) -/
theorem nested_destroyed_exactly_when_unreferenced (descr : List (List Nat)) (roots : List Nat)
    (hw : wfDescr descr roots = true) (ops : List Op) (o : Nat) :
    let h := runOps true (build descr roots) ops
    aliveAt h o = true ↔ 0 < handles h [] o := by
  intro h
  obtain ⟨a, b, _⟩ := AslProofs.RcNest.build_inv descr roots hw
  have hI : Inv h [] := (AslProofs.RcNest.runOps_safe ops _ a b).2
  have hP : AslProofs.RcNest.Pos h := AslProofs.RcNest.runOps_pos ops _ (AslProofs.RcNest.build_pos descr roots)
  constructor
  · intro ha
    have := hI o
    rw [ha] at this
    have hp := hP o ha
    simp only [if_true] at this
    omega
  · intro hp
    obtain ⟨ob, ho, hal, _⟩ := AslProofs.RcNest.alive_of_handles_pos h [] hI o hp
    unfold aliveAt; simp [ho, hal]

/-- the order the containers had before their repair (release, then read the source): `a = a[0].kids` on a
    one-element tree reads the source handle from the block just released.  (Reproduced on the real
    library under ASan: known_findings.txt, 46697f8 / f87e2b1.) -/
theorem release_first_unsafe :
    (assign false (build [[1], []] [0]) (Loc.root 0) (Loc.inObj 0 0)).bad = true := by decide

/-- the same assignment in the current order: no error, the variable holds the child block, the parent block
    is released and the child is alive with exactly one handle -/
example : let h := assign true (build [[1], []] [0]) (Loc.root 0) (Loc.inObj 0 0)
    h.bad = false ∧ h.roots = [1] ∧ aliveAt h 0 = false ∧ aliveAt h 1 = true ∧ rcAt h 1 = 1 := by decide

/-- non-vacuity: a built heap with sharing meets the hypotheses, and a path through a shared block resolves -/
example : wfDescr [[1, 2], [2], []] [0, 1] = true ∧ invB (build [[1, 2], [2], []] [0, 1]) [] 4 = true ∧
    resolve (build [[1, 2], [2], []] [0, 1]) ⟨0, [0, 0]⟩ = some (Loc.inObj 1 0) := by decide

end Nested

/-! ## the statement orders of `Shared::operator=` and `SmartObject::operator=` (`AslModel/RcOrders.lean`) -/

section Orders
open AslModel.RcNest AslProofs.RcOrders

/-- **G obligation.**  The copy-assignment operator of every handle class, as its statements stand in the current source,
    performs (increment the source's count, store into the destination, release the old object) in one of the three
    acquire-first orders the theorems below cover. -/
theorem assignment_orders_known : ∀ p ∈ Gen.Shapes.assignOrders, p.2 ≠ Gen.Shapes.Ord.unknown := by decide

/-- **shared_order_same_heap.**  `Shared::operator=` (store, increment through the stored pointer, release) yields exactly the
    heap of the Array order — every heap, every two places, no hypothesis. -/
theorem shared_order_same_heap (h : Heap) (dst src : Loc) : assignOrd Order.shared h dst src = assign true h dst src := by
  rw [assignOrd_shared, assignOrd_array]

/-- …so it is safe wherever the Array order is. -/
theorem shared_assign_safe (h : Heap) (dst src : Loc) (hI : Inv h []) (hb : h.bad = false)
    (hd : locLive h dst = true) (hs : locLive h src = true) :
    (assignOrd Order.shared h dst src).bad = false ∧ Inv (assignOrd Order.shared h dst src) [] := by
  rw [shared_order_same_heap]; exact nested_assign_safe h dst src hI hb hd hs

/-- **smart_order_same_heap.**  `SmartObject::operator=` (increment, release, store) stores after the destructor cascade.  In any
    heap satisfying the invariant it yields exactly the heap of the Array order provided the object that holds the destination
    place is still allocated after the assignment (a program variable always is). -/
theorem smart_order_same_heap (h : Heap) (dst src : Loc) (hI : Inv h []) (hb : h.bad = false)
    (hd : locLive h dst = true) (hs : locLive h src = true) (hc : containerAlive (assign true h dst src) dst = true) :
    assignOrd Order.smart h dst src = assign true h dst src := by
  have hok := (nested_assign_safe h dst src hI hb hd hs).1
  rw [← assignOrd_array] at hok hc ⊢
  exact assignOrd_smart h dst src hok hc

/-- assignment to a program variable (`p = p->next`, `s = s.member`) in SmartObject's order is safe in every heap -/
theorem smart_assign_to_variable_safe (h : Heap) (i : Nat) (src : Loc) (hI : Inv h []) (hb : h.bad = false)
    (hd : locLive h (Loc.root i) = true) (hs : locLive h src = true) :
    (assignOrd Order.smart h (Loc.root i) src).bad = false ∧ Inv (assignOrd Order.smart h (Loc.root i) src) [] := by
  rw [smart_order_same_heap h (Loc.root i) src hI hb hd hs rfl]; exact nested_assign_safe h _ src hI hb hd hs

/-- **smart_order_needs_live_container.**  The hypothesis is needed: when the only handles to the object holding the destination
    are inside the structure the assignment releases (here a two-object cycle no program variable reaches), the Array order is
    fine and SmartObject's order touches released storage. -/
theorem smart_order_needs_live_container :
    ∃ (h : Heap) (dst src : Loc), invB h [] 4 = true ∧ locLive h dst = true ∧ locLive h src = true ∧
      (assign true h dst src).bad = false ∧ (assignOrd Order.smart h dst src).bad = true :=
  ⟨{ objs := [⟨1, true, [1]⟩, ⟨1, true, [0]⟩, ⟨1, true, []⟩], roots := [2], bad := false }, Loc.inObj 0 0, Loc.root 0, by decide⟩

/-- non-vacuity (test, labelled as such): `p = p->next` on a three-node list held by one variable, in all three orders -/
example : let h : Heap := { objs := [⟨1, true, [1]⟩, ⟨1, true, [2]⟩, ⟨1, true, []⟩], roots := [0], bad := false }
    assignOrd Order.smart h (Loc.root 0) (Loc.inObj 0 0) = assign true h (Loc.root 0) (Loc.inObj 0 0) ∧
    assignOrd Order.shared h (Loc.root 0) (Loc.inObj 0 0) = assign true h (Loc.root 0) (Loc.inObj 0 0) ∧
    (assign true h (Loc.root 0) (Loc.inObj 0 0)).roots = [1] ∧ aliveAt (assign true h (Loc.root 0) (Loc.inObj 0 0)) 0 = false := by decide

/-- **path_destination_keeps_its_container.**  The hypothesis of `smart_order_same_heap` holds for every destination a program can
    name: if `dst` is what a path from a program variable resolves to, the object holding `dst` is still allocated after `*dst = *src`
    (the cascade cannot free it: every object along the path is pinned by its predecessor, the first by the variable). -/
theorem path_destination_keeps_its_container (h : Heap) (p : Path) (dst src : Loc) (hI : Inv h []) (hb : h.bad = false)
    (hr : resolve h p = some dst) (hs : locLive h src = true) : containerAlive (assign true h dst src) dst = true :=
  path_container_survives h p dst src hI hb hr hs

/-- **all_orders_same_programs.**  Every program (assignments between places reached by paths, variables going out of scope) run in
    Shared's or in SmartObject's statement order produces, step by step, exactly the heaps of the Array order — on every heap that
    satisfies the invariant. -/
theorem all_orders_same_programs (ord : Order) (h : Heap) (ops : List Op) (hI : Inv h []) (hb : h.bad = false) :
    runOpsOrd ord h ops = runOps true h ops := runOpsOrd_eq ord ops h hI hb

/-- **nested_programs_safe_every_order.**  …hence `nested_programs_safe` holds for all three handle families: on every heap the
    harness can build, every program in any of the three orders keeps the invariant and never touches released storage. -/
theorem nested_programs_safe_every_order (ord : Order) (descr : List (List Nat)) (roots : List Nat)
    (hw : wfDescr descr roots = true) (ops : List Op) :
    (runOpsOrd ord (build descr roots) ops).bad = false ∧ Inv (runOpsOrd ord (build descr roots) ops) [] := by
  obtain ⟨a, b, _⟩ := AslProofs.RcNest.build_inv descr roots hw
  rw [all_orders_same_programs ord _ ops a b]
  exact AslProofs.RcNest.runOps_safe ops _ a b

end Orders

end C12
