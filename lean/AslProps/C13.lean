import AslModel.Thread
import AslProofs.Thread
import AslProofs.SemN
import AslModel.ThreadEnd
import AslProofs.ThreadEnd
import Gen.ThreadGen
import AslModel.ThreadTimed
import AslProofs.ThreadTimed
import AslModel.ThreadRounds
import AslProofs.ThreadRounds
/-!
# C13 — Thread start/join, ThreadGroup and parallel_for run every task exactly once

Property theorems only (lemmas: `AslProofs/Thread.lean`; models: `AslModel/Thread.lean`).
-/
namespace C13
open AslModel.Thread AslProofs.Thread

/-! ## parallel_for(i0, i1, f, nth): every index of [i0, i1) exactly once, no other index -/

/-- **parallel_for_partition.**  For all integers `i0`, `i1` and every thread count `nth ≥ 1` the list of
    all invocations made by all workers contains exactly the indices of `[i0, i1)` … -/
theorem parallel_for_covers (i0 i1 : Int) (nth : Nat) (h : 1 ≤ nth) (x : Int) :
    x ∈ ParFor.all i0 i1 nth ↔ i0 ≤ x ∧ x < i1 := all_mem i0 i1 nth h x

/-- … and contains no index twice (so `f` runs exactly once per index; nothing runs when `i1 ≤ i0`). -/
theorem parallel_for_exactly_once (i0 i1 : Int) (nth : Nat) : (ParFor.all i0 i1 nth).Nodup :=
  all_nodup i0 i1 nth

theorem parallel_for_empty_range (i0 i1 : Int) (nth : Nat) (h : i1 ≤ i0) : ParFor.all i0 i1 nth = [] := by
  unfold ParFor.all
  have : (ParFor.nWorkers i0 i1 nth).toNat = 0 := by unfold ParFor.nWorkers; omega
  simp [this]

/-- the number of worker threads is `min(nth, i1 - i0)` and never exceeds the number of indices -/
theorem parallel_for_worker_count (i0 i1 : Int) (nth : Nat) :
    (ParFor.nWorkers i0 i1 nth).toNat ≤ nth ∧ (ParFor.nWorkers i0 i1 nth).toNat ≤ (i1 - i0).toNat := by
  unfold ParFor.nWorkers; omega

/-! ## creation / hand-over / join, for any number of workers and every interleaving -/

open Handover in
/-- **handover_safe.**  In every interleaving of the creator and any number `n` of workers (function
    threads with a stack context, `cf = false`, or subclassed threads started with `start()`, `cf = true`): no worker
    reads its stack-allocated context after the creator has left that scope, and no worker writes the
    finished flag of a `Thread` object that has been deleted. -/
theorem handover_safe (n : Nat) (cf : Bool) (s : List (Option Nat)) : (run (init n cf) s).bad = none :=
  (run_inv s (init n cf) (init_inv n cf) (init_rinv n cf) rfl).2

open Handover in
/-- **runs_once_and_join.**  When the creator has finished (all joins returned, all thread objects
    deleted), every worker body has run exactly once and every finished flag is set. -/
theorem runs_once_and_join (n : Nat) (cf : Bool) (s : List (Option Nat)) (hd : (run (init n cf) s).cpos = CPos.done) :
    ∀ j, j < n → (run (init n cf) s).ran j = 1 ∧ (run (init n cf) s).finished j = true := by
  intro j hj
  obtain ⟨hI, _⟩ := run_inv s (init n cf) (init_inv n cf) (init_rinv n cf) rfl
  have hn : (run (init n cf) s).n = n := by rw [run_n]; rfl
  have hp := hI.pos
  unfold PosInv at hp
  rw [hd] at hp
  have h5 := (hp j (by rw [hn]; exact hj)).1
  have hw := hI.w j (by rw [hn]; exact hj)
  unfold WInv at hw
  refine ⟨by rw [hw.2.1, h5]; rfl, hw.2.2.1.mpr h5⟩

open Handover in
/-- **join returns only after completion** and **finished_after_join**: whenever `join()` of thread `k` has
    returned (the creator is past it), that worker's body has run exactly once and `finished()` is true;
    and a body never runs more than once at any time. -/
theorem finished_after_join (n : Nat) (cf : Bool) (s : List (Option Nat)) (k : Nat)
    (hj : (run (init n cf) s).cpos = CPos.del k) :
    (run (init n cf) s).ran k = 1 ∧ (run (init n cf) s).finished k = true := by
  obtain ⟨hI, _⟩ := run_inv s (init n cf) (init_inv n cf) (init_rinv n cf) rfl
  have hp := hI.pos
  unfold PosInv at hp
  rw [hj] at hp
  obtain ⟨hk, h5, _⟩ := hp
  have hw := hI.w k hk
  unfold WInv at hw
  exact ⟨by rw [hw.2.1, h5]; rfl, hw.2.2.1.mpr h5⟩

open Handover in
theorem never_twice (n : Nat) (cf : Bool) (s : List (Option Nat)) (j : Nat) (hj : j < n) : (run (init n cf) s).ran j ≤ 1 := by
  obtain ⟨hI, _⟩ := run_inv s (init n cf) (init_inv n cf) (init_rinv n cf) rfl
  have hn : (run (init n cf) s).n = n := by rw [run_n]; rfl
  have hw := hI.w j (by rw [hn]; exact hj)
  unfold WInv at hw
  rw [hw.2.1]; split <;> omega

open Handover in
/-- **handover_progress.**  The protocol never gets stuck: in every reachable state in which the creator has not
    finished, some thread can take a step (the creator, or the worker it is spinning on / joining). -/
theorem handover_progress (n : Nat) (cf : Bool) (s : List (Option Nat))
    (hnd : (run (init n cf) s).cpos ≠ CPos.done) : ∃ a, enabled (run (init n cf) s) a = true := by
  obtain ⟨hI, _⟩ := run_inv s (init n cf) (init_inv n cf) (init_rinv n cf) rfl
  generalize run (init n cf) s = c at hI hnd
  have hp := hI.pos
  unfold PosInv at hp
  cases hc : c.cpos with
  | spawn k => exact ⟨none, by simp [enabled, hc]⟩
  | del k => exact ⟨none, by simp [enabled, hc]⟩
  | done => exact absurd hc hnd
  | spin k =>
    rw [hc] at hp
    obtain ⟨hk, hall⟩ := hp
    by_cases hr : c.ready k = true
    · exact ⟨none, by simp [enabled, hc, hr]⟩
    · have hw := hI.w k hk
      unfold WInv at hw
      have h3 : ¬ 3 ≤ c.wpc k := fun h => hr (hw.1.mpr h)
      have h1 := ((hall k hk).2.1 rfl).1
      exact ⟨some k, by simp [enabled, hk]; omega⟩
  | join k =>
    rw [hc] at hp
    obtain ⟨hk, hall⟩ := hp
    by_cases h5 : c.wpc k = 5
    · exact ⟨none, by simp [enabled, hc, h5]⟩
    · have hw := hI.w k hk
      unfold WInv at hw
      have h2 := (hall k hk).1
      exact ⟨some k, by simp [enabled, hk]; omega⟩


/-- how often `f(i)` has been called: worker `k`'s body runs its whole index list `ran k` times -/
def invocations (c : Handover.Cfg) (i0 i1 : Int) (nth : Nat) (i : Int) : Nat :=
  ((List.range c.n).map fun k => c.ran k * (ParFor.worker i0 i1 nth k).count i).sum


open Handover in
/-- **parallel_for_end_to_end.**  The index arithmetic and the thread protocol together: run `parallel_for(i0, i1, f, nth)`
    with its `min(nth, i1-i0)` workers under any interleaving; when the creator has returned (all joins done), `f(i)` has
    been invoked exactly once for every `i` in `[i0, i1)` and never for any other `i`. -/
theorem parallel_for_end_to_end (i0 i1 : Int) (nth : Nat) (hnth : 1 ≤ nth) (s : List (Option Nat))
    (hd : (run (init (ParFor.nWorkers i0 i1 nth).toNat) s).cpos = CPos.done) (i : Int) :
    invocations (run (init (ParFor.nWorkers i0 i1 nth).toNat) s) i0 i1 nth i = if i0 ≤ i ∧ i < i1 then 1 else 0 := by
  generalize hn : (ParFor.nWorkers i0 i1 nth).toNat = n at hd ⊢
  obtain ⟨hI, _⟩ := run_inv s (init n false) (init_inv n false) (init_rinv n false) rfl
  have hcn : (run (init n) s).n = n := by rw [run_n]; rfl
  have hran : ∀ k, k < n → (run (init n) s).ran k = 1 := by
    intro k hk
    have hp := hI.pos
    unfold PosInv at hp
    rw [hd] at hp
    have h5 := (hp k (by rw [hcn]; exact hk)).1
    have hw := hI.w k (by rw [hcn]; exact hk)
    unfold WInv at hw
    rw [hw.2.1, h5]; rfl
  unfold invocations
  rw [hcn]
  have : ((List.range n).map fun k => (run (init n) s).ran k * (ParFor.worker i0 i1 nth k).count i) =
      ((List.range n).map fun k => (ParFor.worker i0 i1 nth k).count i) := by
    apply List.map_congr_left
    intro k hk
    rw [hran k (List.mem_range.mp hk), Nat.one_mul]
  rw [this, ← count_flatMap_range]
  have hall : (List.range n).flatMap (ParFor.worker i0 i1 nth) = ParFor.all i0 i1 nth := by
    unfold ParFor.all; rw [hn]
  rw [hall]
  have hnd := all_nodup i0 i1 nth
  have hmem := all_mem i0 i1 nth hnth i
  rw [hnd.count]
  by_cases hin : i0 ≤ i ∧ i < i1
  · simp only [hin, and_self, if_true, hmem.mpr hin]
  · simp only [hin, if_false]
    have : i ∉ ParFor.all i0 i1 nth := fun h => hin (hmem.mp h)
    simp [this]

/-- with `nth = 0` (or negative: `min(nth, i1-i0) ≤ 0`) no worker is created and nothing runs, even on a non-empty range -/
theorem parallel_for_zero_threads (i0 i1 : Int) : ParFor.all i0 i1 0 = [] := by
  unfold ParFor.all
  have : (ParFor.nWorkers i0 i1 0).toNat = 0 := by unfold ParFor.nWorkers; omega
  simp [this]


/-! ## Semaphore and Condition never lose a post or a signal -/

open Sync in
/-- sequential bookkeeping of one semaphore: every post is either still counted or has been consumed by exactly one
    completed wait (the thread-level statement is `semaphore_no_lost_post_n` below) -/
theorem semaphore_conserved (s : Sem) (ops : List SemOp) :
    (s.run ops).count + (s.run ops).waits + s.posts = s.count + s.waits + (s.run ops).posts :=
  sem_conserved s ops

open AslModel.Thread.SemN AslProofs.SemN in
/-- **semaphore_no_lost_post_n.**  Any number of waiting threads (waiter `i` wants `wW i` waits) and posting threads
    (poster `j` makes `wP j` posts) on one semaphore with initial count `k0`, every interleaving `r`:
    (1) the count is conserved: `count + completed waits = k0 + completed posts`, so no post is lost and no wait
    completes without a post (or an initial unit) to pay for it;
    (2) when nothing can happen any more, every post has been made and the number of completed waits is exactly
    `min (all waits wanted) (k0 + all posts)`: a waiter is left blocked only if the posts are really used up. -/
theorem semaphore_no_lost_post_n (nW nP k0 : Nat) (wW wP : Nat → Nat) (r : List Act) :
    let c := run (init nW nP k0 wW wP) r
    c.count + c.doneW = k0 + c.doneP ∧
    (quiescent c → c.doneP = total nP wP ∧ c.doneW = min (total nW wW) (k0 + total nP wP)) := by
  intro c
  have hI : Inv c (init nW nP k0 wW wP) := inv_run r _ _ (inv_init nW nP k0 wW wP)
  obtain ⟨h1, h2, h3, h4, h5⟩ := hI
  simp only [init] at h1 h2 h3 h4 h5
  refine ⟨h3, ?_⟩
  intro hq
  have hp0 : ∀ j, j < c.nP → c.wantP j = 0 := by
    intro j hj
    have := hq (Act.post j)
    simp only [enabled, Bool.and_eq_false_iff, decide_eq_false_iff_not] at this
    rcases this with h | h
    · exact absurd hj h
    · omega
  have htp := total_zero c.nP c.wantP hp0
  have hdp : c.doneP = total nP wP := by omega
  refine ⟨hdp, ?_⟩
  by_cases hc : 0 < c.count
  · have hw0 : ∀ i, i < c.nW → c.wantW i = 0 := by
      intro i hi
      have := hq (Act.wait i)
      simp only [enabled, Bool.and_eq_false_iff, decide_eq_false_iff_not] at this
      rcases this with (h | h) | h
      · exact absurd hi h
      · omega
      · exact absurd hc h
    have htw := total_zero c.nW c.wantW hw0
    omega
  · omega

open AslModel.Thread.SemN in
/-- a waiter blocked on an empty semaphore can complete its wait as soon as any post has been made -/
theorem semaphore_post_wakes (c : Cfg) (i j : Nat) (hi : i < c.nW) (hw : 0 < c.wantW i)
    (hp : enabled c (Act.post j) = true) : enabled (step c (Act.post j)) (Act.wait i) = true := by
  simp [enabled, step, hi, hw]

open AslModel.Thread.SemN in
example : (run (init 2 1 0 (fun _ => 1) (fun _ => 1)) [Act.wait 0, Act.post 0, Act.wait 1, Act.wait 0]).doneW = 1 := by decide


open Sync in
/-- **condition_no_lost_signal.**  Under the documented protocol (waiter: lock, `while(!pred) wait()`,
    unlock; signaler: lock, set pred, `signal()`, unlock), in every interleaving: the waiter is never
    asleep once the signal has been issued, and once the signaler is done the waiter can always make
    progress until it is done (it is never blocked for ever). -/
theorem condition_no_lost_signal (s : List Bool) :
    let c := Cond.init.run s
    (c.w = WPc.sleeping → c.s ≠ SPc.signalled ∧ c.s ≠ SPc.done) ∧
    (c.s = SPc.done → c.w ≠ WPc.done → c.enabled true = true) := by
  intro c
  have h : CInv c := cinv_run Cond.init s cinv_init
  obtain ⟨h1, h2, h3, h4, h5⟩ := h
  constructor
  · intro hs
    rcases h1 hs with h | h | h <;> simp [h]
  · intro hd hw
    have hm : c.mutex ≠ some false := by
      intro hx; have := h3.mp hx; rw [hd] at this; simp at this
    have hsl : c.w ≠ WPc.sleeping := by
      intro hx; have := h1 hx; rw [hd] at this; simp at this
    unfold Cond.enabled
    cases hwc : c.w with
    | start =>
      simp only
      cases hmc : c.mutex with
      | none => rfl
      | some b => cases b with
        | false => exact absurd hmc hm
        | true => have := h2.mp hmc; rw [hwc] at this; cases this
    | locked => rfl
    | sleeping => exact absurd hwc hsl
    | woken =>
      simp only
      cases hmc : c.mutex with
      | none => rfl
      | some b => cases b with
        | false => exact absurd hmc hm
        | true => have := h2.mp hmc; rw [hwc] at this; cases this
    | relocked => exact absurd hwc h5
    | done => exact absurd hwc hw

open SyncN Sync in
/-- **condition_no_lost_signal_n.**  The same protocol with *any number `n` of waiters* (`signal()` wakes
    every sleeping waiter, as `Condition::signal` does with its broadcast): in every interleaving no waiter
    is asleep once the signal has been issued, and once the signaler is done, as long as some waiter is
    not done there is a not-yet-done waiter that can take a step (nobody is blocked for ever, no deadlock). -/
theorem condition_no_lost_signal_n (n : Nat) (r : List (Option Nat)) :
    let c := run (init n) r
    (∀ i, c.w i = WPc.sleeping → c.s ≠ SPc.signalled ∧ c.s ≠ SPc.done) ∧
    (c.s = SPc.done → ∀ i, i < n → c.w i ≠ WPc.done → ∃ j, j < n ∧ c.w j ≠ WPc.done ∧ enabled c (some j) = true) := by
  intro c
  have h : NInv c := ninv_run (init n) r (ninv_init n)
  have hn : c.n = n := condn_run_n (init n) r
  obtain ⟨h1, h2, h3, h4, h5, h6⟩ := h
  constructor
  · intro i hs
    rcases h1 i hs with h | h | h <;> simp [h]
  · intro hd i hi hw
    have hm : c.mutex ≠ Holder.signaler := by
      intro hx; have := h3.mp hx; rw [hd] at this; simp at this
    have hsl : c.w i ≠ WPc.sleeping := by
      intro hx; have := h1 i hx; rw [hd] at this; simp at this
    cases hmc : c.mutex with
    | signaler => exact absurd hmc hm
    | waiter j =>
      have hj := h6 j hmc
      have hl := (h2 j).mp hmc
      refine ⟨j, by omega, by rw [hl]; simp, ?_⟩
      simp [enabled, hj, hl]
    | free =>
      refine ⟨i, hi, hw, ?_⟩
      have hin : i < c.n := by omega
      cases hwc : c.w i with
      | start => simp [enabled, hin, hwc, hmc]
      | locked => simp [enabled, hin, hwc]
      | sleeping => exact absurd hwc hsl
      | woken => simp [enabled, hin, hwc, hmc]
      | relocked => exact absurd hwc (h5 i)
      | done => exact absurd hwc hw

/-! ## non-vacuity (tests, labelled as such) -/

example : ParFor.all (-3) 4 3 = [-3, 0, 3, -2, 1, -1, 2] := by decide
example : ParFor.all 5 5 8 = [] := by decide
open Handover in
example : (run (init 2 true) [none, none, some 1, some 1, some 0, some 0, some 0, none, none, some 1, none, none]).cpos = CPos.done := by decide
open Handover in
example : (run (init 2) [none, some 0, some 0, none, none, some 1, some 1, none, some 0, some 0, some 1, some 1,
    none, none, none, none]).cpos = CPos.done := by decide
open Sync in
example : (Cond.init.run [true, true, false, false, false, false, true, true]).w = WPc.done := by decide

open SyncN Sync in
example : ((run (init 2) [some 0, some 0, some 1, some 1, none, none, none, none, some 1, some 1, some 0, some 0]).w 0,
    (run (init 2) [some 0, some 0, some 1, some 1, none, none, none, none, some 1, some 1, some 0, some 0]).w 1) = (WPc.done, WPc.done) := by decide

/-! ## the start fence and the end of a thread (`AslModel/ThreadEnd.lean`) -/

section StartAndEnd

/-- **G obligations.**  In the current source a barrier stands between the copy of the creator's context and the
    store `ready = true` in both trampolines; in the code `g++ -O3` emits for them with the hooks off every read of
    the context precedes a barrier that precedes that store; `Thread::begin` calls `ended()` before it publishes
    `finished`, through its own reference on the shared state. -/
theorem handover_fenced_in_source : ∀ p ∈ Gen.Thread.fencedInSource, p.2 = true := by decide
theorem handover_fenced_at_O3 : ∀ p ∈ Gen.Thread.fencedAtO3, p.2 = true := by decide
theorem thread_end_order : Gen.Thread.endedFirst = true ∧ Gen.Thread.holdsState = true := by decide

open AslModel.ThreadFence in
/-- **fenced_handover_never_stale.**  With the barrier, for a context of any number of words and every interleaving of
    the worker's loads, its store of `ready` and the creator leaving its spin loop (after which it reuses the stack
    slot): the worker never reads a word of the context after the slot was reused. -/
theorem fenced_handover_never_stale (words : Nat) (r : List Act) : (run (init words true) r).stale = false :=
  (AslProofs.ThreadFence.run_inv r _ (AslProofs.ThreadFence.init_inv words)).ns

open AslModel.ThreadFence in
/-- without it (only `volatile` on the flag, the code before 12ac8c3): one load sunk below the store reads the reused
    slot.  (Reproduced on the real headers at -O3 by injecting exactly this schedule: harness/c13_handover_o3.cpp.) -/
theorem unfenced_handover_stale : (run (init 2 false) [Act.load, Act.store, Act.leave, Act.load]).stale = true := by decide

open AslModel.ThreadFence in
/-- non-vacuity: the fenced worker does complete the hand-over -/
example : (run (init 2 true) [Act.store, Act.load, Act.load, Act.store, Act.leave]).creatorLeft = true := by decide

open AslModel.ThreadEnd in
/-- **thread_end_safe.**  With `ended()` first and the flag written through the thread's own reference: in every
    interleaving of the ending thread with an owner that polls `finished()` and deletes the object as soon as it is
    true — and also for a self-owned object that deletes itself in `ended()` — neither the deleted object nor the
    released state is ever used, and the state's reference count is exactly (object alive) + (thread not over) — the
    flag store and the release of the thread's reference are separate steps, so the owner's poll and delete may fall
    between them.  (The model starts when the worker already holds its reference: see the scope note in the model.) -/
theorem thread_end_safe (selfOwned : Bool) (r : List Act) :
    (run (init true true selfOwned) r).bad = false ∧
    (run (init true true selfOwned) r).stateRefs =
      (if (run (init true true selfOwned) r).objAlive then 1 else 0) + (if (run (init true true selfOwned) r).wpc < 4 then 1 else 0) := by
  have h := AslProofs.ThreadEnd.run_inv r _ (AslProofs.ThreadEnd.init_inv selfOwned)
  exact ⟨AslProofs.ThreadEnd.inv_not_bad _ h, AslProofs.ThreadEnd.inv_refs _ h⟩

open AslModel.ThreadEnd in
/-- the order before 8766189 (flag, then the virtual call on the object): the owner deletes the object between the two.
    (Reproduced on the real library under UBSan: known_findings.txt.) -/
theorem flag_first_unsafe :
    (run (init false false false) [Act.worker, Act.worker, Act.poll, Act.delete, Act.worker]).bad = true := by decide

open AslModel.ThreadEnd in
/-- `ended()` first but the flag still written through the object: a self-owned object has deleted itself by then -/
example : (run (init true false true) [Act.worker, Act.worker, Act.worker]).bad = true := by decide

open AslModel.ThreadEnd in
/-- non-vacuity: the polling owner does get to delete the object, and the state is then released -/
example : let c := run (init true true false) [Act.worker, Act.worker, Act.worker, Act.poll, Act.delete, Act.worker]
    c.owner = 2 ∧ c.stateRefs = 0 ∧ c.bad = false ∧ c.wpc = 4 := by decide

open AslModel.ThreadCopies in
/-- **thread_copies_safe.**  Thread objects sharing one reference-counted state (copy construction, assignment, storing in
    an array: any number of copies), dropped in any order before or after the worker sets `finished` and releases its own
    reference: the released state is never used or released twice; its count is exactly (live objects) + (worker not over);
    it is released exactly once, when the last of them goes; and `finished()` read through ANY live object is the worker's
    flag — false until the worker has set it, true from then on. -/
theorem thread_copies_safe (r : List Act) :
    let c := run init r
    c.bad = false ∧ c.refs = c.objs + (if c.worker < 2 then 1 else 0) ∧ c.frees = (if c.stateAlive then 0 else 1) ∧
    (0 < c.objs → readFinished c = some (decide (1 ≤ c.worker))) := by
  intro c
  have h := AslProofs.ThreadCopies.run_inv r _ AslProofs.ThreadCopies.init_inv
  refine ⟨h.nb, h.rc, h.fr, fun ho => ?_⟩
  have hrc := h.rc
  have hal : c.stateAlive = true := by
    have : 0 < c.refs := by
      show 0 < (run init r).refs
      have : 0 < (run init r).objs := ho
      omega
    rw [h.al]; simpa using this
  have hfl : c.finished = decide (1 ≤ c.worker) := h.fl
  unfold readFinished
  simp [ho, hal, hfl]

open AslModel.ThreadCopies in
/-- non-vacuity: the original is dropped while the thread runs, a copy reads `finished()` after the thread is over, then goes -/
example : let c := run init [Act.copy, Act.drop, Act.finish, Act.release]
    readFinished c = some true ∧ c.refs = 1 ∧ (run c [Act.drop]).frees = 1 ∧ (run c [Act.drop]).bad = false := by decide

end StartAndEnd

/-! ## timed waits, time-outs and spurious wake-ups (`AslModel/ThreadTimed.lean`) -/

section Timed
open AslModel.Thread.SyncT AslProofs.ThreadTimed

/-- **condition_timed_no_lost_signal.**  The documented protocol with any number `n` of waiters, each using
    `wait()` or `wait(timeout)` (`timed`), giving up on a time-out or not (`giveUp`), written with `while` or with the
    faulty `if` (`loops`), where the environment may wake any sleeping waiter at any moment without a signal
    (spurious wake-up) and may let any timed wait run out: in every interleaving no waiter is asleep once the
    signal has been issued, and once the signaler is done, as long as some waiter is not done there is a
    not-yet-done waiter that can take a step (no signal is lost, nobody is blocked for ever). -/
theorem condition_timed_no_lost_signal (n : Nat) (loops : Bool) (timed giveUp : Nat → Bool) (r : List Act)
    (c : CondT) (hc : c = run (init n loops timed giveUp) r) :
    (∀ i, c.w i = TPc.sleeping → c.s ≠ SPc.signalled ∧ c.s ≠ SPc.done) ∧
    (c.s = SPc.done → ∀ i, i < n → c.w i ≠ TPc.done → ∃ j, j < n ∧ c.w j ≠ TPc.done ∧ enabled c (Act.waiter j) = true) := by
  have h : TInv c := by rw [hc]; exact tinv_run _ r (tinv_init n loops timed giveUp)
  have hn : c.n = n := by rw [hc]; exact (run_consts _ r).1
  obtain ⟨h1, h2, h3, h4, h5, h6, h7, h8, h9⟩ := h
  constructor
  · intro i hs
    rcases h1 i hs with h | h | h <;> simp [h]
  · intro hd i hi hw
    have hm : c.mutex ≠ Holder.signaler := by
      intro hx; have := h3.mp hx; rw [hd] at this; simp at this
    have hsl : c.w i ≠ TPc.sleeping := by
      intro hx; have := h1 i hx; rw [hd] at this; simp at this
    cases hmc : c.mutex with
    | signaler => exact absurd hmc hm
    | waiter j =>
      have hj := h5 j hmc
      have hl := (h2 j).mp hmc
      refine ⟨j, by omega, by rcases hl with hl | hl <;> rw [hl] <;> simp, ?_⟩
      rcases hl with hl | hl <;> simp [enabled, hj, hl]
    | free =>
      refine ⟨i, hi, hw, ?_⟩
      have hin : i < c.n := by omega
      cases hwc : c.w i with
      | start => simp [enabled, hin, hwc, hmc]
      | locked => simp [enabled, hin, hwc]
      | sleeping => exact absurd hwc hsl
      | woken t => simp [enabled, hin, hwc, hmc]
      | leaving => simp [enabled, hin, hwc]
      | done => exact absurd hwc hw

/-- **condition_wait_returns_only_with_predicate.**  With the documented `while (!pred)` loop a waiter that has left the
    protocol either saw the predicate true under the mutex — and the predicate is then true — or its own timed wait
    reported a time-out and it chose to give up; a spurious wake-up never lets a waiter through, and an untimed
    waiter never reports a time-out. -/
theorem condition_wait_returns_only_with_predicate (n : Nat) (timed giveUp : Nat → Bool) (r : List Act)
    (c : CondT) (hc : c = run (init n true timed giveUp) r) (i : Nat) (hd : c.w i = TPc.done) :
    (c.sawPred i = true ∧ c.pred = true) ∨ (c.timedOut i = true ∧ timed i = true ∧ giveUp i = true) := by
  have h : TInv c := by rw [hc]; exact tinv_run _ r (tinv_init n true timed giveUp)
  have hk := run_consts (init n true timed giveUp) r
  rw [← hc] at hk
  obtain ⟨_, hl, ht, hg⟩ := hk
  have hl' : c.loops = true := by rw [hl]; rfl
  rcases h.leaveOk hl' i (Or.inr hd) with hs | ht'
  · exact Or.inl ⟨hs, h.sawOk i hs⟩
  · have := h.timedOutOk i ht'
    rw [ht, hg] at this
    exact Or.inr ⟨ht', this⟩

/-- **if_instead_of_while_unsafe.**  What the loop is for: the same waiter written `if (!pred) wait();` is let through by
    one spurious wake-up although the predicate is false and nothing was signalled. -/
theorem if_instead_of_while_unsafe :
    ∃ r : List Act, (run (init 1 false (fun _ => false) (fun _ => false)) r).w 0 = TPc.done ∧
      (run (init 1 false (fun _ => false) (fun _ => false)) r).pred = false ∧
      (run (init 1 false (fun _ => false) (fun _ => false)) r).sawPred 0 = false ∧
      (run (init 1 false (fun _ => false) (fun _ => false)) r).timedOut 0 = false :=
  ⟨[Act.waiter 0, Act.waiter 0, Act.wake 0 false, Act.waiter 0, Act.waiter 0], by decide⟩

/-- non-vacuity (tests, labelled as such): two waiters, one timed and giving up; a spurious wake-up sends waiter 0 back to
    sleep, waiter 1 times out and leaves, the signal then lets waiter 0 through with the predicate true. -/
def exTimedRun : CondT := run (init 2 true (fun i => i == 1) (fun i => i == 1))
      [Act.waiter 0, Act.waiter 0, Act.waiter 1, Act.waiter 1, Act.wake 0 false, Act.waiter 0, Act.waiter 0,
       Act.wake 1 true, Act.waiter 1, Act.waiter 1, Act.signaler, Act.signaler, Act.signaler, Act.signaler,
       Act.waiter 0, Act.waiter 0, Act.waiter 0]
example : exTimedRun.w 0 = TPc.done ∧ exTimedRun.w 1 = TPc.done ∧ exTimedRun.sawPred 0 = true ∧
    exTimedRun.timedOut 1 = true ∧ exTimedRun.sawPred 1 = false ∧ exTimedRun.wakeups = 2 := by decide

open AslModel.Thread.SemT AslProofs.SemT in
/-- **semaphore_failed_attempts_take_nothing.**  A semaphore used through `post()`, `wait()`, `trywait()` and
    `wait(timeout)` in any order, with any of the timed waits running out: initial count + completed posts = current
    count + attempts that reported success; an attempt that reports failure takes nothing, and `trywait()` reports
    failure exactly when the count is 0. -/
theorem semaphore_failed_attempts_take_nothing (k : Nat) (r : List AslModel.Thread.SemT.Op) :
    k + (AslModel.Thread.SemT.run (AslModel.Thread.SemT.init k) r).posts =
      (AslModel.Thread.SemT.run (AslModel.Thread.SemT.init k) r).count + (AslModel.Thread.SemT.run (AslModel.Thread.SemT.init k) r).taken ∧
    (∀ s : AslModel.Thread.SemT.Sem, AslModel.Thread.SemT.result s AslModel.Thread.SemT.Op.tryWait = false ↔ s.count = 0) := by
  constructor
  · exact conserved_run k _ r (by simp [Conserved, AslModel.Thread.SemT.init])
  · intro s; simp [AslModel.Thread.SemT.result]

example : (AslModel.Thread.SemT.run (AslModel.Thread.SemT.init 1)
    [.tryWait, .tryWait, .timedWait true, .post, .timedWait false, .wait, .post]).failed = 2 := by decide

end Timed

/-! ## the same threads started and joined again and again (`AslModel/ThreadRounds.lean`) -/

section Rounds
open AslModel.Thread.Rounds AslProofs.ThreadRounds

/-- **restarted_threads_run_once_per_round.**  `n` threads started and joined in any number of rounds (`ThreadGroup::start(); join();`
    in a loop), `join()` waiting on the thread itself: in every interleaving no join returns while its thread is still running, and
    whenever the creator stands between two rounds every body has completed exactly as many runs as there were rounds and every thread
    is joined; `finished()` is true exactly for the threads that have completed a run (it stays true into the next round). -/
theorem restarted_threads_run_once_per_round (n : Nat) (r : List Act) (c : Cfg) (hc : c = run (init n false) r) :
    c.early = false ∧ (∀ i, c.flag i = true ↔ 1 ≤ c.runs i) ∧
    (c.cpc = CPc.starting 0 → ∀ i, i < n → c.runs i = c.rounds ∧ c.ph i = WPh.idle) := by
  have h : RInv c := by rw [hc]; exact rinv_run _ r (rinv_init n)
  have hn : c.n = n := by rw [hc]; exact run_n _ r
  refine ⟨h.notEarly, h.flagIff, fun h0 i hi => ?_⟩
  have := ((h.starting 0 h0).2 i (by omega)).2 (Nat.zero_le _)
  exact ⟨this.2, this.1⟩

/-- **G obligation.**  In the current source `Thread::join` is an unconditional wait on the thread handle and `ThreadGroup::join` joins
    every member unconditionally: the model parameter `joinUsesFlag` is false. -/
theorem join_waits_on_the_thread : Gen.Thread.joinUsesFlag = false := by decide

/-- **join_by_flag_unsafe.**  A `join()` that returns at once when `finished()` is already true is wrong from the second round on:
    the flag is still set from the first round, the join returns while the body is running, and the round is counted with the body
    run only once. -/
theorem join_by_flag_unsafe :
    ∃ r : List Act, (run (init 1 true) r).early = true ∧ (run (init 1 true) r).rounds = 2 ∧ (run (init 1 true) r).runs 0 = 1 :=
  ⟨[Act.creator, Act.creator, Act.worker 0, Act.creator, Act.creator, Act.creator, Act.creator, Act.creator, Act.creator], by decide⟩

/-- non-vacuity (test, labelled as such): three rounds of two threads under the canonical schedule -/
example : (run (init 2 false) (sched 2 3)).rounds = 3 ∧ (run (init 2 false) (sched 2 3)).runs 1 = 3 ∧
    (run (init 2 false) (sched 2 3)).cpc = CPc.starting 0 := by decide

end Rounds

end C13
