import AslModel.Thread
import AslProofs.Thread
/-!
# C13 — Thread start/join, ThreadGroup and parallel_for run every task exactly once

Property theorems only (lemmas: `AslProofs/Thread.lean`; models: `AslModel/Thread.lean`).
-/
namespace C13
open AslModel.Thread AslProofs.Thread

/-! ## parallel_for(i0, i1, f, nth): every index of [i0, i1) exactly once, no other index -/

/-- **parallel_for_partition.**  For all integers `i0`, `i1` and every thread count `nth ≥ 1` the list of
    all invocations made by all workers contains exactly the indices of `[i0, i1)` … -/
theorem parallel_for_covers (i0 i1 : Int) (nth : Nat) (h : 1 ≤ nth) (x : Int) :
    x ∈ ParFor.all i0 i1 nth ↔ i0 ≤ x ∧ x < i1 := all_mem i0 i1 nth h x

/-- … and contains no index twice (so `f` runs exactly once per index; nothing runs when `i1 ≤ i0`). -/
theorem parallel_for_exactly_once (i0 i1 : Int) (nth : Nat) : (ParFor.all i0 i1 nth).Nodup :=
  all_nodup i0 i1 nth

theorem parallel_for_empty_range (i0 i1 : Int) (nth : Nat) (h : i1 ≤ i0) : ParFor.all i0 i1 nth = [] := by
  unfold ParFor.all
  have : (ParFor.nWorkers i0 i1 nth).toNat = 0 := by unfold ParFor.nWorkers; omega
  simp [this]

/-- the number of worker threads is `min(nth, i1 - i0)` and never exceeds the number of indices -/
theorem parallel_for_worker_count (i0 i1 : Int) (nth : Nat) :
    (ParFor.nWorkers i0 i1 nth).toNat ≤ nth ∧ (ParFor.nWorkers i0 i1 nth).toNat ≤ (i1 - i0).toNat := by
  unfold ParFor.nWorkers; omega

/-! ## creation / hand-over / join, for any number of workers and every interleaving -/

open Handover in
/-- **handover_safe.**  In every interleaving of the creator and any number `n` of workers (function
    threads with a stack context, `cf = false`, or subclassed threads started with `start()`, `cf = true`): no worker
    reads its stack-allocated context after the creator has left that scope, and no worker writes the
    finished flag of a `Thread` object that has been deleted. -/
theorem handover_safe (n : Nat) (cf : Bool) (s : List (Option Nat)) : (run (init n cf) s).bad = none :=
  (run_inv s (init n cf) (init_inv n cf) rfl).2

open Handover in
/-- **runs_once_and_join.**  When the creator has finished (all joins returned, all thread objects
    deleted), every worker body has run exactly once and every finished flag is set. -/
theorem runs_once_and_join (n : Nat) (cf : Bool) (s : List (Option Nat)) (hd : (run (init n cf) s).cpos = CPos.done) :
    ∀ j, j < n → (run (init n cf) s).ran j = 1 ∧ (run (init n cf) s).finished j = true := by
  intro j hj
  obtain ⟨hI, _⟩ := run_inv s (init n cf) (init_inv n cf) rfl
  have hn : (run (init n cf) s).n = n := by rw [run_n]; rfl
  have hp := hI.pos
  unfold PosInv at hp
  rw [hd] at hp
  have h5 := (hp j (by rw [hn]; exact hj)).1
  have hw := hI.w j (by rw [hn]; exact hj)
  unfold WInv at hw
  refine ⟨by rw [hw.2.1, h5]; rfl, hw.2.2.1.mpr h5⟩

open Handover in
/-- **join returns only after completion** and **finished_after_join**: whenever `join()` of thread `k` has
    returned (the creator is past it), that worker's body has run exactly once and `finished()` is true;
    and a body never runs more than once at any time. -/
theorem finished_after_join (n : Nat) (cf : Bool) (s : List (Option Nat)) (k : Nat)
    (hj : (run (init n cf) s).cpos = CPos.del k) :
    (run (init n cf) s).ran k = 1 ∧ (run (init n cf) s).finished k = true := by
  obtain ⟨hI, _⟩ := run_inv s (init n cf) (init_inv n cf) rfl
  have hp := hI.pos
  unfold PosInv at hp
  rw [hj] at hp
  obtain ⟨hk, h5, _⟩ := hp
  have hw := hI.w k hk
  unfold WInv at hw
  exact ⟨by rw [hw.2.1, h5]; rfl, hw.2.2.1.mpr h5⟩

open Handover in
theorem never_twice (n : Nat) (cf : Bool) (s : List (Option Nat)) (j : Nat) (hj : j < n) : (run (init n cf) s).ran j ≤ 1 := by
  obtain ⟨hI, _⟩ := run_inv s (init n cf) (init_inv n cf) rfl
  have hn : (run (init n cf) s).n = n := by rw [run_n]; rfl
  have hw := hI.w j (by rw [hn]; exact hj)
  unfold WInv at hw
  rw [hw.2.1]; split <;> omega

/-! ## Semaphore and Condition never lose a post or a signal -/

open Sync in
/-- **semaphore_no_lost_post.**  After any sequence of posts and waits: every post is either still
    counted or has been consumed by exactly one completed wait; and a wait is refused only when the
    count is 0 (i.e. every post made so far has already been consumed). -/
theorem semaphore_no_lost_post (s : Sem) (ops : List SemOp) :
    (s.run ops).count + (s.run ops).waits + s.posts = s.count + s.waits + (s.run ops).posts ∧
    ((s.run ops).canWait = false ↔ (s.run ops).count = 0) := by
  refine ⟨sem_conserved s ops, ?_⟩
  unfold Sem.canWait; simp

open Sync in
/-- **condition_no_lost_signal.**  Under the documented protocol (waiter: lock, `while(!pred) wait()`,
    unlock; signaler: lock, set pred, `signal()`, unlock), in every interleaving: the waiter is never
    asleep once the signal has been issued, and once the signaler is done the waiter can always make
    progress until it is done (it is never blocked for ever). -/
theorem condition_no_lost_signal (s : List Bool) :
    let c := Cond.init.run s
    (c.w = WPc.sleeping → c.s ≠ SPc.signalled ∧ c.s ≠ SPc.done) ∧
    (c.s = SPc.done → c.w ≠ WPc.done → c.enabled true = true) := by
  intro c
  have h : CInv c := cinv_run Cond.init s cinv_init
  obtain ⟨h1, h2, h3, h4, h5⟩ := h
  constructor
  · intro hs
    rcases h1 hs with h | h | h <;> simp [h]
  · intro hd hw
    have hm : c.mutex ≠ some false := by
      intro hx; have := h3.mp hx; rw [hd] at this; simp at this
    have hsl : c.w ≠ WPc.sleeping := by
      intro hx; have := h1 hx; rw [hd] at this; simp at this
    unfold Cond.enabled
    cases hwc : c.w with
    | start =>
      simp only
      cases hmc : c.mutex with
      | none => rfl
      | some b => cases b with
        | false => exact absurd hmc hm
        | true => have := h2.mp hmc; rw [hwc] at this; cases this
    | locked => rfl
    | sleeping => exact absurd hwc hsl
    | woken =>
      simp only
      cases hmc : c.mutex with
      | none => rfl
      | some b => cases b with
        | false => exact absurd hmc hm
        | true => have := h2.mp hmc; rw [hwc] at this; cases this
    | relocked => exact absurd hwc h5
    | done => exact absurd hwc hw

open SyncN Sync in
/-- **condition_no_lost_signal_n.**  The same protocol with *any number `n` of waiters* (`signal()` wakes
    every sleeping waiter, as `Condition::signal` does with its broadcast): in every interleaving no waiter
    is asleep once the signal has been issued, and once the signaler is done, as long as some waiter is
    not done there is a not-yet-done waiter that can take a step (nobody is blocked for ever, no deadlock). -/
theorem condition_no_lost_signal_n (n : Nat) (r : List (Option Nat)) :
    let c := run (init n) r
    (∀ i, c.w i = WPc.sleeping → c.s ≠ SPc.signalled ∧ c.s ≠ SPc.done) ∧
    (c.s = SPc.done → ∀ i, i < n → c.w i ≠ WPc.done → ∃ j, j < n ∧ c.w j ≠ WPc.done ∧ enabled c (some j) = true) := by
  intro c
  have h : NInv c := ninv_run (init n) r (ninv_init n)
  have hn : c.n = n := condn_run_n (init n) r
  obtain ⟨h1, h2, h3, h4, h5, h6⟩ := h
  constructor
  · intro i hs
    rcases h1 i hs with h | h | h <;> simp [h]
  · intro hd i hi hw
    have hm : c.mutex ≠ Holder.signaler := by
      intro hx; have := h3.mp hx; rw [hd] at this; simp at this
    have hsl : c.w i ≠ WPc.sleeping := by
      intro hx; have := h1 i hx; rw [hd] at this; simp at this
    cases hmc : c.mutex with
    | signaler => exact absurd hmc hm
    | waiter j =>
      have hj := h6 j hmc
      have hl := (h2 j).mp hmc
      refine ⟨j, by omega, by rw [hl]; simp, ?_⟩
      simp [enabled, hj, hl]
    | free =>
      refine ⟨i, hi, hw, ?_⟩
      have hin : i < c.n := by omega
      cases hwc : c.w i with
      | start => simp [enabled, hin, hwc, hmc]
      | locked => simp [enabled, hin, hwc]
      | sleeping => exact absurd hwc hsl
      | woken => simp [enabled, hin, hwc, hmc]
      | relocked => exact absurd hwc (h5 i)
      | done => exact absurd hwc hw

/-! ## non-vacuity (tests, labelled as such) -/

example : ParFor.all (-3) 4 3 = [-3, 0, 3, -2, 1, -1, 2] := by decide
example : ParFor.all 5 5 8 = [] := by decide
open Handover in
example : (run (init 2 true) [none, none, some 1, some 1, some 0, some 0, some 0, none, none, some 1, none, none]).cpos = CPos.done := by decide
open Handover in
example : (run (init 2) [none, some 0, some 0, none, none, some 1, some 1, none, some 0, some 0, some 1, some 1,
    none, none, none, none]).cpos = CPos.done := by decide
open Sync in
example : (Cond.init.run [true, true, false, false, false, false, true, true]).w = WPc.done := by decide

open SyncN Sync in
example : ((run (init 2) [some 0, some 0, some 1, some 1, none, none, none, none, some 1, some 1, some 0, some 0]).w 0,
    (run (init 2) [some 0, some 0, some 1, some 1, none, none, none, none, some 1, some 1, some 0, some 0]).w 1) = (WPc.done, WPc.done) := by decide

end C13
