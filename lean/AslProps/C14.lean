import AslModel.SockServer
import AslProofs.SockServer
import Gen.SockGen
import AslProofs.SockLive
/-!
# C14 — SocketServer serves each accepted connection exactly once and stops cleanly

Property theorems only (model: `AslModel/SockServer.lean`, lemmas: `AslProofs/SockServer.lean`).
Every theorem holds for any number `n` of connections, concurrent or sequential mode, and every
interleaving `r` of the environment, the accept loop, the handlers and the controller — including
accept-loop reads of `_requestStop` that still see the old value.
-/
namespace C14
open AslModel.SockServer AslProofs.SockServer

/-- **G obligation.**  The two facts the model takes from `src/SocketServer.cpp` (regenerated on every run): the accept
    loop skips a failed `accept()` before it counts the connection, and the destructor joins the accept thread before it
    frees it.  Every theorem below is stated for `init n q`, whose defaults are exactly these two facts: -/
theorem model_parameters_from_source (n : Nat) (q : Bool) :
    init n q Gen.Sock.joins Gen.Sock.skipsFailed = init n q := by rfl

/-- **serve_exactly_once.**  In every reachable state and for every connection: `serve()` has been
    entered at most once, it is entered only for an accepted and counted connection, it has returned
    iff the handler is past it, the client socket is closed only after `serve()` has returned, and a
    handler that has finished has served its connection exactly once. -/
theorem serve_exactly_once (n : Nat) (q : Bool) (r : List Act) (c : Nat) (hc : c < n) :
    let s := run (init n q) r
    s.serveBegins c ≤ 1 ∧ s.serveEnds c ≤ s.serveBegins c ∧
    (s.st c ≤ 3 → s.serveBegins c = 0) ∧
    (6 ≤ s.st c → s.serveBegins c = 1 ∧ s.serveEnds c = 1) := by
  intro s
  have hI : SInv s := run_inv r _ (init_inv n q)
  have hn : s.n = n := by
    have : ∀ (r : List Act) (s0 : Cfg), (run s0 r).n = s0.n := by
      intro r
      induction r with
      | nil => intro s0; rfl
      | cons a r ih =>
        intro s0
        unfold run
        split
        · rw [ih]
          unfold step
          cases a <;> simp only <;> (try split) <;> (try split) <;> rfl
        · exact ih s0
    exact this r (init n q)
  obtain ⟨h1, h2⟩ := hI.sb c (by rw [hn]; exact hc)
  rw [h1, h2]
  refine ⟨by split <;> omega, by split <;> split <;> omega, fun h => by simp; omega, fun h => ?_⟩
  constructor <;> (split <;> omega)

/-- **stop_sync_quiescent.**  In every reachable state in which `stop(true)` has returned (and also after
    the server has been destroyed): the accept loop has exited, `running()` is false, no handler is between
    its increment and its decrement of the client count — every accepted connection has been served, closed
    and un-counted — and no thread has used the destroyed server. -/
theorem stop_sync_quiescent (n : Nat) (q : Bool) (r : List Act)
    (h : (run (init n q) r).cpc = CPc.returned ∨ (run (init n q) r).cpc = CPc.destroyed) :
    let s := run (init n q) r
    s.apc = APc.exited ∧ s.running = false ∧ s.num = 0 ∧
    (∀ c, c < s.n → s.st c ≤ 1 ∨ 7 ≤ s.st c) ∧
    (∀ c, c < s.n → s.serveBegins c = s.serveEnds c) ∧ s.bad = false := by
  intro s
  have hI : SInv s := run_inv r _ (init_inv n q)
  have hex := hI.ctl1 (Or.inr h)
  have h0 := hI.ctl2 h
  have hrun : s.running = false := by
    by_cases hr : s.running = true
    · exact absurd hex (hI.runIff.mp hr)
    · simpa using hr
  have hfl : ∀ c, c < s.n → inF (s.st c) = false := by
    intro c hcn
    apply inFlight_zero s _ c hcn
    have := hI.numEq; omega
  refine ⟨hex, hrun, h0, ?_, ?_, hI.notBad⟩
  · intro c hc
    have h1 := hfl c hc
    have h2 : s.st c ≠ 2 := by
      intro hx; have := (hI.st2 c hc).mp hx; rw [hex] at this; cases this
    simp only [inF, decide_eq_false_iff_not] at h1
    omega
  · intro c hc
    have h1 := hfl c hc
    obtain ⟨a, b⟩ := hI.sb c hc
    simp only [inF, decide_eq_false_iff_not] at h1
    rw [a, b]
    split <;> split <;> omega

/-- **from then on**: after `stop(true)` has returned, whatever happens next (new connection attempts, the end of
    the accept thread, destruction), no further `serve()` call starts or ends, `running()` stays false, the accept loop stays
    exited, and the destroyed server is never used. -/
theorem after_stop_nothing_happens (n : Nat) (q : Bool) (r r' : List Act)
    (h : (run (init n q) r).cpc = CPc.returned ∨ (run (init n q) r).cpc = CPc.destroyed) :
    let s := run (init n q) r
    let s' := run s r'
    s'.serveBegins = s.serveBegins ∧ s'.serveEnds = s.serveEnds ∧ s'.running = false ∧ s'.apc = APc.exited ∧
    s'.bad = false := by
  intro s s'
  have hI : SInv s := run_inv r _ (init_inv n q)
  obtain ⟨a, b, c, d, _, _⟩ := after_return_stable r' s hI h
  have hq := stop_sync_quiescent n q r h
  have hI' : SInv s' := run_inv r' s hI
  exact ⟨a, b, by rw [c]; exact hq.2.1, by rw [d]; exact hq.1, hI'.notBad⟩

/-- the destroyed server is never touched, in any interleaving at all -/
theorem never_used_after_destruction (n : Nat) (q : Bool) (r : List Act) : (run (init n q) r).bad = false :=
  (run_inv r _ (init_inv n q)).notBad

/-- **accept_thread_ended_before_free.**  In every interleaving, when the server has been destroyed the accept thread
    has completely finished (it uses the `Thread` object the server owns until its very end): the destructor's
    `join()` is what guarantees it — see `destroy_without_join_unsafe`. -/
theorem accept_thread_ended_before_free (n : Nat) (q : Bool) (r : List Act)
    (h : (run (init n q) r).cpc = CPc.destroyed) : (run (init n q) r).threadDone = true :=
  (run_inv r _ (init_inv n q)).jn h

/-- the destructor as it was before its repair (cancel and free without waiting): `stop(true)` returns as soon as the
    loop has set `_running = false`, the server is destroyed, and the accept thread's last step then writes into the
    freed `Thread` object.  (Reproduced on the real library under ASan: known_findings.txt.) -/
theorem destroy_without_join_unsafe :
    (run (init 0 false false) [Act.reqStop, Act.check true, Act.readRunning, Act.readNum, Act.destroy, Act.loopEnd]).bad = true := by
  decide

/-- **only_connections_are_served.**  In every interleaving — including any number of failed `accept()` calls (descriptor
    exhaustion: the listening socket stays readable and the loop comes round again) — `serve()` is never called with a
    socket that is not a connection.  Together with `serve_exactly_once`: the `serve()` calls are exactly the accepted
    connections. -/
theorem only_connections_are_served (n : Nat) (q : Bool) (r : List Act) : (run (init n q) r).phantom = 0 :=
  (run_phantom r (init n q) rfl).1

/-- the accept loop as it was before its repair (a failed `accept()` counted and served like a connection): one failed
    accept is one `serve()` call on an invalid socket, with no client at all.  (Reproduced on the real library with an
    interposed `accept()` failing with EMFILE: known_findings.txt, 4613dd6.) -/
theorem failed_accept_served_unsafe :
    (run (init 0 false true false) [Act.acceptFail]).phantom = 1 ∧
    (run (init 0 false true false) [Act.acceptFail, Act.acceptFail, Act.acceptFail]).phantom = 3 := by decide

/-- failed accepts between real ones change nothing for the real ones -/
example : let s := run (init 1 false) [Act.acceptFail, Act.connect 0, Act.acceptFail, Act.accept 0, Act.count, Act.acceptFail,
      Act.hBegin 0, Act.hEnd 0, Act.hClose 0, Act.hDec 0, Act.reqStop, Act.acceptFail, Act.check true, Act.readRunning, Act.readNum]
    s.cpc = CPc.returned ∧ s.serveBegins 0 = 1 ∧ s.phantom = 0 := by decide

/-- the loop may also give up on its own (`waitInput` < 0) without any stop request: then `running()` is false while
    nobody called `stop` — the safety theorems above cover these runs too -/
example : (run (init 1 false) [Act.loopFail]).running = false ∧ (run (init 1 false) [Act.loopFail]).cpc = CPc.running := by decide

/-- the client counter always equals the number of connections between accept-count and handler end -/
theorem count_is_in_flight (n : Nat) (q : Bool) (r : List Act) :
    (run (init n q) r).num = (inFlight (run (init n q) r) : Int) :=
  (run_inv r _ (init_inv n q)).numEq

/-! ## non-vacuity (tests, labelled as such) -/

example : (run (init 2 false) [Act.connect 0, Act.accept 0, Act.count, Act.connect 1, Act.hBegin 0, Act.reqStop,
    Act.check true, Act.readRunning, Act.readNum, Act.readRunning, Act.hEnd 0, Act.hClose 0, Act.hDec 0,
    Act.readRunning, Act.readNum, Act.destroy, Act.loopEnd, Act.destroy]).cpc = CPc.destroyed := by decide

/-- the destructor waits: while the accept thread has not finished, `destroy` is not enabled (the first `destroy` above is skipped) -/
example : (run (init 1 false) [Act.reqStop, Act.check true, Act.readRunning, Act.readNum, Act.destroy]).cpc = CPc.returned := by decide

example : (run (init 1 true) [Act.connect 0, Act.accept 0, Act.count, Act.hBegin 0, Act.hEnd 0, Act.hClose 0, Act.hDec 0,
    Act.reqStop, Act.check false, Act.check true, Act.readRunning, Act.readNum]).cpc = CPc.returned := by decide

/-! ## progress: `stop(true)` is never blocked for ever (`AslProofs/SockLive.lean`) -/

open AslProofs.SockLive in
/-- **stop_sync_terminates.**  In every reachable state in which `stop(true)` has been called and has not yet returned — whatever
    the accept loop and the handlers were doing at that moment, in either mode — the server's own threads can bring it to its
    return without any new connection and without another `accept()`: there is a continuation of at most `mu` steps (what is left:
    the accept loop's way to its exit, 7 − status steps of every accepted connection, the controller's two reads), each of them
    enabled, after which `stop(true)` has returned.  (Possibility under a fair scheduler, not a time bound: the model has no clock.) -/
theorem stop_sync_terminates (n : Nat) (q : Bool) (r : List Act)
    (hp : (run (init n q) r).cpc = CPc.waiting ∨ (run (init n q) r).cpc = CPc.sawStopped) :
    ∃ r' : List Act, (run (run (init n q) r) r').cpc = CPc.returned ∧ r'.length ≤ mu (run (init n q) r) ∧
      (∀ a ∈ r', ∀ c, a ≠ Act.connect c ∧ a ≠ Act.accept c) :=
  stop_terminates_aux _ _ (run_inv r _ (init_inv n q)) hp (Nat.le_refl _)

open AslProofs.SockLive in
/-- …and at each of those states the step the scheduler takes is enabled and strictly decreases what is left (no deadlock, no livelock). -/
theorem stop_sync_progress (n : Nat) (q : Bool) (r : List Act)
    (hp : (run (init n q) r).cpc = CPc.waiting ∨ (run (init n q) r).cpc = CPc.sawStopped) :
    enabled (run (init n q) r) (next (run (init n q) r)) = true ∧
      mu (step (run (init n q) r) (next (run (init n q) r))) < mu (run (init n q) r) :=
  let h := next_progress _ (run_inv r _ (init_inv n q)) hp
  ⟨h.1, h.2.1⟩

/-- non-vacuity (test, labelled as such): concurrent mode, two connections accepted, one handler inside `serve()`, `stop(true)` waiting -/
example : (run (init 2 false) [Act.connect 0, Act.connect 1, Act.accept 0, Act.count, Act.accept 1, Act.count, Act.hBegin 0, Act.reqStop]).cpc = CPc.waiting ∧
    AslProofs.SockLive.mu (run (init 2 false) [Act.connect 0, Act.connect 1, Act.accept 0, Act.count, Act.accept 1, Act.count, Act.hBegin 0, Act.reqStop]) = 10 := by decide

end C14
