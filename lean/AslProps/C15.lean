import AslModel.Codec
import AslModel.Sha1
import AslProofs.Codec
import AslProofs.CodecExt
import AslProofs.Sha1
import AslProofs.Sha1Std
import AslProofs.Sha1Raw
import AslProofs.Query3
/-!
# C15 — Base64, hex, percent-encoding and SHA-1 match their standards on all inputs

Property theorems only (helper lemmas: `AslProofs/Codec.lean`).  The specifications below are
written from the standards, *not* from the code: the RFC 4648 alphabet is a literal, so a changed
entry of `base64_chars` / `base64_chars_inv` in `src/util.cpp` (regenerated into
`Gen/TablesGen.lean` on every run) breaks `alphabet_is_rfc` / `inverse_table_is_inverse`.
-/
namespace C15
open AslModel.Codec AslProofs.Codec Gen.Tables

/-! ## specifications -/
namespace Rfc
/-- RFC 4648 Table 1 -/
def alphabet : List UInt8 := [
  65, 66, 67, 68, 69, 70, 71, 72, 73, 74, 75, 76, 77, 78, 79, 80, 81, 82, 83, 84, 85, 86, 87, 88, 89, 90,
  97, 98, 99, 100, 101, 102, 103, 104, 105, 106, 107, 108, 109, 110, 111, 112, 113, 114, 115, 116, 117,
  118, 119, 120, 121, 122, 48, 49, 50, 51, 52, 53, 54, 55, 56, 57, 43, 47]
def sym (k : Nat) : UInt8 := alphabet.getD k 0
/-- RFC 4648 §4: 24-bit groups → four 6-bit indices; `=` padding for 1 or 2 final bytes -/
def base64 : List UInt8 → List UInt8 := rfcWith sym
/-- lowercase base-16 -/
def hexDigit (n : Nat) : UInt8 := [48, 49, 50, 51, 52, 53, 54, 55, 56, 57, 97, 98, 99, 100, 101, 102].getD n 0
def hex (d : List UInt8) : List UInt8 := d.flatMap fun b => [hexDigit (b.toNat / 16), hexDigit (b.toNat % 16)]
end Rfc

/-! ## G obligations: the tables in the source are the standard ones -/

theorem alphabet_is_rfc : b64chars = Rfc.alphabet := by decide

theorem inverse_table_is_inverse : ∀ k, k < 64 → inv (chr k) = k := inv_chr

theorem alphabet_symbols_are_symbols :
    ∀ k, k < 64 → isSym (chr k) = true ∧ isSpace (chr k) = false ∧ chr k ≠ 0 ∧ chr k ≠ eqSign := chr_props

theorem percent_is_never_kept : ∀ comp, (urlKeep comp).contains 37 = false := keep_no_percent

/-! ## Base64 -/

/-- the encoder produces the RFC 4648 text for every byte array -/
theorem base64_rfc (d : List UInt8) : encodeBase64 d = Rfc.base64 d := by
  rw [encode_eq_rfcWith]
  have : chr = Rfc.sym := by funext k; simp [chr, Rfc.sym, alphabet_is_rfc]
  rw [this]; rfl

/-- decoding any whitespace-interleaved copy `w` of the encoding returns the original bytes -/
theorem base64_roundtrip_ws (d w : List UInt8) (h0 : ∀ c ∈ w, c ≠ 0)
    (hw : w.filter (fun c => !isSpace c) = encodeBase64 d) : decodeBase64 w = d := by
  rw [encode_eq_rfcWith] at hw
  have hnul : w.takeWhile (· != 0) = w := by
    apply takeWhile_all
    intro c hc; simpa using h0 c hc
  unfold decodeBase64 decWritten
  rw [hnul, hw]
  by_cases hd : d = []
  · subst hd; simp [rfcWith, decGroups]
  · obtain ⟨j, hj, hjl⟩ := decGroups_rfc d
    obtain ⟨x, hx, hs⟩ := rfc_head_sym d hd
    have hxw : x ∈ w := by
      have : x ∈ w.filter (fun c => !isSpace c) := by rw [hw]; exact hx
      exact (List.mem_filter.mp this).1
    have hlen : ¬ w.length < 4 := by
      have h1 : (w.filter (fun c => !isSpace c)).length ≤ w.length := List.length_filter_le _ _
      have h2 : (rfcWith chr d).length ≥ 4 := by
        match d, hd with
        | a :: b :: c :: t, _ => simp [rfcWith]
        | [a, b], _ => simp [rfcWith]
        | [a], _ => simp [rfcWith]
      rw [hw] at h1; omega
    simp only [hlen, if_false]
    rw [padCount_eq0 w ⟨x, hxw, hs⟩, padCount0_filter, hw, padCount0_rfc, hj, List.length_append, hjl]
    simp

/-- decode ∘ encode = id for every byte array -/
theorem base64_roundtrip (d : List UInt8) : decodeBase64 (encodeBase64 d) = d := by
  apply base64_roundtrip_ws d
  · intro c hc
    rw [encode_eq_rfcWith] at hc
    have : ∀ d : List UInt8, ∀ c ∈ rfcWith chr d, c ≠ 0 := by
      intro d
      fun_induction rfcWith chr d with
      | case1 a b c t ih =>
        have ha := a.toNat_lt; have hb := b.toNat_lt; have hc := c.toNat_lt
        intro x hx
        simp only [List.cons_append, List.nil_append, List.mem_cons] at hx
        rcases hx with rfl | rfl | rfl | rfl | hx
        · exact (chr_props _ (by omega)).2.2.1
        · exact (chr_props _ (by omega)).2.2.1
        · exact (chr_props _ (by omega)).2.2.1
        · exact (chr_props _ (by omega)).2.2.1
        · exact ih x hx
      | case2 a b =>
        have ha := a.toNat_lt; have hb := b.toNat_lt
        intro x hx
        simp only [List.mem_cons, List.not_mem_nil, or_false] at hx
        rcases hx with rfl | rfl | rfl | rfl
        · exact (chr_props _ (by omega)).2.2.1
        · exact (chr_props _ (by omega)).2.2.1
        · exact (chr_props _ (by omega)).2.2.1
        · decide
      | case3 a =>
        have ha := a.toNat_lt
        intro x hx
        simp only [List.mem_cons, List.not_mem_nil, or_false] at hx
        rcases hx with rfl | rfl | rfl | rfl
        · exact (chr_props _ (by omega)).2.2.1
        · exact (chr_props _ (by omega)).2.2.1
        · decide
        · decide
      | case4 => intro x hx; simp at hx
    exact this d c hc
  · apply List.filter_eq_self.mpr
    intro c hc
    rw [encode_eq_rfcWith] at hc
    have : ∀ d : List UInt8, ∀ c ∈ rfcWith chr d, isSpace c = false := by
      intro d
      fun_induction rfcWith chr d with
      | case1 a b c t ih =>
        have ha := a.toNat_lt; have hb := b.toNat_lt; have hc := c.toNat_lt
        intro x hx
        simp only [List.cons_append, List.nil_append, List.mem_cons] at hx
        rcases hx with rfl | rfl | rfl | rfl | hx
        · exact (chr_props _ (by omega)).2.1
        · exact (chr_props _ (by omega)).2.1
        · exact (chr_props _ (by omega)).2.1
        · exact (chr_props _ (by omega)).2.1
        · exact ih x hx
      | case2 a b =>
        have ha := a.toNat_lt; have hb := b.toNat_lt
        intro x hx
        simp only [List.mem_cons, List.not_mem_nil, or_false] at hx
        rcases hx with rfl | rfl | rfl | rfl
        · exact (chr_props _ (by omega)).2.1
        · exact (chr_props _ (by omega)).2.1
        · exact (chr_props _ (by omega)).2.1
        · decide
      | case3 a =>
        have ha := a.toNat_lt
        intro x hx
        simp only [List.mem_cons, List.not_mem_nil, or_false] at hx
        rcases hx with rfl | rfl | rfl | rfl
        · exact (chr_props _ (by omega)).2.1
        · exact (chr_props _ (by omega)).2.1
        · decide
        · decide
      | case4 => intro x hx; simp at hx
    simp [this d c hc]

theorem decGroups_length (l : List Nat) : (decGroups l).length = l.length / 4 * 3 := by
  fun_induction decGroups l with
  | case1 k0 k1 k2 k3 t ih => simp [triple, ih]; omega
  | case2 l h =>
    match l, h with
    | [], _ => simp
    | [_], _ => simp
    | [_, _], _ => simp
    | [_, _, _], _ => simp
    | a :: b :: c :: d :: t, h => exact absurd rfl (h a b c d t)

/-- for *every* text the decoder's writes fit the `len/4*3` buffer it allocated and the returned
    array is a prefix of what was written (length ≥ 0 by construction, see `base64_len_clamped`) -/
theorem base64_total (w : List UInt8) :
    (decWritten w).length ≤ w.length / 4 * 3 ∧ (decodeBase64 w).length ≤ w.length / 4 * 3 := by
  have h1 : (decWritten w).length ≤ w.length / 4 * 3 := by
    unfold decWritten
    rw [decGroups_length, List.length_map]
    have a1 : ((w.takeWhile (· != 0)).filter (fun c => !isSpace c)).length ≤ (w.takeWhile (· != 0)).length :=
      List.length_filter_le _ _
    have a2 : (w.takeWhile (· != 0)).length ≤ w.length := length_takeWhile_le' _ _
    have : ((w.takeWhile (· != 0)).filter (fun c => !isSpace c)).length / 4 ≤ w.length / 4 :=
      Nat.div_le_div_right (by omega)
    omega
  refine ⟨h1, ?_⟩
  unfold decodeBase64
  split
  · simp
  · simp only [List.length_take]; omega

/-- the repaired code returns `max 0 (written − e)` elements; the unrepaired difference can be
    negative (`"========"` gave −1: the defect fixed in /repo, kept here as a witness) -/
theorem base64_len_clamped (w : List UInt8) :
    ((decodeBase64 w).length : Int) = max 0 (decodeBase64LenRaw w) := by
  unfold decodeBase64 decodeBase64LenRaw
  split
  · simp
  · simp only [List.length_take]; omega

theorem base64_raw_negative_witness :
    decodeBase64LenRaw [61, 61, 61, 61, 61, 61, 61, 61] = -1 := by decide

/-! ## hex -/

theorem hex_is_lowercase_base16 (d : List UInt8) : encodeHex d = Rfc.hex d := by
  unfold encodeHex Rfc.hex
  congr 1; funext b
  have := b.toNat_lt
  rw [hexDigitLower_spec _ (by omega), hexDigitLower_spec _ (by omega)]; rfl

theorem hex_roundtrip (d : List UInt8) : decodeHex (encodeHex d) = d := AslProofs.Codec.hex_roundtrip d

/-- odd or even, junk or not: exactly `len/2` elements (no write past the array) -/
theorem hex_total (s : List UInt8) : (decodeHex s).length = s.length / 2 := AslProofs.Codec.hex_total s

/-! ## percent-encoding -/

theorem url_roundtrip (s : List UInt8) (component : Bool) : urlDecode (urlEncode s component) = s :=
  AslProofs.Codec.url_roundtrip s component

/-- the encoder's output consists of unreserved bytes and `%XX` only: it never emits a raw byte that
    is neither alphanumeric nor in the mode's keep-set -/
theorem url_encode_safe (s : List UInt8) (component : Bool) :
    ∀ c ∈ urlEncode s component, isAlnumC c = true ∨ (urlKeep component).contains c = true ∨ c = 37 := by
  induction s with
  | nil => simp [urlEncode]
  | cons x t ih =>
    intro c hc
    simp only [urlEncode, List.flatMap_cons, List.mem_append] at hc ih
    rcases hc with hc | hc
    · split at hc
      · simp only [List.mem_cons, List.not_mem_nil, or_false] at hc
        rcases hc with rfl | rfl | rfl
        · exact Or.inr (Or.inr rfl)
        · left
          have : ∀ n, n < 256 → isAlnumC (hexNibble (n >>> 4)) = true := by decide +kernel
          exact this _ x.toNat_lt
        · left
          have : ∀ n, n < 256 → isAlnumC (hexNibble (n &&& 0x0f)) = true := by decide +kernel
          exact this _ x.toNat_lt
      · rename_i h
        simp only [List.mem_cons, List.not_mem_nil, or_false] at hc
        subst hc
        simp only [Bool.and_eq_true, Bool.not_eq_eq_eq_not, Bool.not_true, not_and, Bool.not_eq_false] at h
        by_cases ha : isAlnumC c = true
        · exact Or.inl ha
        · exact Or.inr (Or.inl (h (by simpa using ha)))
    · exact ih c hc


/-- `Url::decode` on arbitrary text (malformed or truncated escapes anywhere): never longer than its input, so its
    appends stay within what `String` reserves; a `%` in the last two positions reads at most the terminator -/
theorem url_decode_total (s : List UInt8) : (urlDecode s).length ≤ s.length := by
  fun_induction urlDecode s <;> simp_all <;> omega

/-! ## query strings -/
section Query
open AslModel.Query

/-- a `Dic<>` value: entries in strictly increasing key order under `String::operator<`, i.e. `strcmp`, which
    compares the C strings (the bytes before the first NUL): two keys that differ only after a NUL are one key -/
def IsDic (d : Dict) : Prop := d.Pairwise fun a b => strLt a.1 b.1 = true

/-- every `Dic<>` built by assignments `d[k] = v` (in any order, with repeated keys) is such a value -/
theorem dic_values_are_sorted (l : Dict) : IsDic (ofPairs l) := AslProofs.Query.ofPairs_sorted_any l

/-- **query_roundtrip.**  `Url::parseQuery(Url::params(d)) = d` for every dictionary with non-empty keys:
    any number of entries, any bytes in keys and values (`&`, `=`, `+`, `%`, spaces, non-ASCII …). -/
theorem query_roundtrip (d : Dict) (hd : IsDic d) (hk : ∀ kv ∈ d, kv.1 ≠ []) : parseQuery (params d) = d :=
  AslProofs.Query.query_roundtrip d hd hk

/-- the same, for dictionaries as programs build them -/
theorem query_roundtrip_built (l : Dict) (hk : ∀ kv ∈ l, kv.1 ≠ []) :
    parseQuery (params (ofPairs l)) = ofPairs l := by
  refine query_roundtrip _ (dic_values_are_sorted l) ?_
  intro kv h
  obtain ⟨y, hy, he⟩ := AslProofs.Query.ofPairs_keys l kv h
  rw [← he]; exact hk y hy

/-- the hypothesis is needed: an entry with an empty key is dropped (`j > 0` in `String::split(sep1, sep2)`) -/
theorem query_empty_key_lost : parseQuery (params [([], [120])]) = [] := by decide

example : parseQuery (params [([38, 61], [43, 32, 37]), ([97], [])]) = [([38, 61], [43, 32, 37]), ([97], [])] := by decide

end Query

/-! ## SHA-1 -/

/-- **sha1_eq_spec.**  `SHA1::hash` (streaming `update`/`end` with the 64-byte buffer, the in-place circular
    16-word schedule and padding through repeated one-byte updates) equals FIPS 180-4 SHA-1 (pad the whole
    message, 80-word schedule, fold the compression function) for every message. -/
theorem sha1_eq_spec (m : List UInt8) : AslModel.Sha1.Impl.hash m = AslModel.Sha1.Fips.sha1 m :=
  AslProofs.Sha1.hash_eq_fips m

/-- the digest does not depend on how the message is cut into `update` calls -/
theorem sha1_chunking_irrelevant (ds : List (List UInt8)) :
    AslModel.Sha1.Impl.hashChunks ds = AslModel.Sha1.Fips.sha1 ds.flatten :=
  AslProofs.Sha1.hashChunks_eq_fips ds

/-- **sha1_eq_standard.**  `SHA1::hash` equals FIPS 180-4 SHA-1 *as printed*: `Std.sha1` is written from the
    standard alone (Ch / Parity / Maj, K_t, H(0), ROTL, the 80-word schedule, §5.1.1 padding) and shares no round
    function, constant, rotation or padding with the implementation model. -/
theorem sha1_eq_standard (m : List UInt8) : AslModel.Sha1.Impl.hash m = AslModel.Sha1.Std.sha1 m := by
  rw [AslProofs.Sha1.hash_eq_fips, AslProofs.Sha1Std.fips_eq_std]

/-- **sha1_streaming_eq_standard.**  Every partition of a message into `update` calls — empty pieces, pieces that end inside
    a 64-byte block, pieces spanning several blocks — followed by `end()` gives FIPS 180-4 SHA-1 *as printed* of the whole message -/
theorem sha1_streaming_eq_standard (ds : List (List UInt8)) :
    AslModel.Sha1.Impl.hashChunks ds = AslModel.Sha1.Std.sha1 ds.flatten := by
  rw [AslProofs.Sha1.hashChunks_eq_fips, AslProofs.Sha1Std.fips_eq_std]

/-- **sha1_object_streaming_eq_standard.**  The `SHA1` object as the source keeps it — all 64 bytes of `buffer` with whatever
    earlier blocks left in them, `j` recomputed from `count[0]` on every call, the two `memcpy`s, the `transform(&data[i])` loop
    over offsets, the two 32-bit count words with their carry test, `end()` building `finalcount` from the words and padding
    through its own one-byte `update`s while `(count[0] & 504) != 448` — driven by ANY sequence of `update(data, len)` calls
    (`int len ≥ 0`; empty pieces, pieces ending inside a block, pieces spanning blocks) and `end()`, returns FIPS 180-4 SHA-1
    *as printed* of the concatenation -/
theorem sha1_object_streaming_eq_standard (ds : List (List UInt8)) (hd : ∀ d ∈ ds, d.length < 2 ^ 31) :
    AslModel.Sha1.Raw.hashChunks ds = AslModel.Sha1.Std.sha1 ds.flatten := by
  rw [AslProofs.Sha1Raw.raw_hashChunks_eq ds hd, AslProofs.Sha1.hashChunks_eq_fips, AslProofs.Sha1Std.fips_eq_std]

example : ∀ d ∈ [[97], [], List.replicate 70 98, [99]], d.length < 2 ^ 31 := by decide

/-- `SHA1::hash(data, len)` on that object -/
theorem sha1_object_hash_eq_standard (m : List UInt8) (hm : m.length < 2 ^ 31) :
    AslModel.Sha1.Raw.hash m = AslModel.Sha1.Std.sha1 m := by
  have := sha1_object_streaming_eq_standard [m] (by simpa using hm)
  simpa [AslModel.Sha1.Raw.hashChunks, AslModel.Sha1.Raw.hash] using this

/-- the object model is the streaming-context model, call by call -/
theorem sha1_object_refines_context (ds : List (List UInt8)) (hd : ∀ d ∈ ds, d.length < 2 ^ 31) :
    AslModel.Sha1.Raw.hashChunks ds = AslModel.Sha1.Impl.hashChunks ds := AslProofs.Sha1Raw.raw_hashChunks_eq ds hd

/-- the code's boolean round functions `(w&(x^y))^y`, `w^x^y`, `((w|x)&y)|(w&x)` are Ch, Parity and Maj, bit for bit -/
theorem sha1_round_functions_standard (t : Nat) (b c d : UInt32) :
    AslModel.Sha1.f t b c d = AslModel.Sha1.Std.ft t b c d := AslProofs.Sha1Std.f_eq t b c d

/-- the padded message is a whole number of 512-bit blocks (so no tail is silently dropped by the block split) -/
theorem sha1_pad_block_multiple (m : List UInt8) : (AslModel.Sha1.Std.pad m).length % 64 = 0 :=
  AslProofs.Sha1Std.pad_length m

/-- the bit counter's two 32-bit words, updated as `SHA1::update` does, hold exactly (old count + 8·len) mod 2^64
    for every `int len ≥ 0` — with signed words (the code before its repair) this fails from len = 2^28 on -/
theorem sha1_count_words_exact (c0 c1 : UInt32) (len : Nat) (hl : len < 2 ^ 31) :
    (AslModel.Sha1.Impl.countWords c0 c1 len).2.toNat * 2 ^ 32 + (AslModel.Sha1.Impl.countWords c0 c1 len).1.toNat =
      (c1.toNat * 2 ^ 32 + c0.toNat + 8 * len) % 2 ^ 64 := AslProofs.Sha1Std.count_words_exact c0 c1 len hl

/-- G obligations: what src/SHA1.cpp says now (macros R0..R4, the 80 unrolled calls, initial state, counter type) -/
theorem sha1_source_constants :
    (∀ t, t < 80 → AslModel.Sha1.k t = sha1K.getD (if t < 16 then 0 else if t < 20 then 1 else if t < 40 then 2 else if t < 60 then 3 else 4) 0) ∧
    sha1F = [0, 0, 1, 2, 1] ∧
    sha1Init = [AslModel.Sha1.init.a, AslModel.Sha1.init.b, AslModel.Sha1.init.c, AslModel.Sha1.init.d, AslModel.Sha1.init.e] ∧
    sha1CountUnsigned = true := by
  refine ⟨by decide +kernel, by decide, by decide, by decide⟩

/-- FIPS 180-4 two-block example ("abcdbcdecdefdefgefghfghighijhijkijkljklmklmnlmnomnopnopq"), on the standard spec -/
theorem std_spec_two_blocks : AslModel.Sha1.Std.sha1
    [97,98,99,100,98,99,100,101,99,100,101,102,100,101,102,103,101,102,103,104,102,103,104,105,103,104,105,106,104,105,106,107,
     105,106,107,108,106,107,108,109,107,108,109,110,108,109,110,111,109,110,111,112,110,111,112,113] =
    [0x84, 0x98, 0x3E, 0x44, 0x1C, 0x3B, 0xD2, 0x6E, 0xBA, 0xAE, 0x4A, 0xA1, 0xF9, 0x51, 0x29, 0xE5, 0xE5, 0x46, 0x70, 0xF1] := by
  decide +kernel

/-- the specification itself on the FIPS 180 test vector "abc" (a test of the spec, labelled as such) -/
theorem fips_spec_abc : AslModel.Sha1.Fips.sha1 [97, 98, 99] =
    [0xA9, 0x99, 0x3E, 0x36, 0x47, 0x06, 0x81, 0x6A, 0xBA, 0x3E, 0x25, 0x71, 0x78, 0x50, 0xC2, 0x6C, 0x9C, 0xD0, 0xD8, 0x9D] := by
  decide +kernel

/-! ## extension: folded Base64, what the decoder does not accept, literal bytes of `Url::encode` -/

/-- **base64_roundtrip_folded.**  Folding the Base64 text into lines of any length `n` with CR LF (MIME: 76, PEM: 64) does
    not change what `decodeBase64` returns -/
theorem base64_roundtrip_folded (n : Nat) (d : List UInt8) : decodeBase64 (foldLines n (encodeBase64 d)) = d := by
  have hch := AslProofs.CodecExt.rfc_chars d
  rw [← encode_eq_rfcWith] at hch
  apply base64_roundtrip_ws
  · intro c hc
    rcases AslProofs.CodecExt.wrapAux_mem n n _ c hc with h | h | h
    · exact (hch c h).2
    · subst h; decide
    · subst h; decide
  · unfold foldLines
    rw [AslProofs.CodecExt.wrapAux_filter]
    apply List.filter_eq_self.mpr
    intro c hc; simp [(hch c hc).1]

/-- the MIME case: a CR LF after every 76 characters -/
theorem base64_roundtrip_mime76 (d : List UInt8) : decodeBase64 (mimeWrap (encodeBase64 d)) = d :=
  base64_roundtrip_folded 76 d

example : mimeWrap (List.replicate 77 65) = List.replicate 76 65 ++ [13, 10, 65] := by decide +kernel

/-- the URL-safe alphabet of RFC 4648 §5 is *not* accepted: `-` and `_` (like every byte outside the alphabet) have
    table value 0, i.e. they are read as `A` -/
theorem base64_urlsafe_not_supported : inv 45 = 0 ∧ inv 95 = 0 ∧ inv 43 = 62 ∧ inv 47 = 63 ∧
    decodeBase64 [45, 95, 45, 95] = [0, 0, 0] ∧ decodeBase64 [43, 47, 43, 47] = [0xfb, 0xff, 0xbf] := by decide +kernel

/-- **base64_unpadded_loses_tail.**  The RFC 4648 text with its `=` signs omitted (§3.2) is accepted, but only the complete
    3-byte groups come back: the last `length % 3` bytes are lost, for every byte array (nothing is lost iff `length % 3 = 0`) -/
theorem base64_unpadded_loses_tail (d : List UInt8) :
    decodeBase64 ((encodeBase64 d).filter (· != 61)) = d.take (d.length / 3 * 3) := by
  rw [encode_eq_rfcWith]
  exact AslProofs.CodecExt.decode_unp d

example : decodeBase64 ((encodeBase64 [102, 111, 111, 98]).filter (· != 61)) = [102, 111, 111] := by decide +kernel

/-- padding is counted, not checked: without its `==`, `"Zm9vYg"` (`"foob"`) gives `"foo"` (an incomplete last group
    writes nothing); with one `=` of the two, `"Zm9vYg="` gives `"fo"` (nothing written for the group, one more byte taken
    off); excess padding `"Zm9v===="` gives `"fo"` (the `====` group is decoded as data, then four bytes are taken off);
    the correctly padded text gives `"foob"` -/
theorem base64_padding_is_counted_not_checked :
    decodeBase64 [90, 109, 57, 118, 89, 103] = [102, 111, 111] ∧
    decodeBase64 [90, 109, 57, 118, 89, 103, 61] = [102, 111] ∧
    decodeBase64 [90, 109, 57, 118, 61, 61, 61, 61] = [102, 111] ∧
    decodeBase64 [90, 109, 57, 118, 89, 103, 61, 61] = [102, 111, 111, 98] := by decide +kernel

namespace Rfc3986
/-- RFC 3986 §2.3: ALPHA / DIGIT / "-" / "." / "_" / "~" -/
def unreserved (c : UInt8) : Bool :=
  (65 ≤ c && c ≤ 90) || (97 ≤ c && c ≤ 122) || (48 ≤ c && c ≤ 57) || c == 45 || c == 46 || c == 95 || c == 126
/-- `! * ' ( )` — sub-delims that `encodeURIComponent` (and this library) also leaves alone -/
def marks : List UInt8 := [33, 42, 39, 40, 41]
/-- `; / ? : @ & = + $ , #` — delimiters of a whole URL, literal only in the non-component mode -/
def delims : List UInt8 := [59, 47, 63, 58, 64, 38, 61, 43, 36, 44, 35]
def literal (component : Bool) (c : UInt8) : Bool :=
  unreserved c || marks.contains c || (!component && delims.contains c)
def upperHex (n : Nat) : UInt8 := [48, 49, 50, 51, 52, 53, 54, 55, 56, 57, 65, 66, 67, 68, 69, 70].getD n 0
/-- §2.1: "%" HEXDIG HEXDIG, upper case -/
def pct (c : UInt8) : List UInt8 := [37, upperHex (c.toNat / 16), upperHex (c.toNat % 16)]
def encByte (component : Bool) (c : UInt8) : List UInt8 := if literal component c then [c] else pct c
end Rfc3986

/-- all 2 × 256 cases: a byte stays literal exactly when it is RFC 3986 unreserved, one of `!*'()`, or (full-URL mode only)
    one of `;/?:@&=+$,#`; every other byte becomes `%XX` with upper-case digits -/
theorem url_literal_bytes (component : Bool) (c : UInt8) :
    urlEncode [c] component = Rfc3986.encByte component c := by
  have h : ∀ comp, ∀ n, n < 256 → urlEncode [UInt8.ofNat n] comp = Rfc3986.encByte comp (UInt8.ofNat n) := by
    decide +kernel
  have := h component c.toNat c.toNat_lt
  simpa using this

/-- … lifted to strings -/
theorem url_encode_is_rfc3986 (s : List UInt8) (component : Bool) :
    urlEncode s component = s.flatMap (Rfc3986.encByte component) := by
  induction s with
  | nil => simp [urlEncode]
  | cons c t ih =>
    rw [AslProofs.CodecExt.urlEncode_cons, ih, url_literal_bytes, List.flatMap_cons]

/-- every RFC 3986 unreserved byte is literal in both modes, and a string of literal bytes is left unchanged -/
theorem url_unreserved_unchanged (s : List UInt8) (component : Bool) (h : ∀ c ∈ s, Rfc3986.unreserved c = true) :
    urlEncode s component = s := by
  rw [url_encode_is_rfc3986]
  induction s with
  | nil => rfl
  | cons c t ih =>
    have hc := h c List.mem_cons_self
    rw [List.flatMap_cons, ih (fun x hx => h x (List.mem_cons_of_mem _ hx))]
    simp [Rfc3986.encByte, Rfc3986.literal, hc]

/-- the component mode encodes every delimiter of RFC 3986 §2.2 except `!*'()`; the full-URL mode keeps `;/?:@&=+$,#` -/
theorem url_modes_differ_exactly :
    ∀ n, n < 256 → (Rfc3986.literal false (UInt8.ofNat n) ≠ Rfc3986.literal true (UInt8.ofNat n) ↔ Rfc3986.delims.contains (UInt8.ofNat n) = true) := by
  decide +kernel

example : urlEncode [97, 47, 126, 32, 43] true = [97, 37, 50, 70, 126, 37, 50, 48, 37, 50, 66] := by decide
example : urlEncode [97, 47, 126, 32, 43] false = [97, 47, 126, 37, 50, 48, 43] := by decide
example : ∀ c ∈ [97, 45, 126], Rfc3986.unreserved c = true := by decide

/-! ## non-vacuity / sanity instances (tests, labelled as such) -/

example : encodeBase64 [102, 111, 111, 98, 97] = [90, 109, 57, 118, 89, 109, 69, 61] := by decide  -- "fooba" → "Zm9vYmE="
example : decodeBase64 [90, 109, 32, 57, 118, 10, 89, 109, 69, 61] = [102, 111, 111, 98, 97] := by decide
example : decodeHex [97, 98, 99] = [0xab] := by decide +kernel
example : urlEncode [97, 32, 47] true = [97, 37, 50, 48, 37, 50, 70] := by decide

end C15
