import AslModel.Stream
import AslProps.C16Spec
import AslProofs.Stream
import AslProofs.StreamSpec
import AslProofs.StreamFrag
/-!
# C16 — endian-aware binary streams write canonical bytes and read them back

Property theorems only.  The specification `C16.Spec` (textbook big/little-endian positional notation; a
stream = concatenation of the encodings of its items under the byte order in force; `toItem`, `mirror`,
`expected`) is in `AslProps/C16Spec.lean`; helper lemmas are in `AslProofs/Stream.lean` and
`AslProofs/StreamSpec.lean`.

The theorems are about the functions the model driver runs (`writeOp`, `readOp`, and their folds over a
history `writeAll`, `readAll`) for all three classes (`Kind`), instantiated with the definitions
regenerated from the source (`Gen/StreamGen.lean`): a changed byte-order test, byte count, shift, index,
`readN` dispatch or `ASL_OTHER_ENDIAN` breaks one of the `gen_*` obligations or a theorem below.
-/
namespace C16
open AslModel.Stream AslProofs.Stream AslProofs.StreamSpec Gen.Stream Spec

/-! ## G obligations: what the source says now -/

/-- `ASL_OTHER_ENDIAN` is the order that is *not* the host's -/
theorem gen_other_endian_is_not_host : resolve otherEndian ≠ host ∧ otherEndian ≠ .native := by decide

/-- every writer swaps exactly when the order in force is not the host's; the `Array<T>` overloads go item by
    item exactly then for arithmetic items, and always for other items (e.g. `Array<String>`) -/
theorem gen_writers_swap_iff_not_host (k : Kind) (e : Endian) :
    (scalarSwap k e = true ↔ resolve e ≠ host) ∧ (arraySwap k e true = true ↔ resolve e ≠ host) ∧
    arraySwap k e false = true := by
  cases k <;> cases e <;> decide

/-- the twelve streamed scalar types are arithmetic for `IsArithmetic`, `String` is not -/
theorem gen_arithmetic (t : Ty) : arithT t = true ∧ arithString = false := by
  cases t <;> decide

/-- the `operator>>(Array<T>&)` of File and Socket mirror the writers' test and read exactly the array's storage -/
theorem gen_array_readers (k : Kind) (hk : k ≠ .sb) (e : Endian) (n s : Nat) :
    (rArraySwap k e true = true ↔ resolve e ≠ host) ∧ rArraySwap k e false = true ∧ rArrayCount k n s = n * s := by
  cases k <;> first | exact absurd rfl hk | (cases e <;> refine ⟨by decide, by decide, rfl⟩)

/-- File and Socket readers swap exactly when the order in force is not the host's -/
theorem gen_readers_swap_iff_not_host (e : Endian) :
    (fileRSwap e = true ↔ resolve e ≠ host) ∧ (sockRSwap e = true ↔ resolve e ≠ host) := by
  cases e <;> decide

/-- `StreamBufferReader` takes its big-endian branch exactly for the big-endian order (NATIVE included) -/
theorem gen_reader_cond (e : Endian) :
    (read2Cond e = true ↔ resolve e = .big) ∧ (read4Cond e = true ↔ resolve e = .big) ∧
    (read8Cond e = true ↔ resolve e = .big) := by
  cases e <;> decide

/-- the shift/index terms of `read2/4/8`: first branch most significant byte first, second branch last -/
theorem gen_reader_terms :
    read2Then = [(0, 8), (1, 0)] ∧ read2Else = [(1, 8), (0, 0)] ∧ read2Adv = 2 ∧
    read4Then = [(0, 24), (1, 16), (2, 8), (3, 0)] ∧ read4Else = [(3, 24), (2, 16), (1, 8), (0, 0)] ∧ read4Adv = 4 ∧
    read8Then = [(0, 56), (1, 48), (2, 40), (3, 32), (4, 24), (5, 16), (6, 8), (7, 0)] ∧
    read8Else = [(7, 56), (6, 48), (5, 40), (4, 32), (3, 24), (2, 16), (1, 8), (0, 0)] ∧ read8Adv = 8 := by decide

/-- `readN` never indexes at or beyond the `adv` bytes it consumes -/
theorem reader_indices_in_bounds :
    (∀ t ∈ read2Then ++ read2Else, t.1 < read2Adv) ∧ (∀ t ∈ read4Then ++ read4Else, t.1 < read4Adv) ∧
    (∀ t ∈ read8Then ++ read8Else, t.1 < read8Adv) := by decide

/-- `swapBytes` reads `bx` only inside its `n` bytes and mirrors the index -/
theorem swap_index_in_bounds (n i : Nat) (h : i < n) : swapIndex n i < n ∧ swapIndex n i = n - 1 - i := by
  unfold swapIndex; omega

/-- each `operator>>` of `StreamBufferReader` consumes `sizeof(T)` bytes -/
theorem gen_reader_dispatch (t : Ty) : sbrNeed t = sizeofT t := by cases t <;> rfl

/-- the non-swapping `Array<T>` branch passes exactly the size of the array's storage to `write`
    (false before commit 264bf86: it passed `x.length()`) -/
theorem array_write_in_bounds (k : Kind) (n s : Nat) : arrayCount k n s = n * s := by
  cases k <;> rfl

/-- `write(p, n)` hands on exactly `n` bytes, `read(n)` returns `n` bytes and advances by `n`, `skip(n)` advances by exactly
    `n`: the counts regenerated from `StreamBuffer::write`, `StreamBufferReader::read(n)/skip`, `File::read/write`
    (`fread`/`fwrite` size × count) and `Socket_::skip` (a thrown-away read).  `raw_write_spec`, `raw_read_spec`, `skip_spec`,
    `read_back*` rest on it. -/
theorem gen_raw_byte_counts (k : Kind) (n : Nat) :
    rawWriteCount k n = n ∧ rawReadCount k n = n ∧ rawReadAdv k n = n ∧ skipAdv k n = n := gen_raw_counts k n

/-! ## canonical bytes -/

/-- `stream << x` appends exactly the `sizeof(T)` bytes of `x` in the order in force — every class, every
    type, every order, every valid bit pattern (NaN payloads are ordinary patterns) -/
theorem scalar_canonical (k : Kind) (e : Endian) (t : Ty) (v : Nat) (hv : ValidBits t v) :
    putScalar k e t v = bytes (resolve e) (sizeofT t) v := by
  cases k
  case file => cases t <;> exact putGeneric_spec .file e _ v
  case sock => cases t <;> exact putGeneric_spec .sock e _ v
  case sb =>
    cases t
    case b =>
      have : v = 0 ∨ v = 1 := by simp [ValidBits] at hv; omega
      rcases this with rfl | rfl <;> simp [putScalar, sizeofT, bytes_one]
    case u8 => simp [putScalar, sizeofT, bytes_one]
    case ch => simp [putScalar, sizeofT, bytes_one]
    case i8 => simp [putScalar, sizeofT, bytes_one]
    all_goals exact putGeneric_spec .sb e _ v

theorem norm_valid (t : Ty) (v : Nat) : ValidBits t (norm t v) := by
  cases t <;> simp [ValidBits, norm, sizeofT] <;> first | omega | (split <;> omega) | skip
  all_goals exact Nat.mod_lt _ (by decide)

theorem norm_of_valid (t : Ty) (v : Nat) (hv : ValidBits t v) : norm t v = v := by
  cases t <;> simp [ValidBits, sizeofT] at hv <;> simp [norm, sizeofT]
  case b =>
    have : v = 0 ∨ v = 1 := by omega
    rcases this with rfl | rfl <;> simp
  all_goals exact hv

/-- every scalar occupies exactly `sizeof(T)` bytes -/
theorem scalar_length (k : Kind) (e : Endian) (t : Ty) (v : Nat) : (putScalar k e t v).length = sizeofT t := by
  cases k <;> cases t <;> simp [putScalar, putGeneric_spec, sizeofT]

/-- `stream << Array<T>` appends the concatenation of the elements' encodings in the order in force —
    every class, element type, length and order (the swapping and the block-copy branch agree) -/
theorem array_canonical (k : Kind) (e : Endian) (t : Ty) (vs : List Nat) (hv : ∀ v ∈ vs, ValidBits t v) :
    putArray k e t vs = vs.flatMap (bytes (resolve e) (sizeofT t)) := by
  by_cases hu : t = .u8
  · subst hu
    simp only [putArray, sizeofT]
    induction vs with
    | nil => rfl
    | cons a r ih => simp [List.flatMap_cons, bytes_one] at ih ⊢; exact ih (fun v hv' => hv v (List.mem_cons_of_mem _ hv'))
  · have hput : putArray k e t vs = if arraySwap k e (arithT t) then vs.flatMap (putScalar k e t)
        else (arrayMem t vs).take (arrayCount k vs.length (sizeofT t)) := by
      cases t <;> first | rfl | exact absurd rfl hu
    rw [hput]
    have hsw := (gen_writers_swap_iff_not_host k e).2.1
    rw [(gen_arithmetic t).1]
    by_cases hs : arraySwap k e true = true
    · simp only [hs, if_true]
      exact flatMap_congr' _ _ vs (fun v hvm => scalar_canonical k e t v (hv v hvm))
    · have hh : resolve e = host := by
        by_cases h : resolve e = host
        · exact h
        · exact absurd (hsw.mpr h) hs
      simp only [hs, Bool.false_eq_true, if_false, array_write_in_bounds, arrayMem_spec, hh]
      apply List.take_of_length_le
      rw [flatMap_length_const _ (sizeofT t) vs (fun a => bytes_length _ _ _)]
      exact Nat.le_refl _

/-- an array of `n` elements occupies exactly `n × sizeof(T)` bytes -/
theorem array_length (k : Kind) (e : Endian) (t : Ty) (vs : List Nat) :
    (putArray k e t vs).length = vs.length * sizeofT t := by
  by_cases hu : t = .u8
  · subst hu; simp [putArray, sizeofT]
  · have hput : putArray k e t vs = if arraySwap k e (arithT t) then vs.flatMap (putScalar k e t)
        else (arrayMem t vs).take (arrayCount k vs.length (sizeofT t)) := by
      cases t <;> first | rfl | exact absurd rfl hu
    rw [hput]
    split
    · exact flatMap_length_const _ _ _ (fun a => scalar_length k e t a)
    · rw [array_write_in_bounds, arrayMem_spec, List.take_of_length_le]
      · exact flatMap_length_const _ _ _ (fun a => bytes_length _ _ _)
      · rw [flatMap_length_const _ (sizeofT t) vs (fun a => bytes_length _ _ _)]; exact Nat.le_refl _

/-- `StreamBuffer << T[N]` appends the items' encodings in the order of the array, in every byte order (before commit
    7c56539 the non-native order reversed the items) -/
theorem carray_canonical (e : Endian) (t : Ty) (ht : t ≠ .ch) (vs : List Nat) (hv : ∀ v ∈ vs, ValidBits t v) :
    putCArray .sb e t vs = vs.flatMap (bytes (resolve e) (sizeofT t)) :=
  -- stated only where the library has the operation: StreamBuffer, and `T ≠ char` (a `char[N]` is a C string for
  -- `operator<<`: `.cstr`).  `ht` is not needed by the proof; it keeps the claim inside what the code does.
  have _ := ht
  flatMap_congr' _ _ vs (fun v hvm => scalar_canonical .sb e t v (hv v hvm))

/-- `stream << Array<String>` appends the strings' bytes one after the other, whatever the byte order and the
    class — never the String objects' memory (false in native order before commit 8a61870) -/
theorem string_array_canonical (k : Kind) (e : Endian) (ss : List (List UInt8)) :
    putStrArray k e ss = some (ss.flatMap id) := by
  simp [putStrArray, (gen_arithmetic .u8).2, (gen_writers_swap_iff_not_host k e).2.2]

/-- **canonical bytes of a whole history**: for every class, start order and sequence of writes with
    byte-order switches anywhere, the stream content is the concatenation of each value's bytes under the
    order in force when it was written -/
theorem write_canonical (k : Kind) (e : Endian) (ops : List WOp) (hwf : ∀ op ∈ ops, WF k op) :
    (writeAll k e ops).2 = encode e (ops.map toItem) := by
  induction ops generalizing e with
  | nil => rfl
  | cons op r ih' =>
    have ih := fun e => ih' e (fun o h => hwf o (List.mem_cons_of_mem _ h))
    have hop := hwf op List.mem_cons_self
    cases op with
    | setEndian e' => simp [writeAll, writeOp, toItem, encode, ih]
    | scalar t v => simp [writeAll, writeOp, toItem, encode, ih, scalar_canonical k e t _ (norm_valid t v)]
    | array t vs =>
      simp only [writeAll, writeOp, List.map_cons, toItem, encode, ih]
      rw [array_canonical k e t _ (by intro v hv; obtain ⟨a, _, rfl⟩ := List.mem_map.mp hv; exact norm_valid t a)]
    | bytes bs => simp [writeAll, writeOp, toItem, encode, ih]
    | cstr bs => simp [writeAll, writeOp, toItem, encode, ih, putCStr]
    | strArray ss => simp [writeAll, writeOp, toItem, encode, ih, string_array_canonical]
    | carray t vs =>
      simp only [writeAll, writeOp, List.map_cons, toItem, encode, ih]
      obtain ⟨rfl, ht⟩ := hop
      rw [carray_canonical e t ht _ (by intro v hv; obtain ⟨a, _, rfl⟩ := List.mem_map.mp hv; exact norm_valid t a)]

/-- **changing the byte order in mid-stream affects only the values written afterwards**: the bytes of
    the earlier writes are those of the history without the switch, the later ones those of a stream
    started in the new order -/
theorem switch_affects_only_later (k : Kind) (e e' : Endian) (before after : List WOp) :
    (writeAll k e (before ++ .setEndian e' :: after)).2 = (writeAll k e before).2 ++ (writeAll k e' after).2 := by
  rw [writeAll_append]
  simp [writeAll, writeOp]

/-- **writing the same array again** — in the same order or after a switch — yields its canonical bytes
    again, each time under the order then in force.  In the model a write is a function of (order, value)
    returning only (order', bytes): it has no way to alter its argument.  That the real `operator<<` leaves
    the caller's `const Array<T>&` (and `const T&`) untouched is observed by the harness after every write
    (`wv` prints the caller's array; `w`/`wa` compare it with a pristine copy). -/
theorem array_rewrite_canonical (k : Kind) (e e' : Endian) (t : Ty) (vs : List Nat) :
    (writeAll k e [.array t vs, .array t vs, .setEndian e', .array t vs]).2 =
      (vs.map (norm t)).flatMap (bytes (resolve e) (sizeofT t)) ++
      ((vs.map (norm t)).flatMap (bytes (resolve e) (sizeofT t)) ++
       (vs.map (norm t)).flatMap (bytes (resolve e') (sizeofT t))) := by
  rw [write_canonical _ _ _ (by intro op h; simp at h; rcases h with rfl | rfl | rfl | rfl <;> trivial)]
  simp [toItem, encode]

/-! ## reading back -/

/-- **what a read returns**: with at least `sizeof(T)` bytes left, `stream >> x` consumes exactly
    `sizeof(T)` bytes and yields the number they denote in the order in force (for `bool`: whether the
    byte is non-zero; File/Socket read the byte into the `bool` object, so there it must be 0 or 1) -/
theorem scalar_read_spec (k : Kind) (e : Endian) (t : Ty) (bs : List UInt8) (hn : sizeofT t ≤ bs.length)
    (hb : t = .b → k = .sb ∨ bs.getD 0 0 ≤ 1) :
    getScalar k e t bs = (asType t (value (resolve e) (bs.take (sizeofT t))), bs.drop (sizeofT t)) := by
  by_cases hw : 2 ≤ sizeofT t
  · have ht : t ≠ .b := by intro h; subst h; simp [sizeofT] at hw
    simp only [asType, ht, if_false]
    cases k
    case sb => exact sbr_multi gen_reader_terms e (gen_reader_cond e) t bs hw hn
    case file =>
      have : getScalar .file e t bs = getGeneric (readSwap .file e) (sizeofT t) bs := by
        cases t <;> first | rfl | (simp [sizeofT] at hw)
      rw [this, getGeneric_spec .file e (by decide)]
    case sock =>
      have : getScalar .sock e t bs = getGeneric (readSwap .sock e) (sizeofT t) bs := by
        cases t <;> first | rfl | (simp [sizeofT] at hw)
      rw [this, getGeneric_spec .sock e (by decide)]
  · have h1 : sizeofT t = 1 := by cases t <;> simp [sizeofT] at hw ⊢
    rw [h1] at hn ⊢
    match bs, hn with
    | b0 :: r, _ =>
      simp only [List.take_succ_cons, List.take_zero, List.drop_succ_cons, List.drop_zero, value_one]
      cases k
      case sb =>
        cases t <;> simp [sizeofT] at h1 <;> simp [getScalar, sbrGet, asType]
        by_cases h0 : b0 = 0
        · simp [h0]
        · have : b0.toNat ≠ 0 := fun h => h0 (UInt8.toNat_inj.mp (by simpa using h))
          simp [h0, this]
      all_goals
        have hg : ∀ sw, getGeneric sw 1 (b0 :: r) = (b0.toNat, r) := by
          intro sw; rw [getGeneric_eq]; simp [beVal, leVal]
        cases t <;> simp [sizeofT] at h1 <;> simp [getScalar, hg, asType, sizeofT]
        have := hb rfl
        simp at this
        have hlt : b0.toNat ≤ 1 := by simpa [UInt8.le_iff_toNat_le] using this
        split <;> omega

/-- reading the canonical encoding of a valid pattern returns it and leaves what followed -/
theorem get_canonical (k : Kind) (e : Endian) (t : Ty) (v : Nat) (rest : List UInt8) (hv : ValidBits t v) :
    getScalar k e t (bytes (resolve e) (sizeofT t) v ++ rest) = (v, rest) := by
  have hlen : (bytes (resolve e) (sizeofT t) v).length = sizeofT t := bytes_length _ _ _
  rw [scalar_read_spec k e t _ (by rw [List.length_append, hlen]; omega)]
  · rw [List.take_left' hlen, List.drop_left' hlen, value_bytes]
    by_cases hb : t = .b
    · subst hb
      have : v = 0 ∨ v = 1 := by simp [ValidBits] at hv; omega
      rcases this with rfl | rfl <;> simp [asType, sizeofT]
    · have : v < 256 ^ sizeofT t := by simpa [ValidBits, hb] using hv
      simp [asType, hb, Nat.mod_eq_of_lt this]
  · intro hb
    subst hb
    right
    have : v = 0 ∨ v = 1 := by simp [ValidBits] at hv; omega
    rcases this with rfl | rfl <;> simp [sizeofT, bytes_one] <;> decide

/-- **read-back of one value**: reading type `T` in the order it was written returns the original bit
    pattern and leaves exactly the bytes that followed — every class, type, order, valid pattern -/
theorem get_put (k : Kind) (e : Endian) (t : Ty) (v : Nat) (rest : List UInt8) (hv : ValidBits t v) :
    getScalar k e t (putScalar k e t v ++ rest) = (v, rest) := by
  rw [scalar_canonical k e t v hv]; exact get_canonical k e t v rest hv

/-- reading `n` elements back from an array's canonical bytes returns the elements -/
theorem array_read_back (k : Kind) (e : Endian) (t : Ty) (vs : List Nat) (rest : List UInt8)
    (hv : ∀ v ∈ vs, ValidBits t v) :
    readAll k e (vs.flatMap (bytes (resolve e) (sizeofT t)) ++ rest) (vs.map fun _ => ROp.scalar t) =
      (e, vs.map (RVal.val t), rest) := by
  induction vs with
  | nil => simp [readAll]
  | cons a r ih =>
    simp only [List.flatMap_cons, List.map_cons, readAll, readOp, List.append_assoc]
    rw [get_canonical k e t a _ (hv a List.mem_cons_self)]
    simp only []
    rw [ih (fun v h => hv v (List.mem_cons_of_mem _ h))]

/-- **`stream >> array` is the inverse of `stream << array`** (File, Socket; the caller sets the length): for
    every element type, order and length the elements come back and what followed is left — both for the
    item-by-item branch and for the one-block `read(&x[0], n*sizeof(T))` branch -/
theorem array_get_put (k : Kind) (hk : k ≠ .sb) (e : Endian) (t : Ty) (vs : List Nat) (rest : List UInt8)
    (hv : ∀ v ∈ vs, ValidBits t v) :
    getArray k e t vs.length (putArray k e t vs ++ rest) = (vs, rest) := by
  rw [array_canonical k e t vs hv]
  obtain ⟨hsw, _, hcount⟩ := gen_array_readers k hk e vs.length (sizeofT t)
  unfold getArray
  rw [(gen_arithmetic t).1]
  by_cases hs : rArraySwap k e true = true
  · simp only [hs, if_true]
    clear hsw hcount hs
    induction vs with
    | nil => simp [getMany]
    | cons a r ih =>
      simp only [List.flatMap_cons, List.length_cons, getMany, List.append_assoc]
      rw [get_canonical k e t a _ (hv a List.mem_cons_self)]
      simp only []
      rw [ih (fun v h => hv v (List.mem_cons_of_mem _ h))]
  · have hh : resolve e = host := by
      by_cases h : resolve e = host
      · exact h
      · exact absurd (hsw.mpr h) hs
    simp only [hs, Bool.false_eq_true, if_false, hcount, hh]
    have hlen : (vs.flatMap (bytes host (sizeofT t))).length = vs.length * sizeofT t :=
      flatMap_length_const _ _ _ (fun a => bytes_length _ _ _)
    rw [List.take_left' hlen, List.drop_left' hlen]
    congr 1
    clear hlen hsw hcount hs
    induction vs with
    | nil => simp [memVals]
    | cons a r ih =>
      have hb : (bytes host (sizeofT t) a).length = sizeofT t := bytes_length _ _ _
      simp only [List.flatMap_cons, List.length_cons, memVals]
      rw [List.take_left' hb, List.drop_left' hb, ih (fun v h => hv v (List.mem_cons_of_mem _ h))]
      congr 1
      simp [objVal, host, hostLittle, bytes_little, leVal_leBytes, Nat.mod_eq_of_lt (valid_lt t a (hv a List.mem_cons_self))]

/-- **read-back of a whole history**: for every class, start order and write history (scalars, arrays,
    strings/byte arrays, byte-order switches anywhere), reading the same types in the same orders from the
    bytes written (followed by anything) returns the original values, ends in the same byte order and
    leaves exactly what followed -/
theorem read_back (k : Kind) (e : Endian) (ops : List WOp) (rest : List UInt8) (hwf : ∀ op ∈ ops, WF k op) :
    readAll k e ((writeAll k e ops).2 ++ rest) (ops.flatMap mirror) =
      ((writeAll k e ops).1, ops.flatMap expected, rest) := by
  induction ops generalizing e with
  | nil => simp [readAll, writeAll]
  | cons op r ih' =>
    have ih := fun e => ih' e (fun o h => hwf o (List.mem_cons_of_mem _ h))
    have hop := hwf op List.mem_cons_self
    rw [List.flatMap_cons, List.flatMap_cons, readAll_append]
    cases op with
    | setEndian e' =>
      simp only [writeAll, writeOp, mirror, expected, readAll, readOp, List.nil_append]
      rw [ih e']
    | scalar t v =>
      simp only [writeAll, writeOp, mirror, expected, readAll, readOp, List.append_assoc]
      rw [get_put k e t _ _ (norm_valid t v)]
      simp only []
      rw [ih e]
    | array t vs =>
      simp only [writeAll, writeOp, mirror, expected, List.append_assoc]
      have hvalid : ∀ v ∈ vs.map (norm t), ValidBits t v := by
        intro v hv; obtain ⟨a, _, rfl⟩ := List.mem_map.mp hv; exact norm_valid t a
      rw [array_canonical k e t _ hvalid]
      have h := array_read_back k e t (vs.map (norm t)) ((writeAll k e r).2 ++ rest) hvalid
      simp only [List.map_map] at h
      have hm : (vs.map fun _ => ROp.scalar t) = vs.map ((fun _ => ROp.scalar t) ∘ norm t) := by
        apply List.map_congr_left; intros; rfl
      rw [hm, h]
      simp only []
      rw [ih e]
      simp [Function.comp_def]
    | carray t vs =>
      simp only [writeAll, writeOp, mirror, expected, List.append_assoc]
      have hvalid : ∀ v ∈ vs.map (norm t), ValidBits t v := by
        intro v hv; obtain ⟨a, _, rfl⟩ := List.mem_map.mp hv; exact norm_valid t a
      obtain ⟨rfl, ht⟩ := hop
      rw [carray_canonical e t ht _ hvalid]
      have h := array_read_back .sb e t (vs.map (norm t)) ((writeAll .sb e r).2 ++ rest) hvalid
      simp only [List.map_map] at h
      have hm : (vs.map fun _ => ROp.scalar t) = vs.map ((fun _ => ROp.scalar t) ∘ norm t) := by
        apply List.map_congr_left; intros; rfl
      rw [hm, h]
      simp only []
      rw [ih e]
      simp [Function.comp_def]
    | bytes bs =>
      simp only [rawWriteCount_eq, rawReadCount_eq, rawReadAdv_eq, List.take_length, writeAll, writeOp, mirror, expected, readAll, readOp, List.append_assoc]
      rw [List.take_left' rfl, List.drop_left' rfl]
      rw [ih e]
    | cstr bs =>
      simp only [rawReadCount_eq, rawReadAdv_eq, writeAll, writeOp, mirror, expected, readAll, readOp, List.append_assoc, putCStr]
      rw [List.take_left' rfl, List.drop_left' rfl]
      rw [ih e]
    | strArray ss =>
      simp only [rawReadCount_eq, rawReadAdv_eq, writeAll, writeOp, mirror, expected, readAll, readOp, List.append_assoc, string_array_canonical,
        Option.getD_some]
      rw [List.take_left' rfl, List.drop_left' rfl]
      rw [ih e]

/-- **read-back of a whole history through the array operator** (File, Socket): as `read_back`, but every
    `Array<T>` is read back with one `stream >> Array<T>` of the same length (commit cdda882) instead of one scalar
    read per item -/
theorem read_back_array_op (k : Kind) (hk : k ≠ .sb) (e : Endian) (ops : List WOp) (rest : List UInt8) (hwf : ∀ op ∈ ops, WF k op) :
    readAll k e ((writeAll k e ops).2 ++ rest) (ops.flatMap mirrorA) =
      ((writeAll k e ops).1, ops.flatMap expectedA, rest) := by
  induction ops generalizing e with
  | nil => simp [readAll, writeAll]
  | cons op r ih' =>
    have ih := fun e => ih' e (fun o h => hwf o (List.mem_cons_of_mem _ h))
    have hop := hwf op List.mem_cons_self
    rw [List.flatMap_cons, List.flatMap_cons, readAll_append]
    cases op with
    | setEndian e' =>
      simp only [writeAll, writeOp, mirrorA, expectedA, mirror, expected, readAll, readOp, List.nil_append]
      rw [ih e']
    | scalar t v =>
      simp only [writeAll, writeOp, mirrorA, expectedA, mirror, expected, readAll, readOp, List.append_assoc]
      rw [get_put k e t _ _ (norm_valid t v)]
      simp only []
      rw [ih e]
    | array t vs =>
      simp only [writeAll, writeOp, mirrorA, expectedA, readAll, readOp, List.append_assoc]
      have hvalid : ∀ v ∈ vs.map (norm t), ValidBits t v := by
        intro v hv; obtain ⟨a, _, rfl⟩ := List.mem_map.mp hv; exact norm_valid t a
      have h := array_get_put k hk e t (vs.map (norm t)) ((writeAll k e r).2 ++ rest) hvalid
      rw [List.length_map] at h
      rw [h]
      simp only []
      rw [ih e]
    | carray t vs => exact absurd hop.1 hk
    | bytes bs =>
      simp only [rawWriteCount_eq, rawReadCount_eq, rawReadAdv_eq, List.take_length, writeAll, writeOp, mirrorA, expectedA, mirror, expected, readAll, readOp, List.append_assoc]
      rw [List.take_left' rfl, List.drop_left' rfl]
      rw [ih e]
    | cstr bs =>
      simp only [rawReadCount_eq, rawReadAdv_eq, writeAll, writeOp, mirrorA, expectedA, mirror, expected, readAll, readOp, List.append_assoc, putCStr]
      rw [List.take_left' rfl, List.drop_left' rfl]
      rw [ih e]
    | strArray ss =>
      simp only [rawReadCount_eq, rawReadAdv_eq, writeAll, writeOp, mirrorA, expectedA, mirror, expected, readAll, readOp, List.append_assoc, string_array_canonical,
        Option.getD_some]
      rw [List.take_left' rfl, List.drop_left' rfl]
      rw [ih e]

/-- **changing the byte order in mid-stream affects only the values read afterwards** — for ARBITRARY
    bytes `bs` (not only bytes produced by the mirrored writes): the reads before the switch return what
    they return without it (under the order `e`), the reads after it are exactly a read history started in
    the new order `e'` on the bytes the earlier reads left -/
theorem read_switch_affects_only_later (k : Kind) (e e' : Endian) (bs : List UInt8) (before after : List ROp) :
    readAll k e bs (before ++ .setEndian e' :: after) =
      ((readAll k e' (readAll k e bs before).2.2 after).1,
       (readAll k e bs before).2.1 ++ RVal.none :: (readAll k e' (readAll k e bs before).2.2 after).2.1,
       (readAll k e' (readAll k e bs before).2.2 after).2.2) := by
  rw [readAll_append]
  simp [readAll, readOp]

/-- all three classes produce the same bytes for the same value and order -/
theorem classes_agree (k k' : Kind) (e : Endian) (t : Ty) (v : Nat) (hv : ValidBits t v) :
    putScalar k e t v = putScalar k' e t v := by
  rw [scalar_canonical k e t v hv, scalar_canonical k' e t v hv]

/-- **length-prefixed strings** (`f << int(s.length()) << s`, then `f >> str`): File returns the string and
    leaves what followed, and so does Socket — any bytes, NULs included (Socket cut the value at the first NUL
    before commit b125771) -/
theorem string_read_back (k : Kind) (hk : k ≠ .sb) (e : Endian) (s rest : List UInt8) (hl : s.length < 2 ^ 31) :
    getString k e (putScalar k e .i32 s.length ++ (s ++ rest)) = some (s, rest) := by
  have hv : ValidBits .i32 s.length := by
    simp only [ValidBits, sizeofT]; simp; omega
  have hlen : 4 ≤ (putScalar k e .i32 s.length ++ (s ++ rest)).length := by
    rw [List.length_append, scalar_length]; simp [sizeofT]
  have hg := get_put k e .i32 s.length (s ++ rest) hv
  cases k
  case sb => exact absurd rfl hk
  case file =>
    simp only [getString, hg, Nat.not_lt.mpr hlen, if_false]
    simp [Nat.not_le.mpr hl]
  case sock =>
    simp only [getString, hg, Nat.not_lt.mpr hlen, if_false]
    simp [Nat.not_le.mpr hl]

/-- **`>> String` as a function of the bytes** (at least the 4 length bytes present): with `n` the int32 the first
    four bytes denote in the order in force, taken as 0 when negative, the operator returns exactly the next `n`
    bytes (File: as many of them as exist) and leaves exactly the bytes after them.  For Socket fewer than `n`
    pending bytes would block, so the statement needs them to be there.  What this cannot express is the
    out-of-bounds write of the code before e37681a (`x.resize(-1); x[-1] = 0`): lists have no outside; that part
    is carried by the translator's whole-body shape check of `File::operator>>(String&)` and by ASan in K. -/
theorem string_read_spec (k : Kind) (hk : k ≠ .sb) (e : Endian) (bs : List UInt8) (h : 4 ≤ bs.length)
    (hs : k = .sock → (if 2 ^ 31 ≤ value (resolve e) (bs.take 4) then 0 else value (resolve e) (bs.take 4)) ≤ bs.length - 4) :
    getString k e bs =
      some (((bs.drop 4).take (if 2 ^ 31 ≤ value (resolve e) (bs.take 4) then 0 else value (resolve e) (bs.take 4))),
            ((bs.drop 4).drop (if 2 ^ 31 ≤ value (resolve e) (bs.take 4) then 0 else value (resolve e) (bs.take 4)))) := by
  have hr := scalar_read_spec k e .i32 bs (by simpa [sizeofT] using h) (by intro h; cases h)
  simp only [sizeofT, asType] at hr
  cases k
  case sb => exact absurd rfl hk
  case file =>
    simp only [getString, Nat.not_lt.mpr h, if_false, hr]
    by_cases hn : value (resolve e) (bs.take 4) ≥ 2 ^ 31
    · simp [hn]
    · simp [hn]
  case sock =>
    have hs' := hs rfl
    simp only [getString, Nat.not_lt.mpr h, if_false, hr]
    by_cases hn : value (resolve e) (bs.take 4) ≥ 2 ^ 31
    · simp [hn]
    · have hn' : ¬ 2 ^ 31 ≤ value (resolve e) (bs.take 4) := hn
      simp only [hn', if_false] at hs'
      simp [hn]
      exact hs'

/-- (weaker corollary of `string_read_spec`, kept: it does not pin down *which* prefix is returned) **File `>> String` on arbitrary data** (at least the 4 length bytes present): the string returned followed
    by what is left are exactly the bytes after the length — nothing beyond the data is touched, whatever the
    length says; a negative length gives the empty string (before commit e37681a: `x.resize(-1); x[-1] = 0`) -/
theorem string_read_total (e : Endian) (bs : List UInt8) (h : 4 ≤ bs.length) :
    ∃ s rest, getString .file e bs = some (s, rest) ∧ s ++ rest = bs.drop 4 ∧
      (2 ^ 31 ≤ value (resolve e) (bs.take 4) → s = []) := by
  have hr := scalar_read_spec .file e .i32 bs (by simpa [sizeofT] using h) (by intro h; cases h)
  simp only [sizeofT, asType] at hr
  simp only [getString, Nat.not_lt.mpr h, if_false, hr]
  by_cases hn : value (resolve e) (bs.take 4) ≥ 2 ^ 31
  · exact ⟨[], bs.drop 4, by simp [hn], by simp, fun _ => rfl⟩
  · refine ⟨(bs.drop 4).take (value (resolve e) (bs.take 4)), (bs.drop 4).drop (value (resolve e) (bs.take 4)), ?_, ?_, ?_⟩
    · simp [hn]
    · exact List.take_append_drop _ _
    · intro h'; exact absurd h' hn

/-! ## the argument of a write is left unchanged -/

/-- G obligation: in all three classes the generic `operator<<(const T& x)` copies `x` into a temporary, swaps the
    temporary and writes the temporary — `swapBytes` never touches the caller's object -/
theorem gen_writer_paths (k : Kind) : scalarPath k = [.copyTmp, .swapTmp, .writeTmp] := by
  cases k <;> rfl

/-- the temporary-copy path: the bytes of `putGeneric`, the argument as it was -/
theorem runW_copy_path (swap : Bool) (x : List UInt8) :
    runW swap [.copyTmp, .swapTmp, .writeTmp] x = ((if swap then swapBytes x else x), x) := by
  simp [runW, execW]

/-- an in-place swap that is swapped back after the write is as good as the temporary copy (same bytes, argument
    restored) — `swapBytes` is an involution -/
theorem runW_swap_back (swap : Bool) (x : List UInt8) :
    runW swap [.swapArg, .writeArg, .swapArg] x = runW swap [.copyTmp, .swapTmp, .writeTmp] x := by
  cases swap <;> simp [runW, execW, swapBytes_eq_reverse]

/-- … whereas an in-place swap that is *not* swapped back leaves the caller's object byte-reversed whenever the order
    is not the host's: the model can tell the difference -/
theorem runW_in_place_alters (x : List UInt8) (h : x.reverse ≠ x) :
    (runW true [.swapArg, .writeArg] x).2 ≠ x := by
  simpa [runW, execW, swapBytes_eq_reverse] using h

/-- **`stream << x` leaves `x` unchanged** and hands `write` exactly the bytes of the value-level model — every class,
    type, order and bit pattern -/
theorem scalar_write_mem (k : Kind) (e : Endian) (t : Ty) (v : Nat) :
    putScalarMem k e t v = (putScalar k e t v, objRep (sizeofT t) v) := by
  cases k <;> cases t <;>
    first
    | rfl
    | (simp only [putScalarMem, gen_writer_paths, runW_copy_path, putScalar, putGeneric])

/-- **`stream << array` leaves the array unchanged**: for every class, order (so both the item-by-item and the block
    branch), element type, length and content, the bytes written are those of `putArray` (canonical by
    `array_canonical`) and the array's storage afterwards is the storage before -/
theorem array_write_mem (k : Kind) (e : Endian) (t : Ty) (vs : List Nat) :
    putArrayMem k e t vs = (putArray k e t vs, arrayMem t vs) := by
  have hmap : vs.map (putScalarMem k e t) = vs.map fun v => (putScalar k e t v, objRep (sizeofT t) v) :=
    List.map_congr_left (fun v _ => scalar_write_mem k e t v)
  cases t <;> simp only [putArrayMem, putArray, hmap] <;>
    (split <;> simp [arrayMem, List.flatMap_map] )


/-- **the caller still holds the values it passed**: decoding the array's storage after the write gives the elements
    back (this is what the driver's `wv` prints and the harness reads from the real `Array<T>` after `stream << a`) -/
theorem array_argument_unchanged (k : Kind) (e : Endian) (t : Ty) (vs : List Nat) (hv : ∀ v ∈ vs, ValidBits t v) :
    memVals (sizeofT t) vs.length (putArrayMem k e t vs).2 = vs := by
  rw [array_write_mem]; exact memVals_arrayMem t vs hv

/-! ## raw bytes, strings and `skip` -/

/-- **raw-byte / String / ByteArray writes** (`write(p, n)`, `<< String`, `<< ByteArray`) anywhere in a history: exactly
    the argument's bytes are appended between what the earlier and the later operations write, the byte order in force
    is not changed and the later operations are encoded as if the raw write were not there -/
theorem raw_write_spec (k : Kind) (e : Endian) (before after : List WOp) (bs : List UInt8) :
    writeAll k e (before ++ .bytes bs :: after) =
      ((writeAll k (writeAll k e before).1 after).1,
       (writeAll k e before).2 ++ (bs ++ (writeAll k (writeAll k e before).1 after).2)) := by
  rw [writeAll_append]
  simp [writeAll, writeOp]

/-- **`read(p, n)` / `read(n)` on arbitrary data**: returns exactly the next `n` bytes (those that are there), the reads
    after it see exactly the bytes after them, under the same byte order -/
theorem raw_read_spec (k : Kind) (e : Endian) (bs : List UInt8) (n : Nat) (ops : List ROp) :
    readAll k e bs (.bytes n :: ops) =
      ((readAll k e (bs.drop n) ops).1, .bytes (bs.take n) :: (readAll k e (bs.drop n) ops).2.1, (readAll k e (bs.drop n) ops).2.2) := by
  simp [readAll, readOp]

/-- **`skip(n)` advances by exactly `n`** on arbitrary data: the later reads return what they return on the data without
    its first `n` bytes, the byte order is untouched, nothing is returned for the skip itself -/
theorem skip_spec (k : Kind) (e : Endian) (bs : List UInt8) (n : Nat) (ops : List ROp) :
    readAll k e bs (.skip n :: ops) =
      ((readAll k e (bs.drop n) ops).1, .none :: (readAll k e (bs.drop n) ops).2.1, (readAll k e (bs.drop n) ops).2.2) := by
  simp [readAll, readOp]

/-- skipping `n` bytes leaves the reader where reading `n` raw bytes (and dropping them) leaves it; two skips add up;
    two raw reads return the two parts of one read of the sum -/
theorem skip_compose (k : Kind) (e : Endian) (bs : List UInt8) (n m : Nat) (ops : List ROp) :
    (readAll k e bs (.skip n :: ops)).2.2 = (readAll k e bs (.bytes n :: ops)).2.2 ∧
    (readAll k e bs (.skip n :: ops)).2.1.tail = (readAll k e bs (.bytes n :: ops)).2.1.tail ∧
    (readAll k e bs (.skip n :: .skip m :: ops)).2.2 = (readAll k e bs (.skip (n + m) :: ops)).2.2 ∧
    (bs.take n ++ (bs.drop n).take m = bs.take (n + m)) := by
  refine ⟨by simp [readAll, readOp], by simp [readAll, readOp], by simp [readAll, readOp], ?_⟩
  rw [List.take_add]

theorem write_size (k : Kind) (e : Endian) (op : WOp) : (writeOp k e op).2.length = itemSize op := by
  cases op with
  | setEndian e' => rfl
  | scalar t v => exact scalar_length k e t _
  | array t vs => simp [writeOp, itemSize, array_length]
  | bytes bs => simp [writeOp, itemSize]
  | cstr bs => rfl
  | carray t vs =>
    simp only [writeOp, itemSize, putCArray]
    rw [flatMap_length_const _ (sizeofT t) _ (fun a => scalar_length k e t a), List.length_map]
  | strArray ss => simp [writeOp, itemSize, string_array_canonical]

/-- reading one item back (a `read_back` of a one-item history), whatever follows -/
theorem read_one (k : Kind) (e : Endian) (op : WOp) (tail : List UInt8) (hwf : WF k op) :
    readAll k e ((writeOp k e op).2 ++ tail) (mirror op) = ((writeOp k e op).1, expected op, tail) := by
  have h := read_back k e [op] tail (by intro o ho; simp at ho; subst ho; exact hwf)
  simpa [writeAll] using h

/-- **`skip` composes with typed reads in any order, with order switches in mid-stream**: for every class, start
    order, write history (scalars, arrays, strings/raw bytes, switches anywhere) and every choice of the items to skip,
    skipping exactly the sizes of the chosen items and reading the others with their types returns the original values
    of all the others, ends in the writer's byte order and leaves exactly what followed — a skip moves the reader by
    exactly its argument and disturbs nothing read later -/
theorem read_back_with_skips (k : Kind) (e : Endian) (ops : List WOp) (sk : List Bool) (rest : List UInt8)
    (hlen : sk.length = ops.length) (hwf : ∀ op ∈ ops, WF k op) :
    readAll k e ((writeAll k e ops).2 ++ rest) ((ops.zip sk).flatMap mirrorS) =
      ((writeAll k e ops).1, (ops.zip sk).flatMap expectedS, rest) := by
  induction ops generalizing e sk with
  | nil => simp [readAll, writeAll]
  | cons op r ih' =>
    match sk, hlen with
    | b :: sk', hlen =>
      have ih := fun e => ih' e sk' (by simpa using hlen) (fun o h => hwf o (List.mem_cons_of_mem _ h))
      have hop := hwf op List.mem_cons_self
      simp only [List.zip_cons_cons, List.flatMap_cons]
      rw [readAll_append]
      simp only [writeAll, List.append_assoc]
      have hskip : ∀ n, n = (writeOp k e op).2.length → (writeOp k e op).1 = e →
          readAll k e ((writeOp k e op).2 ++ ((writeAll k (writeOp k e op).1 r).2 ++ rest)) [.skip n] =
            ((writeOp k e op).1, [.none], (writeAll k (writeOp k e op).1 r).2 ++ rest) := by
        intro n hn he
        subst hn
        simp [readAll, readOp, he]
      have hone := read_one k e op ((writeAll k (writeOp k e op).1 r).2 ++ rest) hop
      cases b
      · -- read with its own type
        have hm : mirrorS (op, false) = mirror op ∧ expectedS (op, false) = expected op := by
          cases op <;> exact ⟨rfl, rfl⟩
        rw [hm.1, hm.2, hone]
        simp only []
        rw [ih]
      · cases op with
        | setEndian e' =>
          simp only [mirrorS, expectedS, writeOp, readAll, readOp, List.nil_append]
          rw [ih e']
        | scalar t v =>
          simp only [mirrorS, expectedS]
          rw [hskip _ (write_size k e _).symm rfl]; simp only []; rw [ih]
        | array t vs =>
          simp only [mirrorS, expectedS]
          rw [hskip _ (write_size k e _).symm rfl]; simp only []; rw [ih]
        | bytes bs =>
          simp only [mirrorS, expectedS]
          rw [hskip _ (write_size k e _).symm rfl]; simp only []; rw [ih]
        | cstr bs =>
          simp only [mirrorS, expectedS]
          rw [hskip _ (write_size k e _).symm rfl]; simp only []; rw [ih]
        | carray t vs =>
          simp only [mirrorS, expectedS]
          rw [hskip _ (write_size k e _).symm rfl]; simp only []; rw [ih]
        | strArray ss =>
          simp only [mirrorS, expectedS]
          rw [hskip _ (write_size k e _).symm rfl]; simp only []; rw [ih]

/-! ## the hypotheses are satisfiable, the statements are not vacuous -/

example : bytes .big 4 0x01020304 = [1, 2, 3, 4] ∧ bytes .little 4 0x01020304 = [4, 3, 2, 1] := by decide
example : value .big [1, 2, 3, 4] = 0x01020304 ∧ value .little [1, 2, 3, 4] = 0x04030201 := by decide
/-- a signalling NaN with a payload is an ordinary valid pattern -/
example : ValidBits .f32 0x7fa00001 ∧ ValidBits .f64 0x7ff0000000000001 ∧ ValidBits .b 1 ∧ ¬ ValidBits .b 2 := by decide
/-- a history with a switch in the middle and an array, on each class -/
example : ∀ k ∈ [Kind.sb, Kind.file, Kind.sock],
    (writeAll k .little [.scalar .i32 0x01020304, .setEndian .big, .array .i16 [1, 0x8000], .setEndian .native,
      .scalar .f32 0x7fa00001, .cstr [65, 0, 66]]).2 = [4, 3, 2, 1, 0, 1, 0x80, 0, 1, 0, 0xa0, 0x7f, 65] := by decide
example : (readAll .sb .big [1, 2, 3, 4, 5, 6] [.scalar .u16, .setEndian .little, .scalar .i32]).2.1 =
    [.val .u16 0x0102, .none, .val .i32 0x06050403] := by decide
/-- a switch between two reads of arbitrary bytes, on File: the first read is unaffected, the second uses the new order -/
example : (readAll .file .big [1, 2, 3, 4, 9] [.scalar .u16, .setEndian .little, .scalar .u16]) =
    (.little, [.val .u16 0x0102, .none, .val .u16 0x0403], [9]) := by decide
/-- the array overload before commit 264bf86 passed `x.length()` to `write`: three bytes for three ints -/
example : ((arrayMem .i32 [1, 2, 3]).take 3).length = 3 ∧ (putArray .file .native .i32 [1, 2, 3]).length = 12 := by decide

/-- the memory path of today's source, and what an in-place variant would do to the caller's `short` -/
example : runW true (scalarPath .file) [1, 2] = ([2, 1], [1, 2]) ∧ runW true [.swapArg, .writeArg] [1, 2] = ([2, 1], [2, 1]) ∧
    runW true [.swapArg, .writeArg, .swapArg] [1, 2] = ([2, 1], [1, 2]) := by decide
example : ([1, 2] : List UInt8).reverse ≠ [1, 2] := by decide
/-- an `Array<short>{0x0102, 0x8000}` written in the non-native order: swapped bytes out, storage as before -/
example : putArrayMem .sock .big .i16 [0x0102, 0x8000] = ([1, 2, 0x80, 0], [2, 1, 0, 0x80]) ∧
    (∀ v ∈ [0x0102, 0x8000], ValidBits .i16 v) := by decide
/-- a history read back with the array and the string skipped, a switch in between -/
example : readAll .sb .little (writeAll .sb .little [.scalar .i16 0x0102, .array .i16 [3, 4], .setEndian .big, .bytes [9, 9, 9], .scalar .u16 0x0506]).2
      (([WOp.scalar .i16 0x0102, .array .i16 [3, 4], .setEndian .big, .bytes [9, 9, 9], .scalar .u16 0x0506].zip [false, true, false, true, false]).flatMap mirrorS) =
    (.big, [.val .i16 0x0102, .none, .none, .none, .val .u16 0x0506], []) := by decide

/-! ## a Socket whose bytes arrive in pieces (the receive loop of `Socket_::read(void*, int)`)

`readAllFrag` is `readAll .sock` with every `read(p, n)` going through `sockRecvLoop` over the pending pieces — what
the driver runs after `readerf`. `Live ps`: every piece holds at least one byte. -/

/-- G: the `return` after the receive loop of `Socket_::read(void*, int)` names the sum of the chunks (not the last chunk) -/
theorem gen_socket_read_returns_total : sockReadRet = .total := by decide

/-- `ByteArray Socket_::read(int n)` (the array is cut to what `read(p, n)` returned): the first `n` bytes of the stream
    whatever the pieces -/
theorem socket_read_bytes_spec (ps : List (List UInt8)) (h : AslProofs.StreamFrag.Live ps) (n : Nat) :
    (sockReadBytes n ps).1 = ps.flatten.take n ∧ (sockReadBytes n ps).2.flatten = ps.flatten.drop n := by
  rw [AslProofs.StreamFrag.sockReadBytes_eq]
  exact ⟨(AslProofs.StreamFrag.sockRead_spec ps h n).1, (AslProofs.StreamFrag.sockRead_spec ps h n).2.1⟩

/-- the model tells the variants apart: the size of the LAST chunk differs between two partitions of one stream, so a
    `read` returning it would make `read(n)` depend on the pieces -/
theorem socket_last_chunk_depends_on_pieces :
    sockRecvLast 4 [[1, 2, 3], [4]] ≠ sockRecvLast 4 [[1, 2, 3, 4]] ∧
    ([[1, 2, 3], [4]] : List (List UInt8)).flatten = [[1, 2, 3, 4]].flatten := by decide

/-- one `Socket_::read(p, n)`: the first `n` bytes of the stream whatever the pieces, the rest stays pending -/
theorem socket_recv_loop_spec (ps : List (List UInt8)) (h : AslProofs.StreamFrag.Live ps) (n : Nat) :
    (sockRead n ps).1 = ps.flatten.take n ∧ (sockRead n ps).2.flatten = ps.flatten.drop n :=
  ⟨(AslProofs.StreamFrag.sockRead_spec ps h n).1, (AslProofs.StreamFrag.sockRead_spec ps h n).2.1⟩

/-- a whole read history on a Socket fed in pieces = the history on the concatenation (order switches anywhere, arrays,
    raw bytes, skips): same final order, same values, same bytes left -/
theorem socket_read_frag_eq_flat (ops : List ROp) (e : Endian) (ps : List (List UInt8))
    (h : AslProofs.StreamFrag.Live ps) :
    (readAllFrag e ps ops).1 = (readAll .sock e ps.flatten ops).1 ∧
    (readAllFrag e ps ops).2.1 = (readAll .sock e ps.flatten ops).2.1 ∧
    (readAllFrag e ps ops).2.2.flatten = (readAll .sock e ps.flatten ops).2.2 := by
  obtain ⟨a, b, c, _⟩ := AslProofs.StreamFrag.readAllFrag_spec ops e ps h
  exact ⟨a, b, c⟩

/-- what a Socket reads does not depend on how the bytes are fragmented: two partitions of the same stream give the
    same values, the same final byte order and the same unread bytes -/
theorem socket_read_fragment_independent (ops : List ROp) (e : Endian) (ps qs : List (List UInt8))
    (hp : AslProofs.StreamFrag.Live ps) (hq : AslProofs.StreamFrag.Live qs) (heq : ps.flatten = qs.flatten) :
    (readAllFrag e ps ops).1 = (readAllFrag e qs ops).1 ∧
    (readAllFrag e ps ops).2.1 = (readAllFrag e qs ops).2.1 ∧
    (readAllFrag e ps ops).2.2.flatten = (readAllFrag e qs ops).2.2.flatten := by
  obtain ⟨a, b, c⟩ := socket_read_frag_eq_flat ops e ps hp
  obtain ⟨a', b', c'⟩ := socket_read_frag_eq_flat ops e qs hq
  rw [heq] at a b c
  exact ⟨a.trans a'.symm, b.trans b'.symm, c.trans c'.symm⟩

/-- op `readerf`: the stream cut at ANY list of offsets is a live partition of it, so the history reads what `reader`
    reads -/
theorem socket_read_any_cuts (ops : List ROp) (e : Endian) (cuts : List Nat) (bs : List UInt8) :
    (readAllFrag e (cutPieces cuts bs) ops).2.1 = (readAll .sock e bs ops).2.1 ∧
    (readAllFrag e (cutPieces cuts bs) ops).2.2.flatten = (readAll .sock e bs ops).2.2 := by
  obtain ⟨hf, hl⟩ := AslProofs.StreamFrag.cutPieces_spec cuts bs
  obtain ⟨_, b, c⟩ := socket_read_frag_eq_flat ops e _ hl
  rw [hf] at b c
  exact ⟨b, c⟩

/-- read back over pieces: a written history, delivered to the reading Socket cut at any offsets, returns the original
    values (`read_back` through `socket_read_any_cuts`) -/
theorem socket_read_back_any_cuts (e : Endian) (ops : List WOp) (cuts : List Nat) (hwf : ∀ op ∈ ops, WF .sock op) :
    (readAllFrag e (cutPieces cuts (writeAll .sock e ops).2) (ops.flatMap mirror)).2.1 = ops.flatMap expected := by
  have h := read_back .sock e ops [] hwf
  rw [List.append_nil] at h
  rw [(socket_read_any_cuts _ e cuts _).1, h]

/-- `Socket >> String` over pieces (length prefix and body may both be cut): the same string and the same pending bytes
    as on the concatenation, `none` (the call would block) in the same cases -/
theorem socket_string_read_fragment_independent (e : Endian) (ps : List (List UInt8)) (h : AslProofs.StreamFrag.Live ps) :
    (getStringFrag e ps).map (fun r => (r.1, r.2.flatten)) = getString .sock e ps.flatten :=
  (AslProofs.StreamFrag.getStringFrag_spec e ps h).1

example : getStringFrag .big [[0, 0], [0, 3, 65], [66, 67, 9]] = some ([65, 66, 67], [[9]]) ∧
    getString .sock .big [0, 0, 0, 3, 65, 66, 67, 9] = some ([65, 66, 67], [9]) := by decide

/-- non-vacuity: a big-endian short and int cut inside both values (three `recv` calls for the int) -/
example : cutPieces [1, 3, 5] [1, 2, 3, 4, 5, 6] = [[1], [2, 3], [4, 5], [6]] ∧
    AslProofs.StreamFrag.Live (cutPieces [1, 3, 5] [1, 2, 3, 4, 5, 6]) ∧
    readAllFrag .big [[1], [2, 3], [4, 5], [6]] [.scalar .u16, .scalar .i32] =
      (.big, [.val .u16 0x0102, .val .i32 0x03040506], []) ∧
    readAllFrag .big [[1, 2, 3, 4, 5], [6]] [.scalar .u16, .scalar .i32] =
      (.big, [.val .u16 0x0102, .val .i32 0x03040506], []) := by
  refine ⟨by decide, (AslProofs.StreamFrag.cutPieces_spec _ _).2, by decide, by decide⟩

end C16
