import AslModel.Stream
/-!
# C16 — specification of the binary streams (definitions only, no theorems)

The textbook definition of big/little-endian positional notation — byte `i` of the big-endian encoding
of `v` in `w` bytes is `v / 256^(w-1-i) % 256`, of the little-endian one `v / 256^i % 256` — and of a
stream as the concatenation of the encodings of its items under the byte order in force.  Nothing here
mentions `swapBytes`, object representations or shifts.  The property theorems are in `AslProps/C16.lean`.
-/
namespace C16
open AslModel.Stream Gen.Stream

namespace Spec

inductive Order where
  | big | little
deriving DecidableEq, Repr

/-- byte order of the machine the library is compiled for -/
def host : Order := if hostLittle then .little else .big

/-- the order an `Endian` setting denotes: NATIVE is the host's -/
def resolve : Endian → Order
  | .big => .big
  | .little => .little
  | .native => host

/-- the `w` bytes of `v` in stream order -/
def bytes : Order → Nat → Nat → List UInt8
  | .big, w, v => (List.range w).map fun i => UInt8.ofNat (v / 256 ^ (w - 1 - i) % 256)
  | .little, w, v => (List.range w).map fun i => UInt8.ofNat (v / 256 ^ i % 256)

/-- the number denoted by bytes in stream order -/
def value : Order → List UInt8 → Nat
  | .big, bs => bs.foldl (fun a b => a * 256 + b.toNat) 0
  | .little, bs => bs.foldr (fun b a => b.toNat + 256 * a) 0

/-- the value a read of type `t` yields for the number `n` denoted by its bytes: a `bool` is true (1) iff
    the byte is non-zero -/
def asType (t : Ty) (n : Nat) : Nat := if t = .b then (if n = 0 then 0 else 1) else n

/-- valid bit patterns of a C++ type: `bool` holds 0 or 1, the others any `sizeof`-byte pattern -/
def ValidBits (t : Ty) (v : Nat) : Prop :=
  if t = .b then v ≤ 1 else v < 256 ^ sizeofT t

instance (t : Ty) (v : Nat) : Decidable (ValidBits t v) := by unfold ValidBits; exact inferInstance

/-- items of a stream as the property describes them -/
inductive Item where
  | order (e : Endian)                 -- the byte order is changed here
  | scalar (t : Ty) (v : Nat)
  | array (t : Ty) (vs : List Nat)
  | raw (bs : List UInt8)              -- strings and byte arrays

/-- canonical bytes of a stream: concatenation of each item's bytes under the order in force -/
def encode : Endian → List Item → List UInt8
  | _, [] => []
  | _, .order e' :: r => encode e' r
  | e, .scalar t v :: r => bytes (resolve e) (sizeofT t) v ++ encode e r
  | e, .array t vs :: r => vs.flatMap (bytes (resolve e) (sizeofT t)) ++ encode e r
  | e, .raw bs :: r => bs ++ encode e r

end Spec
open Spec

/-- the item a write operation denotes (the value after conversion to the C++ type) -/
def toItem : WOp → Item
  | .setEndian e => .order e
  | .scalar t v => .scalar t (norm t v)
  | .array t vs => .array t (vs.map (norm t))
  | .bytes bs => .raw bs
  | .cstr bs => .raw (bs.takeWhile (· != 0))
  | .carray t vs => .array t (vs.map (norm t))
  | .strArray ss => .raw (ss.flatMap id)   -- an array of strings is the strings' bytes one after the other

/-- reading "the same types back": the read operations mirroring a write operation -/
def mirror : WOp → List ROp
  | .setEndian e => [.setEndian e]
  | .scalar t _ => [.scalar t]
  | .array t vs => vs.map fun _ => .scalar t
  | .bytes bs => [.bytes bs.length]
  | .cstr bs => [.bytes (bs.takeWhile (· != 0)).length]
  | .carray t vs => vs.map fun _ => .scalar t
  | .strArray ss => [.bytes (ss.flatMap id).length]

/-- … and what they must return -/
def expected : WOp → List RVal
  | .setEndian _ => [.none]
  | .scalar t v => [.val t (norm t v)]
  | .array t vs => vs.map fun v => .val t (norm t v)
  | .bytes bs => [.bytes bs]
  | .cstr bs => [.bytes (bs.takeWhile (· != 0))]
  | .carray t vs => vs.map fun v => .val t (norm t v)
  | .strArray ss => [.bytes (ss.flatMap id)]

/-- operations that exist in the library: a C array `T[N]` can only be streamed into a StreamBuffer, and a
    `char[N]` is a C string there (`operator<<(char*)`, modelled by `.cstr`), not an array of items.
    Every other operation exists for every class. -/
def WF (k : Kind) : WOp → Prop
  | .carray t _ => k = .sb ∧ t ≠ .ch
  | _ => True

/-- reading an array back with the array operator `stream >> Array<T>` (File, Socket; commit cdda882) instead of
    one scalar read per item -/
def mirrorA : WOp → List ROp
  | .array t vs => [.array t vs.length]
  | op => mirror op

def expectedA : WOp → List RVal
  | .array t vs => [.vals t (vs.map (norm t))]
  | op => expected op

/-- the number of bytes an item occupies in the stream — the same in every byte order -/
def itemSize : WOp → Nat
  | .setEndian _ => 0
  | .scalar t _ => sizeofT t
  | .array t vs => vs.length * sizeofT t
  | .bytes bs => bs.length
  | .cstr bs => (bs.takeWhile (· != 0)).length
  | .carray t vs => vs.length * sizeofT t
  | .strArray ss => (ss.flatMap id).length

/-- reading a history back with some items skipped: item `i` is read with its own type when `sk[i] = false` and
    stepped over with `skip(size of the item)` when `sk[i] = true` (byte-order switches are always made) -/
def mirrorS : WOp × Bool → List ROp
  | (.setEndian e, _) => [.setEndian e]
  | (op, true) => [.skip (itemSize op)]
  | (op, false) => mirror op

def expectedS : WOp × Bool → List RVal
  | (.setEndian _, _) => [.none]
  | (_, true) => [.none]
  | (op, false) => expected op

end C16
