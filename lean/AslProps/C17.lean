import AslModel.FileText
namespace C17
open AslModel.FileText

theorem copy_exact (b : Nat) (src : Bytes) : copyLoop b src = src := by
  fun_induction copyLoop b src with
  | case1 src blk h ih => rw [ih]; exact List.take_append_drop _ _
  | case2 src blk h =>
    simp only [blk] at *
    rw [List.take_of_length_le]
    simp only [List.length_take] at h
    omega

end C17
