import AslModel.FileText
import AslProofs.FileText
import AslProofs.FileShr
/-!
# C17 — File and TextFile return exactly the bytes, text and lines that were written

Property theorems only (model: `AslModel/FileText.lean`, run by `Driver/C17.lean` against the real library
on every check; helper lemmas: `AslProofs/FileText.lean`; UTF-16 → UTF-8: `fromWide_std`, C08's statement re-proved from `AslProofs/Utf.lean`).

Specifications are written from the abstract semantics, not from the code:
* a text's lines are what splitting at LF gives, each piece that is followed by LF losing one CR;
* a file is a byte string: truncating writers replace it, appenders extend it, an update writer
  overwrites from offset 0; readers return prefixes of it;
* UTF-8 is Lean core's encoder, UTF-16 is Unicode D91 (both as in `AslProps/C08.lean`), serialised
  little- or big-endian behind the byte-order mark FF FE / FE FF; the UTF-8 signature is EF BB BF;
* a copy leaves the source bytes at the destination; a move also removes the source.
-/
namespace C17
open AslModel.FileText AslProofs.FileText Gen.File

/-! ## specifications -/
namespace Spec

/-- put `c` in front of the first piece -/
def consHead (c : UInt8) : List Bytes → List Bytes
  | [] => [[c]]
  | h :: r => (c :: h) :: r

/-- the pieces between the LF bytes (always at least one piece) -/
def splitLF : Bytes → List Bytes
  | [] => [[]]
  | c :: t => if c = 10 then [] :: splitLF t else consHead c (splitLF t)

/-- remove one trailing CR -/
def stripCR (l : Bytes) : Bytes := if l.getLast? = some 13 then l.dropLast else l

/-- apply `f` to every element but the last -/
def mapInit {α : Type} (f : α → α) : List α → List α
  | [] => []
  | [x] => [x]
  | x :: y :: t => f x :: mapInit f (y :: t)

/-- a text file in the sense of the property: no NUL byte (`readLine` measures each chunk with `strlen`) -/
def NulFree (t : Bytes) : Prop := ∀ b ∈ t, b ≠ 0

/-- the lines of a text: split at LF, one CR removed before each LF -/
def lines (t : Bytes) : List Bytes := mapInit stripCR (splitLF t)

end Spec

/-! ## the specification means what it should on concrete texts -/

-- "a\r\n\r\nb\r" → "a", "", "b\r"   (the last piece is not followed by LF: its CR stays)
example : Spec.lines [97, 13, 10, 13, 10, 98, 13] = [[97], [], [98, 13]] := by decide
-- "" → one empty line; "a\n" → "a", ""; "\r\r\n" → "\r", ""
example : Spec.lines [] = [[]] := by decide
example : Spec.lines [97, 10] = [[97], []] := by decide
example : Spec.lines [13, 13, 10] = [[13], []] := by decide

/-! ## lines() and readLine() -/

theorem splitLF_ne_nil (t : Bytes) : Spec.splitLF t ≠ [] := by
  cases t with
  | nil => simp [Spec.splitLF]
  | cons c t =>
    simp only [Spec.splitLF]
    split
    · simp
    · cases Spec.splitLF t <;> simp [Spec.consHead]

theorem stripCR_reverse (racc : Bytes) : Spec.stripCR racc.reverse = (dropCR racc).reverse := by
  cases racc with
  | nil => simp [Spec.stripCR, dropCR]
  | cons y t =>
    simp only [Spec.stripCR, dropCR, List.reverse_cons, List.getLast?_append, List.getLast?_singleton,
      Option.some_or, Option.some.injEq, List.dropLast_concat]
    split <;> simp

/-- prepend a partial line to the first piece -/
def prependHead (x : Bytes) : List Bytes → List Bytes
  | [] => [x]
  | h :: r => (x ++ h) :: r

/-- the byte-by-byte description of `lines()` is the split-at-LF specification -/
theorem linesRef_spec (racc rest : Bytes) :
    linesRef racc rest = Spec.mapInit Spec.stripCR (prependHead racc.reverse (Spec.splitLF rest)) := by
  induction rest generalizing racc with
  | nil => simp [linesRef, Spec.splitLF, prependHead, Spec.mapInit]
  | cons c t ih =>
    by_cases hc : c = 10
    · subst hc
      have hne := splitLF_ne_nil t
      simp only [linesRef, Spec.splitLF, if_true, prependHead, List.append_nil]
      rw [ih []]
      cases hs : Spec.splitLF t with
      | nil => exact absurd hs hne
      | cons h r =>
        simp only [prependHead, List.reverse_nil, List.nil_append, Spec.mapInit]
        rw [stripCR_reverse]
    · simp only [linesRef, Spec.splitLF, hc, if_false]
      rw [ih (c :: racc)]
      cases hs : Spec.splitLF t with
      | nil => exact absurd hs (splitLF_ne_nil t)
      | cons h r => simp [prependHead, Spec.consHead]

/-! The guards `2 ≤ chunk` (here and in `readLine_lf/_last`) and `1 ≤ block` (`copy_exact`) are the conditions under
which the model describes the code at all: with a smaller `fgets` buffer or an empty copy buffer the C++ loops do
not terminate, `tools/props/c17.py translate()` refuses such a source, and the model functions take `chunk - 2` /
`block - 1`.  The proofs therefore never need them; they are kept so that no statement is made about values for
which the model does not transcribe the code. -/

/-- **lines_spec**: for every NUL-free content and every `fgets` chunk size ≥ 2 (255 in the source), `lines()` is exactly
    the sequence obtained by splitting at LF and removing one CR before each LF — any line length, with
    or without a final newline, the empty file included. -/
theorem lines_spec (chunk : Nat) (_h : 2 ≤ chunk) (content : Bytes) (hz : Spec.NulFree content) :
    lines chunk content = Spec.lines content := by
  rw [lines_eq _ _ hz, linesRef_spec]
  unfold Spec.lines
  cases hs : Spec.splitLF content with
  | nil => exact absurd hs (splitLF_ne_nil content)
  | cons h r => simp [prependHead]

/-- **open_modes** (G obligation): the mode strings the current source passes to `fopen` mean read /
    create-truncate / create-append / update-existing, with and without the `TEXT` flag -/
theorem open_modes (t : Bool) :
    stdioMode (if t then fopenText .read else fopenBin .read) = some smRead ∧
    stdioMode (if t then fopenText .write else fopenBin .write) = some smWrite ∧
    stdioMode (if t then fopenText .append else fopenBin .append) = some smAppend ∧
    stdioMode (if t then fopenText .rw else fopenBin .rw) = some smUpdate :=
  AslProofs.FileText.open_modes t

/-- the chunk of the current source satisfies the hypothesis of `lines_spec`, and `TextFile(path).lines()`
    of an existing file is the specification of its content -/
theorem lines_of_file (d : Disk) (p : Nat) (c : Bytes) (h : d p = some c) (hz : Spec.NulFree c) :
    linesOf d p = Spec.lines c := by
  unfold linesOf
  rw [openH_read d p true c h]
  have := lines_spec readLineChunk (by decide) c hz
  unfold lines at this
  exact this

/-! ### writing lines and reading them back (the specification composed with the usual way of writing text) -/

namespace Spec
/-- the lines joined by a separator (LF or CR LF), no separator after the last one -/
def join (sep : Bytes) : List Bytes → Bytes
  | [] => []
  | [l] => l
  | l :: m :: t => l ++ sep ++ join sep (m :: t)
end Spec

theorem splitLF_nolf (l : Bytes) (h : ∀ b ∈ l, b ≠ 10) : Spec.splitLF l = [l] := by
  induction l with
  | nil => rfl
  | cons c t ih =>
    have hc : c ≠ 10 := h c (by simp)
    simp only [Spec.splitLF, hc, if_false, ih (fun b hb => h b (by simp [hb])), Spec.consHead]

theorem splitLF_append (l rest : Bytes) (h : ∀ b ∈ l, b ≠ 10) :
    Spec.splitLF (l ++ 10 :: rest) = l :: Spec.splitLF rest := by
  induction l with
  | nil => simp [Spec.splitLF]
  | cons c t ih =>
    have hc : c ≠ 10 := h c (by simp)
    simp only [List.cons_append, Spec.splitLF, hc, if_false, ih (fun b hb => h b (by simp [hb])), Spec.consHead]

/-- **lines_join_crlf**: lines without LF, written with CR LF between them, are read back exactly (even lines
    that themselves end in CR) -/
theorem lines_join_crlf (ls : List Bytes) (hne : ls ≠ []) (h : ∀ l ∈ ls, ∀ b ∈ l, b ≠ 10) :
    Spec.lines (Spec.join [13, 10] ls) = ls := by
  unfold Spec.lines
  induction ls with
  | nil => exact absurd rfl hne
  | cons l t ih =>
    cases t with
    | nil => simp [Spec.join, splitLF_nolf l (h l (by simp)), Spec.mapInit]
    | cons m r =>
      have hl : ∀ b ∈ l ++ [13], b ≠ 10 := by
        intro b hb
        rcases List.mem_append.mp hb with hb | hb
        · exact h l (by simp) b hb
        · simp only [List.mem_singleton] at hb; subst hb; decide
      have e : Spec.join [13, 10] (l :: m :: r) = (l ++ [13]) ++ 10 :: Spec.join [13, 10] (m :: r) := by
        simp [Spec.join]
      rw [e, splitLF_append _ _ hl]
      have ih' := ih (by simp) (fun x hx => h x (List.mem_cons_of_mem _ hx))
      cases hs : Spec.splitLF (Spec.join [13, 10] (m :: r)) with
      | nil => exact absurd hs (splitLF_ne_nil _)
      | cons a b =>
        rw [hs] at ih'
        simp only [Spec.mapInit, ih']
        congr 1
        simp [Spec.stripCR]

/-- **lines_join_lf**: lines without LF, none but possibly the last ending in CR, written with LF between
    them, are read back exactly -/
theorem lines_join_lf (ls : List Bytes) (hne : ls ≠ []) (h : ∀ l ∈ ls, ∀ b ∈ l, b ≠ 10)
    (hcr : ∀ l ∈ ls.dropLast, l.getLast? ≠ some 13) :
    Spec.lines (Spec.join [10] ls) = ls := by
  unfold Spec.lines
  induction ls with
  | nil => exact absurd rfl hne
  | cons l t ih =>
    cases t with
    | nil => simp [Spec.join, splitLF_nolf l (h l (by simp)), Spec.mapInit]
    | cons m r =>
      have e : Spec.join [10] (l :: m :: r) = l ++ 10 :: Spec.join [10] (m :: r) := by
        simp [Spec.join]
      rw [e, splitLF_append _ _ (h l (by simp))]
      have ih' := ih (by simp) (fun x hx => h x (List.mem_cons_of_mem _ hx))
        (fun x hx => hcr x (by simp only [List.dropLast_cons_cons]; exact List.mem_cons_of_mem _ hx))
      have hl : l.getLast? ≠ some 13 := hcr l (by simp)
      cases hs : Spec.splitLF (Spec.join [10] (m :: r)) with
      | nil => exact absurd hs (splitLF_ne_nil _)
      | cons a b =>
        rw [hs] at ih'
        simp only [Spec.mapInit, ih']
        congr 1
        simp [Spec.stripCR, hl]

/-- **readLine_lf** (a line that ends in LF): the call returns `true`, leaves the line without its LF and
    without one CR before it, and the stream just behind the LF.  Only the line itself has to be NUL-free:
    nothing behind the LF is looked at. -/
theorem readLine_lf (chunk : Nat) (_h : 2 ≤ chunk) (pre post : Bytes) (e : Bool) (hpre : ∀ b ∈ pre, b ≠ 10)
    (hz : Spec.NulFree pre) :
    readLine chunk ⟨pre ++ 10 :: post, e⟩ = ((Spec.stripCR pre, true), ⟨post, e⟩) := by
  unfold readLine
  have htw : (pre ++ 10 :: post).takeWhile (· != 10) = pre := by
    rw [takeWhile_append_nolf _ _ hpre]; simp
  rw [readLineLoop_eq_toLF _ _ ⟨pre ++ 10 :: post, e⟩ (by rw [htw]; exact hz), rlSpec_lf _ _ _ _ hpre]
  simp only [List.append_nil]
  rw [← stripCR_reverse, List.reverse_reverse]

/-- **readLine_last** (the bytes after the last LF): the call returns `false`, leaves those bytes in the
    string, and the end-of-file indicator is set — so `while (!end())` loops stop after it -/
theorem readLine_last (chunk : Nat) (_h : 2 ≤ chunk) (rest : Bytes) (e : Bool) (hrest : ∀ b ∈ rest, b ≠ 10)
    (hz : Spec.NulFree rest) :
    readLine chunk ⟨rest, e⟩ = ((rest, false), ⟨[], true⟩) := by
  unfold readLine
  rw [readLineLoop_eq _ _ ⟨rest, e⟩ hz, rlSpec_nolf _ _ _ hrest]
  simp

/-- **readLine_delim**: `readLine(char newline)` returns the bytes before the next delimiter and leaves the
    stream behind it (no CR handling: the delimiter is the caller's); without a delimiter it returns the rest
    and sets the end-of-file indicator -/
theorem readLine_delim (delim : UInt8) (pre post rest : Bytes) (e : Bool) (hpre : ∀ b ∈ pre, b ≠ delim)
    (hrest : ∀ b ∈ rest, b ≠ delim) :
    readLineDelim delim ⟨pre ++ delim :: post, e⟩ = (pre, ⟨post, e⟩) ∧
    readLineDelim delim ⟨rest, e⟩ = (rest, ⟨[], true⟩) := by
  have gen1 : ∀ (pre racc : Bytes), (∀ b ∈ pre, b ≠ delim) →
      readDelimLoop delim (pre ++ delim :: post) e racc = (racc.reverse ++ pre, ⟨post, e⟩) := by
    intro pre
    induction pre with
    | nil => intro racc _; simp [readDelimLoop]
    | cons c t ih =>
      intro racc h
      have hc : c ≠ delim := h c (by simp)
      simp only [List.cons_append, readDelimLoop, beq_iff_eq, hc, if_false]
      rw [ih (c :: racc) (fun b hb => h b (by simp [hb]))]
      simp
  have gen2 : ∀ (rest racc : Bytes), (∀ b ∈ rest, b ≠ delim) →
      readDelimLoop delim rest e racc = (racc.reverse ++ rest, ⟨[], true⟩) := by
    intro rest
    induction rest with
    | nil => intro racc _; simp [readDelimLoop]
    | cons c t ih =>
      intro racc h
      have hc : c ≠ delim := h c (by simp)
      simp only [readDelimLoop, beq_iff_eq, hc, if_false]
      rw [ih (c :: racc) (fun b hb => h b (by simp [hb]))]
      simp
  exact ⟨by simpa [readLineDelim] using gen1 pre [] hpre, by simpa [readLineDelim] using gen2 rest [] hrest⟩

/-- **readLine_delim_total** — *definitional for the unreadable case*: the first conjunct only unfolds the `else` branch of
    `hreadLineDelim`, which transcribes what libc does on a stream that cannot be read (the one-byte `read` fails at once
    with the error indicator set).  The repair 95952ce (the loop used to test `feof` only and never ended there) cannot
    be expressed in the model — `readDelimLoop` is structurally recursive, so it always returns, and on readable streams
    the pre-repair loop computes the same function; that repair is checked by K only (`rlc` through writers, `xwrlc`,
    `xdirrlc`, the harness watchdog) and by the shape check of `translate()`.  The second conjunct (a readable stream:
    the result is no longer than what is there) is a real, if modest, statement about `readDelimLoop`.
    *Not proved (suggested by the audit): a model in which `fread` can fail without EOF, with the loop written with fuel,
    termination for the `read < 1` break and a non-termination witness for the `feof`-only test.* -/
theorem readLine_delim_total (h : Handle) (delim : UInt8) :
    (h.sm.canRead = false → hreadLineDelim h delim = ([], { h with err := true })) ∧
    (h.sm.canRead = true → (hreadLineDelim h delim).1.length ≤ h.rs.rest.length) := by
  constructor
  · intro hc; simp [hreadLineDelim, hc]
  · intro hc
    have gen : ∀ (rest racc : Bytes) (e : Bool), (readDelimLoop delim rest e racc).1.length ≤ racc.length + rest.length := by
      intro rest
      induction rest with
      | nil => intro racc e; simp [readDelimLoop]
      | cons c t ih =>
        intro racc e
        simp only [readDelimLoop]
        split
        · simp
        · have := ih (c :: racc) e
          simp only [List.length_cons] at this ⊢
          omega
    have := gen h.rs.rest [] h.rs.eof
    simpa [hreadLineDelim, hc, readLineDelim] using this

/-- **failed_read_ends** — *definitional*: after `read(p, n ≥ 1)`, `readLine(String&)` or `readLine(char)` through a stream
    that cannot be read (an object open for writing) the model's `end()` is true, because `hread` / `hreadLine` /
    `hreadLineDelim` set the error indicator there (what libc does) and `hend` is `eof || err` (what `end()` is after the
    repair 4bfeeba).  The statement unfolds those definitions; that the *code's* loop `while (!f.end()) f.readLine();`
    now stops is checked by K only (`xwend`, `xdirend`, `r`/`rl`/`rlc`/`end` through writer sessions) and by the shape
    check of `translate()`.  On a readable stream `end()` is the end-of-file indicator, as before. -/
theorem failed_read_ends (h : Handle) (chunk : Nat) (delim : UInt8) :
    (h.sm.canRead = false → hend (hreadLine chunk h).2 = true ∧ hend (hreadLineDelim h delim).2 = true ∧
      (hreadLine chunk h).1 = ([], false) ∧ (∀ n, 0 < n → hend (hread h n).2 = true ∧ (hread h n).1 = []) ∧
      hread h 0 = ([], h)) ∧
    (h.sm.canRead = true → h.err = false → hend (hreadLine chunk h).2 = (readLine chunk h.rs).2.eof) := by
  constructor
  · intro hc
    refine ⟨by simp [hend, hreadLine, hc], by simp [hend, hreadLineDelim, hc], by simp [hreadLine, hc], ?_, by simp [hread, hc]⟩
    intro n hn
    have : n ≠ 0 := by omega
    simp [hend, hread, hc, this]
  · intro hc he; simp [hend, hreadLine, hc, he]

-- hypotheses are satisfiable / the statements are not vacuous: a 3-byte chunk on "ab\r\ncd"
example : readLine 3 ⟨[97, 98, 13, 10, 99, 100], false⟩ = (([97, 98], true), ⟨[99, 100], false⟩) := by
  have := readLine_lf 3 (by decide) [97, 98, 13] [99, 100] false (by decide) (by unfold Spec.NulFree; decide)
  simpa [Spec.stripCR] using this
example : lines 2 [97, 98, 13, 10, 99, 100] = [[97, 98], [99, 100]] := by
  rw [lines_spec 2 (by decide) _ (by unfold Spec.NulFree; decide)]; decide

/-! ## the loop driven by the result of `readLine(String&)` -/

/-- `mapInit f` = `f` on every element but the last, the last unchanged -/
theorem mapInit_eq {α : Type} (f : α → α) (l : List α) (h : l ≠ []) :
    Spec.mapInit f l = l.dropLast.map f ++ [l.getLast h] := by
  induction l with
  | nil => exact absurd rfl h
  | cons x t ih =>
    cases t with
    | nil => simp [Spec.mapInit]
    | cons y t' =>
      simp only [Spec.mapInit, List.dropLast_cons_cons, List.map_cons, List.cons_append]
      rw [ih (by simp)]
      simp

/-- **readLine_while_spec** (`while (f.readLine(s)) out << s;`, the loop driven by the `bool` result, on a stream at any
    position whose remaining bytes are NUL-free, any chunk size ≥ 2): the strings delivered with `true`, followed by the
    string the final `false` call leaves in `s`, are exactly the lines of the remaining text — nothing is lost, nothing
    invented — and the stream is left at its end with the end-of-file indicator set (`end()` is true). -/
theorem readLine_while_spec (chunk : Nat) (_h : 2 ≤ chunk) (content : Bytes) (e : Bool) (hz : Spec.NulFree content) :
    (readWhile chunk ⟨content, e⟩).1.1 ++ [(readWhile chunk ⟨content, e⟩).1.2] = Spec.lines content ∧
    (readWhile chunk ⟨content, e⟩).2 = ⟨[], true⟩ := by
  have h := readWhileLoop_eq (chunk - 2) ⟨content, e⟩ [] hz
  have hl : linesRef [] content = Spec.lines content := by
    rw [← lines_eq 2 content hz]; exact lines_spec 2 (by decide) content hz
  unfold readWhile
  refine ⟨?_, h.2⟩
  rw [h.1, ← hl]; simp

/-- **readLine_while_terminated**: what that loop delivers with `true` is exactly the sequence of LF-terminated lines
    (every piece that is followed by an LF, without one CR before it),
    and the string left by the final `false` call is the unterminated tail (the bytes after the last LF, CR kept;
    empty when the text ends in LF or is empty).  A caller that ignores `s` after `false` loses exactly that tail. -/
theorem readLine_while_terminated (chunk : Nat) (_h : 2 ≤ chunk) (content : Bytes) (e : Bool) (hz : Spec.NulFree content) :
    (readWhile chunk ⟨content, e⟩).1.1 = (Spec.splitLF content).dropLast.map Spec.stripCR ∧
    (readWhile chunk ⟨content, e⟩).1.2 = (Spec.splitLF content).getLast (splitLF_ne_nil content) := by
  have h := (readLine_while_spec chunk _h content e hz).1
  unfold Spec.lines at h
  rw [mapInit_eq _ _ (splitLF_ne_nil content)] at h
  have := List.append_inj' h (by simp)
  exact ⟨this.1, by simpa using this.2⟩

/-- **readLine_while_of_file**: a `TextFile` opened for reading on a path that holds the NUL-free bytes `c`, then
    `while (f.readLine(s)) out << s;`: `out` followed by the final `s` is the lines of `c`, and `end()` is true. -/
theorem readLine_while_of_file (d : Disk) (p : Nat) (c : Bytes) (hc : d p = some c) (hz : Spec.NulFree c) :
    ∃ h, openH d p true .read = (some h, d) ∧
      (hreadWhile readLineChunk h).1.1 ++ [(hreadWhile readLineChunk h).1.2] = Spec.lines c ∧
      hend (hreadWhile readLineChunk h).2 = true := by
  refine ⟨_, openH_read d p true c hc, ?_⟩
  have hs := readLine_while_spec readLineChunk (by decide) c false hz
  simp only [hreadWhile, smRead, if_true]
  exact ⟨hs.1, by simp [hend, hs.2]⟩

-- not vacuous: "a\r\n\r\nb\r" with a 3-byte chunk: two terminated lines, the tail keeps its CR; "a\n": empty tail
example : readWhile 3 ⟨[97, 13, 10, 13, 10, 98, 13], false⟩ = (([[97], []], [98, 13]), ⟨[], true⟩) := by
  have h := readLine_while_terminated 3 (by decide) [97, 13, 10, 13, 10, 98, 13] false (by unfold Spec.NulFree; decide)
  have h2 := (readLine_while_spec 3 (by decide) [97, 13, 10, 13, 10, 98, 13] false (by unfold Spec.NulFree; decide)).2
  have e1 : (Spec.splitLF [97, 13, 10, 13, 10, 98, 13]).dropLast.map Spec.stripCR = [[97], []] := by decide
  have e2 : (Spec.splitLF [97, 13, 10, 13, 10, 98, 13]).getLast (splitLF_ne_nil _) = [98, 13] := by decide
  rw [e1, e2] at h
  exact Prod.ext (Prod.ext h.1 h.2) h2
example : (readWhile 255 ⟨[97, 10], false⟩).1 = ([[97]], []) := by
  have h := readLine_while_terminated 255 (by decide) [97, 10] false (by unfold Spec.NulFree; decide)
  exact Prod.ext (h.1.trans (by decide)) (h.2.trans (by decide))

/-! ## Directory::copy block loop -/

/-- **copy_exact**: the block loop writes exactly the source bytes, for every size and every block size ≥ 1
    (a size that is a multiple of the block takes one extra, empty, read) -/
theorem copy_exact (block : Nat) (_h : 1 ≤ block) (src : Bytes) : copyLoop (block - 1) src = src :=
  copyLoop_id _ _

/-! ## text(): plain, UTF-8 signature, UTF-16 byte-order marks -/

/-- **text_utf8**: a file that does not begin with one of the three byte-order marks is returned unchanged
    (any bytes, any size below 2 GiB, the empty file included) -/
theorem text_utf8 (c : Bytes) (hlen : c.length < 2147483648)
    (h1 : ¬ [0xFF, 0xFE] <+: c) (h2 : ¬ [0xFE, 0xFF] <+: c) (h3 : ¬ [0xEF, 0xBB, 0xBF] <+: c) : text c = some c := by
  unfold text textN
  simp only [size_mask _ hlen]
  split
  · match c with
    | [] => simp
    | [_] => simp
    | a :: b :: body =>
      have e1 : ¬ (a = bom1.1 ∧ b = bom1.2) := by
        rintro ⟨rfl, rfl⟩; exact h1 ⟨body, rfl⟩
      have e2 : ¬ (a = bom2.1 ∧ b = bom2.2) := by
        rintro ⟨rfl, rfl⟩; exact h2 ⟨body, rfl⟩
      have e3 : ¬ (a = bom3.1 ∧ b = bom3.2.1 ∧ 3 ≤ (a :: b :: body).length ∧ body.head? = some bom3.2.2) := by
        rintro ⟨rfl, rfl, -, hh⟩
        cases body with
        | nil => simp at hh
        | cons x t =>
          simp only [List.head?_cons, Option.some.injEq] at hh
          subst hh
          exact h3 ⟨t, rfl⟩
      simp only [if_neg e1, if_neg e2, if_neg e3, List.take_length]
  · simp

/-- **text_bom_utf8**: behind the UTF-8 signature EF BB BF the rest of the file is returned unchanged -/
theorem text_bom_utf8 (t : Bytes) (hlen : t.length + 3 < 2147483648) : text (0xEF :: 0xBB :: 0xBF :: t) = some t := by
  unfold text textN
  have hl : (0xEF :: 0xBB :: 0xBF :: t : Bytes).length < 2147483648 := by simp only [List.length_cons]; omega
  simp only [size_mask _ hl]
  have h2 : 2 ≤ (0xEF :: 0xBB :: 0xBF :: t : Bytes).length := by simp only [List.length_cons]; omega
  have e1 : ¬ ((0xEF : UInt8) = bom1.1 ∧ (0xBB : UInt8) = bom1.2) := by decide
  have e2 : ¬ ((0xEF : UInt8) = bom2.1 ∧ (0xBB : UInt8) = bom2.2) := by decide
  have e3 : (0xEF : UInt8) = bom3.1 ∧ (0xBB : UInt8) = bom3.2.1 ∧ 3 ≤ (0xEF :: 0xBB :: 0xBF :: t : Bytes).length ∧
      (0xBF :: t : Bytes).head? = some bom3.2.2 := by
    refine ⟨by decide, by decide, ?_, ?_⟩
    · simp only [List.length_cons]; omega
    · simp only [List.head?_cons]; decide
  simp only [if_pos h2, if_neg e1, if_neg e2, if_pos e3, List.tail_cons]
  rw [List.take_of_length_le (by simp only [List.length_cons]; omega)]

/-! The UTF specifications are `Std.utf8` (Lean core's `String.utf8EncodeChar` per scalar value), `Std.utf16`
(Unicode D91) and `Std.NoNul`, defined in `AslProofs/FileText.lean` with the same text as `C08.Std`. -/
example : Std.utf8 [Char.ofNat 0xE9, Char.ofNat 0x1F600] = [0xC3, 0xA9, 0xF0, 0x9F, 0x98, 0x80] := by decide
example : Std.utf16 [Char.ofNat 0xE9, Char.ofNat 0x1F600] = [0xE9, 0xD83D, 0xDE00] := by decide

namespace Spec
/-- the text contains CR immediately followed by LF -/
def HasCRLF (cs : List Char) : Prop := ∃ pre post, cs = pre ++ Char.ofNat 13 :: Char.ofNat 10 :: post

/-- every CR that is immediately followed by LF removed -/
def foldCRLF : List Char → List Char
  | [] => []
  | [a] => [a]
  | a :: b :: t => if a.toNat = 13 ∧ b.toNat = 10 then foldCRLF (b :: t) else a :: foldCRLF (b :: t)

example : foldCRLF [Char.ofNat 97, Char.ofNat 13, Char.ofNat 13, Char.ofNat 10, Char.ofNat 10, Char.ofNat 13] =
    [Char.ofNat 97, Char.ofNat 13, Char.ofNat 10, Char.ofNat 10, Char.ofNat 13] := by decide

/-- a UTF-16 file: byte-order mark, then every unit low byte first (LE) or high byte first (BE) -/
def utf16leFile (cs : List Char) : Bytes := [0xFF, 0xFE] ++ le16 (Std.utf16 cs)
def utf16beFile (cs : List Char) : Bytes := [0xFE, 0xFF] ++ be16 (Std.utf16 cs)
end Spec

theorem utf16_lt (cs : List Char) : ∀ u ∈ Std.utf16 cs, u < 65536 := by
  intro u hu
  simp only [Std.utf16, List.mem_flatMap] at hu
  obtain ⟨c, -, hu⟩ := hu
  have hv : c.toNat < 0x110000 := by
    have := c.valid
    simp only [Char.toNat, UInt32.isValidChar, Nat.isValidChar] at *
    omega
  unfold Std.utf16Char at hu
  split at hu
  · simp only [List.mem_singleton] at hu; omega
  · simp only [List.mem_cons, List.not_mem_nil, or_false] at hu
    rcases hu with rfl | rfl <;> omega

/-- folding CR LF on the UTF-16 units is folding it on the scalar values (surrogates are neither CR nor LF) -/
theorem foldU_utf16 (cs : List Char) : foldU (Std.utf16 cs) = Std.utf16 (Spec.foldCRLF cs) := by
  induction cs with
  | nil => simp [Std.utf16, foldU, Spec.foldCRLF]
  | cons a l ih =>
    have hv : a.toNat < 0x110000 := by
      have := a.valid
      simp only [Char.toNat, UInt32.isValidChar, Nat.isValidChar] at *
      omega
    cases l with
    | nil =>
      simp only [Std.utf16, List.flatMap_cons, List.flatMap_nil, List.append_nil, Spec.foldCRLF]
      unfold Std.utf16Char
      split
      · simp [foldU]
      · rw [foldU_cons_ne _ _ (by omega), foldU_cons_ne _ _ (by omega)]; simp [foldU]
    | cons b t =>
      have hb : b.toNat < 0x110000 := by
        have := b.valid
        simp only [Char.toNat, UInt32.isValidChar, Nat.isValidChar] at *
        omega
      -- the first unit of the rest is LF exactly when `b` is LF
      have hhead : ∃ h r, Std.utf16 (b :: t) = h :: r ∧ (h = 10 ↔ b.toNat = 10) := by
        simp only [Std.utf16, List.flatMap_cons]
        unfold Std.utf16Char
        split
        · exact ⟨b.toNat, _, rfl, Iff.rfl⟩
        · exact ⟨_, _, rfl, by omega⟩
      obtain ⟨h, r, hr, hiff⟩ := hhead
      have e1 : Std.utf16 (a :: b :: t) = Std.utf16Char a.toNat ++ Std.utf16 (b :: t) := by
        simp [Std.utf16]
      rw [e1, Spec.foldCRLF]
      by_cases hc : a.toNat = 13 ∧ b.toNat = 10
      · rw [if_pos hc, ← ih]
        have : Std.utf16Char a.toNat = [13] := by unfold Std.utf16Char; rw [hc.1]; simp
        rw [this, hr]
        have h10 : h = 10 := hiff.mpr hc.2
        simp [foldU, h10]
      · rw [if_neg hc]
        have e2 : Std.utf16 (a :: Spec.foldCRLF (b :: t)) = Std.utf16Char a.toNat ++ Std.utf16 (Spec.foldCRLF (b :: t)) := by
          simp [Std.utf16]
        rw [e2, ← ih]
        unfold Std.utf16Char
        split
        · rw [hr]
          have : ¬ (a.toNat = 13 ∧ h = 10) := fun ⟨x, y⟩ => hc ⟨x, hiff.mp y⟩
          simp [foldU, this]
        · simp only [List.cons_append, List.nil_append]
          rw [foldU_cons_ne _ _ (by omega), foldU_cons_ne _ _ (by omega)]

theorem foldCRLF_mem (cs : List Char) : ∀ c ∈ Spec.foldCRLF cs, c ∈ cs := by
  induction cs with
  | nil => simp [Spec.foldCRLF]
  | cons a l ih =>
    cases l with
    | nil => simp [Spec.foldCRLF]
    | cons b t =>
      intro c hc
      rw [Spec.foldCRLF] at hc
      split at hc
      · exact List.mem_cons_of_mem _ (ih c hc)
      · rcases List.mem_cons.mp hc with rfl | h
        · simp
        · exact List.mem_cons_of_mem _ (ih c h)

/-- a text without an adjacent CR LF is left alone by the folding -/
theorem foldCRLF_id (cs : List Char) (h : ¬ Spec.HasCRLF cs) : Spec.foldCRLF cs = cs := by
  induction cs with
  | nil => simp [Spec.foldCRLF]
  | cons a l ih =>
    cases l with
    | nil => simp [Spec.foldCRLF]
    | cons b t =>
      have ht : ¬ Spec.HasCRLF (b :: t) := by
        rintro ⟨pre, post, e⟩
        exact h ⟨a :: pre, post, by rw [e]; rfl⟩
      rw [Spec.foldCRLF]
      have hc : ¬ (a.toNat = 13 ∧ b.toNat = 10) := by
        rintro ⟨h13, h10⟩
        apply h
        refine ⟨[], t, ?_⟩
        rw [char_eq_of_toNat h13 (by omega), char_eq_of_toNat h10 (by omega)]
        rfl
      rw [if_neg hc, ih ht]

/-- **text_utf16_fold** (what the code does on every UTF-16 file of scalar values): the text comes back in
    UTF-8 with each CR LF folded to LF and nothing else changed -/
theorem text_utf16_fold (cs : List Char) (h0 : Std.NoNul cs) (hlen : (Spec.utf16leFile cs).length < 2147483648) :
    text (Spec.utf16leFile cs) = some (Std.utf8 (Spec.foldCRLF cs)) ∧
    text (Spec.utf16beFile cs) = some (Std.utf8 (Spec.foldCRLF cs)) := by
  have hlt := utf16_lt cs
  have hle : (le16 (Std.utf16 cs)).length = (be16 (Std.utf16 cs)).length := by
    simp [le16, be16, List.length_flatMap]
  have hn : Std.NoNul (Spec.foldCRLF cs) := fun c hc => h0 c (foldCRLF_mem cs c hc)
  unfold Spec.utf16leFile at hlen
  simp only [List.length_append, List.length_cons, List.length_nil] at hlen
  constructor
  · unfold Spec.utf16leFile
    rw [text_utf16le_aux _ hlt (by omega), foldU_utf16]
    exact fromWide_std _ hn
  · unfold Spec.utf16beFile
    rw [text_utf16be_aux _ hlt (by omega), foldU_utf16]
    exact fromWide_std _ hn

/-- the full statement of the property for UTF-16 files: every NUL-free scalar-value sequence behind a
    UTF-16 byte-order mark comes back as its UTF-8 encoding -/
def text_utf16_full : Prop :=
  ∀ cs : List Char, Std.NoNul cs → (Spec.utf16leFile cs).length < 2147483648 →
    text (Spec.utf16leFile cs) = some (Std.utf8 cs) ∧ text (Spec.utf16beFile cs) = some (Std.utf8 cs)

/-- **text_utf16_partial**: the full statement holds for every text *without an adjacent CR LF* -/
theorem text_utf16_partial (cs : List Char) (h0 : Std.NoNul cs) (hcr : ¬ Spec.HasCRLF cs)
    (hlen : (Spec.utf16leFile cs).length < 2147483648) :
    text (Spec.utf16leFile cs) = some (Std.utf8 cs) ∧ text (Spec.utf16beFile cs) = some (Std.utf8 cs) := by
  have := text_utf16_fold cs h0 hlen
  rwa [foldCRLF_id cs hcr] at this

-- the hypotheses of `text_utf16_partial` are satisfiable: "é😀\r" (CR not followed by LF) as UTF-16LE
example : text [0xFF, 0xFE, 0xE9, 0x00, 0x3D, 0xD8, 0x00, 0xDE, 0x0D, 0x00] = some [0xC3, 0xA9, 0xF0, 0x9F, 0x98, 0x80, 0x0D] := by decide

/-- **text_utf16_crlf_counterexample**: the two-character text CR LF in UTF-16LE (FF FE 0D 00 0A 00) comes
    back as LF alone — `TextFile::text()` folds CR LF while decoding UTF-16 (known finding utf16-crlf-fold) -/
theorem text_utf16_crlf_counterexample : ¬ text_utf16_full := by
  intro h
  have hn : Std.NoNul [Char.ofNat 13, Char.ofNat 10] := by
    intro c hc
    simp only [List.mem_cons, List.not_mem_nil, or_false] at hc
    rcases hc with rfl | rfl <;> decide
  have h1 := (h [Char.ofNat 13, Char.ofNat 10] hn (by decide)).1
  have h2 : text (Spec.utf16leFile [Char.ofNat 13, Char.ofNat 10]) = some [10] := by decide
  rw [h2] at h1
  revert h1
  decide

/-- **text_total**: `text()` never reads outside its buffers, whatever the bytes of the file (odd lengths,
    lone surrogates, NUL units, truncated marks) -/
theorem text_total (c : Bytes) : (∃ t, text c = some t) ∧ ∀ n, ∃ t, textN n c = some t := by
  have hw := wideToString_some
  have hn : ∀ n, ∃ t, textN n c = some t := by
    intro n
    unfold textN
    repeat' split
    all_goals first | exact hw _ | exact ⟨_, rfl⟩
  exact ⟨hn _, hn⟩

/-! ## the store: histories of writers on one path -/

namespace Spec

/-- one writer on the path: the three one-statement forms, or an explicitly opened object
    (`File` / `TextFile`, any mode) through which some byte strings are written (`write`, `<<`) before it is closed -/
inductive Tx where
  | put (bs : Bytes)
  | tput (bs : Bytes)
  | tappend (bs : Bytes)
  | session (isText : Bool) (mode : OpenMode) (chunks : List Bytes)

/-- `bs` written over the beginning of `c` -/
def overwrite0 (c bs : Bytes) : Bytes := bs ++ c.drop bs.length

/-- the reference store: a file is a byte string (`none`: no file); truncating writers replace it, appenders
    extend it (creating it when missing), an update writer needs the file and overwrites from offset 0,
    nothing can be written through a reader -/
def store (f : Option Bytes) : Tx → Option Bytes
  | .put bs => some bs
  | .tput bs => some bs
  | .tappend bs => some (f.getD [] ++ bs)
  | .session _ .write chunks => some chunks.flatten
  | .session _ .append chunks => some (f.getD [] ++ chunks.flatten)
  | .session _ .rw chunks => f.map (overwrite0 · chunks.flatten)
  | .session _ .read _ => f

end Spec

/-- the model: what the library calls of one writer do to the disk -/
def runTx (d : Disk) (p : Nat) : Spec.Tx → Disk
  | .put bs => (put d p bs).2
  | .tput bs => (tput d p .write bs).2
  | .tappend bs => (tput d p .append bs).2
  | .session t m chunks =>
    match openH d p t m with
    | (none, d') => d'
    | (some h, d') => (writeAll d' h chunks).1

/-- one writer: the model's disk at the path is what the reference store says; other paths are untouched -/
theorem runTx_store (d : Disk) (p : Nat) (tx : Spec.Tx) :
    (runTx d p tx) p = Spec.store (d p) tx ∧ ∀ q, q ≠ p → (runTx d p tx) q = d q := by
  have wr : ∀ (t : Bool) (chunks : List Bytes),
      (writeAll (d.set p (some [])) { path := p, isText := t, mode := .write, sm := smWrite, all := [], rs := ⟨[], false⟩, pos := 0 } chunks).1 p
        = some chunks.flatten ∧
      ∀ q, q ≠ p → (writeAll (d.set p (some [])) { path := p, isText := t, mode := .write, sm := smWrite, all := [], rs := ⟨[], false⟩, pos := 0 } chunks).1 q = d q := by
    intro t chunks
    have := writeAll_seq chunks (d.set p (some [])) { path := p, isText := t, mode := .write, sm := smWrite, all := [], rs := ⟨[], false⟩, pos := 0 }
      [] [] rfl rfl (by simp [set_same]) rfl
    simp only [List.nil_append, List.drop_nil, List.append_nil] at this
    exact ⟨this.1, fun q hq => by rw [this.2 q hq, set_other _ _ _ _ hq]⟩
  have ap : ∀ (t : Bool) (chunks : List Bytes),
      (match openH d p t .append with | (none, d') => d' | (some h, d') => (writeAll d' h chunks).1) p
        = some ((d p).getD [] ++ chunks.flatten) ∧
      ∀ q, q ≠ p → (match openH d p t .append with | (none, d') => d' | (some h, d') => (writeAll d' h chunks).1) q = d q := by
    intro t chunks
    obtain ⟨h, d', ho, hpath, hsm, hd', hoth⟩ := openH_append d p t
    simp only [ho]
    have := writeAll_append chunks d' h _ (by rw [hsm]; rfl) (by rw [hsm]; rfl) (by rw [hpath]; exact hd')
    rw [hpath] at this
    exact ⟨this.1, fun q hq => by rw [this.2 q hq, hoth q hq]⟩
  cases tx with
  | put bs =>
    have := wr false [bs]
    simp only [runTx, put, openH_write, writeAll, List.flatten_cons, List.flatten_nil, List.append_nil] at *
    exact this
  | tput bs =>
    have := wr true [bs]
    simp only [runTx, tput, openH_write, writeAll, List.flatten_cons, List.flatten_nil, List.append_nil] at *
    exact this
  | tappend bs =>
    have := ap true [bs]
    simp only [runTx, tput, Spec.store] at *
    revert this
    cases openH d p true .append with
    | mk oh d' =>
      cases oh with
      | none => simp
      | some h => simp [writeAll]
  | session t m chunks =>
    cases m with
    | write =>
      simp only [runTx, openH_write, Spec.store]
      exact wr t chunks
    | append =>
      simp only [runTx, Spec.store]
      exact ap t chunks
    | read =>
      simp only [runTx, Spec.store]
      cases hp : d p with
      | none => rw [openH_read_missing d p t hp]; simp [hp]
      | some c =>
        rw [openH_read d p t c hp]
        simp only
        rw [writeAll_reader _ _ _ rfl]
        simp [hp]
    | rw =>
      simp only [runTx, Spec.store]
      cases hp : d p with
      | none => rw [openH_rw_missing d p t hp]; simp [hp]
      | some c =>
        obtain ⟨h, ho, hpath, hsm, hpos⟩ := openH_rw d p t c hp
        rw [ho]
        have := writeAll_seq chunks d h c [] (by rw [hsm]; rfl) (by rw [hsm]; rfl) (by rw [hpath]; simpa using hp) (by simpa using hpos)
        rw [hpath] at this
        simp only [List.nil_append] at this
        simp only [Option.map_some, Spec.overwrite0]
        exact this

/-- **store_refines**: after any sequence of writers on one path (one-statement `put` / `write` / `append`,
    objects opened in any mode, written through any number of times, closed and reopened), the file holds
    exactly what the reference store predicts, and no other path changed -/
theorem store_refines (hist : List Spec.Tx) (d : Disk) (p : Nat) :
    (hist.foldl (fun d tx => runTx d p tx) d) p = hist.foldl Spec.store (d p) ∧
    ∀ q, q ≠ p → (hist.foldl (fun d tx => runTx d p tx) d) q = d q := by
  induction hist generalizing d with
  | nil => simp
  | cons tx t ih =>
    simp only [List.foldl_cons]
    have h1 := runTx_store d p tx
    have h2 := ih (runTx d p tx)
    rw [h1.1] at h2
    exact ⟨h2.1, fun q hq => by rw [h2.2 q hq, h1.2 q hq]⟩

/-! ## reading back -/

/-- **read_back**: `content()`, `size()`, `firstBytes(n)`, `lines()` and `text()` of an existing file are
    functions of its byte string alone: all of it (files below 2 GiB: `content()` casts `size()` to `int`), its
    length, its first `n` bytes -/
theorem read_back (d : Disk) (p : Nat) (c : Bytes) (h : d p = some c) :
    (c.length < 2147483648 → content d p = c) ∧ size d p = c.length ∧ (∀ n, firstBytes d p n = c.take n) ∧
    (Spec.NulFree c → linesOf d p = Spec.lines c) ∧ textOf d p = text c := by
  have hf : ∀ n, firstBytes d p n = c.take n := by
    intro n
    simp [firstBytes, openH_read d p false c h, hread, smRead, fread]
  refine ⟨?_, ?_, hf, lines_of_file d p c h, ?_⟩
  · intro _   -- `content()` passes `(int)size()`: the model drops the cast, exact below 2 GiB only
    simp [content, h, hf]
  · simp [size, h]
  · simp [textOf, openH_read d p true c h]

/-- a path without a file: empty content, size −1, no lines, empty text -/
theorem read_missing (d : Disk) (p : Nat) (h : d p = none) :
    content d p = [] ∧ size d p = -1 ∧ (∀ n, firstBytes d p n = []) ∧ linesOf d p = [] ∧ textOf d p = some [] := by
  refine ⟨by simp [content, h], by simp [size, h], fun n => by simp [firstBytes, openH_read_missing d p false h],
    by simp [linesOf, openH_read_missing d p true h], by simp [textOf, openH_read_missing d p true h]⟩

/-- successive `read(p, k)` calls on one open object -/
def readAll (h : Handle) : List Nat → List Bytes
  | [] => []
  | k :: t => (hread h k).1 :: readAll (hread h k).2 t

/-- **read_seq**: successive reads return consecutive pieces of the file: together the first `Σk` bytes -/
theorem read_seq (ks : List Nat) (h : Handle) (hr : h.sm.canRead = true) :
    (readAll h ks).flatten = h.rs.rest.take ks.sum := by
  induction ks generalizing h with
  | nil => simp [readAll]
  | cons k t ih =>
    simp only [readAll, List.flatten_cons, List.sum_cons]
    rw [ih _ (by simp [hread, hr])]
    simp [hread, hr, fread, List.take_add]

/-- **written_is_read** (the headline): whatever is written with `File(path).put`, `TextFile(path).put/write`
    or through a freshly opened writer is what `content()` returns afterwards, and `size()` is its length —
    for every byte string below 2 GiB (`content()` casts the size to `int`), the empty one included -/
theorem written_is_read (d : Disk) (p : Nat) (bs : Bytes) (t : Bool) (chunks : List Bytes)
    (hb : bs.length < 2147483648) (hc : chunks.flatten.length < 2147483648) :
    content (runTx d p (.put bs)) p = bs ∧ size (runTx d p (.put bs)) p = bs.length ∧
    content (runTx d p (.tput bs)) p = bs ∧ size (runTx d p (.tput bs)) p = bs.length ∧
    content (runTx d p (.session t .write chunks)) p = chunks.flatten ∧
    size (runTx d p (.session t .write chunks)) p = chunks.flatten.length := by
  have a := (runTx_store d p (.put bs)).1
  have b := (runTx_store d p (.tput bs)).1
  have c := (runTx_store d p (.session t .write chunks)).1
  simp only [Spec.store] at a b c
  exact ⟨(read_back _ p _ a).1 hb, (read_back _ p _ a).2.1, (read_back _ p _ b).1 hb, (read_back _ p _ b).2.1,
    (read_back _ p _ c).1 hc, (read_back _ p _ c).2.1⟩

/-- **write_lines_read_lines**: text lines (NUL-free, without LF) written in one `TextFile(path).write` with CR LF
    between them come back from `TextFile(path).lines()` exactly, for any number and length of lines -/
theorem write_lines_read_lines (d : Disk) (p : Nat) (ls : List Bytes) (hne : ls ≠ [])
    (h : ∀ l ∈ ls, ∀ b ∈ l, b ≠ 10 ∧ b ≠ 0) :
    linesOf (runTx d p (.tput (Spec.join [13, 10] ls))) p = ls := by
  have hst := (runTx_store d p (.tput (Spec.join [13, 10] ls))).1
  simp only [Spec.store] at hst
  have hz : Spec.NulFree (Spec.join [13, 10] ls) := by
    clear hst hne
    induction ls with
    | nil => intro b hb; simp [Spec.join] at hb
    | cons l t ih =>
      cases t with
      | nil => intro b hb; simp only [Spec.join] at hb; exact (h l (by simp) b hb).2
      | cons m r =>
        intro b hb
        rw [Spec.join] at hb
        rcases List.mem_append.mp hb with hb | hb
        · rcases List.mem_append.mp hb with hb | hb
          · exact (h l (by simp) b hb).2
          · have : b = 13 ∨ b = 10 := by simpa using hb
            rcases this with rfl | rfl <;> decide
        · exact ih (fun x hx => h x (List.mem_cons_of_mem _ hx)) b hb
  rw [lines_of_file _ p _ hst hz]
  exact lines_join_crlf ls hne (fun l hl b hb => (h l hl b hb).1)

/-! ## Directory::copy and Directory::move -/

/-- **copy_preserves**: copying an existing file to another path leaves exactly its bytes there (whatever was
    there before), keeps the source, and reports success -/
theorem copy_preserves (d : Disk) (src dst : Nat) (c : Bytes) (h : d src = some c) (hne : src ≠ dst) :
    copy d src dst = (true, d.set dst (some c)) := by
  have hs : (d.set dst (some [])) src = some c := by rw [set_other _ _ _ _ hne]; exact h
  simp only [copy, openH_read d src false c h, hne, if_false, openH_write, hs, Option.getD_some]
  rw [copyLoop_id]
  simp only [fwrite, smWrite, if_true, Bool.false_eq_true, if_false, set_same, Option.getD_some, overwrite,
    List.take_nil, List.drop_nil, List.nil_append, List.append_nil, Prod.mk.injEq, true_and]
  funext q
  by_cases hq : q = dst <;> simp [Disk.set, hq]

/-- a copy onto itself is refused and leaves the file alone (repaired: it used to truncate the file);
    a missing source is reported and nothing changes -/
theorem copy_refusals (d : Disk) (p q : Nat) :
    (∀ c, d p = some c → copy d p p = (false, d)) ∧ (d p = none → copy d p q = (false, d)) := by
  refine ⟨fun c h => ?_, fun h => ?_⟩
  · simp [copy, openH_read d p false c h]
  · simp [copy, openH_read_missing d p false h]

/-- **move_preserves**: moving an existing file — by `rename`, or across devices by copy + remove — leaves
    exactly its bytes at the destination, nothing at the source, and reports success -/
theorem move_preserves (d : Disk) (src dst : Nat) (c : Bytes) (xdev : Bool) (h : d src = some c) (hne : src ≠ dst) :
    move d src dst xdev = (true, (d.set dst (some c)).set src none) := by
  cases xdev with
  | false => simp [move, h, hne]
  | true =>
    have hs : (d.set dst (some c)) src = some c := by rw [set_other _ _ _ _ hne]; exact h
    simp [move, h, copy_preserves d src dst c h hne, remove, hs]

/-- moving a file onto itself on one device changes nothing; a missing source is reported and nothing changes -/
theorem move_refusals (d : Disk) (p q : Nat) (xdev : Bool) :
    (∀ c, d p = some c → move d p p false = (true, d)) ∧ (d p = none → move d p q xdev = (false, d)) := by
  refine ⟨fun c h => by simp [move, h], fun h => by simp [move, h]⟩

/-! ## persistent objects: the lazily opened handle and the cached stat information

One `File` / `TextFile` object used for a whole history: opened, written through, asked `size()` / `exists()` /
`isFile()` / `isDirectory()` / `lastModified()` while open (each fills the cache with whatever `stat` sees at
that moment), closed, then read back *through the same object*. -/

/-- `close()` forgets the handle and the cache and nothing else: whatever was asked before leaves no trace -/
theorem obj_close_erases (o : Obj) :
    o.close = { path := o.path, isText := o.isText, file := none, info := .empty } := rfl

/-! **Scope of the theorems about objects that are open for writing** (`obj_reads` open branch, `obj_write_query_close` "while
it is still open", `obj_copy_move_preserve`, `obj_open_closes`): the model has no stdio buffer (it writes through), so
these statements are about the code only under the assumption, listed in `ASSUMPTIONS`, that `fflush`/`fclose` deliver all
bytes given to `fwrite` and that every observation path of an open object calls one of them first.  That each path does
so is shape-checked by `translate()` and compared on real files by K (`xputread`, `xobjcopy`, `xreopen`, `hcopy`, the
h-histories); the theorems themselves would hold verbatim for the code before the repairs ae75f36 (flush half),
b3be5cd and a48095a, so they are no evidence for those repairs. -/

/-- **obj_reads**: in whatever state an object is — not open, or open in any mode at any position, with anything
    cached — its whole-file readers answer from the path's current bytes: `content()` all of them, `firstBytes(n)`
    the first `n`, `text()` and `lines()` the text and the lines of a fresh `TextFile`; `size()` is their number for
    an open object and for an object with nothing cached.
    (What is left out: `size()` of an object that is not open and cached a size earlier — known finding
    stale-size-closed-object — and `read()` of an open object, which continues from its position.) -/
theorem obj_reads (d : Disk) (o : Obj) (c : Bytes) (h : d o.path = some c) :
    (c.length < 2147483648 → (o.content d).1 = c) ∧ (∀ n, (o.firstBytes d n).1 = c.take n) ∧
    (c.length < 2147483648 → (o.text d).1 = text c) ∧
    ((o.file.isSome ∨ o.info = .empty) → (o.size d).1 = c.length) ∧
    (Spec.NulFree c → (o.lines d).1 = Spec.lines c) := by
  obtain ⟨p, t, f, info⟩ := o
  simp only at h
  have rb := read_back d p c h
  cases f with
  | some hd =>
    refine ⟨fun hl => ?_, fun n => ?_, fun _ => ?_, fun _ => ?_, fun hz => by simpa [Obj.lines] using rb.2.2.2.1 hz⟩
    · simpa [Obj.content] using rb.1 hl
    · simpa [Obj.firstBytes] using rb.2.2.1 n
    · simpa [Obj.text] using rb.2.2.2.2
    · simp [Obj.size, statFetch, h, Cache.val]
  | none =>
    have hsz : Obj.size d { path := p, isText := t, file := none, info := .empty }
        = ((c.length : Int), { path := p, isText := t, file := none, info := .size c.length }) := by
      simp [Obj.size, Obj.ensureInfo, statFetch, h, Cache.val]
    have hfb : ∀ (info : Cache) (n : Nat),
        (Obj.firstBytes d { path := p, isText := t, file := none, info := info } n).1 = c.take n := by
      intro info n
      simp [Obj.firstBytes, openH_read d p false c h, hread, smRead, fread]
    refine ⟨fun _ => ?_, fun n => hfb info n, fun hlen => ?_, fun hc => ?_, fun hz => ?_⟩
    · simp only [Obj.content, hsz, Int.toNat_natCast]
      rw [hfb]; exact List.take_length
    · have hand : sizeAnd (c.length : Int) = c.length &&& sizeMask := by
        unfold sizeAnd
        have : ((c.length : Int) % 18446744073709551616).toNat = c.length := by omega
        rw [this]
      simp only [Obj.text, hsz]
      simp [openH_read d p true c h, hand, text]
    · rcases hc with hc | hc
      · simp at hc
      · simp only at hc
        subst hc
        rw [hsz]
    · have := lines_spec readLineChunk (by decide) c hz
      unfold lines at this
      simp [Obj.lines, openH_read d p true c h, this]

/-- **obj_after_close**: after `close()`, every object — whatever it cached, wherever its handle stood — answers
    from the path's current bytes: `size()` is their number, `content()` all of them, `firstBytes(n)` the first
    `n`, `lines()` and `text()` those of a fresh `TextFile` -/
theorem obj_after_close (d : Disk) (o : Obj) (c : Bytes) (h : d o.path = some c) :
    (o.close.size d).1 = c.length ∧ (c.length < 2147483648 → (o.close.content d).1 = c) ∧
    (∀ n, (o.close.firstBytes d n).1 = c.take n) ∧
    (Spec.NulFree c → (o.close.lines d).1 = Spec.lines c) ∧
    (c.length < 2147483648 → (o.close.text d).1 = text c) := by
  have r := obj_reads d o.close c h
  exact ⟨r.2.2.2.1 (Or.inr rfl), r.1, r.2.1, r.2.2.2.2, r.2.2.1⟩

/-- **obj_readers_keep_state**: the whole-file readers leave the object's handle as it was — an object that was not
    open is not open afterwards (so it can still open itself for writing: repair 630b40d), an open one keeps its
    handle, mode and position -/
theorem obj_readers_keep_state (d : Disk) (o : Obj) (n : Nat) :
    (o.content d).2.file = o.file ∧ (o.firstBytes d n).2.file = o.file ∧ (o.text d).2.file = o.file ∧
    (o.lines d).2.file = o.file := by
  obtain ⟨p, t, f, info⟩ := o
  cases f with
  | some hd => simp [Obj.content, Obj.firstBytes, Obj.text, Obj.lines]
  | none =>
    refine ⟨?_, ?_, ?_, ?_⟩
    · simp only [Obj.content, Obj.firstBytes, Obj.size, Obj.ensureInfo]
      split <;> simp [Obj.close]
    · simp only [Obj.firstBytes]; split <;> simp [Obj.close]
    · simp only [Obj.text, Obj.size, Obj.ensureInfo]; split <;> simp [Obj.close]
    · simp only [Obj.lines]; split <;> simp [Obj.close]

/-- **obj_read_then_append**: `text()` and `lines()` of a `TextFile` object that was never opened, then `append(s)` on
    the same object: the append succeeds and the file holds the old bytes followed by `s` -/
theorem obj_read_then_append (d : Disk) (p : Nat) (c bs : Bytes) (h : d p = some c) :
    let o1 := ((Obj.new p true).text d).2
    let o2 := (o1.lines d).2
    (o2.twrite d .append bs).1 = true ∧ (o2.twrite d .append bs).2.1 p = some (c ++ bs) := by
  intro o1 o2
  have k1 := (obj_readers_keep_state d (Obj.new p true) 0).2.2.1
  have k2 := (obj_readers_keep_state d o1 0).2.2.2
  have hf : o2.file = none := by rw [show o2.file = o1.file from k2, show o1.file = _ from k1]; rfl
  have hp : o2.path = p ∧ o2.isText = true := by
    simp only [o2, o1, Obj.lines, Obj.text, Obj.new, Obj.size, Obj.ensureInfo, statFetch, h, openH_read d p true c h, Obj.close]
    simp
  obtain ⟨hd, d', hop, hpath, hsm, hd', -⟩ := openH_append d p true
  have hw := (writeAll_append [bs] d' hd _ (by rw [hsm]; rfl) (by rw [hsm]; rfl) (by rw [hpath]; exact hd')).1
  simp only [writeAll, List.flatten_cons, List.flatten_nil, List.append_nil, hpath, h, Option.getD_some] at hw
  obtain ⟨op, ot, ofl, oi⟩ := o2
  simp only at hf hp
  obtain ⟨rfl, rfl⟩ := hp
  subst hf
  have hfw : (fwrite d' hd bs).1 = bs.length := by simp [fwrite, hsm, smAppend]
  simp only [Obj.twrite, Obj.lazyOpen, hop, hfw]
  exact ⟨by simp, hw⟩

/-- `open()` on an object that is already open closes it first: the same as `close()` followed by `open()` — the old
    handle is not leaked, so nothing written through it can stay behind (repair a48095a) -/
theorem obj_open_closes (d : Disk) (o : Obj) (m : OpenMode) (h : o.file.isSome = true) :
    o.open d m = o.close.open d m := by
  simp [Obj.open, h, Obj.close]

/-- the operations of a history on one open object: writes and stat-backed queries -/
inductive QOp where
  | write (bs : Bytes)
  | qsize | qexists | qisFile | qtouch

/-- the model: `File::write` / `TextFile::write` for a write, the cache-filling members for the queries -/
def runQ (s : Disk × Obj) : QOp → Disk × Obj
  | .write bs =>
    if s.2.isText then let r := s.2.twrite s.1 .write bs; (r.2.1, r.2.2)
    else let r := s.2.write s.1 bs; (r.2.1, r.2.2)
  | .qsize => (s.1, (s.2.size s.1).2)
  | .qexists => (s.1, (s.2.exists s.1).2)
  | .qisFile => (s.1, (s.2.isFile s.1).2)
  | .qtouch => (s.1, s.2.touch s.1)

def writesOf : List QOp → List Bytes
  | [] => []
  | .write bs :: t => bs :: writesOf t
  | _ :: t => writesOf t

/-- **obj_history**: on an open object, queries interleaved with the writes change neither the disk nor the
    handle: the bytes go where the writes alone would have put them -/
theorem obj_history (ops : List QOp) (d : Disk) (o : Obj) (hd : Handle) (h : o.file = some hd) :
    (ops.foldl runQ (d, o)).1 = (writeAll d hd (writesOf ops)).1 ∧
    (ops.foldl runQ (d, o)).2.file = some (writeAll d hd (writesOf ops)).2 ∧
    (ops.foldl runQ (d, o)).2.path = o.path ∧ (ops.foldl runQ (d, o)).2.isText = o.isText := by
  induction ops generalizing d o hd with
  | nil => simp [writesOf, writeAll, h]
  | cons op t ih =>
    simp only [List.foldl_cons]
    cases op with
    | write bs =>
      have e : runQ (d, o) (.write bs) = ((fwrite d hd bs).2.1, { o with file := some (fwrite d hd bs).2.2 }) := by
        simp only [runQ]
        split <;> simp [Obj.twrite, Obj.write, Obj.lazyOpen, h]
      rw [e]
      have := ih (fwrite d hd bs).2.1 { o with file := some (fwrite d hd bs).2.2 } (fwrite d hd bs).2.2 rfl
      simpa [writesOf, writeAll] using this
    | qsize =>
      have hs : (o.size d).2 = { o with info := statFetch d o.path } := by simp [Obj.size, h]
      have := ih d (o.size d).2 hd (by rw [hs]; exact h)
      simpa [runQ, writesOf, hs] using this
    | qexists =>
      have := ih d (o.exists d).2 hd (by simp [Obj.exists, h])
      simpa [runQ, writesOf, Obj.exists] using this
    | qisFile =>
      have := ih d (o.isFile d).2 hd (by simp [Obj.isFile, Obj.ensureInfo]; split <;> simp [h])
      have hp : (o.isFile d).2.path = o.path ∧ (o.isFile d).2.isText = o.isText := by
        simp [Obj.isFile, Obj.ensureInfo]; split <;> simp
      simpa [runQ, writesOf, hp.1, hp.2] using this
    | qtouch =>
      have := ih d (o.touch d) hd (by simp [Obj.touch, Obj.ensureInfo]; split <;> simp [h])
      have hp : (o.touch d).path = o.path ∧ (o.touch d).isText = o.isText := by
        simp [Obj.touch, Obj.ensureInfo]; split <;> simp
      simpa [runQ, writesOf, hp.1, hp.2] using this

/-- the state after `open(m)` and any writes and queries: the path holds the old bytes (append only) followed by
    everything written, and the object is still open on that path -/
theorem obj_write_state (d : Disk) (p : Nat) (t : Bool) (m : OpenMode) (hm : m = .write ∨ m = .append)
    (ops : List QOp) :
    let o1 := (Obj.new p t).open d m
    let r := ops.foldl runQ (o1.2.1, o1.2.2)
    r.1 p = some ((if m = .append then (d p).getD [] else []) ++ (writesOf ops).flatten) ∧ r.2.path = p ∧
    r.2.file.isSome = true := by
  intro o1 r
  rcases hm with rfl | rfl
  · have ho : o1 = (true, d.set p (some []),
        { path := p, isText := t, file := some { path := p, isText := t, mode := .write, sm := smWrite, all := [], rs := ⟨[], false⟩, pos := 0 }, info := .empty }) := by
      simp [o1, Obj.open, Obj.new, openH_write]
    have hh := obj_history ops o1.2.1 o1.2.2 _ (by rw [ho])
    have hst := (runTx_store d p (.session t .write (writesOf ops))).1
    simp only [runTx, openH_write, Spec.store] at hst
    refine ⟨?_, ?_, ?_⟩
    · have : r.1 = _ := hh.1
      rw [this, ho]
      simpa using hst
    · have : r.2.path = _ := hh.2.2.1
      simp [this, ho]
    · have : r.2.file = _ := hh.2.1
      rw [this]; rfl
  · obtain ⟨h, d', hop, hpath, hsm, hd', -⟩ := openH_append d p t
    have ho : o1 = (true, d', { path := p, isText := t, file := some h, info := .empty }) := by
      simp [o1, Obj.open, Obj.new, hop]
    have hh := obj_history ops o1.2.1 o1.2.2 h (by rw [ho])
    have hw := (writeAll_append (writesOf ops) d' h _ (by rw [hsm]; rfl) (by rw [hsm]; rfl) (by rw [hpath]; exact hd')).1
    rw [hpath] at hw
    refine ⟨?_, ?_, ?_⟩
    · have : r.1 = _ := hh.1
      rw [this, ho]
      simpa using hw
    · have : r.2.path = _ := hh.2.2.1
      simp [this, ho]
    · have : r.2.file = _ := hh.2.1
      rw [this]; rfl

/-- **obj_write_query_close** (the clause a cached `stat` could break): one object opened for WRITE or APPEND, any
    sequence of writes and stat-backed queries; then — **while it is still open** and again after `close()` —
    `size()` of the same object is the number of bytes the file now holds (what was there before for APPEND,
    nothing for WRITE, then everything written) and `content()` is exactly those bytes: neither a query made
    while the file was open nor the object being open for writing spoils the answer -/
theorem obj_write_query_close (d : Disk) (p : Nat) (t : Bool) (m : OpenMode) (hm : m = .write ∨ m = .append)
    (ops : List QOp) :
    let o1 := (Obj.new p t).open d m
    let r := ops.foldl runQ (o1.2.1, o1.2.2)
    let c := (if m = .append then (d p).getD [] else []) ++ (writesOf ops).flatten
    ((r.2.size r.1).1 = c.length ∧ (c.length < 2147483648 → (r.2.content r.1).1 = c)) ∧
    ((r.2.close.size r.1).1 = c.length ∧ (c.length < 2147483648 → (r.2.close.content r.1).1 = c)) := by
  intro o1 r c
  have key := obj_write_state d p t m hm ops
  have r1 := obj_reads r.1 r.2 c (by rw [key.2.1]; exact key.1)
  have r2 := obj_after_close r.1 r.2 c (by rw [key.2.1]; exact key.1)
  exact ⟨⟨r1.2.2.2.1 (Or.inl key.2.2), r1.1⟩, ⟨r2.1, r2.2.1⟩⟩

/-- `TextFile::write/put/operator<<` (`m = WRITE`) and `append` (`m = APPEND`) on an object that was never opened open
    it in that mode and write: exactly `open(m)` followed by a write -/
theorem twrite_lazy (d : Disk) (p : Nat) (m : OpenMode) (hm : m = .write ∨ m = .append) (bs : Bytes) :
    ((Obj.new p true).twrite d m bs).2 =
      runQ (((Obj.new p true).open d m).2.1, ((Obj.new p true).open d m).2.2) (.write bs) := by
  rcases hm with rfl | rfl
  · simp [Obj.twrite, Obj.lazyOpen, Obj.new, Obj.open, openH_write, runQ]
  · obtain ⟨h, d', hop, -, -, -, -⟩ := openH_append d p true
    simp [Obj.twrite, Obj.lazyOpen, Obj.new, Obj.open, hop, runQ]

/-- `File::put` on an object that was never opened: exactly `open(WRITE)` followed by a write -/
theorem put_lazy (d : Disk) (p : Nat) (bs : Bytes) :
    ((Obj.new p false).put d bs).2 =
      runQ (((Obj.new p false).open d .write).2.1, ((Obj.new p false).open d .write).2.2) (.write bs) := by
  simp [Obj.put, Obj.lazyOpen, Obj.new, Obj.open, openH_write, runQ, Obj.write]

/-- **obj_lazy_write_query_close**: the lazily opening writers — `TextFile::write/put/<<` (replace) and
    `TextFile::append` (extend) on an object that is not open, `File::put` likewise — followed by any writes and
    queries and `close()`: the same object then reports the old bytes (append only), then everything written -/
theorem obj_lazy_write_query_close (d : Disk) (p : Nat) (m : OpenMode) (hm : m = .write ∨ m = .append)
    (bs : Bytes) (ops : List QOp) :
    (let r := ops.foldl runQ ((Obj.new p true).twrite d m bs).2
     let c := (if m = .append then (d p).getD [] else []) ++ bs ++ (writesOf ops).flatten
     (r.2.close.size r.1).1 = c.length ∧ (c.length < 2147483648 → (r.2.close.content r.1).1 = c)) ∧
    (let r := ops.foldl runQ ((Obj.new p false).put d bs).2
     let c := bs ++ (writesOf ops).flatten
     (r.2.close.size r.1).1 = c.length ∧ (c.length < 2147483648 → (r.2.close.content r.1).1 = c)) := by
  constructor
  · have := (obj_write_query_close d p true m hm (.write bs :: ops)).2
    simp only [List.foldl_cons, writesOf, List.flatten_cons, ← List.append_assoc] at this
    rw [twrite_lazy d p m hm bs]
    exact this
  · have := (obj_write_query_close d p false .write (Or.inl rfl) (.write bs :: ops)).2
    simp only [List.foldl_cons, writesOf, List.flatten_cons, if_neg (by decide : ¬ OpenMode.write = OpenMode.append),
      List.nil_append] at this
    rw [put_lazy d p bs]
    exact this

/-! ## end to end: written, then read -/

/-! ## an open that fails still records the path -/

/-- **failed_open_keeps_path**: after `open(p, m)` (also the constructors `File(p, m)` / `TextFile(p, m)`) the object refers
    to `p` whether or not the open succeeded, whatever it referred to before, open or not -/
theorem failed_open_keeps_path (d : Disk) (o : Obj) (p : Nat) (m : OpenMode) : (o.openAt d p m).2.2.path = p := by
  simp only [Obj.openAt]

/-- **failed_open_is_fresh**: `open(p, READ)` on a path that does not exist, through a closed object of any other path
    `q` that has cached nothing (e.g. the constructor `TextFile(p, READ)`): it fails, the disk is unchanged, and the
    object is exactly a path-only object of `p` — so everything proved about `Obj.new p t` (`twrite_lazy`, `put_lazy`,
    `obj_lazy_write_query_close`: the lazy writers create `p` and write there) holds for it. -/
theorem failed_open_is_fresh (d : Disk) (p q : Nat) (t : Bool) (hp : d p = none) :
    (Obj.new q t).openAt d p .read = (false, d, Obj.new p t) := by
  have h := openH_read_missing d p t hp
  simp [Obj.openAt, Obj.new, h]

/-- **failed_open_then_write**: `TextFile tf(p, READ)` on a missing path (or an object of `q` on which `open(p, READ)`
    failed), then `write(bs)`/`put`/`<<`: the write succeeds, `p` holds exactly `bs`, every other path — `q` included —
    is untouched. -/
theorem failed_open_then_write (d : Disk) (p q : Nat) (hp : d p = none) (bs : Bytes) :
    let o := ((Obj.new q true).openAt d p .read).2.2
    (o.twrite d .write bs).1 = true ∧ (o.twrite d .write bs).2.1 p = some bs ∧
    ∀ r, r ≠ p → (o.twrite d .write bs).2.1 r = d r := by
  simp only [failed_open_is_fresh d p q true hp]
  have ho := openH_write d p true
  simp only [Obj.twrite, Obj.lazyOpen, Obj.new, ho]
  simp [fwrite, smWrite, overwrite, Disk.set]
  intro r hr; simp [hr]

-- not vacuous: the empty disk, p = 0, q = 1
example : ((Obj.new 1 true).openAt (fun _ => none) 0 .read).2.2 = Obj.new 0 true := by
  rw [failed_open_is_fresh _ 0 1 true rfl]

/-- **history_read_back**: after *any* history of writers on a path, if the reference store says the file holds `c`,
    then a fresh `File(path)` returns `c` from `content()` (below 2 GiB), `c.length` from `size()`, `c.take n` from
    `firstBytes(n)`, and `TextFile(path)` the lines and the text of `c` -/
theorem history_read_back (hist : List Spec.Tx) (d : Disk) (p : Nat) (c : Bytes)
    (h : hist.foldl Spec.store (d p) = some c) :
    let d' := hist.foldl (fun d tx => runTx d p tx) d
    (c.length < 2147483648 → content d' p = c) ∧ size d' p = c.length ∧ (∀ n, firstBytes d' p n = c.take n) ∧
    (Spec.NulFree c → linesOf d' p = Spec.lines c) ∧ textOf d' p = text c := by
  intro d'
  exact read_back d' p c (by show (hist.foldl (fun d tx => runTx d p tx) d) p = some c; rw [(store_refines hist d p).1]; exact h)

/-- **write_then_text**: a string without a byte-order-mark prefix written with `TextFile(path).put/write` is what
    `TextFile(path).text()` returns afterwards -/
theorem write_then_text (d : Disk) (p : Nat) (bs : Bytes) (hlen : bs.length < 2147483648)
    (h1 : ¬ [0xFF, 0xFE] <+: bs) (h2 : ¬ [0xFE, 0xFF] <+: bs) (h3 : ¬ [0xEF, 0xBB, 0xBF] <+: bs) :
    textOf (runTx d p (.tput bs)) p = some bs := by
  have hst := (runTx_store d p (.tput bs)).1
  simp only [Spec.store] at hst
  rw [(read_back _ p bs hst).2.2.2.2]
  exact text_utf8 bs hlen h1 h2 h3

/-- **read_seq_open**: successive `read(p, k)` calls on a `File` just opened for reading return consecutive pieces of
    the file's bytes: together the first `Σk` -/
theorem read_seq_open (d : Disk) (p : Nat) (t : Bool) (c : Bytes) (hc : d p = some c) (ks : List Nat) :
    ∃ h, openH d p t .read = (some h, d) ∧ (readAll h ks).flatten = c.take ks.sum := by
  refine ⟨_, openH_read d p t c hc, ?_⟩
  exact read_seq ks _ rfl

/-! ## what the other stream operators hand to `fwrite` -/

/-- `<< (const char*)`: a NUL-free C string is written whole; otherwise the bytes before the first NUL -/
theorem cstr_spec (a b : Bytes) (ha : ∀ x ∈ a, x ≠ 0) : cstr a = a ∧ cstr (a ++ 0 :: b) = a := by
  constructor
  · exact takeWhile_nulfree a ha
  · unfold cstr
    induction a with
    | nil => simp
    | cons x t ih =>
      have hx : x ≠ 0 := ha x (by simp)
      simp only [List.cons_append, List.takeWhile_cons, bne_iff_ne, ne_eq, hx, not_false_eq_true, if_true]
      rw [ih (fun y hy => ha y (by simp [hy]))]

/-- value of a string of decimal digits -/
def decVal (l : Bytes) : Nat := l.foldl (fun a b => a * 10 + (b.toNat - 48)) 0

/-- `TextFile << int`: the digits written are decimal digits whose value is the number; a minus sign first for
    negative numbers -/
theorem decimal_spec (n : Nat) (i : Int) :
    (decVal (decDigits n) = n ∧ ∀ b ∈ decDigits n, 48 ≤ b.toNat ∧ b.toNat ≤ 57) ∧
    (0 ≤ i → decimal i = decDigits i.toNat) ∧ (i < 0 → decimal i = 45 :: decDigits i.natAbs) := by
  refine ⟨?_, fun h => by simp [decimal, Int.not_lt.mpr h], fun h => by simp [decimal, h]⟩
  induction n using Nat.strongRecOn with
  | _ n ih =>
    rw [decDigits]
    split
    · rename_i h
      simp only [decVal, List.foldl_cons, List.foldl_nil, List.mem_singleton, forall_eq, UInt8.toNat_ofNat']
      omega
    · rename_i h
      have ih' := ih (n / 10) (by omega)
      have hd : (UInt8.ofNat (48 + n % 10)).toNat = 48 + n % 10 := by rw [UInt8.toNat_ofNat']; omega
      refine ⟨?_, ?_⟩
      · have e := ih'.1
        unfold decVal at e ⊢
        rw [List.foldl_append, e]
        simp only [List.foldl_cons, List.foldl_nil, hd]
        omega
      · intro b hb
        rcases List.mem_append.mp hb with hb | hb
        · exact ih'.2 b hb
        · simp only [List.mem_singleton] at hb
          rw [hb, hd]; omega

/-- `File << int` (native byte order): four bytes, least significant first, of the value mod 2³² -/
theorem le32_spec (n : Nat) :
    (le32 n).length = 4 ∧
    (le32 n).foldr (fun b a => b.toNat + 256 * a) 0 = n % 4294967296 := by
  constructor
  · rfl
  · simp only [le32, List.foldr_cons, List.foldr_nil, UInt8.toNat_ofNat', Nat.shiftRight_eq_div_pow]
    omega

/-! ### reading back with the stream operators: `file >> x` for a `String` written as `file << int(s.length()) << s` -/

/-- the int32 that `>>` reads from the four bytes `<< int` wrote is the value written -/
theorem shr_int_inverse (n : Nat) (hn : n < 2147483648) (rest : Bytes) (e : Bool) :
    readI32 { rest := le32 n ++ rest, eof := e } = ((n : Int), { rest := rest, eof := e }) := by
  have h4 : fread 4 { rest := le32 n ++ rest, eof := e } = (le32 n, { rest := rest, eof := e }) := by
    simp [fread, le32]
    intro h; have := of_decide_eq_true h; omega
  have hv : leVal (le32 n) = n % 4294967296 := (le32_spec n).2
  simp only [readI32, h4, hv, toI32]
  have : n % 4294967296 % 4294967296 = n := by omega
  simp only [this, hn, if_true]

/-- **shr_string_inverse** (`File::operator>>(String&)` is the inverse of `file << int(s.length()) << s`): for every byte
    string `s` shorter than 2³¹, whatever follows it in the file and whatever the size `blk ≥ 1` of the read buffer (1024 in
    the code): the string read is `s`, the stream stands right behind it, the end-of-file indicator is untouched -/
theorem shr_string_inverse (blk : Nat) (hb : 1 ≤ blk) (s tail : Bytes) (e : Bool) (hs : s.length < 2147483648) :
    readStr blk { rest := le32 s.length ++ s ++ tail, eof := e } = (s, { rest := tail, eof := e }) := by
  unfold readStr
  rw [List.append_assoc, shr_int_inverse s.length hs]
  simp only [Int.toNat_natCast]
  rw [AslProofs.FileShr.shrLoop_take blk hb s.length (s ++ tail) e [] (by simp)]
  simp

example : readStr 2 { rest := le32 3 ++ [97, 0, 98] ++ [99], eof := false } = ([97, 0, 98], { rest := [99], eof := false }) :=
  shr_string_inverse 2 (by decide) [97, 0, 98] [99] false (by decide)

/-- **shr_string_beyond**: a length that announces more bytes than the file still has gives the bytes that are there
    (the loop stops at the first empty read), end-of-file set -/
theorem shr_string_beyond (blk : Nat) (hb : 1 ≤ blk) (n : Nat) (hn : n < 2147483648) (body : Bytes) (e : Bool)
    (hl : body.length < n) :
    readStr blk { rest := le32 n ++ body, eof := e } = (body, { rest := [], eof := true }) := by
  unfold readStr
  rw [shr_int_inverse n hn]
  simp only [Int.toNat_natCast]
  rw [AslProofs.FileShr.shrLoop_short blk hb n body e [] hl]
  simp

example : readStr 1024 { rest := le32 5 ++ [97, 98], eof := false } = ([97, 98], { rest := [], eof := true }) :=
  shr_string_beyond 1024 (by decide) 5 (by decide) [97, 98] false (by decide)

/-- **shr_string_negative**: a negative length (bit 31 set) reads nothing: the empty string, the stream behind the four bytes -/
theorem shr_string_negative (blk : Nat) (n : Nat) (hn : 2147483648 ≤ n) (hn2 : n < 4294967296) (body : Bytes) (e : Bool) :
    readStr blk { rest := le32 n ++ body, eof := e } = ([], { rest := body, eof := e }) := by
  have h4 : fread 4 { rest := le32 n ++ body, eof := e } = (le32 n, { rest := body, eof := e }) := by
    simp [fread, le32]
    intro h; have := of_decide_eq_true h; omega
  have hv : leVal (le32 n) = n % 4294967296 := (le32_spec n).2
  have hm : n % 4294967296 % 4294967296 = n := by omega
  have hneg : toI32 (n % 4294967296) = (n : Int) - 4294967296 := by
    unfold toI32
    rw [hm]
    have : ¬ n < 2147483648 := by omega
    simp only [this, if_false]
  unfold readStr
  simp only [readI32, h4, hv, hneg]
  have : ((n : Int) - 4294967296).toNat = 0 := by omega
  rw [this, shrLoop]
  simp

example : readStr 1024 { rest := le32 4294967295 ++ [97], eof := false } = ([], { rest := [97], eof := false }) :=
  shr_string_negative 1024 4294967295 (by decide) (by decide) [97] false

/-- **shr_string_of_file**: through an open object that can read (`File f(p, READ)`; `hreadStr` is what the driver runs for
    the K op `xshr`): `f >> x` returns the string that was written behind its length, the object stands behind it -/
theorem shr_string_of_file (blk : Nat) (hb : 1 ≤ blk) (h : Handle) (hr : h.sm.canRead = true) (s tail : Bytes) (e : Bool)
    (hs : s.length < 2147483648) (hrs : h.rs = { rest := le32 s.length ++ s ++ tail, eof := e }) :
    hreadStr blk h = (s, { h with rs := { rest := tail, eof := e } }) := by
  simp only [hreadStr, hr, if_true, hrs, shr_string_inverse blk hb s tail e hs]

/-- **obj_copy_move_preserve**: `File::copy` / `File::move` of an object that was opened for WRITE or APPEND and written
    through (whatever is still in its buffer: `copy` flushes, `move` closes first — repair b3be5cd): the destination holds
    exactly what the object's file holds, the move also removes the source and leaves the object closed -/
theorem obj_copy_move_preserve (d : Disk) (p q : Nat) (t : Bool) (m : OpenMode) (hm : m = .write ∨ m = .append)
    (ops : List QOp) (hq : p ≠ q) (xdev : Bool) :
    let o1 := (Obj.new p t).open d m
    let r := ops.foldl runQ (o1.2.1, o1.2.2)
    let c := (if m = .append then (d p).getD [] else []) ++ (writesOf ops).flatten
    r.2.copy r.1 q = (true, r.1.set q (some c)) ∧
    (r.2.move r.1 q xdev).1 = (true, (r.1.set q (some c)).set p none) ∧ (r.2.move r.1 q xdev).2.file = none := by
  intro o1 r c
  have key := obj_write_state d p t m hm ops
  have hpath : r.2.path = p := key.2.1
  have hopen : r.2.file.isSome = true := key.2.2
  refine ⟨?_, ?_, ?_⟩
  · simp only [Obj.copy, hpath]
    exact copy_preserves r.1 p q c key.1 hq
  · simp only [Obj.move, hpath]
    exact move_preserves r.1 p q c xdev key.1 hq
  · simp [Obj.move, hopen, Obj.close]

/-- **full_device** — *a modelled outcome, not a derived one*: `copyToFull` / `moveToFull` state what `Directory::copy` /
    `Directory::move` answer for a destination that accepts no byte (`/dev/full`) after the repair 78aac25 — a non-empty file
    is reported as not copied and a move leaves the source where it is; only the empty file can be "moved" there.  The outcome
    `(c.isEmpty, d)` is written into the definitions: the model's `fwrite` has no failure mode and `copy` has no failing
    flush, so this theorem only records consequences of those two definitions (the move never removes a non-empty source).
    That the code behaves like them is checked by K only (`xfull`, `copy/move/hcopy/hmove … full`) and by the shape check
    of `translate()`. -/
theorem full_device (d : Disk) (p : Nat) (c : Bytes) (h : d p = some c) :
    (c ≠ [] → copyToFull d p = (false, d) ∧ moveToFull d p = (false, d)) ∧
    (c = [] → copyToFull d p = (true, d) ∧ moveToFull d p = (true, d.set p none)) := by
  constructor
  · intro hc
    have : c.isEmpty = false := by cases c <;> simp_all
    simp [copyToFull, moveToFull, h, this]
  · intro hc
    subst hc
    simp [copyToFull, moveToFull, h, remove]

end C17
