import AslProofs.IniHistory
import AslProofs.IniNames
import AslProofs.CsvQ
import AslProofs.CsvTable
import AslProofs.CsvTyped
import AslProofs.CsvTableSep
import AslProps.C18Spec
/-!
# C18 — IniFile and TabularDataFile persist exactly what was set or written: property theorems

Models: `AslModel/Ini.lean` (constructor, `operator[]`, `set`, `has`, `values`, `write`, destructor of
`IniFile`) and `AslModel/Csv.lean` (`TabularDataFile` row writer, header detection, row parser,
`myisnumber`, `myatof`), run by `Driver/C18.lean` against `harness/c18.cpp` on every check.
Specifications: `AslProps/C18Spec.lean` (INI documents and their meaning, number texts), written from the
formats, not from the code.  Every theorem below quantifies over all documents / texts / histories / rows.
-/
namespace C18
open AslModel
open AslModel.Ini hiding Bytes
open AslModel.Csv (Cell Dec parseRow writeRow isNumber atofDec)
open C18Spec hiding Bytes
open AslProofs.Ini (Op run setsOf path AnyOp anyRun SameLine Pointwise isEntryLine NameOk oneShot nameWitnesses sessions)
open AslProofs.Csv (cellText CellOK numValue decValue ColOK StrOK NumText CellWF expected CellWFsemi normalise ItemWF)

abbrev Bytes := List UInt8

/-! ## IniFile: reading -/

/-- **ini_read_spec.**  For every document of the grammar (sections, `key = value` lines with optional blanks
    around key, `=` and value, `#`/`;` comments, blank lines), with LF or CRLF line ends, **with or without a
    final line end**, a fresh `IniFile` holds exactly the document's key/value relation: `has` tells whether
    the entry exists and `operator[]` returns its value (the last one if repeated). -/
theorem ini_read_spec (doc : List Item) (hd : ∀ it ∈ doc, it.WF) (eol : Bytes) (he : LineEnd eol)
    (finalNewline shouldwrite : Bool) (s k : Bytes) (hs : 47 ∉ s) :
    Ini.has (Ini.read (renderDoc doc eol finalNewline) shouldwrite) (path s k) = (relGet doc s k).isSome ∧
    Ini.get (Ini.read (renderDoc doc eol finalNewline) shouldwrite) (path s k) = (relGet doc s k).getD [] := by
  unfold path
  rw [AslProofs.Ini.has_slash _ s k hs, AslProofs.Ini.get_slash _ s k hs, AslProofs.Ini.lookupD,
    AslProofs.Ini.read_render_lookup doc hd eol he finalNewline shouldwrite s k]
  exact ⟨rfl, rfl⟩

/-- the hypotheses are satisfiable: `"; c" / "[net]" / "  r = 3"` is a document, and `net/r` is `3` in it -/
example : ∃ doc : List Item, (∀ it ∈ doc, it.WF) ∧ relGet doc [110, 101, 116] [114] = some [51] := by
  refine ⟨[.comment [] 59 [32, 99], .header [110, 101, 116], .kv [32, 32] [114] [32] [32] [51] []], ?_, by decide⟩
  intro it hit
  simp only [List.mem_cons, List.not_mem_nil, or_false] at hit
  rcases hit with e | e | e <;> subst e
  · exact ⟨by intro c hc; simp at hc, Or.inr rfl, by decide, by decide, by decide⟩
  · exact ⟨by decide, by decide, by decide⟩
  · refine ⟨?_, ⟨by decide, by decide, by decide, by decide, ?_, ?_, by decide⟩, ?_, ?_, ⟨by decide, ?_, ?_, by decide⟩, ?_⟩
    · intro c hc; simp at hc; exact Or.inl hc
    · intro c hc; simp at hc; subst hc; decide
    · intro c hc; simp at hc; subst hc; unfold White; decide
    · intro c hc; simp at hc; exact Or.inl hc
    · intro c hc; simp at hc; exact Or.inl hc
    · intro c hc; simp at hc; subst hc; unfold White; decide
    · intro c hc; simp at hc; subst hc; unfold White; decide
    · intro c hc; simp at hc

/-- identifier-like keys (`[A-Za-z0-9_]+`) satisfy the key condition of the theorems -/
theorem ini_identifier_keys (k : Bytes) (h : Ident k) : KeyOK k := AslProofs.Ini.ident_keyOK k h

/-! ## IniFile: set, write, read again -/

/-- **ini_persist.**  Start from the text of any document of the grammar (LF or CRLF, with or without final
    line end), open it, apply any sequence (of any length) of `set("section/key", value)` calls — existing
    keys, new keys in existing sections, new sections, the section-less group `-` — interleaved with any
    number of explicit `write()` calls, and let the destructor write.  No `write` reads outside `_lines`,
    and a fresh `IniFile` on the resulting file returns, for **every** section and key, the value of the last
    `set` of that entry, or else the value the document had (absent entries read as empty).  Moreover the
    resulting file is again the text of a document of the grammar with exactly that meaning, so the statement
    composes over any number of sessions (reopen, set, close, …). -/
theorem ini_persist (doc : List Item) (hd : ∀ it ∈ doc, it.WF) (eol : Bytes) (he : LineEnd eol) (finalNewline : Bool)
    (ops : List Op) (hops : ∀ o ∈ setsOf ops, o.WF) :
    ∃ obj file, run (Ini.read (renderDoc doc eol finalNewline) true, renderDoc doc eol finalNewline) (ops ++ [Op.write])
        = some (obj, file) ∧
      (∀ shouldwrite s k, 47 ∉ s →
        Ini.get (Ini.read file shouldwrite) (path s k) = (afterSets doc (setsOf ops) s k).getD []) ∧
      ∃ (doc' : List Item) (eol' : Bytes) (fnl' : Bool), (∀ it ∈ doc', it.WF) ∧ LineEnd eol' ∧
        file = renderDoc doc' eol' fnl' ∧ ∀ s k, (relGet doc' s k).getD [] = (afterSets doc (setsOf ops) s k).getD [] := by
  have hwf := AslProofs.Ini.read_wf doc hd eol he finalNewline
  have hne := AslProofs.Ini.read_hasNE (renderDoc doc eol finalNewline) true
  have hJ : (Ini.read (renderDoc doc eol finalNewline) true).modified = false →
      AslProofs.Ini.Agree (Ini.read (renderDoc doc eol finalNewline) true, renderDoc doc eol finalNewline) := by
    intro _ sw s k
    simp only [AslProofs.Ini.lookupD, AslProofs.Ini.read_render_lookup doc hd eol he finalNewline]
  have hdoc0 : AslProofs.Ini.IsDoc (renderDoc doc eol finalNewline) := ⟨doc, eol, finalNewline, hd, he, rfl⟩
  obtain ⟨st1, hr1, hw1, hn1, hJ1, hl1, hd1⟩ := AslProofs.Ini.run_inv ops
    (Ini.read (renderDoc doc eol finalNewline) true, renderDoc doc eol finalNewline) hwf hne hops hJ hdoc0
  obtain ⟨st2, hr2, hag, hl2, hd2⟩ := AslProofs.Ini.run_final_write st1 hw1 hn1 hJ1 hd1
  have hval : ∀ sw s k, AslProofs.Ini.lookupD (Ini.read st2.2 sw).sections s k = (afterSets doc (setsOf ops) s k).getD [] := by
    intro sw s k
    rw [hag sw s k, hl2 s k, hl1 s k, AslProofs.Ini.afterSets_getD]
    simp only [AslProofs.Ini.lookupD, AslProofs.Ini.read_render_lookup doc hd eol he finalNewline true s k]
  refine ⟨st2.1, st2.2, by rw [AslProofs.Ini.run_append, hr1]; exact hr2, ?_, ?_⟩
  · intro sw s k hs
    unfold path
    rw [AslProofs.Ini.get_slash _ s k hs, hval sw s k]
  · obtain ⟨doc', eol', fnl', hdw, hel, hfile⟩ := hd2
    refine ⟨doc', eol', fnl', hdw, hel, hfile, ?_⟩
    intro s k
    have := hval true s k
    rw [hfile, AslProofs.Ini.lookupD, AslProofs.Ini.read_render_lookup doc' hdw eol' hel fnl' true s k] at this
    exact this

/-- a well-formed `set`: `set("net/retries", "5")` -/
example : (⟨[110, 101, 116], [114], [53]⟩ : SetOp).WF := by
  refine ⟨⟨by decide, by decide, by decide⟩, by decide, ⟨by decide, by decide, by decide, by decide, ?_, ?_, by decide⟩,
    ⟨by decide, ?_, ?_, by decide⟩⟩
  · intro c hc; simp at hc; subst hc; decide
  · intro c hc; simp at hc; subst hc; unfold White; decide
  · intro c hc; simp at hc; subst hc; unfold White; decide
  · intro c hc; simp at hc; subst hc; unfold White; decide

/-- **ini_write_in_bounds.**  For *any* NUL-free file content whatsoever (or a missing file), opened either way,
    and any sequence of `set`, `operator[] =` and `write` calls with any NUL-free byte strings, `write` never
    reads outside `_lines` (the model's `write` returns `none` exactly when the backwards scans of the second
    loop would leave the array; before 3bcb78f the first scan did, on two blank lines followed by `[s]` when a
    key of the section-less group had to be placed).  (NUL-freeness is what ties the model to the C-string
    based code; the proof does not need it.) -/
theorem ini_write_in_bounds (file : Option Bytes) (_hfile : ∀ t, file = some t → 0 ∉ t) (shouldwrite : Bool)
    (ops : List AnyOp) (_hops : ∀ o ∈ ops, o.NulFree) :
    (anyRun (Ini.openFile file shouldwrite) ops).isSome = true :=
  AslProofs.Ini.anyRun_isSome _ (AslProofs.Ini.openFile_hasNE file shouldwrite) ops

/-- **ini_unreadable_path** (definitional: the first conjunct is `rfl`, the second an instance of
    `ini_write_in_bounds`; that a directory really yields one failed read after which `end()` is true, and that the
    constructor returns at all, is established only by the correspondence op `inidir` with its watchdog).
    An `IniFile` on a path that opens but cannot be read (a directory) is *modelled as*, with the repaired
    `TextFile::end()` (end of file *or read error*, 4bfeeba; before, the constructor's `while(!file.end())` never
    ended), the `IniFile` of an empty file, and no history of NUL-free `set` / `operator[]=` / `write` calls on it reads outside
    `_lines`. -/
theorem ini_unreadable_path (shouldwrite : Bool) (ops : List AnyOp) (_hops : ∀ o ∈ ops, o.NulFree) :
    Ini.readUnreadable shouldwrite = Ini.read [] shouldwrite ∧
    (anyRun (Ini.readUnreadable shouldwrite) ops).isSome = true :=
  ⟨rfl, AslProofs.Ini.anyRun_isSome _ (AslProofs.Ini.read_hasNE [] shouldwrite) ops⟩

/-- the comment line `; c` is not an entry line, `a=1` is -/
example : isEntryLine [59, 32, 99] = false ∧ isEntryLine [97, 61, 49] = true := by decide

/-- **ini_order.**  For *any* object state, the text `write` produces consists of all the lines of `_lines` in
    their original order — comment lines, section headers, blank lines and any other non-entry line byte for
    byte, entry lines respelled `indent key=value` with the same key — with new lines only *inserted*
    (`kept` is a sub-sequence of the output that corresponds line by line to the original lines). -/
theorem ini_order (ini : Ini) (r : Ini.WriteResult) (hw : Ini.write ini = some r) (t : Bytes) (ht : r.text = some t) :
    ∃ kept out : List Bytes, t = Ini.joinLines out ∧ kept.Sublist out ∧
      Pointwise (SameLine ini.indent) ini.lines kept :=
  AslProofs.Ini.write_order ini r hw t ht

/-- **ini_order_file.**  End to end, from the file before to the file after: take the text of any document of
    the grammar (LF or CRLF, with or without final line end), any session of `set`s and `write`s as in
    `ini_persist`, and the file it leaves.  Either nothing was written (the file is the old text), or the new
    file is `out` joined by LF where (a) some sub-sequence `kept` of `out` corresponds line by line to the old
    file's lines `L` — the document's lines up to empty lines at the very end, which the constructor strips —
    entry lines respelled `indent key=value` with the same key, every other line byte for byte; in particular
    (b) all comment and section-header lines (every non-empty non-entry line) of the old file occur in the new
    file byte for byte and in the same relative order; new lines are only inserted. -/
theorem ini_order_file (doc : List Item) (hd : ∀ it ∈ doc, it.WF) (eol : Bytes) (he : LineEnd eol) (finalNewline : Bool)
    (ops : List Op) (obj : Ini) (file : Bytes)
    (hr : run (Ini.read (renderDoc doc eol finalNewline) true, renderDoc doc eol finalNewline) (ops ++ [Op.write])
        = some (obj, file)) :
    file = renderDoc doc eol finalNewline ∨
    ∃ kept out : List Bytes, file = Ini.joinLines out ∧ kept.Sublist out ∧
      (∃ L b1 b2 : List Bytes, (∀ l ∈ b1, l = []) ∧ (∀ l ∈ b2, l = []) ∧ L ++ b1 = doc.map Item.render ++ b2 ∧
        Pointwise (SameLine (Ini.read (renderDoc doc eol finalNewline) true).indent) L kept) ∧
      ((doc.map Item.render).filter fun l => !isEntryLine l && !l.isEmpty).Sublist out := by
  obtain ⟨_, _, hf⟩ := AslProofs.Ini.run_order (ops ++ [Op.write])
    (Ini.read (renderDoc doc eol finalNewline) true, renderDoc doc eol finalNewline) (obj, file)
    (renderDoc doc eol finalNewline) (Or.inl rfl) hr
  rcases hf with e | ⟨kept, out, e1, e2, e3⟩
  · exact Or.inl e
  · obtain ⟨b1, b2, hb1, hb2, hL⟩ := AslProofs.Ini.read_lines_doc doc hd eol he finalNewline
    refine Or.inr ⟨kept, out, e1, e2, ⟨_, b1, b2, hb1, hb2, hL, e3⟩, ?_⟩
    have hp : (fun (l : Bytes) => !isEntryLine l && !l.isEmpty) [] = false := by simp
    rw [← AslProofs.Ini.filter_append_blanks _ hp _ b2 hb2, ← hL, AslProofs.Ini.filter_append_blanks _ hp _ b1 hb1]
    exact (AslProofs.Ini.pointwise_filter _ _ _ e3).trans e2

/-! ## IniFile: which names round-trip, sessions on one path -/

/-- **ini_name_roundtrip.**  `NameOk` (a Bool, `AslProofs/IniNames.lean`) is sufficient: for every document of the
    grammar, every section and key with `NameOk s k` — sections may be empty, hold blanks (outer ones too), `[`, `=`,
    `#`, `;`; keys may hold blanks, `#`, `;`, `[`, `]` after their first byte — and every value without outer blanks,
    `set("s/k", v)`, destructor, fresh `IniFile`: `operator[]("s/k")` is `v`, `has` is true, and every other entry
    reads as the document had it. -/
theorem ini_name_roundtrip (doc : List Item) (hd : ∀ it ∈ doc, it.WF) (eol : Bytes) (he : LineEnd eol) (finalNewline : Bool)
    (s k v : Bytes) (hn : NameOk s k = true) (hv : ValOK v) :
    ∃ obj file, run (Ini.read (renderDoc doc eol finalNewline) true, renderDoc doc eol finalNewline)
        [Op.set ⟨s, k, v⟩, Op.write] = some (obj, file) ∧
      (∀ sw, Ini.get (Ini.read file sw) (path s k) = v) ∧
      (∀ sw s' k', 47 ∉ s' → ¬ (s' = s ∧ k' = k) →
        Ini.get (Ini.read file sw) (path s' k') = (relGet doc s' k').getD []) := by
  obtain ⟨hs, hs47, hk⟩ := (AslProofs.Ini.nameOk_iff s k).mp hn
  obtain ⟨obj, file, hr, hg, _⟩ := ini_persist doc hd eol he finalNewline [Op.set ⟨s, k, v⟩]
    (by intro o ho; simp [setsOf] at ho; subst ho; exact ⟨hs, hs47, hk, hv⟩)
  refine ⟨obj, file, hr, ?_, ?_⟩
  · intro sw
    rw [hg sw s k hs47]
    simp [setsOf, afterSets]
  · intro sw s' k' h47 hne
    rw [hg sw s' k' h47]
    have : ¬ (s = s' ∧ k = k') := fun h => hne ⟨h.1.symm, h.2.symm⟩
    simp [setsOf, afterSets, this]

/-- the section ` [=#` with the key `a #;[]` is allowed -/
example : NameOk [32, 91, 61, 35] [97, 32, 35, 59, 91, 93] = true ∧ ValOK [49] := by
  refine ⟨by decide, by decide, ?_, ?_, by decide⟩ <;>
    (intro c hc; simp at hc; subst hc; unfold White; decide)

/-- **ini_name_necessary.**  Every clause of `NameOk` is needed: for each of the names of `nameWitnesses` (one per
    clause: empty key; key with `=`, LF, `/`; key starting with a blank, `#`, `;`, `[`, a byte below `0`, a byte
    above 127; key ending in a blank or CR; section with `]`, LF, `/`) `set("s/k", "1")` on an empty file, destructor,
    fresh `IniFile` does **not** return `1` (the same histories run on the real library from
    `corpus/C18/names.ops`; the INI format has no escaping, so these are limits of the format, recorded in
    `outside_findings.txt`). -/
theorem ini_name_necessary :
    ∀ w ∈ nameWitnesses, NameOk w.1 w.2 = false ∧ oneShot w.1 w.2 [49] ≠ some [49] := by decide

/-- **ini_sessions.**  Any number of sessions on one path, each one: open the file the previous one left
    (`shouldwrite`), any sequence of well-formed `set`s and explicit `write()`s, destructor.  After **every prefix**
    of the history of sessions (`ss.take n`, any `n`) no `write` has read out of bounds and a fresh `IniFile` on the
    file returns for every entry the value of the last `set` of that entry in those sessions, else the value of the
    original document; the file is again a document of the grammar.  (`IniFile` has no operation that deletes a key
    or a section — `operator[]`, `set`, `write` are the whole mutating interface — so histories consist of sets and
    writes; a prefix that stops *inside* a session is the case `ops` = that prefix of `ini_persist`.) -/
theorem ini_sessions (ss : List (List Op)) (hss : ∀ ops ∈ ss, ∀ o ∈ setsOf ops, o.WF) (n : Nat)
    (doc : List Item) (hd : ∀ it ∈ doc, it.WF) (eol : Bytes) (he : LineEnd eol) (finalNewline : Bool) :
    ∃ file, sessions (renderDoc doc eol finalNewline) (ss.take n) = some file ∧
      (∀ sw s k, 47 ∉ s →
        Ini.get (Ini.read file sw) (path s k) = (afterSets doc (setsOf (ss.take n).flatten) s k).getD []) ∧
      AslProofs.Ini.IsDoc file := by
  have hss' : ∀ ops ∈ ss.take n, ∀ o ∈ setsOf ops, o.WF := fun ops h => hss ops (List.mem_of_mem_take h)
  generalize ss.take n = ts at hss'
  clear hss
  induction ts generalizing doc eol finalNewline with
  | nil =>
    refine ⟨_, rfl, ?_, ⟨doc, eol, finalNewline, hd, he, rfl⟩⟩
    intro sw s k hs
    unfold path
    rw [AslProofs.Ini.get_slash _ s k hs, AslProofs.Ini.lookupD,
      AslProofs.Ini.read_render_lookup doc hd eol he finalNewline sw s k]
    rfl
  | cons ops t ih =>
    obtain ⟨obj, file, hr, _, doc', eol', fnl', hd', he', hfile, hrel⟩ :=
      ini_persist doc hd eol he finalNewline ops (hss' ops (by simp))
    obtain ⟨file2, hs2, hg2, hdoc2⟩ := ih doc' hd' eol' he' fnl' (fun o ho => hss' o (by simp [ho]))
    refine ⟨file2, ?_, ?_, hdoc2⟩
    · simp only [sessions, hr]
      rw [hfile]; exact hs2
    · intro sw s k hs
      rw [hg2 sw s k hs, AslProofs.Ini.setsOf_flatten_cons]
      exact AslProofs.Ini.afterSets_chain doc doc' _ _ s k (hrel s k)

/-- two sessions: `set("a/x","1")`, `write()`, `set("a/y","2")`; then `set("a/x","3")` — the abstract map ends with
    `a/x = 3`, `a/y = 2` -/
example : afterSets [] (setsOf ([[Op.set ⟨[97], [120], [49]⟩, Op.write, Op.set ⟨[97], [121], [50]⟩],
    [Op.set ⟨[97], [120], [51]⟩]] : List (List Op)).flatten) [97] [120] = some [51] := by decide

/-! ## TabularDataFile -/

/-- **csv_row_roundtrip.**  For every separator other than the quote and every non-empty row of cells — strings of
    any bytes other than NUL, LF and CR (separators, quotes, blanks, empty strings, a row that is one empty
    string; the file is read with C-string primitives line by line, so a cell can hold none of those three) and
    number texts — parsing the written row gives back the cells' texts, cell for cell. -/
theorem csv_row_roundtrip (sep : UInt8) (hsep : sep ≠ 34) (c : Cell) (t : List Cell)
    (hc : CellOK sep c) (ht : ∀ x ∈ t, CellOK sep x) :
    parseRow sep (writeRow sep 34 (c :: t)) = cellText c :: t.map cellText :=
  AslProofs.Csv.parseRow_writeRow sep hsep c t hc ht

/-- e.g. the row `he said "hi", (empty), a;b` with separator `,` -/
example : parseRow 44 (writeRow 44 34 [.str [104, 34, 105, 44], .str [], .str [97, 59, 98]])
    = [[104, 34, 105, 44], [], [97, 59, 98]] := by decide

/-- **csv_table_roundtrip.**  For every non-empty list of identifier column names and every table whose rows have
    one cell per column — cells being NUL-free strings without line breaks that do not spell a number (any mix of
    `, ; " '` and blanks, empty strings; the file format cannot tell a string that spells a number from the
    number) and number texts — the file written by `columns(cols)` followed by `<<` of every cell, **or** by `<<`
    of every row as an array `Var` (the model takes an array by value, so this half says nothing about the
    caller's array: that the writer copies it instead of sharing and clearing it — the defect repaired by 23ed28f —
    is checked by the correspondence check only, through the caller's array lengths `lens=`), read by a fresh
    `TabularDataFile`, gives back the column names and, row for row and cell for
    cell, the strings written and, for the numbers, `myatof` of the text written (whose exact value is
    `csv_number_exact_Q`). -/
theorem csv_table_roundtrip (cols : List Bytes) (hne : cols ≠ []) (hcols : ∀ n ∈ cols, ColOK n)
    (rows : List (List Cell)) (hrows : ∀ r ∈ rows, r.length = cols.length ∧ ∀ c ∈ r, CellWF c) :
    Csv.readTable (Csv.writeItemsG 44 46 cols (rows.flatten.map .cell)) = { columns := cols, rows := rows.map (·.map expected) } ∧
    Csv.readTable (Csv.writeItemsG 44 46 cols (rows.map .arr)) = { columns := cols, rows := rows.map (·.map expected) } := by
  have hpos : 0 < cols.length := List.length_pos_iff.mpr hne
  have hrows' : ∀ r ∈ rows, r.length = cols.length ∧ r ≠ [] ∧ ∀ c ∈ r, CellWF c := by
    intro r hr
    obtain ⟨h1, h2⟩ := hrows r hr
    refine ⟨h1, ?_, h2⟩
    intro e; subst e; simp at h1; omega
  rw [AslProofs.Csv.writeItemsG_default, AslProofs.Csv.writeItemsG_default, AslProofs.Csv.writeItems_cells,
    AslProofs.Csv.writeItems_arrays cols rows hrows']
  exact ⟨AslProofs.Csv.table_roundtrip cols hne hcols rows hrows, AslProofs.Csv.table_roundtrip cols hne hcols rows hrows⟩

/-- **csv_items_roundtrip.**  Any sequence of `<<` items whatsoever — single cells and array rows in any mix, arrays
    shorter or longer than the column count included — with well-formed cells writes a file that a fresh
    `TabularDataFile` reads back as exactly the rows the documented rule yields (`normalise`: a cell is appended to
    the pending row, an array *is* the pending row, a row is written when it has exactly as many cells as there are
    columns; a too-long pending row is never written and is replaced by the next array), cell for cell.
    Not covered: the `"\n"` cell that flushes a short row (excluded by `CellWF`, correspondence check only). -/
theorem csv_items_roundtrip (cols : List Bytes) (hne : cols ≠ []) (hcols : ∀ n ∈ cols, ColOK n)
    (items : List Csv.WItem) (hi : ∀ it ∈ items, ItemWF it) :
    Csv.readTable (Csv.writeItemsG 44 46 cols items) =
      { columns := cols, rows := (normalise cols.length items []).map (·.map expected) } := by
  rw [AslProofs.Csv.writeItemsG_default, AslProofs.Csv.writeItems_normalise cols hne items hi]
  exact AslProofs.Csv.table_roundtrip cols hne hcols _ (AslProofs.Csv.normalise_rows cols.length items hi [] (by simp))

/-- a short array followed by a cell is one row of two columns: `[1] , "y"` gives the row `1, y` -/
example : normalise 2 [.arr [.num [49]], .cell (.str [121])] [] = [[.num [49], .str [121]]] := by decide

/-- **csv_semicolon_row.**  After `setSeparator(';')` (decimal point kept, as the writer does unless `setDecimal` is
    called) every non-empty row of cells — NUL-free strings without line breaks that spell a number with neither
    decimal symbol, and number texts — is parsed back cell for cell by the reader's setting for a file whose header
    contains `;` (separator `;`, decimal symbol `,`): numbers written with `.` are numbers again (cb50e4a; before,
    `1.5` came back as the string "1.5"). -/
theorem csv_semicolon_row (c : Cell) (t : List Cell) (hc : CellWFsemi c) (ht : ∀ x ∈ t, CellWFsemi x) :
    (parseRow 59 (Csv.rowTextG 59 46 (c :: t))).map (Csv.inferCell 44) = (c :: t).map expected :=
  AslProofs.Csv.row_read_semi c t hc ht

/-- the row `1.5 ; "x;y"` -/
example : CellWFsemi (.num [49, 46, 53]) ∧ CellWFsemi (.str [120, 59, 121]) := by
  refine ⟨⟨⟨false, [49], some [53], none⟩, ⟨?_, ?_, by decide, ?_⟩, by decide⟩, ⟨by decide, by decide, by decide, by decide, by decide⟩, by decide⟩
  · intro c hc; simp at hc; subst hc; decide
  · intro c hc; simp [Num.fracDigits] at hc; subst hc; decide
  · intro e sgn ed h; simp at h

/-- the column name `x` and the string cell `a,"b` meet the hypotheses -/
example : ColOK [120] ∧ CellWF (.str [97, 44, 34, 98]) := by
  refine ⟨⟨?_, 120, [], rfl, by decide⟩, by decide, by decide, by decide, by decide⟩
  intro c hc; simp at hc; subst hc; decide

/-- **csv_typed_row.**  Columns read with `readAs(types)`.  For every separator other than the quote (`setSeparator`),
    the writer's decimal symbol `wdec` either `.` or the one the reader uses (`setDecimal`), every string of type
    characters and every non-empty row with one cell per type character — in an `s` column **any** string without
    NUL / line break (separators, quotes, outer blanks, empty, and strings that spell numbers, which the untyped
    reader cannot tell from numbers), in an `n` column any number text free of the reader's decimal symbol, in an `i` column any decimal integer text
    `[-]digits` below 2^31 in magnitude (`myatoi`'s `unsigned` accumulator does not wrap on it), anything in a column
    whose character matches no case — parsing the written row and typing it gives back the strings byte
    for byte and `myatof` of the number texts as written (exact value: `csv_number_exact_Q`), the integers exactly (`intValue`, the
    decimal reading of the text); cells of unmatched columns are dropped, as the switch has no default. -/
theorem csv_typed_row (sep : UInt8) (hsep : sep ≠ 34) (wdec rdec : UInt8) (hd : wdec = 46 ∨ wdec = rdec)
    (types : List Csv.ColType) (c : Cell) (t : List Cell)
    (hok : ∀ x ∈ c :: t, CellOK sep (Csv.localize wdec x))
    (hf : AslProofs.Csv.FitsAll rdec types (c :: t)) :
    Csv.typedRow rdec types (parseRow sep (Csv.rowTextG sep wdec (c :: t))) =
      (types.zip (c :: t)).filterMap fun p => AslProofs.Csv.typedSpec p.1 p.2 :=
  AslProofs.Csv.typed_row_roundtrip sep hsep wdec rdec hd types c t hok hf

/-- the row `"007" ; 1,5 ; "x"` read as `s n _` after `setSeparator(';')`, `setDecimal(',')`: the string `007` stays a
    string, `1.5` is written `1,5` and read as the number 1.5, the third cell is dropped -/
example : Csv.typedRow 44 [.str, .num, .skip] (parseRow 59 (Csv.rowTextG 59 44 [.str [48, 48, 55], .num [49, 46, 53], .str [120]]))
    = [.str [48, 48, 55], .num ⟨false, 15, -1⟩] := by decide

/-- `-12` in an `i` column is the integer −12 -/
example : AslProofs.Csv.Fits 46 .int (.num [45, 49, 50]) ∧ AslProofs.Csv.intValue [45, 49, 50] = -12 := by
  refine ⟨⟨true, [49, 50], rfl, by decide, ?_, by decide⟩, by decide⟩
  intro c hc; simp at hc; rcases hc with rfl | rfl <;> decide

example : AslProofs.Csv.FitsAll 44 [.str, .num, .skip] [.str [48, 48, 55], .num [49, 46, 53], .str [120]] ∧
    ∀ x ∈ [Cell.str [48, 48, 55], .num [49, 46, 53], .str [120]], CellOK 59 (Csv.localize 44 x) := by
  refine ⟨⟨trivial, Or.inl (by decide), trivial, trivial⟩, ?_⟩
  intro x hx
  simp only [List.mem_cons, List.not_mem_nil, or_false] at hx
  rcases hx with e | e | e <;> subst e <;> simp [Csv.localize, CellOK]

/-- **csv_typed_hex.**  A column read as `h` (`readAs("…h…")`, `String::hexToInt` = `(unsigned) strtoul(text, NULL, 16)`,
    then `Var(unsigned)`): every hex number text — optional `0x` / `0X`, one or more digits of either case, value below
    2^32 — comes back as its positional value, as an `int` below 2^31 and as the exact double from 2^31 on, whatever
    decimal symbol the reader uses.  Through `Fits` / `typedSpec` the same holds inside `csv_typed_row` and the
    `csv_table_roundtrip_typed` tables (an `h` column holds string cells that are hex texts).  Texts outside `HexText`
    (sign, blanks, junk tails, 32- and 64-bit overflow) are in the model (`Csv.hexU32`) and compared by K only. -/
theorem csv_typed_hex (dec : UInt8) (s : Bytes) (h : AslProofs.Csv.HexText s) :
    Csv.typedCell dec .hex s = some (AslProofs.Csv.hexCell (AslProofs.Csv.hexValue s)) ∧
      AslProofs.Csv.hexValue s < 4294967296 := by
  have e := AslProofs.Csv.hexU32_hexText s h
  exact ⟨by simp only [Csv.typedCell, AslProofs.Csv.hexCell, e.1], e.2⟩

/-- `0xFf` is a hex text and denotes 255; `80000000` denotes 2^31, returned as a double -/
example : AslProofs.Csv.HexText [48, 120, 70, 102] ∧ AslProofs.Csv.hexValue [48, 120, 70, 102] = 255 ∧
    Csv.typedCell 46 .hex [56, 48, 48, 48, 48, 48, 48, 48] = some (.num ⟨false, 2147483648, 0⟩) := by
  refine ⟨⟨[48, 120], [70, 102], Or.inr (Or.inl rfl), rfl, by simp, ?_, by decide⟩, by decide, by decide⟩
  intro c hc; simp at hc; rcases hc with rfl | rfl <;> decide

/-- a row with an `h` column inside `csv_typed_row`: `x ; 1F` read as `s h` -/
example : Csv.typedRow 46 [.str, .hex] (parseRow 59 (Csv.rowTextG 59 46 [.str [120], .str [49, 70]]))
    = [.str [120], .int 31] := by decide

/-- **csv_typed_row_prefix.**  `readAs(types)` with a type string of ANY length against the row: the cells that have a
    type character come back as in `csv_typed_row` (`s`, `n`, `i`, `h`, dropped), the cells beyond the type string are
    inferred as by the untyped reader and come back as written (strings that do not spell numbers, number texts), for
    the writer / reader decimal settings of the untyped theorems (`.`/`.`, `.` read in a `;` file, `,`/`,`); type
    characters beyond the last cell are ignored.  `types = []` is the untyped reader, `types.length = row.length` is
    `csv_typed_row`. -/
theorem csv_typed_row_prefix (sep : UInt8) (hsep : sep ≠ 34) (wdec rdec : UInt8) (hd : wdec = 46 ∨ wdec = rdec)
    (types : List Csv.ColType) (c : Cell) (t : List Cell)
    (hok : ∀ x ∈ c :: t, CellOK sep (Csv.localize wdec x))
    (hf : AslProofs.Csv.FitsPrefix rdec types (c :: t))
    (hw : ∀ x ∈ (c :: t).drop types.length, AslProofs.Csv.InferWF wdec rdec x) :
    Csv.typedRow rdec types (parseRow sep (Csv.rowTextG sep wdec (c :: t))) =
      ((types.zip (c :: t)).filterMap fun p => AslProofs.Csv.typedSpec p.1 p.2) ++
        ((c :: t).drop types.length).map AslProofs.Csv.expected :=
  AslProofs.Csv.typed_row_roundtrip_prefix sep hsep wdec rdec hd types c t hok hf hw

/-- the row `007,1F,x` read with `readAs("sh")`: two typed cells, the third inferred -/
example : Csv.typedRow 46 [.str, .hex] (parseRow 44 (Csv.rowTextG 44 46 [.str [48, 48, 55], .str [49, 70], .str [120]]))
    = [.str [48, 48, 55], .int 31, .str [120]] := by decide

example : AslProofs.Csv.FitsPrefix 46 [.str, .hex] [.str [48, 48, 55], .str [49, 70], .str [120]] ∧
    (∀ x ∈ ([Cell.str [48, 48, 55], .str [49, 70], .str [120]]).drop 2, AslProofs.Csv.InferWF 46 46 x) := by
  refine ⟨⟨trivial, ⟨[], [49, 70], Or.inl rfl, rfl, by simp, ?_, by decide⟩, trivial⟩, ?_⟩
  · intro c hc; simp at hc; rcases hc with rfl | rfl <;> decide
  · intro x hx
    simp at hx; subst hx
    exact Or.inl ⟨rfl, rfl, by decide, by decide, by decide, by decide, by decide⟩

/-- **csv_header_sniff.**  `readHeader` recognises the separator of every header the writer produces with `,`, `;` or
    tab from identifier column names — two columns at least unless the separator is the default — whatever follows
    the header line: separator as written, decimal symbol `,` for `;` files and `.` otherwise, names as written,
    file positioned after the header line. -/
theorem csv_header_sniff (sep : UInt8) (hs : AslProofs.Csv.SniffSep sep) (cols : List Bytes) (hne : cols ≠ [])
    (h : ∀ n ∈ cols, ColOK n) (h2 : sep = 44 ∨ 2 ≤ cols.length) (rest : Bytes) (lf : Bool) :
    Csv.readHeader (Csv.joinSep sep cols ++ (if lf then 10 :: rest else [])) =
      { sep := sep, dec := AslProofs.Csv.sniffDec sep, columns := cols,
        file := { rest := if lf then rest else [], eof := !lf } } :=
  AslProofs.Csv.readHeader_sep sep hs cols hne h h2 rest lf

/-- a tab-separated header of two columns -/
example : AslProofs.Csv.SniffSep 9 ∧ ColOK [120] ∧ ColOK [121] := by
  refine ⟨Or.inr (Or.inr rfl), ⟨?_, 120, [], rfl, by decide⟩, ⟨?_, 121, [], rfl, by decide⟩⟩ <;>
    (intro c hc; simp at hc; subst hc; decide)

/-- **csv_one_column_needs_default_separator.**  The condition "two columns at least" of `csv_header_sniff` is needed:
    the one-column table `a` / `p,q` written after `setSeparator(';')` has no `;` anywhere, the reader falls back to `,`
    and returns two cells (recorded in `outside_findings.txt`; the generator keeps one-column tables to the default
    separator). -/
theorem csv_one_column_needs_default_separator :
    (Csv.readTable (Csv.writeItemsG 59 46 [[97]] [.cell (.str [112, 44, 113])])).rows = [[.str [112], .str [113]]] := by
  decide

/-- **csv_table_roundtrip_typed.**  Whole tables, every separator the reader can recognise (`,` `;` tab), the writer's
    decimal symbol `.` or the one the reader assumes for that separator (`setDecimal(',')` with `;`), read with
    `readAs(types)`: for identifier column names (two at least unless the separator is `,`) and every table whose
    rows have one cell per column, each cell suiting its column as in `csv_typed_row` (`s`: any string without NUL /
    line break, `n`: number text, `i`: integer text, other characters: dropped) and no row starting with the first
    byte of a byte-order mark (the reader eats a BOM at the start of the first data line), the file written by
    `setSeparator`, `setDecimal`, `columns`, `<<` of every cell and read by a fresh `TabularDataFile` after `readAs`
    gives back the column names and the rows cell for cell. -/
theorem csv_table_roundtrip_typed (sep : UInt8) (hs : AslProofs.Csv.SniffSep sep) (wdec : UInt8)
    (hd : wdec = 46 ∨ wdec = AslProofs.Csv.sniffDec sep) (types : List Csv.ColType)
    (cols : List Bytes) (hne : cols ≠ []) (hcols : ∀ n ∈ cols, ColOK n) (h2 : sep = 44 ∨ 2 ≤ cols.length)
    (rows : List (List Cell))
    (hrows : ∀ r ∈ rows, r.length = cols.length ∧ (∀ x ∈ r, CellOK sep (Csv.localize wdec x)) ∧
      AslProofs.Csv.FitsAll (AslProofs.Csv.sniffDec sep) types r ∧
      (∀ c, r.head? = some c → (cellText (Csv.localize wdec c)).head? ≠ some 0xEF)) :
    Csv.readTableT types (Csv.writeItemsG sep wdec cols (rows.flatten.map .cell)) =
      { columns := cols, rows := rows.map fun r => (types.zip r).filterMap fun p => AslProofs.Csv.typedSpec p.1 p.2 } :=
  AslProofs.Csv.table_roundtrip_typed sep hs wdec hd types cols hne hcols h2 rows hrows

/-- **csv_table_roundtrip_semicolon.**  Whole tables written after `setSeparator(';')` (decimal point kept) and read
    without `readAs`: for two or more identifier column names and every table of cells as in `csv_semicolon_row`, a
    fresh `TabularDataFile` recognises `;`, assumes the decimal comma, and still returns the columns and the rows cell
    for cell, numbers as `myatof` of the text written. -/
theorem csv_table_roundtrip_semicolon (cols : List Bytes) (hcols : ∀ n ∈ cols, ColOK n) (h2 : 2 ≤ cols.length)
    (rows : List (List Cell)) (hrows : ∀ r ∈ rows, r.length = cols.length ∧ ∀ c ∈ r, CellWFsemi c) :
    Csv.readTable (Csv.writeItemsG 59 46 cols (rows.flatten.map .cell)) =
      { columns := cols, rows := rows.map (·.map expected) } := by
  rw [← AslProofs.Csv.readTableT_nil]
  exact AslProofs.Csv.table_roundtrip_semi cols hcols h2 rows hrows

/-- **csv_table_roundtrip_tab.**  The same after `setSeparator('\t')` (the reader then keeps the decimal point): two or
    more identifier column names, cells as in `csv_table_roundtrip`. -/
theorem csv_table_roundtrip_tab (cols : List Bytes) (hcols : ∀ n ∈ cols, ColOK n) (h2 : 2 ≤ cols.length)
    (rows : List (List Cell)) (hrows : ∀ r ∈ rows, r.length = cols.length ∧ ∀ c ∈ r, CellWF c) :
    Csv.readTable (Csv.writeItemsG 9 46 cols (rows.flatten.map .cell)) =
      { columns := cols, rows := rows.map (·.map expected) } := by
  rw [← AslProofs.Csv.readTableT_nil]
  exact AslProofs.Csv.table_roundtrip_tab cols hcols h2 rows hrows

/-- **csv_array_rows_any_separator.**  For every separator and decimal symbol, every non-empty list of column names and
    every table with one cell per column (no cell being the row-flushing `"\n"`), handing each row to `<<` as an
    array `Var` writes byte for byte the file that `<<` of every single cell writes — so the three table theorems for
    `,` `;` tab hold for array rows as well (that the caller's array is copied, not shared: K only, as before). -/
theorem csv_array_rows_any_separator (sep dec : UInt8) (cols : List Bytes) (hne : cols ≠ []) (rows : List (List Cell))
    (hrows : ∀ r ∈ rows, r.length = cols.length ∧ ∀ c ∈ r, c ≠ Cell.str [10]) :
    Csv.writeItemsG sep dec cols (rows.map .arr) = Csv.writeItemsG sep dec cols (rows.flatten.map .cell) := by
  have hpos : 0 < cols.length := List.length_pos_iff.mpr hne
  apply AslProofs.Csv.writeItemsG_arrays
  intro r hr
  obtain ⟨h1, h2⟩ := hrows r hr
  refine ⟨h1, ?_, fun c hc => by simpa using h2 c hc⟩
  intro e; subst e; simp at h1; omega

/-- a table for `csv_table_roundtrip_typed`: columns `a b c`, separator `;`, decimal comma, types `s n _`, one row
    `"007" ; 1.5 ; "x"` — and the two rows of it meet `csv_array_rows_any_separator` -/
example : (∀ r ∈ [[Cell.str [48, 48, 55], .num [49, 46, 53], .str [120]]],
      r.length = [[97], [98], [99]].length ∧ (∀ x ∈ r, CellOK 59 (Csv.localize 44 x)) ∧
      AslProofs.Csv.FitsAll (AslProofs.Csv.sniffDec 59) [.str, .num, .skip] r ∧
      (∀ c, r.head? = some c → (cellText (Csv.localize 44 c)).head? ≠ some 0xEF)) ∧
    (∀ c ∈ [Cell.str [48, 48, 55], .num [49, 46, 53], .str [120]], c ≠ Cell.str [10]) := by
  refine ⟨?_, by decide⟩
  intro r hr
  simp only [List.mem_cons, List.not_mem_nil, or_false] at hr
  subst hr
  refine ⟨rfl, ?_, ⟨trivial, Or.inl (by decide), trivial, trivial⟩, ?_⟩
  · intro x hx
    simp only [List.mem_cons, List.not_mem_nil, or_false] at hx
    rcases hx with e | e | e <;> subst e <;> simp [Csv.localize, CellOK]
  · intro c hc
    simp at hc; subst hc
    simp [Csv.localize, cellText]

/-- **csv_table_roundtrip_decimal_comma.**  Whole tables written after `setSeparator(';')` **and** `setDecimal(',')`
    (numbers go into the file as `1,5`) and read without `readAs`: for two or more identifier column names and every
    table of cells as in `csv_semicolon_row`, a fresh `TabularDataFile` recognises `;`, assumes the decimal comma,
    recognises `1,5` as a number (`myisnumber` with `,`), turns the comma back into a point and returns the columns
    and the rows cell for cell, numbers as `myatof` of the text the writer was given. -/
theorem csv_table_roundtrip_decimal_comma (cols : List Bytes) (hcols : ∀ n ∈ cols, ColOK n) (h2 : 2 ≤ cols.length)
    (rows : List (List Cell)) (hrows : ∀ r ∈ rows, r.length = cols.length ∧ ∀ c ∈ r, CellWFsemi c) :
    Csv.readTable (Csv.writeItemsG 59 44 cols (rows.flatten.map .cell)) =
      { columns := cols, rows := rows.map (·.map expected) } := by
  rw [← AslProofs.Csv.readTableT_nil]
  exact AslProofs.Csv.table_roundtrip_comma cols hcols h2 rows hrows

/-- `x ; 1.5` with the decimal comma is the file line `x;1,5` and comes back as the string and the number 1.5 -/
example : (Csv.readTable (Csv.writeItemsG 59 44 [[97], [98]] [.cell (.str [120]), .cell (.num [49, 46, 53])])).rows
    = [[.str [120], .num ⟨false, 15, -1⟩]] := by decide

/-- **csv_number_exact_Q.**  Every number text `[-]digits[.digits][(e|E)[+|-]digits]` with at most 18 mantissa digits
    and at most 9 exponent digits (in particular every `%.15g` output) is recognised as a number by `myisnumber`;
    on it the code's `long long y1` stays below 2^63 and its `int` exponent within ±2^31, so the model's unbounded
    integers are the machine's (every intermediate value of the digit loops is a prefix value, hence smaller); and
    the rational number `± y1 · 10^exp` that `myatof` holds before its final floating-point multiplication is
    *exactly* the number the text spells.  (Longer mantissas or exponents overflow in the C code and are outside
    this theorem; what `double(y1) * pow(10.0, exp)` then rounds to is floating point and not covered by any theorem.) -/
theorem csv_number_exact_Q (n : Num) (h : n.WF) (hr : n.InRange) :
    isNumber 46 n.text = true ∧ decValue (atofDec n.text) = numValue n ∧
    0 ≤ (atofDec n.text).mant ∧ (atofDec n.text).mant < 2 ^ 63 ∧
    -(2 ^ 31 : Int) < (atofDec n.text).exp ∧ (atofDec n.text).exp < 2 ^ 31 :=
  ⟨AslProofs.Csv.isNumber_text n h, AslProofs.Csv.number_exact n h, AslProofs.Csv.number_in_range n h hr⟩

/-- `-12.5e-3` is a number text within the range -/
example : (⟨true, [49, 50], some [53], some (101, some true, [51])⟩ : Num).InRange := by
  refine ⟨by decide, ?_⟩
  intro e sgn ed h
  simp at h
  obtain ⟨rfl, rfl, rfl⟩ := h
  decide

example : (⟨true, [49, 50], some [53], some (101, some true, [51])⟩ : Num).WF := by
  have d1 : IsDigits [49, 50] := by intro c hc; simp at hc; rcases hc with rfl | rfl <;> decide
  have d2 : IsDigits [53] := by intro c hc; simp at hc; subst hc; decide
  have d3 : IsDigits [51] := by intro c hc; simp at hc; subst hc; decide
  refine ⟨d1, d2, by decide, ?_⟩
  intro e sgn ed h
  simp at h
  obtain ⟨rfl, rfl, rfl⟩ := h
  exact ⟨Or.inl rfl, d3, by decide⟩

end C18
