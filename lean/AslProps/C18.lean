import AslModel.Ini
import AslModel.Csv
/-! # C18 — property theorems (under construction) -/
namespace C18
end C18
