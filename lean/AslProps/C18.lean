import AslProofs.IniPersist
import AslProps.C18Spec
/-!
# C18 — IniFile and TabularDataFile persist exactly what was set or written: property theorems
-/
namespace C18
open AslModel
open AslModel.Ini hiding Bytes
open C18Spec hiding Bytes
open AslProofs.Ini

abbrev Bytes := List UInt8

/-- the name `"section/key"` the API takes -/
def path (s k : Bytes) : Bytes := s ++ [47] ++ k

/-! ## reading -/

/-- **ini_read_spec.**  For every document of the grammar (sections, `key = value` lines with optional blanks,
    `#`/`;` comments, blank lines), with LF or CRLF line ends, with or without a final line end, a fresh
    `IniFile` holds exactly the document's key/value relation: `has` tells whether the entry exists and
    `operator[]` returns its value (the last one if repeated). -/
theorem ini_read_spec (doc : List Item) (hd : ∀ it ∈ doc, it.WF) (eol : Bytes) (he : LineEnd eol)
    (finalNewline shouldwrite : Bool) (s k : Bytes) (hs : 47 ∉ s) :
    Ini.has (Ini.read (renderDoc doc eol finalNewline) shouldwrite) (path s k) = (relGet doc s k).isSome ∧
    Ini.get (Ini.read (renderDoc doc eol finalNewline) shouldwrite) (path s k) = (relGet doc s k).getD [] := by
  unfold path
  rw [has_slash _ s k hs, get_slash _ s k hs, lookupD, read_render_lookup doc hd eol he finalNewline shouldwrite s k]
  exact ⟨rfl, rfl⟩

/-- the hypotheses of `ini_read_spec` are satisfiable: `"; c\r\n[net]\r\n  retries = 3"` (CRLF, no final line end) -/
example : ∃ doc : List Item, (∀ it ∈ doc, it.WF) ∧ doc ≠ [] ∧
    relGet doc [110, 101, 116] [114] = some [51] := by
  refine ⟨[.comment [] 59 [32, 99], .header [110, 101, 116], .kv [32, 32] [114] [32] [32] [51] []], ?_, by simp, by decide⟩
  intro it hit
  simp only [List.mem_cons, List.not_mem_nil, or_false] at hit
  rcases hit with e | e | e <;> subst e
  · exact ⟨by intro c hc; simp at hc, Or.inr rfl, by decide, by decide⟩
  · exact ⟨by decide, by decide⟩
  · refine ⟨?_, ⟨by decide, by decide, by decide, by decide, ?_, ?_⟩, ?_, ?_, ⟨by decide, ?_, ?_⟩, ?_⟩
    · intro c hc; simp at hc; exact Or.inl hc
    · intro c hc; simp at hc; subst hc; decide
    · intro c hc; simp at hc; subst hc; unfold White; decide
    · intro c hc; simp at hc; exact Or.inl hc
    · intro c hc; simp at hc; exact Or.inl hc
    · intro c hc; simp at hc; subst hc; unfold White; decide
    · intro c hc; simp at hc; subst hc; unfold White; decide
    · intro c hc; simp at hc

/-! ## histories: sets and writes -/

/-- an operation of a session: `set("sec/key", value)` or `write()` (the destructor is a `write`) -/
inductive Op where
  | set (o : SetOp)
  | write

/-- object and file content after one operation; `none` = out-of-bounds read in `write` -/
def step (st : Ini × Bytes) : Op → Option (Ini × Bytes)
  | .set o => some (Ini.set st.1 (path o.sec o.key) o.val, st.2)
  | .write => (Ini.write st.1).map fun r => (r.ini, r.text.getD st.2)

def run : Ini × Bytes → List Op → Option (Ini × Bytes)
  | st, [] => some st
  | st, o :: t =>
    match step st o with
    | none => none
    | some st' => run st' t

def setsOf : List Op → List SetOp
  | [] => []
  | .set o :: t => o :: setsOf t
  | .write :: t => setsOf t

/-- last set of `s`/`k`, else `d` -/
def foldD (s k : Bytes) (ops : List SetOp) (d : Bytes) : Bytes :=
  ops.foldl (fun acc o => if o.sec = s ∧ o.key = k then o.val else acc) d

theorem afterSets_getD (doc : List Item) (ops : List SetOp) (s k : Bytes) :
    (afterSets doc ops s k).getD [] = foldD s k ops ((relGet doc s k).getD []) := by
  unfold afterSets foldD
  generalize relGet doc s k = a
  induction ops generalizing a with
  | nil => rfl
  | cons o t ih =>
    simp only [List.foldl_cons]
    rw [ih]
    by_cases h : o.sec = s ∧ o.key = k <;> simp [h]

/-- the file agrees with the object -/
def Agree (st : Ini × Bytes) : Prop :=
  ∀ sw s k, lookupD (Ini.read st.2 sw).sections s k = lookupD st.1.sections s k

theorem lookupD_secSet (secs : Dic Section) (c key v s k : Bytes) :
    lookupD (secSet secs c key v) s k = if s = c ∧ k = key then v else lookupD secs s k := by
  unfold lookupD
  rw [lookup_secSet]
  by_cases h : s = c ∧ k = key <;> simp [h]

theorem run_inv (ops : List Op) (st : Ini × Bytes) (hwf : WFIni st.1) (hne : HasNE st.1.lines)
    (hops : ∀ o ∈ setsOf ops, o.WF) (hJ : st.1.modified = false → Agree st) :
    ∃ st', run st ops = some st' ∧ WFIni st'.1 ∧ HasNE st'.1.lines ∧ (st'.1.modified = false → Agree st') ∧
      ∀ s k, lookupD st'.1.sections s k = foldD s k (setsOf ops) (lookupD st.1.sections s k) := by
  induction ops generalizing st with
  | nil => exact ⟨st, rfl, hwf, hne, hJ, fun s k => rfl⟩
  | cons o t ih =>
    cases o with
    | set o =>
      have ho : o.WF := hops o (by simp [setsOf])
      obtain ⟨h1, h2, h3, h4⟩ := ho
      have hwf' : WFIni (Ini.set st.1 (path o.sec o.key) o.val) := set_wf st.1 o.sec o.key o.val hwf h1 h2 h3 h4
      have hne' : HasNE (Ini.set st.1 (path o.sec o.key) o.val).lines := by
        rw [path, set_slash st.1 o.sec o.key o.val h2]; exact hne
      obtain ⟨st', hr, hw', hn', hJ', hl⟩ := ih (Ini.set st.1 (path o.sec o.key) o.val, st.2) hwf' hne'
        (fun x hx => hops x (by simp [setsOf, hx])) (by
          intro hm
          rw [path, set_slash st.1 o.sec o.key o.val h2] at hm
          simp at hm)
      refine ⟨st', by simp [run, step, hr], hw', hn', hJ', ?_⟩
      intro s k
      rw [hl s k]
      simp only [setsOf, foldD, List.foldl_cons]
      congr 1
      show lookupD (Ini.set st.1 (path o.sec o.key) o.val).sections s k = _
      rw [path, set_slash st.1 o.sec o.key o.val h2]
      simp only [lookupD_secSet]
      by_cases h : o.sec = s ∧ o.key = k
      · obtain ⟨e1, e2⟩ := h; subst e1; subst e2; simp
      · have : ¬ (s = o.sec ∧ k = o.key) := fun ⟨a, b⟩ => h ⟨a.symm, b.symm⟩
        simp [h, this]
    | write =>
      obtain ⟨r, hw, hlines⟩ := write_isSome st.1 hne
      obtain ⟨hwf', _, hsame, _, hnone⟩ := write_wf st.1 hwf r hw
      have hagree : Agree (r.ini, r.text.getD st.2) := by
        intro sw s k
        rw [hsame]
        cases ht : r.text with
        | some t =>
          obtain ⟨doc, hdl, hd⟩ := doc_of_wfLines st.1.lines hwf.1
          exact write_lookup st.1 doc hdl hd hwf.2.1 hwf.2.2 r hw t ht sw s k
        | none => exact hJ (hnone ht) sw s k
      obtain ⟨st', hr, hw', hn', hJ', hl⟩ := ih (r.ini, r.text.getD st.2) hwf' (by rw [hlines]; exact hne)
        (fun x hx => hops x (by simpa [setsOf] using hx)) (fun _ => hagree)
      refine ⟨st', by simp [run, step, hw, hr], hw', hn', hJ', ?_⟩
      intro s k
      rw [hl s k]
      simp only [setsOf]
      rw [hsame]

theorem run_append (a b : List Op) (st : Ini × Bytes) :
    run st (a ++ b) = (run st a).bind fun st' => run st' b := by
  induction a generalizing st with
  | nil => rfl
  | cons o t ih =>
    simp only [List.cons_append, run]
    cases step st o with
    | none => rfl
    | some st' => exact ih st'

/-- **ini_persist.**  Start from the text of any document of the grammar (LF or CRLF, with or without final
    line end), open it, apply any sequence of `set("section/key", value)` calls (existing keys, new keys, new
    sections, the section-less group `-`) interleaved with any number of explicit `write()` calls, and let the
    destructor write.  No `write` reads outside `_lines`, and a fresh `IniFile` on the resulting file returns,
    for every section and key, the value of the last `set` of that entry, or else the value the document had
    (absent entries read as empty). -/
theorem ini_persist (doc : List Item) (hd : ∀ it ∈ doc, it.WF) (eol : Bytes) (he : LineEnd eol) (finalNewline : Bool)
    (ops : List Op) (hops : ∀ o ∈ setsOf ops, o.WF) :
    ∃ obj file, run (Ini.read (renderDoc doc eol finalNewline) true, renderDoc doc eol finalNewline) (ops ++ [Op.write])
        = some (obj, file) ∧
      ∀ shouldwrite s k, 47 ∉ s →
        Ini.get (Ini.read file shouldwrite) (path s k) = (afterSets doc (setsOf ops) s k).getD [] := by
  have hwf := read_wf doc hd eol he finalNewline
  have hne := read_hasNE (renderDoc doc eol finalNewline) true
  have hJ : (Ini.read (renderDoc doc eol finalNewline) true).modified = false →
      Agree (Ini.read (renderDoc doc eol finalNewline) true, renderDoc doc eol finalNewline) := by
    intro _ sw s k
    simp only [lookupD, read_render_lookup doc hd eol he finalNewline]
  obtain ⟨st1, hr1, hw1, hn1, hJ1, hl1⟩ := run_inv ops (Ini.read (renderDoc doc eol finalNewline) true, renderDoc doc eol finalNewline) hwf hne hops hJ
  -- the final write
  obtain ⟨st2, hr2, _, _, _, hl2⟩ := run_inv [Op.write] st1 hw1 hn1 (by simp [setsOf]) hJ1
  have hag : Agree st2 := by
    -- recover the agreement established by the last write
    simp only [run, step] at hr2
    obtain ⟨r, hw, _⟩ := write_isSome st1.1 hn1
    obtain ⟨_, _, hsame, _, hnone⟩ := write_wf st1.1 hw1 r hw
    simp only [hw, Option.map_some, Option.some.injEq] at hr2
    subst hr2
    intro sw s k
    rw [hsame]
    cases ht : r.text with
    | some t =>
      obtain ⟨doc', hdl, hd'⟩ := doc_of_wfLines st1.1.lines hw1.1
      exact write_lookup st1.1 doc' hdl hd' hw1.2.1 hw1.2.2 r hw t ht sw s k
    | none => exact hJ1 (hnone ht) sw s k
  refine ⟨st2.1, st2.2, by rw [run_append, hr1]; exact hr2, ?_⟩
  intro sw s k hs
  unfold path
  rw [get_slash _ s k hs, hag sw s k, hl2 s k, hl1 s k, afterSets_getD]
  simp only [setsOf, foldD, List.foldl_nil, lookupD, read_render_lookup doc hd eol he finalNewline true s k]

end C18
