/-!
# C18 — specification side: what an INI text *is* and what it *means*

Written from the file format, not from `src/IniFile.cpp`: a document is a list of items
(section header, `key = value` with optional blanks, `#`/`;` comment, blank line); its text is
the items joined by LF or CRLF, with or without a final line end; its meaning is the relation
"section, key ↦ value of the last such entry", the section-less keys living in the group
that the API calls `-`.  All texts are NUL-free: the library reads with `fgets`/`strlen` and passes C strings.  Core Lean only; no definition of the model is used here.
-/
namespace C18Spec

abbrev Bytes := List UInt8

inductive Item where
  /-- `[name]` -/
  | header (name : Bytes)
  /-- `ind key ws1 = ws2 val ws3` -/
  | kv (ind key ws1 ws2 val ws3 : Bytes)
  /-- `ws # text` or `ws ; text` -/
  | comment (ws : Bytes) (mark : UInt8) (text : Bytes)
  /-- blanks only (usually empty) -/
  | blank (ws : Bytes)
deriving Repr, DecidableEq

def Item.render : Item → Bytes
  | .header n => [91] ++ n ++ [93]
  | .kv ind key ws1 ws2 val ws3 => ind ++ key ++ ws1 ++ [61] ++ ws2 ++ val ++ ws3
  | .comment ws m t => ws ++ [m] ++ t
  | .blank ws => ws

/-- space or tab -/
def Blank (ws : Bytes) : Prop := ∀ c ∈ ws, c = 32 ∨ c = 9

/-- blank or line break -/
def White (c : UInt8) : Prop := c = 32 ∨ c = 9 ∨ c = 10 ∨ c = 13

/-- a section name: anything on one line without `]` (and, the API being C strings, without NUL) -/
def NameOK (n : Bytes) : Prop := 93 ∉ n ∧ 10 ∉ n ∧ 0 ∉ n

/-- a key: non-empty, one line, no `=`, no `/` (the API's section separator), no outer white space,
    starting with an ASCII byte above `/` other than `;` and `[` (letters, digits, `_`, …) -/
def KeyOK (k : Bytes) : Prop :=
  k ≠ [] ∧ 61 ∉ k ∧ 10 ∉ k ∧ 47 ∉ k ∧
  (∀ c, k.head? = some c → 47 < c ∧ c < 128 ∧ c ≠ 59 ∧ c ≠ 91) ∧
  (∀ c, k.getLast? = some c → ¬ White c) ∧ 0 ∉ k

/-- a value: one line, no leading or trailing white space (may be empty, may contain `=`, `#`, `;`, `[`, blanks) -/
def ValOK (v : Bytes) : Prop :=
  10 ∉ v ∧ (∀ c, v.head? = some c → ¬ White c) ∧ (∀ c, v.getLast? = some c → ¬ White c) ∧ 0 ∉ v

def Item.WF : Item → Prop
  | .header n => NameOK n
  | .kv ind key ws1 ws2 val ws3 => Blank ind ∧ KeyOK key ∧ Blank ws1 ∧ Blank ws2 ∧ ValOK val ∧ Blank ws3
  | .comment ws m t => Blank ws ∧ (m = 35 ∨ m = 59) ∧ 10 ∉ t ∧ t.getLast? ≠ some 13 ∧ 0 ∉ t
  | .blank ws => Blank ws

/-- identifier-like keys (`[A-Za-z0-9_]+`) are keys -/
def Ident (k : Bytes) : Prop :=
  k ≠ [] ∧ ∀ c ∈ k, (48 ≤ c ∧ c ≤ 57) ∨ (65 ≤ c ∧ c ≤ 90) ∨ (97 ≤ c ∧ c ≤ 122) ∨ c = 95

/-- lines joined by the line end `eol` -/
def joinWith (eol : Bytes) : List Bytes → Bytes
  | [] => []
  | [l] => l
  | l :: t => l ++ eol ++ joinWith eol t

/-- the text of a document -/
def renderDoc (doc : List Item) (eol : Bytes) (finalNewline : Bool) : Bytes :=
  joinWith eol (doc.map Item.render) ++ (if finalNewline then eol else [])

def LineEnd (eol : Bytes) : Prop := eol = [10] ∨ eol = [13, 10]

/-- the name of the group of keys that precede the first header -/
def noSection : Bytes := [45]

/-- value of `s`/`k`: the last `key = value` item with key `k` while the current section is `s` -/
def rel (s k : Bytes) : List Item → Bytes → Option Bytes → Option Bytes
  | [], _, acc => acc
  | .header n :: t, _, acc => rel s k t n acc
  | .kv _ key _ _ val _ :: t, cur, acc => rel s k t cur (if cur = s ∧ key = k then some val else acc)
  | _ :: t, cur, acc => rel s k t cur acc

def relGet (doc : List Item) (s k : Bytes) : Option Bytes := rel s k doc noSection none

/-- a `set("s/k", v)` call of the history -/
structure SetOp where
  sec : Bytes
  key : Bytes
  val : Bytes

def SetOp.WF (o : SetOp) : Prop := NameOK o.sec ∧ 47 ∉ o.sec ∧ KeyOK o.key ∧ ValOK o.val

/-- the relation after a history of sets: the last set of `s`/`k` wins, else the document's value -/
def afterSets (doc : List Item) (ops : List SetOp) (s k : Bytes) : Option Bytes :=
  ops.foldl (fun acc o => if o.sec = s ∧ o.key = k then some o.val else acc) (relGet doc s k)

end C18Spec

/-! ## decimal number texts -/
namespace C18Spec

def IsDigits (d : Bytes) : Prop := ∀ c ∈ d, 48 ≤ c ∧ c ≤ 57

/-- a number as a CSV cell spells it: sign, integer digits, optional `.` + fraction digits,
    optional exponent (`e`/`E`, optional sign, digits) -/
structure Num where
  neg : Bool
  ip : Bytes
  frac : Option Bytes
  exp : Option (UInt8 × Option Bool × Bytes)

def Num.fracDigits (n : Num) : Bytes := n.frac.getD []

def Num.WF (n : Num) : Prop :=
  IsDigits n.ip ∧ IsDigits n.fracDigits ∧ n.ip.length + n.fracDigits.length ≥ 1 ∧
  ∀ e sgn ed, n.exp = some (e, sgn, ed) → (e = 101 ∨ e = 69) ∧ IsDigits ed ∧ ed ≠ []

/-- the texts on which the code's machine arithmetic is exact: at most 18 mantissa digits (`long long y1`) and at
    most 9 exponent digits (`int` in `myatoiz` and for `exp`) -/
def Num.InRange (n : Num) : Prop :=
  n.ip.length + n.fracDigits.length ≤ 18 ∧ ∀ e sgn ed, n.exp = some (e, sgn, ed) → ed.length ≤ 9

def Num.expText (n : Num) : Bytes :=
  match n.exp with
  | some (e, sgn, ed) => e :: (match sgn with | some true => [45] | some false => [43] | none => []) ++ ed
  | none => []

def Num.text (n : Num) : Bytes :=
  (if n.neg then [45] else []) ++ n.ip ++ (match n.frac with | some fp => 46 :: fp | none => []) ++ n.expText

/-- value of a digit string -/
def natVal (d : Bytes) : Nat := d.foldl (fun y c => 10 * y + (c.toNat - 48)) 0

def Num.expVal (n : Num) : Int :=
  match n.exp with
  | some (_, sgn, ed) => if sgn = some true then -(natVal ed : Int) else (natVal ed : Int)
  | none => 0

end C18Spec
