import AslModel.Date
/-! # C19 — Date ↔ UTC calendar fields (work in progress: theorems are added below) -/
namespace C19
open AslModel.Date Gen.Date

/-- the cumulative month table of the source is the one of the Gregorian calendar -/
theorem month_table_is_gregorian :
    monthDays = [[0, 0, 31, 59, 90, 120, 151, 181, 212, 243, 273, 304, 334, 365],
                 [0, 0, 31, 60, 91, 121, 152, 182, 213, 244, 274, 305, 335, 366]] := by decide

end C19
