import AslModel.Date
import AslProofs.Date
import AslProofs.DateParse
import AslProofs.DateFmt
import AslProofs.DateDbl
import AslProofs.DateArith
/-!
# C19 — Date converts between epoch seconds and UTC calendar fields as a bijection

Property theorems only (helper lemmas: `AslProofs/Date.lean`).  `yearFromDay`, `daysInYear`,
`timeFromYearAsDays`, `monthDays`, `wdNames`, `mnNames`, `parseMonths` are **regenerated from
`src/Date.cpp` on every run** (`Gen/DateGen.lean`); the other model functions (`calcF`, `construct`,
`toUTCString`, `parse`, `parseFmt`) are the ones the model driver runs against the real library.
The specification below (namespace `Cal`) is the proleptic Gregorian calendar written from its
definition, not from the code: leap rule, month lengths, "days before a year" as the unique function
that is 0 at 1970 and grows by the length of each year, and independently Hinnant's `days_from_civil`.
Time values are integer milliseconds since 1970-01-01T00:00:00Z.
-/
namespace C19
open AslModel.Date Gen.Date AslProofs.Date AslProofs.DateParse AslProofs.DateFmt

/-! ## specification -/
namespace Cal

def isLeap (y : Int) : Bool := y % 4 == 0 && (y % 100 != 0 || y % 400 == 0)

def yearLen (y : Int) : Int := if isLeap y then 366 else 365

def monthLen (y : Int) (m : Nat) : Int :=
  match m with
  | 2 => if isLeap y then 29 else 28
  | 4 | 6 | 9 | 11 => 30
  | _ => 31

/-- days of year `y` before the first day of month `m` (1-based): the sum of the preceding month lengths -/
def daysBeforeMonth (y : Int) (m : Nat) : Int := ((List.range (m - 1)).map fun i => monthLen y (i + 1)).sum

/-- `f y` = number of days from 1970-01-01 to `y`-01-01: zero at 1970, and each year adds its length -/
def IsDaysBeforeYear (f : Int → Int) : Prop := f 1970 = 0 ∧ ∀ y, f (y + 1) = f y + yearLen y

/-- a calendar date with a time of day -/
structure Valid (y m d h mi s : Int) : Prop where
  year : 0 ≤ y
  month : 1 ≤ m ∧ m ≤ 12
  day : 1 ≤ d ∧ d ≤ monthLen y m.toNat
  hour : 0 ≤ h ∧ h < 24
  minute : 0 ≤ mi ∧ mi < 60
  second : 0 ≤ s ∧ s < 60

/-- Howard Hinnant's `days_from_civil` (an independent closed form of the day number) -/
def daysFromCivil (y m d : Int) : Int :=
  let y' := if m ≤ 2 then y - 1 else y
  let era := y' / 400
  let yoe := y' - era * 400
  let doy := (153 * (if m > 2 then m - 3 else m + 9) + 2) / 5 + d - 1
  let doe := yoe * 365 + yoe / 4 - yoe / 100 + doy
  era * 146097 + doe - 719468

end Cal

/-- first millisecond of year 0 (0000-01-01T00:00:00Z); years 1..9999 are `[-62135596800000, 253402300799999]` -/
def t0 : Int := -62167219200000

/-! ## G obligations: what the source says is the Gregorian calendar -/

/-- the leap-year macro `daysInYear(y) == 366` is the Gregorian rule, for every integer year -/
theorem leap_macro_is_gregorian (y : Int) : AslModel.Date.isLeap y = Cal.isLeap y := by
  have e4 : Int.tmod y 4 = 0 ↔ y % 4 = 0 := by rw [tmod_lit]; split <;> omega
  have e100 : Int.tmod y 100 = 0 ↔ y % 100 = 0 := by rw [tmod_lit]; split <;> omega
  have e400 : Int.tmod y 400 = 0 ↔ y % 400 = 0 := by rw [tmod_lit]; split <;> omega
  unfold AslModel.Date.isLeap daysInYear Cal.isLeap
  simp only [ne_eq, e4, e100, e400]
  by_cases h4 : y % 4 = 0 <;> by_cases h100 : y % 100 = 0 <;> by_cases h400 : y % 400 = 0 <;> simp [h4, h100, h400]

/-- the macro `timeFromYearAsDays` is the day count of 1 January: 0 at 1970, growing by each year's length (all integer years) -/
theorem daysBeforeYear_step : Cal.IsDaysBeforeYear timeFromYearAsDays := by
  refine ⟨by decide, fun y => ?_⟩
  unfold timeFromYearAsDays Cal.yearLen Cal.isLeap
  by_cases h4 : y % 4 = 0 <;> by_cases h100 : y % 100 = 0 <;> by_cases h400 : y % 400 = 0 <;> simp [h4, h100, h400] <;> omega

/-- ... and that description determines the function -/
theorem daysBeforeYear_unique (f g : Int → Int) (hf : Cal.IsDaysBeforeYear f) (hg : Cal.IsDaysBeforeYear g) (y : Int) :
    f y = g y := by
  have key : ∀ k : Nat, f (1970 + k) = g (1970 + k) ∧ f (1970 - k) = g (1970 - k) := by
    intro k
    induction k with
    | zero => simp [hf.1, hg.1]
    | succ k ih =>
      constructor
      · have a := hf.2 (1970 + k); have b := hg.2 (1970 + k)
        have e : (1970 : Int) + ((k + 1 : Nat) : Int) = 1970 + k + 1 := by omega
        rw [e, a, b, ih.1]
      · have a := hf.2 (1970 - (k + 1 : Nat)); have b := hg.2 (1970 - (k + 1 : Nat))
        have e : (1970 : Int) - ((k + 1 : Nat) : Int) + 1 = 1970 - k := by omega
        rw [e] at a b
        have := ih.2
        omega
  by_cases h : 1970 ≤ y
  · have := (key (y - 1970).toNat).1
    have e : (1970 : Int) + ((y - 1970).toNat : Int) = y := by omega
    rwa [e] at this
  · have := (key (1970 - y).toNat).2
    have e : (1970 : Int) - ((1970 - y).toNat : Int) = y := by omega
    rwa [e] at this

/-- `month_days[leap][m]` is the sum of the lengths of the months before `m` -/
theorem month_table_is_gregorian (y : Int) (m : Nat) (h1 : 1 ≤ m) (h13 : m ≤ 13) :
    mdays (AslModel.Date.isLeap y) m = Cal.daysBeforeMonth y m := by
  rw [leap_macro_is_gregorian]
  have key : ∀ (l : Bool) (m : Fin 14), 1 ≤ m.val →
      mdays l m.val = ((List.range (m.val - 1)).map fun i =>
        (match i + 1 with
          | 2 => if l then (29 : Int) else 28
          | 4 | 6 | 9 | 11 => 30
          | _ => 31)).sum := by decide +kernel
  have := key (Cal.isLeap y) ⟨m, by omega⟩ h1
  simpa [Cal.daysBeforeMonth, Cal.monthLen] using this

/-- successive table entries differ by the month length -/
theorem month_length (y : Int) (m : Nat) (h1 : 1 ≤ m) (h12 : m ≤ 12) :
    mdays (AslModel.Date.isLeap y) (m + 1) - mdays (AslModel.Date.isLeap y) m = Cal.monthLen y m := by
  rw [leap_macro_is_gregorian]
  have key : ∀ (l : Bool) (m : Fin 13), 1 ≤ m.val →
      mdays l (m.val + 1) - mdays l m.val =
        (match m.val with
          | 2 => if l then (29 : Int) else 28
          | 4 | 6 | 9 | 11 => 30
          | _ => 31) := by decide +kernel
  have := key (Cal.isLeap y) ⟨m, by omega⟩ h1
  simpa [Cal.monthLen] using this

/-! ## the year of a day -/

/-- `yearFromTime` inverts "days before the year": every day of every year `y ≥ 0` maps back to `y` (no upper bound in the
`Int` model; the C `int` arithmetic is the same up to year 5 879 609, see `int_range_of_the_model`).
Years 1..9999 of the property are the instance `1 ≤ y ≤ 9999`. -/
theorem year_of_day (y k : Int) (hy : 0 ≤ y) (hk0 : 0 ≤ k) (hk : k < Cal.yearLen y) :
    yearFromDay (timeFromYearAsDays y + k) = y := by
  have hstep := daysBeforeYear_step.2 y
  have h1 := tfy_eq_start y
  have h2 := tfy_eq_start (y + 1)
  have hs0 : 0 ≤ start y := by
    by_cases e : y = 0
    · have h00 := start_zero; rw [e]; omega
    · have := start_strict_mono (y := 0) (z := y) (by omega)
      rw [start_zero] at this; omega
  have hb := year_bracket (timeFromYearAsDays y + k) (timeFromYearAsDays y + k + 719528) rfl (by omega)
  exact bracket_unique hb ⟨by omega, by omega⟩

/-- conversely the returned year always contains the day (every day from 0000-01-01 on) -/
theorem day_in_its_year (day : Int) (h : -719528 ≤ day) :
    timeFromYearAsDays (yearFromDay day) ≤ day ∧ day < timeFromYearAsDays (yearFromDay day + 1) := by
  have hb := year_bracket day (day + 719528) rfl (by omega)
  have h1 := tfy_eq_start (yearFromDay day)
  have h2 := tfy_eq_start (yearFromDay day + 1)
  omega

/-- where the unbounded-`Int` model is the C code: `int d = day + 719528` of `yearFromTime` stays below 2^31 for every day
of the years 0..5 879 609, and `365*((y)-1970)` of `timeFromYearAsDays` for the years up to 5 885 486 (`construct` rejects
years below −100000); years 1..9999 of the property are far inside -/
theorem int_range_of_the_model :
    timeFromYearAsDays 5879610 + 719528 ≤ 2147483647 ∧ 2147483647 < timeFromYearAsDays 5879611 + 719528 ∧
    365 * (5885486 - 1970) ≤ (2147483647 : Int) ∧ (2147483647 : Int) < 365 * (5885487 - 1970) := by decide

example : yearFromDay (timeFromYearAsDays 2000 + 365) = 2000 := by decide
example : yearFromDay (timeFromYearAsDays 1900 + 364) = 1900 ∧ yearFromDay (timeFromYearAsDays 1900 + 365) = 1901 := by decide
example : Cal.yearLen 2000 = 366 ∧ Cal.yearLen 1900 = 365 ∧ Cal.yearLen 9999 = 365 := by decide

/-! ## splitting into fields and back -/

/-- `splitUTC` yields the calendar fields of the instant: the date whose day number is the day of `t`, the time of
day, and the weekday (Thursday = 4 at the epoch), for every instant from 0000-01-01 on -/
theorem calc_is_calendar (t : Int) (ht : t0 ≤ t) :
    let f := calcF t
    Cal.Valid f.year f.month f.day f.hours f.minutes f.seconds ∧
    timeFromYearAsDays f.year + Cal.daysBeforeMonth f.year f.month.toNat + (f.day - 1) = t / 1000 / 86400 ∧
    f.hours * 3600 + f.minutes * 60 + f.seconds = t / 1000 % 86400 ∧
    f.weekDay = (t / 1000 / 86400 + 4) % 7 := by
  intro f
  have hr : 0 ≤ t / 1000 / 86400 + 719528 := by unfold t0 at ht; omega
  obtain ⟨hy, hm1, hm2, hd1, hd2, hdn, hh1, hh2, hmi1, hmi2, hs1, hs2, hsum⟩ := calcF_facts t _ rfl hr
  have hml := month_length (calcF t).year (calcF t).month.toNat (by omega) (by omega)
  have hmt := month_table_is_gregorian (calcF t).year (calcF t).month.toNat (by omega) (by omega)
  refine ⟨⟨hy, ⟨hm1, hm2⟩, ⟨hd1, by rw [← hml]; exact hd2⟩, ⟨hh1, hh2⟩, ⟨hmi1, hmi2⟩, ⟨hs1, hs2⟩⟩, ?_, hsum, weekday_spec t _ rfl⟩
  rw [← hmt]; exact hdn

/-- building a Date from the fields of an instant gives the instant back (to the second) -/
theorem construct_calc (t : Int) (ht : t0 ≤ t) : constructF (calcF t) = some (t - t % 1000) :=
  AslProofs.Date.construct_calc t _ rfl (by unfold t0 at ht; omega)

/-- every valid field tuple is the split of the instant constructed from it, whose day number is the calendar's -/
theorem calc_construct (y m d h mi s : Int) (hv : Cal.Valid y m d h mi s) :
    ∃ t, construct y m d h mi s = some t ∧
      t = ((timeFromYearAsDays y + Cal.daysBeforeMonth y m.toNat + (d - 1)) * 86400 + (h * 3600 + mi * 60 + s)) * 1000 ∧
      calcF t = ⟨y, m, d, h, mi, s, (timeFromYearAsDays y + Cal.daysBeforeMonth y m.toNat + (d - 1) + 4) % 7⟩ := by
  have hml := month_length y m.toNat (by have := hv.month; omega) (by have := hv.month; omega)
  have hmt := month_table_is_gregorian y m.toNat (by have := hv.month; omega) (by have := hv.month; omega)
  obtain ⟨t, hc, hms, hday, hf⟩ := AslProofs.Date.calc_construct y m d h mi s hv.year hv.month
    ⟨hv.day.1, by rw [hml]; exact hv.day.2⟩ hv.hour hv.minute hv.second
  refine ⟨t, hc, ?_, by rw [← hmt]; exact hf⟩
  have hc2 := construct_of_valid y m d h mi s hv.month ⟨by have := hv.day; omega, by
      have := hv.day.2
      have : Cal.monthLen y m.toNat ≤ 31 := by unfold Cal.monthLen; split <;> (try split) <;> omega
      omega⟩ (by have := hv.year; omega) hv.hour hv.minute hv.second
  rw [hc2] at hc
  rw [← hmt]
  have := Option.some.inj hc
  omega

/-- the two directions together: on instants of whole seconds from year 0 on, `calcF` and `construct` are mutually inverse -/
theorem fields_bijection (t : Int) (ht : t0 ≤ t) (hsec : t % 1000 = 0) :
    constructF (calcF t) = some t ∧
    (∀ y m d h mi s, Cal.Valid y m d h mi s → construct y m d h mi s = some t →
      (calcF t).year = y ∧ (calcF t).month = m ∧ (calcF t).day = d ∧ (calcF t).hours = h ∧ (calcF t).minutes = mi ∧ (calcF t).seconds = s) := by
  refine ⟨by rw [construct_calc t ht, hsec]; simp, ?_⟩
  intro y m d h mi s hv hc
  obtain ⟨t', hc', _, hf⟩ := calc_construct y m d h mi s hv
  rw [hc] at hc'
  have := Option.some.inj hc'
  subst this
  rw [hf]; exact ⟨rfl, rfl, rfl, rfl, rfl, rfl⟩

example : Cal.Valid 2000 2 29 23 59 59 := ⟨by decide, by decide, by decide, by decide, by decide, by decide⟩
example : calcF 951868799000 = ⟨2000, 2, 29, 23, 59, 59, 2⟩ := by decide
example : construct 2000 2 29 23 59 59 = some 951868799000 := by decide
example : t0 ≤ -62135596800000 := by decide

/-- the day number used by the code (days before the year + days before the month + day − 1) is Hinnant's
`days_from_civil`, for every integer year and every month 1..12 -/
theorem day_number_is_days_from_civil (y m d : Int) (hm : 1 ≤ m ∧ m ≤ 12) :
    timeFromYearAsDays y + Cal.daysBeforeMonth y m.toNat + (d - 1) = Cal.daysFromCivil y m d := by
  rw [← month_table_is_gregorian y m.toNat (by omega) (by omega), leap_macro_is_gregorian]
  have hm' : m = 1 ∨ m = 2 ∨ m = 3 ∨ m = 4 ∨ m = 5 ∨ m = 6 ∨ m = 7 ∨ m = 8 ∨ m = 9 ∨ m = 10 ∨ m = 11 ∨ m = 12 := by omega
  obtain ⟨v1, v2, v3, v4, v5, v6, v7, v8, v9, v10, v11, v12⟩ := mdays_vals (Cal.isLeap y)
  have A1 := hinnant_era (y - 1)
  have A2 := hinnant_era y
  have B := tfy_march y
  have C := march_step y (Cal.isLeap y) (by simp [Cal.isLeap])
  unfold Cal.daysFromCivil
  cases hL : Cal.isLeap y <;> rw [hL] at C v1 v2 v3 v4 v5 v6 v7 v8 v9 v10 v11 v12 <;>
    simp only [Bool.false_eq_true, if_false, if_true] at C v3 v4 v5 v6 v7 v8 v9 v10 v11 v12 <;>
    rcases hm' with rfl | rfl | rfl | rfl | rfl | rfl | rfl | rfl | rfl | rfl | rfl | rfl <;>
    simp only [Int.reduceToNat, Int.reduceLE, Int.reduceGT, if_true, if_false, Int.reduceSub, Int.reduceAdd,
      Int.reduceMul, Int.reduceDiv, v1, v2, v3, v4, v5, v6, v7, v8, v9, v10, v11, v12] <;> omega

example : Cal.daysFromCivil 1970 1 1 = 0 ∧ Cal.daysFromCivil 2000 3 1 = 11017 ∧ Cal.daysFromCivil 1 1 1 = -719162 := by decide

/-! ## instants between two milliseconds

`Date` holds a `double`.  An instant `u` in **microseconds** (the double `u / 10^6`) is shown by `splitUTC` and by every
format as the instant rounded to the nearest millisecond (`roundMs`, ties up) — date *and* time of day of the same
rounded instant (before repo commit 4c81461 the date was taken from the unrounded instant; see `corpus/C19`). -/

theorem roundMs_is_nearest (u : Int) : 1000 * roundMs u - 500 ≤ u ∧ u < 1000 * roundMs u + 500 := by
  unfold roundMs; omega

/-- `calc_is_calendar` for every double instant: the fields are the calendar fields of the nearest millisecond `r`,
whose distance to the instant is at most half a millisecond -/
theorem calc_is_calendar_us (u : Int) (hu : t0 ≤ roundMs u) :
    Cal.Valid (calcU u).year (calcU u).month (calcU u).day (calcU u).hours (calcU u).minutes (calcU u).seconds ∧
    timeFromYearAsDays (calcU u).year + Cal.daysBeforeMonth (calcU u).year (calcU u).month.toNat + ((calcU u).day - 1)
      = roundMs u / 1000 / 86400 ∧
    (calcU u).hours * 3600 + (calcU u).minutes * 60 + (calcU u).seconds = roundMs u / 1000 % 86400 ∧
    (calcU u).weekDay = (roundMs u / 1000 / 86400 + 4) % 7 ∧
    (1000 * roundMs u - 500 ≤ u ∧ u < 1000 * roundMs u + 500) :=
  ⟨(calc_is_calendar (roundMs u) hu).1, (calc_is_calendar (roundMs u) hu).2.1, (calc_is_calendar (roundMs u) hu).2.2.1,
    (calc_is_calendar (roundMs u) hu).2.2.2, roundMs_is_nearest u⟩

/-- the witness of the repaired defect: 0.4 ms before midnight of 1970-01-02 is shown as 1970-01-02T00:00:00 (Friday) -/
example : calcU 86399999600 = ⟨1970, 1, 2, 0, 0, 0, 5⟩ := by decide

/-! ## parsing any string is total and in bounds

In the model a read `rd s i` beyond the terminator (`i > length`) makes the whole parse return `none`;
`some none` is an invalid Date (NaN), `some (some t)` a value. -/

/-- `Date(const String&)`: for every byte string, every read stays at an index `≤ length` and the parser returns
an invalid Date or some value -/
theorem parse_total (s : Bytes) : ∃ r, parse s = some r := parse_ok s

/-- `Date(const String& str, const String& fmt)` likewise never leaves `str`, for every string and every format
(the code before commit 2de0295 stepped over the terminator on `?` and is no longer the model) -/
theorem parse_fmt_total (s fmt : Bytes) : ∃ r, parseFmt s fmt = some r := parseFmt_ok s fmt

example : parse [120] = some none := by decide
example : parseFmt [49, 50] [68, 63, 77, 63, 89] = some (some 0) := by decide

/-! ## formatting and parsing back

`tMax` is 9999-12-31T23:59:59.999Z.  `toUTCString k t` is `Date(t).toUTCString(k)`; `parse` is `Date(const String&)`. -/

def tMax : Int := 253402300799999

/-- ISO long format (`yyyy-mm-ddThh:mm:ssZ`) parses back to the instant (to the second), every instant of years 0..9999 -/
theorem format_parse_long (t : Int) (h0 : t0 ≤ t) (h1 : t ≤ tMax) :
    parse (toUTCString .long t) = some (some (t - t % 1000)) := by
  unfold t0 at h0; unfold tMax at h1
  obtain ⟨a, b, c, d, e, f, g⟩ := roundtrip_facts t h0 h1
  unfold toUTCString
  rw [fmt_long_eq, parse_longList _ _ _ _ _ _ a b c d e f, g]

/-- ISO short (basic) format `yyyymmddThhmmssZ` -/
theorem format_parse_short (t : Int) (h0 : t0 ≤ t) (h1 : t ≤ tMax) :
    parse (toUTCString .short t) = some (some (t - t % 1000)) := by
  unfold t0 at h0; unfold tMax at h1
  obtain ⟨a, b, c, d, e, f, g⟩ := roundtrip_facts t h0 h1
  unfold toUTCString
  rw [fmt_short_eq, parse_shortList _ _ _ _ _ _ a b c d e f, g]

/-- ISO full format with milliseconds parses back to the instant exactly (to the millisecond) -/
theorem format_parse_millis (t : Int) (h0 : t0 ≤ t) (h1 : t ≤ tMax) :
    parse (toUTCString .full t) = some (some t) := by
  unfold t0 at h0; unfold tMax at h1
  obtain ⟨a, b, c, d, e, f, g⟩ := roundtrip_facts t h0 h1
  unfold toUTCString
  have hms : (t % 1000).toNat ≤ 999 := by omega
  rw [fmt_full_eq, parse_fullList _ _ _ _ _ _ _ a b c d e f hms, g]
  simp only [Option.map]
  congr 2
  omega

/-- HTTP (RFC 1123) format `Www, dd Mmm yyyy hh:mm:ss GMT`; uses that the formatter's month names are the keys of the
parser's month map (`mn_names_ok`, both regenerated from the source) -/
theorem format_parse_http (t : Int) (h0 : t0 ≤ t) (h1 : t ≤ tMax) :
    parse (toUTCString .http t) = some (some (t - t % 1000)) := by
  unfold t0 at h0; unfold tMax at h1
  exact parse_http_roundtrip t h0 h1

/-- G obligation: the month names written by the HTTP formatter are looked up to the right month by the HTTP parser -/
theorem http_month_tables_agree : ∀ i : Fin 12, lookupMonth (mnNames.getD i.val []) = (i.val : Int) + 1 :=
  fun i => (mn_names_ok i).2

/-- all four formats of the property, every instant of years 0..9999 -/
theorem format_parse (t : Int) (h0 : t0 ≤ t) (h1 : t ≤ tMax) :
    parse (toUTCString .long t) = some (some (t - t % 1000)) ∧ parse (toUTCString .short t) = some (some (t - t % 1000)) ∧
    parse (toUTCString .http t) = some (some (t - t % 1000)) ∧ parse (toUTCString .full t) = some (some t) :=
  ⟨format_parse_long t h0 h1, format_parse_short t h0 h1, format_parse_http t h0 h1, format_parse_millis t h0 h1⟩

/-- formatting a double instant and parsing the text back gives the nearest millisecond (FULL) resp. its second -/
theorem format_parse_us (u : Int) (h0 : t0 ≤ roundMs u) (h1 : roundMs u ≤ tMax) :
    parse (toUTCStringU .full u) = some (some (roundMs u)) ∧
    parse (toUTCStringU .long u) = some (some (roundMs u - roundMs u % 1000)) ∧
    parse (toUTCStringU .short u) = some (some (roundMs u - roundMs u % 1000)) ∧
    parse (toUTCStringU .http u) = some (some (roundMs u - roundMs u % 1000)) :=
  ⟨format_parse_millis _ h0 h1, format_parse_long _ h0 h1, format_parse_short _ h0 h1, format_parse_http _ h0 h1⟩

example : toUTCString .full 951868799123 = [50, 48, 48, 48, 45, 48, 50, 45, 50, 57, 84, 50, 51, 58, 53, 57, 58, 53, 57, 46, 49, 50, 51, 90] := by decide

/-! ## numeric zone offsets

The local date-time `y-m-d h:mi:s` followed by `+hh:mm` denotes the UTC instant `local − offset` (and `-hh:mm`
denotes `local + offset`), for every two-digit `hh`, `mm` (so in particular for all offsets −23:59..+23:59), in the
spellings `±hh:mm`, `±hhmm` and `±hh`.  The strings are given as explicit byte lists (`zoneColonList` etc.:
`yyyy-mm-ddThh:mm:ss` followed by the sign and the digits). -/

theorem zone_offset_colon (y m d h mi s hh mm : Nat) (plus : Bool) (hy : y ≤ 9999) (hm : m ≤ 99) (hd : d ≤ 99) (hh' : h ≤ 23)
    (hmi : mi ≤ 59) (hs : s ≤ 59) (hhh : hh ≤ 99) (hmm : mm ≤ 99) :
    parse (zoneColonList y m d h mi s plus hh mm) =
      some ((construct y m d h mi s).map fun local_ => local_ + (if plus then -((hh : Int) * 60 + mm) else (hh : Int) * 60 + mm) * 60000) :=
  parse_zoneColonList y m d h mi s plus hh mm hy hm hd hh' hmi hs hhh hmm

theorem zone_offset_compact (y m d h mi s hh mm : Nat) (plus : Bool) (hy : y ≤ 9999) (hm : m ≤ 99) (hd : d ≤ 99) (hh' : h ≤ 23)
    (hmi : mi ≤ 59) (hs : s ≤ 59) (hhh : hh ≤ 99) (hmm : mm ≤ 99) :
    parse (zoneCompactList y m d h mi s plus hh mm) =
      some ((construct y m d h mi s).map fun local_ => local_ + (if plus then -((hh : Int) * 60 + mm) else (hh : Int) * 60 + mm) * 60000) :=
  parse_zoneCompactList y m d h mi s plus hh mm hy hm hd hh' hmi hs hhh hmm

theorem zone_offset_hour (y m d h mi s hh : Nat) (plus : Bool) (hy : y ≤ 9999) (hm : m ≤ 99) (hd : d ≤ 99) (hh' : h ≤ 23)
    (hmi : mi ≤ 59) (hs : s ≤ 59) (hhh : hh ≤ 99) :
    parse (zoneHourList y m d h mi s plus hh 0) =
      some ((construct y m d h mi s).map fun local_ => local_ + (if plus then -((hh : Int) * 60 + 0) else (hh : Int) * 60 + 0) * 60000) :=
  parse_zoneHourList y m d h mi s plus hh 0 hy hm hd hh' hmi hs hhh (by omega)

/-- "2021-11-29T23:31:10+01:30" is 22:01:10 UTC -/
example : parse (zoneColonList 2021 11 29 23 31 10 true 1 30) = some (some 1638223270000) := by decide
example : zoneColonList 2021 11 29 23 31 10 true 1 30 =
    [50, 48, 50, 49, 45, 49, 49, 45, 50, 57, 84, 50, 51, 58, 51, 49, 58, 49, 48, 43, 48, 49, 58, 51, 48] := by decide

/-! ## the stored `double`

`Date(ms / 1000.0)` holds the binary64 quotient, modelled exactly as the dyadic rational `n / 2^k` (`toDouble ms =
(n, k)`, integer arithmetic only; the harness prints the real double in the same lowest-terms form, op `dbl`).  For every
whole-millisecond instant the stored double is within half a unit `2^-k ≤ 2^-15 s` of `ms / 1000`, has a 53-bit
significand in years 1..9999, and the library's `floor(t * 1000 + 0.5)` evaluated *exactly* on it gives `ms` back: the
double storage loses nothing of an instant given to the millisecond, and every observable through it is the one of the
integer model. -/

/-- the stored double is a nearest one: `|n / 2^k - ms / 1000| ≤ 2^-(k+1)` (written `|1000 n - ms 2^k| ≤ 500`), with a
unit `2^-k ≤ 2^-15 s` -/
theorem stored_double_is_nearest (ms : Int) :
    1000 * (toDouble ms).1 - ms * 2 ^ (toDouble ms).2 ≤ 500 ∧ ms * 2 ^ (toDouble ms).2 - 1000 * (toDouble ms).1 ≤ 500 ∧
    15 ≤ (toDouble ms).2 := AslProofs.DateDbl.toDouble_close ms

/-- ... and a binary64 value: the significand fits 53 bits whenever `|t| < 2^38 s` (all of years 1..9999) -/
theorem stored_double_53bit (ms : Int) (h0 : t0 ≤ ms) (h1 : ms ≤ tMax) : (toDouble ms).1.natAbs ≤ 2 ^ 53 := by
  have := AslProofs.DateDbl.toDouble_53bit ms (by unfold t0 tMax at *; omega)
  simpa using this

/-- ANY dyadic `n / 2^k` strictly within half a millisecond of `ms / 1000` (in particular any double within `2^-16 s`) is
shown as `ms` by `floor(t * 1000 + 0.5)` -/
theorem roundMs_of_any_close_double (d : Int × Nat) (ms : Int)
    (hl : -(2 ^ d.2 : Int) ≤ 2 * (1000 * d.1 - ms * 2 ^ d.2)) (hu : 2 * (1000 * d.1 - ms * 2 ^ d.2) < (2 ^ d.2 : Int)) :
    roundMsD d = ms := AslProofs.DateDbl.roundMsD_of_close d ms hl hu

/-- every whole-millisecond instant survives the double storage exactly, and so do all its observables -/
theorem stored_double_shows_ms (ms : Int) (k : Fmt) :
    roundMsD (toDouble ms) = ms ∧ calcD ms = calcF ms ∧ toUTCStringD k ms = toUTCString k ms := by
  have h := AslProofs.DateDbl.stored_double_shows_ms ms
  exact ⟨h, by unfold calcD; rw [h], by unfold toUTCStringD; rw [h]⟩

/-- FULL format and parse through the stored double: the same millisecond -/
theorem format_parse_stored_double (ms : Int) (h0 : t0 ≤ ms) (h1 : ms ≤ tMax) :
    parse (toUTCStringD .full ms) = some (some ms) := by
  rw [(stored_double_shows_ms ms .full).2.2]; exact format_parse_millis ms h0 h1

example : toDouble 253402300799999 = (8303486592614367, 15) ∧ toDouble 1 = (4611686018427388, 62) := by decide
example : t0 ≤ 951868799123 ∧ (951868799123 : Int) ≤ tMax := by decide
example : roundMsD (8303486592614367, 15) = 253402300799999 := by decide
example : -(2 ^ 15 : Int) ≤ 2 * (1000 * 8303486592614367 - 253402300799999 * 2 ^ 15) ∧
    2 * (1000 * 8303486592614367 - 253402300799999 * 2 ^ 15) < (2 ^ 15 : Int) := by decide

/-! ## arithmetic and order on stored dates

`Date::operator+(double)` / `operator-(double)` with a whole number of seconds and `operator<` (`<=`, `>` are its
negation / converse), on the exact model of the stored double (`addSecD`: exact sum, then binary64 rounding `round53`). -/

/-- adding (or subtracting) any whole number of seconds to a stored whole-millisecond instant gives a double that is
shown as exactly `ms + 1000 s` — fields and all formats — as long as the result is in years 1..9999 -/
theorem add_seconds_exact (ms s : Int) (h0 : t0 ≤ ms + 1000 * s) (h1 : ms + 1000 * s ≤ tMax) (k : Fmt) :
    roundMsD (addSecD (toDouble ms) s) = ms + 1000 * s ∧
    calcF (roundMsD (addSecD (toDouble ms) s)) = calcF (ms + 1000 * s) ∧
    toUTCString k (roundMsD (addSecD (toDouble ms) s)) = toUTCString k (ms + 1000 * s) := by
  obtain ⟨a, b, c⟩ := AslProofs.DateDbl.toDouble_close ms
  have h := AslProofs.DateArith.addSec_close (toDouble ms).1 ms s (toDouble ms).2 c a b (by unfold t0 tMax at *; omega)
  exact ⟨h, by rw [h], by rw [h]⟩

/-- ... and that sum is again a binary64 value: a significand of at most 53 bits times a power of two -/
theorem sum_is_binary64 (ms s : Int) (h : t0 ≤ ms ∧ ms ≤ tMax) (h0 : t0 ≤ ms + 1000 * s) (h1 : ms + 1000 * s ≤ tMax) :
    ∃ m : Int, ∃ e : Nat, m.natAbs ≤ 2 ^ 53 ∧ (addSecD (toDouble ms) s).1 = m * 2 ^ e := by
  have := AslProofs.DateArith.addSec_is_binary64 ms s (by unfold t0 tMax at *; omega) (by unfold t0 tMax at *; omega)
  simpa using this

/-- `operator<` on stored dates is the order of the instants (so `==`-free comparisons never confuse two different
milliseconds, and never order equal ones) -/
theorem stored_order_is_instant_order (m1 m2 : Int) : ltD (toDouble m1) (toDouble m2) = decide (m1 < m2) :=
  AslProofs.DateArith.ltD_toDouble m1 m2

/-- `a - b` (seconds between two stored dates, one more rounding) is shown as exactly the difference of the instants, in
milliseconds, for any two instants of years 1..9999 -/
theorem difference_exact (m1 m2 : Int) (h1 : t0 ≤ m1 ∧ m1 ≤ tMax) (h2 : t0 ≤ m2 ∧ m2 ≤ tMax) :
    roundMsD (diffD (toDouble m1) (toDouble m2)) = m1 - m2 := by
  obtain ⟨a1, b1, c1⟩ := AslProofs.DateDbl.toDouble_close m1
  obtain ⟨a2, b2, c2⟩ := AslProofs.DateDbl.toDouble_close m2
  exact AslProofs.DateArith.diff_close _ _ m1 m2 _ _ c1 c2 a1 b1 a2 b2 (by unfold t0 tMax at *; omega)

example : roundMsD (diffD (toDouble 253402300799999) (toDouble (-62135596800000))) = 315537897599999 := by decide
example : t0 ≤ 951868799123 + 1000 * 86400 ∧ (951868799123 : Int) + 1000 * 86400 ≤ tMax := by decide
example : addSecD (toDouble 951868799123) 86400 = (7985578999004791, 23) ∧ roundMsD (7985578999004791, 23) = 951955199123 := by decide
example : ltD (toDouble 1001) (toDouble 1002) = true ∧ ltD (toDouble 1002) (toDouble 1002) = false := by decide

end C19
