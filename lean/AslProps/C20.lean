import AslProofs.Matrix
import AslProofs.Solve
import AslProofs.Euler
import AslProofs.AxisAngle
import AslProofs.RealTrig
import AslProofs.RotSO3
import AslProofs.EulerBand
import Mathlib.LinearAlgebra.Matrix.Nondegenerate
import Mathlib.LinearAlgebra.CrossProduct
import Gen.Vec3Gen
/-!
# C20 — Matrix inverse, determinant, solve and rotation conversions are correct

Property theorems only (helper lemmas: `AslProofs/Matrix.lean`, `AslProofs/Solve.lean`).

* The closed forms (`Gen.M4.*`, `Gen.M3.*`, `Gen.Q.*`) are **regenerated from the C++ headers on every run**;
  the statements below compare them with independent specifications: Mathlib's `Matrix.det`, matrix product,
  `⁻¹`, transpose, `Matrix.mulVec`, and Mathlib's quaternion algebra `ℍ[K]` (Hamilton product, `star`, `normSq`).
  A changed sign or index in the source breaks the corresponding theorem.
* `solve_` is the hand-written transcription `AslModel.Solve` (tied to the code by the correspondence check);
  its theorems hold over every field and for **every pivot-selection function** that returns a non-zero
  candidate whenever one exists.
* All theorems are over an arbitrary field `K` (`AslProofs.Matrix.fld K` instantiates the law-free scalar
  interface the models are written against); nothing here is about IEEE floating point.
-/
namespace C20
open AslModel AslModel.Solve AslProofs.RotSO3 AslProofs.Matrix AslProofs.Solve AslProofs.Euler AslProofs.AxisAngle AslProofs.RealTrig

variable {K : Type} [Field K]

/-! ## Matrix4: determinant, product, inverse -/

set_option maxHeartbeats 1000000 in
/-- `Matrix4_::det()` is the determinant -/
theorem det4_eq_mathlib (a : Nat → Nat → K) : Gen.M4.det (fld K) a = (toM4 a).det := by
  rw [Matrix.det_succ_row_zero]
  simp [Fin.sum_univ_succ, Matrix.det_fin_three, Gen.M4.det, toM4, Fin.succAbove]
  ring

/-- `Matrix4_::operator*` is the matrix product -/
theorem mul4_eq_mathlib (a b : Nat → Nat → K) : toM4 (Gen.M4.mul (fld K) a b) = toM4 a * toM4 b := by
  ext i j
  simp [toM4, Gen.M4.mul, Gen.M4.mulEntry, Matrix.mul_apply, Fin.sum_univ_succ]
  ring

/-- `det(A·B) = det(A)·det(B)` for the code's own product and determinant -/
theorem det4_mul (a b : Nat → Nat → K) :
    Gen.M4.det (fld K) (Gen.M4.mul (fld K) a b) = Gen.M4.det (fld K) a * Gen.M4.det (fld K) b := by
  rw [det4_eq_mathlib, det4_eq_mathlib, det4_eq_mathlib, mul4_eq_mathlib, Matrix.det_mul]

/-- the 16 cofactor expressions of `inverse()` form the adjugate: `M · adj = det(M) · I` and `adj · M = det(M) · I` -/
theorem inv4_adj (a : Nat → Nat → K) :
    toM4 a * toM4 (Gen.M4.invAdj (fld K) a) = Gen.M4.det (fld K) a • (1 : Matrix (Fin 4) (Fin 4) K) ∧
    toM4 (Gen.M4.invAdj (fld K) a) * toM4 a = Gen.M4.det (fld K) a • (1 : Matrix (Fin 4) (Fin 4) K) :=
  ⟨adj4_right a, adj4_left a⟩

/-- `M · inverse(M) = I` and `inverse(M) · M = I` for every non-singular `M` -/
theorem inverse4_correct (a : Nat → Nat → K) (h : (toM4 a).det ≠ 0) :
    toM4 a * toM4 (Gen.M4.inverse (fld K) a) = 1 ∧ toM4 (Gen.M4.inverse (fld K) a) * toM4 a = 1 := by
  rw [← det4_eq_mathlib] at h
  constructor
  · rw [inverse4_eq, Matrix.mul_smul, adj4_right, smul_smul]; simp [h]
  · rw [inverse4_eq, Matrix.smul_mul, adj4_left, smul_smul]; simp [h]

/-- with the code's own product: `M * M.inverse()` is the identity matrix -/
theorem inverse4_mul_self (a : Nat → Nat → K) (h : Gen.M4.det (fld K) a ≠ 0) :
    toM4 (Gen.M4.mul (fld K) a (Gen.M4.inverse (fld K) a)) = 1 := by
  rw [mul4_eq_mathlib]
  exact (inverse4_correct a (by rwa [← det4_eq_mathlib])).1

/-- `inverse()` is Mathlib's matrix inverse -/
theorem inverse4_eq_mathlib (a : Nat → Nat → K) (h : (toM4 a).det ≠ 0) :
    toM4 (Gen.M4.inverse (fld K) a) = (toM4 a)⁻¹ :=
  (Matrix.inv_eq_right_inv (inverse4_correct a h).1).symm

/-- `transposed()` is the transpose -/
theorem transposed4_eq_mathlib (a : Nat → Nat → K) : toM4 (Gen.M4.transposed (fld K) a) = (toM4 a).transpose := by
  ext i j
  fin_cases i <;> fin_cases j <;> simp [toM4, Gen.M4.transposed, ofRows]

/-- `operator*(Vec4)` is the matrix–vector product -/
theorem mulVec4_eq_mathlib (a : Nat → Nat → K) (p : V4 K) :
    toV4 (Gen.M4.mulVec4 (fld K) a p) = (toM4 a).mulVec (toV4 p) := by
  ext i
  fin_cases i <;> simp [toV4, toM4, Gen.M4.mulVec4, Matrix.mulVec, dotProduct, Fin.sum_univ_succ] <;> ring

/-- `operator*(Vec3)` applies the matrix to the homogeneous point `(x, y, z, 1)`; `operator%` to the direction `(x, y, z, 0)` -/
theorem mulVec3_affine (a : Nat → Nat → K) (p : V3 K) :
    (∀ i : Fin 3, toV3 (Gen.M4.mulVec3 (fld K) a p) i = (toM4 a).mulVec ![p.x, p.y, p.z, 1] i.castSucc) ∧
    (∀ i : Fin 3, toV3 (Gen.M4.modVec3 (fld K) a p) i = (toM4 a).mulVec ![p.x, p.y, p.z, 0] i.castSucc) := by
  constructor <;> intro i <;>
    fin_cases i <;> simp [toV3, toM4, Gen.M4.mulVec3, Gen.M4.modVec3, Matrix.mulVec, dotProduct, Fin.sum_univ_succ] <;> ring

/-- `(A·B).transposed() = B.transposed() · A.transposed()` for the code's own product and transpose -/
theorem transposed4_mul (a b : Nat → Nat → K) :
    toM4 (Gen.M4.transposed (fld K) (Gen.M4.mul (fld K) a b)) =
      toM4 (Gen.M4.mul (fld K) (Gen.M4.transposed (fld K) b) (Gen.M4.transposed (fld K) a)) := by
  rw [transposed4_eq_mathlib, mul4_eq_mathlib, mul4_eq_mathlib, transposed4_eq_mathlib, transposed4_eq_mathlib,
    Matrix.transpose_mul]

/-- `A.transposed().inverse() = A.inverse().transposed()` for every non-singular `A` -/
theorem inverse4_transposed (a : Nat → Nat → K) (h : (toM4 a).det ≠ 0) :
    toM4 (Gen.M4.inverse (fld K) (Gen.M4.transposed (fld K) a)) =
      toM4 (Gen.M4.transposed (fld K) (Gen.M4.inverse (fld K) a)) := by
  have h' : (toM4 (Gen.M4.transposed (fld K) a)).det ≠ 0 := by
    rw [transposed4_eq_mathlib, Matrix.det_transpose]; exact h
  rw [inverse4_eq_mathlib _ h', transposed4_eq_mathlib, transposed4_eq_mathlib, inverse4_eq_mathlib a h,
    Matrix.transpose_nonsing_inv]

/-- `(A·B).inverse() = B.inverse() · A.inverse()` for non-singular `A`, `B` -/
theorem inverse4_mul (a b : Nat → Nat → K) (ha : (toM4 a).det ≠ 0) (hb : (toM4 b).det ≠ 0) :
    toM4 (Gen.M4.inverse (fld K) (Gen.M4.mul (fld K) a b)) =
      toM4 (Gen.M4.mul (fld K) (Gen.M4.inverse (fld K) b) (Gen.M4.inverse (fld K) a)) := by
  have hab : (toM4 (Gen.M4.mul (fld K) a b)).det ≠ 0 := by
    rw [mul4_eq_mathlib, Matrix.det_mul]; exact mul_ne_zero ha hb
  rw [inverse4_eq_mathlib _ hab, mul4_eq_mathlib, mul4_eq_mathlib, inverse4_eq_mathlib a ha, inverse4_eq_mathlib b hb,
    Matrix.mul_inv_rev]

/-- points versus vectors: the difference of two transformed points (`operator*`, homogeneous coordinate 1) is the
transformed difference vector (`operator%`, homogeneous coordinate 0) — the translation column cancels; and `operator%`
is additive -/
theorem point_vector_transform (a : Nat → Nat → K) (p q : V3 K) :
    Gen.V3.sub (fld K) (Gen.M4.mulVec3 (fld K) a p) (Gen.M4.mulVec3 (fld K) a q) =
      Gen.M4.modVec3 (fld K) a (Gen.V3.sub (fld K) p q) ∧
    Gen.M4.modVec3 (fld K) a (Gen.V3.add (fld K) p q) =
      Gen.V3.add (fld K) (Gen.M4.modVec3 (fld K) a p) (Gen.M4.modVec3 (fld K) a q) := by
  constructor <;> simp [Gen.V3.sub, Gen.V3.add, Gen.M4.mulVec3, Gen.M4.modVec3] <;> refine ⟨?_, ?_, ?_⟩ <;> ring

/-! ## Matrix3 -/

/-- `Matrix3_::det()` is the determinant -/
theorem det3_eq_mathlib (a : Nat → Nat → K) : Gen.M3.det (fld K) a = (toM3 a).det := by
  rw [Matrix.det_fin_three]
  simp [Gen.M3.det, toM3]
  ring

/-- `Matrix3_::operator*` is the matrix product (for *all* 3×3 matrices, not only affine ones) -/
theorem mul3_eq_mathlib (a b : Nat → Nat → K) : toM3 (Gen.M3.mul (fld K) a b) = toM3 a * toM3 b := by
  ext i j
  simp [toM3, Gen.M3.mul, Gen.M3.mulEntry, Matrix.mul_apply, Fin.sum_univ_succ]
  ring

theorem det3_mul (a b : Nat → Nat → K) :
    Gen.M3.det (fld K) (Gen.M3.mul (fld K) a b) = Gen.M3.det (fld K) a * Gen.M3.det (fld K) b := by
  rw [det3_eq_mathlib, det3_eq_mathlib, det3_eq_mathlib, mul3_eq_mathlib, Matrix.det_mul]

theorem inv3_adj (a : Nat → Nat → K) :
    toM3 a * toM3 (Gen.M3.invAdj (fld K) a) = Gen.M3.det (fld K) a • (1 : Matrix (Fin 3) (Fin 3) K) ∧
    toM3 (Gen.M3.invAdj (fld K) a) * toM3 a = Gen.M3.det (fld K) a • (1 : Matrix (Fin 3) (Fin 3) K) :=
  ⟨adj3_right a, adj3_left a⟩

theorem inverse3_correct (a : Nat → Nat → K) (h : (toM3 a).det ≠ 0) :
    toM3 a * toM3 (Gen.M3.inverse (fld K) a) = 1 ∧ toM3 (Gen.M3.inverse (fld K) a) * toM3 a = 1 := by
  rw [← det3_eq_mathlib] at h
  constructor
  · rw [inverse3_eq, Matrix.mul_smul, adj3_right, smul_smul]; simp [h]
  · rw [inverse3_eq, Matrix.smul_mul, adj3_left, smul_smul]; simp [h]

theorem inverse3_mul_self (a : Nat → Nat → K) (h : Gen.M3.det (fld K) a ≠ 0) :
    toM3 (Gen.M3.mul (fld K) a (Gen.M3.inverse (fld K) a)) = 1 := by
  rw [mul3_eq_mathlib]
  exact (inverse3_correct a (by rwa [← det3_eq_mathlib])).1

theorem inverse3_eq_mathlib (a : Nat → Nat → K) (h : (toM3 a).det ≠ 0) :
    toM3 (Gen.M3.inverse (fld K) a) = (toM3 a)⁻¹ :=
  (Matrix.inv_eq_right_inv (inverse3_correct a h).1).symm

theorem transposed3_eq_mathlib (a : Nat → Nat → K) : toM3 (Gen.M3.transposed (fld K) a) = (toM3 a).transpose := by
  ext i j
  fin_cases i <;> fin_cases j <;> simp [toM3, Gen.M3.transposed, ofRows]

theorem mulVec3_eq_mathlib (a : Nat → Nat → K) (p : V3 K) :
    toV3 (Gen.M3.mulVec3 (fld K) a p) = (toM3 a).mulVec (toV3 p) := by
  ext i
  fin_cases i <;> simp [toV3, toM3, Gen.M3.mulVec3, Matrix.mulVec, dotProduct, Fin.sum_univ_succ] <;> ring

theorem transposed3_mul (a b : Nat → Nat → K) :
    toM3 (Gen.M3.transposed (fld K) (Gen.M3.mul (fld K) a b)) =
      toM3 (Gen.M3.mul (fld K) (Gen.M3.transposed (fld K) b) (Gen.M3.transposed (fld K) a)) := by
  rw [transposed3_eq_mathlib, mul3_eq_mathlib, mul3_eq_mathlib, transposed3_eq_mathlib, transposed3_eq_mathlib,
    Matrix.transpose_mul]

theorem inverse3_transposed (a : Nat → Nat → K) (h : (toM3 a).det ≠ 0) :
    toM3 (Gen.M3.inverse (fld K) (Gen.M3.transposed (fld K) a)) =
      toM3 (Gen.M3.transposed (fld K) (Gen.M3.inverse (fld K) a)) := by
  have h' : (toM3 (Gen.M3.transposed (fld K) a)).det ≠ 0 := by
    rw [transposed3_eq_mathlib, Matrix.det_transpose]; exact h
  rw [inverse3_eq_mathlib _ h', transposed3_eq_mathlib, transposed3_eq_mathlib, inverse3_eq_mathlib a h,
    Matrix.transpose_nonsing_inv]

theorem inverse3_mul (a b : Nat → Nat → K) (ha : (toM3 a).det ≠ 0) (hb : (toM3 b).det ≠ 0) :
    toM3 (Gen.M3.inverse (fld K) (Gen.M3.mul (fld K) a b)) =
      toM3 (Gen.M3.mul (fld K) (Gen.M3.inverse (fld K) b) (Gen.M3.inverse (fld K) a)) := by
  have hab : (toM3 (Gen.M3.mul (fld K) a b)).det ≠ 0 := by
    rw [mul3_eq_mathlib, Matrix.det_mul]; exact mul_ne_zero ha hb
  rw [inverse3_eq_mathlib _ hab, mul3_eq_mathlib, mul3_eq_mathlib, inverse3_eq_mathlib a ha, inverse3_eq_mathlib b hb,
    Matrix.mul_inv_rev]

/-! ## Vec3 -/

/-- `Vec3_::operator^` is the cross product and `operator*` the dot product -/
theorem vec3_cross_dot_eq_mathlib (a b : V3 K) :
    toV3 (Gen.V3.cross (fld K) a b) = crossProduct (toV3 a) (toV3 b) ∧
    Gen.V3.dot (fld K) a b = dotProduct (toV3 a) (toV3 b) := by
  constructor
  · rw [cross_apply]
    ext i
    fin_cases i <;> simp [toV3, Gen.V3.cross]
  · simp [toV3, Gen.V3.dot, dotProduct, Fin.sum_univ_succ]
    ring

/-- the cross product is orthogonal to both factors, and `|a×b|² = |a|²|b|² − (a·b)²` (Lagrange) -/
theorem vec3_cross_orthogonal (a b : V3 K) :
    Gen.V3.dot (fld K) (Gen.V3.cross (fld K) a b) a = 0 ∧ Gen.V3.dot (fld K) (Gen.V3.cross (fld K) a b) b = 0 ∧
    Gen.V3.length2 (fld K) (Gen.V3.cross (fld K) a b) =
      Gen.V3.length2 (fld K) a * Gen.V3.length2 (fld K) b - Gen.V3.dot (fld K) a b * Gen.V3.dot (fld K) a b := by
  refine ⟨?_, ?_, ?_⟩ <;> simp [Gen.V3.dot, Gen.V3.cross, Gen.V3.length2] <;> ring

/-! ## Quaternions against Mathlib's `ℍ[K]` -/

/-- `operator^` is Hamilton's product -/
theorem quat_mul_hamilton (p q : Quat K) : toH (Gen.Q.mul (fld K) p q) = toH p * toH q := by
  ext <;> simp [Gen.Q.mul]

/-- `conj()` is the quaternion conjugate -/
theorem quat_conj_star (p : Quat K) : toH (Gen.Q.conj (fld K) p) = star (toH p) := by
  ext <;> simp [Gen.Q.conj]

/-- `length2()` is the quaternion norm squared -/
theorem quat_length2_normSq (p : Quat K) : Gen.Q.length2 (fld K) p = Quaternion.normSq (toH p) := by
  rw [Quaternion.normSq_def']
  simp [Gen.Q.length2]
  ring

/-- `inverse()` is a two-sided inverse for Hamilton's product whenever `length2() ≠ 0` -/
theorem quat_inverse_correct (p : Quat K) (h : Gen.Q.length2 (fld K) p ≠ 0) :
    toH p * toH (Gen.Q.inverse (fld K) p) = 1 ∧ toH (Gen.Q.inverse (fld K) p) * toH p = 1 := by
  have h' : p.w ^ 2 + p.x ^ 2 + p.y ^ 2 + p.z ^ 2 ≠ 0 := by
    intro e; apply h; simp [Gen.Q.length2]; linear_combination e
  have hn := mul_inv_cancel₀ h'
  constructor <;> ext <;>
    simp [Gen.Q.inverse, Gen.Q.smul, Gen.Q.conj, Gen.Q.length2, Quaternion.re_one, Quaternion.imI_one,
      Quaternion.imJ_one, Quaternion.imK_one] <;>
    first | ring1 | linear_combination hn

/-- the matrix of a unit quaternion acts on vectors as the sandwich product `q v q*` (the definition of the
rotation a unit quaternion represents) -/
theorem quat_matrix_rotates (p : Quat K) (hp : UnitQuat p) (v : V3 K) :
    toH p * toH ⟨0, v.x, v.y, v.z⟩ * star (toH p) =
      (let u := Gen.M4.modVec3 (fld K) (Gen.Q.matrix (fld K) p) v; toH ⟨0, u.x, u.y, u.z⟩) := by
  unfold UnitQuat at hp
  ext <;> simp [Gen.Q.matrix, Gen.M4.modVec3, ofRows]
  · ring
  · linear_combination (v.x) * hp
  · linear_combination (v.y) * hp
  · linear_combination (v.z) * hp

/-- the matrix of a unit quaternion is a rotation matrix: `R·Rᵀ = I` and `det R = 1` -/
theorem quat_matrix_orthogonal (p : Quat K) (hp : UnitQuat p) :
    toM4 (Gen.Q.matrix (fld K) p) * (toM4 (Gen.Q.matrix (fld K) p)).transpose = 1 ∧
    (toM4 (Gen.Q.matrix (fld K) p)).det = 1 := by
  rw [qmat_eq_Rh p hp]
  unfold UnitQuat at hp
  have h2 : (p.w * p.w + p.x * p.x + p.y * p.y + p.z * p.z) ^ 2 = 1 := by rw [hp]; ring
  have h4 : (p.w * p.w + p.x * p.x + p.y * p.y + p.z * p.z) ^ 4 = 1 := by rw [hp]; ring
  constructor
  · ext i j
    fin_cases i <;> fin_cases j <;> simp [Rh, Matrix.mul_apply, Fin.sum_univ_succ, Matrix.transpose_apply] <;>
      first | ring1 | linear_combination h2
  · rw [Matrix.det_succ_row_zero]
    simp [Fin.sum_univ_succ, Matrix.det_fin_three, Rh, Fin.succAbove]
    linear_combination h4

/-- composition: the matrix of `p ^ q` is the product of the matrices (unit quaternions) -/
theorem quat_mul_hom (p q : Quat K) (hp : UnitQuat p) (hq : UnitQuat q) :
    toM4 (Gen.Q.matrix (fld K) (Gen.Q.mul (fld K) p q)) =
      toM4 (Gen.Q.matrix (fld K) p) * toM4 (Gen.Q.matrix (fld K) q) := by
  rw [qmat_eq_Rh _ (unit_mul p q hp hq), qmat_eq_Rh p hp, qmat_eq_Rh q hq, Rh_mul]

/-- `q` and `-q` have the same matrix -/
theorem quat_neg_same_matrix (p : Quat K) : Gen.Q.matrix (fld K) (Gen.Q.neg (fld K) p) = Gen.Q.matrix (fld K) p := by
  simp [Gen.Q.matrix, Gen.Q.neg]

/-! ## `Matrix4_::rotation()` (matrix → quaternion) inverts `Quaternion_::matrix()` -/

/-- whichever of the four branches computes the result: if the root it takes is a non-zero square root of its
radicand, the quaternion returned for the matrix of a unit quaternion `q` is `q` or `-q` (the same rotation).
Holds for any `sqrt` and any comparison used to select the branch. -/
theorem rotation_branch_sound (q : Quat K) (hq : UnitQuat q) (h2 : (2 : K) ≠ 0) (r : K) (h0 : r ≠ 0) :
    let a := Gen.Q.matrix (fld K) q
    (r * r = Gen.M4.rotRadicand0 (fld K) a → Gen.M4.rotBranch0 (fld K) a r = q ∨ Gen.M4.rotBranch0 (fld K) a r = Gen.Q.neg (fld K) q) ∧
    (r * r = Gen.M4.rotRadicand1 (fld K) a → Gen.M4.rotBranch1 (fld K) a r = q ∨ Gen.M4.rotBranch1 (fld K) a r = Gen.Q.neg (fld K) q) ∧
    (r * r = Gen.M4.rotRadicand2 (fld K) a → Gen.M4.rotBranch2 (fld K) a r = q ∨ Gen.M4.rotBranch2 (fld K) a r = Gen.Q.neg (fld K) q) ∧
    (r * r = Gen.M4.rotRadicand3 (fld K) a → Gen.M4.rotBranch3 (fld K) a r = q ∨ Gen.M4.rotBranch3 (fld K) a r = Gen.Q.neg (fld K) q) :=
  ⟨fun hr => rot0 q hq h2 r hr h0, fun hr => rot1 q h2 r hr h0, fun hr => rot2 q h2 r hr h0, fun hr => rot3 q h2 r hr h0⟩

/-- `rotation()` always returns one of the four branch results, with `r = sqrt(radicand)` of that branch -/
theorem rotation_is_branch (C : Cmp K) (a : Nat → Nat → K) :
    Gen.M4.rotation (fld K) C a = Gen.M4.rotBranch0 (fld K) a (C.sqrt (Gen.M4.rotRadicand0 (fld K) a)) ∨
    Gen.M4.rotation (fld K) C a = Gen.M4.rotBranch1 (fld K) a (C.sqrt (Gen.M4.rotRadicand1 (fld K) a)) ∨
    Gen.M4.rotation (fld K) C a = Gen.M4.rotBranch2 (fld K) a (C.sqrt (Gen.M4.rotRadicand2 (fld K) a)) ∨
    Gen.M4.rotation (fld K) C a = Gen.M4.rotBranch3 (fld K) a (C.sqrt (Gen.M4.rotRadicand3 (fld K) a)) := by
  unfold Gen.M4.rotation
  split
  · exact Or.inl rfl
  · split
    · exact Or.inr (Or.inl rfl)
    · split
      · exact Or.inr (Or.inr (Or.inl rfl))
      · exact Or.inr (Or.inr (Or.inr rfl))

/-- over an ordered field (e.g. the reals) with `<` as comparison and a `sqrt` that is a square root on non-negative
arguments, `rotation()` applied to the matrix of any unit quaternion `q` returns `q` or `-q`: the branch conditions
guarantee that the selected radicand is `≥ 1`, so no division by a zero root can occur -/
theorem rotation_correct_ordered {R : Type} [Field R] [LinearOrder R] [IsStrictOrderedRing R]
    (C : Cmp R) (hlt : ∀ a b, C.lt a b = decide (a < b)) (hsqrt : ∀ z, 0 ≤ z → C.sqrt z * C.sqrt z = z)
    (q : Quat R) (hq : UnitQuat q) :
    Gen.M4.rotation (fld R) C (Gen.Q.matrix (fld R) q) = q ∨
    Gen.M4.rotation (fld R) C (Gen.Q.matrix (fld R) q) = Gen.Q.neg (fld R) q := by
  have h2 : (2 : R) ≠ 0 := two_ne_zero
  have key : ∀ z : R, 1 ≤ z → C.sqrt z * C.sqrt z = z ∧ C.sqrt z ≠ 0 := by
    intro z hz
    have h := hsqrt z (by linarith)
    refine ⟨h, ?_⟩
    intro e
    rw [e] at h
    linarith
  rcases rotation_selects C hlt q hq with ⟨e, h⟩ | ⟨e, h⟩ | ⟨e, h⟩ | ⟨e, h⟩ <;> rw [e]
  · exact rot0 q hq h2 _ (key _ h).1 (key _ h).2
  · exact rot1 q h2 _ (key _ h).1 (key _ h).2
  · exact rot2 q h2 _ (key _ h).1 (key _ h).2
  · exact rot3 q h2 _ (key _ h).1 (key _ h).2

/-! ## `solve`, `solve_`, `Matrix_::inverse` (Gaussian elimination with row exchanges through a permutation vector)

`pick` is the pivot-selection function (any function with `PickOK pick`: it returns a non-zero candidate of the
current column whenever one exists); the code's own search loop is one such function (`pivot_search_admissible`). -/

/-- an `r × c` model matrix (entry function) as a Mathlib matrix -/
def toMat (r c : Nat) (f : Nat → Nat → K) : Matrix (Fin r) (Fin c) K := Matrix.of fun i j => f i.val j.val

/-- `det ≠ 0` gives the kernel formulation of non-singularity used by the elimination proof -/
theorem ns_of_det (n : Nat) (A : Nat → Nat → K) (h : (toMat n n A).det ≠ 0) : NS n A := by
  intro y hy c hc
  have hv : (toMat n n A).mulVec (fun i : Fin n => y i.val) = 0 := by
    funext r
    have := hy r.val r.isLt
    simp only [Matrix.mulVec, dotProduct, toMat, Matrix.of_apply, Pi.zero_apply]
    rw [← this]
    unfold dot
    rw [Finset.sum_range]
  have := Matrix.eq_zero_of_mulVec_eq_zero h hv
  exact congrFun this ⟨c, hc⟩

/-- the transcribed pivot search (`max < fabs(A(_[i],k))` loop, `ipivot` starting at 0) is an admissible pivot
selection for every `fabs`/`<` with `0 < |x| ↔ x ≠ 0` and `|y| < |x| → x ≠ 0` -/
theorem pivot_search_admissible (C : Cmp K) (hC : CmpOK C) : PickOK (pivotSearch (fld K) C) :=
  pivotSearch_ok C hC

/-- **solve is exact**: for every non-singular `n × n` matrix `A`, every right-hand side `b` (any number of
columns) and every admissible pivot selection, `A · solve(A, b) = b` -/
theorem solve_exact (pick : (Nat → K) → Nat → Nat → Nat) (hpick : PickOK pick) (n m : Nat) (A b : Nat → Nat → K)
    (hA : (toMat n n A).det ≠ 0) :
    toMat n n A * toMat n m (solve (fld K) pick ⟨n, n, A⟩ ⟨n, m, b⟩).e = toMat n m b := by
  have e : solve (fld K) pick ⟨n, n, A⟩ ⟨n, m, b⟩ = solveSq (fld K) pick ⟨n, n, A⟩ ⟨n, m, b⟩ := by
    simp [solve, solve_]
  rw [e]
  ext r j
  have := solveSq_spec (m := m) (b0 := b) (ns_of_det n A hA) hpick j.val j.isLt r.val r.isLt
  simp only [Matrix.mul_apply, toMat, Matrix.of_apply]
  rw [← this]
  unfold dot
  rw [Finset.sum_range]

/-- the result does not depend on the pivot choice: any two admissible selections give the same solution -/
theorem solve_pivot_independent (pick pick' : (Nat → K) → Nat → Nat → Nat) (h : PickOK pick) (h' : PickOK pick')
    (n m : Nat) (A b : Nat → Nat → K) (hA : (toMat n n A).det ≠ 0) :
    toMat n m (solve (fld K) pick ⟨n, n, A⟩ ⟨n, m, b⟩).e = toMat n m (solve (fld K) pick' ⟨n, n, A⟩ ⟨n, m, b⟩).e := by
  have e1 := solve_exact pick h n m A b hA
  have e2 := solve_exact pick' h' n m A b hA
  have hu : IsUnit (toMat n n A).det := isUnit_iff_ne_zero.mpr hA
  calc toMat n m (solve (fld K) pick ⟨n, n, A⟩ ⟨n, m, b⟩).e
      = (toMat n n A)⁻¹ * (toMat n n A * toMat n m (solve (fld K) pick ⟨n, n, A⟩ ⟨n, m, b⟩).e) := by
        rw [← Matrix.mul_assoc, Matrix.nonsing_inv_mul _ hu, Matrix.one_mul]
    _ = (toMat n n A)⁻¹ * (toMat n n A * toMat n m (solve (fld K) pick' ⟨n, n, A⟩ ⟨n, m, b⟩).e) := by rw [e1, e2]
    _ = _ := by rw [← Matrix.mul_assoc, Matrix.nonsing_inv_mul _ hu, Matrix.one_mul]

/-- `Matrix_::transposed(const Matrix_& b)` is `aᵀ·b` -/
theorem tmul_eq_mathlib (r c m : Nat) (A B : Nat → Nat → K) :
    toMat c m (tmul (fld K) ⟨r, c, A⟩ ⟨r, m, B⟩).e = (toMat r c A).transpose * toMat r m B := by
  ext i j
  simp [tmul, look_tab, toMat, Matrix.mul_apply, sumTo_eq, Finset.sum_range]

/-- `Matrix_::operator*` is the matrix product -/
theorem mul_eq_mathlib (r c m : Nat) (A B : Nat → Nat → K) :
    toMat r m (mul (fld K) ⟨r, c, A⟩ ⟨c, m, B⟩).e = toMat r c A * toMat c m B := by
  ext i j
  simp [mul, look_tab, toMat, Matrix.mul_apply, sumTo_eq, Finset.sum_range]

/-- **least squares**: for a non-square `r × c` system whose normal matrix `AᵀA` is non-singular (full column rank),
`solve(A, b)` satisfies the normal equations `AᵀA x = Aᵀb`, whichever pivots are chosen -/
theorem lstsq_normal (pick : (Nat → K) → Nat → Nat → Nat) (hpick : PickOK pick) (r c m : Nat) (hrc : r ≠ c)
    (A b : Nat → Nat → K) (hA : ((toMat r c A).transpose * toMat r c A).det ≠ 0) :
    (toMat r c A).transpose * toMat r c A * toMat c m (solve (fld K) pick ⟨r, c, A⟩ ⟨r, m, b⟩).e =
      (toMat r c A).transpose * toMat r m b := by
  have e : solve (fld K) pick ⟨r, c, A⟩ ⟨r, m, b⟩ =
      solve (fld K) pick ⟨c, c, (tmul (fld K) ⟨r, c, A⟩ ⟨r, c, A⟩).e⟩ ⟨c, m, (tmul (fld K) ⟨r, c, A⟩ ⟨r, m, b⟩).e⟩ := by
    simp [solve, solve_, hrc, tmul]
  rw [e, ← tmul_eq_mathlib r c c A A, ← tmul_eq_mathlib r c m A b]
  apply solve_exact pick hpick
  rw [tmul_eq_mathlib]; exact hA

/-- `Matrix_::inverse()` (= `solve(A, identity)`) is a right inverse, hence Mathlib's inverse, of every non-singular matrix -/
theorem inverse_exact (pick : (Nat → K) → Nat → Nat → Nat) (hpick : PickOK pick) (n : Nat) (A : Nat → Nat → K)
    (hA : (toMat n n A).det ≠ 0) :
    toMat n n A * toMat n n (inverse (fld K) pick ⟨n, n, A⟩).e = 1 ∧
    toMat n n (inverse (fld K) pick ⟨n, n, A⟩).e = (toMat n n A)⁻¹ := by
  have h1 : toMat n n A * toMat n n (inverse (fld K) pick ⟨n, n, A⟩).e = 1 := by
    have := solve_exact pick hpick n n A (identity (fld K) n).e hA
    simp only [inverse, identity] at this ⊢
    rw [this]
    ext i j
    simp [toMat, Matrix.one_apply, Fin.ext_iff]
  exact ⟨h1, (Matrix.inv_eq_right_inv h1).symm⟩

/-! ## Euler angles: all twelve axis orders, moving and fixed frames

`rotateEs r a0 a1 a2 fixed` is `Matrix4::rotateE(r, "ABC")` (`fixed = false`) resp. `rotateE(r, "ABC*")`, and
`eulerAngless` the corresponding `eulerAngles("ABC")` / `eulerAngles("ABC*")`, with `a0 a1 a2` the indices of the axis
letters.  The trigonometric functions are an arbitrary `Trig` satisfying `TrigOK` (an `example` below shows that the
real functions do); arithmetic is exact.  `lim ≤ 1` is the gimbal-lock threshold of the code. -/

/-- reversing the components twice is the identity -/
theorem zyx_zyx {R : Type} (v : V3 R) : Gen.M4.zyx (Gen.M4.zyx v) = v := rfl

section euler
variable {R : Type} [Field R] [LinearOrder R] [IsStrictOrderedRing R]

/-- **away from gimbal lock** (the general branch is taken: `|cos β| > lim` for three different axes, `|sin β| > lim`
for first = third axis): for every triple of angles `r` (any values, any of the 12 axis orders, moving or fixed frame),
`rotateE(eulerAngles(rotateE(r)))` is the same rotation matrix as `rotateE(r)` -/
theorem euler_roundtrip {T : Trig R} (hT : TrigOK T) {C : Cmp R} (hC : CmpStd C) (lim : R) (hlim : 0 ≤ lim) (fixed : Bool) (r : V3 R)
    (a0 a1 a2 : Nat) (h0 : a0 < 3) (h1 : a1 < 3) (h2 : a2 < 3) (h01 : a0 ≠ a1) (h12 : a1 ≠ a2)
    (hnd : if a0 = a2 then lim < |T.sin r.y| else lim < |T.cos r.y|) :
    toM4 (Gen.M4.rotateEs (fld R) T
      (Gen.M4.eulerAngless (fld R) C T lim (Gen.M4.rotateEs (fld R) T r a0 a1 a2 fixed) a0 a1 a2 fixed) a0 a1 a2 fixed) =
    toM4 (Gen.M4.rotateEs (fld R) T r a0 a1 a2 fixed) := by
  cases fixed
  · simp only [Gen.M4.rotateEs, Gen.M4.eulerAngless, Bool.false_eq_true, if_false]
    by_cases e : a0 = a2
    · subst e
      rw [if_pos rfl] at hnd
      exact euler_pe_roundtrip hT hC lim hlim r a0 a1 h0 h1 h01 hnd
    · rw [if_neg e] at hnd
      exact euler_tb_roundtrip hT hC lim hlim r a0 a1 a2 h0 h1 h2 h01 h12 e hnd
  · simp only [Gen.M4.rotateEs, Gen.M4.eulerAngless, if_true, zyx_zyx]
    by_cases e : a0 = a2
    · subst e
      rw [if_pos rfl] at hnd
      exact euler_pe_roundtrip hT hC lim hlim (Gen.M4.zyx r) a0 a1 h0 h1 h01 hnd
    · rw [if_neg e] at hnd
      exact euler_tb_roundtrip hT hC lim hlim (Gen.M4.zyx r) a2 a1 a0 h2 h1 h0 (Ne.symm h12) (Ne.symm h01) (Ne.symm e) hnd

/-- **exactly on the gimbal lock** (`cos β = 0` for three different axes, `sin β = 0` for first = third axis): the
degenerate branch reproduces the rotation as well -/
theorem euler_roundtrip_locked {T : Trig R} (hT : TrigOK T) {C : Cmp R} (hC : CmpStd C) (lim : R) (hlim : 0 ≤ lim) (fixed : Bool) (r : V3 R)
    (a0 a1 a2 : Nat) (h0 : a0 < 3) (h1 : a1 < 3) (h2 : a2 < 3) (h01 : a0 ≠ a1) (h12 : a1 ≠ a2)
    (hlock : if a0 = a2 then T.sin r.y = 0 else T.cos r.y = 0) :
    toM4 (Gen.M4.rotateEs (fld R) T
      (Gen.M4.eulerAngless (fld R) C T lim (Gen.M4.rotateEs (fld R) T r a0 a1 a2 fixed) a0 a1 a2 fixed) a0 a1 a2 fixed) =
    toM4 (Gen.M4.rotateEs (fld R) T r a0 a1 a2 fixed) := by
  cases fixed
  · simp only [Gen.M4.rotateEs, Gen.M4.eulerAngless, Bool.false_eq_true, if_false]
    by_cases e : a0 = a2
    · subst e
      rw [if_pos rfl] at hlock
      exact euler_pe_locked hT hC lim hlim r a0 a1 h0 h1 h01 hlock
    · rw [if_neg e] at hlock
      exact euler_tb_locked hT hC lim hlim r a0 a1 a2 h0 h1 h2 h01 h12 e hlock
  · simp only [Gen.M4.rotateEs, Gen.M4.eulerAngless, if_true, zyx_zyx]
    by_cases e : a0 = a2
    · subst e
      rw [if_pos rfl] at hlock
      exact euler_pe_locked hT hC lim hlim (Gen.M4.zyx r) a0 a1 h0 h1 h01 hlock
    · rw [if_neg e] at hlock
      exact euler_tb_locked hT hC lim hlim (Gen.M4.zyx r) a2 a1 a0 h2 h1 h0 (Ne.symm h12) (Ne.symm h01) (Ne.symm e) hlock

/-- what `eulerAngles` reads from a matrix `M = rotateE(r)` (three different axes): `-s·M(a0,a2) = sin β` and
`c² = M(a0,a0)² + M(a0,a1)² = cos² β` for the middle angle `atan2(sin β, c)`, and `s·M(a0,a1) = cos β sin γ`,
`M(a0,a0) = cos β cos γ` for the last angle.  (The first angle is read from `M · rotate(a2, -r0)`: lemma `tb_strip`.) -/
theorem euler_arguments (T : Trig R) (hu : ∀ x, T.cos x * T.cos x + T.sin x * T.sin x = 1) (r : V3 R)
    (a0 a1 a2 : Nat) (h0 : a0 < 3) (h1 : a1 < 3) (h2 : a2 < 3) (h01 : a0 ≠ a1) (h12 : a1 ≠ a2) (h02 : a0 ≠ a2) :
    (-(tbSign a0 a1 : R)) * Gen.M4.rotateE (fld R) T r a0 a1 a2 a0 a2 = T.sin r.y ∧
    Gen.M4.rotateE (fld R) T r a0 a1 a2 a0 a0 * Gen.M4.rotateE (fld R) T r a0 a1 a2 a0 a0 +
      Gen.M4.rotateE (fld R) T r a0 a1 a2 a0 a1 * Gen.M4.rotateE (fld R) T r a0 a1 a2 a0 a1 = T.cos r.y * T.cos r.y ∧
    tbSign a0 a1 * Gen.M4.rotateE (fld R) T r a0 a1 a2 a0 a1 = T.sin r.z * T.cos r.y ∧
    Gen.M4.rotateE (fld R) T r a0 a1 a2 a0 a0 = T.cos r.z * T.cos r.y := by
  obtain ⟨e1, -, -, e4, e5⟩ := tb_entries T r a0 a1 a2 h0 h1 h2 h01 h12 h02
  refine ⟨e1, ?_, e4, e5⟩
  have hs2 : (tbSign a0 a1 : R) * tbSign a0 a1 = 1 := by
    rcases tbSign_sq (R := R) a0 a1 with h | h <;> rw [h] <;> ring
  have huz := hu r.z
  set M := Gen.M4.rotateE (fld R) T r a0 a1 a2
  have e4' : M a0 a1 * M a0 a1 = (T.sin r.z * T.cos r.y) * (T.sin r.z * T.cos r.y) := by
    rw [← e4]; linear_combination (M a0 a1 * M a0 a1) * (-hs2)
  rw [e4', e5]; linear_combination (T.cos r.y * T.cos r.y) * huz

/-- **between the threshold and the exact lock** (`c ≤ lim`, where `c = |cos β|` for three different axes and `|sin β|` for
first = third axis; the source then sets the last extracted angle to 0 and uses the locked formulas): the rebuilt matrix
agrees with the original up to `2·lim` in every entry of the row of the first rotation axis and of the column of the last
one (5 of the 9 entries; the entry holding `sin β` resp. `cos β` is reproduced exactly, see `euler_tb_band`/`euler_pe_band`).
All 12 axis orders, moving and fixed frames, every angle triple. -/
theorem euler_nearlock_partial {T : Trig R} (hT : TrigOK T) {C : Cmp R} (hC : CmpStd C) (lim : R) (fixed : Bool) (r : V3 R)
    (a0 a1 a2 : Nat) (h0 : a0 < 3) (h1 : a1 < 3) (h2 : a2 < 3) (h01 : a0 ≠ a1) (h12 : a1 ≠ a2)
    (hband : if a0 = a2 then |T.sin r.y| ≤ lim else |T.cos r.y| ≤ lim) :
    ∀ i j, i < 3 → j < 3 → (i = (if fixed then a2 else a0) ∨ j = (if fixed then a0 else a2)) →
      |Gen.M4.rotateEs (fld R) T
          (Gen.M4.eulerAngless (fld R) C T lim (Gen.M4.rotateEs (fld R) T r a0 a1 a2 fixed) a0 a1 a2 fixed) a0 a1 a2 fixed i j -
        Gen.M4.rotateEs (fld R) T r a0 a1 a2 fixed i j| ≤ 2 * lim := by
  cases fixed
  · simp only [Gen.M4.rotateEs, Gen.M4.eulerAngless, Bool.false_eq_true, if_false]
    by_cases e : a0 = a2
    · subst e
      rw [if_pos rfl] at hband
      exact euler_pe_band_all hT hC lim r a0 a1 h0 h1 h01 hband _ rfl _ rfl _ rfl
    · rw [if_neg e] at hband
      exact euler_tb_band_all hT hC lim r a0 a1 a2 h0 h1 h2 h01 h12 e hband _ rfl _ rfl _ rfl
  · simp only [Gen.M4.rotateEs, Gen.M4.eulerAngless, if_true, zyx_zyx]
    by_cases e : a0 = a2
    · subst e
      rw [if_pos rfl] at hband
      exact euler_pe_band_all hT hC lim (Gen.M4.zyx r) a0 a1 h0 h1 h01 hband _ rfl _ rfl _ rfl
    · rw [if_neg e] at hband
      exact euler_tb_band_all hT hC lim (Gen.M4.zyx r) a2 a1 a0 h2 h1 h0 (Ne.symm h12) (Ne.symm h01) (Ne.symm e) hband _ rfl _ rfl _ rfl

/-- the full statement for the band (NOT proved; numerically the constant 2 is attained): for a threshold `lim ≤ 1/2`
ALL nine entries agree up to `2·lim`.  The four entries not covered by `euler_nearlock_partial` depend on the first extracted
angle, which `atan2` reads from a point at distance `√(1 − c² sin²γ)` from the origin; bounding them needs that normalisation. -/
def euler_nearlock_full (T : Trig R) (C : Cmp R) : Prop :=
  ∀ (lim : R) (fixed : Bool) (r : V3 R) (a0 a1 a2 : Nat), lim ≤ 1 / 2 → a0 < 3 → a1 < 3 → a2 < 3 → a0 ≠ a1 → a1 ≠ a2 →
    (if a0 = a2 then |T.sin r.y| ≤ lim else |T.cos r.y| ≤ lim) →
    ∀ i j, i < 3 → j < 3 →
      |Gen.M4.rotateEs (fld R) T
          (Gen.M4.eulerAngless (fld R) C T lim (Gen.M4.rotateEs (fld R) T r a0 a1 a2 fixed) a0 a1 a2 fixed) a0 a1 a2 fixed i j -
        Gen.M4.rotateEs (fld R) T r a0 a1 a2 fixed i j| ≤ 2 * lim

/-- the band hypothesis of `euler_nearlock_partial` is satisfiable strictly between lock and threshold (real functions,
`β = π/3`, `cos β = 1/2 = lim`) -/
example : 0 < |realTrig.cos (Real.pi / 3)| ∧ |realTrig.cos (Real.pi / 3)| ≤ (1 / 2 : ℝ) := by
  have e : realTrig.cos (Real.pi / 3) = 1 / 2 := Real.cos_pi_div_three
  rw [e, abs_of_pos (by norm_num)]
  exact ⟨by norm_num, le_refl _⟩

end euler

/-- the real `cos`, `sin`, `atan2(y, x) = arg(x + iy)`, `π`, `√`, `<` satisfy `TrigOK` and `CmpStd` (`AslProofs/RealTrig.lean`) -/
example : TrigOK realTrig ∧ CmpStd realCmp := ⟨realTrigOK, realCmpStd⟩

/-! ## axis-angle: `fromAxisAngle(U)`, `angle()`, `axisAngle()`, `Matrix4::rotate(axis, angle)`, `rotate(Vec3)` -/

/-- `fromAxisAngleU(u, θ)` of a unit axis is a unit quaternion -/
theorem fromAxisAngleU_is_unit (T : Trig K) (hu : ∀ x, T.cos x * T.cos x + T.sin x * T.sin x = 1) (u : V3 K)
    (h1 : UnitVec u) (θ : K) : UnitQuat (Gen.AA.fromAxisAngleU (fld K) T u θ) :=
  fromAxisAngleU_unit T hu u h1 θ

/-- the matrix of `fromAxisAngleU(u, θ)` is Rodrigues' rotation matrix `I + sin θ [u]× + (1 − cos θ)[u]×²`
(upper-left 3×3 block; the last row and column are `0 0 0 1`) -/
theorem fromAxisAngleU_matrix_rodrigues (T : Trig K) (hT : TrigDouble T) (u : V3 K) (θ : K) :
    toM3 (Gen.Q.matrix (fld K) (Gen.AA.fromAxisAngleU (fld K) T u θ)) = rodrigues u (T.cos θ) (T.sin θ) ∧
    ((∀ i, i < 3 → Gen.Q.matrix (fld K) (Gen.AA.fromAxisAngleU (fld K) T u θ) i 3 = 0 ∧
        Gen.Q.matrix (fld K) (Gen.AA.fromAxisAngleU (fld K) T u θ) 3 i = 0) ∧
      Gen.Q.matrix (fld K) (Gen.AA.fromAxisAngleU (fld K) T u θ) 3 3 = 1) :=
  ⟨fromAxisAngleU_rodrigues T hT u θ, qmat_affine _⟩

/-- `Matrix4::rotate(axis, angle)` for any axis of non-zero length `m = axis.length()` is Rodrigues' matrix about `axis/m` -/
theorem rotate_axis_angle_rodrigues (C : Cmp K) (T : Trig K) (hT : TrigDouble T) (heqz : ∀ x, C.eqz x = true ↔ x = 0)
    (axis : V3 K) (θ : K) (hm : Gen.AA.length (fld K) C axis ≠ 0) :
    toM3 (Gen.AA.rotateAA (fld K) C T axis θ) =
      rodrigues (Gen.V3.smul (fld K) axis (1 / Gen.AA.length (fld K) C axis)) (T.cos θ) (T.sin θ) := by
  unfold Gen.AA.rotateAA
  rw [fromAxisAngle_eq_U C T axis θ heqz hm]
  exact fromAxisAngleU_rodrigues T hT _ θ

section axisangle
variable {R : Type} [Field R] [LinearOrder R] [IsStrictOrderedRing R]

/-- for a unit axis (ordered field, `sqrt` a non-negative square root) `Matrix4::rotate(u, θ)` is Rodrigues' matrix about `u` -/
theorem rotate_unit_axis_rodrigues {C : Cmp R} (hC : CmpStd C) (T : Trig R) (hT : TrigDouble T) (u : V3 R) (h1 : UnitVec u) (θ : R) :
    toM3 (Gen.AA.rotateAA (fld R) C T u θ) = rodrigues u (T.cos θ) (T.sin θ) := by
  have hlen : Gen.AA.length (fld R) C u = 1 := by
    unfold UnitVec at h1
    simp only [Gen.AA.length, fld_add, fld_mul, h1]
    have := sqrt_sq hC (1 : R)
    simpa using this
  rw [rotate_axis_angle_rodrigues C T hT hC.eqz u θ (by rw [hlen]; exact one_ne_zero), hlen]
  congr 1
  simp [Gen.V3.smul]

/-- **axis-angle round trip**: for every unit quaternion `q`, `fromAxisAngle(q.axisAngle())` is `q` or `-q` (the angle-0
branch `‖v‖ = 0` included), hence has the same rotation matrix -/
theorem axisAngle_roundtrip {C : Cmp R} (hC : CmpStd C) {T : Trig R} (hT : TrigAA T) (q : Quat R) (hq : UnitQuat q) :
    (Gen.AA.fromRotVec (fld R) C T (Gen.AA.axisAngle (fld R) C T q) = q ∨
      Gen.AA.fromRotVec (fld R) C T (Gen.AA.axisAngle (fld R) C T q) = Gen.Q.neg (fld R) q) ∧
    Gen.Q.matrix (fld R) (Gen.AA.fromRotVec (fld R) C T (Gen.AA.axisAngle (fld R) C T q)) = Gen.Q.matrix (fld R) q := by
  have h := axisAngle_roundtrip_quat hC hT q hq
  refine ⟨h, ?_⟩
  rcases h with e | e <;> rw [e]
  exact quat_neg_same_matrix q

/-- matrix level: `Matrix4::rotate(M.axisAngle())` gives back `M` for the matrix `M` of any unit quaternion -/
theorem rotate_axisAngle_roundtrip {C : Cmp R} (hC : CmpStd C) {T : Trig R} (hT : TrigAA T) (q : Quat R) (hq : UnitQuat q) :
    Gen.AA.rotateVec (fld R) C T (Gen.AA.matAxisAngle (fld R) C T (Gen.Q.matrix (fld R) q)) = Gen.Q.matrix (fld R) q := by
  have hr := rotation_correct_ordered C hC.lt (fun z hz => (hC.sqrt z hz).2) q hq
  have hneg : UnitQuat (Gen.Q.neg (fld R) q) := by
    unfold UnitQuat at hq ⊢
    simp [Gen.Q.neg]; linear_combination hq
  show Gen.Q.matrix (fld R) (Gen.AA.fromRotVec (fld R) C T (Gen.AA.axisAngle (fld R) C T (Gen.M4.rotation (fld R) C (Gen.Q.matrix (fld R) q)))) = _
  rcases hr with e | e <;> rw [e]
  · exact (axisAngle_roundtrip hC hT q hq).2
  · rw [(axisAngle_roundtrip hC hT _ hneg).2]; exact quat_neg_same_matrix q

/-- `matrix(rotation(M)) = M` for every matrix `M` in the image of `Quaternion::matrix` on unit quaternions -/
theorem rotation_matrix_partial (C : Cmp R) (hlt : ∀ a b, C.lt a b = decide (a < b)) (hsqrt : ∀ z, 0 ≤ z → C.sqrt z * C.sqrt z = z)
    (q : Quat R) (hq : UnitQuat q) :
    Gen.Q.matrix (fld R) (Gen.M4.rotation (fld R) C (Gen.Q.matrix (fld R) q)) = Gen.Q.matrix (fld R) q := by
  rcases rotation_correct_ordered C hlt hsqrt q hq with e | e <;> rw [e]
  exact quat_neg_same_matrix q

/-- the full statement: every proper rotation matrix (`a·aᵀ = 1`, `det a = 1`; not only those known to be `matrix q`)
is reproduced by `matrix(rotation(a))` -/
def rotation_matrix_full (C : Cmp R) : Prop :=
  ∀ a : Nat → Nat → R, toM3 a * (toM3 a).transpose = 1 → (toM3 a).det = 1 →
    toM3 (Gen.Q.matrix (fld R) (Gen.M4.rotation (fld R) C a)) = toM3 a

/-- **guard coverage** for an arbitrary matrix (no orthogonality needed): the guards of `rotation()` are exhaustive, the
branch taken is one of the four, and its radicand is `≥ 1` — so the root is non-zero and no branch divides by zero -/
theorem rotation_guards_exhaustive (C : Cmp R) (hlt : ∀ a b, C.lt a b = decide (a < b)) (a : Nat → Nat → R) :
    (Gen.M4.rotation (fld R) C a = Gen.M4.rotBranch0 (fld R) a (C.sqrt (Gen.M4.rotRadicand0 (fld R) a)) ∧ 1 ≤ Gen.M4.rotRadicand0 (fld R) a) ∨
    (Gen.M4.rotation (fld R) C a = Gen.M4.rotBranch1 (fld R) a (C.sqrt (Gen.M4.rotRadicand1 (fld R) a)) ∧ 1 ≤ Gen.M4.rotRadicand1 (fld R) a) ∨
    (Gen.M4.rotation (fld R) C a = Gen.M4.rotBranch2 (fld R) a (C.sqrt (Gen.M4.rotRadicand2 (fld R) a)) ∧ 1 ≤ Gen.M4.rotRadicand2 (fld R) a) ∨
    (Gen.M4.rotation (fld R) C a = Gen.M4.rotBranch3 (fld R) a (C.sqrt (Gen.M4.rotRadicand3 (fld R) a)) ∧ 1 ≤ Gen.M4.rotRadicand3 (fld R) a) :=
  rotation_selects_gen C hlt a

/-- **`rotation_matrix_full` holds**: with `<` as comparison and a `sqrt` that is a square root on non-negative arguments,
`matrix(rotation(a)) = a` (3×3 block) for EVERY orthogonal `a` of determinant one, whichever branch is taken -/
theorem rotation_matrix_full_holds (C : Cmp R) (hlt : ∀ a b, C.lt a b = decide (a < b))
    (hsqrt : ∀ z, 0 ≤ z → C.sqrt z * C.sqrt z = z) : rotation_matrix_full C := by
  intro a ho hd
  have h := so3_rel a ho hd
  have h2 : (2 : R) ≠ 0 := two_ne_zero
  have key : ∀ z : R, 1 ≤ z → C.sqrt z * C.sqrt z = z ∧ C.sqrt z ≠ 0 := by
    intro z hz
    have hh := hsqrt z (by linarith)
    refine ⟨hh, ?_⟩
    intro e
    rw [e] at hh
    linarith
  rcases rotation_selects_gen C hlt a with ⟨e, hg⟩ | ⟨e, hg⟩ | ⟨e, hg⟩ | ⟨e, hg⟩ <;> rw [e]
  · exact branch0_so3 a h h2 _ (key _ hg).1 (key _ hg).2
  · exact branch1_so3 a h h2 _ (key _ hg).1 (key _ hg).2
  · exact branch2_so3 a h h2 _ (key _ hg).1 (key _ hg).2
  · exact branch3_so3 a h h2 _ (key _ hg).1 (key _ hg).2

/-- the quaternion `rotation()` returns for a proper rotation matrix is a UNIT quaternion (so `matrix()` of it is the
rotation it represents, `quat_matrix_rotates`, and the conversions that assume a unit quaternion apply to it) -/
theorem rotation_unit_so3 (C : Cmp R) (hlt : ∀ a b, C.lt a b = decide (a < b))
    (hsqrt : ∀ z, 0 ≤ z → C.sqrt z * C.sqrt z = z) (a : Nat → Nat → R)
    (ho : toM3 a * (toM3 a).transpose = 1) (hd : (toM3 a).det = 1) : UnitQuat (Gen.M4.rotation (fld R) C a) := by
  have h := so3_rel a ho hd
  have h2 : (2 : R) ≠ 0 := two_ne_zero
  have key : ∀ z : R, 1 ≤ z → C.sqrt z * C.sqrt z = z ∧ C.sqrt z ≠ 0 := by
    intro z hz
    have hh := hsqrt z (by linarith)
    refine ⟨hh, ?_⟩
    intro e
    rw [e] at hh
    linarith
  rcases rotation_selects_gen C hlt a with ⟨e, hg⟩ | ⟨e, hg⟩ | ⟨e, hg⟩ | ⟨e, hg⟩ <;> rw [e]
  · exact branch0_unit a h h2 _ (key _ hg).1 (key _ hg).2
  · exact branch1_unit a h h2 _ (key _ hg).1 (key _ hg).2
  · exact branch2_unit a h h2 _ (key _ hg).1 (key _ hg).2
  · exact branch3_unit a h h2 _ (key _ hg).1 (key _ hg).2

end axisangle

/-- each branch on its own, over any field with `2 ≠ 0` and without any order: on a proper rotation matrix, the branch
whose root `r` is a non-zero square root of its own radicand returns a quaternion with that matrix -/
theorem rotation_branch_sound_so3 (a : Nat → Nat → K) (ho : toM3 a * (toM3 a).transpose = 1) (hd : (toM3 a).det = 1)
    (h2 : (2 : K) ≠ 0) (r : K) (h0 : r ≠ 0) :
    (r * r = Gen.M4.rotRadicand0 (fld K) a → toM3 (Gen.Q.matrix (fld K) (Gen.M4.rotBranch0 (fld K) a r)) = toM3 a) ∧
    (r * r = Gen.M4.rotRadicand1 (fld K) a → toM3 (Gen.Q.matrix (fld K) (Gen.M4.rotBranch1 (fld K) a r)) = toM3 a) ∧
    (r * r = Gen.M4.rotRadicand2 (fld K) a → toM3 (Gen.Q.matrix (fld K) (Gen.M4.rotBranch2 (fld K) a r)) = toM3 a) ∧
    (r * r = Gen.M4.rotRadicand3 (fld K) a → toM3 (Gen.Q.matrix (fld K) (Gen.M4.rotBranch3 (fld K) a r)) = toM3 a) :=
  have h := so3_rel a ho hd
  ⟨fun hr => branch0_so3 a h h2 r hr h0, fun hr => branch1_so3 a h h2 r hr h0,
   fun hr => branch2_so3 a h h2 r hr h0, fun hr => branch3_so3 a h h2 r hr h0⟩

/-- the hypotheses of `rotation_matrix_full_holds` are satisfiable by a matrix that is not the identity: the quarter turn
about z over ℚ is orthogonal with determinant one -/
example : let a : Nat → Nat → ℚ := fun i j => if (i, j) = (0, 1) then -1 else if (i, j) = (1, 0) ∨ (i, j) = (2, 2) then 1 else 0
    toM3 a * (toM3 a).transpose = 1 ∧ (toM3 a).det = 1 := by
  intro a
  constructor
  · ext i j
    fin_cases i <;> fin_cases j <;> simp [a, toM3, Matrix.mul_apply, Fin.sum_univ_succ]
  · simp [a, toM3, Matrix.det_fin_three]

/-- the real functions satisfy `TrigDouble` and `TrigAA` -/
example : TrigDouble realTrig ∧ TrigAA realTrig := ⟨realTrigDouble, realTrigAA⟩

/-! ## the hypotheses are satisfiable -/

/-- the rationals with `|·|` and `<` satisfy the pivot-search laws -/
example : CmpOK (⟨fun x => |x|, fun a b => decide (a < b), fun x => x, fun x => decide (x = 0)⟩ : Cmp ℚ) :=
  ⟨fun x => by simp, fun y x h => by
    simp only [decide_eq_true_eq] at h
    intro e; rw [e, abs_zero] at h; exact absurd h (not_lt.mpr (abs_nonneg y))⟩

/-- a non-singular matrix with a zero leading entry (a row exchange is unavoidable) -/
example : (toMat 2 2 (fun i j => if i = j then (0 : ℚ) else 1)).det ≠ 0 := by
  simp [toMat, Matrix.det_fin_two]

/-- the real square root is a square root on non-negative arguments (hypothesis of `rotation_correct_ordered`) -/
example : ∀ z : ℝ, 0 ≤ z → Real.sqrt z * Real.sqrt z = z := fun _ h => Real.mul_self_sqrt h

/-- an over-determined system (2 equations, 1 unknown) with non-singular normal matrix (hypotheses of `lstsq_normal`) -/
example : ((toMat 2 1 (fun _ _ => (1 : ℚ))).transpose * toMat 2 1 (fun _ _ => (1 : ℚ))).det ≠ 0 := by
  simp [toMat, Matrix.det_unique, Matrix.mul_apply]

/-- a unit quaternion with all four components non-zero -/
example : UnitQuat (⟨1/2, 1/2, 1/2, 1/2⟩ : Quat ℚ) := by
  unfold UnitQuat; norm_num

end C20
