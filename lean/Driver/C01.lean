import Driver.Common
import AslModel.Array
import AslModel.ArrayNested
/-! Model driver for C01 (Array / Stack / Queue).  Same op lines as `harness/c01.cpp`.

Line: `<t><c> <op> <args…>` with element type `t` ∈ {i = int, s = String, c = Counted} and container
`c` ∈ {a = Array, k = Stack, q = Queue} (the model is the same for the three containers: Stack and Queue
add members, not state).  Output: `<result> | <view of slot 0> … <view of slot 5>[ | L<live objects>]`. -/
open Driver AslModel.Arr

namespace Driver.C01

abbrev Bytes := List UInt8

structure Codec (α : Type) where
  parse : String → Option α
  shw : α → String
  code : α → Nat            -- element code for the sequence hash

def codeInt (v : Int) : Nat := (v % 1000003).toNat
def codeBytes (b : Bytes) : Nat := b.foldl (fun h c => (h * 257 + c.toNat) % 1000003) 1

def intCodec : Codec Int := ⟨String.toInt?, toString, codeInt⟩
def bytesCodec : Codec Bytes := ⟨unhex, hex, codeBytes⟩


def seqHash {α : Type} (c : Codec α) (l : List α) : Nat := l.foldl (fun h e => (h * 131 + c.code e) % 1000000007) 7

def showView {α : Type} (c : Codec α) : Option (List α × Nat) → String
  | none => "-"
  | some (l, rc) =>
    let body := if l.length ≤ 12 then ",".intercalate (l.map c.shw) else "#" ++ toString (seqHash c l)
    s!"{l.length}/{rc}/{body}"

def showRes {α : Type} (c : Codec α) : Res α → String
  | .ok => "ok"
  | .skip => "skip"
  | .val v => "v " ++ c.shw v
  | .idx i b => s!"idx {i} {if b then 1 else 0}"
  | .flag b => if b then "b 1" else "b 0"

def parseOp {α : Type} (c : Codec α) (ts : List String) : Option (Op α) :=
  let nat (s : String) : Option Nat := s.toNat?
  match ts with
  | "newp" :: h :: vs => do some (.newp (← nat h) (← vs.mapM c.parse))
  -- initializer-list members (0..4 elements): `Array(std::initializer_list<T>)`, `operator=(initializer_list)`,
  -- `append(initializer_list)` are the same statements as `Array(p, n)` / `copy(p, n)` / `append(p, n)` with `p` outside
  | "newil" :: h :: vs => do if vs.length ≤ 4 then some (.newp (← nat h) (← vs.mapM c.parse)) else none
  | "asgil" :: h :: vs => do if vs.length ≤ 4 then some (.copyp (← nat h) (← vs.mapM c.parse)) else none
  | "appil" :: h :: vs => do if vs.length ≤ 4 then some (.appp (← nat h) (← vs.mapM c.parse)) else none
  | "copyp" :: h :: vs => do some (.copyp (← nat h) (← vs.mapM c.parse))
  | "appp" :: h :: vs => do some (.appp (← nat h) (← vs.mapM c.parse))
  | ["sortby", h, a] => do some (.sortby (← nat h) ((← nat a) != 0))
  | ["iter", h] => do some (.iter (← nat h))
  | ["slicee", t, h, i] => do some (.slicee (← nat t) (← nat h) (← nat i))
  | ["appown", h, j, k] => do some (.appown (← nat h) (← nat j) (← nat k))
  | ["copyown", h, j, k] => do some (.copyown (← nat h) (← nat j) (← nat k))
  | ["remx", h, i, n] => do some (.remx (← nat h) (← nat i) (← nat n))
  | ["new", h] => do some (.new (← nat h))
  | ["newn", h, n, v] => do some (.newn (← nat h) (← nat n) (← c.parse v))
  | ["cp", h, g] => do some (.cp (← nat h) (← nat g))
  | ["asg", h, g] => do some (.asg (← nat h) (← nat g))
  | ["drop", h] => do some (.drop (← nat h))
  | ["app", h, v] => do some (.app (← nat h) (← c.parse v))
  | ["push", h, v] => do some (.app (← nat h) (← c.parse v))
  | ["put", h, v] => do some (.app (← nat h) (← c.parse v))
  | ["ins", h, k, v] => do some (.ins (← nat h) (← nat k) (← c.parse v))
  | ["appo", h, j] => do some (.appo (← nat h) (← nat j))
  | ["inso", h, k, j] => do some (.inso (← nat h) (← nat k) (← nat j))
  | ["insx", h, k, g, j] => do some (.insx (← nat h) (← nat k) (← nat g) (← nat j))
  | ["rem", h, i, n] => do some (.rem (← nat h) (← nat i) (← nat n))
  | ["remone", h, v, j] => do some (.remone (← nat h) (← c.parse v) (← nat j))
  | ["reml", h] => do some (.reml (← nat h))
  | ["rsz", h, m, v] => do some (.rsz (← nat h) (← nat m) (← c.parse v))
  | ["res", h, m] => do some (.res (← nat h) (← nat m))
  | ["clr", h] => do some (.clr (← nat h))
  | ["sort", h] => do some (.sort (← nat h) false)
  | ["sortd", h] => do some (.sort (← nat h) true)
  | ["slice", t, h, i, j] => do some (.slice (← nat t) (← nat h) (← nat i) (← nat j))
  | ["clone", t, h] => do some (.clone (← nat t) (← nat h))
  | ["dup", h] => do some (.dup (← nat h))
  | ["concat", t, h, g] => do some (.concat (← nat t) (← nat h) (← nat g))
  | ["rev", t, h] => do some (.rev (← nat t) (← nat h))
  | ["filt", t, h, m, r] => do some (.filt (← nat t) (← nat h) (← nat m) (← nat r))
  | ["remif", h, m, r] => do some (.remif (← nat h) (← nat m) (← nat r))
  | ["apnd", h, g] => do some (.apnd (← nat h) (← nat g))
  | ["copy", h, g] => do some (.copy (← nat h) (← nat g))
  | ["set", h, i, v] => do some (.set (← nat h) (← nat i) (← c.parse v))
  | ["get", h, i] => do some (.get (← nat h) (← nat i))
  | ["idx", h, v, j] => do some (.idx (← nat h) (← c.parse v) (← nat j))
  | ["last", h] => do some (.last (← nat h))
  | ["eq", h, g] => do some (.eq (← nat h) (← nat g))
  | ["pop", h] => do some (.pop (← nat h))
  | ["popn", h, k] => do some (.popn (← nat h) (← nat k))
  | ["popget", h] => do some (.popget (← nat h))
  | ["top", h, i] => do some (.top (← nat h) (← nat i))
  | ["qget", h] => do some (.qget (← nat h))
  | _ => none

/-- the "median killer" permutation of `0..n-1`: the middle element is the maximum at every level of quicksort -/
def killer (n : Nat) : List Int := Id.run do
  let mut a : Array Int := Array.replicate n 0
  for m in [2:n+1] do
    a := a.set! (m - 1) (a.getD (m / 2) 0)
    a := a.set! (m / 2) ((m : Int) - 1)
  return a.toList

def run1 {α : Type} [DecidableEq α] (E : Elem α) (c : Codec α) (showLive : Bool) (st : St α) (ts : List String) :
    St α × String :=
  match ts with
  | ["reset"] => (St.init, "ok")
  | _ =>
  -- `xapp` = `app` without the guard (probe of the known finding shared-growth)
  let (ts, guarded) := match ts with
    | "xapp" :: r => ("app" :: r, false)
    | _ => (ts, true)
  match parseOp c ts with
  | none => (st, "bad-op")
  | some op =>
    match (if guarded then stepG E st op else step E st (normOp op)) with
    | none => (st, "model-fault")
    | some (st', r) =>
      match st'.observe with
      | none => (st', "model-fault dangling")
      | some vs =>
        let views := " ".intercalate (vs.map (showView c))
        let caps := ",".intercalate (st'.caps.map fun o => match o with | some k => toString k | none => "-")
        (st', showRes c r ++ " | " ++ views ++ " | K" ++ caps ++ (if showLive then s!" | L{st'.live}" else ""))

/-- `sortc h mode` (counted elements): the sort `mode` of slot `h`, answering with the number of element temporaries the
sort copy-constructs and the most that are alive at once (`qsortListT`: the ledgered run function, whose sequence is
`qsortList`'s by `sort_temporaries_destroyed`) -/
def run1c {α : Type} [DecidableEq α] (E : Elem α) (c : Codec α) (showLive : Bool) (st : St α) (ts : List String) :
    St α × String :=
  match ts with
  | ["sortc", h, mode] =>
    if !showLive then (st, "bad-op") else
    match h.toNat?, mode.toNat? with
    | some hh, some m =>
      let m := m % 4
      let lt : α → α → Bool := if m = 1 then fun a b => E.lt b a else if m = 2 then fun a b => decide (E.key a < E.key b)
        else if m = 3 then fun a b => decide (E.key b < E.key a) else E.lt
      let tmp := (st.elemsOf (hh % NS)).bind fun l => qsortListT lt l ⟨st.live, 0, 0, st.live⟩
      let (st', out) := run1 E c showLive st
        (if m = 1 then ["sortd", h] else if m = 2 then ["sortby", h, "1"] else if m = 3 then ["sortby", h, "0"] else ["sort", h])
      if out.startsWith "ok |" then
        match tmp with
        | some (_, t) => (st', s!"t {t.made} {t.peak - st.live}" ++ (out.drop 2).toString)
        | none => (st', "model-fault sortc")
      else (st', out)
    | _, _ => (st, "bad-op")
  | _ => run1 E c showLive st ts

structure All where
  i : Array (St Int)
  s : Array (St Bytes)
  c : Array (St Int)
  n : AslModel.ArrN.NSt

def All.init : All := ⟨Array.replicate 3 St.init, Array.replicate 3 St.init, Array.replicate 3 St.init, AslModel.ArrN.NSt.init⟩

/-- `na <op> …` : arrays of `Node { int v; Array<Node> kids; }` (reference-level model, see `AslModel/ArrayNested.lean`) -/
def parseN (ts : List String) : Option AslModel.ArrN.NOp :=
  let nat (s : String) : Option Nat := s.toNat?
  match ts with
  | ["new", h] => do some (.new (← nat h))
  | ["drop", h] => do some (.drop (← nat h))
  | ["cp", h, g] => do some (.cp (← nat h) (← nat g))
  | ["app", h, v] => do some (.app (← nat h) (← v.toInt?))
  | ["kapp", h, j, v] => do some (.kapp (← nat h) (← nat j) (← v.toInt?))
  | ["iapp", h, j, v] => do some (.iapp (← nat h) (← nat j) (← v.toInt?))
  | ["asgi", h, j] => do some (.asgi (← nat h) (← nat j))
  | ["getk", t, h, j] => do some (.getk (← nat t) (← nat h) (← nat j))
  | ["asgk", h, j] => do some (.asgk (← nat h) (← nat j))
  | ["apndk", h, j] => do some (.apndk (← nat h) (← nat j))
  | ["copyk", h, j] => do some (.copyk (← nat h) (← nat j))
  | ["rem", h, i] => do some (.rem (← nat h) (← nat i))
  | _ => none

def runN (st : AslModel.ArrN.NSt) (ts : List String) : AslModel.ArrN.NSt × String :=
  match ts with
  | ["reset"] => (AslModel.ArrN.NSt.init, "ok")
  | _ =>
    match parseN ts with
    | none => (st, "bad-op")
    | some op =>
      let (st', done) := AslModel.ArrN.step st (AslModel.ArrN.normOp op)
      if !AslModel.ArrN.consistent st' then (st', "model-inconsistent-refcounts") else
      (st', (if done then "ok" else "skip") ++ " | " ++ AslModel.ArrN.showState st')

def contIdx : Char → Option Nat
  | 'a' => some 0
  | 'k' => some 1
  | 'q' => some 2
  | _ => none

def step (a : All) (ts : List String) : All × String :=
  match ts with
  | p :: rest =>
    match p.toList with
    | ['n', 'a'] =>
      let (st, out) := runN a.n rest
      ({ a with n := st }, out)
    | [t, k] =>
      match contIdx k with
      | none => (a, "bad-op")
      | some ci =>
        if t = 'i' then
          match rest with
          | ["ksort", h, n, mode] =>
            -- `Array<int> r(n)` filled with the median-killer permutation (mirrored for the descending comparator),
            -- stored into slot h, then `sort()` / `sort(Desc)` / `sortBy(key, true)`
            let nn := n.toNat?.getD 0
            let vals := if mode = "1" then (killer nn).map fun x => (nn : Int) - 1 - x else killer nn
            let (st1, _) := run1 (intElem 4) intCodec false (a.i.getD ci St.init) ("newp" :: h :: vals.map toString)
            let (st2, out) := run1 (intElem 4) intCodec false st1
              (if mode = "1" then ["sortd", h] else if mode = "2" then ["sortby", h, "1"] else ["sort", h])
            ({ a with i := a.i.set! ci st2 }, out)
          | _ =>
          let (st, out) := run1 (intElem 4) intCodec false (a.i.getD ci St.init) rest
          ({ a with i := a.i.set! ci st }, out)
        else if t = 's' then
          let (st, out) := run1 strElem bytesCodec false (a.s.getD ci St.init) rest
          ({ a with s := a.s.set! ci st }, out)
        else if t = 'c' then
          let (st, out) := run1c (intElem 8) intCodec true (a.c.getD ci St.init) rest
          ({ a with c := a.c.set! ci st }, out)
        else (a, "bad-op")
    | _ => (a, "bad-op")
  | [] => (a, "bad-op")

end Driver.C01

def main : IO Unit := Driver.loop Driver.C01.All.init Driver.C01.step
