import Driver.Common
import AslModel.Map
import AslModel.HashMap
/-! Model driver for C02 (Map / Dic / HashMap / HashDic / Set).  Same op lines as `harness/c02.cpp`. -/
open Driver AslModel

namespace Driver.C02

abbrev Bytes := List UInt8

structure Codec (α : Type) where
  parse : String → Option α
  shw : α → String
  less : α → α → Bool   -- canonical order of sorted dumps

def intCodec : Codec Int := ⟨String.toInt?, toString, fun a b => a < b⟩
def bytesCodec : Codec Bytes := ⟨unhex, hex, fun a b => hex a < hex b⟩

def NS : Nat := 4

def slotOf (s : String) : Option Nat :=
  match s.toInt? with
  | some i => some (((i % 4 + 4) % 4).toNat)
  | none => none

def sortBy {α : Type} (lt : α → α → Bool) (l : List α) : List α := (l.toArray.qsort lt).toList

def join (l : List String) : String := " ".intercalate l

def b01 (b : Bool) : String := if b then "1" else "0"

/-- ops on one family of ordered maps (`Map<K,V>`) -/
def ordered {K V : Type} [DecidableEq K] [DecidableEq V] (cmp : K → K → Ordering) (kc : Codec K) (vc : Codec V)
    (dflt : V) (sl : Array (List (K × V))) (ts : List String) : Array (List (K × V)) × String :=
  let bad := (sl, "bad-op")
  let oob := (sl, "model-oob")
  match ts with
  | op :: s :: args =>
    match slotOf s with
    | none => bad
    | some i =>
      let a := sl.getD i []
      match op, args with
      | "set", [k, v] => match kc.parse k, vc.parse v with
        | some k, some v => match Map.set cmp a k v with
          | some a' => (sl.set! i a', s!"ok {a'.length}")
          | none => oob
        | _, _ => bad
      | "asg", [k, v] => match kc.parse k, vc.parse v with
        | some k, some v => match Map.assign cmp a k dflt v with
          | some a' => (sl.set! i a', s!"ok {a'.length}")
          | none => oob
        | _, _ => bad
      | "idx", [k] => match kc.parse k with
        | some k => match Map.index cmp a k dflt with
          | some (a', p) => (sl.set! i a', s!"{vc.shw ((a'[p]?.map (·.2)).getD dflt)} {a'.length}")
          | none => oob
        | none => bad
      -- `m[k] = m[j]` as the mathematical history reads it: the value of `j` (created with the default when
      -- missing, by the non-const operator[] on the right-hand side), then assigned to `k`
      | "asgfrom", [k, j] => match kc.parse k, kc.parse j with
        | some k, some j => match Map.index cmp a j dflt with
          | some (a1, p) =>
            let v := (a1[p]?.map (·.2)).getD dflt
            match Map.assign cmp a1 k dflt v with
            | some a' => (sl.set! i a', s!"ok {a'.length}")
            | none => oob
          | none => oob
        | _, _ => bad
      -- `d = { {k1, d[j1]}, {k2, d[j2]}, … }` (Dic::operator=(initializer_list<KV>), as repaired by 8e6a06f): the
      -- values are read (non-const operator[], left to right) from the map as it is, the new contents are built in a
      -- separate map with `t[k] = v` in order, and the map takes that storage
      | "initasg", kjs =>
        let rec pairs : List String → Option (List (K × K))
          | [] => some []
          | k :: j :: r => match kc.parse k, kc.parse j, pairs r with
            | some k, some j, some t => some ((k, j) :: t)
            | _, _, _ => none
          | [_] => none
        match pairs kjs with
        | none => bad
        | some ps =>
          if ps.length = 0 ∨ ps.length > 3 then bad else
          let r := ps.foldl (fun (acc : Option (List (K × V) × List (K × V))) kj => match acc with
            | none => none
            | some (cur, out) => match Map.index cmp cur kj.2 dflt with
              | some (cur', p) => some (cur', out ++ [(kj.1, (cur'[p]?.map (·.2)).getD dflt)])
              | none => none) (some (a, []))
          match r with
          | none => oob
          | some (_, kvs) => match Map.add cmp dflt [] kvs with
            | some a' => (sl.set! i a', s!"ok {a'.length}")
            | none => oob
      | "cidx", [k] => match kc.parse k with
        | some k => match Map.get cmp a k dflt with
          | some v => (sl, s!"{vc.shw v} {a.length}")
          | none => oob
        | none => bad
      | "find", [k] => match kc.parse k with
        | some k => match Map.find cmp a k with
          | some (some v) => (sl, "some " ++ vc.shw v)
          | some none => (sl, "none")
          | none => oob
        | none => bad
      | "has", [k] => match kc.parse k with
        | some k => match Map.has cmp a k with
          | some b => (sl, b01 b)
          | none => oob
        | none => bad
      | "get", [k, d] => match kc.parse k, vc.parse d with
        | some k, some d => match Map.get cmp a k d with
          | some v => (sl, vc.shw v)
          | none => oob
        | _, _ => bad
      | "rem", [k] => match kc.parse k with
        | some k => match Map.remove cmp a k with
          | some (a', r) => (sl.set! i a', s!"{b01 r} {a'.length}")
          | none => oob
        | none => bad
      | "clear", [] => (sl.set! i [], "ok 0")
      | "clone", [t] => match slotOf t with
        | some j => let c := Map.clone a; (sl.set! j c, s!"ok {c.length}")
        | none => bad
      | "add", [t] => match slotOf t with
        | some j => match Map.add cmp dflt a (sl.getD j []) with
          | some a' => (sl.set! i a', s!"ok {a'.length}")
          | none => oob
        | none => bad
      | "addself", [] => match Map.add cmp dflt a a with
        | some a' => (sl.set! i a', s!"ok {a'.length}")
        | none => oob
      | "eq", [t] => match slotOf t with
        | some j => (sl, b01 (Map.eq a (sl.getD j [])))
        | none => bad
      | "len", [] => (sl, s!"{a.length} " ++ (if a.length = 0 then "empty" else "nonempty"))
      | "keys", [] => (sl, join (toString a.length :: (Map.keys a).map kc.shw))
      | "dump", [] => match Map.walk a with
        | some es => (sl, join (toString a.length :: es.map fun kv => kc.shw kv.1 ++ ":" ++ vc.shw kv.2))
        | none => oob
      | "walk", [] => match Map.walk a with
        | some es => (sl, join (toString a.length :: es.map fun kv => kc.shw kv.1 ++ ":" ++ vc.shw kv.2))
        | none => oob
      | _, _ => bad
  | _ => bad

/-- `k1 v1 k2 v2 …` -/
def cvPairs {K2 : Type} (kc2 : Codec K2) : List String → Option (List (K2 × Int))
  | [] => some []
  | k :: v :: r => match kc2.parse k, v.toInt?, cvPairs kc2 r with
    | some k, some v, some t => some ((k, v) :: t)
    | _, _, _ => none
  | [_] => none

/-- `cv <variant> k1 v1 k2 v2 …`: a source map built with `set` in the given order, converted by the converting
constructor (`Map<K,T>(const Map<K2,T2>&)`, or `Dic<T>(const Map<K2,T2>&)` when `dic`), then: the raw layout of the
result (foreach), `has`/`get(·, -1)` of every converted source key, `==` against the map built by inserting the
converted records one by one, and `remove` of the first converted key (result, `has` afterwards, length) -/
def cvOut {K2 K : Type} [DecidableEq K] (cmp2 : K2 → K2 → Ordering) (cmp : K → K → Ordering) (fk : K2 → K)
    (kc2 : Codec K2) (kc : Codec K) (dic : Bool) (args : List String) : String :=
  match cvPairs kc2 args with
  | none => "bad-op"
  | some ps =>
    let src := ps.foldl (fun acc kv => match acc with
      | none => none
      | some a => Map.set cmp2 a kv.1 kv.2) (some [])
    match src.bind Map.walk with
    | none => "model-oob"
    | some es =>
      let conv := if dic then Map.convertDic cmp 0 fk (fun v : Int => v) es else Map.convert cmp fk (fun v : Int => v) es
      let ref := es.foldl (fun acc kv => match acc with
        | none => none
        | some a => Map.set cmp a (fk kv.1) kv.2) (some [])
      match conv, ref with
      | some c, some r =>
        match Map.walk c with
        | none => "model-oob"
        | some ws =>
          let layout := toString c.length :: ws.map fun kv => kc.shw kv.1 ++ ":" ++ toString kv.2
          let probes := es.map fun kv =>
            match Map.has cmp c (fk kv.1), Map.get cmp c (fk kv.1) (-1) with
            | some h, some g => b01 h ++ " " ++ toString g
            | _, _ => "oob"
          let rem := match es with
            | [] => "-"
            | kv :: _ => match Map.remove cmp c (fk kv.1) with
              | some (c', x) => match Map.has cmp c' (fk kv.1) with
                | some h => s!"{b01 x} {b01 h} {c'.length}"
                | none => "oob"
              | none => "oob"
          join (layout ++ ["|"] ++ probes ++ ["|", b01 (Map.eq c r), "|", rem])
      | _, _ => "model-oob"

/-- decimal text of an `int` as the bytes of `String(int)` -/
def decBytes (i : Int) : Bytes := (toString i).toUTF8.toList

/-- `double -> int` conversion of the key `q/4` (exactly representable): truncation toward zero -/
def truncQuarter (q : Int) : Int := Int.tdiv q 4

def cv (ts : List String) : String :=
  match ts with
  | "i2s" :: r => cvOut Map.cmpInt Map.cmpBytes decBytes intCodec bytesCodec false r   -- Map<int,int> -> Map<String,int>
  | "d2i" :: r => cvOut Map.cmpInt Map.cmpInt truncQuarter intCodec intCodec false r    -- Map<double,int> (keys q/4) -> Map<int,int>
  | "i2l" :: r => cvOut Map.cmpInt Map.cmpInt (fun k => k) intCodec intCodec false r     -- Map<int,int> -> Map<int,long long>
  | "i2d" :: r => cvOut Map.cmpInt Map.cmpBytes decBytes intCodec bytesCodec true r    -- Map<int,int> -> Dic<int>
  | "s2s" :: r => cvOut Map.cmpBytes Map.cmpBytes (fun k => k) bytesCodec bytesCodec false r  -- Dic<int> -> Dic<long long>
  | _ => "bad-op"

/-- ops on one family of hash maps (`HashMap<K,V>`) -/
def hashed {K V : Type} [DecidableEq K] [DecidableEq V] (h : K → Nat) (kc : Codec K) (vc : Codec V)
    (dflt : V) (sl : Array (HashMap.HM K V)) (ts : List String) : Array (HashMap.HM K V) × String :=
  let bad := (sl, "bad-op")
  match ts with
  | op :: s :: args =>
    match slotOf s with
    | none => bad
    | some i =>
      let a := sl.getD i (HashMap.empty Gen.HashMap.defaultBuckets)
      match op, args with
      | "new", [n] => match n.toInt? with
        | some n => if n < -3 ∨ n > 65536 then bad else (sl.set! i (HashMap.ofSize n), "ok 0")
        | none => bad
      | "set", [k, v] => match kc.parse k, vc.parse v with
        | some k, some v => let a' := HashMap.assign h dflt a k v; (sl.set! i a', s!"ok {a'.n}")
        | _, _ => bad
      | "asg", [k, v] => match kc.parse k, vc.parse v with
        | some k, some v => let a' := HashMap.assign h dflt a k v; (sl.set! i a', s!"ok {a'.n}")
        | _, _ => bad
      | "idx", [k] => match kc.parse k with
        | some k => let a' := HashMap.index h dflt a k
                    (sl.set! i a', s!"{vc.shw (HashMap.get h a' k dflt)} {a'.n}")
        | none => bad
      -- `m[k] = m[j]`: g++ (-std=c++11) evaluates the right-hand operator[] first
      | "asgfrom", [k, j] => match kc.parse k, kc.parse j with
        | some k, some j =>
          let a1 := HashMap.index h dflt a j
          let v := HashMap.get h a1 j dflt
          let a' := HashMap.assign h dflt a1 k v
          (sl.set! i a', s!"ok {a'.n}")
        | _, _ => bad
      | "cidx", [k] => match kc.parse k with
        | some k => (sl, s!"{vc.shw (HashMap.get h a k dflt)} {a.n}")
        | none => bad
      | "find", [k] => match kc.parse k with
        | some k => match HashMap.find h a k with
          | some v => (sl, "some " ++ vc.shw v)
          | none => (sl, "none")
        | none => bad
      | "has", [k] => match kc.parse k with
        | some k => (sl, b01 (HashMap.has h a k))
        | none => bad
      | "get", [k, d] => match kc.parse k, vc.parse d with
        | some k, some d => (sl, vc.shw (HashMap.get h a k d))
        | _, _ => bad
      | "rem", [k] => match kc.parse k with
        | some k => let a' := HashMap.remove h a k; (sl.set! i a', s!"ok {a'.n}")
        | none => bad
      | "clear", [] => (sl.set! i (HashMap.clear a), "ok 0")
      | "clone", [t] => match slotOf t with
        | some j => let c := HashMap.dup h dflt a; (sl.set! j c, s!"ok {c.n}")
        | none => bad
      -- `a.dup()` in place: this object detaches from the table it may share and gets its own copy
      | "dup", [] => let c := HashMap.dup h dflt a; (sl.set! i c, s!"ok {c.n}")
      | "eq", [t] => match slotOf t with
        | some j => (sl, b01 (HashMap.eq h a (sl.getD j (HashMap.empty Gen.HashMap.defaultBuckets))))
        | none => bad
      | "len", [] => (sl, toString a.n)
      | "raw", [] => match HashMap.walk a with
        | some es => (sl, join (toString a.buckets.length :: es.map fun kv => kc.shw kv.1 ++ ":" ++ vc.shw kv.2))
        | none => (sl, "oob")
      | "walk", [] => match HashMap.walk a with
        | some es => (sl, join (toString a.buckets.length :: es.map fun kv => kc.shw kv.1 ++ ":" ++ vc.shw kv.2))
        | none => (sl, "oob")
      | "pot", [n] => match n.toInt? with
        | some z => if z < -4 ∨ z > 1073741824 then bad else (sl, toString (HashMap.nextPoTInt z))
        | none => bad
      | "dump", [] =>
        let es := sortBy (fun x y => kc.less x.1 y.1) (HashMap.enum a)
        (sl, join (toString a.n :: es.map fun kv => kc.shw kv.1 ++ ":" ++ vc.shw kv.2))
      | _, _ => bad
  | _ => bad

def dumpSet {K : Type} (kc : Codec K) (a : HashMap.HSet K) : String :=
  let xs := sortBy kc.less (HashMap.sArray a)
  join (toString a.n :: (if a.n = 0 then "empty" else "nonempty") :: xs.map kc.shw)

/-- ops on one family of sets (`Set<K>`) -/
def sets {K : Type} [DecidableEq K] (h : K → Nat) (kc : Codec K)
    (sl : Array (HashMap.HSet K)) (ts : List String) : Array (HashMap.HSet K) × String :=
  let bad := (sl, "bad-op")
  let E : HashMap.HSet K := HashMap.empty Gen.HashMap.defaultBuckets
  match ts with
  | op :: s :: args =>
    match slotOf s with
    | none => bad
    | some i =>
      let a := sl.getD i E
      match op, args with
      | "new", [n] => match n.toInt? with
        | some n => if n < -3 ∨ n > 65536 then bad else (sl.set! i (HashMap.ofSize n), "ok 0")
        | none => bad
      | "ins", [k] => match kc.parse k with
        | some k => let a' := HashMap.sIns h a k; (sl.set! i a', s!"ok {a'.n}")
        | none => bad
      | "rem", [k] => match kc.parse k with
        | some k => let a' := HashMap.remove h a k; (sl.set! i a', s!"ok {a'.n}")
        | none => bad
      | "has", [k] => match kc.parse k with
        | some k => (sl, b01 (HashMap.has h a k))
        | none => bad
      | "clear", [] => (sl.set! i (HashMap.clear a), "ok 0")
      | "clone", [t] => match slotOf t with
        | some j => let c := HashMap.dup h 0 a; (sl.set! j c, s!"ok {c.n}")
        | none => bad
      | "dup", [] => let c := HashMap.dup h 0 a; (sl.set! i c, s!"ok {c.n}")
      | "from" , ks => match ks.mapM kc.parse with
        | some xs => let a' := HashMap.sFromList h xs; (sl.set! i a', s!"ok {a'.n}")
        | none => bad
      | "addself", [] => match HashMap.selfMerge h a with -- `s << s` as coded: the body may rehash the table being enumerated
        | some a' => (sl.set! i a', s!"ok {a'.n}")
        | none => (sl, "oob")
      | "raw", [] => match HashMap.walk a with
        | some es => (sl, join (toString a.buckets.length :: es.map fun kv => kc.shw kv.1))
        | none => (sl, "oob")
      | "walk", [] => match HashMap.walk a with
        | some es => (sl, join (toString a.buckets.length :: es.map fun kv => kc.shw kv.1))
        | none => (sl, "oob")
      | "addset", [t] => match slotOf t with
        | some j =>
          let other := HashMap.sAddAll h E (sl.getD j E)
          let a' := HashMap.sAddAll h a other
          (sl.set! i a', s!"ok {a'.n}")
        | none => bad
      | "eq", [t] => match slotOf t with
        | some j => (sl, b01 (HashMap.sEq h a (sl.getD j E)))
        | none => bad
      | "cont", [t] => match slotOf t with
        | some j => (sl, b01 (HashMap.sContainsAll h a (sl.getD j E)))
        | none => bad
      | "any", [t] => match slotOf t with
        | some j => (sl, b01 (HashMap.sContainsAny h a (sl.getD j E)))
        | none => bad
      | "union", [x, y] => match slotOf x, slotOf y with
        | some x, some y => let r := HashMap.sUnion h (sl.getD x E) (sl.getD y E); (sl.set! i r, dumpSet kc r)
        | _, _ => bad
      | "inter", [x, y] => match slotOf x, slotOf y with
        | some x, some y => let r := HashMap.sIn h (sl.getD x E) (sl.getD y E); (sl.set! i r, dumpSet kc r)
        | _, _ => bad
      | "diff", [x, y] => match slotOf x, slotOf y with
        | some x, some y => let r := HashMap.sNotIn h (sl.getD x E) (sl.getD y E); (sl.set! i r, dumpSet kc r)
        | _, _ => bad
      | "len", [] => (sl, toString a.n)
      | "dump", [] => (sl, dumpSet kc a)
      | _, _ => bad
  | _ => bad

/-- handle-level state of one family of hash containers: `AslModel.HashMap.Fam` (slots naming tables) -/
abbrev Fam (K V : Type) := HashMap.Fam K V

def famInit {K V : Type} : Fam K V :=
  { tabs := List.replicate NS (HashMap.empty Gen.HashMap.defaultBuckets), slots := List.range NS }

def famView {K V : Type} (f : Fam K V) : Array (HashMap.HM K V) :=
  ((List.range NS).map fun j => f.get j).toArray

def rebinding (op : String) : Bool := op ∈ ["new", "clone", "dup", "from", "union", "inter", "diff"]

/-- run an op of the value-level interpreter `run` on the handle-level state: the interpreter sees every object
through `Fam.get`; its result for the written object goes back through `Fam.store` (member called on the object)
or `Fam.rebind` (object assigned a newly built map); `share` is `Fam.share` -/
def famStep {K V : Type} (run : Array (HashMap.HM K V) → List String → Array (HashMap.HM K V) × String)
    (f : Fam K V) (ts : List String) : Fam K V × String :=
  match ts with
  | ["share", s, t] => match slotOf s, slotOf t with
    | some i, some j =>
      let f' := f.share i j
      (f', s!"ok {(f'.get j).n}")
    | _, _ => (f, "bad-op")
  | op :: args =>
    let v := famView f
    let (v', out) := run v ts
    -- the slot the op writes: second slot argument for `clone`, first otherwise
    let tgt := match op, args with
      | "clone", [_, t] => slotOf t
      | _, s :: _ => slotOf s
      | _, _ => none
    match tgt with
    | none => (f, out)
    | some j =>
      let m := v'.getD j (HashMap.empty Gen.HashMap.defaultBuckets)
      if out == "bad-op" then (f, out)
      else if rebinding op then (f.rebind j m, out)
      else (f.store j m, out)
  | _ => (f, "bad-op")

structure St where
  mi : Array (List (Int × Int))
  ds : Array (List (Bytes × Bytes))
  hi : Fam Int Int
  hs : Fam Bytes Int
  si : Fam Int Int
  ss : Fam Bytes Int

def init : St :=
  { mi := Array.replicate NS [], ds := Array.replicate NS [],
    hi := famInit, hs := famInit, si := famInit, ss := famInit }

def step (st : St) (ts : List String) : St × String :=
  match ts with
  | "mi" :: r => let (x, o) := ordered Map.cmpInt intCodec intCodec 0 st.mi r; ({ st with mi := x }, o)
  | "ds" :: r => let (x, o) := ordered Map.cmpBytes bytesCodec bytesCodec [] st.ds r; ({ st with ds := x }, o)
  | "hi" :: r => let (x, o) := famStep (hashed HashMap.hashInt intCodec intCodec 0) st.hi r; ({ st with hi := x }, o)
  | "hs" :: r => let (x, o) := famStep (hashed HashMap.hashBytes bytesCodec intCodec 0) st.hs r; ({ st with hs := x }, o)
  | "si" :: r => let (x, o) := famStep (sets HashMap.hashInt intCodec) st.si r; ({ st with si := x }, o)
  | "ss" :: r => let (x, o) := famStep (sets HashMap.hashBytes bytesCodec) st.ss r; ({ st with ss := x }, o)
  | "cv" :: r => (st, cv r)
  | _ => (st, "bad-op")

end Driver.C02

def main : IO Unit := Driver.loop Driver.C02.init Driver.C02.step
