import Driver.Common
import AslModel.Str
import AslModel.Csv
/-! Model driver for C03 (`asl::String`).  State: one `String` (`cur`) as `Option Rep`
(`none` = the model left the storage block: printed as `oob`, which the implementation never prints). -/
open Driver AslModel.Str

namespace Driver.C03

abbrev St := Option Rep

def showRep (r : Rep) : String :=
  let k := (cstr r.buf).length
  s!"s {r.len} {hex r.toList}" ++ (if k == r.len then "" else s!" strlen={k}")

def showO : Option Rep → String
  | some r => showRep r
  | none => "oob"

def showIdx : Option Nat → String
  | some k => toString k
  | none => "-1"

def showList : Option (List Rep) → String
  | none => "oob"
  | some l => " ".intercalate (toString l.length :: l.map fun r =>
      hex r.toList ++ (if (cstr r.buf).length == r.len then "" else "!strlen"))

/-- an `Array<String>` given as cells: a dead cell in the result would be printed as `dead` -/
def showCells : Option Rep.Cells → String
  | none => "oob"
  | some cs => match cs.mapM id with
    | some l => showList (some l)
    | none => "dead"

def b2s (b : Bool) : String := if b then "1" else "0"
def showOB : Option Bool → String | some b => b2s b | none => "oob"

def int? (s : String) : Option Int := s.toInt?
def nat? (s : String) : Option Nat := s.toNat?
def byte? (s : String) : Option UInt8 := (s.toNat?).map UInt8.ofNat

open AslModel.Str.Rep (piece Mut)

/-! ### a small `printf` (libc, modelled): `%[-0][width][.prec](s|c|i|d|u|x|X|lli|lld|llu|llx|%)` -/
inductive Arg where
  | s (b : Bytes)
  | i (x : Int)

def pad (left : Bool) (zero : Bool) (w : Nat) (b : Bytes) : Bytes :=
  let k := w - b.length
  if left then b ++ List.replicate k 32
  else if zero then
    match b with
    | 45 :: t => 45 :: (List.replicate k 48 ++ t)
    | _ => List.replicate k 48 ++ b
  else List.replicate k 32 ++ b

def hexDigits (upper : Bool) (x : Nat) : Bytes :=
  let rec go (fuel x : Nat) (acc : Bytes) : Bytes :=
    match fuel with
    | 0 => acc
    | f + 1 =>
      let d := x % 16
      let c : UInt8 := if d < 10 then UInt8.ofNat (48 + d) else UInt8.ofNat ((if upper then 55 else 87) + d)
      if x / 16 = 0 then c :: acc else go f (x / 16) (c :: acc)
  go 20 x []

def decInt (x : Int) : Bytes := if x < 0 then 45 :: utoa (-x).toNat else utoa x.toNat

def takeDigits : Bytes → Nat → Nat × Bytes
  | c :: t, acc => if 48 ≤ c ∧ c ≤ 57 then takeDigits t (acc * 10 + (c.toNat - 48)) else (acc, c :: t)
  | [], acc => (acc, [])

partial def fmtRun : Bytes → List Arg → Option Bytes
  | [], _ => some []
  | 37 :: 37 :: t, args => (fmtRun t args).map (37 :: ·)
  | 37 :: t, args =>
    let (left, t) := match t with | 45 :: u => (true, u) | _ => (false, t)
    let (zero, t) := match t with | 48 :: u => (true, u) | _ => (false, t)
    let (w, t) := takeDigits t 0
    let (prec, t) : Option Nat × Bytes := match t with
      | 46 :: u => let (p, u) := takeDigits u 0; (some p, u)
      | _ => (none, t)
    let t := match t with | 108 :: 108 :: u => u | _ => t     -- ll
    match t, args with
    | 115 :: u, Arg.s b :: as =>
      let b := match prec with | some p => b.take p | none => b
      (fmtRun u as).map (pad left false w b ++ ·)
    | 99 :: u, Arg.i x :: as => (fmtRun u as).map (pad left false w [UInt8.ofNat x.toNat] ++ ·)
    | 105 :: u, Arg.i x :: as => (fmtRun u as).map (pad left zero w (decInt x) ++ ·)
    | 100 :: u, Arg.i x :: as => (fmtRun u as).map (pad left zero w (decInt x) ++ ·)
    | 117 :: u, Arg.i x :: as => (fmtRun u as).map (pad left zero w (decInt x) ++ ·)
    | 120 :: u, Arg.i x :: as => (fmtRun u as).map (pad left zero w (hexDigits false x.toNat) ++ ·)
    | 88 :: u, Arg.i x :: as => (fmtRun u as).map (pad left zero w (hexDigits true x.toNat) ++ ·)
    | _, _ => none
  | c :: t, args => (fmtRun t args).map (c :: ·)

/-- args: `s:<hex>` or `i:<int>` -/
def parseArg (s : String) : Option Arg :=
  match s.splitOn ":" with
  | ["s", h] => (unhex h).map Arg.s
  | ["i", v] => (int? v).map Arg.i
  | _ => none

/-! ### floating point (K only): libc `strtod`/`atof` as exact correct rounding; the last step of `myatof`
(`double(y1) * pow(10.0, exp) * m`) in hardware doubles through Lean's `Float` (same libm `pow`) -/

/-- correctly rounded `±m · 10^e` as IEEE-754 binary64 bits (round half to even, subnormals, overflow to infinity) -/
def decToBits (neg : Bool) (m : Nat) (e : Int) : UInt64 :=
  let sign : UInt64 := if neg then (1 : UInt64) <<< 63 else 0
  if m = 0 then sign else
  let N0 := if e ≥ 0 then m * 10 ^ e.toNat else m
  let D0 := if e ≥ 0 then 1 else 10 ^ (-e).toNat
  let q (k : Int) : Nat × Nat × Nat :=
    let N := if k < 0 then N0 * 2 ^ (-k).toNat else N0
    let D := if k < 0 then D0 else D0 * 2 ^ k.toNat
    (N / D, N % D, D)
  let k0 : Int := (N0.log2 : Int) - (D0.log2 : Int) - 52
  let k := if (q k0).1 ≥ 2 ^ 53 then k0 + 1 else if (q k0).1 < 2 ^ 52 then k0 - 1 else k0
  let k := if k < -1074 then -1074 else k
  let (qq, rr, dd) := q k
  let qq := if 2 * rr > dd ∨ (2 * rr = dd ∧ qq % 2 = 1) then qq + 1 else qq
  let (qq, k) := if qq ≥ 2 ^ 53 then (qq / 2, k + 1) else (qq, k)
  if k + 1075 ≥ 2047 then sign ||| ((0x7FF : UInt64) <<< 52)
  else if qq < 2 ^ 52 then sign ||| qq.toUInt64
  else sign ||| ((k + 1075).toNat.toUInt64 <<< 52) ||| (qq - 2 ^ 52).toUInt64

def isDig (c : UInt8) : Bool := 48 ≤ c && c ≤ 57
def natOfDigits (d : Bytes) : Nat := d.foldl (fun a c => 10 * a + (c.toNat - 48)) 0

/-- libc `strtod` on decimal texts: blanks, sign, digits[.digits] | .digits, optional exponent with at least one digit;
    anything else ends the number (no inf/nan/hex forms: the generator does not produce them) -/
def strtodBits (s0 : Bytes) : UInt64 :=
  let s := s0.dropWhile cIsSpace
  let (neg, s) := match s with | 45 :: t => (true, t) | 43 :: t => (false, t) | _ => (false, s)
  let d1 := s.takeWhile isDig
  let s1 := s.dropWhile isDig
  let (d2, s2) := match s1 with
    | 46 :: t => (t.takeWhile isDig, t.dropWhile isDig)
    | _ => ([], s1)
  if d1.isEmpty && d2.isEmpty then 0 else
  let ex : Int := match s2 with
    | c :: t => if c == 101 || c == 69 then
        let (eneg, u) := match t with | 45 :: v => (true, v) | 43 :: v => (false, v) | _ => (false, t)
        let ed := u.takeWhile isDig
        if ed.isEmpty then 0 else (if eneg then -(natOfDigits ed : Int) else natOfDigits ed)
      else 0
    | [] => 0
  decToBits neg (natOfDigits (d1 ++ d2)) (ex - d2.length)

/-- `myatof(s)`: mantissa/exponent as in `AslModel.Csv.atofDec` (shared with C18), then the three floating-point
    operations of the code -/
def myatofFloat (s : Bytes) : Float :=
  let d := AslModel.Csv.atofDec s
  let e := wrap32 d.exp
  let y1 := Float.ofInt (wrap64 d.mant)
  -- `if (exp < -300) y = double(y1) * pow(10.0, exp + 300) * 1e-300; else y = double(y1) * pow(10.0, exp);`
  let y := if e < -300 then y1 * Float.pow 10.0 (Float.ofInt (e + 300)) * Float.ofBits 0x01a56e1fc2f8f359
           else y1 * Float.pow 10.0 (Float.ofInt e)
  y * (if d.neg then -1.0 else 1.0)

def hex64 (x : UInt64) : String := String.ofList ((List.range 16).map fun i => hexDigit ((x.toNat >>> (60 - 4 * i)) % 16))
def hex32 (x : UInt32) : String := String.ofList ((List.range 8).map fun i => hexDigit ((x.toNat >>> (28 - 4 * i)) % 16))

/-- "filler-filler-filler-filler": the other elements of the output array in the `split…self` ops -/
def fillerText : Bytes := [102, 105, 108, 108, 101, 114, 45, 102, 105, 108, 108, 101, 114, 45, 102, 105, 108, 108, 101, 114, 45,
  102, 105, 108, 108, 101, 114]

def sgn (x : Int) : Int := if x < 0 then -1 else if x > 0 then 1 else 0

/-- mutate `cur` -/
def upd (st : St) (f : Rep → Option Rep) : St × String :=
  let r := st.bind f
  (r, showO r)

/-- query `cur` -/
def qry (st : St) (f : Rep → String) : St × String :=
  (st, match st with | some r => f r | none => "oob")

def step (st : St) (ts : List String) : St × String :=
  match ts with
  -- construction
  | ["new", h] => match unhex h with
    | some b => let r := Rep.ofBytes b; (r, showO r) | none => (st, "bad-op")
  | ["newc", h] => match unhex h with
    | some b => let r := Rep.ofCStr b; (r, showO r) | none => (st, "bad-op")
  | ["newarr", h] => match unhex h with          -- String(const Array<char>&)
    | some b => let r := Rep.ofArray b; (r, showO r) | none => (st, "bad-op")
  | ["newbytes", h] => match unhex h with        -- String(const ByteArray&)
    | some b => let r := Rep.ofArray b; (r, showO r) | none => (st, "bad-op")
  | ["get"] => qry st showRep
  | ["copy"] => qry st fun r => showO r.copy
  -- in-place mutations
  | ["assign", h] => match unhex h with
    | some b => upd st fun r => r.mutate (.assign b) | none => (st, "bad-op")
  | ["append", h] => match unhex h with
    | some b => upd st fun r => r.mutate (.append b) | none => (st, "bad-op")
  | ["appendc", c] => match byte? c with
    | some c => upd st fun r => r.mutate (.appendChar c) | none => (st, "bad-op")
  | ["appendint", x] => match int? x with
    | some x => upd st fun r => r.mutate (.appendInt x) | none => (st, "bad-op")
  | ["appendself", a, b] => match nat? a, nat? b with
    | some a, some b => upd st fun r => r.mutate (.appendSelf a b)
    | _, _ => (st, "bad-op")
  | ["plusself"] => upd st fun r => r.mutate .plusSelf
  | ["assignself", a, b] => match nat? a, nat? b with
    | some a, some b => upd st fun r => r.mutate (.assignSelf a b)
    | _, _ => (st, "bad-op")
  | ["assigntail", a] => match nat? a with
    | some a => upd st fun r => r.mutate (.assignTail a)
    | none => (st, "bad-op")
  | ["selfeq"] => upd st fun r => r.mutate .selfEq
  | ["trim"] => upd st fun r => r.mutate .trim
  | ["clear"] => upd st fun r => r.mutate .clear
  | ["shrink", a] => match nat? a with
    | some a => upd st fun r => r.mutate (.shrink a) | none => (st, "bad-op")
  | ["grow", n, c] => match nat? n, byte? c with
    | some n, some c => upd st fun r => r.mutate (.grow n c)
    | _, _ => (st, "bad-op")
  | ["refill", n, c] => match nat? n, byte? c with
    | some n, some c => upd st fun r => r.mutate (.refill n c)
    | _, _ => (st, "bad-op")
  | ["reserve", n] => match nat? n with
    | some n => upd st fun r => r.mutate (.reserve n) | none => (st, "bad-op")
  | ["pokefix", a] => match nat? a with
    | some a => upd st fun r => r.mutate (.pokeFix a)
    | none => (st, "bad-op")
  | ["replaceme", a, b] => match byte? a, byte? b with
    | some a, some b => upd st fun r => r.mutate (.replaceMe a b)
    | _, _ => (st, "bad-op")
  -- queries
  | ["splitdic", h1, h2] => match unhex h1, unhex h2 with
    | some s1, some s2 => qry st fun r => if s1.isEmpty then "err empty" else
        let d := (splitDic r.view s1 s2).toArray.qsort (fun x y => x.1 < y.1) |>.toList
        " ".intercalate (toString d.length :: d.map fun kv => hex kv.1 ++ ":" ++ hex kv.2)
    | _, _ => (st, "bad-op")
  | ["indexof", h, a] => match unhex h, nat? a with
    | some p, some a => qry st fun r => showIdx (indexOf r.view p (a % (r.len + 1)))
    | _, _ => (st, "bad-op")
  | ["indexofc", c, a] => match byte? c, nat? a with
    | some c, some a => qry st fun r => showIdx (indexOfChar r.view c (a % (r.len + 1)))
    | _, _ => (st, "bad-op")
  | ["lastc", c] => match byte? c with
    | some c => qry st fun r => showIdx (strrchr c r.view) | none => (st, "bad-op")
  | ["last", h] => match unhex h with
    | some p => qry st fun r => if p.isEmpty then "err empty" else showIdx (lastIndexOf r.view p)
    | none => (st, "bad-op")
  | ["contains", h] => match unhex h with
    | some p => qry st fun r => b2s (r.contains p) | none => (st, "bad-op")
  | ["containsc", c] => match byte? c with
    | some c => qry st fun r => b2s (r.containsChar c) | none => (st, "bad-op")
  | ["starts", h] => match unhex h with
    | some p => qry st fun r => b2s (r.startsWith p) | none => (st, "bad-op")
  | ["ends", h] => match unhex h with
    | some p => qry st fun r => b2s (r.endsWith p)
    | none => (st, "bad-op")
  | ["startsc", c] => match byte? c with
    | some c => qry st fun r => showOB (r.startsWithChar c) | none => (st, "bad-op")
  | ["endsc", c] => match byte? c with
    | some c => qry st fun r => showOB (r.endsWithChar c) | none => (st, "bad-op")
  | ["cmp", h] => match unhex h with
    | some p => qry st fun r =>
        match Rep.ofBytes p with
        | some o => s!"{r.compare o} {b2s (r.eq o)} {b2s (r.ne o)} {b2s (r.lt o)} {b2s (r.eqCStr p)}"
        | none => "oob"
    | none => (st, "bad-op")
  | ["eqc", c] => match byte? c with
    | some c => qry st fun r => showOB (r.eqChar c) | none => (st, "bad-op")
  | ["at", a] => match nat? a with
    | some a => qry st fun r => match r.charAt (a % (r.len + 1)) with | some c => toString c | none => "oob"
    | none => (st, "bad-op")
  | ["flags"] => qry st fun r =>
      s!"{b2s r.ok} {b2s r.isEmpty} {showOB r.isTrue}"
  | ["substring", a, b] => match nat? a, nat? b with
    | some a, some b => qry st fun r => let (i, n) := piece r.len a b; showO (r.substring i (i + n))
    | _, _ => (st, "bad-op")
  | ["substr", i, n] => match int? i, int? n with
    | some i, some n => qry st fun r =>
        if n < 0 ∨ i < -(r.len : Int) ∨ n > 2147483647 ∨ i > 2147483647 then "err range" else showO (r.substr i n)
    | _, _ => (st, "bad-op")
  | ["trimmed"] => qry st fun r => showO r.trimmed
  | ["concat", h] => match unhex h with
    | some b => qry st fun r => showO (r.concat b) | none => (st, "bad-op")
  | ["concatc", c] => match byte? c with
    | some c => qry st fun r => showO (r.concat [c]) | none => (st, "bad-op")
  | ["rconcatc", c] => match byte? c with
    | some c => qry st fun r => showO (Rep.rconcatChar c r) | none => (st, "bad-op")
  | ["rconcat", h] => match unhex h with
    | some b => qry st fun r => showO (Rep.rconcat b r) | none => (st, "bad-op")
  | ["split", h] => match unhex h with
    | some sep => qry st fun r => if sep.isEmpty then "err empty" else showList (r.split sep)
    | none => (st, "bad-op")
  | ["splitjoin", h] => match unhex h with
    | some sep => qry st fun r => if sep.isEmpty then "err empty" else
        showO ((Rep.ofBytes sep).bind fun sp => (r.split sep).bind fun l => Rep.join sp l)
    | none => (st, "bad-op")
  -- case mapping: only the String invariants of the results (always "ok" here) and, for pure ASCII text, the mapped bytes
  | ["caseinv"] => qry st fun r =>
      let s := r.view
      if s.all (· < 128) then
        let up := s.map fun c => if 97 ≤ c ∧ c ≤ 122 then c - 32 else c
        let lo := s.map fun c => if 65 ≤ c ∧ c ≤ 90 then c + 32 else c
        s!"inv ok {hex up} {hex lo}"
      else "inv ok ~ ~"
  -- the output array holds the operands: out = [filler, cur, filler]; `out[1].split(sep, out)` etc.
  | ["splitself", h] => match unhex h with
    | some sep => qry st fun r => if sep.isEmpty then "err empty" else
        showCells ((Rep.ofCStr fillerText).bind fun f => (r.copy).bind fun c => (Rep.ofBytes sep).bind fun sp =>
          Rep.splitInto [some f, some c, some f] (.cell 1) (.ext sp))
    | none => (st, "bad-op")
  | ["splitwsself"] => qry st fun r =>
      showCells ((Rep.ofCStr fillerText).bind fun f => (r.copy).bind fun c => Rep.splitWsInto [some f, some c, some f] (.cell 1))
  | ["splitsepself", h] => match unhex h with
    | some sep => qry st fun r => if sep.isEmpty then "err empty" else
        showCells ((Rep.ofCStr fillerText).bind fun f => (Rep.ofBytes sep).bind fun sp =>
          Rep.splitInto [some f, some sp, some f] (.ext r) (.cell 1))
    | none => (st, "bad-op")
  | ["splitws"] => qry st fun r =>
      showList r.splitWs
  | "join" :: h :: ps => match unhex h, ps.mapM unhex with
    | some sep, some l =>
      (st, showO ((Rep.ofBytes sep).bind fun sp => (l.mapM Rep.ofBytes).bind fun rs => Rep.join sp rs))
    | _, _ => (st, "bad-op")
  | ["replace", a, b] => match unhex a, unhex b with
    | some a, some b => qry st fun r => if a.isEmpty then "err empty" else showO (r.replace a b)
    | _, _ => (st, "bad-op")
  | ["toint"] => qry st fun r => s!"{myatoi r.view} {cAtoi r.view}"
  | ["tolong"] => qry st fun r => s!"{myatol r.view}"
  -- number <-> text
  | ["itoa", x] => match int? x with
    | some x => (st, match Rep.ofInt x with
      | some r => s!"{showRep r} {myatoi r.view}" | none => "oob")
    | none => (st, "bad-op")
  | ["utoa", x] => match nat? x with
    | some x => (st, match Rep.ofUInt x with
      | some r => s!"{showRep r} {toU32 (cAtoi r.view)}" | none => "oob")
    | none => (st, "bad-op")
  | ["ltoa", x] => match int? x with
    | some x => (st, match Rep.ofLong x with
      | some r => s!"{showRep r} {myatol r.view}" | none => "oob")
    | none => (st, "bad-op")
  | ["ultoa", x] => match nat? x with
    | some x => (st, match Rep.ofULong x with
      | some r => s!"{showRep r} {toU64 (myatol r.view)}" | none => "oob")
    | none => (st, "bad-op")
  | ["atoi", h] => match unhex h with
    | some b => (st, s!"{myatoi b}") | none => (st, "bad-op")
  | ["atol", h] => match unhex h with
    | some b => (st, s!"{myatol b}") | none => (st, "bad-op")
  | ["bool", b] => (st, showO (Rep.ofBool (b == "1")))
  | ["ofchar", c] => match byte? c with
    | some c => (st, showO (Rep.ofChar c)) | none => (st, "bad-op")
  | ["repeat", c, n] => match byte? c, int? n with
    | some c, some n => (st, showO (Rep.repeatChar c n)) | _, _ => (st, "bad-op")
  -- floating point
  | ["dtoa", _, h] => match unhex h with
    | some text => (st, match Rep.ofDouble text with
      | some r => s!"{showRep r} D={hex64 (strtodBits r.view)} M={hex64 (myatofFloat r.view).toBits}" | none => "oob")
    | none => (st, "bad-op")
  | ["ftoa", _, h] => match unhex h with
    | some text => (st, match Rep.ofFloat text with
      | some r => s!"{showRep r} F={hex32 (myatofFloat r.view).toFloat32.toBits}" | none => "oob")
    | none => (st, "bad-op")
  | ["todouble", h] => match unhex h with
    | some b => (st, hex64 (strtodBits b)) | none => (st, "bad-op")
  | ["matof", h] => match unhex h with
    | some b => (st, s!"{hex64 (myatofFloat b).toBits} {hex32 (myatofFloat b).toFloat32.toBits}") | none => (st, "bad-op")
  -- printf-style constructors
  | "fmt" :: n0 :: f :: args => match nat? n0, unhex f, args.mapM parseArg with
    | some n0, some f, some as => match fmtRun f as with
      | some text => (st, showO (Rep.ofFormat n0 text))
      | none => (st, "bad-op")
    | _, _, _ => (st, "bad-op")
  | "fmtf" :: f :: args => match unhex f, args.mapM parseArg with
    | some f, some as => match fmtRun f as with
      | some text => (st, showO (Rep.ofF text))
      | none => (st, "bad-op")
    | _, _ => (st, "bad-op")
  | _ => (st, "bad-op")

end Driver.C03

def main : IO Unit := Driver.loop (some AslModel.Str.Rep.empty) Driver.C03.step
