import Driver.Common
import AslModel.Var
/-! Model driver for C04 (`asl::Var`): the op lines of `harness/c04.cpp` interpreted on `AslModel.Var`. -/
open Driver AslModel AslModel.Var

namespace Driver.C04

def nslots : Nat := 8

/-- `nslots` addressable root Vars + one hidden root (index `nslots`) that holds the fresh container of `p = Array<T>` / `p = Dic<T>` -/
def init : State := { heap := [], slots := List.replicate (nslots + 1) V.none }

def errStr : Err → String
  | .sharedGrowth => "skip-shared-growth"
  | .cyclic => "cyclic"
  | .nopath => "nopath"
  | .srcMoved => "skip-source-moved"
  | .badarg => "badarg"
  | .uaf => "UB:use-after-free"
  | .oob => "UB:out-of-range"
  | .rc => "UB:refcount"
  | .fuel => "UB:cyclic-structure"

def parseStep (s : String) : Option Step :=
  match s.toList with
  | 'i' :: r => (String.ofList r).toNat?.map Step.idx
  | 'k' :: r => (unhex (String.ofList r)).map Step.key
  | _ => none

/-- `2/i3/k6162` -/
def parsePath (s : String) : Option (Nat × List Step) :=
  match s.splitOn "/" with
  | [] => none
  | r :: steps => do
    let k ← r.toNat?
    if k ≥ nslots then none
    let st ← steps.mapM parseStep
    pure (k, st)

def parseInt (s : String) : Option Int := s.toInt?

def dyStr (d : Dy) : String := s!"{d.m}/{d.e}"

def dumpV : Nat → Heap → V → Except Err String
  | 0, _, _ => .error .fuel
  | f + 1, h, v =>
    match v with
    | .none => .ok "N"
    | .null => .ok "Z"
    | .bool b => .ok (if b then "B1" else "B0")
    | .int i => .ok s!"I{i}"
    | .num d => .ok ("D" ++ dyStr d)
    | .flt d => .ok ("F" ++ dyStr d)
    | .sstr s => .ok ("S" ++ hex s)
    | .str s => .ok ("S" ++ hex s)
    | .arr id => do
      let b ← getB h id
      let parts ← mapE b.items (fun kv => dumpV f h kv.2)
      pure ("[" ++ ",".intercalate parts ++ "]")
    | .obj id => do
      let b ← getB h id
      let parts ← mapE b.items (fun kv => (dumpV f h kv.2).map fun s => hex kv.1 ++ ":" ++ s)
      pure ("{" ++ ",".intercalate parts ++ "}")

def outOf (r : Except Err String) : String :=
  match r with
  | .ok s => s
  | .error e => errStr e

def b01 (b : Bool) : String := if b then "1" else "0"

def parseDy (a b : String) : Option Dy := do
  let m ← a.toInt?
  let e ← b.toNat?
  pure (Dy.norm m e)

def typeOfName (s : String) : Option Nat :=
  match s with
  | "NONE" => some tNONE | "NUL" => some tNUL | "NUMBER" => some tNUMBER | "BOOL" => some tBOOL
  | "INT" => some tINT | "SSTRING" => some tSSTRING | "FLOAT" => some tFLOAT | "STRING" => some tSTRING
  | "ARRAY" => some tARRAY | "OBJ" => some tOBJ
  | _ => none

/-- typed literal `i 5` / `u 7` / `l 9` / `d m e` / `f m e` / `b 1` / `s hex` / `c hex` -/
def parseLit (ts : List String) : Option Lit :=
  match ts with
  | ["i", n] => n.toInt?.map Lit.int
  | ["u", n] => n.toNat?.map Lit.uns
  | ["l", n] => n.toInt?.map Lit.long
  | ["L", n] => n.toInt?.map Lit.nlong
  | ["UL", n] => n.toNat?.map Lit.nulong
  | ["Q", n] => n.toNat?.map Lit.ulong
  | ["d", m, e] => (parseDy m e).map Lit.dbl
  | ["f", m, e] => (parseDy m e).map Lit.flt
  | ["b", x] => some (Lit.bool (x == "1"))
  | ["s", x] => (unhex x).map Lit.str
  | ["c", x] => (unhex x).map Lit.str
  | _ => none

/-- one element of a homogeneous container literal: kind `i` int, `s` hex string, `d` double `m:e` -/
def parseLit1 (kind tok : String) : Option Lit :=
  match kind with
  | "i" => tok.toInt?.map Lit.int
  | "s" => (unhex tok).map Lit.str
  | "d" => match tok.splitOn ":" with
    | [m, e] => (parseDy m e).map Lit.dbl
    | _ => none
  | _ => none

def parsePathP (s : String) : Option Path := (parsePath s).map fun p => { root := p.1, steps := p.2 }

def parseSlot (s : String) : Option Nat := do
  let k ← s.toNat?
  if k ≥ nslots then none
  pure k

/-- a mutating op line as a model `Op` -/
def parseOp (ts : List String) : Option Op :=
  match ts with
  | "set" :: ps :: "t" :: [tn] => do pure (.setType (← parsePathP ps) (← typeOfName tn))
  | "set" :: ps :: lit => do pure (.setLit (← parsePathP ps) (← parseLit lit))
  | ["setv", ps, qs] => do pure (.setV (← parsePathP ps) (← parsePathP qs))
  | ["app", ps, qs] => do pure (.app (← parsePathP ps) (← parsePathP qs))
  | "appl" :: ps :: lit => do pure (.appLit (← parsePathP ps) (← parseLit lit))
  | ["setkey", ps, qs, n] => do pure (.setKey (← parsePathP ps) (← parsePathP qs) (← n.toNat?))
  | ["setcs", ps, qs, n] => do pure (.setCs (← parsePathP ps) (← parsePathP qs) (← n.toNat?))
  | ["setsub", ps, n] => do pure (.setSub (← parsePathP ps) (← n.toNat?))
  | ["resize", ps, n] => do pure (.resize (← parsePathP ps) (← n.toNat?))
  | ["remat", ps, i, n] => do pure (.removeAt (← parsePathP ps) (← i.toInt?) (← n.toInt?))
  | ["rem", ps, k] => do pure (.removeKey (← parsePathP ps) (← unhex k))
  | ["clear", ps] => do pure (.clear (← parsePathP ps))
  | ["ext", ps, qs] => do pure (.extend (← parsePathP ps) (← parsePathP qs))
  | ["clone", ks, qs] => do pure (.clone (← parseSlot ks) (← parsePathP qs))
  | ["copy", ks, qs] => do pure (.copy (← parseSlot ks) (← parsePathP qs))
  | ["drop", ks] => do pure (.drop (← parseSlot ks))
  | "ctor" :: ks :: "t" :: [tn] => do pure (.ctorType (← parseSlot ks) (← typeOfName tn))
  | "ctor" :: ks :: "kv" :: [key, qs] => do pure (.ctorKV (← parseSlot ks) (← unhex key) (← parsePathP qs))
  | "ctor" :: ks :: "arr" :: kind :: vals => do pure (.ctorArr (← parseSlot ks) (← vals.mapM (parseLit1 kind)))
  | "ctor" :: ks :: "list" :: kind :: vals => do pure (.ctorArr (← parseSlot ks) (← vals.mapM (parseLit1 kind)))
  | "ctor" :: ks :: "dic" :: kind :: pairs => do
      pure (.ctorDic (← parseSlot ks) (← pairs.mapM fun kv => match kv.splitOn "=" with
        | [a, b] => do pure ((← unhex a), (← parseLit1 kind b))
        | _ => none))
  | "ctor" :: ks :: "varr" :: qs => do pure (.ctorVars (← parseSlot ks) (← qs.mapM parsePathP))
  | "ctor" :: ks :: lit => do pure (.ctorLit (← parseSlot ks) (← parseLit lit))
  | _ => none

def isMutName (s : String) : Bool :=
  ["set", "setv", "setsub", "setcs", "setkey", "app", "appl", "resize", "remat", "rem", "clear", "ext", "clone", "copy", "drop", "ctor"].contains s

def cgetP (σ : State) (p : Nat × List Step) : Except Err V := cget σ { root := p.1, steps := p.2 }

def convStr (σ : State) (v : V) : String :=
  let i := match toInt v with | some i => s!"{i}" | none => "u"
  let d := match toDouble v with
    | some (.inl d) => dyStr (Dy.norm d.m d.e)
    | some (.inr _) => "nan"
    | none => "u"
  let s := match strOf v with
    | some s => hex s
    | none => outOf ((toStr (travFuel σ.heap) σ.heap v).map hex)
  let l := match toLong v with | some i => s!"{i}" | none => "u"
  let ul := match toULong v with | some u => s!"{u}" | none => "u"
  s!"i={i} L={l} Q={ul} d={d} b={b01 (toBool v)} s={s}"

/-- `p = Array<T>` / `p = Dic<T>`: `AslModel.Var.assignFresh` with the hidden root as temporary -/
def assignFresh (guard : Bool) (σ : State) (p : Path) (ctor : Op) : State × String :=
  let r := Var.assignFresh guard σ nslots p ctor
  (r.1, match r.2 with | .ok _ => "ok" | .error e => errStr e)

def step (σ : State) (ts0 : List String) : State × String :=
  let (guard, ts) := match ts0 with
    | op :: rest => if op.startsWith "!" then (false, (op.drop 1).toString :: rest) else (true, ts0)
    | [] => (true, ts0)
  let bad := (σ, "bad-op")
  let fuel := travFuel σ.heap
  if ts == ["reset"] then (σ, "ok") else
  match ts with
  | [] => bad
  | "seta" :: ps :: kind :: vals =>
    match parsePathP ps, vals.mapM (parseLit1 kind) with
    | some p, some lits => assignFresh guard σ p (.ctorArr nslots lits)
    | _, _ => bad
  | "setd" :: ps :: kind :: pairs =>
    match parsePathP ps, (if kind == "i" || kind == "s" then pairs.mapM (fun kv => match kv.splitOn "=" with
        | [a, b] => do pure ((← unhex a), (← parseLit1 kind b))
        | _ => none) else none) with
    | some p, some kvs => assignFresh guard σ p (.ctorDic nslots kvs)
    | _, _ => bad
  | opn :: _ =>
    if isMutName opn then
      match parseOp ts with
      | none => bad
      | some op =>
        match applyOp guard σ op with
        | (σ1, .ok _) => (σ1, "ok")
        | (σ1, .error e) => (σ1, errStr e)
    else
  match ts with
  | ["dump", qs] =>
    match parsePath qs with
    | some q => (σ, outOf (do let v ← cgetP σ q; dumpV fuel σ.heap v))
    | none => bad
  | ["dumpall"] =>
    (σ, outOf (do
      let parts ← (σ.slots.take nslots).mapM fun v => dumpV fuel σ.heap v
      pure (" ".intercalate parts)))
  | ["eq", q1, q2] =>
    match parsePath q1, parsePath q2 with
    | some a, some b => (σ, outOf (do
        let v ← cgetP σ a
        let w ← cgetP σ b
        let r ← eqV fuel σ.heap v w
        let r2 ← eqV fuel σ.heap w v
        pure (b01 r ++ b01 r2)))
    | _, _ => bad
  | ["tostr", qs] =>
    match parsePath qs with
    | some q => (σ, outOf (do let v ← cgetP σ q; let s ← toStr fuel σ.heap v; pure (hex s)))
    | none => bad
  | ["len", qs] =>
    match parsePath qs with
    | some q => (σ, outOf (do let v ← cgetP σ q; let n ← lengthV σ.heap v; pure s!"{n}"))
    | none => bad
  | ["type", qs] =>
    match parsePath qs with
    | some q => (σ, outOf (do let v ← cgetP σ q; pure s!"{typeOf v}"))
    | none => bad
  | ["is", qs, tn] =>
    match parsePath qs, typeOfName tn with
    | some q, some t => (σ, outOf (do let v ← cgetP σ q; pure (b01 (isT v t))))
    | _, _ => bad
  | ["has", qs, k] =>
    match parsePath qs, unhex k with
    | some q, some k => (σ, outOf (do
        let v ← cgetP σ q
        let r ← hasV σ.heap v k
        pure (b01 r)))
    | _, _ => bad
  | ["hast", qs, k, tn] =>
    match parsePath qs, unhex k, typeOfName tn with
    | some q, some k, some t => (σ, outOf (do
        let v ← cgetP σ q
        let r ← hasTypeV σ.heap v k t
        pure (b01 r)))
    | _, _, _ => bad
  | ["get", qs, k] =>
    -- Var operator()(key) const: a copy of the property or Var()
    match parsePath qs, unhex k with
    | some q, some k => (σ, outOf (do
        let v ← cgetP σ q
        let x ← getKeyV σ.heap v k
        dumpV fuel σ.heap x))
    | _, _ => bad
  | ["contains", q1, q2] =>
    match parsePath q1, parsePath q2 with
    | some a, some b => (σ, outOf (do
        let v ← cgetP σ a
        let w ← cgetP σ b
        let r ← containsV fuel σ.heap v w
        pure (b01 r)))
    | _, _ => bad
  | ["conv", qs] =>
    match parsePath qs with
    | some q => (σ, outOf (do let v ← cgetP σ q; pure (convStr σ v)))
    | none => bad
  | ["rc", qs] =>
    match parsePath qs with
    | some q => (σ, outOf (do
        let v ← cgetP σ q
        match handleOf v with
        | some id => let b ← getB σ.heap id; pure s!"{b.rc}"
        | none => pure "-"))
    | none => bad
  | "eqlit" :: qs :: lit =>
    -- the typed overloads operator==(int|double|float|bool|const char*|const String&)
    match parsePath qs with
    | some q => (σ, outOf (do
        let v ← cgetP σ q
        match lit with
        | ["i", n] => match parseInt n with
          | some n => pure (b01 (numOf v == some (Dy.ofInt n)))
          | none => throw .badarg
        | ["d", m, e] => match parseDy m e with
          | some d => pure (b01 (numOf v == some d))
          | none => throw .badarg
        | ["f", m, e] => match parseDy m e with
          | some d => pure (b01 (numOf v == some d))      -- also for an INT: compared as doubles (commit cda9080)
          | none => throw .badarg
        | ["b", x] => pure (b01 (v == V.bool (x == "1")))
        | [c, x] =>
          if c == "s" || c == "c" then
            match unhex x, v with
            | some s, .str a => pure (b01 (a == s))
            | some s, .sstr a => pure (b01 (a == s))
            | some _, _ => pure "0"
            | none, _ => throw .badarg
          else throw .badarg
        | _ => throw .badarg))
    | none => bad
  | _ => bad

end Driver.C04

def main : IO Unit := Driver.loop Driver.C04.init Driver.C04.step
