import Driver.Common
import AslModel.Var
/-! Model driver for C04 (`asl::Var`): the op lines of `harness/c04.cpp` interpreted on `AslModel.Var`. -/
open Driver AslModel AslModel.Var

namespace Driver.C04

def nslots : Nat := 8

def init : State := { heap := [], slots := List.replicate nslots V.none }

def errStr : Err → String
  | .sharedGrowth => "skip-shared-growth"
  | .cyclic => "cyclic"
  | .nopath => "nopath"
  | .badarg => "badarg"
  | .uaf => "UB:use-after-free"
  | .oob => "UB:out-of-range"
  | .rc => "UB:refcount"
  | .fuel => "UB:cyclic-structure"

def parseStep (s : String) : Option Step :=
  match s.toList with
  | 'i' :: r => (String.ofList r).toNat?.map Step.idx
  | 'k' :: r => (unhex (String.ofList r)).map Step.key
  | _ => none

/-- `2/i3/k6162` -/
def parsePath (s : String) : Option (Nat × List Step) :=
  match s.splitOn "/" with
  | [] => none
  | r :: steps => do
    let k ← r.toNat?
    if k ≥ nslots then none
    let st ← steps.mapM parseStep
    pure (k, st)

def parseInt (s : String) : Option Int := s.toInt?

def dyStr (d : Dy) : String := s!"{d.m}/{d.e}"

mutual
def dumpV : Nat → Heap → V → Except Err String
  | 0, _, _ => .error .fuel
  | f + 1, h, v =>
    match v with
    | .none => .ok "N"
    | .null => .ok "Z"
    | .bool b => .ok (if b then "B1" else "B0")
    | .int i => .ok s!"I{i}"
    | .num d => .ok ("D" ++ dyStr d)
    | .flt d => .ok ("F" ++ dyStr d)
    | .sstr s => .ok ("S" ++ hex s)
    | .str s => .ok ("S" ++ hex s)
    | .arr id => do
      let b ← getB h id
      let parts ← dumpL f h b.items
      pure ("[" ++ ",".intercalate (parts.map (·.2)) ++ "]")
    | .obj id => do
      let b ← getB h id
      let parts ← dumpL f h b.items
      pure ("{" ++ ",".intercalate (parts.map fun kv => hex kv.1 ++ ":" ++ kv.2) ++ "}")
def dumpL : Nat → Heap → List (Bytes × V) → Except Err (List (Bytes × String))
  | 0, _, _ => .error .fuel
  | _ + 1, _, [] => .ok []
  | f + 1, h, (k, x) :: rest => do
    let s ← dumpV f h x
    let r ← dumpL f h rest
    pure ((k, s) :: r)
end

def outOf (r : Except Err String) : String :=
  match r with
  | .ok s => s
  | .error e => errStr e

def slotV (σ : State) (k : Nat) : V := σ.slots.getD k V.none

/-- value of a const path -/
def cget (σ : State) (p : Nat × List Step) : Except Err V := resolveConst σ.heap (slotV σ p.1) p.2

def b01 (b : Bool) : String := if b then "1" else "0"

/-- replace root variable `k` by `v` (already owning its reference) and destroy the old one -/
def replaceSlot (σ : State) (k : Nat) (v : V) : Except Err State := do
  let old := slotV σ k
  let σ1 := { σ with slots := σ.slots.set k v }
  let h ← drop σ1.heap [old]
  pure { σ1 with heap := h }

/-- a mutating op on the Var at mutable path `p`: resolve (auto-vivification), then `f` -/
def withTarget (guard : Bool) (σ : State) (p : Nat × List Step) (f : State → Loc → Except Err State) : State × String :=
  match resolveMut guard σ (.slot p.1) p.2 with
  | (σ1, .error e) => (σ1, errStr e)
  | (σ1, .ok t) =>
    match f σ1 t with
    | .ok σ2 => (σ2, "ok")
    | .error e => (σ1, errStr e)

def parseDy (a b : String) : Option Dy := do
  let m ← a.toInt?
  let e ← b.toNat?
  pure (Dy.norm m e)

def typeOfName (s : String) : Option Nat :=
  match s with
  | "NONE" => some tNONE | "NUL" => some tNUL | "NUMBER" => some tNUMBER | "BOOL" => some tBOOL
  | "INT" => some tINT | "SSTRING" => some tSSTRING | "FLOAT" => some tFLOAT | "STRING" => some tSTRING
  | "ARRAY" => some tARRAY | "OBJ" => some tOBJ
  | _ => none

/-- `*this = Var(x)` for a fresh temporary `x` built by `mk`: copy-assign, then the temporary is destroyed -/
def assignTemp (σ : State) (t : Loc) (mk : Heap → Except Err (Heap × V)) : Except Err State := do
  let (h1, tmp) ← mk σ.heap
  let σ2 ← assignV { σ with heap := h1 } t tmp
  let h3 ← drop σ2.heap [tmp]
  pure { σ2 with heap := h3 }

/-- scalar value of a typed literal `i 5` / `u 7` / `l 9` / `d m e` / `f m e` / `b 1` / `s hex` -/
def parseLit (ts : List String) : Option V :=
  match ts with
  | ["i", n] => (parseInt n).map mkInt
  | ["u", n] => n.toNat?.map mkUnsigned
  | ["l", n] => (parseInt n).map mkLong
  | ["d", m, e] => (parseDy m e).map mkDouble
  | ["f", m, e] => (parseDy m e).map mkFloat
  | ["b", x] => some (mkBool (x == "1"))
  | ["s", x] => (unhex x).map mkString
  | ["c", x] => (unhex x).map mkString
  | _ => none

def convStr (σ : State) (v : V) : String :=
  let i := match toInt v with | some i => s!"{i}" | none => "u"
  let d := match toDouble v with
    | some (.inl d) => dyStr (Dy.norm d.m d.e)
    | some (.inr _) => "nan"
    | none => "u"
  let s := match v with
    | .str s => hex s
    | .sstr s => hex s
    | _ => outOf ((toStr (travFuel σ.heap) σ.heap v).map hex)
  s!"i={i} d={d} b={b01 (toBool v)} s={s}"

def step (σ : State) (ts0 : List String) : State × String :=
  let (guard, ts) := match ts0 with
    | op :: rest => if op.startsWith "!" then (false, (op.drop 1).toString :: rest) else (true, ts0)
    | [] => (true, ts0)
  let bad := (σ, "bad-op")
  let fuel := travFuel σ.heap
  match ts with
  | ["reset"] => (σ, "ok")
  -- typed assignments at a mutable path
  | "set" :: ps :: lit =>
    match parsePath ps, lit with
    | some p, ["s", x] => match unhex x with
      | some s => withTarget guard σ p fun σ t => assignString σ t s
      | none => bad
    | some p, ["c", x] => match unhex x with
      | some s => withTarget guard σ p fun σ t => assignString σ t s
      | none => bad
    | some p, ["t", tn] => match typeOfName tn with
      | some ty => withTarget guard σ p fun σ t => assignTemp σ t fun h => mkType h ty
      | none => bad
    | some p, _ => match parseLit lit with
      | some v => withTarget guard σ p fun σ t => assignScalar σ t v
      | none => bad
    | none, _ => bad
  | ["setv", ps, qs] =>
    match parsePath ps, parsePath qs with
    | some p, some q =>
      withTarget guard σ p fun σ t => do
        let src ← cget σ q
        if (← wouldCycle σ.heap (parentOf t) src) then throw .cyclic
        assignV σ t src
    | _, _ => bad
  | ["app", ps, qs] =>
    match parsePath ps, parsePath qs with
    | some p, some q =>
      withTarget guard σ p fun σ t => do
        let src ← cget σ q
        let v ← readLoc σ t
        match v with
        | .arr id => if (← reaches (travFuel σ.heap) σ.heap id src) then throw .cyclic
        | .none =>
          if (← wouldCycle σ.heap (parentOf t) src) then throw .cyclic   -- the new array lives inside the parent
          -- `v << v` on an undefined v: the argument is a reference to the Var that has just become the array
          let (sl, _) ← resolveConstLoc σ.heap (some (.slot q.1)) (slotV σ q.1) q.2
          if sl == some t then throw .cyclic
        | _ => pure ()
        appendAt guard σ t src
    | _, _ => bad
  | "appl" :: ps :: lit =>
    -- template operator<<(const T&): `*this << (Var)x`
    match parsePath ps, parseLit lit with
    | some p, some v => withTarget guard σ p fun σ t => appendAt guard σ t v
    | _, _ => bad
  | ["resize", ps, n] =>
    match parsePath ps, n.toNat? with
    | some p, some n => withTarget guard σ p fun σ t => resizeV guard σ t n
    | _, _ => bad
  | ["remat", ps, i, n] =>
    match parsePath ps, i.toNat?, n.toNat? with
    | some p, some i, some n => withTarget guard σ p fun σ t => removeAtV σ t i n
    | _, _, _ => bad
  | ["rem", ps, k] =>
    match parsePath ps, unhex k with
    | some p, some k => withTarget guard σ p fun σ t => removeKeyV σ t k
    | _, _ => bad
  | ["clear", ps] =>
    match parsePath ps with
    | some p => withTarget guard σ p fun σ t => clearV σ t
    | none => bad
  | ["ext", ps, qs] =>
    match parsePath ps, parsePath qs with
    | some p, some q =>
      withTarget guard σ p fun σ t => do
        let src ← cget σ q
        let v ← readLoc σ t
        match v, src with
        | .obj id, .obj sid =>
          let b ← getB σ.heap id
          let sb ← getB σ.heap sid
          for kv in sb.items do
            if kv.2 != V.none then
              if (← reaches (travFuel σ.heap) σ.heap id kv.2) then throw .cyclic
          if guard && decide (b.rc > 1) && decide (b.items.length + extendNewKeys b.items sb.items > b.cap) then
            throw .sharedGrowth
        | .none, .obj sid =>
          if parentOf t == some sid then throw .cyclic    -- the new object is a property of `src` itself
          let sb ← getB σ.heap sid
          for kv in sb.items do
            if kv.2 != V.none then
              if (← wouldCycle σ.heap (parentOf t) kv.2) then throw .cyclic      -- the new object lives inside the parent
        | _, _ => pure ()
        extendV guard σ t src
    | _, _ => bad
  -- root variables
  | ["clone", ks, qs] =>
    match ks.toNat?, parsePath qs with
    | some k, some q =>
      if k ≥ nslots then bad else
      match (do
        let src ← cget σ q
        let (h1, c) ← cloneV fuel σ.heap src
        replaceSlot { σ with heap := h1 } k c) with
      | .ok σ1 => (σ1, "ok")
      | .error e => (σ, errStr e)
    | _, _ => bad
  | ["copy", ks, qs] =>
    match ks.toNat?, parsePath qs with
    | some k, some q =>
      if k ≥ nslots then bad else
      match (do
        let src ← cget σ q
        let h1 ← copyV σ.heap src
        replaceSlot { σ with heap := h1 } k src) with
      | .ok σ1 => (σ1, "ok")
      | .error e => (σ, errStr e)
    | _, _ => bad
  | ["drop", ks] =>
    match ks.toNat? with
    | some k =>
      if k ≥ nslots then bad else
      match replaceSlot σ k V.none with
      | .ok σ1 => (σ1, "ok")
      | .error e => (σ, errStr e)
    | none => bad
  | "ctor" :: ks :: lit =>
    match ks.toNat? with
    | some k =>
      if k ≥ nslots then bad else
      match lit with
      | ["t", tn] => match typeOfName tn with
        | some ty => match (do
            let (h1, v) ← mkType σ.heap ty
            replaceSlot { σ with heap := h1 } k v) with
          | .ok σ1 => (σ1, "ok")
          | .error e => (σ, errStr e)
        | none => bad
      | ["kv", key, qs] => match unhex key, parsePath qs with
        | some key, some q => match (do
            -- Var(const String& k, const Var& x): NEW_DIC; set(k, x)
            let src ← cget σ q
            let h1 ← copyV σ.heap src
            let (h2, id) := allocB h1 { emptyBlock true with items := [(key, src)] }
            replaceSlot { σ with heap := h2 } k (.obj id)) with
          | .ok σ1 => (σ1, "ok")
          | .error e => (σ, errStr e)
        | _, _ => bad
      | _ => match parseLit lit with
        | some v => match replaceSlot σ k v with
          | .ok σ1 => (σ1, "ok")
          | .error e => (σ, errStr e)
        | none => bad
    | none => bad
  -- queries on const paths
  | ["dump", qs] =>
    match parsePath qs with
    | some q => (σ, outOf (do let v ← cget σ q; dumpV fuel σ.heap v))
    | none => bad
  | ["dumpall"] =>
    (σ, outOf (do
      let parts ← σ.slots.mapM fun v => dumpV fuel σ.heap v
      pure (" ".intercalate parts)))
  | ["eq", q1, q2] =>
    match parsePath q1, parsePath q2 with
    | some a, some b => (σ, outOf (do
        let v ← cget σ a
        let w ← cget σ b
        let r ← eqV fuel σ.heap v w
        let r2 ← eqV fuel σ.heap w v
        pure (b01 r ++ b01 r2)))
    | _, _ => bad
  | ["tostr", qs] =>
    match parsePath qs with
    | some q => (σ, outOf (do let v ← cget σ q; let s ← toStr fuel σ.heap v; pure (hex s)))
    | none => bad
  | ["len", qs] =>
    match parsePath qs with
    | some q => (σ, outOf (do let v ← cget σ q; let n ← lengthV σ.heap v; pure s!"{n}"))
    | none => bad
  | ["type", qs] =>
    match parsePath qs with
    | some q => (σ, outOf (do let v ← cget σ q; pure s!"{typeOf v}"))
    | none => bad
  | ["is", qs, tn] =>
    match parsePath qs, typeOfName tn with
    | some q, some t => (σ, outOf (do let v ← cget σ q; pure (b01 (isT v t))))
    | _, _ => bad
  | ["has", qs, k] =>
    match parsePath qs, unhex k with
    | some q, some k => (σ, outOf (do
        let v ← cget σ q
        match v with
        | .obj id =>
          let b ← getB σ.heap id
          match Map.has Map.cmpBytes b.items k with
          | some r => pure (b01 r)
          | none => throw .oob
        | _ => pure "0"))
    | _, _ => bad
  | ["hast", qs, k, tn] =>
    match parsePath qs, unhex k, typeOfName tn with
    | some q, some k, some t => (σ, outOf (do
        let v ← cget σ q
        match v with
        | .obj id =>
          let b ← getB σ.heap id
          match Map.find Map.cmpBytes b.items k with
          | some (some x) => pure (b01 (isT x t))
          | some none => pure "0"
          | none => throw .oob
        | _ => pure "0"))
    | _, _, _ => bad
  | ["get", qs, k] =>
    -- Var operator()(key) const: a copy of the property or Var()
    match parsePath qs, unhex k with
    | some q, some k => (σ, outOf (do
        let v ← cget σ q
        match v with
        | .obj id =>
          let b ← getB σ.heap id
          match Map.find Map.cmpBytes b.items k with
          | some (some x) => dumpV fuel σ.heap x
          | some none => pure "N"
          | none => throw .oob
        | _ => pure "N"))
    | _, _ => bad
  | ["contains", q1, q2] =>
    match parsePath q1, parsePath q2 with
    | some a, some b => (σ, outOf (do
        let v ← cget σ a
        let w ← cget σ b
        match v with
        | .arr id =>
          let bl ← getB σ.heap id
          let r ← containsL fuel σ.heap bl.items w
          pure (b01 r)
        | _ => pure "0"))
    | _, _ => bad
  | ["conv", qs] =>
    match parsePath qs with
    | some q => (σ, outOf (do let v ← cget σ q; pure (convStr σ v)))
    | none => bad
  | ["rc", qs] =>
    match parsePath qs with
    | some q => (σ, outOf (do
        let v ← cget σ q
        match handleOf v with
        | some id => let b ← getB σ.heap id; pure s!"{b.rc}"
        | none => pure "-"))
    | none => bad
  | "eqlit" :: qs :: lit =>
    -- the typed overloads operator==(int|double|float|bool|const char*|const String&)
    match parsePath qs with
    | some q => (σ, outOf (do
        let v ← cget σ q
        match lit with
        | ["i", n] => match parseInt n with
          | some n => pure (b01 (numOf v == some (Dy.ofInt n)))
          | none => throw .badarg
        | ["d", m, e] => match parseDy m e with
          | some d => pure (b01 (numOf v == some d))
          | none => throw .badarg
        | ["f", m, e] => match parseDy m e with
          | some d => match v with
            | .int i => pure (b01 (Dy.ofIntF i == d))      -- `_i == other`: the int is converted to float
            | _ => pure (b01 (numOf v == some d))
          | none => throw .badarg
        | ["b", x] => pure (b01 (v == V.bool (x == "1")))
        | [c, x] =>
          if c == "s" || c == "c" then
            match unhex x, v with
            | some s, .str a => pure (b01 (a == s))
            | some s, .sstr a => pure (b01 (a == s))
            | some _, _ => pure "0"
            | none, _ => throw .badarg
          else throw .badarg
        | _ => throw .badarg))
    | none => bad
  | _ => bad

end Driver.C04

def main : IO Unit := Driver.loop Driver.C04.init Driver.C04.step
