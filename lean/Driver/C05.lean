import Driver.Common
import AslModel.Xdl
import AslModel.XdlDump
import AslModel.Dtoa
/-! Model driver for C05 (JSON/XDL encoder, round trip, file write/read). -/
open Driver AslModel AslModel.Xdl

namespace Driver.C05

/-- `v[key] = x` on a `Dic` (kept sorted by `strcmp`) -/
def bytesLt : List UInt8 → List UInt8 → Bool
  | [], [] => false
  | [], _ :: _ => true
  | _ :: _, [] => false
  | a :: s, b :: t => if a < b then true else if a > b then false else bytesLt s t

def dicSet : List (Bytes × EV) → Bytes → EV → List (Bytes × EV)
  | [], k, x => [(k, x)]
  | (k', y) :: t, k, x =>
    if k' = k then (k, x) :: t
    else if bytesLt k k' then (k, x) :: (k', y) :: t
    else (k', y) :: dicSet t k x

def hexToNat (s : String) : Option Nat :=
  s.toList.foldlM (fun acc c => (hexVal c).map (acc * 16 + ·)) 0

/-- the tree language of the op lines (prefix notation, one token per node) -/
partial def parseTree : List String → Option (EV × List String)
  | [] => none
  | tok :: rest =>
    let tag := tok.take 1
    let arg := (tok.drop 1).toString
    if tok = "z" then some (.none, rest)
    else if tok = "n" then some (.null, rest)
    else if tok = "t" then some (.bool true, rest)
    else if tok = "f" then some (.bool false, rest)
    else if tag.toString = "i" then arg.toInt?.map fun i => (.int i, rest)
    else if tag.toString = "d" then (hexToNat arg).map fun n => (.num (UInt64.ofNat n), rest)
    else if tag.toString = "F" then (hexToNat arg).map fun n => (.flt (Dtoa.floatToDouble (UInt32.ofNat n)), rest)
    else if tag.toString = "s" then (unhex arg).map fun b => (.str b, rest)
    else if tag.toString = "p" then arg.toNat?.map fun n => (.str (List.replicate n 97), rest)
    else if tag.toString = "r" then do
      let n ← arg.toNat?
      let (x, rest') ← parseTree rest
      pure (.arr (List.replicate n x), rest')
    else if tag.toString = "N" then do
      -- the item wrapped in n nested arrays
      let n ← arg.toNat?
      let (x, rest') ← parseTree rest
      pure ((List.range n).foldl (fun acc _ => EV.arr [acc]) x, rest')
    else if tag.toString = "O" then do
      -- the item wrapped in n nested objects {k: ...}
      let n ← arg.toNat?
      let (x, rest') ← parseTree rest
      pure ((List.range n).foldl (fun acc _ => EV.obj [([107], acc)]) x, rest')
    else if tag.toString = "a" then do
      let n ← arg.toNat?
      let rec items (k : Nat) (acc : List EV) (ts : List String) : Option (List EV × List String) :=
        match k with
        | 0 => some (acc.reverse, ts)
        | k + 1 => do
          let (x, ts') ← parseTree ts
          items k (x :: acc) ts'
      let (l, rest') ← items n [] rest
      pure (.arr l, rest')
    else if tag.toString = "o" then do
      let n ← arg.toNat?
      let rec members (k : Nat) (acc : List (Bytes × EV)) (ts : List String) : Option (List (Bytes × EV) × List String) :=
        match k with
        | 0 => some (acc, ts)
        | k + 1 =>
          match ts with
          | [] => none
          | kt :: ts1 => do
            let key ← unhex kt
            let (x, ts') ← parseTree ts1
            members k (dicSet acc key x) ts'
      let (ms, rest') ← members n [] rest
      pure (.obj ms, rest')
    else none

def g := Dtoa.fmtG

def showDec (r : Option (Option JV)) : String :=
  match r with
  | none => "fault"
  | some none => "none"
  | some (some v) => XdlDump.dump v

def withTree (mode : String) (ts : List String) (f : Mode → EV → String) : String :=
  match mode.toNat?, parseTree ts with
  | some m, some (v, []) => f (Mode.ofNat m) v
  | _, _ => "bad-op"

def step (_ : Unit) (ts : List String) : Unit × String :=
  let r : String := match ts with
    | "enc" :: mode :: tree => withTree mode tree fun m v => hex (encode g m v)
    | "rt" :: mode :: tree => withTree mode tree fun m v => showDec (decode (encode g m v))
    | "file" :: mode :: tree => withTree mode tree fun m v =>
        let chunks := writeChunks g m v
        let content := chunks.flatten
        let same := if content = encode g m v then "eq" else "ne"
        same ++ " " ++ showDec (readFile content)
    | "sink" :: mode :: tree => withTree mode tree fun m v =>
        " ".intercalate ((writeChunks g m v).map fun c => toString c.length)
    | _ => "bad-op"
  ((), r)

end Driver.C05

def main : IO Unit := Driver.loop () Driver.C05.step
