import Driver.Common
import AslModel.Xdl
import AslModel.Strtod
import AslModel.XdlDump
/-! Model driver for C06 (JSON/XDL decoder). -/
open Driver AslModel AslModel.Xdl AslModel.XdlDump

namespace Driver.C06

def showVal : Option (Option JV) → String
  | none => "fault"
  | some none => "none"
  | some (some v) => dump v

/-- cut `d` at the offsets `k mod (len+1)` (sorted) -/
def cutAt (d : Bytes) (ks : List Nat) : List Bytes :=
  let n := d.length
  let cs := ((ks.map (· % (n + 1))).toArray.qsort (· < ·)).toList
  let (chunks, rest, _) := cs.foldl (fun (acc : List Bytes × Bytes × Nat) c =>
      let (out, rest, pos) := acc
      let k := c - pos
      (rest.take k :: out, rest.drop k, pos + k)) ([], d, 0)
  (rest :: chunks).reverse

def flag (p : PState) : String := if (value p).isSome then "v" else "n"

def runChunks (cs : List Bytes) : String :=
  let r := cs.foldl (fun (acc : Option PState × String) c =>
      match acc.1 with
      | none => acc
      | some p => match parse p c with
        | none => (none, acc.2)
        | some p1 => (some p1, acc.2 ++ flag p1)) (some init, "")
  match r.1 with
  | none => "fault"
  | some p => match parse p [32] with
    | none => "fault"
    | some p2 => r.2 ++ " " ++ showVal (some (value p2))

/-- evidence only: the parser states the model passes through while decoding `d` -/
def statesOf (d : Bytes) : String :=
  let go := fun (acc : Option PState × List String) (c : UInt8) =>
    match acc.1 with
    | none => acc
    | some p => match stepByte p c with
      | none => (none, "FAULT" :: acc.2)
      | some (true, p1) => (none, reprStr p1.state :: acc.2)
      | some (false, p1) =>
        let n := (reprStr p1.state) ++ (if p1.inComment then "+comment" else "")
        (some p1, if acc.2.contains n then acc.2 else n :: acc.2)
  let r := ((cstr d) ++ [32]).foldl go (some init, [])
  " ".intercalate (r.2.map fun s => (s.splitOn ".").getLast!)

def step (st : Option PState) (ts : List String) : Option PState × String :=
  match ts with
  | ["dec", h] | ["xdec", h] => match unhex h with
    | some d => (st, showVal (decode d)) | none => (st, "bad-op")
  | ["prefix", h, k] => match unhex h, k.toNat? with
    | some d, some k => (st, showVal (decode (d.take (k % (d.length + 1))))) | _, _ => (st, "bad-op")
  | "chunks" :: h :: ks => match unhex h with
    | some d => (st, runChunks (cutAt d (ks.filterMap String.toNat?))) | none => (st, "bad-op")
  | ["feed", h] => match unhex h, st with
    | some d, some p => match parse p d with
      | some p1 => (some p1, flag p1)
      | none => (none, "fault")
    | some _, none => (none, "fault")
    | none, _ => (st, "bad-op")
  | ["end"] => match st with
    | some p => match parse p [32] with
      | some p1 => (some p1, showVal (some (value p1)))
      | none => (none, "fault")
    | none => (none, "fault")
  | ["nest", n, a, m, b] => match n.toNat?, unhex a, unhex m, unhex b with
    | some n, some a, some m, some b =>
      (st, showVal (decode ((List.replicate n a).flatten ++ m ++ (List.replicate n b).flatten)))
    | _, _, _, _ => (st, "bad-op")
  | ["reset"] => (some init, "ok")
  | ["states", h] => match unhex h with
    | some d => (st, statesOf d) | none => (st, "bad-op")
  | _ => (st, "bad-op")

end Driver.C06

def main : IO Unit := Driver.loop (some AslModel.Xdl.init) Driver.C06.step
